(* Lemmas about Model/Transpose.v, part 2: the fill pass of
   transpose_sparse_matrix_on_disk (blocks of output rows bounded by
   elements_at_a_time, load chunks, the next-free-slot table) writes exactly the
   specification, and the block loop terminates within the fuel given. *)
From Coq Require Import List Arith ZArith Lia Bool.
From CTM Require Import Base.Sx Base.ListX Model.Sparse Model.Transpose Proofs.SparseP Proofs.TransposeP.
Import ListNotations.

(* ================================================================ sortedness by column *)
Fixpoint esorted (l : list entry) : Prop :=
  match l with
  | [] => True
  | x :: t => Forall (fun y => e_major x <= e_major y) t /\ esorted t
  end.

Lemma sort_by_esorted l : esorted l -> sort_by e_major l = l.
Proof.
  unfold sort_by. induction l as [|x t IH]; intros H; [reflexivity|].
  destruct H as [HF HS]. cbn [fold_right]. rewrite IH by exact HS.
  destruct t as [|y t']; [reflexivity|]. cbn [ins_by].
  inversion HF as [|? ? Hy _]; subst.
  replace (e_major x <=? e_major y) with true by (symmetry; apply Nat.leb_le; exact Hy). reflexivity.
Qed.

Lemma esorted_filter f l : esorted l -> esorted (filter f l).
Proof.
  induction l as [|x t IH]; intros H; [exact Logic.I|]. destruct H as [HF HS]. cbn [filter].
  destruct (f x); [|apply IH; exact HS]. split; [|apply IH; exact HS].
  apply Forall_forall. intros y Hy. apply filter_In in Hy. destruct Hy as [Hy _].
  rewrite Forall_forall in HF. apply HF. exact Hy.
Qed.

Lemma esorted_app l1 l2 : esorted (l1 ++ l2) -> esorted l1 /\ esorted l2.
Proof.
  induction l1 as [|x t IH]; cbn [app]; intros H; [split; [exact Logic.I | exact H]|].
  destruct H as [HF HS]. destruct (IH HS) as [I1 I2]. split; [|exact I2]. split; [|exact I1].
  apply Forall_forall. intros y Hy. rewrite Forall_forall in HF. apply HF. apply in_or_app. left. exact Hy.
Qed.

Lemma esorted_shift lo l : esorted l -> esorted (map (shift_minor lo) l).
Proof.
  induction l as [|x t IH]; intros H; [exact Logic.I|]. destruct H as [HF HS]. cbn [map]. split; [|apply IH; exact HS].
  apply Forall_forall. intros y Hy. apply in_map_iff in Hy. destruct Hy as (y0 & <- & Hy0).
  rewrite Forall_forall in HF. cbn. apply HF. exact Hy0.
Qed.

Lemma esorted_apply_slice sl l : esorted l -> esorted (apply_slice sl l).
Proof.
  intros H. destruct sl as [s|]; cbn; [|exact H]. apply esorted_shift. apply esorted_filter. exact H.
Qed.

Lemma esorted_map_seq (f : nat -> entry) : forall n a,
  (forall i j, i <= j -> e_major (f i) <= e_major (f j)) -> esorted (map f (seq a n)).
Proof.
  induction n as [|n IH]; intros a H; [exact Logic.I|]. cbn [seq map]. split; [|apply IH; exact H].
  apply Forall_forall. intros y Hy. apply in_map_iff in Hy. destruct Hy as (k & <- & Hk).
  apply in_seq in Hk. apply H. lia.
Qed.

Lemma filter_le_mono p k k' :
  k <= k' -> length (filter (fun x => x <=? k) p) <= length (filter (fun x => x <=? k') p).
Proof.
  intros H. induction p as [|a t IH]; cbn [filter]; [lia|].
  destruct (Nat.leb_spec a k); destruct (Nat.leb_spec a k'); cbn [length]; lia.
Qed.

Lemma major_of_mono p k k' : k <= k' -> major_of p k <= major_of p k'.
Proof. intros H. unfold major_of. pose proof (filter_le_mono p k k' H). lia. Qed.

(* the stored entries, in storage order, are sorted by column - for any pointer array *)
Lemma all_entries_esorted m ud : esorted (all_entries m ud).
Proof.
  unfold all_entries. apply esorted_map_seq. intros i j H. cbn. apply major_of_mono. exact H.
Qed.

(* ================================================================ put *)
Lemma firstn_app_len {A} (a l : list A) : firstn (length a) (a ++ l) = a.
Proof. induction a as [|x t IH]; cbn; [reflexivity|]. rewrite IH. reflexivity. Qed.

Lemma skipn_app_len {A} (a l : list A) n : skipn (length a + n) (a ++ l) = skipn n l.
Proof. induction a as [|x t IH]; cbn [length app Nat.add skipn]; [reflexivity | exact IH]. Qed.

Lemma skipn_repeat {A} (z : A) k m : skipn k (repeat z m) = repeat z (m - k).
Proof.
  revert m. induction k as [|k IH]; intros m; [rewrite Nat.sub_0_r; reflexivity|].
  destruct m as [|m]; [reflexivity|]. cbn [repeat skipn]. apply IH.
Qed.

Lemma put_mid {A} (a f z b g : list A) :
  length g <= length z ->
  put (a ++ (f ++ z) ++ b) (length a + length f) g = a ++ (f ++ g ++ skipn (length g) z) ++ b.
Proof.
  intros H. unfold put.
  assert (E1 : firstn (length a + length f) (a ++ (f ++ z) ++ b) = a ++ f).
  { rewrite firstn_app_2. f_equal. rewrite <- app_assoc. apply firstn_app_len. }
  assert (E2 : skipn (length a + length f + length g) (a ++ (f ++ z) ++ b) = skipn (length g) z ++ b).
  { rewrite <- Nat.add_assoc, skipn_app_len. rewrite <- !app_assoc. rewrite skipn_app_len.
    rewrite skipn_app. replace (length g - length z) with 0 by lia. reflexivity. }
  rewrite E1, E2. rewrite <- !app_assoc. reflexivity.
Qed.

(* ================================================================ the block buffer *)
(* the part of a row's segment written so far, then zeros *)
Definition seg {A} (f : entry -> A) (z : A) (cnt : nat) (l : list entry) : list A :=
  map f l ++ repeat z (cnt - length l).

Definition buf {A} (f : entry -> A) (z : A) (Es : list entry) (F : nat -> list entry) (r0 n : nat) : list A :=
  concat (map (fun r => seg f z (length (out_row Es r)) (F r)) (seq r0 n)).

Lemma buf_ext {A} (f : entry -> A) z Es F G r0 n :
  (forall x, r0 <= x < r0 + n -> F x = G x) -> buf f z Es F r0 n = buf f z Es G r0 n.
Proof.
  intros H. unfold buf. f_equal. apply map_ext_in. intros x Hx. apply in_seq in Hx.
  rewrite (H x Hx). reflexivity.
Qed.

Lemma buf_app {A} (f : entry -> A) z Es F r0 n1 n2 :
  buf f z Es F r0 (n1 + n2) = buf f z Es F r0 n1 ++ buf f z Es F (r0 + n1) n2.
Proof. unfold buf. rewrite seq_app, map_app, concat_app. reflexivity. Qed.

Lemma buf_one {A} (f : entry -> A) z Es F r : buf f z Es F r 1 = seg f z (length (out_row Es r)) (F r).
Proof. unfold buf. cbn. apply app_nil_r. Qed.

Lemma seg_length {A} (f : entry -> A) z cnt l : length l <= cnt -> length (seg f z cnt l) = cnt.
Proof. intros H. unfold seg. rewrite app_length, map_length, repeat_length. lia. Qed.

Lemma buf_length {A} (f : entry -> A) z Es F r0 : forall n,
  (forall x, r0 <= x < r0 + n -> length (F x) <= length (out_row Es x)) ->
  length (buf f z Es F r0 n) = off Es (r0 + n) - off Es r0.
Proof.
  induction n as [|n IH]; intros H.
  - rewrite Nat.add_0_r. cbn. lia.
  - replace (S n) with (n + 1) by lia. rewrite buf_app, app_length, buf_one.
    rewrite IH by (intros x Hx; apply H; lia). rewrite seg_length by (apply H; lia).
    replace (r0 + (n + 1)) with (S (r0 + n)) by lia. rewrite off_S.
    pose proof (off_mono Es r0 (r0 + n)). lia.
Qed.

Lemma buf_split {A} (f : entry -> A) z Es F r0 n r :
  r0 <= r < r0 + n ->
  buf f z Es F r0 n =
  buf f z Es F r0 (r - r0) ++ seg f z (length (out_row Es r)) (F r) ++ buf f z Es F (S r) (r0 + n - S r).
Proof.
  intros H. replace n with ((r - r0) + (1 + (r0 + n - S r))) at 1 by lia.
  rewrite buf_app. f_equal. replace (r0 + (r - r0)) with r by lia.
  rewrite buf_app, buf_one. f_equal. f_equal. lia.
Qed.

(* writing a row's group behind what the row already holds *)
Lemma buf_put {A} (f : entry -> A) z Es F r0 n r (g : list entry) :
  r0 <= r < r0 + n ->
  (forall x, r0 <= x < r0 + n -> length (F x) <= length (out_row Es x)) ->
  length (F r) + length g <= length (out_row Es r) ->
  put (buf f z Es F r0 n) (off Es r + length (F r) - off Es r0) (map f g) =
  buf f z Es (fun x => if x =? r then F x ++ g else F x) r0 n.
Proof.
  intros Hr Hcap Hg.
  rewrite (buf_split f z Es F r0 n r Hr).
  rewrite (buf_split f z Es (fun x => if x =? r then F x ++ g else F x) r0 n r Hr).
  rewrite Nat.eqb_refl.
  rewrite (buf_ext f z Es (fun x => if x =? r then F x ++ g else F x) F r0 (r - r0)).
  2:{ intros x Hx. destruct (Nat.eqb_spec x r); [lia | reflexivity]. }
  rewrite (buf_ext f z Es (fun x => if x =? r then F x ++ g else F x) F (S r) (r0 + n - S r)).
  2:{ intros x Hx. destruct (Nat.eqb_spec x r); [lia | reflexivity]. }
  set (A0 := buf f z Es F r0 (r - r0)). set (B0 := buf f z Es F (S r) (r0 + n - S r)).
  assert (LA : length A0 = off Es r - off Es r0).
  { unfold A0. rewrite buf_length by (intros x Hx; apply Hcap; lia). f_equal. f_equal. lia. }
  pose proof (off_mono Es r0 r ltac:(lia)) as Hm.
  replace (off Es r + length (F r) - off Es r0) with (length A0 + length (map f (F r)))
    by (rewrite map_length; lia).
  unfold seg. rewrite put_mid by (rewrite map_length, repeat_length; lia).
  f_equal. f_equal. rewrite map_app, <- app_assoc. f_equal. f_equal.
  rewrite skipn_repeat, map_length, app_length. f_equal. lia.
Qed.

Lemma buf_empty {A} (f : entry -> A) z Es r0 : forall n,
  buf f z Es (fun _ => []) r0 n = repeat z (off Es (r0 + n) - off Es r0).
Proof.
  induction n as [|n IH].
  - rewrite Nat.add_0_r, Nat.sub_diag. reflexivity.
  - replace (S n) with (n + 1) by lia. rewrite buf_app, buf_one, IH. unfold seg. cbn [map length app].
    rewrite Nat.sub_0_r, <- repeat_app. f_equal.
    replace (r0 + (n + 1)) with (S (r0 + n)) by lia. rewrite off_S.
    pose proof (off_mono Es r0 (r0 + n)). lia.
Qed.

Lemma buf_full {A} (f : entry -> A) z Es r0 : forall n,
  buf f z Es (out_row Es) r0 n = map f (concat (map (out_row Es) (seq r0 n))).
Proof.
  intros n. unfold buf. rewrite concat_map, map_map. f_equal. apply map_ext. intros r.
  unfold seg. rewrite Nat.sub_diag. apply app_nil_r.
Qed.

(* ================================================================ the state of a block *)
(* F r = the entries of output row r written so far *)
Record binv (Es : list entry) (r0 r1 : nat) (nxt0 : list nat) (F : nat -> list entry) (st : bstate) : Prop :=
  { bi_len : length (b_next st) = length nxt0;
    bi_in  : forall r, r0 <= r < r1 -> nth r (b_next st) 0 = off Es r + length (F r);
    bi_out : forall r, ~ (r0 <= r < r1) -> nth r (b_next st) 0 = nth r nxt0 0;
    bi_idx : b_idx st = buf e_major 0 Es F r0 (r1 - r0);
    bi_dat : b_dat st = buf e_val 0%Z Es F r0 (r1 - r0);
    bi_ok  : b_ok st = true;
    bi_cap : forall r, r0 <= r < r1 -> length (F r) <= length (out_row Es r) }.

Lemma binv_ext Es r0 r1 nxt0 F G st :
  (forall x, r0 <= x < r1 -> F x = G x) -> binv Es r0 r1 nxt0 F st -> binv Es r0 r1 nxt0 G st.
Proof.
  intros HE [HL HI HO HX HD HK HC]. constructor.
  - exact HL.
  - intros r Hr. rewrite <- (HE r Hr). apply HI. exact Hr.
  - exact HO.
  - rewrite HX. apply buf_ext. intros x Hx. apply HE. lia.
  - rewrite HD. apply buf_ext. intros x Hx. apply HE. lia.
  - exact HK.
  - intros r Hr. rewrite <- (HE r Hr). apply HC. exact Hr.
Qed.

(* one output row of one load chunk *)
Lemma fill_row_step Es r0 r1 nxt0 F st c r :
  binv Es r0 r1 nxt0 F st -> r1 <= length nxt0 -> r0 <= r < r1 -> esorted c ->
  length (F r) + length (out_row c r) <= length (out_row Es r) ->
  binv Es r0 r1 nxt0 (fun x => if x =? r then F x ++ out_row c r else F x) (fill_row c (off Es r0) st r).
Proof.
  intros [HL HI HO HX HD HK HC] H1 Hr Hs Hcap.
  assert (G : sort_by e_major (filter (fun e => e_minor e =? r) c) = out_row c r).
  { apply sort_by_esorted. apply esorted_filter. exact Hs. }
  unfold fill_row. rewrite G. set (g := out_row c r) in *.
  assert (Hcap' : forall x, r0 <= x < r0 + (r1 - r0) -> length (F x) <= length (out_row Es x))
    by (intros x Hx; apply HC; lia).
  assert (Hr' : r0 <= r < r0 + (r1 - r0)) by lia.
  rewrite (HI r Hr).
  constructor; cbn [b_next b_idx b_dat b_ok].
  - rewrite upd_length. exact HL.
  - intros x Hx. destruct (Nat.eqb_spec x r) as [->|Hne].
    + rewrite nth_upd_eq by lia. rewrite app_length. lia.
    + rewrite nth_upd_neq by (intros E; apply Hne; symmetry; exact E). apply HI. exact Hx.
  - intros x Hx. rewrite nth_upd_neq by (intros ->; apply Hx; exact Hr). apply HO. exact Hx.
  - rewrite HX. apply buf_put; assumption.
  - rewrite HD. apply buf_put; assumption.
  - rewrite HK. cbn [andb]. apply Nat.leb_le. rewrite HX, buf_length by exact Hcap'.
    replace (r0 + (r1 - r0)) with r1 by lia.
    pose proof (off_mono Es r0 r ltac:(lia)). pose proof (off_mono Es (S r) r1 ltac:(lia)) as H2.
    rewrite off_S in H2. lia.
  - intros x Hx. destruct (Nat.eqb_spec x r) as [->|Hne]; [rewrite app_length; lia | apply HC; exact Hx].
Qed.

Lemma existsb_eqb_In x l : existsb (Nat.eqb x) l = true <-> In x l.
Proof.
  rewrite existsb_exists. split.
  - intros (y & Hy & E). apply Nat.eqb_eq in E. subst. exact Hy.
  - intros H. exists x. split; [exact H | apply Nat.eqb_refl].
Qed.

(* the rows of one load chunk, one after the other *)
Lemma fill_rows_fold Es r0 r1 nxt0 c : forall rs F st,
  r1 <= length nxt0 -> esorted c -> NoDup rs -> (forall r, In r rs -> r0 <= r < r1) ->
  (forall r, In r rs -> length (F r) + length (out_row c r) <= length (out_row Es r)) ->
  binv Es r0 r1 nxt0 F st ->
  binv Es r0 r1 nxt0 (fun x => if existsb (Nat.eqb x) rs then F x ++ out_row c x else F x)
       (fold_left (fill_row c (off Es r0)) rs st).
Proof.
  induction rs as [|a t IH]; intros F st H1 Hs ND Hin Hcap HB; cbn [fold_left].
  - eapply binv_ext; [|exact HB]. reflexivity.
  - inversion ND as [|? ? Ha NDt]; subst.
    pose proof (fill_row_step Es r0 r1 nxt0 F st c a HB H1 (Hin a (or_introl eq_refl)) Hs
                              (Hcap a (or_introl eq_refl))) as HB1.
    specialize (IH (fun x => if x =? a then F x ++ out_row c a else F x) (fill_row c (off Es r0) st a)
                   H1 Hs NDt (fun r Hr => Hin r (or_intror Hr))).
    eapply binv_ext; [|apply IH; [|exact HB1]].
    + intros x Hx. cbn beta. cbn [existsb].
      destruct (Nat.eqb_spec x a) as [->|Hne].
      * cbn [orb]. destruct (existsb (Nat.eqb a) t) eqn:E; [|reflexivity].
        apply existsb_eqb_In in E. contradiction.
      * cbn [orb]. reflexivity.
    + intros r Hr. cbn beta. destruct (Nat.eqb_spec r a) as [->|Hne]; [contradiction|].
      apply Hcap. right. exact Hr.
Qed.

(* fill_chunk on an already sliced chunk *)
Definition fill_chunk' (r0 r1 d0 : nat) (st : bstate) (c : list entry) : bstate :=
  fold_left (fill_row c d0) (uniq_in r0 (r1 - r0) (map e_minor c)) st.

Lemma out_row_absent c x : existsb (Nat.eqb x) (map e_minor c) = false -> out_row c x = [].
Proof.
  intros H. apply count_of_absent in H. rewrite count_of_out_row in H.
  destruct (out_row c x); [reflexivity | discriminate].
Qed.

Lemma fill_chunk_step Es r0 r1 nxt0 pre c st :
  r0 <= r1 -> r1 <= length nxt0 -> esorted c ->
  (forall r, r0 <= r < r1 -> length (out_row (pre ++ c) r) <= length (out_row Es r)) ->
  binv Es r0 r1 nxt0 (out_row pre) st ->
  binv Es r0 r1 nxt0 (out_row (pre ++ c)) (fill_chunk' r0 r1 (off Es r0) st c).
Proof.
  intros H0 H1 Hs Hcap HB. unfold fill_chunk'.
  set (rs := uniq_in r0 (r1 - r0) (map e_minor c)).
  eapply binv_ext; [|apply (fill_rows_fold Es r0 r1 nxt0 c rs (out_row pre) st H1 Hs)].
  - intros x Hx. cbn beta. rewrite out_row_app.
    destruct (existsb (Nat.eqb x) rs) eqn:E; [reflexivity|].
    rewrite (out_row_absent c x); [rewrite app_nil_r; reflexivity|].
    destruct (existsb (Nat.eqb x) (map e_minor c)) eqn:E2; [|reflexivity].
    assert (Hi : In x rs) by (apply uniq_in_In; split; [lia | exact E2]).
    apply existsb_eqb_In in Hi. congruence.
  - apply uniq_in_NoDup.
  - intros r Hr. apply uniq_in_In in Hr. lia.
  - intros r Hr. apply uniq_in_In in Hr. rewrite <- app_length, <- out_row_app. apply Hcap. lia.
  - exact HB.
Qed.

Lemma fill_chunks_fold Es r0 r1 nxt0 : forall cs pre st,
  r0 <= r1 -> r1 <= length nxt0 -> Es = pre ++ concat cs -> esorted Es ->
  binv Es r0 r1 nxt0 (out_row pre) st ->
  binv Es r0 r1 nxt0 (out_row Es) (fold_left (fill_chunk' r0 r1 (off Es r0)) cs st).
Proof.
  induction cs as [|c t IH]; intros pre st H0 H1 HS Hs HB; cbn [fold_left concat] in *.
  - rewrite app_nil_r in HS. subst pre. exact HB.
  - rewrite app_assoc in HS. apply (IH (pre ++ c)); try assumption.
    apply fill_chunk_step; try assumption.
    + rewrite HS in Hs. apply esorted_app in Hs. destruct Hs as [Hs _].
      apply esorted_app in Hs. tauto.
    + intros r Hr. rewrite HS. rewrite (out_row_app (pre ++ c)), app_length. lia.
Qed.

Lemma fold_left_map {A B C} (f : A -> B -> A) (g : C -> B) l : forall a,
  fold_left (fun a c => f a (g c)) l a = fold_left f (map g l) a.
Proof. induction l as [|x t IH]; intros a; cbn; [reflexivity | apply IH]. Qed.

(* one block [r0, r1) of output rows: all load chunks *)
Lemma fill_block_spec chunks sl n nxt r0 r1 :
  let Es := apply_slice sl (concat chunks) in
  esorted (concat chunks) ->
  r0 <= r1 -> r1 <= n -> length nxt = S n ->
  (forall r, r0 <= r < r1 -> nth r nxt 0 = off Es r) ->
  let st := fill_block chunks sl (0 :: cumsum_from 0 (cnts Es n)) nxt r0 r1 in
  b_ok st = true /\
  b_idx st = map e_major (concat (map (out_row Es) (seq r0 (r1 - r0)))) /\
  b_dat st = map e_val (concat (map (out_row Es) (seq r0 (r1 - r0)))) /\
  length (b_next st) = S n /\
  (forall r, r0 <= r < r1 -> nth r (b_next st) 0 = off Es (S r)) /\
  (forall r, ~ (r0 <= r < r1) -> nth r (b_next st) 0 = nth r nxt 0).
Proof.
  intros Es Hs H0 H1 HL Hn. cbn zeta. unfold fill_block.
  rewrite !nth_iptr by lia.
  change (fill_chunk sl r0 r1 (off Es r0))
    with (fun st ch => fill_chunk' r0 r1 (off Es r0) st (apply_slice sl ch)).
  rewrite fold_left_map.
  set (st0 := {| b_next := nxt; b_idx := repeat 0 (off Es r1 - off Es r0);
                 b_dat := repeat 0%Z (off Es r1 - off Es r0); b_ok := true |}).
  assert (HB0 : binv Es r0 r1 nxt (out_row []) st0).
  { constructor; cbn [b_next b_idx b_dat b_ok].
    - reflexivity.
    - intros r Hr. cbn. rewrite Nat.add_0_r. apply Hn. exact Hr.
    - reflexivity.
    - change (out_row []) with (fun _ : nat => @nil entry). rewrite buf_empty. replace (r0 + (r1 - r0)) with r1 by lia. reflexivity.
    - change (out_row []) with (fun _ : nat => @nil entry). rewrite buf_empty. replace (r0 + (r1 - r0)) with r1 by lia. reflexivity.
    - reflexivity.
    - intros r Hr. cbn. lia. }
  pose proof (fill_chunks_fold Es r0 r1 nxt (map (apply_slice sl) chunks) [] st0 H0 ltac:(lia)) as HB.
  cbn [app] in HB. specialize (HB (apply_slice_concat sl chunks) (esorted_apply_slice sl _ Hs) HB0).
  destruct HB as [BL BI BO BX BD BK BC].
  split; [exact BK|]. split; [rewrite BX; apply buf_full|]. split; [rewrite BD; apply buf_full|].
  split; [rewrite BL; exact HL|]. split; [|exact BO].
  intros r Hr. rewrite (BI r Hr), off_S. reflexivity.
Qed.

(* ================================================================ the block loop *)
Lemma next_block_some iptr E n r0 :
  length iptr = S n -> r0 < n -> exists r1, next_block iptr E r0 = Some r1 /\ r0 < r1 <= n.
Proof.
  intros HL Hr. unfold next_block. rewrite HL.
  destruct (find _ (seq (S r0) (S n - S r0))) as [r1|] eqn:E1.
  - exists r1. split; [reflexivity|]. apply find_some in E1. destruct E1 as [Hi _]. apply in_seq in Hi. lia.
  - exfalso. pose proof (find_none _ _ E1 n) as Hn. cbn beta in Hn.
    replace (S n - 1) with n in Hn by lia. rewrite Nat.eqb_refl, orb_true_r in Hn.
    assert (Hi : In n (seq (S r0) (S n - S r0))) by (apply in_seq; lia).
    specialize (Hn Hi). discriminate.
Qed.

Lemma next_block_none iptr E n : length iptr = S n -> next_block iptr E n = None.
Proof. intros HL. unfold next_block. rewrite HL, Nat.sub_diag. reflexivity. Qed.

Lemma spec_entries_app Es r0 r1 :
  r0 <= r1 -> spec_entries Es r1 = spec_entries Es r0 ++ concat (map (out_row Es) (seq r0 (r1 - r0))).
Proof.
  intros H. unfold spec_entries. replace r1 with (r0 + (r1 - r0)) at 1 by lia.
  rewrite seq_app, map_app, concat_app. reflexivity.
Qed.

Lemma put_prefix {A} (a g : list A) z k :
  length g <= k -> put (a ++ repeat z k) (length a) g = (a ++ g) ++ repeat z (k - length g).
Proof.
  intros H. pose proof (put_mid a [] (repeat z k) [] g) as P. cbn [app length] in P.
  rewrite Nat.add_0_r, !app_nil_r in P. rewrite P by (rewrite repeat_length; exact H).
  rewrite skipn_repeat, <- app_assoc. reflexivity.
Qed.

Lemma fill_blocks_spec chunks sl E n : forall fuel r0 nxt,
  let Es := apply_slice sl (concat chunks) in
  esorted (concat chunks) ->
  r0 <= n -> n - r0 <= fuel -> length nxt = S n ->
  (forall r, r0 <= r < n -> nth r nxt 0 = off Es r) ->
  exists bl,
    fill_blocks fuel chunks sl E (0 :: cumsum_from 0 (cnts Es n)) nxt r0
                (map e_major (spec_entries Es r0) ++ repeat 0 (off Es n - off Es r0))
                (map e_val (spec_entries Es r0) ++ repeat 0%Z (off Es n - off Es r0))
    = Ok (map e_major (spec_entries Es n), map e_val (spec_entries Es n), bl) /\
    chained r0 bl n.
Proof.
  intros fuel r0 nxt Es Hs. revert r0 nxt.
  induction fuel as [|f IH]; intros r0 nxt H0 Hf HL Hn.
  - assert (r0 = n) by lia. subst r0. cbn [fill_blocks].
    rewrite next_block_none by apply iptr_length.
    rewrite Nat.sub_diag. cbn [repeat]. rewrite !app_nil_r. exists []. split; reflexivity.
  - destruct (Nat.eq_dec r0 n) as [->|Hne].
    + cbn [fill_blocks]. rewrite next_block_none by apply iptr_length.
      rewrite Nat.sub_diag. cbn [repeat]. rewrite !app_nil_r. exists []. split; reflexivity.
    + destruct (next_block_some (0 :: cumsum_from 0 (cnts Es n)) E n r0 (iptr_length Es n) ltac:(lia))
        as (r1 & EN & Hr1).
      cbn [fill_blocks]. rewrite EN.
      destruct (fill_block_spec chunks sl n nxt r0 r1 Hs ltac:(lia) ltac:(lia) HL
                                (fun r Hr => Hn r ltac:(lia)))
        as (BK & BX & BD & BL & BI & BO).
      fold Es in BK, BX, BD, BL, BI, BO.
      set (st := fill_block chunks sl (0 :: cumsum_from 0 (cnts Es n)) nxt r0 r1) in *.
      rewrite BK. rewrite !nth_iptr by lia.
      pose proof (off_mono Es r0 r1 ltac:(lia)) as M01. pose proof (off_mono Es r1 n ltac:(lia)) as M1n.
      assert (LO : length (map e_major (spec_entries Es r0) ++ repeat 0 (off Es n - off Es r0)) = off Es n).
      { rewrite app_length, map_length, repeat_length, spec_entries_off. lia. }
      rewrite LO. replace (off Es r1 <=? off Es n) with true by (symmetry; apply Nat.leb_le; exact M1n).
      cbn [andb].
      set (blk := concat (map (out_row Es) (seq r0 (r1 - r0)))) in *.
      assert (LB : length blk = off Es r1 - off Es r0).
      { pose proof (spec_entries_app Es r0 r1 ltac:(lia)) as SA. fold blk in SA.
        apply (f_equal (@length _)) in SA. rewrite app_length, !spec_entries_off in SA. lia. }
      assert (P1 : put (map e_major (spec_entries Es r0) ++ repeat 0 (off Es n - off Es r0)) (off Es r0) (b_idx st)
                   = map e_major (spec_entries Es r1) ++ repeat 0 (off Es n - off Es r1)).
      { rewrite BX. replace (off Es r0) with (length (map e_major (spec_entries Es r0))) at 2
          by (rewrite map_length; apply spec_entries_off).
        rewrite put_prefix by (rewrite map_length; lia).
        rewrite (spec_entries_app Es r0 r1) by lia. fold blk. rewrite map_app, map_length. f_equal. f_equal. lia. }
      assert (P2 : put (map e_val (spec_entries Es r0) ++ repeat 0%Z (off Es n - off Es r0)) (off Es r0) (b_dat st)
                   = map e_val (spec_entries Es r1) ++ repeat 0%Z (off Es n - off Es r1)).
      { rewrite BD. replace (off Es r0) with (length (map e_val (spec_entries Es r0))) at 2
          by (rewrite map_length; apply spec_entries_off).
        rewrite put_prefix by (rewrite map_length; lia).
        rewrite (spec_entries_app Es r0 r1) by lia. fold blk. rewrite map_app, map_length. f_equal. f_equal. lia. }
      rewrite P1, P2.
      destruct (IH r1 (b_next st)) as (bl & EQ & CH); try lia.
      * intros r Hr. destruct (le_lt_dec r1 r) as [Hge|Hlt].
        -- rewrite BO by lia. apply Hn. lia.
        -- lia.
      * rewrite EQ. cbn [bind fst snd]. exists ((r0, r1) :: bl). split; [reflexivity|].
        cbn [chained fst snd]. repeat split; try lia. exact CH.
Qed.

(* ================================================================ the whole function *)
Lemma existsb_ge_false n l : Forall (fun r => r < n) l -> existsb (fun r => n <=? r) l = false.
Proof.
  induction 1 as [|x t Hx _ IH]; cbn; [reflexivity|]. rewrite IH.
  replace (n <=? x) with false by (symmetry; apply Nat.leb_gt; exact Hx). reflexivity.
Qed.

Theorem transpose_exact m ud imax sl E L Lc :
  1 <= L -> 1 <= Lc ->
  (ud = true -> length (dat m) = length (idx m)) ->
  (sl = None -> Forall (fun r => r < imax) (idx m)) ->
  exists t, transpose m ud imax sl E L Lc = Ok t /\
            t_out t = transpose_spec m ud imax sl /\
            chained 0 (t_blocks t) (n_out_of imax sl).
Proof.
  intros HL HLc Hd Hi. unfold transpose.
  replace (L =? 0) with false by (symmetry; apply Nat.eqb_neq; lia).
  replace (Lc =? 0) with false by (symmetry; apply Nat.eqb_neq; lia). cbn [orb].
  set (n := n_out_of imax sl). set (es := all_entries m ud). set (Es := apply_slice sl es).
  assert (G1 : ud && negb (length (dat m) =? length (idx m)) = false).
  { destruct ud; [|reflexivity]. rewrite (Hd eq_refl), Nat.eqb_refl. reflexivity. }
  rewrite G1.
  assert (G2 : match sl with None => existsb (fun r => n <=? r) (idx m) | Some _ => false end = false).
  { destruct sl; [reflexivity|]. apply existsb_ge_false. apply Hi. reflexivity. }
  rewrite G2. rewrite calc_indptr_spec by exact HLc. cbn [fst snd]. fold Es.
  assert (HT : off Es n = length Es) by (apply off_total; apply apply_slice_minor_lt; exact Hi).
  assert (CC : concat (chunks_of es L) = es) by (apply chunks_of_concat; exact HL).
  destruct (fill_blocks_spec (chunks_of es L) sl E n (S n) 0 (0 :: cumsum_from 0 (cnts Es n)))
    as (bl & EQ & CH).
  - rewrite CC. apply all_entries_esorted.
  - lia.
  - lia.
  - apply iptr_length.
  - intros r Hr. rewrite CC. apply nth_iptr. lia.
  - cbn zeta in EQ. rewrite CC in EQ. fold Es in EQ.
    change (spec_entries Es 0) with (@nil entry) in EQ. cbn [map app] in EQ.
    change (off Es 0) with 0 in EQ. rewrite Nat.sub_0_r, HT in EQ.
    rewrite EQ. cbn [bind fst snd].
    eexists. split; [reflexivity|]. cbn [t_out t_blocks]. split; [|exact CH].
    unfold transpose_spec. fold es Es n. fold (cnts Es n). reflexivity.
Qed.

(* ================================================================ an empty slice *)
Lemma out_row_nil r : out_row [] r = [].
Proof. reflexivity. Qed.

Lemma cumsum_zeros : forall n, cumsum_from 0 (repeat 0 n) = repeat 0 n.
Proof. induction n as [|n IH]; [reflexivity|]. cbn [repeat cumsum_from Nat.add]. rewrite IH. reflexivity. Qed.

Lemma map_const_repeat {A B} (b : B) : forall (l : list A), map (fun _ => b) l = repeat b (length l).
Proof. induction l as [|x t IH]; [reflexivity|]. cbn. rewrite IH. reflexivity. Qed.

(* the specification on a slice without any stored entry: the empty matrix, whose
   pointer array is n_out + 1 zeros *)
Lemma transpose_spec_empty m ud imax sl :
  length (apply_slice sl (all_entries m ud)) = 0 ->
  transpose_spec m ud imax sl =
  {| ptr := repeat 0 (S (n_out_of imax sl)); idx := []; dat := [] |}.
Proof.
  intros Hz. apply length_zero_iff_nil in Hz. unfold transpose_spec. rewrite Hz.
  assert (SE : spec_entries [] (n_out_of imax sl) = []).
  { unfold spec_entries. induction (seq 0 (n_out_of imax sl)) as [|r t IH]; [reflexivity | exact IH]. }
  rewrite SE. cbn [map]. f_equal.
  - cbn [repeat]. f_equal.
    rewrite (map_ext (fun r => length (out_row [] r)) (fun _ => 0)) by reflexivity.
    rewrite map_const_repeat, seq_length. apply cumsum_zeros.
  - destruct ud; reflexivity.
Qed.

(* what used to be finding F2 (a value array but no stored value in the slice made
   h5py refuse chunks=(0,)): with or without a value array, a slice (or a whole
   matrix) without any stored entry transposes to the empty matrix *)
Theorem transpose_empty_slice m ud imax sl E L Lc :
  1 <= L -> 1 <= Lc -> (ud = true -> length (dat m) = length (idx m)) ->
  (sl = None -> Forall (fun r => r < imax) (idx m)) ->
  length (apply_slice sl (all_entries m ud)) = 0 ->
  exists t, transpose m ud imax sl E L Lc = Ok t /\
            t_out t = {| ptr := repeat 0 (S (n_out_of imax sl)); idx := []; dat := [] |} /\
            chained 0 (t_blocks t) (n_out_of imax sl).
Proof.
  intros HL HLc Hd Hi Hz.
  destruct (transpose_exact m ud imax sl E L Lc HL HLc Hd Hi) as (t & EQ & EO & CH).
  exists t. split; [exact EQ|]. split; [|exact CH].
  rewrite EO. apply transpose_spec_empty. exact Hz.
Qed.
