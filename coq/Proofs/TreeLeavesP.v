(* Lemmas about Model/Tree.v, part 2: leaf lists (as_leaves) and leaf pairs. *)
From Coq Require Import ZArith List Bool Lia Permutation.
From CTM Require Import Base.Sx Base.ListX Base.SortX Model.Tree Proofs.TreeValidateP.
Import ListNotations.
Open Scope Z_scope.

(* ------------------------------------------------------------------ generic list facts *)
Definition disjoint {A} (l1 l2 : list A) : Prop := forall x, In x l1 -> ~ In x l2.

Lemma NoDup_flat_map {A B} (f : A -> list B) l :
  NoDup l -> (forall x, In x l -> NoDup (f x)) ->
  (forall x y, In x l -> In y l -> x <> y -> disjoint (f x) (f y)) ->
  NoDup (flat_map f l).
Proof.
  induction l as [|a t IH]; intros ND H1 H2; cbn; [constructor|].
  inversion ND; subst. apply NoDup_app.
  - apply H1. left; reflexivity.
  - apply IH; [assumption | intros x Hx; apply H1; right; exact Hx|].
    intros x y Hx Hy. apply H2; right; assumption.
  - intros b Hb Hb'. apply in_flat_map in Hb'. destruct Hb' as (y & Hy & Hby).
    refine (H2 a y (or_introl eq_refl) (or_intror Hy) _ b Hb Hby). intros ->. contradiction.
Qed.

Lemma NoDup_flat_map_inv {A B} (f : A -> list B) l x y b :
  NoDup (flat_map f l) -> In x l -> In y l -> In b (f x) -> In b (f y) -> x = y.
Proof.
  induction l as [|a t IH]; cbn; intros ND Hx Hy Hbx Hby; [contradiction|].
  apply NoDup_app_inv in ND. destruct ND as (N1 & N2 & N3).
  destruct Hx as [<-|Hx], Hy as [<-|Hy]; [reflexivity | | |apply IH; assumption].
  - exfalso. apply (N3 b Hbx). apply in_flat_map. exists y. split; assumption.
  - exfalso. apply (N3 b Hby). apply in_flat_map. exists x. split; assumption.
Qed.

Lemma NoDup_map_in_inj {A B} (f : A -> B) l :
  NoDup l -> (forall x y, In x l -> In y l -> f x = f y -> x = y) -> NoDup (map f l).
Proof.
  induction l as [|a t IH]; intros ND Hinj; cbn; [constructor|].
  inversion ND; subst. constructor.
  - rewrite in_map_iff. intros (y & E & Hy).
    assert (y = a) by (apply Hinj; [right; exact Hy | left; reflexivity | exact E]). subst. contradiction.
  - apply IH; [assumption|]. intros x y Hx Hy. apply Hinj; right; assumption.
Qed.

Lemma NoDup_list_prod {A B} (l1 : list A) (l2 : list B) : NoDup l1 -> NoDup l2 -> NoDup (list_prod l1 l2).
Proof.
  intros N1 N2. induction l1 as [|a t IH]; cbn; [constructor|].
  inversion N1 as [|? ? Hni Hnd]; subst. apply NoDup_app.
  - apply NoDup_map_in_inj; [exact N2|]. intros x y _ _ E. congruence.
  - apply IH. exact Hnd.
  - intros [x y] Hx1 Hx2. apply in_map_iff in Hx1. destruct Hx1 as (z & E & _). inversion E; subst.
    apply in_prod_iff in Hx2. tauto.
Qed.

Lemma flat_map_flat_map {A B C} (f : A -> list B) (g : B -> list C) l :
  flat_map g (flat_map f l) = flat_map (fun x => flat_map g (f x)) l.
Proof. induction l as [|a t IH]; cbn; [reflexivity|]. rewrite flat_map_app, IH. reflexivity. Qed.

Lemma flat_map_singleton {A} (l : list A) : flat_map (fun x => [x]) l = l.
Proof. induction l as [|a t IH]; cbn; [reflexivity | rewrite IH; reflexivity]. Qed.

Lemma flat_map_perm_pointwise {A B} (f g : A -> list B) l :
  (forall x, In x l -> Permutation (f x) (g x)) -> Permutation (flat_map f l) (flat_map g l).
Proof.
  induction l as [|a t IH]; intros H; cbn; [constructor|].
  apply Permutation_app; [apply H; left; reflexivity | apply IH; intros x Hx; apply H; right; exact Hx].
Qed.

(* itertools.combinations(l, 2) *)
Lemma combos2_in {A} (l : list A) a b : In (a, b) (combos2 l) -> In a l /\ In b l.
Proof.
  induction l as [|x t IH]; cbn; [tauto|]. rewrite in_app_iff, in_map_iff.
  intros [(y & E & Hy)|H]; [inversion E; subst; tauto | destruct (IH H); tauto].
Qed.

Lemma combos2_nodup_neq {A} (l : list A) a b : NoDup l -> In (a, b) (combos2 l) -> a <> b.
Proof.
  induction l as [|x t IH]; cbn; intros ND; [tauto|]. inversion ND; subst.
  rewrite in_app_iff, in_map_iff. intros [(y & E & Hy)|H]; [inversion E; subst; intros ->; contradiction | apply IH; assumption].
Qed.

Lemma combos2_total {A} (l : list A) a b : In a l -> In b l -> a <> b ->
  In (a, b) (combos2 l) \/ In (b, a) (combos2 l).
Proof.
  induction l as [|x t IH]; cbn; [tauto|]. intros Ha Hb Hne. rewrite !in_app_iff, !in_map_iff.
  destruct Ha as [<-|Ha], Hb as [<-|Hb].
  - congruence.
  - left. left. exists b. tauto.
  - right. left. exists a. tauto.
  - destruct (IH Ha Hb Hne); tauto.
Qed.

Lemma combos2_not_both {A} (l : list A) a b : NoDup l -> In (a, b) (combos2 l) -> ~ In (b, a) (combos2 l).
Proof.
  induction l as [|x t IH]; cbn; intros ND; [tauto|]. inversion ND as [|? ? Hni Hnd]; subst.
  rewrite !in_app_iff, !in_map_iff. intros [(y & E & Hy)|H] [(z & E' & Hz)|H'].
  - inversion E; inversion E'; subst. contradiction.
  - inversion E; subst. apply combos2_in in H'. tauto.
  - inversion E'; subst. apply combos2_in in H. tauto.
  - apply (IH Hnd H H').
Qed.

Lemma combos2_nodup {A} (l : list A) : NoDup l -> NoDup (combos2 l).
Proof.
  induction l as [|x t IH]; cbn; intros ND; [constructor|]. inversion ND as [|? ? Hni Hnd]; subst. apply NoDup_app.
  - apply NoDup_map_in_inj; [exact Hnd|]. intros a b _ _ E. congruence.
  - apply IH. exact Hnd.
  - intros [a b] Hx1 Hx2. apply in_map_iff in Hx1. destruct Hx1 as (y & E & _). inversion E; subst.
    apply combos2_in in Hx2. tauto.
Qed.

(* ------------------------------------------------------------------ leaves_from = reachability *)
Fixpoint reach (rest : list level) (x l : node) : Prop :=
  match rest with
  | [] => False
  | lv :: below => match below with
                   | [] => l = x
                   | _ :: _ => exists c, In c (children_of lv x) /\ reach below c l
                   end
  end.

Lemma leaves_from_in rest x l : In l (leaves_from rest x) <-> reach rest x l.
Proof.
  revert x. induction rest as [|lv below IH]; intros x; [cbn; tauto|].
  destruct below as [|lv2 below2].
  - cbn. split; [intros [H|[]]; congruence | intros ->; left; reflexivity].
  - destruct below2 as [|lv3 below3].
    + cbn. split.
      * intros H. exists l. split; [exact H | reflexivity].
      * intros (c & Hc & ->). exact Hc.
    + change (leaves_from (lv :: lv2 :: lv3 :: below3) x)
        with (flat_map (leaves_from (lv2 :: lv3 :: below3)) (zsort (children_of lv x))).
      change (reach (lv :: lv2 :: lv3 :: below3) x l)
        with (exists c, In c (children_of lv x) /\ reach (lv2 :: lv3 :: below3) c l).
      rewrite in_flat_map. split.
      * intros (c & Hc & Hl). exists c. split; [apply zsort_in; exact Hc | apply IH; exact Hl].
      * intros (c & Hc & Hl). exists c. split; [apply zsort_in; exact Hc | apply IH; exact Hl].
Qed.

(* one step of the recursion, up to the order in which children are visited *)
Lemma leaves_from_step lv lv2 below x :
  Permutation (leaves_from (lv :: lv2 :: below) x)
              (flat_map (leaves_from (lv2 :: below)) (children_of lv x)).
Proof.
  destruct below as [|lv3 below3].
  - cbn [leaves_from]. rewrite flat_map_singleton. reflexivity.
  - change (leaves_from (lv :: lv2 :: lv3 :: below3) x)
      with (flat_map (leaves_from (lv2 :: lv3 :: below3)) (zsort (children_of lv x))).
    apply Permutation_flat_map. apply zsort_perm.
Qed.

(* a leaf descends from at most one node of each level *)
Lemma reach_unique_root rest x x' l :
  validate_pairs rest = true -> reach rest x l -> reach rest x' l -> x = x'.
Proof.
  revert x x'. induction rest as [|lv below IH]; intros x x' V H H'; [destruct H|].
  destruct below as [|lv2 below2]; [cbn in *; congruence|].
  cbn [reach] in H, H'. destruct H as (c & Hc & Hr). destruct H' as (c' & Hc' & Hr').
  pose proof (validate_pairs_head _ _ _ V) as (_ & _ & U).
  assert (c = c') by (apply (IH c c'); [apply (validate_pairs_tail lv); exact V | exact Hr | exact Hr']).
  subst c'. apply (U x x' c); apply children_of_lists; assumption.
Qed.

Lemma reach_is_leaf rest x l : validate_pairs rest = true -> In x (nodes (hd [] rest)) ->
  reach rest x l -> In l (nodes (last rest [])).
Proof.
  revert x. induction rest as [|lv below IH]; intros x V Hx H; [destruct H|].
  destruct below as [|lv2 below2]; [cbn in *; subst; exact Hx|].
  cbn [reach] in H. destruct H as (c & Hc & Hr).
  pose proof (validate_pairs_head _ _ _ V) as (_ & E & _).
  change (last (lv :: lv2 :: below2) []) with (last (lv2 :: below2) []).
  apply (IH c); [apply (validate_pairs_tail lv); exact V | | exact Hr].
  cbn. apply (E x). apply children_of_lists. exact Hc.
Qed.

Lemma leaves_from_nodup rest x :
  validate_pairs rest = true -> inner_nodup rest -> NoDup (leaves_from rest x).
Proof.
  revert x. induction rest as [|lv below IH]; intros x V N; [constructor|].
  destruct below as [|lv2 below2]; [cbn; repeat constructor; intros []|].
  destruct N as [N1 N2].
  eapply Permutation_NoDup; [apply Permutation_sym, leaves_from_step|].
  pose proof (validate_pairs_tail _ _ V) as V2.
  apply NoDup_flat_map.
  - apply children_of_nodup. exact N1.
  - intros c _. apply IH; assumption.
  - intros c c' _ _ Hne l Hl Hl'. apply leaves_from_in in Hl. apply leaves_from_in in Hl'.
    apply Hne. apply (reach_unique_root _ _ _ l V2 Hl Hl').
Qed.

(* the listed children of a level are, as a multiset, the next level's nodes *)
Lemma listed_children_perm pl cl :
  strict_pair pl cl -> wf_level pl -> wf_level cl -> child_lists_nodup pl ->
  Permutation (flat_map (children_of pl) (nodes pl)) (nodes cl).
Proof.
  intros (S1 & S2 & S3) Wp Wc N. apply NoDup_Permutation.
  - apply NoDup_flat_map; [exact Wp | intros p _; apply children_of_nodup; exact N|].
    intros p p' _ _ Hne c Hc Hc'. apply Hne. apply (S3 p p' c); apply children_of_lists; assumption.
  - exact Wc.
  - intros c. rewrite in_flat_map. split.
    + intros (p & _ & Hc). apply (S2 p). apply children_of_lists. exact Hc.
    + intros Hc. destruct (S1 c Hc) as [p Hl]. exists p. split; [apply (lists_node _ _ _ Hl)|].
      apply lists_children_of; assumption.
Qed.

(* at every level the leaf lists partition the leaf set *)
Lemma level_leaves_perm rest :
  validate_pairs rest = true -> Forall wf_level rest -> inner_nodup rest -> rest <> [] ->
  Permutation (flat_map (leaves_from rest) (nodes (hd [] rest))) (nodes (last rest [])).
Proof.
  induction rest as [|lv below IH]; intros V W N NE; [congruence|].
  destruct below as [|lv2 below2].
  - cbn [hd last]. replace (flat_map (leaves_from [lv]) (nodes lv)) with (flat_map (fun x => [x]) (nodes lv)).
    + rewrite flat_map_singleton. reflexivity.
    + apply flat_map_ext. reflexivity.
  - destruct N as [N1 N2]. inversion W as [|? ? W1 W2]; subst. inversion W2 as [|? ? W3 _]; subst.
    change (last (lv :: lv2 :: below2) []) with (last (lv2 :: below2) []).
    cbn [hd].
    rewrite (flat_map_perm_pointwise _ (fun x => flat_map (leaves_from (lv2 :: below2)) (children_of lv x)))
      by (intros x _; apply leaves_from_step).
    rewrite <- flat_map_flat_map.
    rewrite (Permutation_flat_map _ (listed_children_perm lv lv2 (validate_pairs_head _ _ _ V) W1 W3 N1)).
    apply IH; [apply (validate_pairs_tail lv); exact V | exact W2 | exact N2 | discriminate].
Qed.

(* ------------------------------------------------------------------ statements in terms of the tree *)
Lemma skipn_nth_cons {A} k (t : list A) d : (k < length t)%nat -> skipn k t = nth k t d :: skipn (S k) t.
Proof.
  revert t. induction k as [|k IH]; intros t H; destruct t as [|a l]; cbn in *; try lia; [reflexivity|].
  apply IH. lia.
Qed.

Lemma inner_nodup_skipn k t : inner_nodup t -> inner_nodup (skipn k t).
Proof.
  revert t. induction k as [|k IH]; intros t H; [exact H|].
  destruct t as [|a l]; [exact H|]. cbn [skipn]. apply IH. destruct l; [exact Logic.I | apply H].
Qed.

Lemma last_skipn {A} k (t : list A) d : (k < length t)%nat -> last (skipn k t) d = last t d.
Proof.
  revert t. induction k as [|k IH]; intros t H; [reflexivity|].
  destruct t as [|a l]; cbn in *; [lia|]. rewrite IH by lia. destruct l; [cbn in H; lia | reflexivity].
Qed.

Lemma hd_skipn {A} k (t : list A) d : hd d (skipn k t) = nth k t d.
Proof.
  revert t. induction k as [|k IH]; intros t; destruct t as [|a l]; cbn; try reflexivity. apply IH.
Qed.

Lemma wf_skipn k t : wf t -> Forall wf_level (skipn k t).
Proof.
  unfold wf. rewrite !Forall_forall. intros H x Hx. apply H.
  rewrite <- (firstn_skipn k t). apply in_or_app. right. exact Hx.
Qed.

Lemma as_leaves_nth t k : (k < length t)%nat ->
  nth k (as_leaves t) [] = map (fun x => (x, leaves_of t k x)) (nodes (nth k t [])).
Proof.
  revert t. induction k as [|k IH]; intros t Hk; destruct t as [|lv below]; cbn in Hk; try lia.
  - reflexivity.
  - cbn [as_leaves nth]. rewrite IH by lia. reflexivity.
Qed.

Section AcceptedLeaves.
  Variable t : tree.
  Hypothesis V : validate t = true.

  (* the node's leaf list is the union (as a multiset) of its children's leaf lists *)
  Lemma leaves_of_children k x : (S k < length t)%nat ->
    Permutation (leaves_of t k x) (flat_map (leaves_of t (S k)) (children_of (nth k t []) x)).
  Proof.
    intros Hk. unfold leaves_of.
    rewrite (skipn_nth_cons k t []) by lia. rewrite (skipn_nth_cons (S k) t []) by lia.
    apply leaves_from_step.
  Qed.

  Lemma leaves_of_leaf x : leaves_of t (length t - 1) x = [x].
  Proof.
    pose proof (proj1 (validate_iff t) V) as (NE & _).
    unfold leaves_of. destruct t as [|a l]; [congruence|]. cbn [length].
    replace (S (length l) - 1)%nat with (length l) by lia.
    assert (G : forall (l0 : list level) a0, skipn (length l0) (a0 :: l0) = [last (a0 :: l0) []]).
    { induction l0 as [|b l0 IH]; intros a0; [reflexivity|]. cbn [length skipn]. rewrite IH. reflexivity. }
    rewrite G. reflexivity.
  Qed.

  (* leaf lists of two different nodes of one level never share a leaf *)
  Lemma leaves_of_disjoint k x x' l :
    In l (leaves_of t k x) -> In l (leaves_of t k x') -> x = x'.
  Proof.
    unfold leaves_of. rewrite !leaves_from_in. apply reach_unique_root.
    apply validate_pairs_skipn, validate_pairs_of, V.
  Qed.

  Lemma leaves_of_are_leaves k x l : (k < length t)%nat -> In x (nodes (nth k t [])) ->
    In l (leaves_of t k x) -> In l (nodes (leaf_level t)).
  Proof.
    intros Hk Hx Hl. unfold leaves_of in Hl. apply leaves_from_in in Hl.
    unfold leaf_level. rewrite <- (last_skipn k t []) by exact Hk.
    apply (reach_is_leaf _ x); [apply validate_pairs_skipn, validate_pairs_of, V | | exact Hl].
    rewrite hd_skipn. exact Hx.
  Qed.

  (* the validator refuses a repeated child, so no leaf is counted twice: a partition *)
  Let N : inner_nodup t := validate_inner_nodup t V.
  Lemma leaves_of_nodup k x : NoDup (leaves_of t k x).
  Proof.
    unfold leaves_of. apply leaves_from_nodup;
      [apply validate_pairs_skipn, validate_pairs_of, V | apply inner_nodup_skipn, N].
  Qed.

  Lemma leaves_partition k x : (S k < length t)%nat ->
    NoDup (flat_map (leaves_of t (S k)) (children_of (nth k t []) x)) /\
    Permutation (leaves_of t k x) (flat_map (leaves_of t (S k)) (children_of (nth k t []) x)).
  Proof.
    intros Hk. split; [|apply leaves_of_children; exact Hk].
    eapply Permutation_NoDup; [apply leaves_of_children; exact Hk | apply leaves_of_nodup].
  Qed.

  Lemma level_partition k : wf t -> (k < length t)%nat ->
    Permutation (flat_map (leaves_of t k) (nodes (nth k t []))) (nodes (leaf_level t)).
  Proof.
    intros W Hk. unfold leaves_of, leaf_level.
    rewrite <- (last_skipn k t []) by exact Hk. rewrite <- (hd_skipn k t []).
    apply level_leaves_perm;
      [apply validate_pairs_skipn, validate_pairs_of, V | apply wf_skipn, W | apply inner_nodup_skipn, N|].
    rewrite (skipn_nth_cons k t []) by exact Hk. discriminate.
  Qed.
End AcceptedLeaves.

(* ------------------------------------------------------------------ leaf pairs *)
Definition pairs_of (Lf : node -> list node) (cs : list node) : list (node * node) :=
  flat_map (fun ab => map order_pair (list_prod (Lf (fst ab)) (Lf (snd ab)))) (combos2 cs).

Lemma order_pair_cases p : (order_pair p = p /\ fst p < snd p) \/ (order_pair p = (snd p, fst p) /\ snd p <= fst p).
Proof. unfold order_pair. destruct (fst p <? snd p) eqn:E; [left; split; [reflexivity | lia] | right; split; [reflexivity | lia]]. Qed.

Lemma order_pair_set p a b : order_pair p = (a, b) -> (fst p = a /\ snd p = b) \/ (fst p = b /\ snd p = a).
Proof.
  unfold order_pair. destruct (fst p <? snd p); intros E.
  - left. rewrite E. split; reflexivity.
  - right. inversion E. split; reflexivity.
Qed.

Section Pairs.
  Variable Lf : node -> list node.
  Variable cs : list node.
  Hypothesis NDcs : NoDup cs.
  Hypothesis NDL : forall c, In c cs -> NoDup (Lf c).
  Hypothesis DISJ : forall c c' l, In c cs -> In c' cs -> In l (Lf c) -> In l (Lf c') -> c = c'.

  Lemma pairs_of_in a b :
    In (a, b) (pairs_of Lf cs) <->
    a < b /\ exists c c', In c cs /\ In c' cs /\ c <> c' /\ In a (Lf c) /\ In b (Lf c').
  Proof.
    unfold pairs_of. rewrite in_flat_map. split.
    - intros ([c c'] & Hcc & Hab). cbn [fst snd] in Hab. apply in_map_iff in Hab.
      destruct Hab as ([u v] & E & Huv). apply in_prod_iff in Huv. destruct Huv as [Hu Hv].
      pose proof (combos2_in _ _ _ Hcc) as [Hc Hc']. pose proof (combos2_nodup_neq _ _ _ NDcs Hcc) as Hne.
      assert (u <> v) by (intros ->; apply Hne; apply (DISJ c c' v); assumption).
      destruct (order_pair_cases (u, v)) as [[E' Hlt]|[E' Hle]]; rewrite E' in E; cbn [fst snd] in *; inversion E; subst.
      + split; [exact Hlt|]. exists c, c'. tauto.
      + split; [lia|]. exists c', c. repeat split; try assumption. intros ->; apply Hne; reflexivity.
    - intros (Hlt & c & c' & Hc & Hc' & Hne & Ha & Hb).
      destruct (combos2_total cs c c' Hc Hc' Hne) as [Hcc|Hcc].
      + exists (c, c'). split; [exact Hcc|]. cbn [fst snd]. apply in_map_iff. exists (a, b).
        split; [|apply in_prod_iff; tauto]. unfold order_pair. cbn [fst snd].
        destruct (a <? b) eqn:E; [reflexivity | lia].
      + exists (c', c). split; [exact Hcc|]. cbn [fst snd]. apply in_map_iff. exists (b, a).
        split; [|apply in_prod_iff; tauto]. unfold order_pair. cbn [fst snd].
        destruct (b <? a) eqn:E; [lia | reflexivity].
  Qed.

  Lemma pairs_of_nodup : NoDup (pairs_of Lf cs).
  Proof.
    unfold pairs_of. apply NoDup_flat_map.
    - apply combos2_nodup. exact NDcs.
    - intros [c c'] Hcc. cbn [fst snd]. pose proof (combos2_in _ _ _ Hcc) as [Hc Hc'].
      pose proof (combos2_nodup_neq _ _ _ NDcs Hcc) as Hne.
      apply NoDup_map_in_inj; [apply NoDup_list_prod; apply NDL; assumption|].
      intros [u v] [u' v'] Hp1 Hp2 E. apply in_prod_iff in Hp1, Hp2.
      destruct Hp1 as [Hu Hv], Hp2 as [Hu' Hv'].
      destruct (order_pair (u', v')) as [a b] eqn:E'.
      apply order_pair_set in E, E'. cbn [fst snd] in E, E'.
      destruct E as [[-> ->]|[-> ->]], E' as [[-> ->]|[-> ->]]; try reflexivity;
        exfalso; apply Hne; eauto using DISJ.
    - intros [c1 c1'] [c2 c2'] Hc1 Hc2 Hne [a b] Ha Hb. cbn [fst snd] in *.
      apply in_map_iff in Ha, Hb. destruct Ha as ([u v] & E & Huv), Hb as ([u' v'] & E' & Huv').
      apply in_prod_iff in Huv, Huv'. destruct Huv as [Hu Hv], Huv' as [Hu' Hv'].
      pose proof (combos2_in _ _ _ Hc1) as [I1 I1']. pose proof (combos2_in _ _ _ Hc2) as [I2 I2'].
      apply Hne.
      apply order_pair_set in E, E'. cbn [fst snd] in E, E'.
      destruct E as [[-> ->]|[-> ->]], E' as [[-> ->]|[-> ->]].
      + f_equal; eauto using DISJ.
      + assert (c1 = c2') by eauto using DISJ. assert (c1' = c2) by eauto using DISJ. subst.
        exfalso. apply (combos2_not_both cs _ _ NDcs Hc1 Hc2).
      + assert (c1 = c2') by eauto using DISJ. assert (c1' = c2) by eauto using DISJ. subst.
        exfalso. apply (combos2_not_both cs _ _ NDcs Hc1 Hc2).
      + f_equal; eauto using DISJ.
  Qed.
End Pairs.

Lemma leaf_pairs_some t li x : (S li < length t)%nat ->
  leaf_pairs t (Some (li, x)) = pairs_of (leaves_of t (S li)) (children_of (nth li t []) x).
Proof.
  intros H. unfold leaf_pairs. destruct (Nat.eqb (S li) (length t)) eqn:E; [apply Nat.eqb_eq in E; lia|].
  reflexivity.
Qed.

Lemma leaf_pairs_none t : leaf_pairs t None = pairs_of (leaves_of t 0) (nodes (hd [] t)).
Proof. reflexivity. Qed.

Lemma leaf_pairs_leaf_parent t x : leaf_pairs t (Some ((length t - 1)%nat, x)) = [] \/ t = [].
Proof.
  destruct t as [|a l]; [right; reflexivity|]. left. unfold leaf_pairs. cbn [length].
  replace (S (S (length l) - 1)) with (S (length l)) by lia. rewrite Nat.eqb_refl. reflexivity.
Qed.

(* children(parent) as the validator sees them: the top-level nodes, or the listed children *)
Definition child_level (parent : option (nat * node)) : nat :=
  match parent with None => 0%nat | Some (li, _) => S li end.

Theorem leaf_pairs_exact t parent :
  validate t = true -> wf t ->
  (forall li x, parent = Some (li, x) -> (S li < length t)%nat) ->
  NoDup (leaf_pairs t parent) /\
  forall a b,
    In (a, b) (leaf_pairs t parent) <->
    a < b /\ exists c c', In c (children t parent) /\ In c' (children t parent) /\ c <> c' /\
                          In a (leaves_of t (child_level parent) c) /\
                          In b (leaves_of t (child_level parent) c').
Proof.
  intros V W Hp. pose proof (validate_inner_nodup t V) as N.
  assert (G : leaf_pairs t parent = pairs_of (leaves_of t (child_level parent)) (children t parent) /\
              NoDup (children t parent)).
  { destruct parent as [[li x]|]; cbn [children child_level].
    - split; [apply leaf_pairs_some; apply (Hp li x); reflexivity|].
      apply children_of_nodup.
      assert (Hli : (S li < length t)%nat) by (apply (Hp li x); reflexivity).
      clear -N Hli. revert t N Hli. induction li as [|k IH]; intros t N H; destruct t as [|a l]; cbn in H; try lia.
      + destruct l; [cbn in H; lia | apply N].
      + cbn [nth]. apply IH; [destruct l; [exact Logic.I | apply N] | lia].
    - split; [reflexivity|]. destruct t as [|a l]; [constructor|]. inversion W; subst. assumption. }
  destruct G as [-> ND].
  split.
  - apply pairs_of_nodup; [exact ND | intros c _; apply leaves_of_nodup; assumption|].
    intros c c' l _ _. apply leaves_of_disjoint. exact V.
  - intros a b. apply pairs_of_in; [exact ND|]. intros c c' l _ _. apply leaves_of_disjoint. exact V.
Qed.
