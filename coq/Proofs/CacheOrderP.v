(* C04, marker cache: write_query_markers_to_h5 sorts every group by reference index, so the
   cache does not depend on the order in which the genes of a parent are listed -- which is
   how the hash seed would enter (create_marker_cache_from_specified_markers builds each list
   from a Python set of gene names). *)
From Coq Require Import ZArith List Bool Arith Lia Permutation.
From CTM Require Import Base.Sx Base.SortX Base.ListX Model.Tree Model.Markers Proofs.MarkersP Proofs.GatherP.
Import ListNotations.

(* ---- sorting by a duplicate-free key is a function of the multiset *)
Lemma pinsert_comm x y l : fst x <> fst y -> pinsert x (pinsert y l) = pinsert y (pinsert x l).
Proof.
  intros Hne. induction l as [|z t IH]; cbn.
  - destruct (fst x <=? fst y)%nat eqn:E1, (fst y <=? fst x)%nat eqn:E2; try reflexivity.
    + apply Nat.leb_le in E1, E2. lia.
    + apply Nat.leb_gt in E1, E2. lia.
  - destruct (fst y <=? fst z)%nat eqn:Eyz, (fst x <=? fst z)%nat eqn:Exz; cbn;
      destruct (fst x <=? fst y)%nat eqn:Exy, (fst y <=? fst x)%nat eqn:Eyx; cbn;
      rewrite ?Eyz, ?Exz, ?Exy, ?Eyx; try reflexivity;
      try (rewrite IH; reflexivity);
      repeat match goal with
             | H : (_ <=? _)%nat = true |- _ => apply Nat.leb_le in H
             | H : (_ <=? _)%nat = false |- _ => apply Nat.leb_gt in H
             end; try lia.
Qed.

Lemma psort_perm_eq l1 l2 : Permutation l1 l2 -> NoDup (map fst l1) -> psort l1 = psort l2.
Proof.
  induction 1 as [|x l l' Hp IH|x y l|l l' l'' Hp1 IH1 Hp2 IH2]; intros Hnd; unfold psort in *; cbn.
  - reflexivity.
  - cbn in Hnd. inversion Hnd; subst. rewrite IH by assumption. reflexivity.
  - cbn in Hnd. inversion Hnd as [|a b Hnot Hnd']; subst. apply pinsert_comm.
    intros E. apply Hnot. left. symmetry. exact E.
  - rewrite IH1 by exact Hnd. apply IH2.
    eapply Permutation_NoDup; [apply Permutation_map; exact Hp1 | exact Hnd].
Qed.

(* ---- (reference index, query index) pairs of a permuted gene list *)
Lemma index_pairs_perm refg qg g1 g2 : Permutation g1 g2 ->
  match index_pairs refg qg g1, index_pairs refg qg g2 with
  | Some p1, Some p2 => Permutation p1 p2
  | None, None => True
  | _, _ => False
  end.
Proof.
  induction 1 as [|x l l' Hp IH|x y l|l l' l'' Hp1 IH1 Hp2 IH2]; cbn.
  - constructor.
  - destruct (index_last x refg), (index_last x qg);
      destruct (index_pairs refg qg l), (index_pairs refg qg l'); try exact IH; try exact Logic.I.
    constructor. exact IH.
  - destruct (index_last x refg), (index_last x qg), (index_last y refg), (index_last y qg),
      (index_pairs refg qg l); try exact Logic.I. apply perm_swap.
  - destruct (index_pairs refg qg l), (index_pairs refg qg l'), (index_pairs refg qg l'');
      try contradiction; try exact Logic.I. eapply Permutation_trans; eassumption.
Qed.

Lemma Forall2_in_l {A B} (R : A -> B -> Prop) l1 l2 a :
  Forall2 R l1 l2 -> In a l1 -> exists b, In b l2 /\ R a b.
Proof.
  induction 1 as [|x y l l' Hxy _ IH]; intros Hin; [destruct Hin|].
  destruct Hin as [<-|Hin]; [exists y; split; [left; reflexivity | exact Hxy]|].
  destruct (IH Hin) as (b & Hb & Hr). exists b. split; [right; exact Hb | exact Hr].
Qed.

(* distinct genes have distinct reference indices *)
Lemma index_pairs_nodup refg qg genes ps :
  index_pairs refg qg genes = Some ps -> NoDup genes -> NoDup (map fst ps).
Proof.
  intros H. apply index_pairs_spec in H.
  induction H as [|pr g ps' gs' [Hr _] HF IH]; intros Hnd; cbn; [constructor|].
  inversion Hnd as [|a b Hnot Hnd']; subst. constructor; [|apply IH; exact Hnd'].
  intros Hin. apply in_map_iff in Hin. destruct Hin as (pr' & Hfst & Hin).
  destruct (Forall2_in_l _ _ _ _ HF Hin) as (g' & Hg' & [Hr' _]).
  rewrite Hfst, Hr in Hr'. inversion Hr'; subst g'. contradiction.
Qed.

(* two tables with the same keys in the same order whose entries list the same genes in
   possibly different orders *)
Definition same_genes (tb1 tb2 : table) : Prop :=
  Forall2 (fun e1 e2 => fst e1 = fst e2 /\ Permutation (snd e1) (snd e2)) tb1 tb2.

Lemma wq_groups_perm refg qg tb1 tb2 :
  same_genes tb1 tb2 -> (forall k l, In (k, l) tb1 -> NoDup l) ->
  wq_groups refg qg tb1 = wq_groups refg qg tb2.
Proof.
  induction 1 as [|[k1 l1] [k2 l2] t1 t2 [Hk Hp] _ IH]; intros Hnd; cbn; [reflexivity|].
  cbn in Hk, Hp. subst k2.
  rewrite IH by (intros k l Hin; apply (Hnd k l); right; exact Hin).
  pose proof (index_pairs_perm refg qg l1 l2 Hp) as Hip.
  destruct (index_pairs refg qg l1) as [p1|] eqn:E1, (index_pairs refg qg l2) as [p2|];
    try contradiction; [|reflexivity].
  rewrite (psort_perm_eq p1 p2 Hip); [reflexivity|].
  apply (index_pairs_nodup refg qg l1 p1 E1). apply (Hnd k1 l1). left; reflexivity.
Qed.

Lemma same_genes_keys tb1 tb2 : same_genes tb1 tb2 -> map fst tb1 = map fst tb2.
Proof. induction 1 as [|e1 e2 t1 t2 [Hk _] _ IH]; cbn; [reflexivity | rewrite Hk, IH; reflexivity]. Qed.

(* the statement of Props/C04.v: the cache -- every dataset of it, or the KeyError -- is the
   same whatever the order in which the (distinct) genes of each parent are listed *)
Theorem cache_order_independent : forall (tb1 tb2 : table) (refg qg : list gene),
  same_genes tb1 tb2 -> (forall k l, In (k, l) tb1 -> NoDup l) ->
  write_query_markers tb1 refg qg = write_query_markers tb2 refg qg.
Proof.
  intros tb1 tb2 refg qg Hs Hnd. unfold write_query_markers.
  rewrite (wq_groups_perm refg qg tb1 tb2 Hs Hnd), (same_genes_keys tb1 tb2 Hs). reflexivity.
Qed.

(* strictly ascending *)
Fixpoint strictly_ascending (l : list nat) : Prop :=
  match l with
  | [] => True
  | x :: t => (match t with [] => True | y :: _ => (x < y)%nat end) /\ strictly_ascending t
  end.

Lemma ascending_nodup_strict l : ascending l -> NoDup l -> strictly_ascending l.
Proof.
  induction l as [|x t IH]; cbn; [tauto|]. intros [H1 H2] Hnd. inversion Hnd; subst.
  split; [|apply IH; assumption]. destruct t as [|y t']; [exact Logic.I|].
  assert (x <> y) by (intros ->; apply H3; left; reflexivity). lia.
Qed.

(* ... and what the order IS: every group is listed by strictly increasing reference index *)
Theorem cache_groups_sorted : forall (tb : table) (refg qg : list gene) (c : cache) k ri qi,
  (forall k l, In (k, l) tb -> NoDup l) ->
  write_query_markers tb refg qg = MOk c -> In (k, (ri, qi)) (c_groups c) ->
  strictly_ascending ri /\ length qi = length ri.
Proof.
  intros tb refg qg c k ri qi Hnd. unfold write_query_markers.
  destruct (wq_groups refg qg tb) as [gs|] eqn:E; [|discriminate].
  intros H Hin. inversion H; subst c. cbn [c_groups] in Hin.
  destruct (wq_groups_in _ _ _ _ _ _ _ E Hin) as (l & ps & Hl & Hps & -> & ->).
  split; [|rewrite !map_length; reflexivity].
  apply ascending_nodup_strict; [apply psort_ascending|].
  eapply Permutation_NoDup; [apply Permutation_map, Permutation_sym, psort_perm|].
  apply (index_pairs_nodup refg qg l ps Hps). apply (Hnd k l Hl).
Qed.
