(* C04, marker cache: write_query_markers_to_h5 sorts every group by reference index, so the
   cache does not depend on the order in which the genes of a parent are listed -- which is
   how the hash seed would enter (create_marker_cache_from_specified_markers builds each list
   from a Python set of gene names). *)
From Coq Require Import ZArith List Bool Arith Lia Permutation.
From CTM Require Import Base.Sx Base.SortX Base.ListX Model.Tree Model.Markers Proofs.MarkersP Proofs.GatherP.
Import ListNotations.

(* ---- sorting by a duplicate-free key is a function of the multiset *)
Lemma pinsert_comm x y l : fst x <> fst y -> pinsert x (pinsert y l) = pinsert y (pinsert x l).
Proof.
  intros Hne. induction l as [|z t IH]; cbn.
  - destruct (fst x <=? fst y)%nat eqn:E1, (fst y <=? fst x)%nat eqn:E2; try reflexivity.
    + apply Nat.leb_le in E1, E2. lia.
    + apply Nat.leb_gt in E1, E2. lia.
  - destruct (fst y <=? fst z)%nat eqn:Eyz, (fst x <=? fst z)%nat eqn:Exz; cbn;
      destruct (fst x <=? fst y)%nat eqn:Exy, (fst y <=? fst x)%nat eqn:Eyx; cbn;
      rewrite ?Eyz, ?Exz, ?Exy, ?Eyx; try reflexivity;
      try (rewrite IH; reflexivity);
      repeat match goal with
             | H : (_ <=? _)%nat = true |- _ => apply Nat.leb_le in H
             | H : (_ <=? _)%nat = false |- _ => apply Nat.leb_gt in H
             end; try lia.
Qed.

Lemma psort_perm_eq l1 l2 : Permutation l1 l2 -> NoDup (map fst l1) -> psort l1 = psort l2.
Proof.
  induction 1 as [|x l l' Hp IH|x y l|l l' l'' Hp1 IH1 Hp2 IH2]; intros Hnd; unfold psort in *; cbn.
  - reflexivity.
  - cbn in Hnd. inversion Hnd; subst. rewrite IH by assumption. reflexivity.
  - cbn in Hnd. inversion Hnd as [|a b Hnot Hnd']; subst. apply pinsert_comm.
    intros E. apply Hnot. left. symmetry. exact E.
  - rewrite IH1 by exact Hnd. apply IH2.
    eapply Permutation_NoDup; [apply Permutation_map; exact Hp1 | exact Hnd].
Qed.

(* ---- (reference index, query index) pairs of a permuted gene list *)
Lemma index_pairs_perm refg qg g1 g2 : Permutation g1 g2 ->
  match index_pairs refg qg g1, index_pairs refg qg g2 with
  | Some p1, Some p2 => Permutation p1 p2
  | None, None => True
  | _, _ => False
  end.
Proof.
  induction 1 as [|x l l' Hp IH|x y l|l l' l'' Hp1 IH1 Hp2 IH2]; cbn.
  - constructor.
  - destruct (index_last x refg), (index_last x qg);
      destruct (index_pairs refg qg l), (index_pairs refg qg l'); try exact IH; try exact Logic.I.
    constructor. exact IH.
  - destruct (index_last x refg), (index_last x qg), (index_last y refg), (index_last y qg),
      (index_pairs refg qg l); try exact Logic.I. apply perm_swap.
  - destruct (index_pairs refg qg l), (index_pairs refg qg l'), (index_pairs refg qg l'');
      try contradiction; try exact Logic.I. eapply Permutation_trans; eassumption.
Qed.

Lemma Forall2_in_l {A B} (R : A -> B -> Prop) l1 l2 a :
  Forall2 R l1 l2 -> In a l1 -> exists b, In b l2 /\ R a b.
Proof.
  induction 1 as [|x y l l' Hxy _ IH]; intros Hin; [destruct Hin|].
  destruct Hin as [<-|Hin]; [exists y; split; [left; reflexivity | exact Hxy]|].
  destruct (IH Hin) as (b & Hb & Hr). exists b. split; [right; exact Hb | exact Hr].
Qed.

(* distinct genes have distinct reference indices *)
Lemma index_pairs_nodup refg qg genes ps :
  index_pairs refg qg genes = Some ps -> NoDup genes -> NoDup (map fst ps).
Proof.
  intros H. apply index_pairs_spec in H.
  induction H as [|pr g ps' gs' [Hr _] HF IH]; intros Hnd; cbn; [constructor|].
  inversion Hnd as [|a b Hnot Hnd']; subst. constructor; [|apply IH; exact Hnd'].
  intros Hin. apply in_map_iff in Hin. destruct Hin as (pr' & Hfst & Hin).
  destruct (Forall2_in_l _ _ _ _ HF Hin) as (g' & Hg' & [Hr' _]).
  rewrite Hfst, Hr in Hr'. inversion Hr'; subst g'. contradiction.
Qed.

(* two tables with the same keys in the same order whose entries list the same genes in
   possibly different orders *)
Definition same_genes (tb1 tb2 : table) : Prop :=
  Forall2 (fun e1 e2 => fst e1 = fst e2 /\ Permutation (snd e1) (snd e2)) tb1 tb2.

Lemma wq_groups_perm refg qg tb1 tb2 :
  same_genes tb1 tb2 -> (forall k l, In (k, l) tb1 -> NoDup l) ->
  wq_groups refg qg tb1 = wq_groups refg qg tb2.
Proof.
  induction 1 as [|[k1 l1] [k2 l2] t1 t2 [Hk Hp] _ IH]; intros Hnd; cbn; [reflexivity|].
  cbn in Hk, Hp. subst k2.
  rewrite IH by (intros k l Hin; apply (Hnd k l); right; exact Hin).
  pose proof (index_pairs_perm refg qg l1 l2 Hp) as Hip.
  destruct (index_pairs refg qg l1) as [p1|] eqn:E1, (index_pairs refg qg l2) as [p2|];
    try contradiction; [|reflexivity].
  rewrite (psort_perm_eq p1 p2 Hip); [reflexivity|].
  apply (index_pairs_nodup refg qg l1 p1 E1). apply (Hnd k1 l1). left; reflexivity.
Qed.

Lemma same_genes_keys tb1 tb2 : same_genes tb1 tb2 -> map fst tb1 = map fst tb2.
Proof. induction 1 as [|e1 e2 t1 t2 [Hk _] _ IH]; cbn; [reflexivity | rewrite Hk, IH; reflexivity]. Qed.

(* the statement of Props/C04.v: the cache -- every dataset of it, or the KeyError -- is the
   same whatever the order in which the (distinct) genes of each parent are listed *)
Theorem cache_order_independent : forall (tb1 tb2 : table) (refg qg : list gene),
  same_genes tb1 tb2 -> (forall k l, In (k, l) tb1 -> NoDup l) ->
  write_query_markers tb1 refg qg = write_query_markers tb2 refg qg.
Proof.
  intros tb1 tb2 refg qg Hs Hnd. unfold write_query_markers.
  rewrite (wq_groups_perm refg qg tb1 tb2 Hs Hnd), (same_genes_keys tb1 tb2 Hs). reflexivity.
Qed.

(* strictly ascending *)
Fixpoint strictly_ascending (l : list nat) : Prop :=
  match l with
  | [] => True
  | x :: t => (match t with [] => True | y :: _ => (x < y)%nat end) /\ strictly_ascending t
  end.

Lemma ascending_nodup_strict l : ascending l -> NoDup l -> strictly_ascending l.
Proof.
  induction l as [|x t IH]; cbn; [tauto|]. intros [H1 H2] Hnd. inversion Hnd; subst.
  split; [|apply IH; assumption]. destruct t as [|y t']; [exact Logic.I|].
  assert (x <> y) by (intros ->; apply H3; left; reflexivity). lia.
Qed.

(* ... and what the order IS: every group is listed by strictly increasing reference index *)
Theorem cache_groups_sorted : forall (tb : table) (refg qg : list gene) (c : cache) k ri qi,
  (forall k l, In (k, l) tb -> NoDup l) ->
  write_query_markers tb refg qg = MOk c -> In (k, (ri, qi)) (c_groups c) ->
  strictly_ascending ri /\ length qi = length ri.
Proof.
  intros tb refg qg c k ri qi Hnd. unfold write_query_markers.
  destruct (wq_groups refg qg tb) as [gs|] eqn:E; [|discriminate].
  intros H Hin. inversion H; subst c. cbn [c_groups] in Hin.
  destruct (wq_groups_in _ _ _ _ _ _ _ E Hin) as (l & ps & Hl & Hps & -> & ->).
  split; [|rewrite !map_length; reflexivity].
  apply ascending_nodup_strict; [apply psort_ascending|].
  eapply Permutation_NoDup; [apply Permutation_map, Permutation_sym, psort_perm|].
  apply (index_pairs_nodup refg qg l ps Hps). apply (Hnd k l Hl).
Qed.

(* ====================================================================================
   The same one level up: create_marker_cache_from_specified_markers (with or without a
   taxonomy tree) is a function of the SET of genes listed under each key -- order and
   multiplicity of the listing are irrelevant. *)
Definition seteq (a b : list gene) : Prop := forall g, In g a <-> In g b.
Definition same_sets (tb1 tb2 : table) : Prop :=
  Forall2 (fun e1 e2 => fst e1 = fst e2 /\ seteq (snd e1) (snd e2)) tb1 tb2.

Lemma seteq_refl a : seteq a a.
Proof. intros g; tauto. Qed.
Lemma seteq_app a1 a2 b1 b2 : seteq a1 a2 -> seteq b1 b2 -> seteq (a1 ++ b1) (a2 ++ b2).
Proof. intros H1 H2 g. rewrite !in_app_iff, (H1 g), (H2 g). tauto. Qed.
Lemma same_sets_refl tb : same_sets tb tb.
Proof. induction tb; constructor; [split; [reflexivity | apply seteq_refl] | assumption]. Qed.

Lemma uniq_inq_perm q a b : seteq a b -> Permutation (uniq (inq q a)) (uniq (inq q b)).
Proof.
  intros H. apply NoDup_Permutation; try apply uniq_NoDup.
  intros g. rewrite !uniq_In, !inq_In, (H g). tauto.
Qed.
Lemma canon_seteq a b : seteq a b -> canon a = canon b.
Proof.
  intros H. unfold canon. apply zsort_perm_eq. apply NoDup_Permutation; try apply uniq_NoDup.
  intros g. rewrite !uniq_In. apply H.
Qed.
Lemma is_nil_seteq (a b : list gene) : seteq a b -> is_nil a = is_nil b.
Proof.
  intros H. destruct a as [|x a], b as [|y b]; try reflexivity; exfalso.
  - apply (proj2 (H y)). left; reflexivity.
  - apply (proj1 (H x)). left; reflexivity.
Qed.
Lemma is_nil_perm {A} (a b : list A) : Permutation a b -> is_nil a = is_nil b.
Proof.
  intros H. destruct a, b; try reflexivity.
  - apply Permutation_nil in H. discriminate.
  - apply Permutation_sym, Permutation_nil in H. discriminate.
Qed.
Lemma n_usable_seteq q a b : seteq a b -> n_usable q a = n_usable q b.
Proof. apply n_usable_set. Qed.

Lemma tget_rel k tb1 tb2 : same_sets tb1 tb2 ->
  match tget k tb1, tget k tb2 with
  | Some l1, Some l2 => seteq l1 l2
  | None, None => True
  | _, _ => False
  end.
Proof.
  induction 1 as [|[k1 l1] [k2 l2] t1 t2 [Hk Hs] _ IH]; cbn; [exact Logic.I|].
  cbn in Hk, Hs. subst k2. destruct (pkey_eqb k k1); [exact Hs | exact IH].
Qed.
Lemma tset_rel k v1 v2 tb1 tb2 : same_sets tb1 tb2 -> seteq v1 v2 ->
  same_sets (tset k v1 tb1) (tset k v2 tb2).
Proof.
  intros H Hv. induction H as [|[k1 l1] [k2 l2] t1 t2 [Hk Hs] Ht IH]; cbn.
  - constructor; [split; [reflexivity | exact Hv] | constructor].
  - cbn in Hk, Hs. subst k2. destruct (pkey_eqb k k1).
    + constructor; [split; [reflexivity | exact Hv] | exact Ht].
    + constructor; [split; [reflexivity | exact Hs] | exact IH].
Qed.
Lemma entry_rel k tb1 tb2 : same_sets tb1 tb2 -> seteq (entry tb1 k) (entry tb2 k).
Proof.
  intros H. unfold entry. pose proof (tget_rel k tb1 tb2 H) as Hg.
  destruct (tget k tb1), (tget k tb2); try contradiction; [exact Hg | apply seteq_refl].
Qed.

Lemma patch_loop_rel tb1 tb2 q minm ancs : same_sets tb1 tb2 -> forall new1 new2 patched,
  seteq new1 new2 ->
  seteq (fst (patch_loop tb1 q minm ancs new1 patched)) (fst (patch_loop tb2 q minm ancs new2 patched)) /\
  snd (patch_loop tb1 q minm ancs new1 patched) = snd (patch_loop tb2 q minm ancs new2 patched).
Proof.
  intros Htb. induction ancs as [|a rest IH]; intros new1 new2 patched Hn; cbn [patch_loop].
  - split; [exact Hn | reflexivity].
  - pose proof (tget_rel (Some a) tb1 tb2 Htb) as Hg.
    destruct (tget (Some a) tb1) as [l1|], (tget (Some a) tb2) as [l2|]; try contradiction.
    + assert (Hn' : seteq (new1 ++ l1) (new2 ++ l2)) by (apply seteq_app; assumption).
      rewrite (n_usable_seteq q _ _ Hn').
      destruct (minm <=? n_usable q (new2 ++ l2))%nat; [split; [exact Hn' | reflexivity]|].
      apply IH. exact Hn'.
    + apply IH. exact Hn.
Qed.

Lemma patch_parent_rel t q minm tb1 tb2 li x m1 m2 : same_sets tb1 tb2 -> seteq m1 m2 ->
  same_sets (fst (patch_parent t q minm tb1 li x m1)) (fst (patch_parent t q minm tb2 li x m2)) /\
  snd (patch_parent t q minm tb1 li x m1) = snd (patch_parent t q minm tb2 li x m2).
Proof.
  intros Htb Hm. unfold patch_parent.
  destruct (patch_loop_rel tb1 tb2 q minm (ancestors t li x) Htb m1 m2 [] Hm) as [Hf Hs].
  destruct (patch_loop tb1 q minm (ancestors t li x) m1 []) as [new1 p1].
  destruct (patch_loop tb2 q minm (ancestors t li x) m2 []) as [new1' p1'].
  cbn [fst snd] in Hf, Hs. subst p1'.
  rewrite (n_usable_seteq q _ _ Hf).
  pose proof (tget_rel None tb1 tb2 Htb) as Hg.
  assert (Hx : exists new2 new2' p2,
     (if (n_usable q new1' <? minm)%nat
      then match tget None tb1 with Some l => (new1 ++ l, p1 ++ [None]) | None => (new1, p1) end
      else (new1, p1)) = (new2, p2) /\
     (if (n_usable q new1' <? minm)%nat
      then match tget None tb2 with Some l => (new1' ++ l, p1 ++ [None]) | None => (new1', p1) end
      else (new1', p1)) = (new2', p2) /\ seteq new2 new2').
  { destruct (n_usable q new1' <? minm)%nat.
    - destruct (tget None tb1) as [l1|], (tget None tb2) as [l2|]; try contradiction.
      + exists (new1 ++ l1), (new1' ++ l2), (p1 ++ [None]). split; [reflexivity|]. split; [reflexivity|]. apply seteq_app; assumption.
      + exists new1, new1', p1. split; [reflexivity|]. split; [reflexivity|]. exact Hf.
    - exists new1, new1', p1. split; [reflexivity|]. split; [reflexivity|]. exact Hf. }
  destruct Hx as (new2 & new2' & p2 & E1 & E2 & Hs2). rewrite E1, E2. cbn [fst snd].
  split; [|reflexivity].
  destruct (is_nil p2); [exact Htb|]. apply tset_rel; [exact Htb|].
  intros g. rewrite !canon_In, !inq_In, (Hs2 g). tauto.
Qed.

Definition veq (s1 s2 : vstate) : Prop :=
  same_sets (v_tb s1) (v_tb s2) /\ v_err s1 = v_err s2 /\ v_bad s1 = v_bad s2 /\
  v_skip s1 = v_skip s2 /\ v_log s1 = v_log s2.

(* the local function `go` of vstep *)
Definition vgo (t : tree) (q : list gene) (minm : nat) (st : vstate) (p : pkey)
           (tb : table) (markers : list gene) : vstate :=
  if (n_usable q markers <? minm)%nat then
    let '(tb', log') :=
      match p with
      | Some (li, x) =>
          let '(tb', patched) := patch_parent t q minm tb li x markers in
          (tb', v_log st ++ [(p, patched)])
      | None => (tb, v_log st)
      end in
    if Nat.eqb (n_usable q (entry tb' p)) 0 then
      {| v_tb := tb'; v_err := true; v_bad := S (v_bad st); v_skip := v_skip st; v_log := log' |}
    else
      {| v_tb := tb'; v_err := v_err st; v_bad := v_bad st; v_skip := v_skip st; v_log := log' |}
  else
    {| v_tb := tb; v_err := v_err st; v_bad := v_bad st; v_skip := v_skip st; v_log := v_log st |}.

Lemma vstep_vgo t q minm st p :
  vstep t q minm st p =
  if (length (children t p) <=? 1)%nat then
    {| v_tb := v_tb st; v_err := v_err st; v_bad := v_bad st; v_skip := S (v_skip st); v_log := v_log st |}
  else
    let root_fail :=
      {| v_tb := v_tb st; v_err := true; v_bad := v_bad st; v_skip := v_skip st; v_log := v_log st |} in
    match tget p (v_tb st) with
    | Some l =>
        if is_nil l then
          match p with
          | None => root_fail
          | Some _ => vgo t q minm st p (v_tb st) l
          end
        else vgo t q minm st p (v_tb st) l
    | None =>
        match p with
        | None => root_fail
        | Some _ => vgo t q minm st p (tset p [] (v_tb st)) []
        end
    end.
Proof. reflexivity. Qed.

Lemma vgo_rel t q minm s1 s2 p tb1 tb2 m1 m2 :
  veq s1 s2 -> same_sets tb1 tb2 -> seteq m1 m2 ->
  veq (vgo t q minm s1 p tb1 m1) (vgo t q minm s2 p tb2 m2).
Proof.
  intros (Hv & He & Hb & Hk & Hl) Htb Hm. unfold vgo.
  rewrite (n_usable_seteq q _ _ Hm).
  destruct (n_usable q m2 <? minm)%nat.
  - assert (Hx : exists tb1' tb2' lg,
       match p with
       | Some (li, x) => let '(tb', patched) := patch_parent t q minm tb1 li x m1 in
                         (tb', v_log s1 ++ [(p, patched)])
       | None => (tb1, v_log s1)
       end = (tb1', lg) /\
       match p with
       | Some (li, x) => let '(tb', patched) := patch_parent t q minm tb2 li x m2 in
                         (tb', v_log s2 ++ [(p, patched)])
       | None => (tb2, v_log s2)
       end = (tb2', lg) /\ same_sets tb1' tb2').
    { destruct p as [[li x]|].
      - destruct (patch_parent_rel t q minm tb1 tb2 li x m1 m2 Htb Hm) as [Hf Hs].
        destruct (patch_parent t q minm tb1 li x m1) as [a1 b1].
        destruct (patch_parent t q minm tb2 li x m2) as [a2 b2]. cbn [fst snd] in Hf, Hs. subst b2.
        exists a1, a2, (v_log s1 ++ [(Some (li, x), b1)]). split; [reflexivity|]. split; [rewrite Hl; reflexivity | exact Hf].
      - exists tb1, tb2, (v_log s1). split; [reflexivity|]. split; [rewrite Hl; reflexivity | exact Htb]. }
    destruct Hx as (tb1' & tb2' & lg & E1 & E2 & Htb'). rewrite E1, E2.
    rewrite (n_usable_seteq q _ _ (entry_rel p tb1' tb2' Htb')).
    destruct (Nat.eqb (n_usable q (entry tb2' p)) 0); unfold veq; cbn; repeat split; try assumption; congruence.
  - unfold veq; cbn. repeat split; assumption.
Qed.

Lemma vstep_rel t q minm s1 s2 p : veq s1 s2 -> veq (vstep t q minm s1 p) (vstep t q minm s2 p).
Proof.
  intros Hv. rewrite !vstep_vgo. pose proof Hv as (Htb & He & Hb & Hk & Hl).
  destruct (length (children t p) <=? 1)%nat.
  - unfold veq; cbn. repeat split; try assumption; congruence.
  - cbv zeta. pose proof (tget_rel p _ _ Htb) as Hg.
    assert (Hrf : veq {| v_tb := v_tb s1; v_err := true; v_bad := v_bad s1; v_skip := v_skip s1; v_log := v_log s1 |}
                      {| v_tb := v_tb s2; v_err := true; v_bad := v_bad s2; v_skip := v_skip s2; v_log := v_log s2 |}).
    { unfold veq; cbn. repeat split; assumption. }
    destruct (tget p (v_tb s1)) as [l1|], (tget p (v_tb s2)) as [l2|]; try contradiction.
    + rewrite (is_nil_seteq l1 l2 Hg). destruct (is_nil l2).
      * destruct p; [apply vgo_rel; assumption | exact Hrf].
      * apply vgo_rel; assumption.
    + destruct p; [|exact Hrf]. apply vgo_rel; [exact Hv | | apply seteq_refl].
      apply tset_rel; [exact Htb | apply seteq_refl].
Qed.

Lemma fold_vstep_rel t q minm (ps : list pkey) : forall a b, veq a b ->
  veq (fold_left (vstep t q minm) ps a) (fold_left (vstep t q minm) ps b).
Proof.
  induction ps as [|p r IH]; intros a b Hab; cbn; [exact Hab|]. apply IH. apply vstep_rel. exact Hab.
Qed.

Lemma vfold_rel t q minm tb1 tb2 : same_sets tb1 tb2 -> veq (vfold tb1 q t minm) (vfold tb2 q t minm).
Proof.
  intros H. unfold vfold. apply fold_vstep_rel.
  unfold veq, vinit; cbn. repeat split; try reflexivity. exact H.
Qed.

Lemma validate_rel t q minm tb1 tb2 : same_sets tb1 tb2 ->
  match validate_marker_lookup tb1 q t minm, validate_marker_lookup tb2 q t minm with
  | MOk (a1, l1), MOk (a2, l2) => same_sets a1 a2 /\ l1 = l2
  | MErr e1, MErr e2 => e1 = e2
  | _, _ => False
  end.
Proof.
  intros H. unfold validate_marker_lookup.
  destruct (vfold_rel t q minm tb1 tb2 H) as (Htb & He & Hb & Hk & Hl).
  rewrite He, Hb, Hk. destruct (v_err (vfold tb2 q t minm)).
  - destruct (Nat.eqb _ _); reflexivity.
  - split; assumption.
Qed.

(* cc_loop: related tables in, same error or tables out that list the same DISTINCT genes *)
Lemma cc_loop_rel need q tb1 tb2 : same_sets tb1 tb2 ->
  match cc_loop need q tb1, cc_loop need q tb2 with
  | MOk f1, MOk f2 => same_genes f1 f2 /\ (forall k l, In (k, l) f1 -> NoDup l)
  | MErr e1, MErr e2 => e1 = e2
  | _, _ => False
  end.
Proof.
  induction 1 as [|[k1 l1] [k2 l2] t1 t2 [Hk Hs] _ IH]; cbn [cc_loop].
  - split; [constructor | intros k l []].
  - cbn in Hk, Hs. subst k2.
    rewrite (is_nil_perm _ _ (uniq_inq_perm q l1 l2 Hs)), (is_nil_seteq l1 l2 Hs).
    destruct (is_nil (uniq (inq q l2)) && negb (is_nil l2) && need k1); [reflexivity|].
    destruct (cc_loop need q t1) as [f1|e1], (cc_loop need q t2) as [f2|e2]; try contradiction; [|exact IH].
    destruct IH as [Hf Hnd]. split.
    + constructor; [split; [reflexivity | apply uniq_inq_perm; exact Hs] | exact Hf].
    + intros k l [E|Hin]; [inversion E; subst; apply uniq_NoDup | apply (Hnd k l Hin)].
Qed.

Lemma missing_ref_rel refg tb1 tb2 : same_sets tb1 tb2 -> missing_ref refg tb1 = missing_ref refg tb2.
Proof.
  intros H. unfold missing_ref. apply Bool.eq_true_iff_eq. rewrite !existsb_exists.
  assert (Hside : forall ta tb, same_sets ta tb ->
            (exists x, In x ta /\ existsb (fun g => negb (zmem g refg)) (snd x) = true) ->
            exists x, In x tb /\ existsb (fun g => negb (zmem g refg)) (snd x) = true).
  { intros ta tb Hab (x & Hx & Hex). destruct (Forall2_in_l _ _ _ _ Hab Hx) as (y & Hy & _ & Hs).
    exists y. split; [exact Hy|]. apply existsb_exists in Hex. destruct Hex as (g & Hg & Hgn).
    apply existsb_exists. exists g. split; [apply Hs; exact Hg | exact Hgn]. }
  split; apply Hside; [exact H|].
  clear -H. induction H as [|e1 e2 t1 t2 [Hk Hs] _ IH]; constructor; [|exact IH].
  split; [symmetry; exact Hk | intros g; symmetry; apply Hs].
Qed.

(* the statement of Props/C04.v *)
Theorem create_cache_listing_independent :
  forall (tb1 tb2 : table) (refg qg : list gene) (topt : option tree) (minm : nat),
  same_sets tb1 tb2 ->
  create_cache tb1 refg qg topt minm = create_cache tb2 refg qg topt minm.
Proof.
  intros tb1 tb2 refg qg topt minm H. unfold create_cache.
  set (A := match topt with
            | Some t => match validate_marker_lookup tb1 qg t minm with
                        | MOk (tb', _) => MOk tb' | MErr e => MErr e end
            | None => MOk tb1 end).
  set (B := match topt with
            | Some t => match validate_marker_lookup tb2 qg t minm with
                        | MOk (tb', _) => MOk tb' | MErr e => MErr e end
            | None => MOk tb2 end).
  assert (Hx : match A, B with
               | MOk a1, MOk a2 => same_sets a1 a2
               | MErr e1, MErr e2 => e1 = e2
               | _, _ => False
               end).
  { subst A B. destruct topt as [t|]; [|exact H]. pose proof (validate_rel t qg minm tb1 tb2 H) as Hv.
    destruct (validate_marker_lookup tb1 qg t minm) as [[a1 g1]|e1],
             (validate_marker_lookup tb2 qg t minm) as [[a2 g2]|e2]; try contradiction; tauto. }
  clearbody A B.
  destruct A as [a1|e1], B as [a2|e2]; try contradiction; [|rewrite Hx; reflexivity].
  pose proof (cc_loop_rel (cc_need topt) qg a1 a2 Hx) as Hc.
  destruct (cc_loop (cc_need topt) qg a1) as [f1|e1], (cc_loop (cc_need topt) qg a2) as [f2|e2];
    try contradiction; [|rewrite Hc; reflexivity].
  rewrite (missing_ref_rel refg a1 a2 Hx). destruct (missing_ref refg a2); [reflexivity|].
  destruct Hc as [Hf Hnd]. apply cache_order_independent; assumption.
Qed.
