(* Lemmas about Model/Stats.v (audit repairs):
   - cells the taxonomy does not name contribute nothing: the table written depends only
     on the labelled cells, for every split into files, chunks and workers;
   - the 'ge1' counter against the exact threshold "log2(CPM+1) >= 1". *)
From Coq Require Import ZArith List Bool Arith Lia Permutation.
From CTM Require Import Base.Sx Base.SortX Model.Tree Model.Stats Proofs.StatsP.
Import ListNotations.
Open Scope Z_scope.

(* ------------------------------------------------------------------ *)
(* 1. unlabelled cells                                                 *)
(* is the cell named by the taxonomy (a member of some leaf cluster)? *)
Definition in_taxonomy (leaf : level) (c : cell) : bool :=
  match dict_get (fst c) (cell_to_cluster leaf) with Some _ => true | None => false end.

(* the same file without the cells the taxonomy does not name *)
Definition strip_unlabelled (leaf : level) (f : h5ad) : h5ad :=
  mk_h5ad (f_genes f) (filter (in_taxonomy leaf) (f_cells f)).

Lemma named_in_taxonomy leaf lookup :
  NoDup (map fst leaf) ->
  cell_to_row (cluster_to_row (map fst leaf)) (cell_to_cluster leaf) = Some lookup ->
  forall c, named lookup c = in_taxonomy leaf c.
Proof.
  intros ND Hl c. destruct (lookup_spec leaf ND) as (lk & L2 & S2).
  rewrite Hl in L2. inversion L2; subst lk.
  pose proof (rows_by_name leaf ND) as RB. cbv zeta in RB.
  destruct RB as (_ & _ & _ & _ & lk & Hl' & _ & H1 & H2).
  rewrite Hl in Hl'. inversion Hl'; subst lk.
  unfold named, in_taxonomy.
  destruct (dict_get (fst c) (cell_to_cluster leaf)) as [cl|] eqn:E.
  - destruct (H1 _ _ E) as (r & _ & Hd). rewrite Hd. reflexivity.
  - rewrite (H2 _ E). reflexivity.
Qed.

Lemma existsb_filter_same {A} (p : A -> bool) l : existsb p (filter p l) = existsb p l.
Proof.
  induction l as [|x t IH]; [reflexivity|]. cbn. destruct (p x) eqn:E; cbn; [rewrite E; reflexivity | exact IH].
Qed.

Lemma filter_concat_map {A} (p : A -> bool) (ll : list (list A)) :
  filter p (concat ll) = concat (map (filter p) ll).
Proof.
  induction ll as [|l t IH]; [reflexivity|]. cbn.
  assert (FA : forall a b : list A, filter p (a ++ b) = filter p a ++ filter p b).
  { intros a b. induction a as [|x a IHa]; [reflexivity|]. cbn. destruct (p x); cbn; rewrite IHa; reflexivity. }
  rewrite FA, IH. reflexivity.
Qed.

Lemma cells_rect_filter ng (p : cell -> bool) cells : cells_rect ng cells -> cells_rect ng (filter p cells).
Proof.
  unfold cells_rect. intros H. apply Forall_forall. intros c Hc. apply filter_In in Hc.
  rewrite Forall_forall in H. apply H. tauto.
Qed.

Lemma strip_files_wf ng leaf files : files_wf ng files -> files_wf ng (map (strip_unlabelled leaf) files).
Proof.
  intros [HF HG]. split.
  - apply Forall_forall. intros f Hf. apply in_map_iff in Hf. destruct Hf as (f0 & <- & Hf0).
    rewrite Forall_forall in HF. destruct (HF f0 Hf0) as [H1 H2]. cbn. split; [exact H1|].
    apply cells_rect_filter. exact H2.
  - destruct files as [|f t]; [reflexivity|]. cbn [map genes_agree] in *.
    rewrite forallb_forall in *. intros g Hg. apply in_map_iff in Hg. destruct Hg as (g0 & <- & Hg0).
    cbn [strip_unlabelled f_genes]. apply HG. exact Hg0.
Qed.

Lemma all_cells_strip leaf files :
  all_cells (map (strip_unlabelled leaf) files) = filter (in_taxonomy leaf) (all_cells files).
Proof.
  unfold all_cells. rewrite filter_concat_map, !map_map. reflexivity.
Qed.

(* the table depends only on the multiset of LABELLED cells: two sets of files - however
   their cells are spread, ordered, chunked and shared among workers - whose labelled cells
   agree write the same table (or both fail with E_NOWORK when there is no labelled cell) *)
Theorem only_labelled_cells_matter : forall D leaf files files' rows rows' p p' ng,
  NoDup (map fst leaf) -> (1 <= rows)%nat -> (1 <= rows')%nat -> (1 <= p)%nat -> (1 <= p')%nat ->
  files_wf ng files -> files_wf ng files' ->
  Permutation (filter (in_taxonomy leaf) (all_cells files)) (filter (in_taxonomy leaf) (all_cells files')) ->
  precompute D leaf files rows p = precompute D leaf files' rows' p'.
Proof.
  intros D leaf files files' rows rows' p p' ng ND Hr Hr' Hp Hp' Hfw Hfw' Hperm.
  destruct (precompute_equals_direct D leaf files rows p ng ND Hr Hp Hfw) as (lk & L1 & E1).
  destruct (precompute_equals_direct D leaf files' rows' p' ng ND Hr' Hp' Hfw') as (lk' & L2 & E2).
  rewrite L1 in L2. inversion L2; subst lk'.
  rewrite E1, E2.
  pose proof (named_in_taxonomy leaf lk ND L1) as NT.
  rewrite <- (filter_ext _ _ NT (all_cells files)), <- (filter_ext _ _ NT (all_cells files')) in Hperm.
  rewrite <- (existsb_filter_same (named lk) (all_cells files)).
  rewrite <- (existsb_filter_same (named lk) (all_cells files')).
  rewrite (existsb_perm (named lk) _ _ Hperm).
  rewrite (direct_ignores_unnamed D _ ng lk (all_cells files)).
  rewrite (direct_ignores_unnamed D _ ng lk (all_cells files')).
  rewrite (direct_perm D _ ng lk _ _ (cells_rect_filter ng _ _ (all_cells_rect ng files Hfw)) Hperm).
  reflexivity.
Qed.

(* cells not named by the taxonomy contribute nothing: the files with those cells removed
   give the same table, for every split into chunks and workers of either run *)
Theorem unlabelled_contribute_nothing : forall D leaf files rows rows' p p' ng,
  NoDup (map fst leaf) -> (1 <= rows)%nat -> (1 <= rows')%nat -> (1 <= p)%nat -> (1 <= p')%nat ->
  files_wf ng files ->
  files_wf ng (map (strip_unlabelled leaf) files) /\
  all_cells (map (strip_unlabelled leaf) files) = filter (in_taxonomy leaf) (all_cells files) /\
  precompute D leaf files rows p = precompute D leaf (map (strip_unlabelled leaf) files) rows' p'.
Proof.
  intros D leaf files rows rows' p p' ng ND Hr Hr' Hp Hp' Hfw.
  pose proof (strip_files_wf ng leaf files Hfw) as Hfw'.
  split; [exact Hfw'|]. split; [apply all_cells_strip|].
  apply (only_labelled_cells_matter D leaf files _ rows rows' p p' ng); try assumption.
  rewrite all_cells_strip.
  assert (FF : forall l, filter (in_taxonomy leaf) (filter (in_taxonomy leaf) l) = filter (in_taxonomy leaf) l).
  { induction l as [|x t IH]; [reflexivity|]. cbn. destruct (in_taxonomy leaf x) eqn:E; cbn; [rewrite E, IH; reflexivity | exact IH]. }
  rewrite FF. apply Permutation_refl.
Qed.

(* ------------------------------------------------------------------ *)
(* 2. the 'ge1' counter against the exact threshold                    *)
(* the exact indicator of "log2(CPM+1) >= 1", i.e. CPM >= 1, for the value v / D *)
Definition ind_ge1_exact (D v : Z) : Z := b2z (D <=? v).

Lemma GE_lt : GE_NUM < GE_DEN. Proof. reflexivity. Qed.
Lemma GE_pos : 0 < GE_NUM. Proof. reflexivity. Qed.

(* what the code counts: v / D > 1 - 1e-6 (the binary64 number GE_NUM / GE_DEN) *)
Lemma ind_ge1_iff D v : ind_ge1 D v = 1 <-> GE_NUM * D < v * GE_DEN.
Proof.
  unfold ind_ge1, b2z. destruct (GE_NUM * D <? v * GE_DEN) eqn:E.
  - apply Z.ltb_lt in E. tauto.
  - apply Z.ltb_ge in E. split; [discriminate | lia].
Qed.

(* every value >= 1 is counted; every value counted is > 1; so gt1 <= exact <= ge1 *)
Lemma ind_ge1_brackets D v : 0 < D ->
  ind_gt1 D v <= ind_ge1_exact D v <= ind_ge1 D v.
Proof.
  intros HD. pose proof GE_lt as G1. pose proof GE_pos as G0.
  unfold ind_gt1, ind_ge1_exact, ind_ge1, b2z.
  destruct (Z.ltb_spec D v) as [E1|E1]; destruct (Z.leb_spec D v) as [E2|E2];
    destruct (Z.ltb_spec (GE_NUM * D) (v * GE_DEN)) as [E3|E3]; cbv iota; try lia.
  all: exfalso; assert (D * GE_DEN <= v * GE_DEN) by nia; assert (GE_NUM * D < D * GE_DEN) by nia; lia.
Qed.

(* on a grid of step 1/D with D <= 999 999 (D * (GE_DEN - GE_NUM) <= GE_DEN) no value lies
   strictly between 1 - 1e-6 and 1: the counter is the exact one *)
Lemma ind_ge1_exact_on_grid D v : 0 < D -> D * (GE_DEN - GE_NUM) <= GE_DEN ->
  ind_ge1 D v = ind_ge1_exact D v.
Proof.
  intros HD HG. pose proof (ind_ge1_brackets D v HD) as [_ B].
  unfold ind_ge1_exact, ind_ge1, b2z in *.
  destruct (D <=? v) eqn:E2; destruct (GE_NUM * D <? v * GE_DEN) eqn:E3; try lia.
  apply Z.leb_gt in E2. apply Z.ltb_lt in E3. exfalso.
  assert (v * GE_DEN <= (D - 1) * GE_DEN) by (pose proof GE_lt; pose proof GE_pos; nia). lia.
Qed.

(* integer-valued log2(CPM+1) (v = k * D): exact, whatever D *)
Lemma ind_ge1_integer D k : 0 < D -> ind_ge1 D (k * D) = b2z (1 <=? k).
Proof.
  intros HD. pose proof (ind_ge1_brackets D (k * D) HD) as [_ B].
  unfold ind_ge1_exact, ind_ge1, b2z in *.
  destruct (1 <=? k) eqn:E1.
  - apply Z.leb_le in E1. replace (D <=? k * D) with true in B by (symmetry; apply Z.leb_le; nia).
    destruct (GE_NUM * D <? k * D * GE_DEN); lia.
  - apply Z.leb_gt in E1. destruct (GE_NUM * D <? k * D * GE_DEN) eqn:E3; [|reflexivity].
    apply Z.ltb_lt in E3. exfalso. pose proof GE_pos. pose proof GE_lt.
    assert (KD : k * D <= 0) by nia. assert (0 < GE_DEN) by lia.
    assert (k * D * GE_DEN <= 0) by nia. assert (0 < GE_NUM * D) by nia. lia.
Qed.

(* but not in general: 1 - 2^-21 < 1 is counted as "at least 1" and not as "above 1" *)
Lemma ind_ge1_not_exact :
  exists D v, 0 < D /\ v < D /\ ind_ge1 D v = 1 /\ ind_ge1_exact D v = 0 /\ ind_gt1 D v = 0.
Proof. exists 2097152, 2097151. repeat split; reflexivity. Qed.

(* lifted to the table: column sums *)
Lemma vadd_le : forall a a' b b', Forall2 Z.le a a' -> Forall2 Z.le b b' -> Forall2 Z.le (vadd a b) (vadd a' b').
Proof.
  intros a a' b b' H. revert b b'. induction H as [|x x' a a' Hx _ IH]; intros b b' Hb; [constructor|].
  inversion Hb as [|y y' t t' Hy Ht]; subst; cbn; [constructor|]. constructor; [lia | apply IH; exact Ht].
Qed.

Lemma colsum_le ng (f g : Z -> Z) rows : (forall v, f v <= g v) ->
  Forall2 Z.le (colsum ng (map (map f) rows)) (colsum ng (map (map g) rows)).
Proof.
  intros H. induction rows as [|r t IH]; cbn [map colsum fold_right].
  - unfold vzero. induction ng; cbn; constructor; [lia | assumption].
  - apply vadd_le; [|exact IH]. induction r as [|x r IHr]; cbn; constructor; [apply H | exact IHr].
Qed.

(* the exact number of cells with log2(CPM+1) >= 1, per gene *)
Definition exact_ge1 (D : Z) (ng : nat) (rows : list (list Z)) : list Z :=
  colsum ng (map (map (ind_ge1_exact D)) rows).

Theorem ge1_against_exact : forall D ng rows, 0 < D ->
  let S := stats_of_rows D ng rows in
  (* always: gt1 <= exact <= ge1, gene by gene *)
  Forall2 Z.le (s_gt1 S) (exact_ge1 D ng rows) /\ Forall2 Z.le (exact_ge1 D ng rows) (s_ge1 S) /\
  (* exact when the values lie on a grid of step 1/D, D <= 999 999 *)
  (D * (GE_DEN - GE_NUM) <= GE_DEN -> s_ge1 S = exact_ge1 D ng rows) /\
  (* exact when every value is an integer (a multiple of D) *)
  (Forall (Forall (fun v => exists k, v = k * D)) rows -> s_ge1 S = exact_ge1 D ng rows).
Proof.
  intros D ng rows HD. cbn zeta. unfold exact_ge1. cbn [s_gt1 s_ge1 stats_of_rows].
  split; [apply colsum_le; intros v; apply (ind_ge1_brackets D v HD)|].
  split; [apply colsum_le; intros v; apply (ind_ge1_brackets D v HD)|].
  split.
  - intros HG. f_equal. apply map_ext. intros r. apply map_ext. intros v.
    apply ind_ge1_exact_on_grid; assumption.
  - intros HI. f_equal. apply map_ext_in. intros r Hr. apply map_ext_in. intros v Hv.
    rewrite Forall_forall in HI. specialize (HI r Hr). rewrite Forall_forall in HI.
    destruct (HI v Hv) as (k & ->). rewrite ind_ge1_integer by exact HD.
    unfold ind_ge1_exact. f_equal.
    destruct (1 <=? k) eqn:E1; symmetry; [apply Z.leb_le; apply Z.leb_le in E1; nia | apply Z.leb_gt; apply Z.leb_gt in E1; nia].
Qed.

(* ... and in general it is not: a cell whose value is 1 - 2^-21 (CPM just below 1) *)
Theorem ge1_exact_refuted :
  exists D ng rows, 0 < D /\
    s_ge1 (stats_of_rows D ng rows) = [1] /\ exact_ge1 D ng rows = [0] /\
    s_gt1 (stats_of_rows D ng rows) = [0].
Proof. exists 2097152, 1%nat, [[2097151]]. repeat split; reflexivity. Qed.
