From Coq Require Import ZArith List Bool Lia FinFun.
From CTM Require Import Base.Sx Base.ListX Model.GeneId.
Import ListNotations.
Open Scope Z_scope.

Lemma str_eqb_eq a b : str_eqb a b = true <-> a = b.
Proof.
  revert b. induction a as [|x a IH]; intros [|y b]; cbn; split; intros H;
    try reflexivity; try discriminate.
  - apply andb_true_iff in H. destruct H as [H1 H2]. apply Z.eqb_eq in H1. apply IH in H2. congruence.
  - inversion H; subst. rewrite Z.eqb_refl. cbn. apply IH. reflexivity.
Qed.

(* what one input gene becomes, given the number of placeholders issued before it *)
Definition map_one (tbl : list (str * str)) (ct : nat) (g : str) : oname :=
  if is_ensembl g then Name (before_dot g)
  else match lookup g tbl with Some v => Name (before_dot v) | None => Placeholder ct end.

Definition unmappable (tbl : list (str * str)) (g : str) : bool :=
  negb (is_ensembl g) && match lookup g tbl with Some _ => false | None => true end.

Definition count_unmappable tbl (l : list str) : nat := length (filter (unmappable tbl) l).

Lemma map_loop_length tbl ct g : length (fst (map_loop tbl ct g)) = length g.
Proof.
  revert ct. induction g as [|x t IH]; intros ct; cbn [map_loop]; [reflexivity|].
  destruct (is_ensembl x).
  - specialize (IH ct). destruct (map_loop tbl ct t). cbn in *. lia.
  - destruct (lookup x tbl).
    + specialize (IH ct). destruct (map_loop tbl ct t). cbn in *. lia.
    + specialize (IH (S ct)). destruct (map_loop tbl (S ct) t). cbn in *. lia.
Qed.

Lemma map_loop_count tbl ct g : snd (map_loop tbl ct g) = (ct + count_unmappable tbl g)%nat.
Proof.
  revert ct. induction g as [|x t IH]; intros ct; cbn [map_loop]; [cbn; lia|].
  unfold count_unmappable in *. cbn [filter]. unfold unmappable at 1.
  destruct (is_ensembl x); cbn [negb andb].
  - specialize (IH ct). destruct (map_loop tbl ct t). cbn in *. lia.
  - destruct (lookup x tbl).
    + specialize (IH ct). destruct (map_loop tbl ct t). cbn in *. lia.
    + specialize (IH (S ct)). destruct (map_loop tbl (S ct) t). cbn [snd length] in *. lia.
Qed.

(* position-wise description: gene i becomes map_one with the number of
   unmappable genes among the first i as its placeholder counter *)
Lemma map_loop_nth tbl ct g i x :
  nth_error g i = Some x ->
  nth_error (fst (map_loop tbl ct g)) i =
    Some (map_one tbl (ct + count_unmappable tbl (firstn i g)) x).
Proof.
  revert ct i. induction g as [|y t IH]; intros ct i H; [destruct i; discriminate|].
  destruct i as [|i].
  - cbn in H. inversion H; subst y. cbn [firstn]. unfold count_unmappable. cbn [filter length].
    rewrite Nat.add_0_r. cbn [map_loop]. unfold map_one.
    destruct (is_ensembl x).
    + destruct (map_loop tbl ct t). reflexivity.
    + destruct (lookup x tbl).
      * destruct (map_loop tbl ct t). reflexivity.
      * destruct (map_loop tbl (S ct) t). reflexivity.
  - cbn [nth_error] in H. cbn [firstn map_loop].
    unfold count_unmappable. cbn [filter]. unfold unmappable at 1.
    destruct (is_ensembl y); cbn [negb andb].
    + specialize (IH ct i H). destruct (map_loop tbl ct t). cbn [fst nth_error] in *. exact IH.
    + destruct (lookup y tbl).
      * specialize (IH ct i H). destruct (map_loop tbl ct t). cbn [fst nth_error] in *. exact IH.
      * specialize (IH (S ct) i H). destruct (map_loop tbl (S ct) t). cbn [fst nth_error length] in *.
        rewrite IH. unfold count_unmappable. f_equal. f_equal. lia.
Qed.

(* placeholders are pairwise distinct: two positions carrying the same
   placeholder are the same position *)
Lemma count_firstn_mono tbl g i j : (i <= j)%nat ->
  (count_unmappable tbl (firstn i g) <= count_unmappable tbl (firstn j g))%nat.
Proof.
  intros Hij. unfold count_unmappable.
  replace j with (i + (j - i))%nat by lia.
  rewrite firstn_add, filter_app, app_length. lia.
Qed.

Lemma count_firstn_S tbl g i x : nth_error g i = Some x ->
  count_unmappable tbl (firstn (S i) g) =
  (count_unmappable tbl (firstn i g) + if unmappable tbl x then 1 else 0)%nat.
Proof.
  revert i. induction g as [|y t IH]; intros i H; [destruct i; discriminate|].
  destruct i as [|i].
  - cbn in H. inversion H; subst. unfold count_unmappable. cbn. destruct (unmappable tbl x); reflexivity.
  - cbn [nth_error] in H. specialize (IH i H).
    unfold count_unmappable in *. cbn [firstn filter] in *.
    destruct (unmappable tbl y); cbn [length]; lia.
Qed.

Lemma map_one_placeholder tbl ct x k :
  map_one tbl ct x = Placeholder k -> k = ct /\ unmappable tbl x = true.
Proof.
  unfold map_one, unmappable. destruct (is_ensembl x); [discriminate|].
  destruct (lookup x tbl); [discriminate|]. intros H; inversion H. auto.
Qed.

Lemma placeholders_distinct tbl g i j k :
  nth_error (fst (map_loop tbl 0 g)) i = Some (Placeholder k) ->
  nth_error (fst (map_loop tbl 0 g)) j = Some (Placeholder k) -> i = j.
Proof.
  intros Hi Hj.
  assert (Hli : (i < length g)%nat).
  { rewrite <- (map_loop_length tbl 0 g). apply nth_error_Some. congruence. }
  assert (Hlj : (j < length g)%nat).
  { rewrite <- (map_loop_length tbl 0 g). apply nth_error_Some. congruence. }
  destruct (nth_error g i) as [xi|] eqn:Ei; [|apply nth_error_None in Ei; lia].
  destruct (nth_error g j) as [xj|] eqn:Ej; [|apply nth_error_None in Ej; lia].
  rewrite (map_loop_nth _ _ _ _ _ Ei) in Hi. rewrite (map_loop_nth _ _ _ _ _ Ej) in Hj.
  inversion Hi as [Hi']. inversion Hj as [Hj'].
  apply map_one_placeholder in Hi'. apply map_one_placeholder in Hj'.
  destruct Hi' as [Hki Hui], Hj' as [Hkj Huj]. cbn [Nat.add] in *.
  pose proof (count_firstn_S tbl g i xi Ei) as Si. rewrite Hui in Si.
  pose proof (count_firstn_S tbl g j xj Ej) as Sj. rewrite Huj in Sj.
  destruct (Nat.lt_trichotomy i j) as [Hlt | [Heq | Hgt]]; [|exact Heq|].
  - pose proof (count_firstn_mono tbl g (S i) j ltac:(lia)). lia.
  - pose proof (count_firstn_mono tbl g (S j) i ltac:(lia)). lia.
Qed.

(* the renaming that is recorded is exactly the changed pairs *)
Lemma gene_mapping_spec g o x y :
  length g = length o ->
  (In (x, y) (gene_mapping g o) <->
   exists i, nth_error g i = Some x /\ nth_error o i = Some y /\ y <> Name x).
Proof.
  revert o. induction g as [|a g IH]; intros [|b o] Hlen; try discriminate.
  - cbn. split; [tauto|]. intros (i & H & _). destruct i; discriminate.
  - cbn [gene_mapping]. rewrite in_app_iff.
    injection Hlen as Hlen. rewrite (IH o Hlen).
    split.
    + intros [H | (i & H1 & H2 & H3)].
      * exists 0%nat. destruct b as [s|k].
        -- destruct (str_eqb s a) eqn:E; [destruct H|].
           destruct H as [H|[]]. inversion H; subst. cbn. repeat split; try reflexivity.
           intros Hc. inversion Hc; subst. rewrite (proj2 (str_eqb_eq x x) eq_refl) in E. discriminate.
        -- destruct H as [H|[]]. inversion H; subst. cbn. repeat split; try reflexivity. discriminate.
      * exists (S i). cbn. auto.
    + intros (i & H1 & H2 & H3). destruct i as [|i].
      * left. cbn in H1, H2. inversion H1; inversion H2; subst.
        destruct y as [s|k].
        -- destruct (str_eqb s x) eqn:E.
           ++ apply str_eqb_eq in E. subst. congruence.
           ++ left; reflexivity.
        -- left; reflexivity.
      * right. exists i. cbn in H1, H2. auto.
Qed.

(* a file needing no change yields no new file *)
Lemma no_change_no_file tbl cells genes round xi r o n :
  validate tbl cells genes true round xi = GOk r ->
  (round && negb xi) = false ->
  map_gene_identifiers tbl genes = GOk (o, n) -> onames_eq_strs o genes = true ->
  v_new_file r = false.
Proof.
  intros Hv Hr Hm Ho. unfold validate in Hv.
  destruct (has_dup str_eqb cells); [discriminate|].
  destruct (has_dup str_eqb genes); [discriminate|].
  destruct (existsb is_nil genes); [discriminate|].
  rewrite Hm in Hv. rewrite Ho in Hv. cbn [negb andb orb] in Hv.
  inversion Hv; subst r. cbn [v_new_file]. exact Hr.
Qed.

Lemma has_dup_sound {A} (eqb : A -> A -> bool) (l : list A) :
  (forall a b, eqb a b = true <-> a = b) ->
  has_dup eqb l = false -> NoDup l.
Proof.
  intros Heq. induction l as [|x t IH]; intros H; [constructor|].
  cbn in H. apply orb_false_iff in H. destruct H as [H1 H2].
  constructor; [|apply IH; exact H2].
  intros Hin. assert (existsb (eqb x) t = true).
  { apply existsb_exists. exists x. split; [exact Hin| apply Heq; reflexivity]. }
  congruence.
Qed.

Lemma oname_eqb_eq a b : oname_eqb a b = true <-> a = b.
Proof.
  destruct a as [s|i], b as [t|j]; cbn; split; intros H; try discriminate.
  - apply str_eqb_eq in H. congruence.
  - inversion H. apply str_eqb_eq. reflexivity.
  - apply Nat.eqb_eq in H. congruence.
  - inversion H. apply Nat.eqb_eq. reflexivity.
Qed.

(* an accepted input has unique cells, unique non-empty genes, and the genes of the
   written file are unique, as many as in the input, with n_mapped accounted for *)
Lemma validate_ok_spec tbl cells genes lx round xi r :
  validate tbl cells genes lx round xi = GOk r ->
  NoDup cells /\ NoDup genes /\ ~ In [] genes /\
  length (v_genes r) = length genes /\ NoDup (v_genes r) /\
  v_rounded r = (round && negb xi) /\
  (v_new_file r = false -> lx = true /\ v_rounded r = false /\ v_genes r = map Name genes /\ v_mapping r = []).
Proof.
  unfold validate. intros H.
  destruct (has_dup str_eqb cells) eqn:Ec; [discriminate|].
  destruct (has_dup str_eqb genes) eqn:Eg; [discriminate|].
  destruct (existsb is_nil genes) eqn:Ee; [discriminate|].
  assert (NDc : NoDup cells) by (eapply has_dup_sound; [apply str_eqb_eq | exact Ec]).
  assert (NDg : NoDup genes) by (eapply has_dup_sound; [apply str_eqb_eq | exact Eg]).
  assert (NE : ~ In [] genes).
  { intros Hin. assert (existsb is_nil genes = true) by (apply existsb_exists; exists []; auto). congruence. }
  destruct (map_gene_identifiers tbl genes) as [[o n]|c] eqn:Em; [|discriminate].
  assert (Hlen : length o = length genes).
  { unfold map_gene_identifiers in Em. destruct genes as [|g0 gs]; [inversion Em; reflexivity|].
    pose proof (map_loop_length tbl 0 (g0 :: gs)) as Hl.
    destruct (map_loop tbl 0 (g0 :: gs)) as [o' n'] eqn:El.
    destruct (Nat.eqb n' (length (g0 :: gs))); [discriminate|]. inversion Em; subst. exact Hl. }
  destruct (negb (onames_eq_strs o genes)) eqn:Ech; cbn [andb] in H.
  - destruct (has_dup oname_eqb o) eqn:Ed; [discriminate|].
    inversion H; subst r; cbn.
    assert (Hnf : (negb lx || true || round && negb xi) = true) by (destruct lx; reflexivity).
    rewrite Hnf.
    repeat split; auto; try discriminate.
    eapply has_dup_sound; [apply oname_eqb_eq | exact Ed].
  - inversion H; subst r; cbn.
    repeat split; auto.
    + apply map_length.
    + apply FinFun.Injective_map_NoDup; [|exact NDg]. intros a b Hab. congruence.
    + destruct lx; [reflexivity|]. cbn in H0. discriminate.
    + destruct lx; cbn in H0; [|discriminate]. exact H0.
Qed.

(* is_ensembl survives suffix stripping *)
Lemma span_all p s : fst (span p s) ++ snd (span p s) = s.
Proof.
  induction s as [|c t IH]; cbn; [reflexivity|].
  destruct (p c); [|reflexivity]. destruct (span p t). cbn in *. congruence.
Qed.
