(* choose_node (Vote.choose_with: sort the children by votes, keep the first n_assign,
   drop the runners-up without votes) meets the acceptor check_choice for EVERY order
   that is a permutation of the children with non-increasing votes -- i.e. whatever
   numpy's argsort does with ties.  Links the algorithm to the C02/C03 statements. *)
From Coq Require Import ZArith List Bool Lia Arith Permutation Sorted.
From CTM Require Import Base.Sx Base.ListX Base.SortX Model.Vote Proofs.VoteP.
Import ListNotations.
Open Scope nat_scope.

Definition ge' (a b : nat) : Prop := b <= a.

Lemma firstn_subset {A} n (l : list A) y : In y (firstn n l) -> In y l.
Proof. intros H. rewrite <- (firstn_skipn n l). apply in_or_app. left. exact H. Qed.

Lemma sorted_desc_strong l : sorted_desc l = true <-> StronglySorted ge' l.
Proof.
  split.
  - intros H. apply Sorted_StronglySorted; [intros a b c; unfold ge'; lia|].
    induction l as [|x t IH]; [constructor|].
    destruct t as [|y t'].
    + constructor; constructor.
    + cbn [sorted_desc] in H. apply andb_true_iff in H. destruct H as [H1 H2].
      constructor; [apply IH; exact H2|]. constructor. apply Nat.leb_le in H1. exact H1.
  - intros H. induction l as [|x t IH]; [reflexivity|].
    destruct t as [|y t']; [reflexivity|].
    cbn [sorted_desc]. apply StronglySorted_inv in H. destruct H as [H1 H2].
    apply andb_true_iff. split; [|apply IH; exact H1].
    apply Nat.leb_le. inversion H2; subst. assumption.
Qed.

Lemma strong_sublist_filter {A} (R : A -> A -> Prop) (f : A -> bool) l :
  StronglySorted R l -> StronglySorted R (filter f l).
Proof.
  induction l as [|x t IH]; intros H; [constructor|].
  apply StronglySorted_inv in H. destruct H as [H1 H2]. cbn [filter].
  destruct (f x); [|apply IH; exact H1].
  constructor; [apply IH; exact H1|]. rewrite Forall_forall in *. intros y Hy. apply filter_In in Hy. apply H2. tauto.
Qed.

Lemma strong_firstn {A} (R : A -> A -> Prop) n l : StronglySorted R l -> StronglySorted R (firstn n l).
Proof.
  revert n. induction l as [|x t IH]; intros [|n] H; cbn [firstn]; try constructor.
  - apply IH. apply StronglySorted_inv in H. tauto.
  - apply StronglySorted_inv in H. destruct H as [_ H]. rewrite Forall_forall in *. intros y Hy.
    apply H. eapply (firstn_subset n t). exact Hy.
Qed.

Lemma perm_filter {A} (f : A -> bool) l l' : Permutation l l' -> Permutation (filter f l) (filter f l').
Proof.
  intros H. induction H as [|x l l' H IH|x y l|l l' l'' Ha IHa Hb IHb]; cbn [filter].
  - constructor.
  - destruct (f x); [constructor|]; exact IH.
  - destruct (f x), (f y); try apply Permutation_refl. apply perm_swap.
  - eapply Permutation_trans; eauto.
Qed.

Lemma last_default_irrelevant {A} (z : A) u d d' : last (z :: u) d = last (z :: u) d'.
Proof. revert z. induction u as [|y u IH]; intros z; [reflexivity|]. change (last (y :: u) d = last (y :: u) d'). apply IH. Qed.

Lemma last_cons_default {A} (a : A) u d : last (a :: u) d = last u a.
Proof. destruct u as [|z u]; [reflexivity|]. change (last (z :: u) d = last (z :: u) a). apply last_default_irrelevant. Qed.

Lemma nodup_firstn {A} m (l : list A) : NoDup l -> NoDup (firstn m l).
Proof.
  revert m. induction l as [|x t IH]; intros [|m] H; cbn [firstn]; try constructor.
  - inversion H; subst. intros Hin. apply firstn_subset in Hin. contradiction.
  - apply IH. inversion H; assumption.
Qed.

Section Choose.
Variable vf : Z -> nat.
Let pos (c : Z) : bool := Nat.ltb 0 (vf c).
Let pr (c : Z) : Z * nat := (c, vf c).

(* votes non-increasing along l *)
Definition vdesc (l : list Z) : Prop := StronglySorted ge' (map vf l).

Lemma vdesc_inv x t : vdesc (x :: t) -> vdesc t /\ forall y, In y t -> vf y <= vf x.
Proof.
  unfold vdesc. cbn [map]. intros H. apply StronglySorted_inv in H. destruct H as [H1 H2]. split; [exact H1|].
  intros y Hy. rewrite Forall_forall in H2. apply (H2 (vf y)). apply in_map. exact Hy.
Qed.

Lemma filter_none {A} (f : A -> bool) l : (forall y, In y l -> f y = false) -> filter f l = [].
Proof.
  induction l as [|y t IH]; intros H; [reflexivity|]. cbn [filter].
  rewrite (H y (or_introl eq_refl)). apply IH. intros z Hz. apply H. right. exact Hz.
Qed.

Lemma zero_tail x t : vdesc (x :: t) -> vf x = 0 -> filter pos t = [].
Proof.
  intros H E. destruct (vdesc_inv _ _ H) as [_ Hle]. apply filter_none.
  intros y Hy. unfold pos. specialize (Hle y Hy). destruct (Nat.ltb_spec 0 (vf y)); [lia | reflexivity].
Qed.

(* the runners-up kept from the first m children after the winner *)
Lemma kept_length m l : vdesc l ->
  length (filter (fun r : Z * nat => Nat.ltb 0 (snd r)) (map pr (firstn m l))) = Nat.min m (length (filter pos l)).
Proof.
  revert m. induction l as [|x t IH]; intros m H.
  - rewrite firstn_nil. cbn. lia.
  - destruct m as [|m]; [reflexivity|]. cbn [firstn map filter snd pr]. fold pr. unfold pos at 1.
    destruct (Nat.ltb_spec 0 (vf x)) as [Hp | Hz].
    + cbn [length]. rewrite IH by (apply (vdesc_inv x t H)). lia.
    + assert (E : vf x = 0) by lia. rewrite (zero_tail x t H E). cbn [length].
      assert (E2 : filter (fun r : Z * nat => Nat.ltb 0 (snd r)) (map pr (firstn m t)) = []).
      { destruct (vdesc_inv _ _ H) as [_ Hle]. clear -Hle E.
        assert (Hz : forall y, In y (firstn m t) -> vf y = 0).
        { intros y Hy. apply firstn_subset in Hy. specialize (Hle y Hy). lia. }
        induction (firstn m t) as [|y u IHu]; [reflexivity|]. cbn [map filter snd]. unfold pr at 1. cbn [snd].
        rewrite (Hz y (or_introl eq_refl)). cbn. apply IHu. intros z Hzz. apply Hz. right; exact Hzz. }
      rewrite E2. reflexivity.
Qed.

Lemma kept_in m l r :
  In r (filter (fun r : Z * nat => Nat.ltb 0 (snd r)) (map pr (firstn m l))) ->
  In (fst r) (firstn m l) /\ vf (fst r) = snd r /\ 0 < snd r.
Proof.
  intros H. apply filter_In in H. destruct H as [H1 H2]. apply in_map_iff in H1. destruct H1 as (c & <- & Hc).
  cbn [fst snd pr] in *. unfold pr. cbn [fst snd]. split; [exact Hc|]. split; [reflexivity|]. apply Nat.ltb_lt. exact H2.
Qed.

Lemma kept_fst m l :
  map fst (filter (fun r : Z * nat => Nat.ltb 0 (snd r)) (map pr (firstn m l))) = filter pos (firstn m l).
Proof.
  induction (firstn m l) as [|x t IH]; [reflexivity|]. cbn [map filter]. unfold pr at 1, pos at 1. cbn [snd].
  destruct (Nat.ltb 0 (vf x)); cbn [map fst]; rewrite IH; reflexivity.
Qed.

Lemma kept_snd m l :
  map snd (filter (fun r : Z * nat => Nat.ltb 0 (snd r)) (map pr (firstn m l))) = map vf (filter pos (firstn m l)).
Proof.
  induction (firstn m l) as [|x t IH]; [reflexivity|]. cbn [map filter]. unfold pr at 1, pos at 1. cbn [snd].
  destruct (Nat.ltb 0 (vf x)); cbn [map snd]; rewrite IH; reflexivity.
Qed.

(* an element past the kept prefix has no more votes than the last kept one *)
Lemma beyond_le_last m l c d :
  vdesc l -> In c l -> ~ In c (filter pos (firstn m l)) -> vf c <= d ->
  (forall y, In y l -> vf y <= d) ->
  vf c <= last (map vf (filter pos (firstn m l))) d.
Proof.
  revert m d. induction l as [|x t IH]; intros m d H Hin Hnot Hd Hall; [destruct Hin|].
  destruct m as [|m]; [cbn; exact Hd|].
  cbn [firstn filter] in *. unfold pos at 1 in Hnot. unfold pos at 1.
  destruct (vdesc_inv _ _ H) as [Ht Hle].
  destruct (Nat.ltb_spec 0 (vf x)) as [Hp | Hz].
  - cbn [map].
    assert (Hc : In c t).
    { destruct Hin as [E | Hin]; [|exact Hin]. exfalso. apply Hnot. left. exact E. }
    rewrite last_cons_default. apply IH; auto.
    + intros Hc'. apply Hnot. right. exact Hc'.
  - (* x has no vote: nothing is kept, and nothing after x has a vote either *)
    assert (E : vf x = 0) by lia.
    assert (Ec : vf c = 0).
    { destruct Hin as [<- | Hin]; [exact E|]. specialize (Hle c Hin). lia. }
    lia.
Qed.

(* ---------------- the theorem ---------------- *)
Theorem choose_meets_spec kids order n_assign w wv rs :
  NoDup kids -> Permutation order kids -> vdesc order -> 1 <= n_assign ->
  choose_with order vf n_assign = Some (w, wv, rs) ->
  check_choice kids vf n_assign w wv rs = true.
Proof.
  intros ND HP HS Hn H. unfold choose_with in H.
  destruct order as [|w0 rest].
  - rewrite firstn_nil in H. discriminate.
  - assert (Em : Nat.min n_assign (length (w0 :: rest)) = S (Nat.min (n_assign - 1) (length rest))) by (cbn [length]; lia).
    rewrite Em in H. cbn [firstn] in H. injection H as -> <- <-.
    set (m := Nat.min (n_assign - 1) (length rest)).
    fold pr.
    assert (NDo : NoDup (w :: rest)) by (eapply Permutation_NoDup; [apply Permutation_sym; exact HP | exact ND]).
    inversion NDo as [|? ? Hw_notin NDrest]; subst.
    destruct (vdesc_inv _ _ HS) as [HSrest Hmax].
    assert (Hin_kids : forall c, In c kids <-> c = w \/ In c rest).
    { intros c. split; intros Hc.
      - apply (Permutation_in _ (Permutation_sym HP)) in Hc. destruct Hc; auto.
      - apply (Permutation_in _ HP). destruct Hc as [-> | Hc]; [left; reflexivity | right; exact Hc]. }
    unfold check_choice.
    rewrite !andb_true_iff. split; [split; [split; [split; [split; [split; [split|]|]|]|]|]|].
    + apply zmem_in. apply Hin_kids. left; reflexivity.
    + apply Nat.eqb_refl.
    + apply forallb_forall. intros c Hc. apply Nat.leb_le. apply Hin_kids in Hc. destruct Hc as [-> | Hc]; [lia | apply Hmax; exact Hc].
    + apply znodup_b_spec. rewrite kept_fst. constructor.
      * intros Hin. apply filter_In in Hin. destruct Hin as [Hin _]. apply firstn_subset in Hin. contradiction.
      * apply NoDup_filter. apply nodup_firstn. exact NDrest.
    + apply forallb_forall. intros r Hr. destruct (kept_in _ _ _ Hr) as (H1 & H2 & H3).
      apply andb_true_intro. split; [apply andb_true_intro; split|].
      * apply zmem_in. apply Hin_kids. right. eapply firstn_subset. exact H1.
      * apply Nat.eqb_eq. exact H2.
      * apply Nat.ltb_lt. exact H3.
    + apply sorted_desc_strong. rewrite kept_snd.
      change (vf w :: map vf (filter pos (firstn m rest))) with (map vf (w :: filter pos (firstn m rest))).
      assert (HS2 : vdesc (w :: firstn m rest)).
      { unfold vdesc in *. cbn [map]. constructor.
        - rewrite <- firstn_map. apply strong_firstn. exact HSrest.
        - apply Forall_forall. intros v Hv. apply in_map_iff in Hv. destruct Hv as (y & <- & Hy).
          unfold ge'. apply Hmax. eapply firstn_subset. exact Hy. }
      unfold vdesc in HS2. cbn [map] in HS2. apply StronglySorted_inv in HS2. destruct HS2 as [HS3 HS4].
      cbn [map]. constructor.
      * clear -HS3. induction (firstn m rest) as [|x t IH]; [constructor|]. cbn [map filter] in *.
        apply StronglySorted_inv in HS3. destruct HS3 as [H1 H2].
        destruct (pos x); [|apply IH; exact H1]. cbn [map]. constructor; [apply IH; exact H1|].
        rewrite Forall_forall in *. intros v Hv. apply in_map_iff in Hv. destruct Hv as (y & <- & Hy).
        apply filter_In in Hy. apply H2. apply in_map. tauto.
      * rewrite Forall_forall in *. intros v Hv. apply in_map_iff in Hv. destruct Hv as (y & <- & Hy).
        apply filter_In in Hy. apply HS4. apply in_map. tauto.
    + apply Nat.eqb_eq. rewrite kept_length by exact HSrest.
      assert (Ecount : count (fun c => negb (c =? w)%Z && Nat.ltb 0 (vf c)) kids = length (filter pos rest)).
      { unfold count.
        rewrite <- (Permutation_length (perm_filter _ _ _ HP)). cbn [filter]. rewrite Z.eqb_refl. cbn [negb andb].
        f_equal. apply filter_ext_in. intros c Hc. unfold pos.
        destruct (Z.eqb_spec c w) as [-> | NE]; [contradiction | reflexivity]. }
      rewrite Ecount. unfold m.
      pose proof (filter_length_le pos rest). lia.
    + apply forallb_forall. intros c Hc. apply orb_true_iff.
      apply Hin_kids in Hc. destruct Hc as [-> | Hc]; [left; apply zmem_in; left; reflexivity|].
      rewrite kept_fst, kept_snd.
      destruct (in_dec Z.eq_dec c (filter pos (firstn m rest))) as [Hk | Hk].
      * left. apply zmem_in. right. exact Hk.
      * right. apply Nat.leb_le. apply beyond_le_last; auto.
Qed.
End Choose.

(* ---------------- winner + runners-up = all votes when every vote getter is listed ---------------- *)
Lemma nsum_partition (vf : Z -> nat) (f : Z -> bool) l :
  nsum (map vf l) = nsum (map vf (filter f l)) + nsum (map vf (filter (fun c => negb (f c)) l)).
Proof.
  induction l as [|x t IH]; [reflexivity|]. cbn [map filter]. rewrite nsum_cons, IH.
  destruct (f x); cbn [negb map]; rewrite nsum_cons; lia.
Qed.

Lemma nsum_perm a b : Permutation a b -> nsum a = nsum b.
Proof.
  intros H. induction H as [|x l l' H IH|x y l|l l' l'' Ha IHa Hb IHb]; try reflexivity.
  - rewrite !nsum_cons, IH. reflexivity.
  - rewrite !nsum_cons. lia.
  - congruence.
Qed.

Lemma nsum_only (vf : Z -> nat) w l :
  NoDup l -> (forall c, In c l -> c <> w -> vf c = 0) ->
  nsum (map vf l) = if in_dec Z.eq_dec w l then vf w else 0.
Proof.
  induction l as [|x t IH]; intros ND H; [reflexivity|].
  inversion ND as [|? ? Hx NDt]; subst. cbn [map]. rewrite nsum_cons, (IH NDt) by (intros c Hc; apply H; right; exact Hc).
  destruct (in_dec Z.eq_dec w (x :: t)) as [Hin | Hnin]; destruct (in_dec Z.eq_dec w t) as [Ht | Hnt].
  - destruct (Z.eq_dec x w) as [-> | NE]; [contradiction|]. rewrite (H x (or_introl eq_refl) NE). lia.
  - destruct Hin as [-> | Hin]; [lia | contradiction].
  - exfalso. apply Hnin. right. exact Ht.
  - destruct (Z.eq_dec x w) as [-> | NE]; [exfalso; apply Hnin; left; reflexivity|].
    rewrite (H x (or_introl eq_refl) NE). lia.
Qed.

Lemma sum_exactly (kids : list Z) (vf : Z -> nat) n_assign w wv rs :
  check_choice kids vf n_assign w wv rs = true -> NoDup kids ->
  count (fun c => negb (c =? w)%Z && Nat.ltb 0 (vf c)) kids <= n_assign - 1 ->
  wv + nsum (map snd rs) = nsum (map vf kids).
Proof.
  intros Hc ND Hall.
  destruct (check_unpack kids vf n_assign w wv rs Hc) as (Hw & Hwv & _ & Hnd & Hrs & _ & Hlen & _).
  set (f := fun c => negb (c =? w)%Z && Nat.ltb 0 (vf c)) in *.
  assert (Hl : length rs = length (filter f kids)) by (rewrite Hlen; unfold count in *; lia).
  assert (E : nsum (map snd rs) = nsum (map vf (map fst rs))).
  { clear -Hrs. induction rs as [|r t IH]; [reflexivity|]. cbn [map]. rewrite !nsum_cons.
    rewrite IH by (intros r' Hr'; apply Hrs; right; exact Hr').
    destruct (Hrs r (or_introl eq_refl)) as (_ & Hv & _). rewrite Hv. reflexivity. }
  inversion Hnd as [|? ? Hwn NDr]; subst.
  assert (HP : Permutation (map fst rs) (filter f kids)).
  { apply NoDup_Permutation_bis; [exact NDr | rewrite map_length; lia|].
    intros c Hcin. apply in_map_iff in Hcin. destruct Hcin as (r & <- & Hr).
    destruct (Hrs r Hr) as (Hk & Hv & Hp). apply filter_In. split; [exact Hk|]. unfold f.
    apply andb_true_intro. split.
    - apply negb_true_iff. apply Z.eqb_neq. intros Eq. apply Hwn. rewrite <- Eq. apply in_map. exact Hr.
    - apply Nat.ltb_lt. lia. }
  rewrite E, (nsum_perm _ _ (Permutation_map vf HP)), (nsum_partition vf f kids).
  rewrite (nsum_only vf w (filter (fun c => negb (f c)) kids)).
  - destruct (in_dec Z.eq_dec w (filter (fun c => negb (f c)) kids)) as [_ | Hn]; [lia|].
    exfalso. apply Hn. apply filter_In. split; [exact Hw|]. unfold f. rewrite Z.eqb_refl. reflexivity.
  - apply NoDup_filter. exact ND.
  - intros c Hcin NE. apply filter_In in Hcin. destruct Hcin as [_ Hf]. unfold f in Hf.
    apply negb_true_iff in Hf. apply andb_false_iff in Hf. destruct Hf as [Hf | Hf].
    + apply negb_false_iff in Hf. apply Z.eqb_eq in Hf. contradiction.
    + apply Nat.ltb_ge in Hf. lia.
Qed.

(* ---------------- the arithmetic contract of choose_node, for every tie order ---------------- *)
Theorem choose_contract (vf : Z -> nat) kids order n_assign iters w wv rs :
  NoDup kids -> Permutation order kids -> vdesc vf order -> 1 <= n_assign ->
  nsum (map vf kids) = iters -> 1 <= iters ->
  choose_with order vf n_assign = Some (w, wv, rs) ->
  (* winner: a child with the most votes; probability wv/iters in (0,1] *)
  In w kids /\ vf w = wv /\ (forall c, In c kids -> vf c <= wv) /\ 1 <= wv <= iters /\
  (* runners-up: at most n_assign-1, distinct siblings other than the winner, votes > 0,
     none larger than the winner's, non-increasing, and they are the top vote getters *)
  length rs <= n_assign - 1 /\ NoDup (map fst rs) /\ ~ In w (map fst rs) /\
  (forall r, In r rs -> In (fst r) kids /\ 0 < snd r <= wv /\ vf (fst r) = snd r) /\
  sorted_desc (map snd rs) = true /\
  (forall c, In c kids -> In c (w :: map fst rs) \/ vf c <= last (map snd rs) wv) /\
  (* shares sum to at most 1, and to exactly 1 when all vote getters could be listed *)
  wv + nsum (map snd rs) <= iters /\
  (count (fun c => negb (c =? w)%Z && Nat.ltb 0 (vf c)) kids <= n_assign - 1 -> wv + nsum (map snd rs) = iters).
Proof.
  intros ND HP HS Hn Ht Hi H.
  pose proof (choose_meets_spec vf kids order n_assign w wv rs ND HP HS Hn H) as Hc.
  destruct (check_unpack kids vf n_assign w wv rs Hc) as (H1 & H2 & H3 & _ & _ & _ & _ & H8).
  destruct (runner_shape kids vf n_assign w wv rs Hc) as (R1 & R2 & R3 & R4 & R5).
  split; [exact H1|]. split; [exact H2|]. split; [exact H3|].
  split; [apply (prob_range kids vf n_assign w wv rs iters Hc Ht Hi)|].
  split; [exact R1|]. split; [exact R2|]. split; [exact R3|]. split; [exact R4|]. split; [exact R5|].
  split; [exact H8|].
  split; [apply (sum_at_most_one kids vf n_assign w wv rs iters Hc Ht)|].
  intros Hall. rewrite <- Ht. apply (sum_exactly kids vf n_assign w wv rs Hc ND Hall).
Qed.
