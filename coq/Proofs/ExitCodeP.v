(* Lemmas about Model/Pool.v exit_code_of on the domain of Model/ExitCode.v. *)
From Coq Require Import ZArith List Bool Lia.
From CTM Require Import Model.Pool Model.ExitCode Proofs.PoolP.
Import ListNotations.

Lemma terminating_signal_pos : forall s, terminating_signal s = true -> (1 <= s <= 64)%Z.
Proof.
  intros s H. unfold terminating_signal in H.
  apply andb_true_iff in H. destruct H as [H _]. apply andb_true_iff in H. destruct H as [H1 H2].
  apply Z.leb_le in H1. apply Z.leb_le in H2. lia.
Qed.

(* abnormal terminations have a non-zero exit code: os._exit(k), k a C int, iff k is not a
   multiple of 256; a worker killed by a terminating signal s has code -s < 0 *)
Lemma exit_code_nonzero_guarded : forall m,
  match m with
  | NoFail => exit_code_of m = 0%Z
  | Raises => exit_code_of m <> 0%Z
  | Exits k => exit_arg_ok k ->
               (0 <= exit_code_of m < 256)%Z /\
               (k mod 256 <> 0 -> exit_code_of m <> 0)%Z /\
               (0 < k < 256 -> exit_code_of m = k /\ exit_code_of m <> 0)%Z
  | Killed s => terminating_signal s = true -> (exit_code_of m = - s /\ exit_code_of m < 0)%Z
  end.
Proof.
  intros m. pose proof (exit_code_nonzero m) as H. destruct m as [| |k|s].
  - exact H.
  - exact H.
  - intros _. exact H.
  - intros Hs. apply terminating_signal_pos in Hs. split; [reflexivity | apply H; lia].
Qed.

(* the excluded arguments are exactly where the model and the real worker differ *)
Lemma exit_overflow_excluded :
  ~ exit_arg_ok (2 ^ 31) /\ exit_code_of (Exits (2 ^ 31)) = 0%Z /\
  exit_arg_ok (2 ^ 31 - 1) /\ exit_code_of (Exits (2 ^ 31 - 1)) = 255%Z /\
  exit_arg_ok (- 2 ^ 31) /\ exit_code_of (Exits (- 2 ^ 31)) = 0%Z /\
  ~ exit_arg_ok (- 2 ^ 31 - 1).
Proof. unfold exit_arg_ok. repeat split; try reflexivity; lia. Qed.

Lemma signal_examples :
  terminating_signal 9 = true /\ terminating_signal 15 = true /\ terminating_signal 10 = true /\
  terminating_signal 11 = true /\ terminating_signal 64 = true /\
  terminating_signal 17 = false /\ terminating_signal 18 = false /\ terminating_signal 19 = false /\
  terminating_signal 23 = false /\ terminating_signal 28 = false /\ terminating_signal 2 = false /\
  terminating_signal 0 = false /\ terminating_signal 65 = false /\
  exit_code_of (Killed 17) = (-17)%Z.
Proof. vm_compute. repeat split; reflexivity. Qed.
