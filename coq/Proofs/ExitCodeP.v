(* Lemmas about Model/Pool.v exit_code_of on the domain of Model/ExitCode.v. *)
From Coq Require Import ZArith List Bool Lia.
From CTM Require Import Model.Pool Model.ExitCode Proofs.PoolP.
Import ListNotations.

Lemma terminating_signal_pos : forall s, terminating_signal s = true -> (1 <= s <= 64)%Z.
Proof.
  intros s H. unfold terminating_signal in H.
  apply andb_true_iff in H. destruct H as [H _]. apply andb_true_iff in H. destruct H as [H1 H2].
  apply Z.leb_le in H1. apply Z.leb_le in H2. lia.
Qed.

(* abnormal terminations have a non-zero exit code: os._exit(k), k a C int, iff k is not a
   multiple of 256; a worker killed by a terminating signal s has code -s < 0 *)
Lemma exit_code_nonzero_guarded : forall m,
  match m with
  | NoFail => exit_code_of m = 0%Z
  | Raises => exit_code_of m <> 0%Z
  | Exits k => exit_arg_ok k ->
               (0 <= exit_code_of m < 256)%Z /\
               (k mod 256 <> 0 -> exit_code_of m <> 0)%Z /\
               (0 < k < 256 -> exit_code_of m = k /\ exit_code_of m <> 0)%Z
  | Killed s => terminating_signal s = true -> (exit_code_of m = - s /\ exit_code_of m < 0)%Z
  end.
Proof.
  intros m. pose proof (exit_code_nonzero m) as H. destruct m as [| |k|s].
  - exact H.
  - exact H.
  - intros _. exact H.
  - intros Hs. apply terminating_signal_pos in Hs. split; [reflexivity | apply H; lia].
Qed.

(* the excluded arguments are exactly where the model and the real worker differ *)
Lemma exit_overflow_excluded :
  ~ exit_arg_ok (2 ^ 31) /\ exit_code_of (Exits (2 ^ 31)) = 0%Z /\
  exit_arg_ok (2 ^ 31 - 1) /\ exit_code_of (Exits (2 ^ 31 - 1)) = 255%Z /\
  exit_arg_ok (- 2 ^ 31) /\ exit_code_of (Exits (- 2 ^ 31)) = 0%Z /\
  ~ exit_arg_ok (- 2 ^ 31 - 1).
Proof. unfold exit_arg_ok. repeat split; try reflexivity; lia. Qed.

Lemma signal_examples :
  terminating_signal 9 = true /\ terminating_signal 15 = true /\ terminating_signal 10 = true /\
  terminating_signal 11 = true /\ terminating_signal 64 = true /\
  terminating_signal 17 = false /\ terminating_signal 18 = false /\ terminating_signal 19 = false /\
  terminating_signal 23 = false /\ terminating_signal 28 = false /\ terminating_signal 2 = false /\
  terminating_signal 0 = false /\ terminating_signal 65 = false /\
  exit_code_of (Killed 17) = (-17)%Z.
Proof. vm_compute. repeat split; reflexivity. Qed.

(* WHAT `Raises` MEANS (audit 4, A6): exit_code_of Raises is the exit code of a worker that raises an
   Exception subclass - and of every raised class except a SystemExit whose code is None or a multiple of 256,
   which no parent can tell from a normal exit *)
Lemma raises_means_exception : forall r,
  (is_exception r = true -> raise_exit_code r = exit_code_of Raises) /\
  (raise_exit_code r = 0%Z <-> r = RSystemExitNone \/ exists k, r = RSystemExitInt k /\ (k mod 256 = 0)%Z).
Proof.
  intros r. split.
  - destruct r; cbn; intros H; try discriminate H; reflexivity.
  - split.
    + destruct r; cbn; intros H; try discriminate H; [left; reflexivity | right; eexists; split; [reflexivity | exact H]].
    + intros [-> | (k & -> & Hk)]; [reflexivity | exact Hk].
Qed.

Lemma system_exit_examples :
  raise_exit_code RException = 1%Z /\ exit_code_of Raises = 1%Z /\
  raise_exit_code RSystemExitNone = 0%Z /\ raise_exit_code (RSystemExitInt 0) = 0%Z /\
  raise_exit_code (RSystemExitInt 3) = 3%Z /\ raise_exit_code (RSystemExitInt 256) = 0%Z /\
  raise_exit_code RSystemExitOther = 1%Z /\ raise_exit_code RBaseException = 1%Z /\
  is_exception RBaseException = false /\ is_exception RSystemExitNone = false /\ is_exception RException = true.
Proof. vm_compute. repeat split; reflexivity. Qed.
