(* C01 at the level of the mapping stage: the query is cut into consecutive chunks, every chunk
   is mapped by its own worker from its own generator state, the per-chunk results are
   gathered in ANY completion order and re-ordered by cell id (Gather.re_order =
   output_utils.re_order_blob).  The result is one record per query cell, in query order, and
   every record is a root-to-leaf path of the taxonomy.  Composes Election (routing) with
   Gather (C04). *)
From Coq Require Import ZArith List Bool Lia Arith Permutation.
From CTM Require Import Base.Sx Base.ListX Base.SortX Model.Tree Model.Election Model.Gather
     Proofs.ElectionP Proofs.GatherP.
Import ListNotations.
Open Scope Z_scope.

Lemma re_order_total {A} (co : list Z) (blob : list (record A)) :
  (forall c, In c co -> In c (map fst blob)) -> exists r, re_order A co blob = Some r.
Proof.
  induction co as [|c rest IH]; intros H; cbn [re_order]; [eauto|].
  destruct IH as (r & Hr); [intros x Hx; apply H; right; exact Hx|]. rewrite Hr.
  unfold lookup_last.
  destruct (zassoc c (rev blob)) as [v|] eqn:E; [eauto|].
  exfalso. apply zassoc_none in E. apply E. rewrite map_rev. apply in_rev. rewrite rev_involutive.
  apply H. left. reflexivity.
Qed.

Lemma map_fst_combine_len {A B} (a : list A) (b : list B) : length a = length b -> map fst (combine a b) = a.
Proof.
  revert b. induction a as [|x t IH]; intros [|y u] H; cbn in *; try discriminate; [reflexivity|].
  f_equal. apply IH. lia.
Qed.

Lemma in_combine_snd {A B} (a : list A) (b : list B) x : In x (combine a b) -> In (snd x) b.
Proof. destruct x as [u v]. apply in_combine_r. Qed.

Section Pipeline.
Variable cell rng : Type.
Variable decide : rng -> option (nat * node) -> list node -> list cell -> list rec * rng.
Hypothesis decide_len : forall g p kids cs, (2 <= length kids)%nat -> length (fst (decide g p kids cs)) = length cs.
Hypothesis decide_kids : forall g p kids cs, (2 <= length kids)%nat ->
  Forall (fun r => In (asg r) kids) (fst (decide g p kids cs)).
Variable mk_rng : Z -> rng.                     (* the worker's generator from the seed it is handed *)
Variable t : tree.
Hypothesis Ht : tree_ok t.

(* what the worker of chunk i returns: (cell id, row) for the cells of that chunk *)
Definition chunk_records (parts : list (list (Z * cell))) (i : nat) (seed : Z) : list (record (list rec)) :=
  let part := nth i parts [] in
  match run_type_assignment cell rng decide t (map snd part) (mk_rng seed) with
  | Ok (rows, _) => combine (map fst part) rows
  | _ => []
  end.

Lemma chunk_records_spec parts i seed :
  map fst (chunk_records parts i seed) = map fst (nth i parts []) /\
  Forall (fun r => path_ok t (snd r) = true) (chunk_records parts i seed).
Proof.
  unfold chunk_records. set (part := nth i parts []).
  destruct (routing_total cell rng decide decide_len decide_kids t (map snd part) (mk_rng seed) Ht) as (rows & g' & E).
  rewrite E.
  pose proof (routing_sound cell rng decide decide_kids t (map snd part) (mk_rng seed) rows g' Ht E) as Hs.
  unfold spec_routing in Hs. apply andb_true_iff in Hs. destruct Hs as [Hl Hp]. apply Nat.eqb_eq in Hl.
  rewrite map_length in Hl. split.
  - apply map_fst_combine_len. rewrite map_length. lia.
  - apply Forall_forall. intros x Hx. rewrite forallb_forall in Hp. apply Hp. apply in_combine_snd in Hx. exact Hx.
Qed.

Lemma concat_map_fst_seq parts seeds :
  map fst (concat (map (fun i => chunk_records parts i (nth i seeds 0)) (seq 0 (length parts)))) =
  map fst (concat parts).
Proof.
  rewrite !concat_map, !map_map.
  f_equal.
  transitivity (map (fun i => map fst (nth i parts [])) (seq 0 (length parts))).
  - apply map_ext. intros i. apply (chunk_records_spec parts i).
  - clear. induction parts as [|p ps IH] using rev_ind; [reflexivity|].
    rewrite app_length, Nat.add_comm. cbn [length plus]. rewrite seq_S, !map_app. cbn [map app]. rewrite Nat.add_0_l.
    rewrite app_nth2 by lia. rewrite Nat.sub_diag. cbn [nth]. f_equal.
    rewrite <- IH. apply map_ext_in. intros i Hi. apply in_seq in Hi. rewrite app_nth1 by lia. reflexivity.
Qed.

Theorem pipeline_one_record_per_cell (parts : list (list (Z * cell))) (seeds : list Z) (sigma : list nat) :
  NoDup (map fst (concat parts)) ->
  Permutation sigma (seq 0 (length parts)) ->
  exists final,
    final_list (list rec) (chunk_records parts) (map fst (concat parts)) seeds sigma = Some final /\
    map fst final = map fst (concat parts) /\
    length final = length (concat parts) /\
    Forall (fun r => path_ok t (snd r) = true) final.
Proof.
  intros ND HP. unfold final_list.
  set (blob := gather_list (list rec) (chunk_records parts) seeds sigma).
  assert (Hperm : Permutation blob (gather_list (list rec) (chunk_records parts) seeds (seq 0 (length parts)))).
  { unfold blob, gather_list. apply concat_map_perm. exact HP. }
  assert (Hids : Permutation (map fst blob) (map fst (concat parts))).
  { rewrite <- (concat_map_fst_seq parts seeds). apply Permutation_map. exact Hperm. }
  destruct (re_order_total (map fst (concat parts)) blob) as (final & Hf).
  { intros c Hc. eapply Permutation_in; [apply Permutation_sym; exact Hids | exact Hc]. }
  exists final. split; [exact Hf|].
  destruct (re_order_spec (list rec) _ _ _ Hf) as [H1 H2].
  split; [exact H1|]. split; [apply (f_equal (@length Z)) in H1; rewrite !map_length in H1; exact H1|].
  apply Forall_forall. intros x Hx. specialize (H2 x Hx).
  unfold blob, gather_list in H2. apply in_concat in H2. destruct H2 as (l & Hl & Hxl).
  apply in_map_iff in Hl. destruct Hl as (i & <- & _).
  destruct (chunk_records_spec parts i (nth i seeds 0)) as [_ HF]. rewrite Forall_forall in HF. apply HF. exact Hxl.
Qed.
End Pipeline.
