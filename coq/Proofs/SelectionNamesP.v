(* C12 stated about gene NAMES of the reference file (composition of the run theorems with the
   thinning), the per-parent entry of the pipeline (short-circuit, empty overlap, override). *)
From Coq Require Import ZArith List Bool Arith Lia Permutation.
From CTM Require Import Base.Sx Base.SortX Model.Tree Model.Selection Proofs.SelectionP Proofs.SelectionPickP
                        Proofs.SelectionDownP.
Import ListNotations.
Local Open Scope nat_scope.

(* every pair number produced by _get_taxonomy_idx is the position of a pair of the parent *)
Lemma parent_idx_keys rm t parent b idx p :
  parent_idx rm t parent b = Some idx -> In p idx ->
  exists e, nth_error (rm_pairs rm) p = Some e /\ In (fst e) (leaf_pairs t parent).
Proof.
  unfold parent_idx. destruct (opt_all _) as [ix|] eqn:O; [|discriminate]. intros H Hp.
  assert (Hp' : In p ix).
  { destruct b; inversion H; subst; [|exact Hp]. eapply Permutation_in; [apply nat_sort_perm | exact Hp]. }
  clear H Hp. revert ix O Hp'. induction (leaf_pairs t parent) as [|pr r IH]; intros ix O Hp; cbn in O.
  - inversion O; subst. destruct Hp.
  - pose proof (tables_idx pr (rm_pairs rm) 0) as T.
    destruct (idx_of_pair pr (rm_pairs rm) 0) as [i|]; [|discriminate].
    destruct (opt_all (map (fun pr0 => idx_of_pair pr0 (rm_pairs rm) 0) r)) as [ix'|]; [|discriminate].
    inversion O; subst. destruct Hp as [<-|Hp].
    + destruct (tables_of_pair pr (rm_pairs rm)); [|contradiction].
      destruct T as (_ & _ & _ & e & T1 & T2). rewrite Nat.sub_0_r in T1. exists e. split; [exact T1|]. left. auto.
    + destruct (IH ix' eq_refl Hp) as (e & E1 & E2). exists e. split; [exact E1 | right; exact E2].
Qed.

Lemma marks_of_true pd g p d : marks_of pd g (p, d) = true ->
  exists e, nth_error pd p = Some e /\ In g (if d then snd e else fst e).
Proof.
  rewrite marks_of_nth. intros H. destruct (nth_error pd p) as [e|] eqn:E.
  - exists e. split; [reflexivity|]. rewrite (nth_error_nth _ _ no_tables E) in H. apply nmem_in. exact H.
  - apply nth_error_None in E. rewrite nth_overflow in H by exact E. destruct d; discriminate.
Qed.

(* Every gene returned for a parent, BY NAME: it is the name of exactly one gene of the reference file,
   that name occurs in the query, and that reference gene is listed in the file as an up- or down-marker
   of a leaf pair the parent must discriminate (keyed by the pair's two leaf names). *)
Theorem selected_names_are_query_markers rm query t parent bh idx n trace st :
  NoDup (rm_genes rm) ->
  let rm' := thin_genes rm query in
  parent_idx rm' t parent bh = Some idx ->
  run (length (rm_genes rm')) idx (marks_of (pair_tables rm')) n
      (start (length (rm_genes rm')) idx (marks_of (pair_tables rm')) n) trace = Some st ->
  forall j, In j (chosen st) ->
    exists name i,
      nth_error (rm_genes rm') j = Some name /\
      In name query /\
      nth_error (rm_genes rm) i = Some name /\ (forall i', nth_error (rm_genes rm) i' = Some name -> i' = i) /\
      exists pr dn up (d : bool), In pr (leaf_pairs t parent) /\ In (pr, (dn, up)) (rm_pairs rm) /\
                         In i (if d then up else dn).
Proof.
  intros ND rm' PI R j Hj.
  destruct (only_useful_genes _ _ _ _ _ _ R j Hj) as (Hlt & p & d & Hp & Hm).
  apply marks_of_true in Hm. destruct Hm as (e' & E' & Hin).
  unfold pair_tables in E'. rewrite nth_error_map in E'.
  destruct (nth_error (rm_pairs rm') p) as [x'|] eqn:X'; [|discriminate]. inversion E'; subst e'.
  destruct (parent_idx_keys rm' t parent bh idx p PI Hp) as (x2 & X2 & K). rewrite X' in X2. inversion X2; subst x2.
  destruct (thinning_sound rm query) as (T1 & T2 & T3 & T4). cbv zeta in *.
  assert (Hpl : p < length (rm_pairs rm)).
  { rewrite <- T3. apply nth_error_Some. fold rm'. rewrite X'. discriminate. }
  destruct (nth_error (rm_pairs rm) p) as [x|] eqn:X; [|apply nth_error_None in X; lia].
  destruct (T4 p x X) as (y & Y & Yk & Yd & Yu). fold rm' in Y. rewrite X' in Y. inversion Y; subst y.
  assert (Hi : exists i, nth_error (keep_idx rm query) j = Some i /\ In i (if d then snd (snd x) else fst (snd x))).
  { destruct d; [apply Yu | apply Yd]; exact Hin. }
  destruct Hi as (i & Ki & Li).
  assert (Hik : In i (keep_idx rm query)) by (eapply nth_error_In; exact Ki).
  apply T2 in Hik. destruct Hik as [Hil Hq].
  exists (nth i (rm_genes rm) 0%Z), i.
  split.
  { fold rm'. unfold rm'. rewrite T1.
    exact (map_nth_error (fun i0 => nth i0 (rm_genes rm) 0%Z) j (keep_idx rm query) Ki). }
  split; [exact Hq|]. split; [apply nth_error_nth'; exact Hil|]. split.
  { intros i' Hi'. rewrite NoDup_nth_error in ND. apply ND.
    - apply nth_error_Some. rewrite Hi'. discriminate.
    - rewrite Hi'. symmetry. apply nth_error_nth'. exact Hil. }
  destruct x as [pr [dn up]]. exists pr, dn, up, d. cbn [fst snd] in *.
  split; [rewrite <- Yk; exact K|]. split; [eapply nth_error_In; exact X | exact Li].
Qed.

(* ------------------------------------------------------------------ the per-parent entry of the pipeline *)
(* the short-circuit: a parent with no pair to discriminate gets [] without _run_selection being
   called (on an empty taxonomy_idx_array the real _run_selection raises ValueError) *)
Theorem parent_short_circuit pick rm query t parent bh n :
  keep_idx rm query <> [] -> leaf_pairs t parent = [] ->
  select_parent pick rm query t parent bh n = PSkip.
Proof.
  intros K L. unfold select_parent. destruct (keep_idx rm query); [contradiction|]. rewrite L. reflexivity.
Qed.

(* ... so _run_selection only ever sees a non-empty taxonomy_idx_array, all of whose entries are in range *)
Theorem parent_run_has_pairs pick rm query t parent bh n ng r :
  select_parent pick rm query t parent bh n = PRun ng r ->
  exists arr idx, idx <> [] /\ Forall (fun i => i < length (rm_pairs arr)) idx /\
    parent_idx arr t parent true = Some idx /\ ng = length (rm_genes arr) /\
    rm_genes arr = rm_genes (thin_genes rm query) /\
    r = select_with ng idx (marks_of (pair_tables arr)) n pick.
Proof.
  unfold select_parent. destruct (keep_idx rm query); [discriminate|].
  destruct (leaf_pairs t parent) as [|lp lr] eqn:L; [discriminate|]. rewrite <- L.
  set (rm' := thin_genes rm query).
  intros H.
  assert (G : forall arr, (if bh then Some rm' else downsample_pairs rm' (leaf_pairs t parent)) = Some arr ->
                          rm_genes arr = rm_genes rm').
  { intros arr E. destruct bh; [inversion E; reflexivity|].
    unfold downsample_pairs in E. destruct (opt_all _); [|discriminate]. inversion E. reflexivity. }
  destruct (if bh then Some rm' else downsample_pairs rm' (leaf_pairs t parent)) as [arr|]; [|discriminate].
  destruct (parent_idx arr t parent true) as [idx|] eqn:P; [|discriminate].
  inversion H; subst. exists arr, idx. split.
  - intros ->. unfold parent_idx in P. rewrite L in P. cbn in P.
    destruct (idx_of_pair lp (rm_pairs arr) 0); [|discriminate].
    destruct (opt_all _); [|discriminate]. inversion P as [P']. unfold nat_sort in P'.
    apply (f_equal (@length nat)) in P'. rewrite map_length, zsort_length, map_length in P'. discriminate.
  - split; [apply (parent_idx_in_range _ _ _ _ _ P)|]. split; [exact P|]. split; [reflexivity|].
    split; [apply G; reflexivity | reflexivity].
Qed.

(* an empty query/reference overlap is refused (RuntimeError), for every parent *)
Theorem empty_overlap_refused pick rm query t parent bh n :
  (forall g, In g (rm_genes rm) -> ~ In g query) ->
  select_parent pick rm query t parent bh n = PErrOverlap.
Proof.
  intros H. unfold select_parent. destruct (keep_idx rm query) as [|i r] eqn:K; [reflexivity|].
  exfalso. assert (Hi : In i (keep_idx rm query)) by (rewrite K; left; reflexivity).
  apply keep_idx_spec in Hi. destruct Hi as [Hl Hq]. apply (H _ (nth_In _ _ Hl) Hq).
Qed.

Theorem overlap_needed pick rm query t parent bh n :
  select_parent pick rm query t parent bh n <> PErrOverlap ->
  exists g, In g (rm_genes rm) /\ In g query.
Proof.
  unfold select_parent. destruct (keep_idx rm query) as [|i r] eqn:K; [intros H; contradiction H; reflexivity|].
  intros _. assert (Hi : In i (keep_idx rm query)) by (rewrite K; left; reflexivity).
  apply keep_idx_spec in Hi. destruct Hi as [Hl Hq]. exists (nth i (rm_genes rm) 0%Z). split; [apply nth_In; exact Hl | exact Hq].
Qed.

(* ------------------------------------------------------------------ n_per_utility_override *)
Lemma parent_eqb_eq a b : parent_eqb a b = true <-> a = b.
Proof.
  destruct a as [[i x]|], b as [[j y]|]; cbn; try (split; [discriminate | intros H; inversion H]); [|tauto].
  rewrite andb_true_iff, Nat.eqb_eq, Z.eqb_eq. split; [intros [-> ->]; reflexivity | intros H; inversion H; auto].
Qed.

(* an entry of the override table is used for its own parent and for no other *)
Theorem override_applies_to_its_parent_only default ov p v :
  n_per_for default ((p, v) :: ov) p = v /\
  forall q, q <> p -> n_per_for default ((p, v) :: ov) q = n_per_for default ov q.
Proof.
  unfold n_per_for. cbn [find fst snd]. split.
  - rewrite (proj2 (parent_eqb_eq p p) eq_refl). reflexivity.
  - intros q Hq. destruct (parent_eqb p q) eqn:E; [|reflexivity]. apply parent_eqb_eq in E. congruence.
Qed.

Theorem override_absent_is_default default ov p :
  (forall v, ~ In (p, v) ov) -> n_per_for default ov p = default.
Proof.
  intros H. unfold n_per_for. destruct (find _ ov) as [e|] eqn:F; [|reflexivity].
  apply find_some in F. destruct F as [Hin E]. apply parent_eqb_eq in E. destruct e as [q v]. cbn in E. subst q.
  exfalso. apply (H v Hin).
Qed.

(* ------------------------------------------------------------------ thinning, with the precondition under which the model is tied *)
Lemma NoDup_map_nth (l : list Z) (keep : list nat) d :
  NoDup l -> NoDup keep -> (forall i, In i keep -> i < length l) -> NoDup (map (fun i => nth i l d) keep).
Proof.
  intros NL NK. induction NK as [|i r Hi _ IH]; intros Hlt; cbn; [constructor|].
  constructor.
  - intros H. apply in_map_iff in H. destruct H as (i' & E & Hi').
    assert (i' = i).
    { apply (proj1 (NoDup_nth l d) NL); [apply Hlt; right; exact Hi' | apply Hlt; left; reflexivity | exact E]. }
    subst i'. contradiction.
  - apply IH. intros x Hx. apply Hlt. right. exact Hx.
Qed.

Theorem thinning_sound_nodup rm query :
  NoDup (rm_genes rm) ->
  let keep := keep_idx rm query in
  NoDup (rm_genes (thin_genes rm query)) /\
  rm_genes (thin_genes rm query) = map (fun i => nth i (rm_genes rm) 0%Z) keep /\
  (forall i, In i keep <-> i < length (rm_genes rm) /\ In (nth i (rm_genes rm) 0%Z) query) /\
  length (rm_pairs (thin_genes rm query)) = length (rm_pairs rm) /\
  forall k e, nth_error (rm_pairs rm) k = Some e ->
    exists e', nth_error (rm_pairs (thin_genes rm query)) k = Some e' /\ fst e' = fst e /\
      (forall j, In j (fst (snd e')) <-> exists i, nth_error keep j = Some i /\ In i (fst (snd e))) /\
      (forall j, In j (snd (snd e')) <-> exists i, nth_error keep j = Some i /\ In i (snd (snd e))).
Proof.
  intros ND. cbv zeta. split; [|apply thinning_sound].
  cbn [thin_genes rm_genes]. apply NoDup_map_nth; [exact ND | apply keep_idx_nodup|].
  intros i Hi. apply keep_idx_spec in Hi. apply Hi.
Qed.
