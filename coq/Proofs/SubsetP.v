(* C06: with bootstrap factor 1 the drawn marker subset, once sorted as tally_votes
   sorts it, is the whole marker list 0..n-1 -- whatever the generator returned. *)
From Coq Require Import ZArith List Bool Lia Arith Permutation Sorted.
From CTM Require Import Base.Sx Base.ListX Base.SortX Model.IntDtype Model.Vote Proofs.IntDtypeP.
Import ListNotations.
Open Scope nat_scope.

Lemma n_bootstrap_one n : n_bootstrap (1, 1)%Z n = Z.of_nat n.
Proof.
  unfold n_bootstrap. cbn [fst snd].
  replace (1 * Z.of_nat n)%Z with (Z.of_nat n * 1)%Z by lia.
  rewrite round_integer by lia.
  destruct (Nat.eqb n 0) eqn:E; [reflexivity|]. apply Nat.eqb_neq in E. lia.
Qed.

Lemma nodup_map_of_nat S : NoDup (map Z.of_nat S) -> NoDup S.
Proof.
  induction S as [|x t IH]; intros H; [constructor|]. cbn in H. inversion H as [|? ? Hn Ht]; subst.
  constructor; [|apply IH; exact Ht]. intros Hin. apply Hn. apply in_map. exact Hin.
Qed.

(* an acceptable draw at factor 1 is a permutation of all marker positions *)
Lemma full_subset_perm n S : subset_ok (1, 1)%Z n S = true -> Permutation S (seq 0 n).
Proof.
  unfold subset_ok. intros H. apply andb_true_iff in H. destruct H as [H Hnd].
  apply andb_true_iff in H. destruct H as [Hlen Hrange].
  apply Z.eqb_eq in Hlen. rewrite n_bootstrap_one in Hlen. apply Nat2Z.inj in Hlen.
  apply znodup_b_spec in Hnd. apply nodup_map_of_nat in Hnd.
  apply NoDup_Permutation_bis; [exact Hnd | rewrite seq_length; lia|].
  intros j Hj. rewrite forallb_forall in Hrange. specialize (Hrange j Hj).
  apply Nat.ltb_lt in Hrange. apply in_seq. lia.
Qed.

(* a strictly increasing list is determined by its set of members *)
Lemma sorted_lt_hd_min x l : Sorted lt (x :: l) -> forall y, In y l -> x < y.
Proof.
  intros H. apply Sorted_StronglySorted in H; [|intros a b c; lia].
  inversion H as [|? ? _ Hall]; subst. intros y Hy. rewrite Forall_forall in Hall. auto.
Qed.

Lemma sorted_lt_unique a b : Sorted lt a -> Sorted lt b -> (forall x, In x a <-> In x b) -> a = b.
Proof.
  revert b. induction a as [|x a IH]; intros b Ha Hb Hab.
  - destruct b as [|y b]; [reflexivity|]. exfalso. apply (proj2 (Hab y)). left; reflexivity.
  - destruct b as [|y b]; [exfalso; apply (proj1 (Hab x)); left; reflexivity|].
    assert (Hxy : x = y).
    { destruct (proj1 (Hab x) (or_introl eq_refl)) as [E | Hin]; [auto|].
      destruct (proj2 (Hab y) (or_introl eq_refl)) as [E | Hin']; [auto|].
      pose proof (sorted_lt_hd_min _ _ Ha y Hin'). pose proof (sorted_lt_hd_min _ _ Hb x Hin). lia. }
    subst y. f_equal. apply IH.
    + inversion Ha; assumption.
    + inversion Hb; assumption.
    + intros z. split; intros Hz.
      * destruct (proj1 (Hab z) (or_intror Hz)) as [E | Hin]; [|exact Hin].
        subst z. pose proof (sorted_lt_hd_min _ _ Ha x Hz). lia.
      * destruct (proj2 (Hab z) (or_intror Hz)) as [E | Hin]; [|exact Hin].
        subst z. pose proof (sorted_lt_hd_min _ _ Hb x Hz). lia.
Qed.

Lemma seq_sorted a n : Sorted lt (seq a n).
Proof.
  revert a. induction n as [|n IH]; intros a; cbn; [constructor|].
  constructor; [apply IH|]. destruct n; cbn; constructor. lia.
Qed.

(* np.sort of the draw: any strictly increasing arrangement of it is 0..n-1 *)
Theorem full_subset n S S' :
  subset_ok (1, 1)%Z n S = true -> Permutation S' S -> Sorted lt S' -> S' = seq 0 n.
Proof.
  intros Hok Hp Hs. apply sorted_lt_unique; [exact Hs | apply seq_sorted|].
  pose proof (full_subset_perm n S Hok) as Hq.
  intros x. split; intros Hx.
  - eapply Permutation_in; [exact Hq|]. eapply Permutation_in; [exact Hp | exact Hx].
  - eapply Permutation_in; [apply Permutation_sym; exact Hp|].
    eapply Permutation_in; [apply Permutation_sym; exact Hq | exact Hx].
Qed.

(* hence every iteration of a cell looks at the same columns, and its nearest leaf
   does not depend on the generator *)
Corollary nearest_full q refs n S1 S2 S1' S2' :
  subset_ok (1, 1)%Z n S1 = true -> subset_ok (1, 1)%Z n S2 = true ->
  Permutation S1' S1 -> Sorted lt S1' -> Permutation S2' S2 -> Sorted lt S2' ->
  nearest q refs S1' = nearest q refs S2'.
Proof.
  intros H1 H2 P1 O1 P2 O2.
  rewrite (full_subset n S1 S1' H1 P1 O1), (full_subset n S2 S2' H2 P2 O2). reflexivity.
Qed.

(* ---------------- any factor in (0,1] ---------------- *)
Lemma subset_ok_spec f n S :
  subset_ok f n S = true <->
  Z.of_nat (length S) = n_bootstrap f n /\ Forall (fun j => j < n) S /\ NoDup S.
Proof.
  unfold subset_ok. rewrite !andb_true_iff, Z.eqb_eq, forallb_forall, znodup_b_spec, Forall_forall.
  split.
  - intros [[H1 H2] H3]. split; [exact H1|]. split.
    + intros j Hj. apply Nat.ltb_lt. apply H2. exact Hj.
    + apply nodup_map_of_nat. exact H3.
  - intros (H1 & H2 & H3). split; [split; [exact H1|]|].
    + intros j Hj. apply Nat.ltb_lt. apply H2. exact Hj.
    + apply FinFun.Injective_map_NoDup; [intros a b; apply Nat2Z.inj | exact H3].
Qed.

(* the number of markers drawn: at least one, never more than there are -- so a
   duplicate-free draw of that size exists *)
Lemma n_bootstrap_range f n : (0 < fst f <= snd f)%Z -> 0 < n -> (1 <= n_bootstrap f n <= Z.of_nat n)%Z.
Proof.
  intros [Ha Hd] Hn. unfold n_bootstrap. destruct (Nat.eqb_spec n 0) as [E | _]; [lia|].
  assert (Hr : (round_half_even (fst f * Z.of_nat n, snd f) <= Z.of_nat n)%Z).
  { rewrite <- (round_integer (Z.of_nat n) (snd f)) at 2 by lia.
    apply round_mono; cbn [fst snd]; try lia. unfold rat_le. cbn [fst snd].
    replace (fst f * Z.of_nat n * snd f)%Z with (fst f * (Z.of_nat n * snd f))%Z by ring.
    replace (Z.of_nat n * snd f * snd f)%Z with (snd f * (Z.of_nat n * snd f))%Z by ring.
    apply Z.mul_le_mono_nonneg_r; [apply Z.mul_nonneg_nonneg; lia | exact Hd]. }
  lia.
Qed.

(* ---------------- factor 1: the whole vote of a cell at a node is decided by the cell alone ---------------- *)
Definition sorted_draw (n : nat) (S : list nat) : Prop :=
  exists S0, subset_ok (1, 1)%Z n S0 = true /\ Permutation S S0 /\ Sorted lt S.

Lemma opt_all_const {A} (w : A) k : opt_all (repeat (Some w) k) = Some (repeat w k).
Proof. induction k as [|k IH]; cbn; [reflexivity|]. rewrite IH. reflexivity. Qed.

Lemma map_const_repeat {A B} (f : A -> B) (l : list A) (y : B) :
  (forall x, In x l -> f x = y) -> map f l = repeat y (length l).
Proof.
  induction l as [|x t IH]; intros H; cbn; [reflexivity|].
  rewrite (H x (or_introl eq_refl)), IH by (intros z Hz; apply H; right; exact Hz). reflexivity.
Qed.

(* every iteration of the bootstrap picks the same leaf: the one nearest on ALL markers *)
Theorem factor_one_tally q refs n subsets :
  Forall (sorted_draw n) subsets ->
  tally q refs subsets =
    match nearest q refs (seq 0 n) with
    | Some w => Some (repeat w (length subsets))
    | None => match subsets with [] => Some [] | _ => None end
    end.
Proof.
  intros HF. unfold tally.
  assert (E : map (nearest q refs) subsets = repeat (nearest q refs (seq 0 n)) (length subsets)).
  { apply map_const_repeat. intros S HS. rewrite Forall_forall in HF.
    destruct (HF S HS) as (S0 & Hok & Hp & Hs). rewrite (full_subset n S0 S Hok Hp Hs). reflexivity. }
  rewrite E. destruct (nearest q refs (seq 0 n)) as [w|].
  - apply opt_all_const.
  - destruct subsets as [|S t]; reflexivity.
Qed.

Lemma votes_repeat (owners : list Z) w k c :
  votes_for owners (repeat w k) c = if (nth w owners (-1)%Z =? c)%Z then k else 0.
Proof.
  unfold votes_for, count. induction k as [|k IH]; cbn [repeat filter].
  - destruct (nth w owners (-1)%Z =? c)%Z; reflexivity.
  - destruct (nth w owners (-1)%Z =? c)%Z eqn:E; cbn [length]; rewrite IH; reflexivity.
Qed.

(* ... so the child owning that leaf gets every vote and no other child gets any:
   at factor 1 the bootstrapping probability is 1 and there is no runner-up, whatever the
   generator, the iteration count, and the other cells of the chunk *)
Theorem factor_one_unanimous q refs (owners : list Z) n subsets w winners :
  Forall (sorted_draw n) subsets ->
  nearest q refs (seq 0 n) = Some w ->
  tally q refs subsets = Some winners ->
  winners = repeat w (length subsets) /\
  votes_for owners winners (nth w owners (-1)%Z) = length subsets /\
  (forall c, c <> nth w owners (-1)%Z -> votes_for owners winners c = 0).
Proof.
  intros HF Hn Ht. rewrite (factor_one_tally q refs n subsets HF), Hn in Ht. injection Ht as <-.
  split; [reflexivity|]. split.
  - rewrite votes_repeat, Z.eqb_refl. reflexivity.
  - intros c Hc. rewrite votes_repeat. destruct (Z.eqb_spec (nth w owners (-1)%Z) c) as [E | _]; [congruence | reflexivity].
Qed.
