(* Proofs about the Holm-Bonferroni model (Model/Holm.v):
   - the corrected values do not depend on how np.argsort orders equal p-values;
   - the restricted variant (approx_correct_ttest) agrees with the full correction on
     every p-value below the threshold and leaves the others at a value >= threshold. *)
From Coq Require Import ZArith List Bool Arith Lia Permutation Sorted.
From CTM Require Import Base.Sx Base.ListX Model.Holm.
Import ListNotations.
Open Scope Z_scope.

Definition le_val (a b : ipair) : Prop := snd a <= snd b.
Definition le_idx (a b : ipair) : Prop := (fst a <= fst b)%nat.
Definition clipf (S : Z) (x : ipair) : ipair := (fst x, clip S (snd x)).
Definition nonneg (l : list ipair) : Prop := Forall (fun x => 0 <= snd x) l.

(* ------------------------------------------------------------------ *)
(* generic facts                                                       *)
Lemma Forall_perm {A} (P : A -> Prop) l l' : Permutation l l' -> Forall P l -> Forall P l'.
Proof.
  intros Hp H. apply Forall_forall. intros x Hx. rewrite Forall_forall in H. apply H.
  eapply Permutation_in; [apply Permutation_sym; exact Hp | exact Hx].
Qed.

Lemma sorted_unique {A} (R : A -> A -> Prop) : forall l1 l2,
  (forall a b, In a l1 -> In b l1 -> R a b -> R b a -> a = b) ->
  Permutation l1 l2 -> StronglySorted R l1 -> StronglySorted R l2 -> l1 = l2.
Proof.
  induction l1 as [|a t IH]; intros l2 Hanti Hp S1 S2.
  - apply Permutation_nil in Hp. subst. reflexivity.
  - destruct l2 as [|b t2].
    + apply Permutation_sym, Permutation_nil in Hp. discriminate Hp.
    + inversion S1 as [|a0 t0 St Fa]; subst a0 t0. inversion S2 as [|b0 t0 St2 Fb]; subst b0 t0.
      assert (Eab : a = b).
      { assert (Hb : In b (a :: t)) by (eapply Permutation_in; [apply Permutation_sym; exact Hp | left; reflexivity]).
        assert (Ha : In a (b :: t2)) by (eapply Permutation_in; [exact Hp | left; reflexivity]).
        destruct Hb as [Hb|Hb]; [exact Hb|].
        destruct Ha as [Ha|Ha]; [symmetry; exact Ha|].
        rewrite Forall_forall in Fa, Fb.
        apply Hanti; [left; reflexivity | right; exact Hb | apply Fa; exact Hb | apply Fb; exact Ha]. }
      subst b. f_equal. apply IH.
      * intros x y Hx Hy. apply Hanti; right; assumption.
      * eapply Permutation_cons_inv. exact Hp.
      * exact St.
      * exact St2.
Qed.

Lemma SS_app {A} (R : A -> A -> Prop) : forall l1 l2,
  StronglySorted R l1 -> StronglySorted R l2 ->
  (forall a b, In a l1 -> In b l2 -> R a b) -> StronglySorted R (l1 ++ l2).
Proof.
  induction l1 as [|a t IH]; intros l2 S1 S2 H; cbn; [exact S2|].
  inversion S1 as [|a0 t0 St Fa]; subst a0 t0. constructor.
  - apply IH; [exact St | exact S2 |]. intros x y Hx Hy. apply H; [right; exact Hx | exact Hy].
  - apply Forall_app. split; [exact Fa|]. apply Forall_forall. intros y Hy. apply H; [left; reflexivity | exact Hy].
Qed.

Lemma SS_map {A B} (R : A -> A -> Prop) (Q : B -> B -> Prop) (f : A -> B) :
  (forall a b, R a b -> Q (f a) (f b)) ->
  forall l, StronglySorted R l -> StronglySorted Q (map f l).
Proof.
  intros HRQ l H. induction H as [|a t St IH Fa]; cbn; constructor; [exact IH|].
  apply Forall_forall. intros y Hy. apply in_map_iff in Hy. destruct Hy as (x & <- & Hx).
  apply HRQ. rewrite Forall_forall in Fa. apply Fa. exact Hx.
Qed.

Lemma filter_partition_perm {A} (f : A -> bool) l :
  Permutation (filter f l ++ filter (fun x => negb (f x)) l) l.
Proof.
  induction l as [|x t IH]; cbn; [constructor|].
  destruct (f x); cbn.
  - constructor. exact IH.
  - apply Permutation_sym. apply Permutation_cons_app. apply Permutation_sym. exact IH.
Qed.

Lemma seq_SS : forall n a, StronglySorted le (seq a n).
Proof.
  induction n as [|n IH]; intros a; cbn; constructor; [apply IH|].
  apply Forall_forall. intros y Hy. apply in_seq in Hy. lia.
Qed.

Lemma nth_error_seq0 n k i : nth_error (seq 0 n) k = Some i -> k = i.
Proof.
  intros H. assert (Hk : (k < n)%nat).
  { rewrite <- (seq_length n 0). apply nth_error_Some. congruence. }
  pose proof (nth_error_nth' (seq 0 n) 0%nat (n := k)) as Hn.
  rewrite seq_length in Hn. rewrite (Hn Hk) in H. rewrite seq_nth in H by exact Hk.
  inversion H. lia.
Qed.

Lemma pair_fst_inj (l : list ipair) a b :
  NoDup (map fst l) -> In a l -> In b l -> fst a = fst b -> a = b.
Proof.
  induction l as [|x t IH]; intros ND Ha Hb E; [destruct Ha|].
  cbn in ND. inversion ND as [|x0 l0 Hx Ht]; subst x0 l0.
  destruct Ha as [Ha|Ha]; destruct Hb as [Hb|Hb].
  - congruence.
  - subst x. exfalso. apply Hx. rewrite E. apply in_map. exact Hb.
  - subst x. exfalso. apply Hx. rewrite <- E. apply in_map. exact Ha.
  - apply IH; assumption.
Qed.

(* ------------------------------------------------------------------ *)
(* enumerate                                                           *)
Lemma index_from_fst : forall p k, map fst (index_from k p) = seq k (length p).
Proof. induction p as [|x t IH]; intros k; cbn; [reflexivity|]. rewrite IH. reflexivity. Qed.

Lemma index_from_snd : forall p k, map snd (index_from k p) = p.
Proof. induction p as [|x t IH]; intros k; cbn; [reflexivity|]. rewrite IH. reflexivity. Qed.

Lemma index_length p : length (index p) = length p.
Proof.
  unfold index. transitivity (length (map fst (index_from 0 p))); [symmetry; apply map_length|].
  rewrite index_from_fst. apply seq_length.
Qed.

Lemma index_from_in : forall p k i v, nth_error p i = Some v -> In ((k + i)%nat, v) (index_from k p).
Proof.
  induction p as [|x t IH]; intros k i v H; [destruct i; discriminate H|].
  destruct i as [|i]; cbn in *.
  - inversion H; subst. left. f_equal. lia.
  - right. replace (k + S i)%nat with (S k + i)%nat by lia. apply IH. exact H.
Qed.

Lemma index_in p i v : nth_error p i = Some v -> In (i, v) (index p).
Proof. intros H. apply (index_from_in p 0%nat i v H). Qed.

Lemma index_nodup p : NoDup (map fst (index p)).
Proof. unfold index. rewrite index_from_fst. apply seq_NoDup. Qed.

Lemma index_nonneg p : Forall (fun x => 0 <= x) p -> nonneg (index p).
Proof.
  intros H. unfold nonneg. apply Forall_forall. intros x Hx.
  assert (Hs : In (snd x) (map snd (index p))) by (apply in_map; exact Hx).
  unfold index in Hs. rewrite index_from_snd in Hs. rewrite Forall_forall in H. apply H. exact Hs.
Qed.

(* ------------------------------------------------------------------ *)
(* the two insertion sorts                                             *)
Lemma insp_perm x l : Permutation (insp x l) (x :: l).
Proof.
  induction l as [|y t IH]; cbn; [reflexivity|].
  destruct (snd x <=? snd y); [reflexivity|].
  rewrite IH. apply perm_swap.
Qed.

Lemma sortp_perm l : Permutation (sortp l) l.
Proof.
  induction l as [|x t IH]; cbn; [reflexivity|].
  rewrite insp_perm. constructor. exact IH.
Qed.

Lemma insp_sorted x l : StronglySorted le_val l -> StronglySorted le_val (insp x l).
Proof.
  intros H. induction H as [|y t St IH Fy]; cbn.
  - constructor; constructor.
  - destruct (snd x <=? snd y) eqn:E.
    + apply Z.leb_le in E. constructor; [constructor; assumption|].
      constructor; [exact E|]. apply Forall_forall. intros z Hz. rewrite Forall_forall in Fy.
      specialize (Fy z Hz). unfold le_val in *. lia.
    + apply Z.leb_gt in E. constructor; [exact IH|].
      apply (Forall_perm _ (x :: t)); [apply Permutation_sym, insp_perm|].
      constructor; [unfold le_val; lia | exact Fy].
Qed.

Lemma sortp_sorted l : StronglySorted le_val (sortp l).
Proof. induction l as [|x t IH]; cbn; [constructor | apply insp_sorted; exact IH]. Qed.

Lemma sortp_length l : length (sortp l) = length l.
Proof. apply Permutation_length. apply sortp_perm. Qed.

Lemma insi_perm x l : Permutation (insi x l) (x :: l).
Proof.
  induction l as [|y t IH]; cbn; [reflexivity|].
  destruct (fst x <=? fst y)%nat; [reflexivity|].
  rewrite IH. apply perm_swap.
Qed.

Lemma sorti_perm l : Permutation (sorti l) l.
Proof.
  induction l as [|x t IH]; cbn; [reflexivity|].
  rewrite insi_perm. constructor. exact IH.
Qed.

Lemma insi_sorted x l : StronglySorted le_idx l -> StronglySorted le_idx (insi x l).
Proof.
  intros H. induction H as [|y t St IH Fy]; cbn.
  - constructor; constructor.
  - destruct (fst x <=? fst y)%nat eqn:E.
    + apply Nat.leb_le in E. constructor; [constructor; assumption|].
      constructor; [exact E|]. apply Forall_forall. intros z Hz. rewrite Forall_forall in Fy.
      specialize (Fy z Hz). unfold le_idx in *. lia.
    + apply Nat.leb_gt in E. constructor; [exact IH|].
      apply (Forall_perm _ (x :: t)); [apply Permutation_sym, insi_perm|].
      constructor; [unfold le_idx; lia | exact Fy].
Qed.

Lemma sorti_sorted l : StronglySorted le_idx (sorti l).
Proof. induction l as [|x t IH]; cbn; [constructor | apply insi_sorted; exact IH]. Qed.

(* writing through distinct positions: the order of the writes is irrelevant *)
Lemma by_index_perm a b : Permutation a b -> NoDup (map fst a) -> by_index a = by_index b.
Proof.
  intros Hp ND. unfold by_index. f_equal.
  apply (sorted_unique le_idx).
  - intros x y Hx Hy H1 H2. unfold le_idx in *.
    assert (NDs : NoDup (map fst (sorti a))).
    { eapply Permutation_NoDup; [|exact ND]. apply Permutation_map. apply Permutation_sym, sorti_perm. }
    apply (pair_fst_inj (sorti a)); [exact NDs | exact Hx | exact Hy | lia].
  - eapply Permutation_trans; [apply sorti_perm|].
    eapply Permutation_trans; [exact Hp | apply Permutation_sym, sorti_perm].
  - apply sorti_sorted.
  - apply sorti_sorted.
Qed.

(* position i of the scattered array holds the value written at position i *)
Lemma by_index_spec l n i v :
  Permutation (map fst l) (seq 0 n) -> In (i, v) l -> nth_error (by_index l) i = Some v.
Proof.
  intros Hp Hin.
  assert (Es : map fst (sorti l) = seq 0 n).
  { apply (sorted_unique le).
    - intros a b _ _ H1 H2. lia.
    - eapply Permutation_trans; [|exact Hp]. apply Permutation_map. apply sorti_perm.
    - apply (SS_map le_idx le fst); [intros a b H; exact H | apply sorti_sorted].
    - apply seq_SS. }
  assert (Hin' : In (i, v) (sorti l)) by (eapply Permutation_in; [apply Permutation_sym, sorti_perm | exact Hin]).
  apply In_nth_error in Hin'. destruct Hin' as (k & Hk).
  assert (Hk1 : nth_error (map fst (sorti l)) k = Some i) by (rewrite nth_error_map, Hk; reflexivity).
  rewrite Es in Hk1. apply nth_error_seq0 in Hk1. subst k.
  unfold by_index. rewrite nth_error_map, Hk. reflexivity.
Qed.

Lemma by_index_length l : length (by_index l) = length l.
Proof. unfold by_index. rewrite map_length. apply Permutation_length. apply sorti_perm. Qed.

(* ------------------------------------------------------------------ *)
(* the running maximum                                                 *)
Lemma runmax_from_fst : forall l acc m, map fst (runmax_from acc m l) = map fst l.
Proof. induction l as [|[i p] t IH]; intros acc m; cbn; [reflexivity|]. rewrite IH. reflexivity. Qed.

Lemma runmax_as_from m i p t : runmax m ((i, p) :: t) = runmax_from (p * m) m ((i, p) :: t).
Proof. cbn. rewrite Z.max_id. reflexivity. Qed.

Lemma runmax_fst m l : map fst (runmax m l) = map fst l.
Proof. destruct l as [|[i p] t]; [reflexivity|]. rewrite runmax_as_from. apply runmax_from_fst. Qed.

Lemma runmax_length m l : length (runmax m l) = length l.
Proof.
  transitivity (length (map fst (runmax m l))); [symmetry; apply map_length|].
  rewrite runmax_fst. apply map_length.
Qed.

(* the running maximum attached to a VALUE: the maximum reached at the first element
   carrying that value *)
Fixpoint rmv (acc m : Z) (vs : list Z) (v : Z) : Z :=
  match vs with
  | [] => acc
  | p :: t => let r := Z.max acc (p * m) in if p =? v then r else rmv r (m - 1) t v
  end.

Lemma SS_head_le y t x : StronglySorted le_val (y :: t) -> In x t -> snd y <= snd x.
Proof. intros H Hx. inversion H as [|y0 t0 _ F]; subst. rewrite Forall_forall in F. apply F. exact Hx. Qed.

(* in a sorted list of non-negative values every member of a block of equal values
   receives the running maximum reached at the first of them, because inside the block
   the multiplier only decreases *)
Lemma runmax_from_rmv : forall l acc m,
  StronglySorted le_val l -> nonneg l ->
  runmax_from acc m l = map (fun x => (fst x, rmv acc m (map snd l) (snd x))) l.
Proof.
  induction l as [|[i p] t IH]; intros acc m SS NN; [reflexivity|].
  inversion SS as [|y0 t0 St Fy]; subst y0 t0.
  inversion NN as [|y0 t0 Hp Nt]; subst y0 t0. cbn [snd] in Hp.
  cbn [runmax_from map fst snd rmv]. rewrite Z.eqb_refl. f_equal.
  rewrite (IH _ _ St Nt). apply map_ext_in. intros x Hx.
  destruct (p =? snd x) eqn:E; [|reflexivity].
  apply Z.eqb_eq in E. f_equal.
  destruct t as [|[j q] t']; [destruct Hx|].
  assert (Hq1 : p <= q).
  { rewrite Forall_forall in Fy. apply (Fy (j, q)). left. reflexivity. }
  assert (Hq2 : q <= snd x).
  { destruct Hx as [Hx|Hx]; [subst x; cbn; lia|]. apply (SS_head_le (j, q) t' x St Hx). }
  assert (Eq : q = p) by lia. subst q.
  cbn [map snd rmv]. rewrite E, Z.eqb_refl.
  apply Z.max_l. assert (p * (m - 1) <= p * m) by nia. lia.
Qed.

Definition Fof (m : Z) (vs : list Z) (v : Z) : Z :=
  match vs with [] => 0 | p :: _ => rmv (p * m) m vs v end.

Lemma runmax_F m l : StronglySorted le_val l -> nonneg l ->
  runmax m l = map (fun x => (fst x, Fof m (map snd l) (snd x))) l.
Proof.
  intros SS NN. destruct l as [|[i p] t]; [reflexivity|].
  rewrite runmax_as_from. rewrite (runmax_from_rmv _ _ _ SS NN). reflexivity.
Qed.

Lemma sorted_vals_eq l1 l2 :
  Permutation l1 l2 -> StronglySorted le_val l1 -> StronglySorted le_val l2 -> map snd l1 = map snd l2.
Proof.
  intros Hp S1 S2. apply (sorted_unique Z.le).
  - intros a b _ _ H1 H2. lia.
  - apply Permutation_map. exact Hp.
  - apply (SS_map le_val Z.le snd); [intros a b H; exact H | exact S1].
  - apply (SS_map le_val Z.le snd); [intros a b H; exact H | exact S2].
Qed.

(* two sorted orders of the same p-values give the same (position, value) pairs *)
Lemma runmax_perm m l1 l2 :
  Permutation l1 l2 -> StronglySorted le_val l1 -> StronglySorted le_val l2 -> nonneg l1 ->
  Permutation (runmax m l1) (runmax m l2).
Proof.
  intros Hp S1 S2 N1.
  assert (N2 : nonneg l2) by (apply (Forall_perm _ l1); assumption).
  rewrite (runmax_F m l1 S1 N1), (runmax_F m l2 S2 N2).
  rewrite (sorted_vals_eq l1 l2 Hp S1 S2). apply Permutation_map. exact Hp.
Qed.

Lemma clipf_fst S l : map fst (map (clipf S) l) = map fst l.
Proof. rewrite map_map. reflexivity. Qed.

(* tie invariance, for an arbitrary indexed array *)
Lemma holm_pairs_tie_invariant S padding ip l' :
  nonneg ip -> NoDup (map fst ip) ->
  Permutation l' ip -> StronglySorted le_val l' ->
  by_index (map (clipf S) (runmax (Z.of_nat (length ip + padding)) l')) = by_index (holm_pairs S padding ip).
Proof.
  intros NN ND Hp SS. unfold holm_pairs.
  change (fun x : nat * Z => (fst x, clip S (snd x))) with (clipf S).
  apply by_index_perm.
  - apply Permutation_map. apply runmax_perm.
    + eapply Permutation_trans; [exact Hp | apply Permutation_sym, sortp_perm].
    + exact SS.
    + apply sortp_sorted.
    + apply (Forall_perm _ ip); [apply Permutation_sym; exact Hp | exact NN].
  - rewrite clipf_fst, runmax_fst. eapply Permutation_NoDup; [|exact ND].
    apply Permutation_map. apply Permutation_sym. exact Hp.
Qed.

(* c11_holm_tie_invariant: whatever order np.argsort chooses among equal p-values —
   any sorted arrangement l' of enumerate(p) — the corrected array is the same *)
Lemma holm_tie_invariant : forall S padding p l',
  Forall (fun x => 0 <= x) p ->
  Permutation l' (index p) -> StronglySorted (fun a b : ipair => snd a <= snd b) l' ->
  by_index (map (fun x : ipair => (fst x, clip S (snd x)))
                (runmax (Z.of_nat (length p + padding)) l'))
  = correct_ttest S padding p.
Proof.
  intros S padding p l' Hnn Hp SS. unfold correct_ttest.
  rewrite <- (index_length p).
  apply (holm_pairs_tie_invariant S padding (index p) l').
  - apply index_nonneg. exact Hnn.
  - apply index_nodup.
  - exact Hp.
  - exact SS.
Qed.

(* ------------------------------------------------------------------ *)
(* the restricted correction                                           *)
Lemma runmax_from_app : forall A B acc m, exists acc',
  runmax_from acc m (A ++ B) = runmax_from acc m A ++ runmax_from acc' (m - Z.of_nat (length A)) B.
Proof.
  induction A as [|[i p] t IH]; intros B acc m.
  - exists acc. cbn. rewrite Z.sub_0_r. reflexivity.
  - destruct (IH B (Z.max acc (p * m)) (m - 1)) as (acc' & E). exists acc'.
    cbn [app runmax_from]. rewrite E. cbn [app length].
    replace (m - 1 - Z.of_nat (length t)) with (m - Z.of_nat (S (length t))) by lia. reflexivity.
Qed.

Lemma runmax_app A B m : exists acc,
  runmax m (A ++ B) = runmax m A ++ runmax_from acc (m - Z.of_nat (length A)) B.
Proof.
  destruct A as [|[i p] t].
  - cbn [app length runmax]. rewrite Z.sub_0_r. destruct B as [|[j q] t'].
    + exists 0. reflexivity.
    + exists (q * m). apply runmax_as_from.
  - change (((i, p) :: t) ++ B) with ((i, p) :: (t ++ B)). rewrite !runmax_as_from.
    apply (runmax_from_app ((i, p) :: t) B (p * m) m).
Qed.

(* every running maximum is at least the p-value it was computed for, as long as the
   multipliers stay >= 1 *)
Lemma runmax_from_ge : forall l acc m, nonneg l -> Z.of_nat (length l) <= m ->
  Forall2 (fun x y : ipair => fst y = fst x /\ snd x <= snd y) l (runmax_from acc m l).
Proof.
  induction l as [|[i p] t IH]; intros acc m NN Hm; cbn; [constructor|].
  inversion NN as [|y0 t0 Hp Nt]; subst y0 t0. cbn [snd] in Hp.
  cbn [length] in Hm. constructor.
  - cbn. split; [reflexivity|]. assert (p <= p * m) by nia. lia.
  - apply IH; [exact Nt | lia].
Qed.

Lemma Forall2_in_l {A B} (R : A -> B -> Prop) l1 l2 x :
  Forall2 R l1 l2 -> In x l1 -> exists y, In y l2 /\ R x y.
Proof.
  intros H. induction H as [|a b l1 l2 Hab H IH]; intros Hx; [destruct Hx|].
  destruct Hx as [<-|Hx]; [exists b; split; [left; reflexivity | exact Hab]|].
  destruct (IH Hx) as (y & Hy & Ry). exists y. split; [right; exact Hy | exact Ry].
Qed.

Lemma clip_ge S T v : T <= S -> T <= v -> T <= clip S v.
Proof. intros H1 H2. unfold clip. destruct (v <? S) eqn:E; [exact H2 | exact H1]. Qed.

Lemma in_fst_exists (l : list ipair) i : In i (map fst l) -> exists v, In (i, v) l.
Proof.
  intros H. apply in_map_iff in H. destruct H as ([j v] & E & Hin). cbn in E. subst j.
  exists v. exact Hin.
Qed.

Section Restricted.
  Variables (S T : Z) (p : list Z).
  Hypothesis Hrange : Forall (fun x => 0 <= x <= S) p.
  Hypothesis HT : T <= S.

  Let n := length p.
  Let ip := index p.
  Let sel := filter (below T) ip.
  Let rest := filter (fun x => negb (below T x)) ip.
  Let k := length sel.
  Let H := holm_pairs S (n - k) sel.

  Lemma R_k_le : (k <= n)%nat.
  Proof. unfold k, sel, n. rewrite <- (index_length p). apply filter_length_le. Qed.

  Lemma R_nonneg_ip : nonneg ip.
  Proof.
    apply index_nonneg. eapply Forall_impl; [|exact Hrange]. intros a Ha. cbv beta in Ha. lia.
  Qed.

  Lemma R_perm : Permutation (sortp sel ++ sortp rest) ip.
  Proof.
    eapply Permutation_trans; [|apply (filter_partition_perm (below T) ip)].
    apply Permutation_app; apply sortp_perm.
  Qed.

  Lemma R_sorted : StronglySorted le_val (sortp sel ++ sortp rest).
  Proof.
    apply SS_app; [apply sortp_sorted | apply sortp_sorted |].
    intros a b Ha Hb.
    assert (Ha' : In a sel) by (eapply Permutation_in; [apply sortp_perm | exact Ha]).
    assert (Hb' : In b rest) by (eapply Permutation_in; [apply sortp_perm | exact Hb]).
    unfold sel in Ha'. unfold rest in Hb'. apply filter_In in Ha', Hb'.
    destruct Ha' as [_ Ea]. destruct Hb' as [_ Eb]. unfold below in *.
    apply Z.ltb_lt in Ea. apply negb_true_iff in Eb. apply Z.ltb_ge in Eb. unfold le_val. lia.
  Qed.

  (* the full correction, computed along the arrangement (selected, then the others) *)
  Lemma R_full : exists acc,
    correct_ttest S 0 p =
    by_index (H ++ map (clipf S) (runmax_from acc (Z.of_nat (n - k)) (sortp rest))).
  Proof.
    destruct (runmax_app (sortp sel) (sortp rest) (Z.of_nat (n + 0))) as (acc & E).
    exists acc.
    rewrite <- (holm_tie_invariant S 0%nat p (sortp sel ++ sortp rest)).
    - fold n. change (fun x : ipair => (fst x, clip S (snd x))) with (clipf S).
      rewrite E, map_app. rewrite sortp_length. fold k.
      replace (Z.of_nat (n + 0) - Z.of_nat k) with (Z.of_nat (n - k)) by (pose proof R_k_le; lia).
      unfold H, holm_pairs. fold k.
      change (fun x : nat * Z => (fst x, clip S (snd x))) with (clipf S).
      replace (k + (n - k))%nat with (n + 0)%nat by (pose proof R_k_le; lia).
      reflexivity.
    - eapply Forall_impl; [|exact Hrange]. intros a Ha. cbv beta in Ha. lia.
    - exact R_perm.
    - exact R_sorted.
  Qed.

  Lemma R_approx : approx_correct_ttest S T p = by_index (H ++ rest).
  Proof. reflexivity. Qed.

  Lemma R_H_fst : Permutation (map fst H) (map fst sel).
  Proof.
    unfold H, holm_pairs. rewrite map_map. cbn [fst].
    change (map (fun x : ipair => fst x) ?l) with (map fst l).
    rewrite runmax_fst. apply Permutation_map. apply sortp_perm.
  Qed.

  Lemma R_keys_split : Permutation (map fst sel ++ map fst rest) (seq 0 n).
  Proof.
    rewrite <- map_app. unfold n. rewrite <- (index_from_fst p 0%nat).
    apply Permutation_map. apply (filter_partition_perm (below T) ip).
  Qed.

  Lemma R_keys_approx : Permutation (map fst (H ++ rest)) (seq 0 n).
  Proof.
    rewrite map_app. eapply Permutation_trans; [|exact R_keys_split].
    apply Permutation_app; [exact R_H_fst | reflexivity].
  Qed.

  Lemma R_keys_full acc :
    Permutation (map fst (H ++ map (clipf S) (runmax_from acc (Z.of_nat (n - k)) (sortp rest)))) (seq 0 n).
  Proof.
    rewrite map_app. eapply Permutation_trans; [|exact R_keys_split].
    apply Permutation_app; [exact R_H_fst|].
    rewrite clipf_fst, runmax_from_fst. apply Permutation_map. apply sortp_perm.
  Qed.

  Lemma R_rest_length : length (sortp rest) = (n - k)%nat.
  Proof.
    rewrite sortp_length.
    pose proof (Permutation_length (filter_partition_perm (below T) ip)) as L.
    rewrite app_length in L. fold sel rest k in L. unfold ip in L. rewrite index_length in L. fold n in L. lia.
  Qed.

  (* c11_restricted_holm_equiv *)
  Lemma restricted_holm_at : forall i v, nth_error p i = Some v ->
    (v < T -> nth_error (approx_correct_ttest S T p) i = nth_error (correct_ttest S 0 p) i) /\
    (T <= v -> nth_error (approx_correct_ttest S T p) i = Some v /\
               exists w, nth_error (correct_ttest S 0 p) i = Some w /\ T <= w) /\
    (exists a h, nth_error (approx_correct_ttest S T p) i = Some a /\
                 nth_error (correct_ttest S 0 p) i = Some h /\ (a < T <-> h < T)).
  Proof.
    intros i v Hv.
    destruct R_full as (acc & Efull). rewrite Efull, R_approx.
    set (R' := map (clipf S) (runmax_from acc (Z.of_nat (n - k)) (sortp rest))).
    assert (Hin : In (i, v) ip) by (apply index_in; exact Hv).
    assert (Hlt : v < T ->
                  exists w, nth_error (by_index (H ++ rest)) i = Some w /\ nth_error (by_index (H ++ R')) i = Some w).
    { intros Hlt.
      assert (Hs : In (i, v) sel).
      { unfold sel. apply filter_In. split; [exact Hin|]. unfold below. cbn. apply Z.ltb_lt. exact Hlt. }
      assert (Hk : In i (map fst H)).
      { eapply Permutation_in; [apply Permutation_sym, R_H_fst|]. apply (in_map fst) in Hs. exact Hs. }
      destruct (in_fst_exists H i Hk) as (w & Hw). exists w. split.
      - apply (by_index_spec _ n); [exact R_keys_approx | apply in_or_app; left; exact Hw].
      - apply (by_index_spec _ n); [apply R_keys_full | apply in_or_app; left; exact Hw]. }
    assert (Hge : T <= v ->
                  nth_error (by_index (H ++ rest)) i = Some v /\
                  exists w, nth_error (by_index (H ++ R')) i = Some w /\ T <= w).
    { intros Hge.
      assert (Hr : In (i, v) rest).
      { unfold rest. apply filter_In. split; [exact Hin|]. unfold below. cbn.
        apply negb_true_iff. apply Z.ltb_ge. exact Hge. }
      split.
      - apply (by_index_spec _ n); [exact R_keys_approx | apply in_or_app; right; exact Hr].
      - assert (Hr' : In (i, v) (sortp rest))
          by (eapply Permutation_in; [apply Permutation_sym, sortp_perm | exact Hr]).
        assert (NNr : nonneg (sortp rest)).
        { apply (Forall_perm _ rest); [apply Permutation_sym, sortp_perm|].
          unfold rest. apply Forall_forall. intros x Hx. apply filter_In in Hx. destruct Hx as [Hx _].
          pose proof R_nonneg_ip as NN. unfold nonneg in NN. rewrite Forall_forall in NN. apply NN. exact Hx. }
        pose proof (runmax_from_ge (sortp rest) acc (Z.of_nat (n - k)) NNr) as F2.
        rewrite R_rest_length in F2. specialize (F2 (Z.le_refl _)).
        destruct (Forall2_in_l _ _ _ (i, v) F2 Hr') as ([j w] & Hy & Hj & Hw). cbn in Hj, Hw. subst j.
        exists (clip S w). split.
        + apply (by_index_spec _ n); [apply R_keys_full|]. apply in_or_app. right.
          unfold R'. apply in_map_iff. exists (i, w). split; [reflexivity | exact Hy].
        + apply clip_ge; [exact HT | lia]. }
    split; [|split].
    - intros Hlt'. destruct (Hlt Hlt') as (w & E1 & E2). rewrite E1, E2. reflexivity.
    - exact Hge.
    - destruct (Z.lt_ge_cases v T) as [Hc|Hc].
      + destruct (Hlt Hc) as (w & E1 & E2). exists w, w. split; [exact E1|]. split; [exact E2 | tauto].
      + destruct (Hge Hc) as (E1 & w & E2 & Hw). exists v, w. split; [exact E1|]. split; [exact E2|]. lia.
  Qed.
End Restricted.

Lemma correct_length S padding p : length (correct_ttest S padding p) = length p.
Proof.
  unfold correct_ttest. rewrite by_index_length. unfold holm_pairs.
  rewrite map_length, runmax_length, sortp_length. apply index_length.
Qed.

Lemma approx_length S T p : length (approx_correct_ttest S T p) = length p.
Proof.
  unfold approx_correct_ttest. cbv zeta. rewrite by_index_length, app_length.
  unfold holm_pairs. rewrite map_length, runmax_length, sortp_length.
  pose proof (Permutation_length (filter_partition_perm (below T) (index p))) as L.
  rewrite app_length, index_length in L. exact L.
Qed.

Lemma restricted_holm_equiv : forall S T p,
  Forall (fun x => 0 <= x <= S) p -> T <= S ->
  length (approx_correct_ttest S T p) = length p /\ length (correct_ttest S 0 p) = length p /\
  forall i v, nth_error p i = Some v ->
    (v < T -> nth_error (approx_correct_ttest S T p) i = nth_error (correct_ttest S 0 p) i) /\
    (T <= v -> nth_error (approx_correct_ttest S T p) i = Some v /\
               exists w, nth_error (correct_ttest S 0 p) i = Some w /\ T <= w) /\
    (exists a h, nth_error (approx_correct_ttest S T p) i = Some a /\
                 nth_error (correct_ttest S 0 p) i = Some h /\ (a < T <-> h < T)).
Proof.
  intros S T p Hr HT. split; [apply approx_length|]. split; [apply correct_length|].
  apply restricted_holm_at; assumption.
Qed.

Lemma nth_error_ext {A} : forall (a b : list A),
  (forall i, nth_error a i = nth_error b i) -> a = b.
Proof.
  induction a as [|x a IH]; intros [|y b] H.
  - reflexivity.
  - specialize (H 0%nat). discriminate.
  - specialize (H 0%nat). discriminate.
  - pose proof (H 0%nat) as H0. cbn in H0. inversion H0; subst. f_equal.
    apply IH. intros i. apply (H (S i)).
Qed.

(* the decision vector (corrected p < p_th) of the two routines is the same *)
Lemma restricted_holm_decisions : forall S T p,
  Forall (fun x => 0 <= x <= S) p -> T <= S ->
  map (fun v => v <? T) (approx_correct_ttest S T p) = map (fun v => v <? T) (correct_ttest S 0 p).
Proof.
  intros S T p Hr HT. apply nth_error_ext. intros i. rewrite !nth_error_map.
  destruct (nth_error p i) as [v|] eqn:E.
  - destruct (restricted_holm_at S T p Hr HT i v E) as (_ & _ & a & h & Ea & Eh & Hiff).
    rewrite Ea, Eh. cbn. f_equal.
    destruct (a <? T) eqn:E1; destruct (h <? T) eqn:E2; try reflexivity.
    + apply Z.ltb_lt in E1. apply Z.ltb_ge in E2. apply Hiff in E1. lia.
    + apply Z.ltb_ge in E1. apply Z.ltb_lt in E2. apply Hiff in E2. lia.
  - apply nth_error_None in E.
    assert (E1 : nth_error (approx_correct_ttest S T p) i = None)
      by (apply nth_error_None; rewrite approx_length; exact E).
    assert (E2 : nth_error (correct_ttest S 0 p) i = None)
      by (apply nth_error_None; rewrite correct_length; exact E).
    rewrite E1, E2. reflexivity.
Qed.

(* ------------------------------------------------------------------ *)
(* skipping uninteresting t-values                                     *)
Definition Hof (S T : Z) (p : list Z) : list ipair :=
  holm_pairs S (length p - length (filter (below T) (index p))) (filter (below T) (index p)).

Lemma approx_in_H S T p i w :
  In (i, w) (Hof S T p) -> nth_error (approx_correct_ttest S T p) i = Some w.
Proof.
  intros Hin. rewrite R_approx. apply (by_index_spec _ (length p)).
  - apply R_keys_approx.
  - apply in_or_app. left. exact Hin.
Qed.

Lemma approx_H_exists S T p i v :
  nth_error p i = Some v -> v < T -> exists w, In (i, w) (Hof S T p).
Proof.
  intros Hv Hlt. apply in_fst_exists.
  eapply Permutation_in; [apply Permutation_sym, R_H_fst|].
  apply (in_map fst (filter (below T) (index p)) (i, v)).
  apply filter_In. split; [apply index_in; exact Hv|]. unfold below. cbn. apply Z.ltb_lt. exact Hlt.
Qed.

Lemma approx_above S T p i v :
  nth_error p i = Some v -> T <= v -> nth_error (approx_correct_ttest S T p) i = Some v.
Proof.
  intros Hv Hge. rewrite R_approx. apply (by_index_spec _ (length p)).
  - apply R_keys_approx.
  - apply in_or_app. right. apply filter_In. split; [apply index_in; exact Hv|].
    unfold below. cbn. apply negb_true_iff. apply Z.ltb_ge. exact Hge.
Qed.

Definition same_or_above (T v v' : Z) : Prop := v = v' \/ (T <= v /\ T <= v').

Lemma sel_same T : forall p p' k, Forall2 (same_or_above T) p p' ->
  filter (below T) (index_from k p) = filter (below T) (index_from k p').
Proof.
  intros p p' k H. revert k. induction H as [|v v' p p' Hv H IH]; intros k; [reflexivity|].
  cbn [index_from filter]. rewrite (IH (S k)).
  assert (Eb : forall x, below T (k, x) = (x <? T)) by reflexivity. rewrite !Eb.
  destruct Hv as [->|[H1 H2]]; [reflexivity|].
  apply Z.ltb_ge in H1, H2. rewrite H1, H2. reflexivity.
Qed.

(* replacing p-values that are >= p_th by other values >= p_th (e.g. by 1, as the code does for
   the genes with |t| <= boring_t) changes no decision of the restricted correction *)
Lemma boring_sound : forall S T p p',
  Forall2 (same_or_above T) p p' ->
  map (fun v => v <? T) (approx_correct_ttest S T p) = map (fun v => v <? T) (approx_correct_ttest S T p').
Proof.
  intros S T p p' HF. pose proof (Forall2_length _ _ _ HF) as Hlen.
  assert (EH : Hof S T p = Hof S T p').
  { unfold Hof, index. rewrite (sel_same T p p' 0%nat HF), Hlen. reflexivity. }
  apply nth_error_ext. intros i. rewrite !nth_error_map.
  destruct (nth_error p i) as [v|] eqn:E.
  - destruct (nth_error p' i) as [v'|] eqn:E'.
    2:{ apply nth_error_None in E'. assert (i < length p)%nat by (apply nth_error_Some; congruence). lia. }
    pose proof (Forall2_nth_error _ _ _ i v v' HF E E') as Hr.
    destruct (Z.lt_ge_cases v T) as [Hc|Hc].
    + destruct Hr as [<-|[Hr _]]; [|lia].
      destruct (approx_H_exists S T p i v E Hc) as (w & Hw).
      rewrite (approx_in_H S T p i w Hw). rewrite EH in Hw. rewrite (approx_in_H S T p' i w Hw). reflexivity.
    + assert (Hc' : T <= v') by (destruct Hr as [<-|[_ Hr]]; lia).
      rewrite (approx_above S T p i v E Hc), (approx_above S T p' i v' E' Hc'). cbn.
      f_equal. apply Z.ltb_ge in Hc, Hc'. rewrite Hc, Hc'. reflexivity.
  - assert (E' : nth_error p' i = None) by (apply nth_error_None; apply nth_error_None in E; lia).
    apply nth_error_None in E, E'.
    assert (E1 : nth_error (approx_correct_ttest S T p) i = None)
      by (apply nth_error_None; rewrite approx_length; exact E).
    assert (E2 : nth_error (approx_correct_ttest S T p') i = None)
      by (apply nth_error_None; rewrite approx_length; exact E').
    rewrite E1, E2. reflexivity.
Qed.

(* ... nor of the full Holm correction *)
Lemma boring_sound_full : forall S T p p',
  Forall (fun x => 0 <= x <= S) p -> Forall (fun x => 0 <= x <= S) p' -> T <= S ->
  Forall2 (same_or_above T) p p' ->
  map (fun v => v <? T) (correct_ttest S 0 p) = map (fun v => v <? T) (correct_ttest S 0 p') /\
  map (fun v => v <? T) (approx_correct_ttest S T p') = map (fun v => v <? T) (correct_ttest S 0 p).
Proof.
  intros S T p p' Hp Hp' HT HF.
  pose proof (restricted_holm_decisions S T p Hp HT) as D1.
  pose proof (restricted_holm_decisions S T p' Hp' HT) as D2.
  pose proof (boring_sound S T p p' HF) as B. split; congruence.
Qed.
