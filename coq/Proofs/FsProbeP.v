(* Proofs for Model/FsModel.v (C19), third part (audit defect A8): stale independence of
   PROBING programs `wrapP O' cid core` between a STALE file system (every path of O' is a
   file an earlier run left) and a FRESH one (every path of O' is absent).  The two runs
   differ: the fresh one probes (k further `Stat p _`, then `Create p true cid; Unlink p`, after a
   flagged Stat on p that answered "absent"; k is a parameter of the wrapper, the theorem is for
   every k: k = 1 is the real run_mapping, audit 4 A3).  Direction: acceptance on the stale file system implies acceptance on
   the fresh one (the fresh run has the more permissive book-keeping: a probed output is
   `owned`, an output created where it was absent is `new`); the converse is false
   (Props/C19.v: the ex_probe_direction examples).
   The simulation relation R relates (fa, ba) fresh and (fb, bb) stale at the points where
   no probe operation is pending. *)
From Coq Require Import ZArith List Bool Lia.
From CTM Require Import Base.Sx Model.FsModel Proofs.FsModelP Proofs.FsProgP.
Import ListNotations.
Open Scope Z_scope.

(* ------------------------------------------------------------------ small facts *)
Lemma mem_incl : forall x l l', incl l l' -> mem x l = true -> mem x l' = true.
Proof. intros x l l' H M. apply mem_In. apply H. apply mem_In. assumption. Qed.

Lemma incl_add : forall x l l', incl l l' -> incl (add x l) (add x l').
Proof. intros x l l' H y Hy. apply In_add in Hy. apply In_add. destruct Hy; auto. Qed.

Lemma incl_del : forall x l l', incl l l' -> incl (del x l) (del x l').
Proof. intros x l l' H y Hy. apply In_del in Hy. apply In_del. destruct Hy; auto. Qed.

Lemma incl_new_out : forall ea eb x l l',
  (eb = None -> ea = None) -> incl l l' -> incl (new_out eb x l) (new_out ea x l').
Proof.
  intros ea eb x l l' He H. destruct eb as [eb|]; simpl.
  - destruct ea as [ea|]; simpl; [assumption|]. intros y Hy. apply In_add. auto.
  - rewrite He by reflexivity. simpl. apply incl_add. assumption.
Qed.

Lemma del_notin : forall p l, ~ In p l -> del p l = l.
Proof.
  intros p l. induction l as [|a l IH]; intro H; simpl; [reflexivity|].
  destruct (path_eqb p a) eqn:E; simpl.
  - apply path_eqb_eq in E. subst. exfalso. apply H. left. reflexivity.
  - f_equal. apply IH. intro A. apply H. right. assumption.
Qed.

Lemma del_add_notin : forall p l, ~ In p l -> del p (add p l) = l.
Proof.
  intros p l H. unfold add. destruct (mem p l) eqn:M; [apply mem_In in M; contradiction|].
  simpl. rewrite path_eqb_refl. simpl. apply del_notin. assumption.
Qed.

Lemma kind_of_absent : forall e, kind_of e = PAbsent -> e = None.
Proof. intros [[[|] x]|] H; simpl in H; try discriminate; reflexivity. Qed.

Lemma is_file_kind : forall e, is_file e = true <-> kind_of e = PFile.
Proof. intros [[[|] x]|]; simpl; split; intro H; try discriminate; reflexivity. Qed.

Lemma probe_ok_refl : forall e, probe_ok (kind_of e) (kind_of e) = true.
Proof. intros [[[|] x]|]; reflexivity. Qed.

Lemma top_name_outside : forall c p, is_prefix (c_scratch c) p = false -> top_name c p = [].
Proof.
  intros c p H. unfold top_name. unfold is_prefix in H.
  destruct (strip (c_scratch c) p); [discriminate | reflexivity].
Qed.

Lemma hidden_fill : forall O' f o, hidden O' (fill f o) = hidden O' o.
Proof. intros O' f o. destruct o; reflexivity. Qed.

Lemma step_stat_inv : forall c f b p r g b',
  step c f b (Stat p r) = Ok (g, b') -> g = f /\ b' = b.
Proof.
  intros c f b p r g b' H. unfold step, decide in H. destruct (b_done b); [discriminate|].
  destruct (statable c b p); [|discriminate].
  destruct (probe_ok (kind_of (lookup f p)) r); [|discriminate].
  inversion H; subst. auto.
Qed.

Lemma step_stat_ok : forall c f b p,
  b_done b = false -> statable c b p = true ->
  step c f b (Stat p (kind_of (lookup f p))) = Ok (f, b).
Proof.
  intros c f b p D S. unfold step, decide. rewrite D, S, probe_ok_refl. reflexivity.
Qed.

Lemma prun_step : forall c pg n f b h f' b' g b2 t h2,
  b_done b = false -> step c f b (fill f (pg h)) = Ok (f', b') ->
  prun c pg n f' b' (h ++ [observe f (fill f (pg h))]) = Ok (g, b2, t, h2) ->
  prun c pg (S n) f b h = Ok (g, b2, fill f (pg h) :: t, h2).
Proof. intros c pg n f b h f' b' g b2 t h2 D S R. simpl. rewrite D, S, R. reflexivity. Qed.

(* the head of a trace is not an Unlink of a path of O' *)
Definition headok (O' : list path) (t : list op) : Prop :=
  match t with Unlink q :: _ => mem q O' = false | _ => True end.

Lemma erase_cons : forall O' o t,
  hidden O' o = false -> headok O' t -> erase O' (o :: t) = o :: erase O' t.
Proof.
  intros O' o t Hh Ht. destruct o as [x|x k|x tr k|x|x|x|x y|x|ok|x r]; try reflexivity.
  - simpl. destruct t as [|o' t]; [reflexivity|].
    destruct o' as [z|z k'|z tr' k'|z|z|z|z y|z|ok|z r]; try reflexivity.
    simpl in Ht. destruct (mem x O' && path_eqb x z) eqn:E; [|reflexivity].
    apply andb_true_iff in E. destruct E as [E1 E2]. apply path_eqb_eq in E2. subst. congruence.
  - simpl in Hh. simpl. rewrite Hh. reflexivity.
Qed.

Lemma erase_hidden : forall O' p r t, mem p O' = true -> erase O' (Stat p r :: t) = erase O' t.
Proof. intros O' p r t M. simpl. rewrite M. reflexivity. Qed.

Lemma erase_probe : forall O' p r tr cid t, mem p O' = true ->
  erase O' (Stat p r :: Create p tr cid :: Unlink p :: t) = erase O' t.
Proof. intros O' p r tr cid t M. simpl. rewrite M, path_eqb_refl. reflexivity. Qed.

(* ------------------------------------------------------------------ what decide does to `new` and to
   an output that an earlier run left *)
Lemma decide_new_grows : forall c f b o e b' x,
  decide c f b o = Ok (e, b') -> In x (b_new b') -> In x (b_new b) \/ lookup f x = None.
Proof.
  intros c f b o e b' x H Hx.
  decide_inv H; bk_simpl; auto;
    repeat (match goal with
            | A : In _ (new_out _ _ _) |- _ => apply In_new_out in A; destruct A as [[-> A]|A]
            | A : In _ (del _ _) |- _ => apply In_del in A; destruct A as [_ A]
            | A : In _ (add _ _) |- _ => apply In_add in A; destruct A as [->|A]
            end); auto.
Qed.

Lemma is_file_dir_false : forall e, is_file e = true -> is_dir e = true -> False.
Proof. intros [[[|] x]|]; simpl; intros; discriminate. Qed.

Lemma removable_false : forall c b p, In p (c_outputs c) -> ~ In p (b_new b) -> removable c b p = false.
Proof.
  intros c b p Ho Hn. unfold removable. apply mem_In in Ho. rewrite Ho. simpl.
  apply mem_false. assumption.
Qed.

(* an output that was there before and is not in `new` stays a file, and stays `created` *)
Lemma decide_file_stays : forall c f b o e b' p,
  decide c f b o = Ok (e, b') -> In p (c_outputs c) -> ~ In p (b_new b) -> is_file (lookup f p) = true ->
  is_file (lookup (apply e f) p) = true /\ (In p (b_created b) -> In p (b_created b')).
Proof.
  intros c f b o e b' p H Ho Hn Hf.
  pose proof (removable_false c b p Ho Hn) as RF.
  decide_inv H; norm; cbn [apply]; bk_simpl; (split; [|intro Hc]);
    rewrite ?lookup_set, ?lookup_remove;
    repeat (match goal with |- context [path_eqb ?a ?z] => destruct (path_eqb a z) eqn:?; norm end);
    auto; in_simpl; auto;
    try congruence;
    try (exfalso; eapply is_file_dir_false; eauto; fail);
    try (rewrite EL in Hf; discriminate).
  all: try (split; [congruence | assumption]).
  all: try (right; split; [congruence | assumption]).
  all: try (split; [intro; subst; eapply is_file_dir_false; eauto | assumption]).
  all: try (right; apply In_del; split; [intro; subst; congruence | assumption]).
Qed.

(* ------------------------------------------------------------------ book-keeping of the two runs *)
(* ba (fresh run) and bb (stale run) are equal except that ba may own more outputs (those it
   probed: all in O') and may have more outputs in `new` *)
Definition brel (O' : list path) (ba bb : bk) : Prop :=
  b_created ba = b_created bb /\ b_dirs ba = b_dirs bb /\ b_names ba = b_names bb /\
  b_done ba = b_done bb /\
  incl (b_owned bb) (b_owned ba) /\ incl (b_new bb) (b_new ba) /\
  (forall x, In x (b_owned ba) -> In x (b_owned bb) \/ In x O').

Lemma owned_add_rel : forall (O' : list path) x owa ow,
  (forall y, In y owa -> In y ow \/ In y O') ->
  forall y, In y (add x owa) -> In y (add x ow) \/ In y O'.
Proof.
  intros O' x owa ow H y Hy. apply In_add in Hy. destruct Hy as [->|Hy].
  - left. apply In_add. auto.
  - destruct (H y Hy); [left; apply In_add; auto | auto].
Qed.

(* decide is monotone in owned / new, and looks at the file system only at the readable
   paths and (for `new`) at whether an output it creates is absent *)
Lemma decide_sim2 : forall O' c fa fb ba bb o e bb',
  brel O' ba bb ->
  (forall p, readable c bb o p -> lookup fa p = lookup fb p) ->
  (forall x r, o = Stat x r -> kind_of (lookup fa x) = kind_of (lookup fb x)) ->
  (forall p, kreadable c bb o p -> lookup fb p = None -> lookup fa p = None) ->
  decide c fb bb o = Ok (e, bb') ->
  exists ba', decide c fa ba o = Ok (e, ba') /\ brel O' ba' bb'.
Proof.
  intros O' c fa fb ba bb o e bb' Hb HA HS HK H.
  destruct ba as [cra dia owa nwa naa dna]. destruct bb as [cr di ow nw na dn].
  destruct Hb as [B1 [B2 [B3 [B4 [B5 [B6 B7]]]]]]. cbn [b_created b_dirs b_owned b_new b_names b_done] in *.
  subst cra dia naa dna.
  unfold decide in *. cbn [b_created b_dirs b_owned b_new b_names b_done] in *.
  destruct dn; [discriminate|].
  destruct o as [x|x cid|x t cid|x|x|x|x y|x|ok|x r]; cbn [readable kreadable b_created b_dirs] in HA, HK.
  - destruct (mem x (c_inputs c) || mem x cr) eqn:E; [|discriminate].
    rewrite (HA x) by auto. destruct (is_file (lookup fb x)); [|discriminate].
    inversion H; subst. eexists. split; [reflexivity|]. repeat split; assumption.
  - destruct (mem x cr || wq c x) eqn:E; [|discriminate].
    rewrite (HA x) by auto. destruct (is_file (lookup fb x)); [|discriminate].
    inversion H; subst. eexists. split; [reflexivity|]. repeat split; assumption.
  - destruct (mem x cr) eqn:E1.
    { rewrite (HA x) by auto. destruct (is_file (lookup fb x)); [|discriminate].
      inversion H; subst. eexists. split; [reflexivity|]. repeat split; assumption. }
    destruct (mem x (c_outputs c)) eqn:E2.
    { destruct (t || mem x ow) eqn:E3; [|discriminate].
      assert (E4 : t || mem x owa = true).
      { apply orb_true_iff in E3. apply orb_true_iff. destruct E3 as [E3|E3]; [auto|].
        right. eapply mem_incl; eauto. }
      rewrite E4. inversion H; subst. eexists. split; [reflexivity|].
      unfold brel, with_new, with_owned, with_created; cbn [b_created b_dirs b_owned b_new b_names b_done].
      repeat split; auto using incl_add.
      - apply incl_new_out; [apply HK; auto | assumption].
      - apply owned_add_rel. assumption. }
    unfold creatable in *. cbn [b_dirs] in *.
    destruct (child_of (c_scratch c) x || existsb (fun d => child_of d x) di) eqn:E3; [|discriminate].
    rewrite (HA x) by auto. destruct (lookup fb x); [discriminate|].
    inversion H; subst. eexists. split; [reflexivity|].
    unfold brel, named, with_names, with_created; cbn [b_created b_dirs b_owned b_new b_names b_done].
    repeat split; auto.
  - destruct (mem x (c_outputs c)) eqn:E2; [discriminate|].
    unfold creatable in *. cbn [b_dirs] in *.
    destruct (child_of (c_scratch c) x || existsb (fun d => child_of d x) di) eqn:E3; [|discriminate].
    rewrite (HA x) by auto. destruct (lookup fb x); [discriminate|].
    inversion H; subst. eexists. split; [reflexivity|].
    unfold brel, named, with_names, with_dirs, with_created; cbn [b_created b_dirs b_owned b_new b_names b_done].
    repeat split; auto.
  - destruct (mem x cr) eqn:E1; [|discriminate].
    rewrite (HA x) by auto. destruct (is_file (lookup fb x)); [|discriminate].
    unfold removable in *. cbn [b_new] in *.
    destruct (negb (mem x (c_outputs c)) || mem x nw) eqn:E3; [|discriminate].
    assert (E4 : negb (mem x (c_outputs c)) || mem x nwa = true).
    { apply orb_true_iff in E3. apply orb_true_iff. destruct E3 as [E3|E3]; [auto|].
      right. eapply mem_incl; eauto. }
    rewrite E4. inversion H; subst. eexists. split; [reflexivity|].
    unfold brel, with_new, with_created; cbn [b_created b_dirs b_owned b_new b_names b_done].
    repeat split; auto using incl_del.
  - destruct (mem x di) eqn:E1; [|discriminate].
    rewrite (HA x) by auto. destruct (is_dir (lookup fb x)); [|discriminate].
    rewrite (has_child_ext fa fb x) by (intros; apply HA; auto).
    destruct (has_child fb x); [discriminate|].
    inversion H; subst. eexists. split; [reflexivity|].
    unfold brel, with_dirs, with_created; cbn [b_created b_dirs b_owned b_new b_names b_done].
    repeat split; auto.
  - destruct (mem x cr) eqn:E1; [|discriminate].
    rewrite (HA x) by auto. destruct (lookup fb x) as [[[|] cid]|]; try discriminate.
    destruct (path_eqb x y).
    { inversion H; subst. eexists. split; [reflexivity|]. repeat split; assumption. }
    unfold removable in *. cbn [b_new] in *.
    destruct (negb (mem x (c_outputs c)) || mem x nw) eqn:E3; [|discriminate].
    assert (E4 : negb (mem x (c_outputs c)) || mem x nwa = true).
    { apply orb_true_iff in E3. apply orb_true_iff. destruct E3 as [E3|E3]; [auto|].
      right. eapply mem_incl; eauto. }
    rewrite E4.
    destruct (mem y cr) eqn:E5.
    { rewrite (HA y) by auto. destruct (is_file (lookup fb y)); [|discriminate].
      inversion H; subst. eexists. split; [reflexivity|].
      unfold brel, with_new, with_created; cbn [b_created b_dirs b_owned b_new b_names b_done].
      repeat split; auto using incl_del. }
    destruct (mem y (c_outputs c)) eqn:E6.
    { inversion H; subst. eexists. split; [reflexivity|].
      unfold brel, with_new, with_owned, with_created; cbn [b_created b_dirs b_owned b_new b_names b_done].
      repeat split; auto using incl_add.
      - apply incl_new_out; [apply HK; auto | apply incl_del; assumption].
      - apply owned_add_rel. assumption. }
    unfold creatable in *. cbn [b_dirs] in *.
    destruct (child_of (c_scratch c) y || existsb (fun d => child_of d y) di) eqn:E7; [|discriminate].
    rewrite (HA y) by auto 6. destruct (lookup fb y); [discriminate|].
    inversion H; subst. eexists. split; [reflexivity|].
    unfold brel, named, with_names, with_new, with_created; cbn [b_created b_dirs b_owned b_new b_names b_done].
    repeat split; auto using incl_del.
  - destruct (mem x di); [|discriminate].
    inversion H; subst. eexists. split; [reflexivity|]. repeat split; assumption.
  - destruct (ok || c_strict c).
    + destruct (forallb (fun p => negb (under (c_scratch c) p)) (cr ++ di)); [|discriminate].
      inversion H; subst. eexists. split; [reflexivity|]. repeat split; assumption.
    + inversion H; subst. eexists. split; [reflexivity|]. repeat split; assumption.
  - unfold statable in *. cbn [b_names] in *.
    destruct (kregion c x || in_cone c na x); [|discriminate].
    rewrite (HS x r eq_refl). destruct (probe_ok (kind_of (lookup fb x)) r); [|discriminate].
    inversion H; subst. eexists. split; [reflexivity|]. repeat split; assumption.
Qed.

(* ------------------------------------------------------------------ the simulation relation *)
Section Probe.
Variables (c : config) (N : list Z) (O' : list path).
Hypothesis Hout : outside_scratch c = true.
Hypothesis Hq : mem (c_query c) (c_outputs c) = false.
Hypothesis HO : incl O' (c_outputs c).

(* (fa, ba): the run on the fresh file system; (fb, bb): the run on the stale one *)
Definition R (fa : fs) (ba : bk) (fb : fs) (bb : bk) : Prop :=
  brel O' ba bb /\ inv c N bb /\
  agree (region c N bb) fa fb /\
  (forall p, kregion c p = true -> ~ In p O' -> kind_of (lookup fa p) = kind_of (lookup fb p)) /\
  (forall p, In p O' ->
     ~ In p (b_new bb) /\ is_file (lookup fb p) = true /\ (In p (b_created bb) \/ lookup fa p = None)).

Lemma R_ext : forall fa fa' ba fb bb,
  (forall x, lookup fa' x = lookup fa x) -> R fa ba fb bb -> R fa' ba fb bb.
Proof.
  intros fa fa' ba fb bb E [R1 [R2 [R3 [R4 R5]]]]. unfold R. split; [assumption|]. split; [assumption|].
  split; [intros x Hx; rewrite E; apply R3; assumption|].
  split; [intros x K Hx; rewrite E; apply R4; assumption|].
  intros x Hx. rewrite E. apply R5. assumption.
Qed.

Lemma O_facts : forall p, In p O' ->
  In p (c_outputs c) /\ in_cone c N p = false /\ wq c p = false.
Proof.
  intros p Hp. pose proof (HO p Hp) as Ho. split; [assumption|]. split.
  - apply in_cone_outside. apply outside_scratch_spec; auto.
  - destruct (wq c p) eqn:W; [|reflexivity]. apply wq_spec in W. destruct W as [_ ->].
    apply mem_false in Hq. contradiction.
Qed.

(* a created path of O' holds the same file in both *)
Lemma R_created_O : forall fa ba fb bb p,
  R fa ba fb bb -> In p O' -> In p (b_created bb) -> lookup fa p = lookup fb p.
Proof.
  intros fa ba fb bb p [_ [[I1 _] [R3 _]]] Hp Hc. destruct (O_facts p Hp) as [_ [C _]].
  apply R3. destruct (I1 p Hc) as [A|A]; [|congruence]. right. right. right. assumption.
Qed.

Lemma R_absent_not_created : forall fa ba fb bb p,
  R fa ba fb bb -> In p O' -> lookup fa p = None -> ~ In p (b_created bb).
Proof.
  intros fa ba fb bb p HR Hp Hl Hc. pose proof (R_created_O _ _ _ _ _ HR Hp Hc) as E.
  destruct HR as [_ [_ [_ [_ R5]]]]. destruct (R5 p Hp) as [_ [F _]].
  rewrite <- E, Hl in F. discriminate.
Qed.

(* where the stale file system has nothing at a path the run may look at, the fresh has nothing *)
Lemma R_kread : forall fa ba fb bb o p,
  R fa ba fb bb -> kreadable c bb o p -> lookup fb p = None -> lookup fa p = None.
Proof.
  intros fa ba fb bb o p [_ [Hi [R3 [R4 R5]]]] Hk Hl.
  destruct (kreadable_region c N bb o p Hi Hk) as [K|K].
  - destruct (mem p O') eqn:M.
    + apply mem_In in M. destruct (R5 p M) as [_ [F _]]. rewrite Hl in F. discriminate.
    + apply mem_false in M. apply kind_of_absent. rewrite (R4 p K M), Hl. reflexivity.
  - rewrite (R3 p) by (left; assumption). assumption.
Qed.

(* one operation that is not a Stat on O': the same operation is accepted on the fresh side *)
Lemma step_sim2 : forall fa ba fb bb o gb bb',
  R fa ba fb bb -> incl (op_fresh c o) N -> hidden O' o = false ->
  step c fb bb o = Ok (gb, bb') ->
  exists ga ba', step c fa ba o = Ok (ga, ba') /\ R ga ba' gb bb'.
Proof.
  intros fa ba fb bb o gb bb' HR Hn Hh H. unfold step in *.
  destruct (decide c fb bb o) as [[e b1]|code] eqn:D; [|discriminate]. inversion H; subst; clear H.
  pose proof HR as [R1 [Hi [R3 [R4 R5]]]].
  destruct (decide_sim2 O' c fa fb ba bb o e bb' R1) as [ba' [D' R1']].
  - intros p Hp. apply R3. eapply readable_region; eauto.
  - intros x r ->. simpl in Hh. apply mem_false in Hh.
    assert (S : statable c bb x = true).
    { unfold decide in D. destruct (b_done bb); [discriminate|]. destruct (statable c bb x); [reflexivity | discriminate]. }
    unfold statable in S. apply orb_true_iff in S. destruct S as [S|S]; [apply R4; assumption|].
    rewrite (R3 x); [reflexivity|]. left. destruct Hi as [_ [_ [_ I4]]]. eapply in_cone_mono; [exact I4 | exact S].
  - intros p Hp. eapply R_kread; eauto.
  - assumption.
  - rewrite D'. exists (apply e fa), ba'. split; [reflexivity|].
    assert (Hi' : inv c N bb') by (eapply decide_keeps_inv; eauto).
    unfold R. split; [assumption|]. split; [assumption|]. split; [|split].
    + intros x Hx. apply lookup_apply_ext.
      destruct Hx as [Hx|[Hx|[Hx|Hx]]].
      * right. apply R3. left. assumption.
      * right. apply R3. right. left. assumption.
      * right. apply R3. right. right. left. assumption.
      * destruct (decide_new_owned _ _ _ _ _ _ _ D Hx) as [Ho|Ht]; [|left; assumption].
        right. apply R3. right. right. right. assumption.
    + intros x K Hx. apply kind_apply_ext. right. apply R4; assumption.
    + intros p Hp. destruct (R5 p Hp) as [Nn [F Cr]]. destruct (O_facts p Hp) as [Ho [Cn Wq]].
      destruct (decide_file_stays c fb bb o e bb' p D Ho Nn F) as [F' Cr'].
      split; [|split; [assumption|]].
      * intro A. destruct (decide_new_grows _ _ _ _ _ _ _ D A) as [B|B]; [contradiction|].
        rewrite B in F. discriminate.
      * destruct Cr as [Cr|Cr]; [left; auto|].
        destruct (in_dec (list_eq_dec Z.eq_dec) p (touched e)) as [T|T].
        -- destruct (decide_touched _ _ _ _ _ _ _ D T) as [A|[A|[A|A]]].
           ++ left. auto.
           ++ left. assumption.
           ++ destruct Hi as [_ [I2 _]]. rewrite (I2 p A) in Cn. discriminate.
           ++ congruence.
        -- right. rewrite lookup_apply_untouched by assumption. assumption.
Qed.

(* ... and it observes the same *)
Lemma observe_sim2 : forall fa ba fb bb o0 gb bb',
  R fa ba fb bb -> incl (op_fresh c (fill fb o0)) N -> hidden O' o0 = false ->
  step c fb bb (fill fb o0) = Ok (gb, bb') ->
  fill fa o0 = fill fb o0 /\ observe fa (fill fb o0) = observe fb (fill fb o0).
Proof.
  intros fa ba fb bb o0 gb bb' [R1 [Hi [R3 [R4 R5]]]] Hn Hh S.
  destruct o0 as [x|x cid|x t cid|x|x|x|x y|x|ok|x r]; cbn [fill observe] in *; try (split; reflexivity).
  - split; [reflexivity|]. apply step_openr in S.
    rewrite (R3 x); [reflexivity|]. apply (readable_region c N bb (OpenR x) x Hi Hn). simpl. auto.
  - split; [reflexivity|]. apply step_listdir in S. f_equal. apply listing_ext.
    intros q Hu. apply R3. apply (readable_region c N bb (ListDir x) q Hi Hn). simpl. auto.
  - apply step_stat in S. simpl in Hh. apply mem_false in Hh.
    assert (K : kind_of (lookup fa x) = kind_of (lookup fb x)).
    { unfold statable in S. apply orb_true_iff in S. destruct S as [S|S]; [apply R4; assumption|].
      rewrite (R3 x); [reflexivity|]. left. destruct Hi as [_ [_ [_ I4]]]. eapply in_cone_mono; [exact I4 | exact S]. }
    rewrite K. split; reflexivity.
Qed.

(* an Unlink that the stale run was allowed is not on O' *)
Lemma unlink_not_O : forall fa ba fb bb q gb bb',
  R fa ba fb bb -> step c fb bb (Unlink q) = Ok (gb, bb') -> mem q O' = false.
Proof.
  intros fa ba fb bb q gb bb' [_ [_ [_ [_ R5]]]] S. apply mem_false. intro Hq'.
  destruct (R5 q Hq') as [Nn _]. destruct (O_facts q Hq') as [Ho _].
  pose proof (removable_false c bb q Ho Nn) as RF.
  unfold step, decide in S. destruct (b_done bb); [discriminate|].
  destruct (mem q (b_created bb)); [|discriminate]. destruct (is_file (lookup fb q)); [|discriminate].
  rewrite RF in S. discriminate.
Qed.

(* the probe on the fresh side: two accepted operations, after which the relation holds again *)
Lemma probe_steps : forall cid fa ba fb bb p,
  R fa ba fb bb -> In p O' -> lookup fa p = None -> b_done ba = false ->
  exists f1 ba1 f2 ba2,
    step c fa ba (Create p true cid) = Ok (f1, ba1) /\
    step c f1 ba1 (Unlink p) = Ok (f2, ba2) /\
    R f2 ba2 fb bb.
Proof.
  intros cid fa ba fb bb p HR Hp Hl Dn.
  pose proof (R_absent_not_created _ _ _ _ _ HR Hp Hl) as Nc.
  destruct (O_facts p Hp) as [Ho _].
  pose proof HR as [[B1 [B2 [B3 [B4 [B5 [B6 B7]]]]]] [Hi [R3 [R4 R5]]]].
  assert (Nca : mem p (b_created ba) = false) by (rewrite B1; apply mem_false; assumption).
  apply mem_In in Ho.
  exists (set p (KFile, cid) fa).
  exists (with_new (with_owned (with_created ba (add p (b_created ba))) (add p (b_owned ba))) (add p (b_new ba))).
  exists (remove p (set p (KFile, cid) fa)).
  eexists. split; [|split].
  - unfold step, decide. rewrite Dn, Nca, Ho, Hl. reflexivity.
  - unfold step, decide. bk_simpl. rewrite Dn.
    assert (M1 : mem p (add p (b_created ba)) = true) by (apply mem_In; apply In_add; auto).
    rewrite M1. rewrite lookup_set, path_eqb_refl. cbn [is_file].
    unfold removable. bk_simpl.
    assert (M2 : mem p (add p (b_new ba)) = true) by (apply mem_In; apply In_add; auto).
    rewrite M2, orb_true_r. reflexivity.
  - apply (R_ext fa).
    { intro x. rewrite lookup_remove, lookup_set. destruct (path_eqb p x) eqn:E; [|reflexivity].
      apply path_eqb_eq in E. subst. symmetry. assumption. }
    unfold R. split; [|auto]. unfold brel. bk_simpl.
    rewrite del_add_notin by (apply mem_false; assumption).
    repeat split; auto.
    + intros x Hx. apply In_add. auto.
    + intros x Hx. apply In_del. split; [|apply In_add; auto].
      intro A. subst. destruct (R5 p Hp) as [Nn _]. contradiction.
    + intros x Hx. apply In_add in Hx. destruct Hx as [->|Hx]; auto.
Qed.

(* ------------------------------------------------------------------ the two program runs *)
Variables (cid : Z) (k : nat) (cr : pcore).

Lemma pstate_snoc : forall h x, pstate O' cid k cr (h ++ [x]) = pfeed O' cid k cr (pstate O' cid k cr h) x.
Proof. intros. unfold pstate. rewrite fold_left_app. reflexivity. Qed.

Lemma wrapP_at : forall h s, pstate O' cid k cr h = s -> wrapP O' cid k cr h = pnext cr s.
Proof. intros h s <-. reflexivity. Qed.

Lemma pfeed_plain : forall eh o fl x, cr eh = (o, fl) -> hidden O' o = false ->
  pfeed O' cid k cr (eh, []) x = (eh ++ [x], []).
Proof.
  intros eh o fl x C Hh. unfold pfeed. cbn [fst snd]. rewrite C.
  destruct o; try reflexivity. simpl in Hh. rewrite Hh. reflexivity.
Qed.

Lemma pfeed_hidden : forall eh p r fl x, cr eh = (Stat p r, fl) -> mem p O' = true ->
  pfeed O' cid k cr (eh, []) x =
  (eh ++ [OKind PExists], if fl && is_absent x then probe_ops cid k p else []).
Proof. intros eh p r fl x C M. unfold pfeed. cbn [fst snd]. rewrite C, M. reflexivity. Qed.

Lemma erase_repeat_stat : forall p r j t, mem p O' = true ->
  erase O' (repeat (Stat p r) j ++ t) = erase O' t.
Proof.
  intros p r j t M. induction j as [|j IH]; [reflexivity|].
  cbn [repeat app]. rewrite erase_hidden by assumption. exact IH.
Qed.

Lemma fresh_repeat_stat : forall p r j t,
  fresh_names c (repeat (Stat p r) j ++ t) = fresh_names c t.
Proof.
  intros p r j t. induction j as [|j IH]; [reflexivity|].
  cbn [repeat app]. rewrite fresh_cons. cbn [op_fresh]. simpl. exact IH.
Qed.

(* the j further looks of the fresh run at the path it is about to probe: j accepted Stat
   operations that change nothing; their answers do not enter the erased history *)
Lemma pending_stats : forall j p fa ba ha eh rest,
  b_done ba = false -> statable c ba p = true ->
  pstate O' cid k cr ha = (eh, repeat (Stat p PAbsent) j ++ rest) ->
  exists ha1, pstate O' cid k cr ha1 = (eh, rest) /\
    forall m ga ba' ta ha',
      prun c (wrapP O' cid k cr) m fa ba ha1 = Ok (ga, ba', ta, ha') ->
      prun c (wrapP O' cid k cr) (j + m) fa ba ha =
        Ok (ga, ba', repeat (Stat p (kind_of (lookup fa p))) j ++ ta, ha').
Proof.
  induction j as [|j IH]; intros p fa ba ha eh rest Dn St Sa.
  - exists ha. split; [exact Sa|]. intros m ga ba' ta ha' H. exact H.
  - cbn [repeat app] in Sa.
    assert (P0 : wrapP O' cid k cr ha = Stat p PAbsent) by (rewrite (wrapP_at ha _ Sa); reflexivity).
    assert (Sa1 : pstate O' cid k cr (ha ++ [OKind (kind_of (lookup fa p))]) =
                  (eh, repeat (Stat p PAbsent) j ++ rest)).
    { rewrite pstate_snoc, Sa. reflexivity. }
    destruct (IH p fa ba _ eh rest Dn St Sa1) as [ha1 [S1 K]].
    exists ha1. split; [exact S1|]. intros m ga ba' ta ha' H.
    specialize (K m ga ba' ta ha' H).
    pose proof (prun_step c (wrapP O' cid k cr) (j + m) fa ba ha fa ba ga ba'
                  (repeat (Stat p (kind_of (lookup fa p))) j ++ ta) ha') as Q.
    rewrite P0 in Q. cbn [fill observe] in Q.
    exact (Q Dn (step_stat_ok c fa ba p Dn St) K).
Qed.

Lemma prun_sim2 : forall n fa ba ha fb bb hb eh gb bb' tb hb',
  R fa ba fb bb ->
  pstate O' cid k cr ha = (eh, []) -> pstate O' cid k cr hb = (eh, []) ->
  incl (fresh_names c tb) N ->
  prun c (wrapP O' cid k cr) n fb bb hb = Ok (gb, bb', tb, hb') ->
  exists m ga ba' ta ha', (m <= (3 + k) * n)%nat /\
    prun c (wrapP O' cid k cr) m fa ba ha = Ok (ga, ba', ta, ha') /\ R ga ba' gb bb' /\
    erase O' ta = erase O' tb /\ fresh_names c ta = fresh_names c tb /\
    headok O' ta /\ headok O' tb.
Proof.
  induction n as [|n IH]; intros fa ba ha fb bb hb eh gb bb' tb hb' HR Sa Sb Hn H.
  - simpl in H. inversion H; subst. exists 0%nat, fa, ba, [], ha.
    split; [lia|]. split; [reflexivity|]. split; [assumption|]. simpl. repeat split.
  - simpl in H. destruct (b_done bb) eqn:Dn.
    { inversion H; subst. exists 0%nat, fa, ba, [], ha.
      split; [lia|]. split; [reflexivity|]. split; [assumption|]. simpl. repeat split. }
    assert (Dna : b_done ba = false).
    { destruct HR as [[_ [_ [_ [B4 _]]]] _]. congruence. }
    rewrite (wrapP_at hb _ Sb) in H. unfold pnext in H. cbn [fst snd] in H.
    destruct (cr eh) as [o fl] eqn:C. cbn [fst] in H.
    destruct (step c fb bb (fill fb o)) as [[fb1 bb1]|code] eqn:St; [|discriminate].
    destruct (prun c (wrapP O' cid k cr) n fb1 bb1 (hb ++ [observe fb (fill fb o)]))
      as [[[[g1 b2] t1] h2]|code] eqn:Rn; [|discriminate].
    injection H as E1 E2 E3 E4. subst gb bb' tb hb'. rewrite fresh_cons in Hn.
    pose proof (incl_app_l _ _ _ _ Hn) as Hno. pose proof (incl_app_r _ _ _ _ Hn) as Hnt.
    assert (PA : wrapP O' cid k cr ha = o).
    { rewrite (wrapP_at ha _ Sa). unfold pnext. cbn [fst snd]. rewrite C. reflexivity. }
    assert (Hmul : ((3 + k) * S n = (3 + k) * n + 3 + k)%nat) by (rewrite Nat.mul_succ_r; lia).
    destruct (hidden O' o) eqn:Hh.
    + (* a Stat on O': the answers differ; the fresh side may probe *)
      destruct o as [x|x k0|x t k0|x|x|x|x y|x|ok|p r]; try discriminate Hh. simpl in Hh.
      cbn [fill observe] in *.
      apply step_stat_inv in St. destruct St as [-> ->].
      pose proof Hh as Hp. apply mem_In in Hp.
      pose proof HR as [_ [_ [_ [_ R5]]]]. destruct (R5 p Hp) as [_ [F _]].
      apply is_file_kind in F. rewrite F in Rn.
      assert (Sb1 : pstate O' cid k cr (hb ++ [OKind PFile]) = (eh ++ [OKind PExists], [])).
      { rewrite pstate_snoc, Sb, (pfeed_hidden eh p r fl _ C Hh). cbn [is_absent].
        rewrite andb_false_r. reflexivity. }
      assert (Sta : statable c ba p = true).
      { unfold statable. destruct (O_facts p Hp) as [Ho _]. rewrite (kregion_output c p Ho). reflexivity. }
      pose proof (step_stat_ok c fa ba p Dna Sta) as S0.
      pose proof (pstate_snoc ha (OKind (kind_of (lookup fa p)))) as Sa1.
      rewrite Sa, (pfeed_hidden eh p r fl _ C Hh) in Sa1.
      destruct (fl && is_absent (OKind (kind_of (lookup fa p)))) eqn:FP.
      * (* probe: k further looks, the creation, the removal *)
        apply andb_true_iff in FP. destruct FP as [_ FP]. cbn [is_absent] in FP.
        assert (Hl : lookup fa p = None).
        { apply kind_of_absent. destruct (kind_of (lookup fa p)); try discriminate. reflexivity. }
        destruct (probe_steps cid fa ba fb bb p HR Hp Hl Dna) as [f1 [ba1 [f2 [ba2 [S1 [S2 HR2]]]]]].
        set (ha0 := ha ++ [OKind (kind_of (lookup fa p))]) in *.
        unfold probe_ops in Sa1.
        destruct (pending_stats k p fa ba ha0 _ _ Dna Sta Sa1) as [ha1 [Sa1' KK]].
        assert (P1 : wrapP O' cid k cr ha1 = Create p true cid) by (rewrite (wrapP_at ha1 _ Sa1'); reflexivity).
        assert (Sa2 : pstate O' cid k cr (ha1 ++ [ONone]) = (eh ++ [OKind PExists], [Unlink p])).
        { rewrite pstate_snoc, Sa1'. reflexivity. }
        assert (P2 : wrapP O' cid k cr (ha1 ++ [ONone]) = Unlink p) by (rewrite (wrapP_at _ _ Sa2); reflexivity).
        assert (Sa3 : pstate O' cid k cr ((ha1 ++ [ONone]) ++ [ONone]) = (eh ++ [OKind PExists], [])).
        { rewrite pstate_snoc, Sa2. reflexivity. }
        destruct (IH f2 ba2 _ fb bb _ _ g1 b2 t1 h2 HR2 Sa3 Sb1 Hnt Rn)
          as [m [ga [ba' [ta [ha' [Lm [Ra [HR' [Er [Fr [Ha Hb]]]]]]]]]]].
        assert (Dn1 : b_done ba1 = false).
        { apply step_decide in S1. destruct S1 as [e1 [D1 _]].
          apply step_decide in S2. destruct S2 as [e2 [D2 _]]. eapply decide_not_done; eauto. }
        exists (S (k + S (S m))), ga, ba'.
        exists (Stat p (kind_of (lookup fa p)) ::
                repeat (Stat p (kind_of (lookup fa p))) k ++ Create p true cid :: Unlink p :: ta), ha'.
        split; [lia|]. split; [|split; [assumption|]].
        -- pose proof (prun_step c (wrapP O' cid k cr) m f1 ba1 (ha1 ++ [ONone]) f2 ba2 ga ba' ta ha') as Q2.
           rewrite P2 in Q2. cbn [fill observe] in Q2. specialize (Q2 Dn1 S2 Ra).
           pose proof (prun_step c (wrapP O' cid k cr) (S m) fa ba ha1 f1 ba1 ga ba' (Unlink p :: ta) ha') as Q1.
           rewrite P1 in Q1. cbn [fill observe] in Q1. specialize (Q1 Dna S1 Q2).
           pose proof (KK _ _ _ _ _ Q1) as QK.
           pose proof (prun_step c (wrapP O' cid k cr) (k + S (S m)) fa ba ha fa ba ga ba'
                         (repeat (Stat p (kind_of (lookup fa p))) k ++ Create p true cid :: Unlink p :: ta) ha') as Q0.
           rewrite PA in Q0. cbn [fill observe] in Q0. exact (Q0 Dna S0 QK).
        -- split; [|split; [|split; exact Logic.I]].
           ++ rewrite erase_hidden by assumption. rewrite erase_repeat_stat by assumption.
              cbn [erase]. rewrite Hh, path_eqb_refl. cbn [andb].
              rewrite ?erase_hidden by assumption. assumption.
           ++ destruct (O_facts p Hp) as [Ho _].
              rewrite fresh_cons. cbn [op_fresh]. cbn [app]. rewrite fresh_repeat_stat.
              rewrite !fresh_cons. cbn [op_fresh].
              rewrite (top_name_outside c p) by (apply outside_scratch_spec; auto). simpl. assumption.
      * (* no probe *)
        destruct (IH fa ba _ fb bb _ _ g1 b2 t1 h2 HR Sa1 Sb1 Hnt Rn)
          as [m [ga [ba' [ta [ha' [Lm [Ra [HR' [Er [Fr [Ha Hb]]]]]]]]]]].
        exists (S m), ga, ba', (Stat p (kind_of (lookup fa p)) :: ta), ha'.
        split; [lia|]. split; [|split; [assumption|]].
        -- pose proof (prun_step c (wrapP O' cid k cr) m fa ba ha fa ba ga ba' ta ha') as Q0.
           rewrite PA in Q0. cbn [fill observe] in Q0. exact (Q0 Dna S0 Ra).
        -- split; [|split; [|split; exact Logic.I]].
           ++ rewrite !erase_hidden by assumption. assumption.
           ++ rewrite !fresh_cons. cbn [op_fresh]. simpl. assumption.
    + (* any other operation: the same on both sides, with the same answer *)
      assert (Hh' : hidden O' (fill fb o) = false) by (rewrite hidden_fill; assumption).
      destruct (observe_sim2 fa ba fb bb o fb1 bb1 HR Hno Hh St) as [EF EO].
      destruct (step_sim2 fa ba fb bb (fill fb o) fb1 bb1 HR Hno Hh' St) as [fa1 [ba1 [S' HR1]]].
      assert (Sb1 : pstate O' cid k cr (hb ++ [observe fb (fill fb o)]) = (eh ++ [observe fb (fill fb o)], [])).
      { rewrite pstate_snoc, Sb. eapply pfeed_plain; eauto. }
      assert (Sa1 : pstate O' cid k cr (ha ++ [observe fb (fill fb o)]) = (eh ++ [observe fb (fill fb o)], [])).
      { rewrite pstate_snoc, Sa. eapply pfeed_plain; eauto. }
      destruct (IH fa1 ba1 _ fb1 bb1 _ _ g1 b2 t1 h2 HR1 Sa1 Sb1 Hnt Rn)
        as [m [ga [ba' [ta [ha' [Lm [Ra [HR' [Er [Fr [Ha Hb]]]]]]]]]]].
      exists (S m), ga, ba', (fill fb o :: ta), ha'.
      split; [lia|]. split; [|split; [assumption|]].
      * pose proof (prun_step c (wrapP O' cid k cr) m fa ba ha fa1 ba1 ga ba' ta ha') as Q0.
        rewrite PA, EF, EO in Q0. exact (Q0 Dna S' Ra).
      * split; [|split; [|split]].
        -- rewrite !erase_cons by assumption. f_equal. assumption.
        -- rewrite !fresh_cons. f_equal. assumption.
        -- destruct (fill fb o) eqn:Eo; try exact Logic.I. simpl.
           exact (unlink_not_O _ _ _ _ _ _ _ HR St).
        -- destruct (fill fb o) eqn:Eo; try exact Logic.I. simpl.
           exact (unlink_not_O _ _ _ _ _ _ _ HR St).
Qed.

End Probe.

(* ------------------------------------------------------------------ the shape of a probe
   (audit 4, A3): what the wrapped program issues around a flagged look at an output p of O'.
   Where p exists: the one Stat, nothing else.  Where it is absent: the Stat, then exactly
   `probe_ops cid k p` = k further Stats, the creation, the removal - whatever those operations
   return - and then the core goes on from the erased history eh ++ [OKind PExists], the same in
   both cases.  With k = 1 this is the system-call sequence of the real run_mapping
   (cli/from_specified_markers.py:122-139) as strace shows it:
     fresh   stat p = ENOENT ; lstat p = ENOENT ; open(p, O_CREAT|O_TRUNC) ; unlink p
     stale   stat p = file *)
Lemma pstate_app_pending : forall O' cid k cr xs h eh l rest,
  pstate O' cid k cr h = (eh, l ++ rest) -> length xs = length l ->
  pstate O' cid k cr (h ++ xs) = (eh, rest).
Proof.
  intros O' cid k cr xs. induction xs as [|x xs IH]; intros h eh l rest H L.
  - destruct l; [|discriminate]. rewrite app_nil_r. exact H.
  - destruct l as [|o l]; [discriminate|].
    replace (h ++ x :: xs) with ((h ++ [x]) ++ xs) by (rewrite <- app_assoc; reflexivity).
    apply (IH _ eh l rest).
    + unfold pstate in *. rewrite fold_left_app, H. reflexivity.
    + simpl in L. lia.
Qed.

Theorem wrapP_probe_shape : forall O' cid k cr h eh p r,
  pstate O' cid k cr h = (eh, []) -> cr eh = (Stat p r, true) -> mem p O' = true ->
  wrapP O' cid k cr h = Stat p r /\
  (forall l1 o l2 xs, probe_ops cid k p = l1 ++ o :: l2 -> length xs = length l1 ->
     wrapP O' cid k cr (h ++ OKind PAbsent :: xs) = o) /\
  (forall xs, length xs = length (probe_ops cid k p) ->
     pstate O' cid k cr (h ++ OKind PAbsent :: xs) = (eh ++ [OKind PExists], [])) /\
  (forall x, is_absent x = false -> pstate O' cid k cr (h ++ [x]) = (eh ++ [OKind PExists], [])).
Proof.
  intros O' cid k cr h eh p r S C M.
  assert (SA : pstate O' cid k cr (h ++ [OKind PAbsent]) = (eh ++ [OKind PExists], probe_ops cid k p)).
  { unfold pstate in *. rewrite fold_left_app, S. cbn [fold_left]. unfold pfeed. cbn [fst snd].
    rewrite C, M. reflexivity. }
  split; [|split; [|split]].
  - unfold wrapP. rewrite S. unfold pnext. cbn [fst snd]. rewrite C. reflexivity.
  - intros l1 o l2 xs E L.
    replace (h ++ OKind PAbsent :: xs) with ((h ++ [OKind PAbsent]) ++ xs) by (rewrite <- app_assoc; reflexivity).
    unfold wrapP. rewrite E in SA. rewrite (pstate_app_pending O' cid k cr xs _ _ l1 (o :: l2) SA L).
    reflexivity.
  - intros xs L.
    replace (h ++ OKind PAbsent :: xs) with ((h ++ [OKind PAbsent]) ++ xs) by (rewrite <- app_assoc; reflexivity).
    apply (pstate_app_pending O' cid k cr xs _ _ (probe_ops cid k p) []); [rewrite app_nil_r; exact SA | exact L].
  - intros x A. unfold pstate in *. rewrite fold_left_app, S. cbn [fold_left]. unfold pfeed. cbn [fst snd].
    rewrite C, M, A. reflexivity.
Qed.

(* k = 1, spelled out: the four operations of the real probe, then the core again *)
Corollary real_probe_is_instance : forall O' cid cr h eh p r x1 x2 x3,
  pstate O' cid 1 cr h = (eh, []) -> cr eh = (Stat p r, true) -> mem p O' = true ->
  wrapP O' cid 1 cr h = Stat p r /\
  wrapP O' cid 1 cr (h ++ [OKind PAbsent]) = Stat p PAbsent /\
  wrapP O' cid 1 cr (h ++ [OKind PAbsent; x1]) = Create p true cid /\
  wrapP O' cid 1 cr (h ++ [OKind PAbsent; x1; x2]) = Unlink p /\
  wrapP O' cid 1 cr (h ++ [OKind PAbsent; x1; x2; x3]) = fst (cr (eh ++ [OKind PExists])) /\
  wrapP O' cid 1 cr (h ++ [OKind PFile]) = fst (cr (eh ++ [OKind PExists])).
Proof.
  intros O' cid cr h eh p r x1 x2 x3 S C M.
  destruct (wrapP_probe_shape O' cid 1 cr h eh p r S C M) as [A [B [D E]]].
  split; [exact A|].
  split; [exact (B [] (Stat p PAbsent) [Create p true cid; Unlink p] [] eq_refl eq_refl)|].
  split; [exact (B [Stat p PAbsent] (Create p true cid) [Unlink p] [x1] eq_refl eq_refl)|].
  split; [exact (B [Stat p PAbsent; Create p true cid] (Unlink p) [] [x1; x2] eq_refl eq_refl)|].
  split.
  - unfold wrapP. rewrite (D [x1; x2; x3] eq_refl). reflexivity.
  - unfold wrapP. rewrite (E (OKind PFile) eq_refl). reflexivity.
Qed.

(* ------------------------------------------------------------------ the theorem *)
(* f2 STALE: every path of O' is a file an earlier run left; f1 FRESH: every path of O' is
   absent.  Otherwise as in stale_independence_program_thm (kinds agree on the declared paths
   and their ancestors OUTSIDE O').  If the run of the probing program on the stale file
   system is accepted, then its run on the fresh one is accepted (within (3 + k) * fuel
   operations, k the number of further looks before the probe), the two traces are equal up to the Stat operations on O' and the probes, the
   runs make the same names in the scratch root, every declared output ends up the same (or
   untouched in each), and everything else outside the run's scratch names is untouched. *)
Theorem stale_independence_up_to_probes_thm : forall c O' cid k cr fuel f1 f2 g2 t2 h2,
  outside_scratch c = true -> mem (c_query c) (c_outputs c) = false ->
  incl O' (c_outputs c) ->
  (forall p, In p (c_inputs c) -> lookup f1 p = lookup f2 p) ->
  (c_obsm c = true -> lookup f1 (c_query c) = lookup f2 (c_query c)) ->
  (forall p, kregion c p = true -> ~ In p O' -> kind_of (lookup f1 p) = kind_of (lookup f2 p)) ->
  (forall p, In p O' -> lookup f1 p = None /\ kind_of (lookup f2 p) = PFile) ->
  paccept c (wrapP O' cid k cr) fuel f2 g2 t2 h2 ->
  (forall p, in_cone c (fresh_names c t2) p = true -> lookup f1 p = None /\ lookup f2 p = None) ->
  exists fuel1 g1 t1 h1,
    (fuel1 <= (3 + k) * fuel)%nat /\
    paccept c (wrapP O' cid k cr) fuel1 f1 g1 t1 h1 /\
    erase O' t1 = erase O' t2 /\
    fresh_names c t1 = fresh_names c t2 /\
    (forall o, In o (c_outputs c) ->
       lookup g1 o = lookup g2 o \/ (lookup g1 o = lookup f1 o /\ lookup g2 o = lookup f2 o)) /\
    (forall p, in_cone c (fresh_names c t2) p = false -> ~ In p (c_outputs c) -> wq c p = false ->
       lookup g1 p = lookup f1 p /\ lookup g2 p = lookup f2 p).
Proof.
  intros c O' cid k cr fuel f1 f2 g2 t2 h2 Hout Hq HO Hin Hqq Hk HOs [b2 [R2 D2]] Hcone.
  set (N := fresh_names c t2) in *.
  assert (HR : R c N O' f1 bk0 f2 bk0).
  { unfold R. split; [|split; [apply inv_bk0|split; [|split]]].
    - unfold brel. simpl. repeat split; auto using incl_refl.
    - intros p [Hp|[Hp|[Hp|Hp]]].
      + destruct (Hcone p Hp) as [A B]. congruence.
      + apply Hin. assumption.
      + apply wq_spec in Hp. destruct Hp as [Ho ->]. apply Hqq. assumption.
      + simpl in Hp. contradiction.
    - assumption.
    - intros p Hp. destruct (HOs p Hp) as [A B]. simpl. split; [auto|]. split; [|auto].
      apply is_file_kind. assumption. }
  destruct (prun_sim2 c N O' Hout Hq HO cid k cr fuel f1 bk0 [] f2 bk0 [] [] g2 b2 t2 h2 HR
              eq_refl eq_refl (incl_refl _) R2)
    as [m [g1 [b1 [t1 [h1 [Lm [R1 [HR' [Er [Fr [_ _]]]]]]]]]]].
  pose proof HR' as [[B1 [B2 [B3 [B4 [B5 [B6 B7]]]]]] [Hi2 [R3 [R4 R5]]]].
  pose proof (prun_exec _ _ _ _ _ _ _ _ _ _ R1) as E1. pose proof (prun_exec _ _ _ _ _ _ _ _ _ _ R2) as E2.
  assert (Hn1 : incl (fresh_names c t1) N) by (rewrite Fr; apply incl_refl).
  pose proof (exec_keeps_inv c N t1 f1 bk0 g1 b1 (inv_bk0 c N) Hn1 E1) as [_ [_ [I3a _]]].
  pose proof Hi2 as [I1b [_ [I3b _]]].
  exists m, g1, t1, h1. split; [assumption|]. split; [exists b1; split; [assumption | congruence]|].
  split; [assumption|]. split; [assumption|]. split.
  - intros o Ho.
    assert (C : in_cone c N o = false) by (apply in_cone_outside; apply outside_scratch_spec; auto).
    assert (Q : wq c o = false).
    { destruct (wq c o) eqn:W; [|reflexivity]. apply wq_spec in W. destruct W as [_ ->].
      apply mem_false in Hq. contradiction. }
    destruct (mem o (b_owned b2)) eqn:M.
    + left. apply R3. right. right. right. apply mem_In. assumption.
    + right. apply mem_false in M.
      assert (G2 : lookup g2 o = lookup f2 o).
      { exact (exec_frame c N t2 f2 bk0 g2 b2 o (inv_bk0 c N) (incl_refl _) E2 C M Q). }
      split; [|assumption].
      destruct (mem o O') eqn:MO.
      * apply mem_In in MO. destruct (R5 o MO) as [_ [_ [Cr|Ab]]].
        -- destruct (I1b o Cr) as [A|A]; [contradiction | congruence].
        -- destruct (HOs o MO) as [A _]. congruence.
      * apply mem_false in MO.
        assert (M1 : ~ In o (b_owned b1)) by (intro A; destruct (B7 o A); contradiction).
        exact (exec_frame c N t1 f1 bk0 g1 b1 o (inv_bk0 c N) Hn1 E1 C M1 Q).
  - intros p C Ho Q.
    assert (M1 : ~ In p (b_owned b1)) by (intro A; apply Ho; apply I3a; assumption).
    assert (M2 : ~ In p (b_owned b2)) by (intro A; apply Ho; apply I3b; assumption).
    split.
    + exact (exec_frame c N t1 f1 bk0 g1 b1 p (inv_bk0 c N) Hn1 E1 C M1 Q).
    + exact (exec_frame c N t2 f2 bk0 g2 b2 p (inv_bk0 c N) (incl_refl _) E2 C M2 Q).
Qed.

(* ------------------------------------------------------------------ checker for the Examples *)
Definition kagree_except_b (c : config) (O' : list path) (f1 f2 : fs) : bool :=
  forallb (fun d => forallb (fun p => mem p O' || probe_ok (kind_of (lookup f1 p)) (kind_of (lookup f2 p)))
                            (prefixes d))
          (c_scratch c :: declared c).

Lemma kagree_except_b_spec : forall c O' f1 f2, kagree_except_b c O' f1 f2 = true ->
  forall p, kregion c p = true -> ~ In p O' -> kind_of (lookup f1 p) = kind_of (lookup f2 p).
Proof.
  intros c O' f1 f2 H p K Hp. unfold kagree_except_b in H. rewrite forallb_forall in H.
  unfold kregion in K. apply existsb_exists in K. destruct K as [d [Hd Hpd]].
  specialize (H d Hd). rewrite forallb_forall in H. specialize (H p (prefixes_spec d p Hpd)).
  apply mem_false in Hp. rewrite Hp in H. simpl in H.
  destruct (lookup f1 p) as [[[|] ?]|]; destruct (lookup f2 p) as [[[|] ?]|]; simpl in *; congruence.
Qed.
