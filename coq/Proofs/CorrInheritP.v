(* The two trailing passes of run_type_assignment (Model/Election.v: inherit, running) keep every
   avg_correlation inside [-1,1]: a level without a correlation of its own copies the nearest one above, or
   gets 1.0 at the top; the running-product pass does not touch correlations. *)
From Coq Require Import List ZArith Bool Lia.
From CTM Require Import Base.Sx Model.Tree Model.Election Model.AvgCorr Proofs.AvgCorrP.
Import ListNotations.
Open Scope Z_scope.

(* a fraction in [-1,1] with a positive denominator *)
Definition corr_ok (c : frac) : Prop := 0 < snd c /\ - snd c <= fst c <= snd c.

Lemma corr_ok_one : corr_ok one.
Proof. unfold corr_ok, one; cbn. lia. Qed.

Lemma inherit_corr_P (P : frac -> Prop) : P one ->
  forall row above rs,
  (forall a, above = Some a -> P a) ->
  (forall r c, In (Some r) row -> corr r = Some c -> P c) ->
  inherit above row = Ok rs ->
  Forall (fun r => exists c, corr r = Some c /\ P c) rs.
Proof.
  intros Hone. induction row as [|o row IH]; intros above rs Hab Hrow Hin.
  - cbn [inherit] in Hin. injection Hin as <-. constructor.
  - destruct o as [r|]; cbn [inherit] in Hin; [|discriminate Hin].
    set (c := match corr r with Some c => c | None => match above with Some a => a | None => one end end) in Hin.
    assert (Pc : P c).
    { subst c. destruct (corr r) as [c0|] eqn:E.
      - apply (Hrow r c0); [now left | exact E].
      - destruct above as [a|]; [now apply Hab | exact Hone]. }
    destruct (inherit (Some c) row) as [t'| | |] eqn:Et; try discriminate Hin.
    injection Hin as <-. constructor.
    + exists c. split; [reflexivity | exact Pc].
    + apply (IH (Some c) t'); [intros a Ha; injection Ha as <-; exact Pc | | exact Et].
      intros r' c' Hr' Hc'. apply (Hrow r' c'); [now right | exact Hc'].
Qed.

Lemma running_corr acc rs : map corr (running acc rs) = map corr rs.
Proof. revert acc; induction rs as [|r rs IH]; intros acc; cbn [running map]; [reflexivity|]. now rewrite IH. Qed.

Lemma Forall_corr_map (Q : option frac -> Prop) (l1 l2 : list rec) :
  map corr l1 = map corr l2 -> Forall (fun r => Q (corr r)) l2 -> Forall (fun r => Q (corr r)) l1.
Proof.
  revert l2; induction l1 as [|a l1 IH]; intros l2 Hm Hf; [constructor|].
  destruct l2 as [|b l2]; [discriminate Hm|]. cbn [map] in Hm. injection Hm as Hab Hm.
  inversion Hf as [|b' l2' Hb Hf']; subst. constructor; [now rewrite Hab | now apply (IH l2)].
Qed.

(* after both passes every level of the row carries a correlation in [-1,1] *)
Lemma filled_corr_in_range row rs :
  (forall r c, In (Some r) row -> corr r = Some c -> corr_ok c) ->
  inherit None row = Ok rs ->
  Forall (fun r => exists c, corr r = Some c /\ corr_ok c) (running one rs).
Proof.
  intros Hrow Hin.
  apply (Forall_corr_map (fun o => exists c, o = Some c /\ corr_ok c) _ rs (running_corr one rs)).
  apply (inherit_corr_P corr_ok corr_ok_one row None rs); [discriminate | exact Hrow | exact Hin].
Qed.

(* what choose_node reports (Model/AvgCorr.v) is such a fraction *)
Lemma avg_corr_ok D owners its t :
  0 < D -> (forall it, In it its -> - D <= snd it <= D) ->
  corr_ok (avg_corr D owners (tally_corr (length owners) its) t).
Proof. intros HD Hb. exact (avg_corr_in_range D owners its t HD Hb). Qed.

(* inheritance copies: a level without its own correlation carries exactly the one of the level above it *)
Lemma inherit_copies above r row rs :
  corr r = None -> inherit above (Some r :: row) = Ok rs ->
  exists r' t', rs = r' :: t' /\ corr r' = Some (match above with Some a => a | None => one end).
Proof.
  intros Hn Hin. cbn [inherit] in Hin. rewrite Hn in Hin.
  destruct (inherit (Some match above with Some a => a | None => one end) row) as [t'| | |]; try discriminate Hin.
  injection Hin as <-. eexists; eexists; split; reflexivity.
Qed.

(* the tallied, aggregated vote array sums to the iteration count over the distinct reference types: every
   iteration casts exactly one vote, so the listed probabilities add up to exactly 1 when every type is listed *)
From CTM Require Import Model.Vote Proofs.VoteP.

Lemma in_range_Forall n its :
  iters_in_range n its = true -> Forall (fun w => (w < n)%nat) (map fst its).
Proof.
  unfold iters_in_range. induction its as [|it its IH]; intros H; cbn [map]; [constructor|].
  cbn [forallb] in H. apply andb_prop in H. destruct H as [H1 H2].
  constructor; [now apply Nat.ltb_lt | now apply IH].
Qed.

Lemma tallied_votes_total owners its :
  iters_in_range (length owners) its = true ->
  fold_right Z.add 0 (map (fun t => sum_where owners (fst (tally_corr (length owners) its)) t) (zdistinct owners))
  = Z.of_nat (length its).
Proof.
  intros Hr.
  assert (Ht := votes_total owners (map fst its) (in_range_Forall _ _ Hr)).
  rewrite map_length in Ht.
  transitivity (Z.of_nat (nsum (map (votes_for owners (map fst its)) (zdistinct owners)))); [|now rewrite Ht].
  clear Ht.
  induction (zdistinct owners) as [|t ts IH]; [reflexivity|].
  cbn [map fold_right]. rewrite IH. rewrite (tally_refines_votes_for owners its t Hr).
  unfold nsum. cbn [map fold_right]. lia.
Qed.
