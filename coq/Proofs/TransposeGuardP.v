(* Lemmas about Model/Transpose.v, part 6 (audit repairs):
   - the statements of part 2/3 under the guards the real function needs (a slice with
     lo <= hi, a well-formed pointer array, minor indices below the number of output rows);
   - the slices _transpose_sparse_matrix_on_disk_v2 hands to its workers are well formed
     and tile [0, indices_max);
   - the parallel version's direct value clause. *)
From Coq Require Import List Arith ZArith Lia Bool.
From CTM Require Import Base.Sx Base.ListX Model.Sparse Model.Transpose
  Proofs.SparseP Proofs.TransposeP Proofs.TransposeFillP Proofs.TransposeSpecP
  Proofs.TransposeParP Proofs.SparseCscP.
Import ListNotations.

(* audit 3, item 11: the value array of the result is what the model says only when no
   (row, column) pair is stored twice.  The real function orders the entries of an output
   row with np.argsort(this_index) (csc_to_csr.py:229, 272), which is not stable above 16
   elements: exact duplicates keep their indices (equal) but their VALUES come out in an
   order that depends on the chunking, hence on the worker count.  The model's sort is
   stable.  data_ok is the guard the value-carrying statements take; without a value array
   nothing depends on it. *)
Definition data_ok (m : comp) (ud : bool) : Prop := ud = true -> no_dup_minor m.

(* a slice handed to transpose_sparse_matrix_on_disk: lo <= hi (np.zeros(hi - lo)) *)
Definition slice_ok (sl : option (nat * nat)) : Prop :=
  forall s, sl = Some s -> fst s <= snd s.

(* the pointer array alone: starts at 0, monotone, ends at the number of stored entries *)
Definition wf_ptr (m : comp) : Prop :=
  hd 1 (ptr m) = 0 /\ mono (ptr m) /\ last (ptr m) 0 = length (idx m).

Lemma wf_comp_ptr m n : wf_comp m n -> wf_ptr m.
Proof. intros (H0 & HL & HM & _). repeat split; assumption. Qed.

(* ---------------------------------------------------------------- count pass *)
Theorem calc_indptr_guarded es n sl Lc :
  1 <= Lc -> Forall (fun e => e_minor e < n) (apply_slice sl es) ->
  calc_indptr es n sl Lc =
  (0 :: cumsum_from 0 (map (fun r => length (out_row (apply_slice sl es) r)) (seq 0 n)),
   length (apply_slice sl es)) /\
  last (fst (calc_indptr es n sl Lc)) 0 = snd (calc_indptr es n sl Lc).
Proof.
  intros HL HF. rewrite (calc_indptr_spec es n sl Lc HL). split; [reflexivity|].
  cbn [fst snd]. fold (cnts (apply_slice sl es) n). rewrite cumsum_last.
  change (0 + sum_list (cnts (apply_slice sl es) n)) with (off (apply_slice sl es) n).
  apply off_total. exact HF.
Qed.

(* ---------------------------------------------------------------- serial function *)
Theorem transpose_full_guarded m nmaj ud imax sl E L Lc :
  wf_comp m imax -> length (ptr m) = S nmaj ->
  (ud = true -> length (dat m) = length (idx m)) ->
  data_ok m ud ->
  slice_ok sl ->
  1 <= L -> 1 <= Lc ->
  exists t, transpose m ud imax sl E L Lc = Ok t /\
    let out := t_out t in
    let n_out := n_out_of imax sl in
    out = transpose_spec m ud imax sl /\
    chained 0 (t_blocks t) n_out /\
    hd 1 (ptr out) = 0 /\ mono (ptr out) /\ length (ptr out) = S n_out /\
    last (ptr out) 0 = length (idx out) /\
    length (idx out) = length (apply_slice sl (all_entries m ud)) /\
    (forall r, r < n_out ->
       let seg := slice (idx out) (nth r (ptr out) 0) (nth (S r) (ptr out) 0) in
       mono seg /\ (no_dup_minor m -> strictly_increasing seg = true)) /\
    (ud = true ->
       length (dat out) = length (idx out) /\
       (forall r j, r < n_out -> j < nmaj -> cell out r j = cell m j (slice_lo sl + r)) /\
       dense_of out n_out nmaj =
       map (fun r => map (fun j => cell m j (slice_lo sl + r)) (seq 0 nmaj)) (seq 0 n_out)).
Proof. intros W HP HD _ _ HL HLc. exact (transpose_full m nmaj ud imax sl E L Lc W HP HD HL HLc). Qed.

Theorem transpose_exact_guarded m ud imax sl E L Lc :
  wf_ptr m -> data_ok m ud -> slice_ok sl ->
  1 <= L -> 1 <= Lc ->
  (ud = true -> length (dat m) = length (idx m)) ->
  (sl = None -> Forall (fun r => r < imax) (idx m)) ->
  exists t, transpose m ud imax sl E L Lc = Ok t /\
            t_out t = transpose_spec m ud imax sl /\
            chained 0 (t_blocks t) (n_out_of imax sl).
Proof. intros _ _ _. exact (transpose_exact m ud imax sl E L Lc). Qed.

Theorem transpose_empty_slice_guarded m ud imax sl E L Lc :
  slice_ok sl ->
  1 <= L -> 1 <= Lc -> (ud = true -> length (dat m) = length (idx m)) ->
  (sl = None -> Forall (fun r => r < imax) (idx m)) ->
  length (apply_slice sl (all_entries m ud)) = 0 ->
  exists t, transpose m ud imax sl E L Lc = Ok t /\
            t_out t = {| ptr := repeat 0 (S (n_out_of imax sl)); idx := []; dat := [] |} /\
            chained 0 (t_blocks t) (n_out_of imax sl).
Proof. intros _. exact (transpose_empty_slice m ud imax sl E L Lc). Qed.

(* ---------------------------------------------------------------- the slices of the parallel version *)
(* what _transpose_sparse_matrix_on_disk_v2 does, with its list of slices made explicit *)
Definition v2_slices (imax np : nat) : list (nat * nat) :=
  range_chunks imax (Nat.max 1 ((imax + np - 1) / np)).

Lemma chained_nonempty a l n : chained a l n -> Forall (fun ch => fst ch < snd ch) l.
Proof.
  revert a. induction l as [|ch t IH]; intros a H; [constructor|].
  cbn [chained] in H. destruct H as (_ & H2 & H3). constructor; [exact H2 | exact (IH _ H3)].
Qed.

Lemma Forall_and_ {A} (P Q : A -> Prop) l : Forall P l -> Forall Q l -> Forall (fun x => P x /\ Q x) l.
Proof. induction 1 as [|x t Hx _ IH]; intros HQ; [constructor|]. inversion HQ; subst. constructor; [tauto | apply IH; assumption]. Qed.

(* the number of ranges of size c >= 1 covering [a, n) is at most ceil((n - a) / c) *)
Lemma range_chunks_from_count c : 1 <= c -> forall fuel a n k,
  n - a <= k * c -> length (range_chunks_from fuel a n c) <= k.
Proof.
  intros Hc. induction fuel as [|f IH]; intros a n k Hk; [cbn; lia|].
  cbn [range_chunks_from]. destruct (n <=? a) eqn:E; [cbn; lia|]. apply Nat.leb_gt in E.
  destruct k as [|k]; [cbn in Hk; lia|]. cbn [length]. apply le_n_S. apply IH. cbn in Hk. lia.
Qed.

Theorem v2_slices_ok m ud imax np E L Lc :
  1 <= np ->
  let sls := v2_slices imax np in
  (* they tile [0, indices_max): first starts at 0, each starts where the previous one
     ended, none is empty, the last ends at indices_max *)
  chained 0 sls imax /\
  (* each is a slice the serial function accepts: lo < hi <= indices_max *)
  Forall (fun s => fst s < snd s /\ snd s <= imax /\ slice_ok (Some s)) sls /\
  (* at most one per worker *)
  length sls <= np /\
  (* and these are the slices the workers get *)
  transpose_v2 m ud imax np E L Lc =
  bind (res_map (fun s => match transpose m ud imax (Some s) E L Lc with
                          | Ok t => Ok (t_out t)
                          | Err _ => Err EWorker
                          end) sls) (fun pieces =>
  let indices_size := sum_list (map (fun p => length (idx p)) pieces) in
  let r := merge_from 0 pieces in
  Ok {| ptr := fst r ++ [indices_size]; idx := fst (snd r); dat := snd (snd r) |}).
Proof.
  intros Hnp. cbn zeta. unfold v2_slices.
  set (chunk := Nat.max 1 ((imax + np - 1) / np)).
  assert (Hc : 1 <= chunk) by apply Nat.le_max_l.
  assert (CH : chained 0 (range_chunks imax chunk) imax).
  { unfold range_chunks. apply (range_chunks_from_chained imax 0 imax chunk); lia. }
  split; [exact CH|]. split; [|split].
  - destruct (chained_bounds _ _ _ CH) as [_ HB]. pose proof (chained_nonempty _ _ _ CH) as HN.
    pose proof (Forall_and_ _ _ _ HN HB) as HA. eapply Forall_impl; [|exact HA].
    cbn beta. intros s (H1 & _ & H3). split; [exact H1|]. split; [exact H3|].
    intros s' Hs'. inversion Hs'; subst s'. lia.
  - unfold range_chunks. apply range_chunks_from_count; [exact Hc|].
    rewrite Nat.sub_0_r.
    assert (Hq : imax <= np * ((imax + np - 1) / np)).
    { pose proof (Nat.div_mod (imax + np - 1) np ltac:(lia)) as DM.
      pose proof (Nat.mod_upper_bound (imax + np - 1) np ltac:(lia)) as MB. lia. }
    assert (Hm : (imax + np - 1) / np <= chunk) by apply Nat.le_max_r.
    nia.
  - unfold transpose_v2. replace (np =? 0) with false by (symmetry; apply Nat.eqb_neq; lia).
    reflexivity.
Qed.

(* ---------------------------------------------------------------- parallel version: value clause *)
Theorem transpose_v2_guarded m ud imax np E L Lc :
  wf_ptr m -> data_ok m ud ->
  1 <= np -> 1 <= L -> 1 <= Lc -> (ud = true -> length (dat m) = length (idx m)) ->
  Forall (fun r => r < imax) (idx m) ->
  transpose_v2 m ud imax np E L Lc = Ok (transpose_spec m ud imax None).
Proof. intros _ _. exact (transpose_v2_exact m ud imax np E L Lc). Qed.

(* under wf_comp the parallel result is a well-formed compressed matrix whose dense view
   is the transpose of the dense view of the input, whatever the worker count and budgets *)
Theorem transpose_v2_full m nmaj ud imax np E L Lc :
  wf_comp m imax -> length (ptr m) = S nmaj ->
  (ud = true -> length (dat m) = length (idx m)) ->
  data_ok m ud ->
  1 <= np -> 1 <= L -> 1 <= Lc ->
  exists out, transpose_v2 m ud imax np E L Lc = Ok out /\
    (exists t, transpose m ud imax None E L Lc = Ok t /\ t_out t = out) /\
    hd 1 (ptr out) = 0 /\ mono (ptr out) /\ length (ptr out) = S imax /\
    last (ptr out) 0 = length (idx out) /\
    length (idx out) = length (idx m) /\
    Forall (fun c => c < nmaj) (idx out) /\
    (forall r, r < imax ->
       let seg := slice (idx out) (nth r (ptr out) 0) (nth (S r) (ptr out) 0) in
       mono seg /\ (no_dup_minor m -> strictly_increasing seg = true)) /\
    (ud = true ->
       length (dat out) = length (idx out) /\
       (forall r j, r < imax -> j < nmaj -> cell out r j = cell m j r) /\
       dense_of out imax nmaj =
       map (fun r => map (fun j => cell m j r) (seq 0 nmaj)) (seq 0 imax)).
Proof.
  intros W HP HD _ Hnp HL HLc. pose proof W as (_ & _ & _ & HF).
  destruct (transpose_full m nmaj ud imax None E L Lc W HP HD HL HLc) as (t & EQ & Ht).
  cbn zeta in Ht. cbn [n_out_of slice_lo Nat.add apply_slice] in Ht.
  destruct Ht as (EO & _ & P0 & PM & PL & PLast & PN & PS & PD).
  exists (t_out t).
  split; [rewrite EO; apply transpose_v2_exact; assumption|].
  split; [exists t; split; [exact EQ | reflexivity]|].
  split; [exact P0|]. split; [exact PM|]. split; [exact PL|]. split; [exact PLast|].
  split; [rewrite PN; apply all_entries_length|].
  split; [rewrite EO; apply (spec_idx_bound m imax nmaj); assumption|].
  split; [exact PS | exact PD].
Qed.
