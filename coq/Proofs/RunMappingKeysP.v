(* C17: the key convention of the marker table (Model/RunMappingKeys.v) and the fact behind
   "marker groups of removed parents are never consulted": the markers used for a parent of
   the tree handed to the marker reconciliation depend on the table only through its entries
   at the parents of THAT tree. *)
From Coq Require Import ZArith List Bool Lia Arith.
From CTM Require Import Base.Sx Base.ListX Base.SortX Model.Tree Model.Election Model.RunMapping Model.RunMappingKeys.
From CTM Require Import Model.Markers Proofs.MarkersP.
From CTM Require Import Proofs.TreeValidateP Proofs.TreeDropP Proofs.ElectionP Proofs.RunMappingP Proofs.RunMappingStrictP.
Import ListNotations.
Open Scope Z_scope.

(* ------------------------------------------------------------------ index_of / rekey_key *)
Lemma index_of_some s m j : index_of s m = Some j -> nth_error m j = Some s /\ (j < length m)%nat.
Proof.
  revert j. induction m as [|h r IH]; intros j; cbn; [discriminate|].
  destruct (Nat.eqb s h) eqn:E.
  - intros H. inversion H; subst j. apply Nat.eqb_eq in E. subst h. cbn. split; [reflexivity | lia].
  - destruct (index_of s r) as [i|]; [|discriminate]. cbn. intros H. inversion H; subst j.
    destruct (IH i eq_refl) as [A B]. cbn. split; [exact A | lia].
Qed.

Lemma index_of_none s m : index_of s m = None -> ~ In s m.
Proof.
  induction m as [|h r IH]; cbn; [tauto|].
  destruct (Nat.eqb s h) eqn:E; [discriminate|]. apply Nat.eqb_neq in E.
  destruct (index_of s r); [discriminate|]. intros _ [H|H]; [congruence | apply IH; [reflexivity | exact H]].
Qed.

Lemma index_of_in s m : In s m -> exists j, index_of s m = Some j.
Proof.
  intros H. destruct (index_of s m) as [j|] eqn:E; [eauto|]. exfalso. exact (index_of_none s m E H).
Qed.

Lemma index_of_nth m j d : NoDup m -> (j < length m)%nat -> index_of (nth j m d) m = Some j.
Proof.
  intros N. revert j. induction N as [|h r Hh N IH]; intros j Hj; cbn in Hj; [lia|].
  destruct j as [|j]; cbn [nth index_of]; [rewrite Nat.eqb_refl; reflexivity|].
  replace (Nat.eqb (nth j r d) h) with false.
  - rewrite IH by lia. reflexivity.
  - symmetry. apply Nat.eqb_neq. intros E. apply Hh. rewrite <- E. apply nth_In. lia.
Qed.

Lemma rekey_key_inj m k1 k2 : rekey_key m k1 = rekey_key m k2 -> k1 = k2.
Proof.
  destruct k1 as [[s1 x1]|], k2 as [[s2 x2]|]; cbn; try reflexivity.
  - destruct (index_of s1 m) as [j1|] eqn:E1, (index_of s2 m) as [j2|] eqn:E2; intros H; inversion H; subst.
    + apply index_of_some in E1, E2. destruct E1 as [A1 _], E2 as [A2 _]. congruence.
    + apply index_of_some in E1. lia.
    + apply index_of_some in E2. lia.
    + assert (s1 = s2) by lia. congruence.
  - destruct (index_of s1 m); discriminate.
  - destruct (index_of s2 m); discriminate.
Qed.

Lemma pkey_eqb_rekey m k k' : pkey_eqb (rekey_key m k) (rekey_key m k') = pkey_eqb k k'.
Proof.
  destruct (pkey_eqb k k') eqn:E.
  - apply pkey_eqb_eq in E. subst k'. apply pkey_eqb_refl.
  - apply pkey_eqb_neq. apply pkey_eqb_neq in E. intros H. apply E. eapply rekey_key_inj. exact H.
Qed.

(* the translated table holds under the translated key what the stored table holds under the key *)
Lemma tget_rekey m tb k : tget (rekey_key m k) (rekey m tb) = tget k tb.
Proof.
  induction tb as [|[k' v] r IH]; cbn; [reflexivity|].
  rewrite pkey_eqb_rekey. destruct (pkey_eqb k k'); [reflexivity | exact IH].
Qed.

Lemma rekey_root m tb : tget None (rekey m tb) = tget None tb.
Proof. exact (tget_rekey m tb None). Qed.

(* level j of the reduced tree is looked up under its stored name m[j] *)
Lemma rekey_lookup m tb j x : NoDup m -> (j < length m)%nat ->
  tget (Some (j, x)) (rekey m tb) = tget (Some (nth j m 0%nat, x)) tb.
Proof.
  intros N Hj. rewrite <- (tget_rekey m tb (Some (nth j m 0%nat, x))). cbn [rekey_key].
  rewrite index_of_nth by assumption. reflexivity.
Qed.

Lemma rekey_snd m tb : map snd (rekey m tb) = map snd tb.
Proof. unfold rekey. rewrite map_map. reflexivity. Qed.

Lemma flatten_table_rekey m tb : flatten_table (rekey m tb) = flatten_table tb.
Proof. unfold flatten_table. rewrite rekey_snd. reflexivity. Qed.

(* ------------------------------------------------------------------ the parents of a tree *)
Lemma apf_char li t k x :
  In (k, x) (all_parents_from li t) <->
  (li <= k)%nat /\ (S (k - li) < length t)%nat /\ In x (nodes (nth (k - li) t [])).
Proof.
  revert li. induction t as [|lv rest IH]; intros li; [cbn; split; [tauto | intros (_ & H & _); lia]|].
  destruct rest as [|lv2 rest2].
  - cbn. split; [tauto | intros (_ & H & _); lia].
  - change (all_parents_from li (lv :: lv2 :: rest2))
      with (map (fun y => (li, y)) (nodes lv) ++ all_parents_from (S li) (lv2 :: rest2)).
    rewrite in_app_iff, in_map_iff, (IH (S li)). split.
    + intros [(y & E & Hy) | (A & B & C)].
      * inversion E; subst. rewrite Nat.sub_diag. cbn. repeat split; [lia | lia | exact Hy].
      * replace (k - li)%nat with (S (k - S li)) by lia. cbn [nth length] in *. repeat split; [lia | lia | exact C].
    + intros (A & B & C). destruct (Nat.eq_dec k li) as [->|Hne].
      * left. rewrite Nat.sub_diag in C. cbn in C. exists x. split; [reflexivity | exact C].
      * right. replace (k - li)%nat with (S (k - S li)) in B, C by lia. cbn [nth length] in *.
        repeat split; [lia | lia | exact C].
Qed.

Lemma apf0_char t k x :
  In (k, x) (all_parents_from 0 t) <-> (S k < length t)%nat /\ In x (nodes (nth k t [])).
Proof. rewrite apf_char, Nat.sub_0_r. split; [tauto | intros [A B]; repeat split; [lia | exact A | exact B]]. Qed.

Lemma ancestors_nodes t li x k a : In (k, a) (ancestors t li x) -> In a (nodes (nth k t [])).
Proof.
  revert x. induction li as [|n IH]; intros x; cbn; [tauto|].
  destruct (parent_of (nth n t []) x) as [p|] eqn:P; [|intros []].
  intros [H|H]; [|exact (IH p H)]. inversion H; subst n p.
  unfold parent_of in P.
  destruct (find (fun pc => zmem x (snd pc)) (rev (nth k t []))) as [pc|] eqn:F; [|discriminate].
  cbn in P. inversion P; subst a. apply find_some in F. destruct F as [F _].
  apply in_rev in F. unfold nodes. apply in_map. exact F.
Qed.

(* the ancestors of a parent of the tree are parents of the tree *)
Lemma ancestors_are_parents t li x a :
  In (Some (li, x)) (all_parents t) -> In a (ancestors t li x) -> In (Some a) (all_parents t).
Proof.
  intros Hp Ha. apply in_all_parents in Hp. destruct Hp as [Hp | (li' & x' & E & Hin)]; [discriminate|].
  inversion E; subst li' x'. apply apf0_char in Hin. destruct Hin as [Hl _].
  destruct a as [k q]. pose proof (ancestors_above _ _ _ _ _ Ha) as Hk. pose proof (ancestors_nodes _ _ _ _ _ Ha) as Hq.
  apply in_all_parents. right. exists k, q. split; [reflexivity|]. apply apf0_char. split; [lia | exact Hq].
Qed.

(* a key at a level index >= the number of levels is no parent of the tree *)
Lemma high_key_not_parent t k x : (length t <= k)%nat -> ~ In (Some (k, x)) (all_parents t).
Proof.
  intros Hk Hin. apply in_all_parents in Hin. destruct Hin as [Hin | (li & y & E & Hin)]; [discriminate|].
  inversion E; subst li y. apply apf0_char in Hin. lia.
Qed.

(* ------------------------------------------------------------------ entries elsewhere are not consulted *)
(* spec_markers (the declarative statement of what validate_marker_lookup leaves for a parent)
   reads the table at parents of the tree only *)
Lemma spec_markers_agree u tb1 tb2 q minm p :
  (forall k, In k (all_parents u) -> tget k tb1 = tget k tb2) ->
  In p (all_parents u) ->
  spec_markers tb1 q minm u p = spec_markers tb2 q minm u p.
Proof.
  intros Hag Hp. apply spec_markers_ext.
  - apply Hag. exact Hp.
  - intros li x a -> Ha. apply Hag. eapply ancestors_are_parents; eassumption.
  - intros _. apply Hag. apply in_all_parents. left. reflexivity.
Qed.

Lemma used_of_group c refg qg p ri qi names :
  tget p (c_groups c) = Some (ri, qi) -> names_at refg ri = Some names -> names_at qg qi = Some names ->
  used c refg qg p = Some (names, names).
Proof. intros G A B. unfold used. rewrite G, A, B. reflexivity. Qed.

(* Two marker tables that agree at the parents of the tree u (they may differ in any entry
   under a key that is no parent of u - the entries of removed parents) give every parent of
   u with >= 2 children the same markers: what assemble_query_data takes from either cache is
   a duplicate-free list of the same genes (as query columns and as reference columns). *)
Theorem entries_elsewhere_not_consulted u tb1 tb2 refg qg minm c1 c2 p :
  dict_ok u ->
  (forall k, In k (all_parents u) -> tget k tb1 = tget k tb2) ->
  create_cache tb1 refg qg (Some u) minm = MOk c1 ->
  create_cache tb2 refg qg (Some u) minm = MOk c2 ->
  In p (all_parents u) -> (2 <= length (children u p))%nat ->
  exists names1 names2,
    used c1 refg qg p = Some (names1, names1) /\
    used c2 refg qg p = Some (names2, names2) /\
    NoDup names1 /\ NoDup names2 /\
    (forall g, In g names1 <-> In g names2) /\
    (forall g, In g names1 <-> In g (spec_markers tb1 qg minm u p)).
Proof.
  intros Hd Hag C1 C2 Hp Hch.
  destruct (used_equals_spec u tb1 refg qg minm c1 p Hd C1 Hp Hch) as (ri1 & qi1 & n1 & G1 & A1 & B1 & N1 & _ & S1).
  destruct (used_equals_spec u tb2 refg qg minm c2 p Hd C2 Hp Hch) as (ri2 & qi2 & n2 & G2 & A2 & B2 & N2 & _ & S2).
  exists n1, n2. repeat split; try assumption; try (eapply used_of_group; eassumption).
  - intros H. apply S2. rewrite <- (spec_markers_agree u tb1 tb2 qg minm p Hag Hp). apply S1. exact H.
  - intros H. apply S1. rewrite (spec_markers_agree u tb1 tb2 qg minm p Hag Hp). apply S2. exact H.
  - apply S1.
  - apply S1.
Qed.

(* ------------------------------------------------------------------ the translated table *)
Lemma tget_filter_key (f : pkey * list gene -> bool) tb k :
  (forall v, f (k, v) = true) -> tget k (filter f tb) = tget k tb.
Proof.
  intros Hf. induction tb as [|[k' v] r IH]; cbn; [reflexivity|].
  destruct (f (k', v)) eqn:E; cbn.
  - destruct (pkey_eqb k k'); [reflexivity | exact IH].
  - destruct (pkey_eqb k k') eqn:Ek; [|exact IH].
    apply pkey_eqb_eq in Ek. subst k'. rewrite Hf in E. discriminate.
Qed.

(* deleting from the stored table every entry of a level that does not survive changes no
   entry that the reduced tree can look up: the root entry and the entries of levels j < length m *)
Lemma rekey_surviving_agree m tb k : NoDup m ->
  (k = None \/ exists j x, k = Some (j, x) /\ (j < length m)%nat) ->
  tget k (rekey m tb) = tget k (rekey m (filter (surviving m) tb)).
Proof.
  intros N [->|(j & x & -> & Hj)].
  - rewrite !rekey_root. symmetry. apply tget_filter_key. reflexivity.
  - rewrite !rekey_lookup by assumption. symmetry. apply tget_filter_key.
    intros v. unfold surviving. cbn. apply nat_mem_in. apply nth_In. exact Hj.
Qed.

Lemma parent_key_low t k : In k (all_parents t) ->
  k = None \/ exists j x, k = Some (j, x) /\ (j < length t)%nat.
Proof.
  intros H. apply in_all_parents in H. destruct H as [->|(li & x & -> & Hin)]; [left; reflexivity|].
  right. exists li, x. split; [reflexivity|]. apply apf0_char in Hin. lia.
Qed.

(* an entry of a removed level lands on a key that is no parent of the reduced tree *)
Lemma removed_key_not_parent t' m s x : length t' = length m -> ~ In s m ->
  ~ In (rekey_key m (Some (s, x))) (all_parents t').
Proof.
  intros L Hs. cbn. destruct (index_of s m) as [j|] eqn:E.
  - apply index_of_some in E. destruct E as [E _]. apply nth_error_In in E. contradiction.
  - apply high_key_not_parent. lia.
Qed.

(* the level map of an accepted reduction: one stored name per reduced level, no name twice *)
Lemma reduce_map_ok t c t' m : validate t = true -> wf t -> reduce t c = TOk (t', m) ->
  length m = length t' /\ NoDup m.
Proof.
  intros V W H. destruct (reduce_cases t c t' m V W H) as [[-> ->] | [(li & Hli & -> & ->) | [-> ->]]].
  - split; [apply seq_length | apply seq_NoDup].
  - split.
    + rewrite remove_nth_length by (rewrite seq_length; lia). rewrite seq_length, raw_drop_length by lia. reflexivity.
    + apply remove_nth_nodup. apply seq_NoDup.
  - split; [reflexivity | repeat constructor; intros []].
Qed.

(* The key convention, for every accepted reduction without flattening: with the table of the
   file (keyed by the names of the stored tree) translated by rekey,
   (a) the parent (j, x) of the reduced tree finds the entry stored under (m[j], x) - its own
       name - and the root entry is the root entry;
   (b) the entries of the levels that did not survive sit under keys that are no parents of the
       reduced tree;
   (c) deleting them from the file changes no entry at a parent of the reduced tree
   - hence, by entries_elsewhere_not_consulted, not the markers used for any parent. *)
Theorem rekey_convention t c t' m tb : validate t = true -> wf t -> reduce t c = TOk (t', m) ->
  (forall j x, In (Some (j, x)) (all_parents t') ->
     tget (Some (j, x)) (rekey m tb) = tget (Some (nth j m 0%nat, x)) tb) /\
  tget None (rekey m tb) = tget None tb /\
  (forall s x, ~ In s m -> ~ In (rekey_key m (Some (s, x))) (all_parents t')) /\
  (forall k, In k (all_parents t') -> tget k (rekey m tb) = tget k (rekey m (filter (surviving m) tb))).
Proof.
  intros V W H. destruct (reduce_map_ok t c t' m V W H) as [L N]. repeat split.
  - intros j x Hin. apply rekey_lookup; [exact N|].
    destruct (parent_key_low t' _ Hin) as [E|(j' & x' & E & Hj)]; [discriminate|]. inversion E; subst. lia.
  - apply rekey_root.
  - intros s x Hs. apply removed_key_not_parent; [symmetry; exact L | exact Hs].
  - intros k Hin. apply rekey_surviving_agree; [exact N|]. rewrite L. apply parent_key_low. exact Hin.
Qed.

(* ------------------------------------------------------------------ the runs with a table keyed by stored names *)
Section Named.
Variable cell rng : Type.
Variable cache_ok : tree -> Markers.table -> bool.
Variable mk_decide : tree -> Markers.table ->
                     rng -> option (nat * node) -> list node -> list cell -> list rec * rng.
Hypothesis decide_kids : forall t1 tb1 g p kids cs, (2 <= length kids)%nat ->
  Forall (fun r => In (asg r) kids) (fst (mk_decide t1 tb1 g p kids cs)).
Notation run := (run_mapping_model cell rng cache_ok mk_decide).
Notation runN := (run_mapping_named cell rng cache_ok mk_decide).

(* the dropping run on the file's table versus the run on the reduced reference, whose own file
   holds the same entries under the names of ITS tree (= rekey m of the stored file) *)
Theorem drop_equals_reduced_named t li t' tb cells g :
  tree_ok t -> validate t = true ->
  drop_level t li = TOk t' ->
  match run t' cfg_none (rekey (remove_nth li (seq 0 (length t))) tb) cells g with
  | TErr e => runN t (cfg_dropping li) tb cells g = TErr e
  | TOk (rowsB, g') =>
      exists rowsA, runN t (cfg_dropping li) tb cells g = TOk (rowsA, g') /\
                    Forall2 (drop_rel t li) rowsA rowsB
  end.
Proof.
  intros Ht V Hd. unfold run_mapping_named. rewrite (reduce_dropping t li t' Hd).
  exact (drop_equals_reduced_strict cell rng cache_ok mk_decide decide_kids t li t'
           (rekey (remove_nth li (seq 0 (length t))) tb) cells g Ht V Hd).
Qed.

(* with flatten the keys do not matter at all: the flattened table has the root key only *)
Theorem flatten_named_is_model t tb cells g : validate t = true ->
  runN t cfg_flat tb cells g = run t cfg_flat tb cells g.
Proof.
  intros V. unfold run_mapping_named. rewrite (reduce_flat t V).
  unfold run_mapping_model. rewrite (reduce_flat t V). cbn [cfg_flat cfg_flatten].
  rewrite flatten_table_rekey. reflexivity.
Qed.
End Named.
