(* merge_precompute_files (Model/Stats.v:merge_precompute), further properties:
   idempotence (a file merged with itself, or with a copy of itself under another path, is
   unchanged), independence of the order of the input list, and - when no row count is tied
   between different rows - independence of the file names (the visiting order). *)
From Coq Require Import ZArith List Bool Arith Lia Permutation Sorted.
From CTM Require Import Base.Sx Base.ListX Base.SortX Model.Tree Model.Stats Proofs.TreeP Proofs.StatsP.
Import ListNotations.
Open Scope Z_scope.

(* ------------------------------------------------------------------ *)
(* 1. idempotence                                                       *)
Definition has_all_rows (f : pfile) : Prop :=
  forall leaf, In leaf (nodes (leaf_level (p_tree f))) -> exists r, dict_get leaf (p_c2r f) = Some r.

Lemma census_ok_same f g : p_tree g = p_tree f -> p_c2r g = p_c2r f -> has_all_rows f -> census_ok f g = Ok tt.
Proof.
  intros Et Ec Hr. unfold census_ok. rewrite Et, Ec, is_equal_to_refl. cbn [negb].
  replace (forallb _ _) with true; [reflexivity|]. symmetry. apply forallb_forall.
  intros leaf Hl. destruct (Hr leaf Hl) as (r & E). rewrite E. reflexivity.
Qed.

Lemma psort_repeat f : forall n, psort (repeat f n) = repeat f n.
Proof.
  induction n as [|n IH]; [reflexivity|]. cbn [repeat psort fold_right].
  change (fold_right pinsert [] (repeat f n)) with (psort (repeat f n)). rewrite IH.
  destruct n as [|n]; [reflexivity|]. cbn [repeat pinsert]. rewrite Z.leb_refl. reflexivity.
Qed.

Lemma census_repeat f : census_ok f f = Ok tt -> forall n, census f (repeat f n) = Ok tt.
Proof. intros H. induction n as [|n IH]; [reflexivity|]. cbn [repeat census]. rewrite H. cbn [bind]. exact IH. Qed.

Lemma pick_most_repeat f : forall n, pick_most (repeat f n) (Some f) = Some f.
Proof. induction n as [|n IH]; [reflexivity|]. cbn [repeat pick_most]. rewrite Z.ltb_irrefl. exact IH. Qed.

Lemma merge_loop_repeat f dst : forall n, merge_loop f (repeat f n) dst = Ok dst.
Proof. induction n as [|n IH]; [reflexivity|]. cbn [repeat merge_loop]. rewrite Z.eqb_refl. exact IH. Qed.

Lemma replace_rows_self : forall t, replace_rows t t = t.
Proof. induction t as [|d t IH]; [reflexivity|]. cbn. rewrite Z.ltb_irrefl, IH. reflexivity. Qed.

Lemma c2r_eqb_refl a : c2r_eqb a a = true.
Proof.
  unfold c2r_eqb. destruct (list_eq_dec Z.eq_dec (map fst a) (map fst a)); [|congruence].
  destruct (list_eq_dec Nat.eq_dec (map snd a) (map snd a)); [reflexivity | congruence].
Qed.
Lemma cols_eqb_refl a : cols_eqb a a = true.
Proof. unfold cols_eqb. destruct (list_eq_dec Z.eq_dec a a); [reflexivity | congruence]. Qed.

(* merging n >= 1 mentions of one file: that file, unchanged;
   merging a file with a copy of it stored under another path: the table is unchanged *)
Theorem merge_idempotent : forall f, has_all_rows f ->
  (forall n, merge_precompute (repeat f (S n)) = Ok (f, p_tab f)) /\
  (forall f', p_path f' <> p_path f -> p_tree f' = p_tree f -> p_c2r f' = p_c2r f ->
              p_cols f' = p_cols f -> p_tab f' = p_tab f ->
     exists most, (most = f \/ most = f') /\
       merge_precompute [f; f'] = Ok (most, p_tab f) /\ merge_precompute [f'; f] = Ok (most, p_tab f)).
Proof.
  intros f Hr. pose proof (census_ok_same f f eq_refl eq_refl Hr) as Cf. split.
  - intros n. unfold merge_precompute. cbv zeta. rewrite psort_repeat. cbn [repeat].
    change (f :: repeat f n) with (repeat f (S n)). rewrite (census_repeat f Cf). cbn [bind].
    cbn [repeat pick_most]. rewrite pick_most_repeat.
    change (f :: repeat f n) with (repeat f (S n)). rewrite merge_loop_repeat. reflexivity.
  - intros f' Hp Et Ec Eco Eta.
    assert (Hr' : has_all_rows f') by (unfold has_all_rows; rewrite Et, Ec; exact Hr).
    pose proof (census_ok_same f' f' eq_refl eq_refl Hr') as Cf'.
    pose proof (census_ok_same f f' Et Ec Hr) as Cff'.
    pose proof (census_ok_same f' f (eq_sym Et) (eq_sym Ec) Hr') as Cf'f.
    assert (Etot : total_cells f' = total_cells f) by (unfold total_cells; rewrite Eta; reflexivity).
    assert (Hne : (p_path f' =? p_path f) = false) by (apply Z.eqb_neq; exact Hp).
    assert (Hne' : (p_path f =? p_path f') = false) by (apply Z.eqb_neq; intros E; apply Hp; symmetry; exact E).
    destruct (p_path f <=? p_path f') eqn:Ele.
    + (* f sorts first and is the base file *)
      assert (Ele' : (p_path f' <=? p_path f) = false).
      { apply Z.leb_gt. apply Z.leb_le in Ele. lia. }
      exists f. split; [left; reflexivity|].
      assert (G : forall l, psort l = [f; f'] -> merge_precompute l = Ok (f, p_tab f)).
      { intros l El. unfold merge_precompute. cbv zeta. rewrite El. cbn [census]. rewrite Cf, Cff'. cbn [bind].
        cbn [pick_most]. rewrite Etot, Z.ltb_irrefl. cbn [merge_loop]. rewrite Z.eqb_refl, Hne.
        rewrite Ec, Eco, c2r_eqb_refl, cols_eqb_refl. cbn [negb]. rewrite Eta, Nat.eqb_refl. cbn [negb bind].
        rewrite replace_rows_self. reflexivity. }
      split; apply G; cbn; [rewrite Ele | rewrite Ele']; reflexivity.
    + assert (Ele' : (p_path f' <=? p_path f) = true).
      { apply Z.leb_le. apply Z.leb_gt in Ele. lia. }
      exists f'. split; [right; reflexivity|].
      assert (G : forall l, psort l = [f'; f] -> merge_precompute l = Ok (f', p_tab f)).
      { intros l El. unfold merge_precompute. cbv zeta. rewrite El. cbn [census]. rewrite Cf', Cf'f. cbn [bind].
        cbn [pick_most]. rewrite Etot, Z.ltb_irrefl. cbn [merge_loop]. rewrite Z.eqb_refl, Hne'.
        rewrite Ec, Eco, c2r_eqb_refl, cols_eqb_refl. cbn [negb]. rewrite Eta, Nat.eqb_refl. cbn [negb bind].
        rewrite replace_rows_self. reflexivity. }
      split; apply G; cbn; [rewrite Ele | rewrite Ele']; reflexivity.
Qed.

(* ------------------------------------------------------------------ *)
(* 2. the order of the input list is irrelevant (precompute_path_list.sort())  *)
Definition ple (a b : pfile) : Prop := p_path a <= p_path b.

Lemma pinsert_sorted x : forall l, StronglySorted ple l -> StronglySorted ple (pinsert x l).
Proof.
  induction l as [|y t IH]; intros HS; cbn.
  - constructor; constructor.
  - inversion HS as [|y0 t0 St Fy]; subst y0 t0. destruct (p_path x <=? p_path y) eqn:E.
    + apply Z.leb_le in E. constructor; [exact HS|]. constructor; [exact E|].
      apply Forall_forall. intros z Hz. rewrite Forall_forall in Fy. specialize (Fy z Hz). unfold ple in *. lia.
    + apply Z.leb_gt in E. constructor; [apply IH; exact St|].
      apply Forall_forall. intros z Hz. apply (Permutation_in _ (pinsert_perm x t)) in Hz.
      destruct Hz as [<-|Hz]; [unfold ple; lia|]. rewrite Forall_forall in Fy. apply Fy. exact Hz.
Qed.

Lemma psort_sorted l : StronglySorted ple (psort l).
Proof. induction l as [|x t IH]; cbn; [constructor | apply pinsert_sorted; exact IH]. Qed.

Lemma sorted_perm_eq : forall l1 l2 : list pfile,
  (forall a b, In a l1 -> In b l1 -> ple a b -> ple b a -> a = b) ->
  Permutation l1 l2 -> StronglySorted ple l1 -> StronglySorted ple l2 -> l1 = l2.
Proof.
  induction l1 as [|a t IH]; intros l2 Hanti Hp S1 S2.
  - apply Permutation_nil in Hp. subst. reflexivity.
  - destruct l2 as [|b t2]; [apply Permutation_sym, Permutation_nil in Hp; discriminate Hp|].
    inversion S1 as [|a0 t0 St Fa]; subst a0 t0. inversion S2 as [|b0 t0 St2 Fb]; subst b0 t0.
    assert (Eab : a = b).
    { assert (Hb : In b (a :: t)) by (eapply Permutation_in; [apply Permutation_sym; exact Hp | left; reflexivity]).
      assert (Ha : In a (b :: t2)) by (eapply Permutation_in; [exact Hp | left; reflexivity]).
      destruct Hb as [Hb|Hb]; [exact Hb|]. destruct Ha as [Ha|Ha]; [symmetry; exact Ha|].
      rewrite Forall_forall in Fa, Fb.
      apply Hanti; [left; reflexivity | right; exact Hb | apply Fa; exact Hb | apply Fb; exact Ha]. }
    subst b. f_equal. apply IH; [| eapply Permutation_cons_inv; exact Hp | exact St | exact St2].
    intros x y Hx Hy. apply Hanti; right; assumption.
Qed.

Lemma psort_perm_eq files files' : NoDup (map p_path files) -> Permutation files files' ->
  psort files = psort files'.
Proof.
  intros ND Hp. apply sorted_perm_eq; [| | apply psort_sorted | apply psort_sorted].
  - intros a b Ha Hb H1 H2. apply (path_inj files a b ND).
    + eapply Permutation_in; [apply psort_perm | exact Ha].
    + eapply Permutation_in; [apply psort_perm | exact Hb].
    + unfold ple in *. lia.
  - eapply Permutation_trans; [apply psort_perm|]. eapply Permutation_trans; [exact Hp|].
    apply Permutation_sym, psort_perm.
Qed.

Theorem merge_order_irrelevant : forall files files',
  NoDup (map p_path files) -> Permutation files files' ->
  merge_precompute files = merge_precompute files'.
Proof.
  intros files files' ND Hp. unfold merge_precompute. rewrite (psort_perm_eq files files' ND Hp). reflexivity.
Qed.

(* ------------------------------------------------------------------ *)
(* 3. without ties the file names (hence the visiting order) are irrelevant     *)
Lemma merge_lengths files most T : NoDup (map p_path files) -> merge_precompute files = Ok (most, T) ->
  forall f, In f files -> length (p_tab f) = length T.
Proof.
  intros ND Hm f Hf. destruct (merge_keeps_largest files most T ND Hm) as (Hmost & _ & LT & _).
  destruct (merge_inv files most T Hm) as [_ Hml]. apply merge_loop_spec in Hml. destruct Hml as [_ HF].
  rewrite LT. destruct (p_path f =? p_path most) eqn:E.
  - apply Z.eqb_eq in E. rewrite (path_inj files f most ND Hf Hmost E). reflexivity.
  - rewrite Forall_forall in HF. apply HF. unfold vis. apply filter_In. split.
    + eapply Permutation_in; [apply Permutation_sym, psort_perm | exact Hf].
    + rewrite E. reflexivity.
Qed.

(* "no ties": two rows of the same cluster with the same number of cells are the same row *)
Definition no_ties (files : list pfile) : Prop :=
  forall f g r s s', In f files -> In g files ->
    nth_error (p_tab f) r = Some s -> nth_error (p_tab g) r = Some s' -> s_n s = s_n s' -> s = s'.

Theorem merge_names_irrelevant_without_ties : forall files files' most most' T T',
  NoDup (map p_path files) -> NoDup (map p_path files') ->
  Permutation (map p_tab files) (map p_tab files') ->
  no_ties files ->
  merge_precompute files = Ok (most, T) -> merge_precompute files' = Ok (most', T') ->
  T = T'.
Proof.
  intros files files' most most' T T' ND ND' Hp NT Hm Hm'.
  destruct (merge_keeps_largest files most T ND Hm) as (Hmost & _ & LT & HR).
  destruct (merge_keeps_largest files' most' T' ND' Hm') as (Hmost' & _ & LT' & HR').
  pose proof (merge_lengths files most T ND Hm) as HL.
  pose proof (merge_lengths files' most' T' ND' Hm') as HL'.
  assert (To : forall g, In g files' -> exists g0, In g0 files /\ p_tab g0 = p_tab g).
  { intros g Hg. apply (in_map p_tab) in Hg. apply (Permutation_in _ (Permutation_sym Hp)) in Hg.
    apply in_map_iff in Hg. destruct Hg as (g0 & E & H0). exists g0. split; assumption. }
  assert (From : forall f, In f files -> exists f0, In f0 files' /\ p_tab f0 = p_tab f).
  { intros f Hf. apply (in_map p_tab) in Hf. apply (Permutation_in _ Hp) in Hf.
    apply in_map_iff in Hf. destruct Hf as (f0 & E & H0). exists f0. split; assumption. }
  assert (Elen : length T' = length T).
  { destruct (To most' Hmost') as (g0 & Hg0 & Eg0). rewrite <- (HL g0 Hg0), Eg0. symmetry. apply HL'. exact Hmost'. }
  apply list_nth_error_ext. intros i.
  destruct (nth_error T i) as [s|] eqn:Es.
  - destruct (nth_error T' i) as [s'|] eqn:Es'.
    2:{ apply nth_error_None in Es'. assert (i < length T)%nat by (apply nth_error_Some; congruence). lia. }
    destruct (HR i s Es) as ((f & Hf & Hfs) & Hmax). destruct (HR' i s' Es') as ((g & Hg & Hgs) & Hmax').
    destruct (To g Hg) as (g0 & Hg0 & Eg0). destruct (From f Hf) as (f0 & Hf0 & Ef0).
    assert (H1 : s_n s' <= s_n s) by (apply (Hmax g0 s' Hg0); rewrite Eg0; exact Hgs).
    assert (H2 : s_n s <= s_n s') by (apply (Hmax' f0 s Hf0); rewrite Ef0; exact Hfs).
    f_equal. apply (NT f g0 i s s' Hf Hg0 Hfs); [rewrite Eg0; exact Hgs | lia].
  - apply nth_error_None in Es. symmetry. apply nth_error_None. lia.
Qed.

(* with ties the names DO matter: the same two tables under swapped names give different results *)
Definition tie_f (path : Z) (x : Z) : pfile :=
  mk_pfile path [[(10, [0])]] [(10, 0%nat)] [100] [mk_summary 5 [x] [x] [1] [1] [1]].
Lemma merge_names_matter_with_ties :
  merge_precompute [tie_f 1 7; tie_f 2 9] = Ok (tie_f 1 7, [mk_summary 5 [7] [7] [1] [1] [1]]) /\
  merge_precompute [tie_f 2 7; tie_f 1 9] = Ok (tie_f 1 9, [mk_summary 5 [9] [9] [1] [1] [1]]).
Proof. split; vm_compute; reflexivity. Qed.
