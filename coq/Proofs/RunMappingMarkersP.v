(* C17 with the marker model plugged in (Model/RunMappingMarkers.v): the dropping run on the FILE's
   table equals the run on the reduced reference whose file never had the entries of the removed
   level -- under cache success of both. *)
From Coq Require Import ZArith List Bool Lia Arith.
From CTM Require Import Base.Sx Base.ListX Base.SortX Model.Tree Model.Election Model.RunMapping Model.RunMappingKeys
                        Model.RunMappingMarkers.
From CTM Require Import Model.Markers Proofs.MarkersP.
From CTM Require Import Proofs.TreeValidateP Proofs.TreeDropP Proofs.ElectionP Proofs.RunMappingP Proofs.RunMappingStrictP
                        Proofs.RunMappingKeysP.
Import ListNotations.
Open Scope Z_scope.

(* ------------------------------------------------------------------ strictly ascending index lists *)
Lemma names_at_cons names i idx :
  names_at names (i :: idx) =
  match nth_error names i, names_at names idx with Some x, Some r => Some (x :: r) | _, _ => None end.
Proof. unfold names_at. cbn. destruct (nth_error names i); [|reflexivity]. destruct (opt_all _); reflexivity. Qed.

Lemma names_at_in names idx l i : names_at names idx = Some l -> In i idx ->
  exists g, nth_error names i = Some g /\ In g l.
Proof.
  revert l. induction idx as [|j r IH]; intros l H Hi; [destruct Hi|].
  rewrite names_at_cons in H. destruct (nth_error names j) as [x|] eqn:Ej; [|discriminate].
  destruct (names_at names r) as [lr|] eqn:Er; [|discriminate]. injection H as <-.
  destruct Hi as [->|Hi].
  - exists x. split; [exact Ej | left; reflexivity].
  - destruct (IH lr eq_refl Hi) as (g & G1 & G2). exists g. split; [exact G1 | right; exact G2].
Qed.

Lemma names_at_in_inv names idx l g : names_at names idx = Some l -> In g l ->
  exists i, In i idx /\ nth_error names i = Some g.
Proof.
  revert l. induction idx as [|j r IH]; intros l H Hg.
  - cbn in H. injection H as <-. destruct Hg.
  - rewrite names_at_cons in H. destruct (nth_error names j) as [x|] eqn:Ej; [|discriminate].
    destruct (names_at names r) as [lr|] eqn:Er; [|discriminate]. injection H as <-.
    destruct Hg as [->|Hg].
    + exists j. split; [left; reflexivity | exact Ej].
    + destruct (IH lr eq_refl Hg) as (i & I1 & I2). exists i. split; [right; exact I1 | exact I2].
Qed.

Lemma names_at_nodup_idx names idx l : names_at names idx = Some l -> NoDup l -> NoDup idx.
Proof.
  revert l. induction idx as [|j r IH]; intros l H N; [constructor|].
  rewrite names_at_cons in H. destruct (nth_error names j) as [x|] eqn:Ej; [|discriminate].
  destruct (names_at names r) as [lr|] eqn:Er; [|discriminate]. injection H as <-.
  inversion N as [|? ? Hx Nr]; subst. constructor; [|apply (IH lr eq_refl Nr)].
  intros Hj. destruct (names_at_in names r lr j Er Hj) as (g & G1 & G2). rewrite Ej in G1. injection G1 as <-.
  exact (Hx G2).
Qed.

Fixpoint strictly (l : list nat) : Prop :=
  match l with
  | [] => True
  | x :: t => (forall y, In y t -> (x < y)%nat) /\ strictly t
  end.

Lemma ascending_all x t : ascending (x :: t) -> forall y, In y t -> (x <= y)%nat.
Proof.
  revert x. induction t as [|z r IH]; intros x H y Hy; [destruct Hy|].
  cbn in H. destruct H as [Hxz Hr]. destruct Hy as [->|Hy]; [exact Hxz|].
  pose proof (IH z Hr y Hy). lia.
Qed.

Lemma ascending_nodup_strictly l : ascending l -> NoDup l -> strictly l.
Proof.
  induction l as [|x t IH]; intros A N; [exact Logic.I|].
  inversion N as [|? ? Hx Nt]; subst. split.
  - intros y Hy. pose proof (ascending_all x t A y Hy). assert (x <> y) by (intros ->; exact (Hx Hy)). lia.
  - apply IH; [cbn in A; tauto | exact Nt].
Qed.

Lemma strictly_same_set l1 l2 : strictly l1 -> strictly l2 -> (forall x, In x l1 <-> In x l2) -> l1 = l2.
Proof.
  revert l2. induction l1 as [|x t IH]; intros l2 S1 S2 H.
  - destruct l2 as [|y r]; [reflexivity|]. exfalso. apply (H y). left. reflexivity.
  - destruct l2 as [|y r]; [exfalso; apply (H x); left; reflexivity|].
    destruct S1 as [Sx St], S2 as [Sy Sr].
    assert (x = y).
    { assert (Hx : In x (y :: r)) by (apply H; left; reflexivity).
      assert (Hy : In y (x :: t)) by (apply H; left; reflexivity).
      destruct Hx as [->|Hx]; [reflexivity|]. destruct Hy as [->|Hy]; [reflexivity|].
      pose proof (Sx y Hy). pose proof (Sy x Hx). lia. }
    subst y. f_equal. apply IH; [exact St | exact Sr|].
    intros z. split; intros Hz.
    + assert (Hz' : In z (x :: r)) by (apply H; right; exact Hz). destruct Hz' as [->|Hz']; [|exact Hz'].
      exfalso. pose proof (Sx z Hz). lia.
    + assert (Hz' : In z (x :: t)) by (apply H; right; exact Hz). destruct Hz' as [->|Hz']; [|exact Hz'].
      exfalso. pose proof (Sy z Hz). lia.
Qed.

Lemma nodup_nth_error_inj {X} (l : list X) i j x : NoDup l -> nth_error l i = Some x -> nth_error l j = Some x -> i = j.
Proof.
  intros N Hi Hj. apply (proj1 (NoDup_nth_error l) N); [apply nth_error_Some; congruence | congruence].
Qed.

(* ------------------------------------------------------------------ the markers used at a parent *)
(* Two tables that agree at the parents of u give every parent of u with >= 2 children the SAME lists
   (not only the same set: the groups are sorted by reference index, and reference gene names are
   pairwise different) *)
Theorem used_agree u tb1 tb2 refg qg minm c1 c2 p :
  dict_ok u -> NoDup refg ->
  (forall k, In k (all_parents u) -> tget k tb1 = tget k tb2) ->
  create_cache tb1 refg qg (Some u) minm = MOk c1 ->
  create_cache tb2 refg qg (Some u) minm = MOk c2 ->
  In p (all_parents u) -> (2 <= length (children u p))%nat ->
  used c1 refg qg p = used c2 refg qg p.
Proof.
  intros Hd Nr Hag C1 C2 Hp Hch.
  destruct (used_equals_spec u tb1 refg qg minm c1 p Hd C1 Hp Hch) as (ri1 & qi1 & n1 & G1 & A1 & B1 & N1 & As1 & S1).
  destruct (used_equals_spec u tb2 refg qg minm c2 p Hd C2 Hp Hch) as (ri2 & qi2 & n2 & G2 & A2 & B2 & N2 & As2 & S2).
  rewrite (used_of_group c1 refg qg p ri1 qi1 n1 G1 A1 B1), (used_of_group c2 refg qg p ri2 qi2 n2 G2 A2 B2).
  assert (Hset : forall g, In g n1 <-> In g n2).
  { intros g. rewrite S1, S2, (spec_markers_agree u tb1 tb2 qg minm p Hag Hp). reflexivity. }
  assert (Hri : ri1 = ri2).
  { apply strictly_same_set.
    - apply ascending_nodup_strictly; [exact As1 | exact (names_at_nodup_idx refg ri1 n1 A1 N1)].
    - apply ascending_nodup_strictly; [exact As2 | exact (names_at_nodup_idx refg ri2 n2 A2 N2)].
    - intros i. split; intros Hi.
      + destruct (names_at_in refg ri1 n1 i A1 Hi) as (g & Gi & Gn). apply Hset in Gn.
        destruct (names_at_in_inv refg ri2 n2 g A2 Gn) as (j & Hj & Gj).
        rewrite (nodup_nth_error_inj refg i j g Nr Gi Gj). exact Hj.
      + destruct (names_at_in refg ri2 n2 i A2 Hi) as (g & Gi & Gn). apply Hset in Gn.
        destruct (names_at_in_inv refg ri1 n1 g A1 Gn) as (j & Hj & Gj).
        rewrite (nodup_nth_error_inj refg i j g Nr Gi Gj). exact Hj. }
  subst ri2. rewrite A1 in A2. injection A2 as <-. reflexivity.
Qed.

(* ------------------------------------------------------------------ run_type_assignment depends on decide only where it asks *)
Section Ext.
Variable cell rng : Type.
Variable d1 d2 : rng -> option (nat * node) -> list node -> list cell -> list rec * rng.
Variable t : tree.
Hypothesis Hext : forall g p cs, In p (all_parents t) -> (2 <= length (children t p))%nat ->
  d1 g p (children t p) cs = d2 g p (children t p) cs.

Lemma visit_ext cells li p idx st : In p (all_parents t) ->
  visit cell rng d1 cells li p (children t p) idx st = visit cell rng d2 cells li p (children t p) idx st.
Proof.
  intros Hp. unfold visit. destruct st as [[g res] pa]. destruct idx as [|i idx']; [reflexivity|].
  destruct (children t p) as [|k1 [|k2 kr]] eqn:Ek; [reflexivity | reflexivity|].
  rewrite <- Ek. rewrite Hext; [reflexivity | exact Hp | rewrite Ek; cbn; lia].
Qed.

Lemma fold_outcome_ext {A B} (f1 f2 : A -> B -> outcome A) l a :
  (forall a' x, In x l -> f1 a' x = f2 a' x) -> fold_outcome f1 l a = fold_outcome f2 l a.
Proof.
  revert a. induction l as [|x r IH]; intros a H; [reflexivity|]. cbn.
  rewrite (H a x (or_introl eq_refl)). destruct (f2 a x); try reflexivity. apply IH. intros a' y Hy. apply H. right. exact Hy.
Qed.

Lemma do_level_ext cells li st : (li < length t)%nat ->
  do_level cell rng d1 t cells li st = do_level cell rng d2 t cells li st.
Proof.
  intros Hli. unfold do_level. destruct st as [[g res] pa]. destruct li as [|pli].
  - change (nodes (hd [] t)) with (children t None). apply visit_ext. left. reflexivity.
  - apply fold_outcome_ext. intros st' x Hx.
    change (children_of (nth pli t []) x) with (children t (Some (pli, x))). apply visit_ext.
    apply in_all_parents. right. exists pli, x. split; [reflexivity|]. apply apf0_char. split; [exact Hli|].
    apply (proj1 (zsort_in _ _)) in Hx. exact Hx.
Qed.

Lemma levels_from_ext cells n li st : (li + n <= length t)%nat ->
  levels_from cell rng d1 t cells li n st = levels_from cell rng d2 t cells li n st.
Proof.
  revert li st. induction n as [|n IH]; intros li st H; [reflexivity|]. cbn [levels_from].
  rewrite do_level_ext by lia. destruct (do_level cell rng d2 t cells li st); try reflexivity. apply IH. lia.
Qed.

Lemma run_type_assignment_ext cells g :
  run_type_assignment cell rng d1 t cells g = run_type_assignment cell rng d2 t cells g.
Proof. unfold run_type_assignment. rewrite levels_from_ext by lia. reflexivity. Qed.
End Ext.

(* ------------------------------------------------------------------ the theorem *)
Section RealRuns.
Variable cell rng : Type.
Variable refg qg : list gene.
Variable minm : nat.
Variable vote : tree -> option (list gene * list gene) ->
                rng -> option (nat * node) -> list node -> list cell -> list rec * rng.
Hypothesis vote_kids : forall t1 u g p kids cs, (2 <= length kids)%nat ->
  Forall (fun r => In (asg r) kids) (fst (vote t1 u g p kids cs)).

Notation cok := (cache_ok_real refg qg minm).
Notation dec := (mk_decide_real cell rng refg qg minm vote).

Lemma decide_real_kids t1 tb1 g p kids cs : (2 <= length kids)%nat ->
  Forall (fun r => In (asg r) kids) (fst (dec t1 tb1 g p kids cs)).
Proof.
  intros H. unfold mk_decide_real. destruct (create_cache tb1 refg qg (Some t1) minm); [apply vote_kids; exact H | constructor].
Qed.

(* the keyed run depends on the table only through its entries at the parents of the tree *)
Lemma run_keyed_agree u tb1 tb2 cells g :
  dict_ok u -> NoDup refg ->
  (forall k, In k (all_parents u) -> tget k tb1 = tget k tb2) ->
  cok u tb1 = true -> cok u tb2 = true ->
  run_mapping_real_keyed cell rng refg qg minm vote u cfg_none tb1 cells g =
  run_mapping_real_keyed cell rng refg qg minm vote u cfg_none tb2 cells g.
Proof.
  intros Hd Nr Hag K1 K2. unfold run_mapping_real_keyed, run_mapping_model. rewrite reduce_none. cbn [cfg_none cfg_flatten].
  rewrite K1, K2. cbn [negb].
  rewrite (run_type_assignment_ext cell rng (dec u tb1) (dec u tb2) u); [reflexivity|].
  intros g0 p cs Hp Hch. unfold mk_decide_real. unfold cache_ok_real in K1, K2.
  destruct (create_cache tb1 refg qg (Some u) minm) as [c1|] eqn:C1; [|discriminate].
  destruct (create_cache tb2 refg qg (Some u) minm) as [c2|] eqn:C2; [|discriminate].
  rewrite (used_agree u tb1 tb2 refg qg minm c1 c2 p Hd Nr Hag C1 C2 Hp Hch). reflexivity.
Qed.

Theorem drop_named_equals_reduced_filtered t li t' tb cells g :
  tree_ok t -> validate t = true -> NoDup refg ->
  drop_level t li = TOk t' ->
  let m := remove_nth li (seq 0 (length t)) in
  cok t' (rekey m tb) = true ->
  cok t' (rekey m (filter (surviving m) tb)) = true ->
  match run_mapping_real_keyed cell rng refg qg minm vote t' cfg_none (rekey m (filter (surviving m) tb)) cells g with
  | TErr e => run_mapping_real cell rng refg qg minm vote t (cfg_dropping li) tb cells g = TErr e
  | TOk (rowsB, g') =>
      exists rowsA, run_mapping_real cell rng refg qg minm vote t (cfg_dropping li) tb cells g = TOk (rowsA, g') /\
                    Forall2 (drop_rel t li) rowsA rowsB
  end.
Proof.
  intros Ht V Nr Hd m K1 K2.
  pose proof (tree_ok_wf t Ht) as W.
  destruct (drop_ok_facts t li t' Hd) as [Hli Et'].
  assert (Wt' : wf t') by (rewrite Et'; apply raw_drop_wf; exact W).
  pose proof (reduce_dropping t li t' Hd) as Hr.
  destruct (rekey_convention t (cfg_dropping li) t' m tb V W Hr) as (_ & _ & _ & Hag).
  rewrite <- (run_keyed_agree t' (rekey m tb) (rekey m (filter (surviving m) tb)) cells g Wt' Nr Hag K1 K2).
  exact (drop_equals_reduced_named cell rng cok dec decide_real_kids t li t' tb cells g Ht V Hd).
Qed.
End RealRuns.
