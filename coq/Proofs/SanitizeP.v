(* Lemmas about Model/Sanitize.v. *)
From Coq Require Import ZArith List Bool Lia.
From CTM Require Import Base.Sx Base.ListX Model.Sanitize.
Import ListNotations.
Open Scope Z_scope.

(* ------------------------------------------------------------------ *)
(* strings                                                              *)
(* ------------------------------------------------------------------ *)
Lemma str_eqb_eq a : forall b, str_eqb a b = true <-> a = b.
Proof.
  induction a as [|x a IH]; intros [|y b]; cbn; split; intros H; try discriminate; try reflexivity.
  - apply andb_true_iff in H. destruct H as [H1 H2]. apply Z.eqb_eq in H1. apply IH in H2. congruence.
  - inversion H; subst. rewrite Z.eqb_refl. cbn. apply IH. reflexivity.
Qed.
Lemma str_eqb_refl a : str_eqb a a = true.
Proof. apply str_eqb_eq. reflexivity. Qed.

Lemma prefix_b_refl a : prefix_b a a = true.
Proof. induction a as [|x a IH]; cbn; [reflexivity|]. rewrite Z.eqb_refl. exact IH. Qed.

(* ------------------------------------------------------------------ *)
(* is_exposed: complete and sound                                       *)
(* ------------------------------------------------------------------ *)
Lemma exposed_rev_complete ex root : forall pre s,
  s <> [] -> ex (mkPath root (rev s)) = true -> exposed_rev ex root (pre ++ s) = Exposed.
Proof.
  induction pre as [|a pre IH]; intros s Hs He.
  - destruct s as [|x s]; [contradiction|]. cbn [app exposed_rev]. rewrite He. reflexivity.
  - cbn [app exposed_rev]. destruct (ex (mkPath root (rev (a :: pre ++ s)))); [reflexivity|].
    apply IH; assumption.
Qed.

(* a word path that is, or lies below, something that exists (other than "." and "/") is exposed *)
Lemma exposed_complete ex p q rest :
  p_parts p = q ++ rest -> q <> [] -> ex (mkPath (p_root p) q) = true -> is_exposed ex p = Exposed.
Proof.
  intros Hp Hq He. unfold is_exposed. rewrite Hp, rev_app_distr.
  apply exposed_rev_complete.
  - intros H. apply Hq. rewrite <- (rev_involutive q), H. reflexivity.
  - rewrite rev_involutive. exact He.
Qed.

Lemma exposed_rev_sound ex root : forall rp,
  exposed_rev ex root rp = Exposed ->
  exists pre s, rp = pre ++ s /\ ex (mkPath root (rev s)) = true /\ (s <> [] \/ root = 2%nat \/ (2 < root)%nat).
Proof.
  induction rp as [|a rp IH]; cbn [exposed_rev]; intros H.
  - destruct root as [|[|root]]; try discriminate.
    destruct (ex (mkPath (S (S root)) [])) eqn:E; [|discriminate].
    exists [], []. split; [reflexivity|]. split; [exact E|]. right. destruct root; [left; reflexivity | right; lia].
  - destruct (ex (mkPath root (rev (a :: rp)))) eqn:E.
    + exists [], (a :: rp). split; [reflexivity|]. split; [exact E|]. left. discriminate.
    + destruct (IH H) as (pre & s & -> & He & Hs). exists (a :: pre), s. split; [reflexivity|]. split; assumption.
Qed.

(* only such words are touched *)
Lemma exposed_sound ex p :
  is_exposed ex p = Exposed ->
  exists q rest, p_parts p = q ++ rest /\ ex (mkPath (p_root p) q) = true /\ (q <> [] \/ (2 <= p_root p)%nat).
Proof.
  unfold is_exposed. intros H. destruct (exposed_rev_sound _ _ _ H) as (pre & s & Hr & He & Hs).
  exists (rev s), (rev pre). split.
  - rewrite <- rev_app_distr, <- Hr, rev_involutive. reflexivity.
  - split; [exact He|]. destruct Hs as [Hs|[Hs|Hs]]; [left | right; lia | right; lia].
    intros X. apply Hs. rewrite <- (rev_involutive s), X. reflexivity.
Qed.

Lemma exposed_iff ex p :
  (p_root p < 2)%nat ->
  (is_exposed ex p = Exposed <->
   exists q rest, p_parts p = q ++ rest /\ q <> [] /\ ex (mkPath (p_root p) q) = true).
Proof.
  intros Hr. split.
  - intros H. destruct (exposed_sound ex p H) as (q & rest & Hp & He & [Hq|Hq]); [|lia].
    exists q, rest. split; [exact Hp|]. split; [exact Hq | exact He].
  - intros (q & rest & Hp & Hq & He). exact (exposed_complete ex p q rest Hp Hq He).
Qed.

(* ------------------------------------------------------------------ *)
(* pathlib parsing: components are non-empty and contain no '/'         *)
(* ------------------------------------------------------------------ *)
Definition wf_part (x : str) : Prop := x <> [] /\ ~ In SLASH x.
Definition wf_path (p : path) : Prop := Forall wf_part (p_parts p).

Lemma pieces_go_no_slash : forall s cur,
  ~ In SLASH cur -> Forall (fun x => ~ In SLASH x) (pieces_go cur s).
Proof.
  induction s as [|c t IH]; intros cur Hc; cbn [pieces_go].
  - constructor; [|constructor]. intros H. apply Hc. apply in_rev. exact H.
  - destruct (c =? SLASH) eqn:E.
    + constructor; [intros H; apply Hc; apply in_rev; exact H|]. apply IH. intros [].
    + apply IH. intros [H|H]; [apply Z.eqb_neq in E; congruence | contradiction].
Qed.

Lemma parse_path_wf s : wf_path (parse_path s).
Proof.
  unfold wf_path, parse_path. cbn [p_parts]. apply Forall_forall. intros x Hx.
  apply filter_In in Hx. destruct Hx as [Hin Hf].
  apply andb_true_iff in Hf. destruct Hf as [Hn _]. split.
  - intros ->. discriminate Hn.
  - pose proof (pieces_go_no_slash s [] (fun H => H)) as HF. rewrite Forall_forall in HF. apply HF. exact Hin.
Qed.

Lemma last_in {A} (l : list A) d : l <> [] -> In (last l d) l.
Proof.
  induction l as [|x t IH]; intros H; [contradiction|].
  destruct t as [|y t']; [left; reflexivity|]. right. apply IH. discriminate.
Qed.

Lemma path_name_no_slash p : wf_path p -> ~ In SLASH (path_name p).
Proof.
  intros Hw. unfold path_name. destruct (p_parts p) as [|x t] eqn:E; [cbn; intros []|].
  assert (Hin : In (last (x :: t) []) (x :: t)) by (apply last_in; discriminate).
  unfold wf_path in Hw. rewrite E, Forall_forall in Hw. apply (Hw _ Hin).
Qed.

Lemma parts_after_wf parent : forall child rest,
  parts_after parent child = Some rest -> Forall wf_part child -> Forall wf_part rest.
Proof.
  induction parent as [|x p IH]; intros child rest H Hw; cbn in H.
  - inversion H; subst. exact Hw.
  - destruct child as [|y c]; [discriminate|]. destruct (str_eqb x y); [|discriminate].
    inversion Hw; subst. eapply IH; eassumption.
Qed.

Lemma join_slash_hd x t : x <> [] -> hd_error (join_slash (x :: t)) = hd_error x.
Proof. intros Hx. destruct x as [|c x']; [contradiction|]. destruct t; reflexivity. Qed.

Lemma rel_path_str_no_leading_slash rest :
  Forall wf_part rest -> hd_error (path_str (mkPath 0 rest)) <> Some SLASH.
Proof.
  intros Hw. unfold path_str. cbn [p_root p_parts]. destruct rest as [|x t].
  - cbn. intros H. inversion H.
  - cbn [root_str app]. inversion Hw as [|? ? [Hne Hns] _]; subst. rewrite join_slash_hd by exact Hne.
    destruct x as [|c x']; [contradiction|]. cbn. intros H. inversion H; subst. apply Hns. left. reflexivity.
Qed.

(* ------------------------------------------------------------------ *)
(* the replacement text of a word                                       *)
(* ------------------------------------------------------------------ *)
Section Word.
  Variable ex : path -> bool.
  Variable resolve : path -> path.
  Variable mapper : path.
  (* resolving keeps a well-formed path well formed (nothing is asked of it on ill-formed
     records, which parse_path never produces; the identity resolver resolve_of [] qualifies) *)
  Hypothesis resolve_wf : forall p, wf_path p -> wf_path (resolve p).

  Lemma safe_path_sound w t :
    safe_path ex resolve mapper w = Some (SOk t) ->
    hd_error t <> Some SLASH /\
    (prefix_b (path_str mapper) (path_str (resolve (word_to_path w))) = false -> ~ In SLASH t).
  Proof.
    unfold safe_path. destruct (is_exposed ex (word_to_path w)); try discriminate.
    destruct (prefix_b (path_str mapper) (path_str (resolve (word_to_path w)))) eqn:Ep.
    - destruct (relative_to (resolve (word_to_path w)) mapper) as [r|] eqn:Er; [|discriminate].
      intros H. inversion H; subst t. split; [|discriminate].
      unfold relative_to in Er. destruct (Nat.eqb _ _); [|discriminate].
      destruct (parts_after (p_parts mapper) (p_parts (resolve (word_to_path w)))) as [rest|] eqn:Ea; [|discriminate].
      inversion Er; subst r. apply rel_path_str_no_leading_slash.
      eapply parts_after_wf; [exact Ea | apply resolve_wf; apply parse_path_wf].
    - intros H. inversion H; subst t.
      assert (Hns : ~ In SLASH (path_name (word_to_path w))) by (apply path_name_no_slash; apply parse_path_wf).
      split; [|intros _; exact Hns].
      intros Hh. apply Hns. destruct (path_name (word_to_path w)); [discriminate|]. inversion Hh; subst. left. reflexivity.
  Qed.

  Lemma safe_path_complete w q rest :
    p_parts (word_to_path w) = q ++ rest -> q <> [] ->
    ex (mkPath (p_root (word_to_path w)) q) = true ->
    safe_path ex resolve mapper w <> None.
  Proof.
    intros Hp Hq He. unfold safe_path. rewrite (exposed_complete ex _ q rest Hp Hq He).
    destruct (prefix_b _ _); [destruct (relative_to _ _)|]; discriminate.
  Qed.

  (* a text without '/' reveals nothing *)
  Lemma no_slash_no_leak t : ~ In SLASH t -> ~ leaks ex t.
  Proof.
    intros Hns (pre & sub & post & Ht & _ & Hh & _). apply Hns. subst t.
    destruct sub as [|c sub']; [discriminate|]. inversion Hh; subst c.
    apply in_or_app. right. left. reflexivity.
  Qed.

  (* ---------------- a text that is one word ---------------- *)
  Lemma split_go_no_space : forall s cur,
    forallb (fun c => negb (is_space c)) s = true ->
    split_go cur s = match rev cur ++ s with [] => [] | x => [x] end.
  Proof.
    induction s as [|c t IH]; intros cur H; cbn [split_go].
    - rewrite app_nil_r. destruct cur as [|a cur']; [reflexivity|].
      destruct (rev (a :: cur')) eqn:E; [|reflexivity].
      apply (f_equal (@length Z)) in E. rewrite rev_length in E. discriminate.
    - cbn in H. apply andb_true_iff in H. destruct H as [Hc Ht]. apply negb_true_iff in Hc. rewrite Hc.
      rewrite (IH (c :: cur) Ht). cbn [rev]. rewrite <- app_assoc. reflexivity.
  Qed.

  Lemma split_one_word w :
    w <> [] -> forallb (fun c => negb (is_space c)) w = true -> split w = [w].
  Proof.
    intros Hne Hs. unfold split. rewrite (split_go_no_space w [] Hs). cbn. destruct w; [contradiction | reflexivity].
  Qed.

  Lemma replace_go_skip_all old new : forall s k, (length s <= k)%nat -> replace_go old new k s = [].
  Proof.
    induction s as [|c t IH]; intros k H; [reflexivity|].
    destruct k as [|k]; [cbn in H; lia|]. cbn. apply IH. cbn in H. lia.
  Qed.

  Lemma replace_all_self w t : w <> [] -> replace_all w t w = t.
  Proof.
    intros Hne. destruct w as [|c tl]; [contradiction|].
    unfold replace_all. cbn [replace_go]. rewrite (prefix_b_refl (c :: tl)).
    rewrite replace_go_skip_all; [apply app_nil_r|]. cbn. lia.
  Qed.

  Lemma sanitize_one_word w t :
    w <> [] -> forallb (fun c => negb (is_space c)) w = true ->
    safe_path ex resolve mapper w = Some (SOk t) ->
    sanitize_str ex resolve mapper w = SOk t.
  Proof.
    intros Hne Hs Hsafe. unfold sanitize_str. rewrite (split_one_word w Hne Hs).
    cbn [collect]. rewrite Hsafe. cbn [has_key collect app apply_subs fold_left fst snd].
    rewrite replace_all_self by exact Hne. reflexivity.
  Qed.

  (* the word-level soundness statement *)
  Theorem word_sound_partial w q rest :
    w <> [] -> forallb (fun c => negb (is_space c)) w = true ->
    p_parts (word_to_path w) = q ++ rest -> q <> [] ->
    ex (mkPath (p_root (word_to_path w)) q) = true ->
    (exists t, sanitize_str ex resolve mapper w = SOk t /\
               hd_error t <> Some SLASH /\
               (prefix_b (path_str mapper) (path_str (resolve (word_to_path w))) = false ->
                t = path_name (word_to_path w) /\ ~ In SLASH t /\ ~ leaks ex t))
    \/ (exists e, sanitize_str ex resolve mapper w = SErr e).
  Proof.
    intros Hne Hs Hp Hq He.
    pose proof (safe_path_complete w q rest Hp Hq He) as Hc.
    destruct (safe_path ex resolve mapper w) as [[t|e]|] eqn:Hsafe; [| |contradiction].
    - left. exists t. split; [apply sanitize_one_word; assumption|].
      destruct (safe_path_sound w t Hsafe) as [Hh Hn]. split; [exact Hh|].
      intros Hpre. split.
      + unfold safe_path in Hsafe. destruct (is_exposed ex (word_to_path w)); try discriminate.
        rewrite Hpre in Hsafe. inversion Hsafe. reflexivity.
      + split; [apply Hn; exact Hpre | apply no_slash_no_leak; apply Hn; exact Hpre].
    - right. exists e. unfold sanitize_str. rewrite (split_one_word w Hne Hs). cbn [collect]. rewrite Hsafe. reflexivity.
  Qed.

  (* a text none of whose words is exposed is returned unchanged *)
  Lemma collect_none : forall ws acc,
    Forall (fun w => safe_path ex resolve mapper w = None) ws -> collect ex resolve mapper ws acc = SOk acc.
  Proof.
    induction ws as [|w t IH]; intros acc H; [reflexivity|].
    inversion H as [|? ? Hw Ht]; subst. cbn [collect]. rewrite Hw. apply IH. exact Ht.
  Qed.
  Lemma unexposed_unchanged s :
    Forall (fun w => safe_path ex resolve mapper w = None) (split s) -> sanitize_str ex resolve mapper s = SOk s.
  Proof. intros H. unfold sanitize_str. rewrite (collect_none _ [] H). reflexivity. Qed.

  (* ---------------- structures and sinks ---------------- *)
  Fixpoint strings_of (v : jv) : list str :=
    match v with
    | JStr s => [s]
    | JList l => flat_map strings_of l
    | JDict kv => flat_map (fun e => strings_of (snd e)) kv
    | JOther _ => []
    end.

  Section JvInd.
    Variable P : jv -> Prop.
    Hypothesis HS : forall s, P (JStr s).
    Hypothesis HL : forall l, Forall P l -> P (JList l).
    Hypothesis HD : forall kv, Forall (fun e => P (snd e)) kv -> P (JDict kv).
    Hypothesis HO : forall t, P (JOther t).
    Fixpoint jv_ind' (v : jv) : P v :=
      match v with
      | JStr s => HS s
      | JList l => HL l ((fix go (l : list jv) : Forall P l :=
                            match l with [] => Forall_nil P | x :: t => Forall_cons x (jv_ind' x) (go t) end) l)
      | JDict kv => HD kv ((fix go (l : list (str * jv)) : Forall (fun e => P (snd e)) l :=
                              match l with
                              | [] => Forall_nil _
                              | e :: t => Forall_cons (P := fun e => P (snd e)) e (jv_ind' (snd e)) (go t)
                              end) kv)
      | JOther t => HO t
      end.
  End JvInd.

  Definition san := sanitize ex resolve mapper.
  Definition san_str := sanitize_str ex resolve mapper.
  Definition image (s s' : str) : Prop := san_str s = SOk s'.

  (* sanitize keeps the shape (constructors, keys, non-string leaves) and maps every string through
     sanitize_str *)
  Inductive jv_image : jv -> jv -> Prop :=
  | im_str s s' : image s s' -> jv_image (JStr s) (JStr s')
  | im_list l l' : Forall2 jv_image l l' -> jv_image (JList l) (JList l')
  | im_dict kv kv' : Forall2 (fun e e' => fst e = fst e' /\ jv_image (snd e) (snd e')) kv kv' ->
                     jv_image (JDict kv) (JDict kv')
  | im_other t : jv_image (JOther t) (JOther t).

  Lemma sanitize_image v : forall v', san v = SOk v' -> jv_image v v'.
  Proof.
    induction v as [s|l IH|kv IH|t] using jv_ind'; intros v' H; unfold san in *; cbn [sanitize] in H.
    - destruct (sanitize_str ex resolve mapper s) as [r|] eqn:E; [|discriminate].
      inversion H; subst. constructor. exact E.
    - match type of H with match ?g l with _ => _ end = _ => set (go := g) in * end.
      destruct (go l) as [r|] eqn:E; [|discriminate]. inversion H; subst v'. constructor.
      clear H. revert r E. induction IH as [|x t Hx Ht IHt]; intros r E; cbn in E.
      + inversion E; subst. constructor.
      + destruct (sanitize ex resolve mapper x) as [y|] eqn:Ex; [|discriminate].
        fold go in E. destruct (go t) as [ys|] eqn:Et; [|discriminate].
        inversion E; subst r. constructor; [apply Hx; reflexivity | apply IHt; reflexivity].
    - match type of H with match ?g kv with _ => _ end = _ => set (go := g) in * end.
      destruct (go kv) as [r|] eqn:E; [|discriminate]. inversion H; subst v'. constructor.
      clear H. revert r E. induction IH as [|[k x] t Hx Ht IHt]; intros r E; cbn in E.
      + inversion E; subst. constructor.
      + cbn [snd] in Hx. destruct (sanitize ex resolve mapper x) as [y|] eqn:Ex; [|discriminate].
        fold go in E. destruct (go t) as [ys|] eqn:Et; [|discriminate].
        inversion E; subst r. constructor; [split; [reflexivity | apply Hx; reflexivity] | apply IHt; reflexivity].
    - inversion H; subst. constructor.
  Qed.

  Lemma Forall2_flat_map {A B} (R : A -> A -> Prop) (f : A -> list B) (Q : B -> B -> Prop) l l' :
    Forall2 R l l' -> (forall x y, In x l -> R x y -> Forall2 Q (f x) (f y)) ->
    Forall2 Q (flat_map f l) (flat_map f l').
  Proof.
    induction 1 as [|x y l l' Hxy H IH]; intros Hf; cbn; [constructor|].
    apply Forall2_app; [apply Hf; [left; reflexivity | exact Hxy]|].
    apply IH. intros a b Ha. apply Hf. right. exact Ha.
  Qed.

  (* every string of the result is the image of the string at the same place of the input *)
  Lemma image_strings v : forall v', jv_image v v' -> Forall2 image (strings_of v) (strings_of v').
  Proof.
    induction v as [s|l IH|kv IH|t] using jv_ind'; intros v' H; inversion H; subst; cbn [strings_of].
    - constructor; [assumption | constructor].
    - match goal with F : Forall2 jv_image l _ |- _ => rename F into F2 end.
      eapply Forall2_flat_map; [exact F2|]. intros x y Hx Hxy. rewrite Forall_forall in IH. apply IH; assumption.
    - match goal with F : Forall2 _ kv _ |- _ => rename F into F2 end.
      eapply Forall2_flat_map; [exact F2|]. intros x y Hx [_ Hxy]. rewrite Forall_forall in IH. apply (IH x Hx). exact Hxy.
    - constructor.
  Qed.

  Lemma pop_key_spec k : forall kv kv',
    pop_key k kv = Some kv' ->
    (forall e, In e kv' -> In e kv) /\ (NoDup (map fst kv) -> ~ In k (map fst kv')) /\
    (NoDup (map fst kv) -> NoDup (map fst kv')).
  Proof.
    induction kv as [|[k' v] t IH]; intros kv' H; cbn in H; [discriminate|].
    destruct (str_eqb k k') eqn:E.
    - inversion H; subst kv'. apply str_eqb_eq in E. subst k'.
      split; [intros e He; right; exact He|]. split; intros Hnd; inversion Hnd; assumption.
    - destruct (pop_key k t) as [t'|] eqn:Et; [|discriminate]. inversion H; subst kv'.
      destruct (IH t' eq_refl) as (A & B & C).
      split; [intros e [<-|He]; [left; reflexivity | right; apply A; exact He]|].
      split; intros Hnd; cbn in Hnd; inversion Hnd as [|? ? Hn Ht]; subst.
      + cbn. intros [X|X]; [subst; rewrite str_eqb_refl in E; discriminate | apply (B Ht); exact X].
      + cbn. constructor; [|apply C; exact Ht].
        intros X. apply Hn. apply in_map_iff in X. destruct X as (e & Hk & He). apply in_map_iff.
        exists e. split; [exact Hk | apply A; exact He].
  Qed.

  Lemma sanitize_lines_image : forall l l', sanitize_lines ex resolve mapper l = SOk l' -> Forall2 image l l'.
  Proof.
    induction l as [|x t IH]; intros l' H; cbn in H.
    - inversion H; subst. constructor.
    - destruct (sanitize_str ex resolve mapper x) as [y|] eqn:Ex; [|discriminate].
      destruct (sanitize_lines ex resolve mapper t) as [ys|] eqn:Et; [|discriminate].
      inversion H; subst. constructor; [exact Ex | apply IH; reflexivity].
  Qed.

  Lemma Forall2_in_r {A B} (R : A -> B -> Prop) l l' y :
    Forall2 R l l' -> In y l' -> exists x, In x l /\ R x y.
  Proof.
    induction 1 as [|a b l l' Hab H IH]; intros Hy; [destruct Hy|].
    destruct Hy as [<-|Hy]; [exists a; split; [left; reflexivity | exact Hab]|].
    destruct (IH Hy) as (x & Hx & Hr). exists x. split; [right; exact Hx | exact Hr].
  Qed.

  Lemma Forall2_keys (kv kv' : list (str * jv)) :
    Forall2 (fun e e' => fst e = fst e' /\ jv_image (snd e) (snd e')) kv kv' -> map fst kv = map fst kv'.
  Proof. induction 1 as [|e e' l l' [Hk _] H IH]; cbn; [reflexivity|]. rewrite Hk, IH. reflexivity. Qed.

  Theorem sinks_sanitised config log sk :
    NoDup (map fst config) ->
    run_sinks ex resolve mapper true config log = SOk sk ->
    exists kv,
      s_config sk = JDict kv /\
      ~ In K_TMP_DIR (map fst kv) /\ ~ In K_EXT_DIR (map fst kv) /\
      (forall k v', In (k, v') kv -> exists v, In (k, v) config /\ jv_image v v') /\
      (forall s', In s' (strings_of (s_config sk)) ->
                  exists s, In s (strings_of (JDict config)) /\ image s s') /\
      Forall2 image log (s_log sk) /\ s_log_file sk = s_log sk.
  Proof.
    intros Hnd H. unfold run_sinks in H.
    destruct (sanitize ex resolve mapper (JDict config)) as [v|] eqn:Es; [|discriminate].
    pose proof (sanitize_image _ _ Es) as Him. inversion Him as [| |kv0 kv0' HF|]; subst.
    destruct (pop_key K_EXT_DIR kv0') as [kv1|] eqn:E1; [|discriminate].
    destruct (pop_key K_TMP_DIR kv1) as [kv2|] eqn:E2; [|discriminate].
    destruct (sanitize_lines ex resolve mapper log) as [l|] eqn:El; [|discriminate].
    inversion H; subst sk. cbn [s_config s_log s_log_file].
    assert (Hnd0 : NoDup (map fst kv0')) by (rewrite <- (Forall2_keys _ _ HF); exact Hnd).
    destruct (pop_key_spec _ _ _ E1) as (A1 & B1 & C1).
    destruct (pop_key_spec _ _ _ E2) as (A2 & B2 & C2).
    exists kv2. split; [reflexivity|].
    split; [apply B2; apply C1; exact Hnd0|].
    split.
    { intros X. apply (B1 Hnd0). apply in_map_iff in X. destruct X as (e & Hk & He).
      apply in_map_iff. exists e. split; [exact Hk | apply A2; exact He]. }
    split.
    { intros k v' Hin. pose proof (A1 _ (A2 _ Hin)) as Hin0.
      destruct (Forall2_in_r _ _ _ _ HF Hin0) as ([k0 v] & Hv & Hk & Hi). cbn in Hk, Hi. subst k0.
      exists v. split; assumption. }
    split.
    { intros s' Hs'. cbn [strings_of] in Hs'. apply in_flat_map in Hs'. destruct Hs' as (e & He & Hs').
      pose proof (image_strings _ _ Him) as HS. cbn [strings_of] in HS.
      apply (Forall2_in_r _ _ _ _ HS). apply in_flat_map. exists e. split; [apply A1; apply A2; exact He | exact Hs']. }
    split; [apply sanitize_lines_image; exact El | reflexivity].
  Qed.
End Word.

(* ------------------------------------------------------------------ *)
(* refutation of the full statement on the faithful model               *)
(* ------------------------------------------------------------------ *)
(* the host: /data (a directory), /data/x.h5 (a file); the package lives in /repo/src *)
Definition s_of (l : list Z) : str := l.
Definition P_DATA : path := mkPath 1 [[100; 97; 116; 97]].
Definition P_X : path := mkPath 1 [[100; 97; 116; 97]; [120; 46; 104; 53]].
Definition P_REPO : path := mkPath 1 [[114; 101; 112; 111]].
Definition P_SRC : path := mkPath 1 [[114; 101; 112; 111]; [115; 114; 99]].
Definition HOST : list path := [P_DATA; P_X; P_REPO; P_SRC].
Definition T_BARE : str := [47; 100; 97; 116; 97; 47; 120; 46; 104; 53].                (* /data/x.h5 *)
Definition T_PAREN : str := [40] ++ T_BARE ++ [41].                                      (* (/data/x.h5) *)
Definition T_KEY : str := [112; 97; 116; 104; 61] ++ T_BARE.                             (* path=/data/x.h5 *)
Definition T_LIST : str := [91; 39] ++ T_BARE ++ [39; 93].                               (* ['/data/x.h5'] *)
Definition T_TOP : str := [47; 100; 97; 116; 97; 44].                                    (* /data, *)
Definition T_SIB : str := [47; 114; 101; 112; 111; 47; 115; 114; 99; 44].                (* /repo/src, *)

Definition san0 := sanitize_str (ex_of HOST) (resolve_of []) P_SRC.

Lemma bare_word_is_sanitised : san0 T_BARE = SOk [120; 46; 104; 53].
Proof. vm_compute. reflexivity. Qed.

Lemma leak_witness pre sub post :
  boundary pre = true -> hd_error sub = Some SLASH -> p_parts (parse_path sub) <> [] ->
  ex_of HOST (parse_path sub) = true -> leaks (ex_of HOST) (pre ++ sub ++ post).
Proof. intros A B C D. exists pre, sub, post. repeat split; assumption. Qed.

Lemma glued_path_leaks :
  (san0 T_PAREN = SOk T_PAREN /\ leaks (ex_of HOST) T_PAREN) /\
  (san0 T_KEY = SOk T_KEY /\ leaks (ex_of HOST) T_KEY) /\
  (san0 T_LIST = SOk T_LIST /\ leaks (ex_of HOST) T_LIST).
Proof.
  split; [|split]; (split; [vm_compute; reflexivity|]).
  - apply (leak_witness [40] T_BARE [41]); [reflexivity | reflexivity | discriminate | vm_compute; reflexivity].
  - apply (leak_witness [112; 97; 116; 104; 61] T_BARE []); [reflexivity | reflexivity | discriminate | vm_compute; reflexivity].
  - apply (leak_witness [91; 39] T_BARE [39; 93]); [reflexivity | reflexivity | discriminate | vm_compute; reflexivity].
Qed.

Lemma no_abs_path_refuted :
  exists ex resolve mapper s out,
    sanitize_str ex resolve mapper s = SOk out /\ leaks ex out /\
    (* ... although the same path on its own is recognised and replaced by its file name *)
    exists bare name, s = [40] ++ bare ++ [41] /\ sanitize_str ex resolve mapper bare = SOk name /\ ~ In SLASH name.
Proof.
  exists (ex_of HOST), (resolve_of []), P_SRC, T_PAREN, T_PAREN.
  destruct glued_path_leaks as [[A B] _]. split; [exact A|]. split; [exact B|].
  exists T_BARE, [120; 46; 104; 53]. split; [reflexivity|]. split; [exact bare_word_is_sanitised|].
  cbn. intros [H|[H|[H|[H|[]]]]]; discriminate H.
Qed.

(* F14: an entry directly under "/" followed by glued punctuation is not recognised *)
Lemma top_level_entry_leaks : san0 T_TOP = SOk T_TOP /\ leaks (ex_of HOST) T_TOP.
Proof.
  split; [vm_compute; reflexivity|].
  apply (leak_witness [] [47; 100; 97; 116; 97] [44]); [reflexivity | reflexivity | discriminate | vm_compute; reflexivity].
Qed.

(* F13: a word that starts with the package directory as a string but is not inside it raises *)
Lemma sibling_of_package_dir_raises : san0 T_SIB = SErr E_VALUE.
Proof. vm_compute. reflexivity. Qed.

(* the identity resolver (no symlink in the table) meets the hypothesis asked of `resolve` *)
Lemma resolve_of_nil_wf : forall p, wf_path p -> wf_path (resolve_of [] p).
Proof. intros p H. exact H. Qed.

(* F18: the replacement of an EARLIER word is a str.replace over the whole text; when that word
   (a relative path that exists) also occurs inside a LATER word (the same file by its absolute
   path), the later word is rewritten in passing, is then no longer found by its own str.replace,
   and its absolute directory stays in the output *)
Definition P_D2 : path := mkPath 1 [[100; 97; 116; 97]; [100; 50]].                                       (* /data/d2 *)
Definition P_SUB : path := mkPath 1 [[100; 97; 116; 97]; [100; 50]; [115; 117; 98]].                      (* /data/d2/sub *)
Definition P_SUBX : path := mkPath 1 [[100; 97; 116; 97]; [100; 50]; [115; 117; 98]; [120; 46; 104; 53]]. (* /data/d2/sub/x.h5 *)
Definition P_RELX : path := mkPath 0 [[115; 117; 98]; [120; 46; 104; 53]].                                (* sub/x.h5, seen from /data/d2 *)
Definition HOST18 : list path := [P_DATA; P_D2; P_SUB; P_SUBX; P_RELX].
Definition T_REL : str := [115; 117; 98; 47; 120; 46; 104; 53].                                            (* sub/x.h5 *)
Definition T_ABS : str := [47; 100; 97; 116; 97; 47; 100; 50; 47; 115; 117; 98; 47; 120; 46; 104; 53].    (* /data/d2/sub/x.h5 *)
Definition T_BOTH : str := T_REL ++ [32] ++ T_ABS.
Definition T_OUT18 : str := [120; 46; 104; 53; 32; 47; 100; 97; 116; 97; 47; 100; 50; 47; 120; 46; 104; 53].   (* x.h5 /data/d2/x.h5 *)

Lemma cross_word_replacement_leaks :
  sanitize_str (ex_of HOST18) (resolve_of []) P_SRC T_BOTH = SOk T_OUT18 /\ leaks (ex_of HOST18) T_OUT18 /\
  (* each of the two words on its own is sanitised *)
  sanitize_str (ex_of HOST18) (resolve_of []) P_SRC T_REL = SOk [120; 46; 104; 53] /\
  sanitize_str (ex_of HOST18) (resolve_of []) P_SRC T_ABS = SOk [120; 46; 104; 53].
Proof.
  split; [vm_compute; reflexivity|]. split.
  - exists [120; 46; 104; 53; 32], [47; 100; 97; 116; 97; 47; 100; 50], [47; 120; 46; 104; 53].
    split; [reflexivity|]. split; [reflexivity|]. split; [reflexivity|]. split; [discriminate | vm_compute; reflexivity].
  - split; vm_compute; reflexivity.
Qed.
