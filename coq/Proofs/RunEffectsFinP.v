(* More about Model/RunEffects.v (audit 4, A2): witnesses for the two-failure case.  Kept apart
   from Proofs/RunEffectsP.v, whose exhaustive checks take minutes to compile. *)
From Coq Require Import ZArith List Bool.
From CTM Require Import Base.Sx Model.Pool Model.RunEffects.
Import ListNotations.

(* "though it still writes its log" is false of a run whose worker failed and whose log path
   cannot be written *)
Lemma log_written_after_worker_failure_refuted :
  exists c bf ff, bf = Some PAssign /\ has_log_path c = true /\
    let r := run_mapping c bf ff in
    snd r = true /\ has_eff 16 (fst r) = false /\ has_eff 17 (fst r) = false /\ has_eff 18 (fst r) = false /\
    prop_trace_ok c (fst r) (snd r) = false /\
    propagated c bf ff = ExFin PLogFile (Some PAssign).
Proof.
  exists {| has_tmp := true; has_csv := true; has_obsm := false; has_summary := false; has_log_path := true;
            has_json := true; has_hdf5 := true; has_gene_map := false |}, (Some PAssign), (Some PLogFile).
  vm_compute. repeat split; reflexivity.
Qed.
