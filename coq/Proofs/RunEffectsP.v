(* Proofs about Model/RunEffects.v.  The configuration space is finite (eight flags; the failure
   is a pair: one of six fail points in the body of `try` or none, one of four in `finally` or
   none): the statements are checked on every combination (256 x 7 x 5) by computation, after
   `destruct`, and stated for all configurations.  They are FINITE CHECKS OF THE TRANSCRIPTION
   in Model/RunEffects.v; that the real run_mapping has these traces is what the tie compares. *)
From Coq Require Import ZArith List Bool Lia.
From CTM Require Import Base.Sx Model.Pool Model.RunEffects Proofs.PoolP.
Import ListNotations.

Lemma inner_raised_checked : forall c fail ff,
  snd (inner c fail) = None -> fin_quiet c ff = true -> failed_run_ok c fail ff = true.
Proof.
  intros [[] [] [] [] [] [] [] []] [[]|] [[]|]; vm_compute; intros H H'; try reflexivity;
    try discriminate H; discriminate H'.
Qed.

Lemma assign_failed_no_csv : forall c ff, no_csv c (Some PAssign) ff = true.
Proof. intros [[] [] [] [] [] [] [] []] [[]|]; vm_compute; reflexivity. Qed.

Lemma assign_failed_inner : forall c, snd (inner c (Some PAssign)) = None.
Proof. intros [[] [] [] [] [] [] [] []]; vm_compute; reflexivity. Qed.

Lemma clean_run_checked : forall c, clean_run_ok c = true.
Proof. intros [[] [] [] [] [] [] [] []]; vm_compute; reflexivity. Qed.

(* the result buffer directory is removed on EVERY path — wherever the run fails, or not at
   all — and where in the trace: after it was made, after the failing step and the traceback,
   before the tmp directory goes and before the log file / JSON / HDF5 are written *)
Lemma buffer_cleaned_checked : forall c fail ff, buffer_cleaned c fail ff = true.
Proof. intros [[] [] [] [] [] [] [] []] [[]|] [[]|]; vm_compute; reflexivity. Qed.

(* the same as ONE boolean, checked on every combination by computation; the readable statement below is
   read off it without any further case analysis *)
Definition buffer_unfold_b (c : cfg) (fail : option point) (ff : option fpoint) : bool :=
  let tr := fst (run_mapping c fail ff) in
  has_eff 3 tr && has_eff 10 tr && before 3 10 tr &&
  implb (body_raised c fail) (before 12 10 tr && before 13 10 tr && implb (has_eff 19 tr) (before 10 19 tr) &&
                              implb (fin_quiet c ff) (has_eff 19 tr)) &&
  implb (has_tmp c) (before 10 14 tr) &&
  implb (has_eff 16 tr) (before 10 16 tr) && implb (has_eff 17 tr) (before 10 17 tr) &&
  implb (has_eff 18 tr) (before 10 18 tr) && implb (has_eff 20 tr) (before 10 20 tr) &&
  implb (fin_quiet c ff) (implb (has_log_path c) (has_eff 16 tr) && implb (has_json c) (has_eff 17 tr) &&
                          implb (has_hdf5 c) (has_eff 18 tr)).
Lemma buffer_unfold_checked : forall c fail ff, buffer_unfold_b c fail ff = true.
Proof. intros [[] [] [] [] [] [] [] []] [[]|] [[]|]; vm_compute; reflexivity. Qed.
Lemma implb_elim (a b : bool) : implb a b = true -> a = true -> b = true.
Proof. destruct a, b; cbn; congruence. Qed.

Lemma buffer_cleaned_unfold : forall c fail ff,
  let tr := fst (run_mapping c fail ff) in
  has_eff 3 tr = true /\ has_eff 10 tr = true /\ before 3 10 tr = true /\
  (body_raised c fail = true -> before 12 10 tr = true /\ before 13 10 tr = true /\
                                (has_eff 19 tr = true -> before 10 19 tr = true) /\
                                (fin_quiet c ff = true -> has_eff 19 tr = true)) /\
  (has_tmp c = true -> before 10 14 tr = true) /\
  (has_eff 16 tr = true -> before 10 16 tr = true) /\
  (has_eff 17 tr = true -> before 10 17 tr = true) /\
  (has_eff 18 tr = true -> before 10 18 tr = true) /\
  (has_eff 20 tr = true -> before 10 20 tr = true) /\
  (* without a failure inside `finally` every requested output is written *)
  (fin_quiet c ff = true ->
   (has_log_path c = true -> has_eff 16 tr = true) /\
   (has_json c = true -> has_eff 17 tr = true) /\
   (has_hdf5 c = true -> has_eff 18 tr = true)).
Proof.
  intros c fail ff tr. pose proof (buffer_unfold_checked c fail ff) as H. unfold buffer_unfold_b in H.
  fold tr in H.
  repeat match type of H with (_ && _) = true => apply andb_true_iff in H; destruct H as [H ?] end.
  repeat match goal with X : implb ?a ?b = true |- _ => pose proof (implb_elim a b X); clear X end.
  repeat match goal with |- _ /\ _ => split end; try assumption.
  - intros Hb.
    match goal with X : body_raised c fail = true -> _ |- _ => specialize (X Hb); rename X into HX end.
    repeat match type of HX with (_ && _) = true => apply andb_true_iff in HX; destruct HX as [HX ?] end.
    repeat match goal with X : implb ?a ?b = true |- _ => pose proof (implb_elim a b X); clear X end.
    repeat split; assumption.
  - intros Hq.
    match goal with X : fin_quiet c ff = true -> (_ && _) = true |- _ => specialize (X Hq); rename X into HX end.
    repeat match type of HX with (_ && _) = true => apply andb_true_iff in HX; destruct HX as [HX ?] end.
    repeat match goal with X : implb ?a ?b = true |- _ => pose proof (implb_elim a b X); clear X end.
    repeat split; assumption.
Qed.

(* a failure inside `finally` (audit 3, item 13): whenever the step at p - the log file, the
   JSON or the HDF5 write - is enabled and raises, the call raises AFTER the success message
   was logged and after the CSV, the obsm of the query file and the summary were written; no
   traceback reaches the log *)
Lemma finally_failure_after_success : forall c bf p,
  body_raised c bf = false -> fin_enabled c p = true ->
  finally_failed_trace c (fst (run_mapping c bf (Some p))) (snd (run_mapping c bf (Some p))) = true /\
  prop_trace_ok c (fst (run_mapping c bf (Some p))) (snd (run_mapping c bf (Some p))) = false /\
  propagated c bf (Some p) = ExFin p None.
Proof.
  intros [[] [] [] [] [] [] [] []] [[]|] []; vm_compute; intros H H'; try discriminate H; try discriminate H';
    repeat split; reflexivity.
Qed.

(* the HDF5 write in particular: the JSON with the complete results is on disk by then *)
Lemma hdf5_failure_unfold : forall c, has_hdf5 c = true ->
  let tr := fst (run_mapping c None (Some PHdf5)) in
  snd (run_mapping c None (Some PHdf5)) = true /\
  has_eff 11 tr = true /\ has_eff 13 tr = false /\ has_eff 19 tr = false /\ has_eff 18 tr = false /\
  (has_obsm c = true -> has_eff 8 tr = true) /\ (has_csv c = true -> has_eff 7 tr = true) /\
  (has_log_path c = true -> has_eff 16 tr = true) /\
  (has_json c = true -> exists ks, json_keys tr = Some ks /\ has_key KResults ks = true).
Proof.
  intros [[] [] [] [] [] [] [] []]; vm_compute; intros H; try discriminate H;
    repeat split; intros; try reflexivity; try discriminate; eexists; split; reflexivity.
Qed.

(* C14, mapping: a failing worker (any schedule, any of the two inspectors' worlds) makes the
   assignment step raise, and then the effect trace is that of a failed run *)
Theorem mapping_effects : forall (c : cfg) (W : world) (n k : nat) (ff : option fpoint),
  (1 <= n)%nat -> (exists w, (w < k)%nat /\ code W w <> 0%Z) ->
  fin_quiet c ff = true ->
  let fail := assign_fail (stage_result false W n k) in
  fail = Some PAssign /\
  snd (inner c fail) = None /\
  failed_run_ok c fail ff = true /\ no_csv c fail ff = true /\
  propagated c fail ff = ExBody PAssign.
Proof.
  intros c W n k ff Hn Hex Hq fail.
  destruct (pool_raises false W n k Hn) as (_ & _ & _ & Hr).
  destruct (Hr Hex) as (w & cd & Hw). unfold fail. rewrite Hw. cbn [assign_fail].
  split; [reflexivity|]. split; [apply assign_failed_inner|].
  split; [apply inner_raised_checked; [apply assign_failed_inner | exact Hq] |].
  split; [apply assign_failed_no_csv|].
  revert Hq. destruct c as [[] [] [] [] [] [] [] []]; destruct ff as [[]|]; vm_compute; intros Hq;
    try reflexivity; discriminate Hq.
Qed.

(* ---- a failure of the body AND a failure inside `finally` (audit 4, A2b) *)
Lemma double_failure_checked : forall c bf p,
  body_raised c bf = true -> fin_enabled c p = true ->
  let r := run_mapping c bf (Some p) in
  double_failed_trace c p (fst r) (snd r) = true /\
  (exists q, propagated c bf (Some p) = ExFin p (Some q) /\ failed_body (fst r) = Some q) /\
  failed_trace_ok c (fst r) (snd r) = false.
Proof.
  intros [[] [] [] [] [] [] [] []] [[]|] []; vm_compute; intros H H'; try discriminate H; try discriminate H';
    (split; [reflexivity | split; [eexists; split; reflexivity | reflexivity]]).
Qed.

(* the exception the caller sees: none iff the call returns; the body's iff the body raised and
   `finally` completed; the one of `finally` otherwise *)
Lemma propagated_cases : forall c bf ff,
  let r := run_mapping c bf ff in
  (propagated c bf ff = ExNone <-> snd r = false) /\
  (body_raised c bf = true -> fin_quiet c ff = true -> exists q, propagated c bf ff = ExBody q) /\
  (forall p, ff = Some p -> fin_enabled c p = true ->
     propagated c bf ff = ExFin p (failed_body (fst r)) /\ has_eff 19 (fst r) = false).
Proof.
  intros [[] [] [] [] [] [] [] []] [[]|] [[]|]; vm_compute; repeat split; intros; try reflexivity;
    try discriminate; try (eexists; reflexivity);
    match goal with H : Some _ = Some ?p |- _ => injection H as <- end; try discriminate; split; reflexivity.
Qed.

(* a failing worker of the assignment pool and a failing step of `finally`, composed with
   Model/Pool.v: the caller sees the exception of `finally` (the inspector's RuntimeError only as
   its __context__); the traceback was added to the in-memory log, but the log FILE is written
   only if the failing step is not the log write itself; no success message, no CSV, no obsm, no
   summary, no HDF5, a JSON (without results) only when the failing step is the HDF5 write *)
Theorem mapping_double_failure : forall (c : cfg) (W : world) (n k : nat) (p : fpoint),
  (1 <= n)%nat -> (exists w, (w < k)%nat /\ code W w <> 0%Z) ->
  fin_enabled c p = true ->
  let fail := assign_fail (stage_result false W n k) in
  let r := run_mapping c fail (Some p) in
  snd r = true /\ propagated c fail (Some p) = ExFin p (Some PAssign) /\
  has_eff 13 (fst r) = true /\ has_eff 19 (fst r) = false /\ has_eff 11 (fst r) = false /\
  has_eff 7 (fst r) = false /\ has_eff 8 (fst r) = false /\ has_eff 9 (fst r) = false /\
  has_eff 18 (fst r) = false /\
  has_eff 16 (fst r) = (has_log_path c && negb (fpoint_eqb p PLogFile)) /\
  has_eff 17 (fst r) = (has_json c && fpoint_eqb p PHdf5) /\
  (forall ks, json_keys (fst r) = Some ks -> has_key KResults ks = false).
Proof.
  intros c W n k p Hn Hex He fail r.
  destruct (pool_raises false W n k Hn) as (_ & _ & _ & Hr).
  destruct (Hr Hex) as (w & cd & Hw). subst r fail. rewrite Hw. cbn [assign_fail].
  revert He. destruct c as [[] [] [] [] [] [] [] []]; destruct p; vm_compute; intros He; try discriminate He;
    repeat split; intros; try reflexivity; try discriminate;
    match goal with H : Some _ = Some _ |- _ => injection H as <-; reflexivity end.
Qed.

(* "though it still writes its log" is FALSE of a run whose worker failed and whose log path
   cannot be written (log_path an existing directory: it passes the probe before `try`) *)
Lemma log_not_written_witness :
  let c := {| has_tmp := true; has_csv := true; has_obsm := false; has_summary := false; has_log_path := true;
              has_json := true; has_hdf5 := true; has_gene_map := false |} in
  let r := run_mapping c (Some PAssign) (Some PLogFile) in
  snd r = true /\ has_log_path c = true /\ has_eff 16 (fst r) = false /\ has_eff 17 (fst r) = false /\
  has_eff 18 (fst r) = false /\ prop_trace_ok c (fst r) (snd r) = false /\
  map eff_tag (fst r) = [1; 2; 3; 4; 5; 12; 13; 10; 14; 15; 20]%Z /\
  propagated c (Some PAssign) (Some PLogFile) = ExFin PLogFile (Some PAssign).
Proof. vm_compute. repeat split; reflexivity. Qed.

(* a projection, by definition of failed_trace_ok (= prop_trace_ok && ...): kept only because the
   harness evaluates both predicates on observed traces *)
Lemma failed_implies_prop : forall c tr raised,
  failed_trace_ok c tr raised = true -> prop_trace_ok c tr raised = true.
Proof.
  intros c tr raised H. unfold failed_trace_ok in H.
  do 6 (apply andb_true_iff in H; destruct H as [H _]). exact H.
Qed.

(* what has content: wherever _run_mapping raises, the trace of the MODEL satisfies the executable
   statement of the property's clauses (the predicate the harness evaluates on the effects observed
   on the real run_mapping) -- a finite check, 256 configurations x 6 fail points (at the three
   fail points inside `finally` _run_mapping has returned: the hypothesis is false there) *)
Lemma failed_run_has_property : forall c fail ff,
  snd (inner c fail) = None -> fin_quiet c ff = true ->
  prop_trace_ok c (fst (run_mapping c fail ff)) (snd (run_mapping c fail ff)) = true.
Proof.
  intros [[] [] [] [] [] [] [] []] [[]|] [[]|]; vm_compute; intros H H'; try reflexivity;
    try discriminate H; discriminate H'.
Qed.

(* a run that fails at or before the assignment (in particular: a failing worker of the
   assignment pool) never reaches the steps that touch the query file (AppendObsm, tag 8) or
   write the summary (WriteSummary, tag 9) *)
Lemma early_failure_no_obsm : forall c fail ff,
  (fail = Some PCopy \/ fail = Some PMarkerCache \/ fail = Some PAssign) ->
  has_eff 8 (fst (run_mapping c fail ff)) = false /\ has_eff 9 (fst (run_mapping c fail ff)) = false.
Proof.
  intros [[] [] [] [] [] [] [] []] fail [[]|] [-> | [-> | ->]]; vm_compute; split; reflexivity.
Qed.

(* whatever happens inside `finally` (ff arbitrary) *)
Theorem failed_run_leaves_query_untouched : forall (c : cfg) (W : world) (n k : nat) (ff : option fpoint),
  (1 <= n)%nat -> (exists w, (w < k)%nat /\ code W w <> 0%Z) ->
  let tr := fst (run_mapping c (assign_fail (stage_result false W n k)) ff) in
  has_eff 8 tr = false /\ has_eff 9 tr = false /\ has_eff 7 tr = false /\ has_eff 11 tr = false.
Proof.
  intros c W n k ff Hn Hex tr.
  destruct (pool_raises false W n k Hn) as (_ & _ & _ & Hr).
  destruct (Hr Hex) as (w & cd & Hw). subst tr. rewrite Hw. cbn [assign_fail].
  destruct c as [[] [] [] [] [] [] [] []]; destruct ff as [[]|]; vm_compute; repeat split; reflexivity.
Qed.

(* for contrast: a clean run with obsm requested does reach AppendObsm *)
Example clean_run_appends_obsm :
  has_eff 8 (fst (run_mapping {| has_tmp := true; has_csv := true; has_obsm := true; has_summary := true;
                                 has_log_path := true; has_json := true; has_hdf5 := true;
                                 has_gene_map := false |} None None)) = true.
Proof. vm_compute. reflexivity. Qed.

(* readable consequences of failed_run_ok *)
(* a step of `finally` that is not executed, or none: the same run *)
Lemma fin_quiet_same : forall c bf ff, fin_quiet c ff = true -> run_mapping c bf ff = run_mapping c bf None.
Proof. intros [[] [] [] [] [] [] [] []] [[]|] [[]|]; vm_compute; intros H; try reflexivity; discriminate H. Qed.
Lemma failed_run_ok_quiet : forall c bf ff, failed_run_ok c bf ff = true -> fin_quiet c ff = true.
Proof. intros [[] [] [] [] [] [] [] []] [[]|] [[]|]; vm_compute; intros H; try reflexivity; discriminate H. Qed.

Lemma failed_run_unfold0 : forall c fail, failed_run_ok c fail None = true ->
  let tr := fst (run_mapping c fail None) in
  snd (run_mapping c fail None) = true /\ has_eff 19 tr = true /\ has_eff 11 tr = false /\
  has_eff 13 tr = true /\ (has_log_path c = true -> has_eff 16 tr = true) /\
  (forall ks, json_keys tr = Some ks -> has_key KResults ks = false /\
      forall k, has_key k ks = true <-> has_key k (finally_keys c) = true) /\
  (has_json c = true -> exists ks, json_keys tr = Some ks) /\
  (forall ks b, hdf5_obs tr = Some (ks, b) -> b = false /\ has_key KResults ks = false /\
      forall k, has_key k ks = true <-> has_key k (finally_keys c) = true) /\
  (has_hdf5 c = true -> exists ks, hdf5_obs tr = Some (ks, false)).
Proof.
  intros [[] [] [] [] [] [] [] []] [[]|]; vm_compute; intros H; try discriminate H;
    repeat split; intros; try discriminate; try congruence;
    try (eexists; reflexivity);
    repeat match goal with
    | H : Some _ = Some _ |- _ => inversion H; subst; clear H
    | k : key |- _ => destruct k
    end; try reflexivity; try discriminate; try congruence.
Qed.

Lemma failed_run_unfold : forall c fail ff, failed_run_ok c fail ff = true ->
  let tr := fst (run_mapping c fail ff) in
  snd (run_mapping c fail ff) = true /\ has_eff 19 tr = true /\ has_eff 11 tr = false /\
  has_eff 13 tr = true /\ (has_log_path c = true -> has_eff 16 tr = true) /\
  (forall ks, json_keys tr = Some ks -> has_key KResults ks = false /\
      forall k, has_key k ks = true <-> has_key k (finally_keys c) = true) /\
  (has_json c = true -> exists ks, json_keys tr = Some ks) /\
  (forall ks b, hdf5_obs tr = Some (ks, b) -> b = false /\ has_key KResults ks = false /\
      forall k, has_key k ks = true <-> has_key k (finally_keys c) = true) /\
  (has_hdf5 c = true -> exists ks, hdf5_obs tr = Some (ks, false)).
Proof.
  intros c fail ff H. pose proof (failed_run_ok_quiet c fail ff H) as Hq.
  unfold failed_run_ok in H. rewrite (fin_quiet_same c fail ff Hq) in *.
  exact (failed_run_unfold0 c fail H).
Qed.
