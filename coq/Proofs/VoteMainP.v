(* Main statements about one bootstrap iteration (C02, C18). *)
From Coq Require Import ZArith List Bool Lia Arith.
From CTM Require Import Base.Sx Base.ListX Model.Vote Proofs.CorrP Proofs.ArgmaxP.
Import ListNotations.
Open Scope Z_scope.

Definition keys_of (q : vec) (refs : list vec) (S : list nat) : list (Z * Z) :=
  map (fun r => ckey (getcols S q) (getcols S r)) refs.

Lemma keys_valid q refs S : Forall kvalid (keys_of q refs S).
Proof. unfold keys_of. apply Forall_forall. intros k Hk. apply in_map_iff in Hk. destruct Hk as (r & <- & _). apply ckey_valid. Qed.

(* the vote of one iteration goes to a reference row whose correlation with the query over
   the subset is maximal, and to the first such row *)
Theorem nearest_is_argmax q refs S i :
  nearest q refs S = Some i ->
  (i < length refs)%nat /\
  exists ki, nth_error (keys_of q refs S) i = Some ki /\
    (forall j kj, nth_error (keys_of q refs S) j = Some kj -> key_lt ki kj = false) /\
    (forall j kj, (j < i)%nat -> nth_error (keys_of q refs S) j = Some kj -> key_lt kj ki = true).
Proof.
  unfold nearest. fold (keys_of q refs S). intros H.
  destruct (argmax_spec _ _ (keys_valid q refs S) H) as (Hlt & Hrest).
  split; [|exact Hrest]. unfold keys_of in Hlt. rewrite map_length in Hlt. exact Hlt.
Qed.

Lemma getcols_length S v : length (getcols S v) = length S.
Proof. unfold getcols. apply map_length. Qed.

(* C18: a query that coincides with reference row l on the drawn subset and is not flat on
   it wins the iteration for l's child, provided every row owned by ANOTHER child is not
   perfectly correlated with it on the subset *)
Theorem centroid_wins q refs (owners : list Z) S l rl i :
  nth_error refs l = Some rl ->
  getcols S rl = getcols S q ->
  0 < ccov (getcols S q) (getcols S q) ->
  (forall j rj, nth_error refs j = Some rj -> nth j owners (-1) <> nth l owners (-1) ->
       let qs := getcols S q in let rs := getcols S rj in
       ccov rs rs = 0 \/ ccov qs rs < 0 \/ ccov qs rs * ccov qs rs < ccov qs qs * ccov rs rs) ->
  nearest q refs S = Some i ->
  nth i owners (-1) = nth l owners (-1).
Proof.
  intros Hl Hsame Hvar Hother Hn.
  destruct (nearest_is_argmax _ _ _ _ Hn) as (Hi & ki & Hki & Hmax & _).
  destruct (Z.eq_dec (nth i owners (-1)) (nth l owners (-1))) as [E | NE]; [exact E|]. exfalso.
  unfold keys_of in Hki. rewrite nth_error_map in Hki.
  destruct (nth_error refs i) as [ri|] eqn:Eri; [|discriminate]. cbn in Hki. inversion Hki; subst ki. clear Hki.
  assert (Hkl : nth_error (keys_of q refs S) l = Some (ckey (getcols S q) (getcols S q))).
  { unfold keys_of. rewrite nth_error_map, Hl. cbn. rewrite Hsame. reflexivity. }
  pose proof (Hmax l _ Hkl) as Hnot.
  pose proof (Hother i ri Eri NE) as Hnp. cbn zeta in Hnp.
  rewrite (other_key_below (getcols S q) (getcols S ri)) in Hnot; [discriminate | | exact Hvar | exact Hnp].
  rewrite !getcols_length. reflexivity.
Qed.

(* correlations lie in [-1, 1]: cov^2 <= var * var *)
Theorem corr_in_range q r : length q = length r ->
  ccov q r * ccov q r <= ccov q q * ccov r r.
Proof. exact (ccov_cauchy_schwarz q r). Qed.
