(* Proofs for Model/Tracker.v (C19, FileTracker): invariants of one tracker's life by
   induction over arbitrary operation sequences. *)
From Coq Require Import ZArith List Bool Lia.
From CTM Require Import Base.Sx Model.FsModel Proofs.FsModelP Model.Tracker.
Import ListNotations.
Open Scope Z_scope.

(* ------------------------------------------------------------------ look *)
Lemma look_put_file : forall f p c q,
  look (put_file p c f) q = if path_eqb p q then File c else look f q.
Proof.
  intros. unfold look, put_file. rewrite lookup_set. destruct (path_eqb p q); reflexivity.
Qed.

Lemma look_put_dir : forall f p q,
  look (put_dir p f) q = if path_eqb p q then Dir else look f q.
Proof.
  intros. unfold look, put_dir. rewrite lookup_set. destruct (path_eqb p q); reflexivity.
Qed.

Lemma look_remove : forall f p q,
  look (remove p f) q = if path_eqb p q then Absent else look f q.
Proof.
  intros. unfold look. rewrite lookup_remove. destruct (path_eqb p q); reflexivity.
Qed.

Lemma look_absent : forall f p, look f p = Absent <-> lookup f p = None.
Proof.
  intros. unfold look. destruct (lookup f p) as [[[|] c]|]; split; intro H; try discriminate; reflexivity.
Qed.

Lemma n_is_dir_true : forall n, n_is_dir n = true <-> n = Dir.
Proof. destruct n; simpl; split; intro H; try discriminate; reflexivity. Qed.
Lemma n_is_absent_true : forall n, n_is_absent n = true <-> n = Absent.
Proof. destruct n; simpl; split; intro H; try discriminate; reflexivity. Qed.

Lemma eqb_if : forall (A : Type) p q (a b : A), p <> q -> (if path_eqb p q then a else b) = b.
Proof. intros. apply path_eqb_neq in H. rewrite H. reflexivity. Qed.

(* ------------------------------------------------------------------ paths *)
Lemma parent_under : forall T x, under T x = true -> child_of T x = true \/ under T (parent x) = true.
Proof.
  intros T x H. apply under_spec in H. destruct H as [n [r H]]. subst.
  destruct r as [|a r].
  - left. apply child_of_spec. eauto.
  - right. unfold parent. rewrite removelast_app by discriminate.
    apply under_spec. exists n, (removelast (a :: r)). reflexivity.
Qed.

Lemma parent_child : forall T n, parent (T ++ [n]) = T.
Proof. intros. unfold parent. apply removelast_last. Qed.

Lemma child_under : forall T x, child_of T x = true -> under T x = true.
Proof.
  intros T x H. apply child_of_spec in H. destruct H as [n H]. subst.
  apply under_spec. exists n, []. reflexivity.
Qed.

Lemma under_neq : forall T x, under T x = true -> x <> T.
Proof.
  intros T x H E. subst. apply under_spec in H. destruct H as [n [r H]].
  assert (L : length T = length (T ++ n :: r)) by (rewrite <- H; reflexivity).
  rewrite app_length in L. simpl in L. lia.
Qed.

Lemma prefix_cases : forall T x, is_prefix T x = true <-> x = T \/ under T x = true.
Proof.
  intros. split.
  - intro H. apply is_prefix_spec in H. destruct H as [r H]. destruct r.
    + left. rewrite app_nil_r in H. assumption.
    + right. apply under_spec. eauto.
  - intros [H|H]; [subst; apply is_prefix_spec; exists []; rewrite app_nil_r; reflexivity
                  | apply under_is_prefix; assumption].
Qed.

Lemma not_prefix : forall T x, is_prefix T x = false -> x <> T /\ under T x = false.
Proof.
  intros T x H. split.
  - intro E. subst. assert (X : is_prefix T T = true) by (apply prefix_cases; auto). congruence.
  - destruct (under T x) eqn:E; [|reflexivity].
    assert (X : is_prefix T x = true) by (apply prefix_cases; auto). congruence.
Qed.

(* wf: below an absent name everything is absent *)
Lemma wf_below_absent : forall f p, wf f -> look f p = Absent -> forall r, look f (p ++ r) = Absent.
Proof.
  intros f p W A r. induction r as [|a r IH] using rev_ind.
  - rewrite app_nil_r. assumption.
  - destruct (look f (p ++ r ++ [a])) eqn:E; [reflexivity| |];
      rewrite app_assoc in E;
      assert (X : look f (p ++ r) = Dir) by (apply (W (p ++ r) a); rewrite E; discriminate);
      congruence.
Qed.

Lemma wf_under_absent : forall f p q, wf f -> look f p = Absent -> is_prefix p q = true -> look f q = Absent.
Proof.
  intros f p q W A H. apply is_prefix_spec in H. destruct H as [r H]. subst.
  apply wf_below_absent; assumption.
Qed.

(* ------------------------------------------------------------------ dicts *)
Lemma dget_dset : forall (V : Type) (d : list (path * V)) k v q,
  dget (dset k v d) q = if path_eqb k q then Some v else dget d q.
Proof.
  induction d as [|[k' v'] d IH]; intros k v q; simpl.
  - destruct (path_eqb k q); reflexivity.
  - destruct (path_eqb k' k) eqn:E; simpl.
    + apply path_eqb_eq in E. subst. destruct (path_eqb k q); reflexivity.
    + rewrite IH. destruct (path_eqb k' q) eqn:E2; [|reflexivity].
      apply path_eqb_eq in E2. subst. rewrite path_eqb_sym, E. reflexivity.
Qed.

(* ------------------------------------------------------------------ _clean_up *)
Definition cu_fold (k : nat) :=
  fun (acc : fs * bool) (c : path) => let '(g, ok) := acc in if ok then clean_up k c g else (g, false).

Lemma clean_up_unfold : forall k p f,
  clean_up (S k) p f =
  match look f p with
  | File _ => (remove p f, true)
  | Dir => let '(g, ok) := fold_left (cu_fold k) (children f p) (f, true) in
           if ok then (if has_child g p then (g, false) else (remove p g, true)) else (g, false)
  | Absent => (f, true)
  end.
Proof. reflexivity. Qed.

Lemma cu_fold_false : forall k l g, fold_left (cu_fold k) l (g, false) = (g, false).
Proof. induction l; intros; simpl; auto. Qed.

(* _clean_up touches nothing outside the cone of its target *)
Lemma clean_up_frame : forall k p f q, is_prefix p q = false -> look (fst (clean_up k p f)) q = look f q.
Proof.
  induction k as [|k IH]; intros p f q H; [reflexivity|].
  rewrite clean_up_unfold. destruct (look f p) eqn:E.
  - reflexivity.
  - assert (F : forall l g b, (forall c, In c l -> child_of p c = true) ->
                look (fst (fold_left (cu_fold k) l (g, b))) q = look g q).
    { induction l as [|c l IHl]; intros g b Hc; [reflexivity|]. simpl.
      destruct b.
      - destruct (clean_up k c g) as [g' b'] eqn:Ec. rewrite IHl by (intros; apply Hc; right; assumption).
        replace g' with (fst (clean_up k c g)) by (rewrite Ec; reflexivity).
        apply IH. destruct (is_prefix c q) eqn:Ep; [|reflexivity].
        assert (X : is_prefix p q = true).
        { eapply is_prefix_trans; [|exact Ep]. apply under_is_prefix, child_under, Hc. left. reflexivity. }
        congruence.
      - rewrite cu_fold_false. reflexivity. }
    specialize (F (children f p) f true).
    destruct (fold_left (cu_fold k) (children f p) (f, true)) as [g ok]. simpl in F.
    assert (Hc : forall c, In c (children f p) -> child_of p c = true).
    { intros c Hi. unfold children in Hi. apply in_map_iff in Hi. destruct Hi as [[k' e] [E1 E2]].
      apply filter_In in E2. simpl in *. subst. apply E2. }
    specialize (F Hc).
    destruct ok; [destruct (has_child g p)|]; simpl; try assumption.
    rewrite look_remove. apply not_prefix in H. rewrite eqb_if by (intro; subst; tauto). assumption.
  - simpl. rewrite look_remove. apply not_prefix in H. rewrite eqb_if by (intro; subst; tauto). reflexivity.
Qed.

(* the part of the file-system invariant of a live tracker with temp directory T:
   T is a directory and below it there are only files, directly in it *)
Definition flat (T : path) (f : fs) : Prop :=
  look f T = Dir /\
  forall q, under T q = true -> look f q = Absent \/ (child_of T q = true /\ exists c, look f q = File c).

Lemma fold_flat : forall k l g,
  (forall c, In c l -> look g c = Absent \/ exists x, look g c = File x) ->
  exists g', fold_left (cu_fold (S k)) l (g, true) = (g', true) /\
             forall q, look g' q = if mem q l then Absent else look g q.
Proof.
  induction l as [|c l IH]; intros g H.
  - exists g. split; reflexivity.
  - change (fold_left (cu_fold (S k)) (c :: l) (g, true))
      with (fold_left (cu_fold (S k)) l (clean_up (S k) c g)).
    assert (M : forall q, mem q (c :: l) = path_eqb q c || mem q l) by reflexivity.
    rewrite clean_up_unfold.
    assert (Hc := H c (or_introl eq_refl)).
    destruct Hc as [Hc|[x Hc]]; rewrite Hc.
    + destruct (IH g) as [g' [E1 E2]]; [intros; apply H; right; assumption|].
      exists g'. split; [assumption|]. intro q. rewrite E2, M.
      destruct (path_eqb q c) eqn:E; simpl; [|reflexivity].
      apply path_eqb_eq in E. subst. destruct (mem c l); congruence.
    + destruct (IH (remove c g)) as [g' [E1 E2]].
      { intros c' Hi. rewrite look_remove. destruct (path_eqb c c'); [left; reflexivity | apply H; right; assumption]. }
      exists g'. split; [assumption|]. intro q. rewrite E2, look_remove, M.
      rewrite (path_eqb_sym q c). destruct (path_eqb c q); simpl; destruct (mem q l); reflexivity.
Qed.

Lemma clean_up_flat : forall k T f, flat T f ->
  exists g, clean_up (S (S k)) T f = (g, true) /\
            forall q, look g q = if is_prefix T q then Absent else look f q.
Proof.
  intros k T f [HT HB]. rewrite clean_up_unfold, HT.
  assert (Hc : forall c, In c (children f T) <-> (child_of T c = true /\ lookup f c <> None)).
  { intro c. unfold children. rewrite in_map_iff. split.
    - intros [[k' e] [E1 E2]]. apply filter_In in E2. simpl in *. subst. split; [apply E2|].
      eapply lookup_In. apply E2.
    - intros [C L]. destruct (lookup f c) as [e|] eqn:E; [|congruence].
      exists (c, e). split; [reflexivity|]. apply filter_In. split; [apply lookup_Some_In; assumption | assumption]. }
  destruct (fold_flat k (children f T) f) as [g [E1 E2]].
  { intros c Hi. apply Hc in Hi. destruct (HB c (child_under _ _ (proj1 Hi))) as [A|[_ A]]; auto. }
  rewrite E1.
  assert (Hg : forall q, under T q = true -> look g q = Absent).
  { intros q U. rewrite E2. destruct (mem q (children f T)) eqn:M; [reflexivity|].
    destruct (HB q U) as [A|[C [c A]]]; [assumption|].
    exfalso. apply mem_false in M. apply M. apply Hc. split; [assumption|].
    intro N. apply look_absent in N. congruence. }
  assert (Hh : has_child g T = false).
  { destruct (has_child g T) eqn:E; [|reflexivity]. apply has_child_spec in E.
    destruct E as [q [U L]]. exfalso. apply L. apply look_absent. apply Hg. assumption. }
  rewrite Hh. eexists. split; [reflexivity|]. intro q. rewrite look_remove.
  destruct (path_eqb T q) eqn:E.
  - apply path_eqb_eq in E. subst. assert (X : is_prefix q q = true) by (apply prefix_cases; auto).
    rewrite X. reflexivity.
  - apply path_eqb_neq in E. destruct (is_prefix T q) eqn:P.
    + apply prefix_cases in P. destruct P as [P|P]; [congruence | apply Hg; assumption].
    + rewrite E2. destruct (mem q (children f T)) eqn:M; [|reflexivity].
      apply mem_In, Hc in M. destruct M as [M _]. apply child_under, under_is_prefix in M. congruence.
Qed.

(* ------------------------------------------------------------------ putting a file *)
(* g is f with a file put at x; x was no directory and lies in a directory *)
Definition putrel (f g : fs) (x : path) : Prop :=
  look f x <> Dir /\ look f (parent x) = Dir /\
  exists c, forall q, look g q = if path_eqb x q then File c else look f q.

Lemma putrel_dir : forall f g x, putrel f g x -> forall q, look g q = Dir <-> look f q = Dir.
Proof.
  intros f g x [N [_ [c E]]] q. rewrite E. destruct (path_eqb x q) eqn:Q; [|tauto].
  apply path_eqb_eq in Q. subst. split; intro H; [discriminate | contradiction].
Qed.

Lemma putrel_file : forall f g x l, putrel f g x ->
  (exists c, look f l = File c) -> exists c, look g l = File c.
Proof.
  intros f g x l [_ [_ [c E]]] [c' H]. rewrite E. destruct (path_eqb x l); eauto.
Qed.

Lemma putrel_flat : forall T f g x, flat T f -> putrel f g x -> flat T g.
Proof.
  intros T f g x [HT HB] P. split; [apply (putrel_dir _ _ _ P); assumption|].
  intros q U. destruct P as [N [PD [c E]]]. rewrite E. destruct (path_eqb x q) eqn:Q.
  - apply path_eqb_eq in Q. subst. right. split; [|eauto].
    destruct (parent_under _ _ U) as [C|C]; [assumption|].
    destruct (HB _ C) as [A|[_ [c' A]]]; congruence.
  - apply HB. assumption.
Qed.

Definition LocInv (T : path) (f : fs) (loc : list (path * path)) : Prop :=
  forall k l, dget loc k = Some l -> child_of T l = true /\ exists c, look f l = File c.
Definition OutInv (f : fs) (loc : list (path * path)) (outl : list path) : Prop :=
  forall dst, In dst outl ->
    (exists l, dget loc dst = Some l) /\ look f dst <> Dir /\ look f (parent dst) = Dir.

Lemma putrel_loc : forall T f g x loc, putrel f g x -> LocInv T f loc -> LocInv T g loc.
Proof.
  intros T f g x loc P L k l H. destruct (L k l H) as [C F]. split; [assumption|].
  eapply putrel_file; eauto.
Qed.

Lemma putrel_out : forall f g x loc outl, putrel f g x -> OutInv f loc outl -> OutInv g loc outl.
Proof.
  intros f g x loc outl P O dst Hi. destruct (O dst Hi) as [A [B C]]. split; [assumption|]. split.
  - intro H. apply (putrel_dir _ _ _ P) in H. contradiction.
  - apply (putrel_dir _ _ _ P). assumption.
Qed.

(* ------------------------------------------------------------------ __del__: copy-out *)
Lemma copy_out_ok : forall T loc l f,
  flat T f -> LocInv T f loc -> OutInv f loc l ->
  exists g, copy_out loc l f = (g, 0) /\ flat T g /\ LocInv T g loc /\
    (forall q, ~ In q l -> look g q = look f q) /\
    (forall q, look f q <> Absent -> look g q <> Absent) /\
    ((forall d, In d l -> is_prefix T d = false) ->
     forall dst src, In dst l -> dget loc dst = Some src -> look g dst = look f src).
Proof.
  intros T loc. induction l as [|d r IH]; intros f HF HL HO.
  - exists f. split; [reflexivity|]. split; [assumption|]. split; [assumption|].
    split; [reflexivity|]. split; [auto|]. intros _ dst src [].
  - destruct (HO d (or_introl eq_refl)) as [[src Hs] [ND PD]].
    destruct (HL d src Hs) as [Cs [c Fs]].
    assert (E : copy_out loc (d :: r) f = copy_out loc r (put_file d c f)).
    { simpl. rewrite Hs. unfold copy_file. rewrite Fs, PD. simpl. destruct (look f d); congruence. }
    assert (P : putrel f (put_file d c f) d).
    { split; [assumption|]. split; [assumption|]. exists c. intro q. apply look_put_file. }
    destruct (IH (put_file d c f)) as [g [G1 [G2 [G3 [G4 [G5 G6]]]]]].
    + eapply putrel_flat; eauto.
    + eapply putrel_loc; eauto.
    + eapply putrel_out; eauto. intros x Hx. apply HO. right. assumption.
    + exists g. rewrite E. split; [assumption|]. split; [assumption|]. split; [assumption|]. split; [|split].
      * intros q Hq. rewrite G4 by (intro; apply Hq; right; assumption).
        rewrite look_put_file. rewrite eqb_if; [reflexivity|]. intro; subst. apply Hq. left. reflexivity.
      * intros q Hq. apply G5. rewrite look_put_file. destruct (path_eqb d q); [discriminate | assumption].
      * intros Hout dst src' Hi Hd.
        assert (Hsrc : forall k s, dget loc k = Some s -> look (put_file d c f) s = look f s).
        { intros k s Hk. rewrite look_put_file. rewrite eqb_if; [reflexivity|]. intro; subst.
          destruct (HL k s Hk) as [Ck _]. apply child_under, under_is_prefix in Ck.
          rewrite (Hout s (or_introl eq_refl)) in Ck. discriminate. }
        destruct (in_dec (list_eq_dec Z.eq_dec) dst r) as [Hr|Hr].
        -- rewrite (G6 (fun x Hx => Hout x (or_intror Hx)) dst src' Hr Hd). eapply Hsrc; eauto.
        -- destruct Hi as [Hi|Hi]; [|contradiction]. subst dst. rewrite G4 by assumption.
           rewrite look_put_file, path_eqb_refl. congruence.
Qed.

(* ------------------------------------------------------------------ one step of a live tracker *)
Lemma run_cons : forall s o r,
  run s (o :: r) = (let '(s1, x) := step s o in let '(s2, xs) := run s1 r in (s2, x :: xs)).
Proof. reflexivity. Qed.

Lemma fst_run_cons : forall s o r, fst (run s (o :: r)) = fst (run (fst (step s o)) r).
Proof.
  intros. rewrite run_cons. destruct (step s o) as [s1 x]. simpl. destruct (run s1 r) as [s2 xs]. reflexivity.
Qed.

Lemma fst_run_app : forall a s b, fst (run s (a ++ b)) = fst (run (fst (run s a)) b).
Proof.
  induction a as [|o a IH]; intros s b; [reflexivity|].
  rewrite <- app_comm_cons, !fst_run_cons. apply IH.
Qed.

(* what a call of a live tracker with a temp directory T does *)
Lemma step_some : forall s t T o s' x,
  s_tr s = Some t -> t_tmp t = Some T -> look (s_fs s) T = Dir -> mid_op o = true -> step s o = (s', x) ->
  exists t', s_tr s' = Some t' /\ t_tmp t' = Some T /\
  ( (s_fs s' = s_fs s /\ t' = t /\
     (forall l, x = OLoc l -> exists p, o = RealLocation p /\ dget (t_loc t) p = Some l) /\
     (forall p, o = RealLocation p -> x = match dget (t_loc t) p with Some l => OLoc l | None => OErr 4 end) /\
     (forall p, o = FileExists p -> x = match dget (t_pre t) p with Some b => OBool b | None => OErr 4 end))
  \/ (exists p c, o = WriteTo p c /\ t' = t /\ x = OOk /\
        look (s_fs s) p <> Dir /\ look (s_fs s) (parent p) = Dir /\
        forall q, look (s_fs s') q = if path_eqb p q then File c else look (s_fs s) q)
  \/ (exists p io n, o = AddFile p io n /\ x = OOk /\ add_check (s_fs s) p io = 0 /\
        look (s_fs s) (T ++ [n]) = Absent /\ T ++ [n] <> p /\
        (forall q, look (s_fs s') q =
                   if path_eqb (T ++ [n]) q then File (add_content (s_fs s) p) else look (s_fs s) q) /\
        t_loc t' = dset p (T ++ [n]) (t_loc t) /\
        t_pre t' = dset p (n_is_file (look (s_fs s) p)) (t_pre t) /\
        t_out t' = if negb io && n_is_absent (look (s_fs s) p) then t_out t ++ [p] else t_out t) ).
Proof.
  intros s t T o s' x Ht HT HD Hm Hs. destruct o as [tmp nm|p io n|p|p|p c|]; try discriminate; simpl in Hs.
  - (* AddFile *)
    rewrite Ht in Hs. unfold add_file in Hs.
    destruct (negb (add_check (s_fs s) p io =? 0)) eqn:Ec.
    { inversion Hs; subst. simpl. exists t. split; [reflexivity|]. split; [assumption|]. left.
      repeat split; intros; discriminate. }
    apply negb_false_iff, Z.eqb_eq in Ec.
    rewrite HT in Hs.
    destruct (negb (n_is_absent (look (s_fs s) (T ++ [n]))) || path_eqb (T ++ [n]) p) eqn:El.
    { inversion Hs; subst. simpl. exists t. split; [reflexivity|]. split; [assumption|]. left.
      repeat split; intros; discriminate. }
    apply orb_false_iff in El. destruct El as [El1 El2]. apply negb_false_iff, n_is_absent_true in El1.
    apply path_eqb_neq in El2.
    unfold mkstemp_clean in Hs. rewrite HD in Hs. simpl in Hs.
    set (f := s_fs s) in *. set (tp := T ++ [n]) in *.
    assert (Hp1 : forall f1, (forall q, look f1 q = if path_eqb tp q then File empty_content else look f q) ->
                  forall q, look (match look f1 p with File c => put_file tp c f1 | _ => f1 end) q =
                            if path_eqb tp q then File (add_content f p) else look f q).
    { intros f1 H1 q. unfold add_content. rewrite (H1 p). rewrite eqb_if by assumption.
      destruct (look f p) eqn:Ep; try (rewrite H1; reflexivity).
      rewrite look_put_file, H1. destruct (path_eqb tp q); reflexivity. }
    assert (Hp2 : forall f2, (forall q, look f2 q = if path_eqb tp q then File (add_content f p) else look f q) ->
                  look f2 p = look f p).
    { intros f2 H2. rewrite H2. apply eqb_if. assumption. }
    rewrite El1 in Hs. simpl in Hs.
    match type of Hs with ({| s_fs := ?F2; s_tr := Some ?T3 |}, _) = _ => set (f2 := F2) in *; set (t3 := T3) in * end.
    assert (H2 : forall q, look f2 q = if path_eqb tp q then File (add_content f p) else look f q).
    { apply Hp1. intro q. apply look_put_file. }
    inversion Hs; subst s' x. simpl. exists t3. split; [reflexivity|].
    assert (Htmp : t_tmp t3 = Some T).
    { unfold t3. fold f2. destruct (negb io && n_is_absent (look f2 p)); simpl; assumption. }
    split; [assumption|]. right. right. exists p, io, n.
    repeat split; try assumption.
    + unfold t3. fold f2. destruct (negb io && n_is_absent (look f2 p)); reflexivity.
    + unfold t3. fold f2. destruct (negb io && n_is_absent (look f2 p)); reflexivity.
    + unfold t3. fold f2. rewrite (Hp2 f2 H2). destruct (negb io && n_is_absent (look f p)); reflexivity.
  - (* RealLocation *)
    rewrite Ht in Hs. inversion Hs; subst. exists t. split; [assumption|]. split; [assumption|]. left.
    split; [reflexivity|]. split; [reflexivity|]. split; [|split].
    + intros l H. exists p. split; [reflexivity|]. destruct (dget (t_loc t) p); inversion H. reflexivity.
    + intros p' H. inversion H. reflexivity.
    + intros p' H. discriminate.
  - (* FileExists *)
    rewrite Ht in Hs. inversion Hs; subst. exists t. split; [assumption|]. split; [assumption|]. left.
    split; [reflexivity|]. split; [reflexivity|]. split; [|split].
    + intros l H. destruct (dget (t_pre t) p); discriminate.
    + intros p' H. discriminate.
    + intros p' H. inversion H. reflexivity.
  - (* WriteTo *)
    unfold write_to in Hs.
    destruct (look (s_fs s) p) eqn:Ep.
    + destruct (n_is_dir (look (s_fs s) (parent p))) eqn:Ed; inversion Hs; subst; simpl;
        exists t; (split; [assumption|]); (split; [assumption|]).
      * right. left. exists p, c. repeat split; try congruence.
        -- apply n_is_dir_true. assumption.
        -- intro q. rewrite look_put_file. reflexivity.
      * left. repeat split; intros; discriminate.
    + inversion Hs; subst; simpl. exists t. split; [assumption|]. split; [assumption|].
      left. repeat split; intros; discriminate.
    + destruct (n_is_dir (look (s_fs s) (parent p))) eqn:Ed; inversion Hs; subst; simpl;
        exists t; (split; [assumption|]); (split; [assumption|]).
      * right. left. exists p, c. repeat split; try congruence.
        -- apply n_is_dir_true. assumption.
        -- intro q. rewrite look_put_file. reflexivity.
      * left. repeat split; intros; discriminate.
Qed.

(* ------------------------------------------------------------------ the invariant of a live tracker *)
Definition Inv (T : path) (s : state) : Prop :=
  exists t, s_tr s = Some t /\ t_tmp t = Some T /\ flat T (s_fs s) /\
            LocInv T (s_fs s) (t_loc t) /\ OutInv (s_fs s) (t_loc t) (t_out t).

Lemma step_keeps_inv : forall T s o s' x,
  Inv T s -> mid_op o = true -> step s o = (s', x) -> Inv T s'.
Proof.
  intros T s o s' x [t [Ht [HT [HF [HL HO]]]]] Hm Hs.
  destruct (step_some s t T o s' x Ht HT (proj1 HF) Hm Hs) as [t' [Ht' [HT' Hc]]].
  exists t'. split; [assumption|]. split; [assumption|].
  destruct Hc as [[E1 [E2 _]] | [[p [c [_ [E2 [_ [ND [PD E]]]]]]] | [p [io [n [_ [_ [Ec [Ea [Ne [E [EL [_ EO]]]]]]]]]]]]].
  - rewrite E1. subst t'. auto.
  - subst t'. assert (P : putrel (s_fs s) (s_fs s') p) by (split; [assumption|]; split; [assumption|]; eauto).
    split; [eapply putrel_flat; eauto|]. split; [eapply putrel_loc; eauto | eapply putrel_out; eauto].
  - assert (P : putrel (s_fs s) (s_fs s') (T ++ [n])).
    { split; [congruence|]. split; [rewrite parent_child; apply HF|]. eauto. }
    split; [eapply putrel_flat; eauto|].
    assert (HL' : LocInv T (s_fs s') (t_loc t')).
    { rewrite EL. intros k l Hk. rewrite dget_dset in Hk. destruct (path_eqb p k).
      - inversion Hk; subst l. split; [apply child_of_spec; eauto|].
        rewrite E, path_eqb_refl. eauto.
      - eapply putrel_loc; eauto. }
    split; [assumption|].
    assert (HO' : OutInv (s_fs s') (t_loc t') (t_out t)).
    { intros dst Hi. destruct (putrel_out _ _ _ _ _ P HO dst Hi) as [[l A] B]. split; [|assumption].
      rewrite EL, dget_dset. destruct (path_eqb p dst); eauto. }
    rewrite EO. destruct (negb io && n_is_absent (look (s_fs s) p)) eqn:Eb; [|assumption].
    apply andb_true_iff in Eb. destruct Eb as [Eio Eab]. apply negb_true_iff in Eio.
    apply n_is_absent_true in Eab. subst io.
    intros dst Hi. apply in_app_or in Hi. destruct Hi as [Hi|[Hi|[]]]; [apply HO'; assumption|]. subst dst.
    split; [rewrite EL, dget_dset, path_eqb_refl; eauto|].
    unfold add_check in Ec. rewrite Eab in Ec. simpl in Ec.
    destruct (n_is_dir (look (s_fs s) (parent p))) eqn:Ed; [|discriminate]. apply n_is_dir_true in Ed.
    split.
    + rewrite E, eqb_if by assumption. congruence.
    + apply (putrel_dir _ _ _ P). assumption.
Qed.

(* induction over the calls of one life *)
Lemma run_ind_u : forall (R : state -> Prop),
  (forall s o s' x, R s -> mid_op o = true -> step s o = (s', x) -> R s') ->
  forall mid s, forallb mid_op mid = true -> R s -> R (fst (run s mid)).
Proof.
  intros R HR. induction mid as [|o r IH]; intros s Hm H0; [assumption|].
  simpl in Hm. apply andb_true_iff in Hm. destruct Hm as [Hm1 Hm2].
  rewrite fst_run_cons. apply IH; [assumption|].
  destruct (step s o) as [s1 x] eqn:E. simpl. eapply HR; eauto.
Qed.

Lemma run_ind_w : forall (R : state -> list path -> Prop),
  (forall s H o s' x, R s H -> mid_op o = true -> step s o = (s', x) ->
      (forall q c, o = WriteTo q c -> In q H) ->
      R s' (match x with OLoc l => l :: H | _ => H end)) ->
  forall mid s H, forallb mid_op mid = true -> writes_ok s H mid = true -> R s H ->
  exists H', R (fst (run s mid)) H'.
Proof.
  intros R HR. induction mid as [|o r IH]; intros s H Hm Hw H0; [exists H; assumption|].
  simpl in Hm. apply andb_true_iff in Hm. destruct Hm as [Hm1 Hm2].
  rewrite fst_run_cons. simpl in Hw. destruct (step s o) as [s1 x] eqn:E. simpl.
  apply andb_true_iff in Hw. destruct Hw as [Hw1 Hw2].
  eapply IH; [assumption | exact Hw2 |].
  eapply HR; eauto. intros q c Eo. subst o. apply mem_In. assumption.
Qed.

Lemma run_keeps_inv : forall T mid s, forallb mid_op mid = true -> Inv T s -> Inv T (fst (run s mid)).
Proof. intros T. apply run_ind_u. intros. eapply step_keeps_inv; eauto. Qed.

(* ------------------------------------------------------------------ FileTracker(tmp_dir) and del *)
Lemma create_some : forall f0 d n0,
  look f0 d = Dir -> look f0 (d ++ [n0]) = Absent ->
  step (start f0) (Create (Some d) n0) =
  ({| s_fs := put_dir (d ++ [n0]) f0; s_tr := Some (new_tracker (Some (d ++ [n0]))) |}, OOk).
Proof. intros f0 d n0 H1 H2. simpl. unfold create. rewrite H1, H2. reflexivity. Qed.

Lemma create_inv : forall f0 d n0, wf f0 -> look f0 (d ++ [n0]) = Absent ->
  Inv (d ++ [n0]) {| s_fs := put_dir (d ++ [n0]) f0; s_tr := Some (new_tracker (Some (d ++ [n0]))) |}.
Proof.
  intros f0 d n0 W A. eexists. split; [reflexivity|]. split; [reflexivity|]. simpl. split; [|split].
  - split; [rewrite look_put_dir, path_eqb_refl; reflexivity|].
    intros q U. left. rewrite look_put_dir. rewrite eqb_if by (intro; subst; eapply under_neq; eauto).
    eapply wf_under_absent; eauto. apply under_is_prefix. assumption.
  - intros k l H. discriminate.
  - intros dst [].
Qed.

Lemma del_spec : forall T s, Inv T s ->
  exists t g h, s_tr s = Some t /\
    copy_out (t_loc t) (t_out t) (s_fs s) = (g, 0) /\
    step s Del = ({| s_fs := h; s_tr := None |}, OOk) /\
    (forall q, look h q = if is_prefix T q then Absent else look g q) /\
    (forall q, ~ In q (t_out t) -> look g q = look (s_fs s) q) /\
    (forall q, look (s_fs s) q <> Absent -> look g q <> Absent) /\
    ((forall d, In d (t_out t) -> is_prefix T d = false) ->
     forall dst src, In dst (t_out t) -> dget (t_loc t) dst = Some src -> look g dst = look (s_fs s) src).
Proof.
  intros T s [t [Ht [HT [HF [HL HO]]]]].
  destruct (copy_out_ok T (t_loc t) (t_out t) (s_fs s) HF HL HO) as [g [G1 [G2 [_ [G4 [G5 G6]]]]]].
  assert (Hlen : exists k, length g = S k).
  { destruct g as [|e g]; [|simpl; eauto]. destruct G2 as [G2 _]. discriminate. }
  destruct Hlen as [k Hk].
  destruct (clean_up_flat k T g G2) as [h [H1 H2]].
  exists t, g, h. split; [assumption|]. split; [assumption|]. split.
  - unfold step. rewrite Ht. unfold del. rewrite G1. change (negb (0 =? 0)) with false. cbv iota.
    rewrite HT, Hk, H1. reflexivity.
  - auto.
Qed.

(* induction with a side condition on every call *)
Lemma run_ind_p : forall (P : op -> bool) (R : state -> Prop),
  (forall s o s' x, R s -> P o = true -> step s o = (s', x) -> R s') ->
  forall mid s, forallb P mid = true -> R s -> R (fst (run s mid)).
Proof.
  intros P R HR. induction mid as [|o r IH]; intros s Hm H0; [assumption|].
  simpl in Hm. apply andb_true_iff in Hm. destruct Hm as [Hm1 Hm2].
  rewrite fst_run_cons. apply IH; [assumption|].
  destruct (step s o) as [s1 x] eqn:E. simpl. eapply HR; eauto.
Qed.

Lemma life_alive : forall f0 tmp n0 mid, life f0 tmp n0 mid = fst (step (alive f0 tmp n0 mid) Del).
Proof.
  intros. unfold life, alive. rewrite app_comm_cons, fst_run_app.
  rewrite (fst_run_cons _ Del []). reflexivity.
Qed.

Lemma alive_some : forall f0 d n0 mid, look f0 d = Dir -> look f0 (d ++ [n0]) = Absent ->
  alive f0 (Some d) n0 mid =
  fst (run {| s_fs := put_dir (d ++ [n0]) f0; s_tr := Some (new_tracker (Some (d ++ [n0]))) |} mid).
Proof. intros. unfold alive. rewrite fst_run_cons, create_some by assumption. reflexivity. Qed.

Lemma alive_inv : forall f0 d n0 mid, wf f0 -> look f0 d = Dir -> look f0 (d ++ [n0]) = Absent ->
  forallb mid_op mid = true -> Inv (d ++ [n0]) (alive f0 (Some d) n0 mid).
Proof.
  intros. rewrite alive_some by assumption. apply run_keeps_inv; [assumption|]. apply create_inv; assumption.
Qed.

Definition outs_of (s : state) : list path := match s_tr s with Some t => t_out t | None => [] end.

(* what is copied out at del was requested by add_file(.., input_only=False) *)
Lemma run_out_sub : forall T mid s, forallb mid_op mid = true -> Inv T s ->
  forall dst, In dst (outs_of (fst (run s mid))) -> In dst (outs_of s) \/ In dst (requested mid).
Proof.
  intros T. induction mid as [|o r IH]; intros s Hm HI dst Hd; [left; assumption|].
  simpl in Hm. apply andb_true_iff in Hm. destruct Hm as [Hm1 Hm2].
  rewrite fst_run_cons in Hd. destruct (step s o) as [s1 x] eqn:E. simpl in Hd.
  assert (HI1 := step_keeps_inv T s o s1 x HI Hm1 E).
  destruct (IH s1 Hm2 HI1 dst Hd) as [A|A].
  - destruct HI as [t [Ht [HT [HF _]]]].
    destruct (step_some s t T o s1 x Ht HT (proj1 HF) Hm1 E) as [t' [Ht' [HT' Hc]]].
    unfold outs_of in A |- *. rewrite Ht' in A. rewrite Ht.
    destruct Hc as [[_ [E2 _]] | [[p [c [_ [E2 _]]]] | [p [io [n [Eo [_ [_ [_ [_ [_ [_ [_ EO]]]]]]]]]]]]].
    + subst t'. left. assumption.
    + subst t'. left. assumption.
    + rewrite EO in A. destruct (negb io && n_is_absent (look (s_fs s) p)) eqn:Eb; [|left; assumption].
      apply in_app_or in A. destruct A as [A|[A|[]]]; [left; assumption|]. subst dst.
      right. subst o. apply andb_true_iff in Eb. destruct Eb as [Eb _]. apply negb_true_iff in Eb. subst io.
      simpl. left. reflexivity.
  - right. simpl. apply in_or_app. right. assumption.
Qed.

(* ------------------------------------------------------------------ what a life does outside its own directory
   (NO hypothesis on where the environment writes) *)
Lemma child_prefix : forall T l, child_of T l = true -> is_prefix T l = true.
Proof. intros. apply under_is_prefix, child_under. assumption. Qed.

(* nothing that existed before the life disappears while the tracker lives; what is scheduled
   for copy-out did not exist before the life *)
Definition Rm (T : path) (f0 : fs) (s : state) : Prop :=
  Inv T s /\
  (forall q, look f0 q <> Absent -> look (s_fs s) q <> Absent) /\
  (forall dst, In dst (outs_of s) -> look f0 dst = Absent).

Lemma step_keeps_Rm : forall T f0 s o s' x,
  Rm T f0 s -> mid_op o = true -> step s o = (s', x) -> Rm T f0 s'.
Proof.
  intros T f0 s o s' x [HI [HM HOa]] Hm Hs.
  assert (HI' := step_keeps_inv T s o s' x HI Hm Hs).
  split; [assumption|].
  destruct HI as [t [Ht [HT [HF [HL HO]]]]].
  destruct (step_some s t T o s' x Ht HT (proj1 HF) Hm Hs) as [t' [Ht' [HT' Hc]]].
  destruct Hc as [[E1 [E2 _]] | [[p [c [Eo [E2 [Ex [ND [PD E]]]]]]] | [p [io [n [Eo [Ex [Ec [Ea [Ne [E [EL [_ EO]]]]]]]]]]]]].
  - subst t'. rewrite E1. split; [assumption|]. unfold outs_of in *. rewrite Ht'. rewrite Ht in HOa. assumption.
  - subst t'. split.
    + intros q Hq. rewrite E. destruct (path_eqb p q); [discriminate | apply HM; assumption].
    + unfold outs_of in *. rewrite Ht'. rewrite Ht in HOa. assumption.
  - split.
    + intros q Hq. rewrite E. destruct (path_eqb (T ++ [n]) q); [discriminate | apply HM; assumption].
    + unfold outs_of in *. rewrite Ht'. rewrite Ht in HOa. rewrite EO.
      destruct (negb io && n_is_absent (look (s_fs s) p)) eqn:Eb; [|assumption].
      intros dst Hd. apply in_app_or in Hd. destruct Hd as [Hd|[Hd|[]]]; [apply HOa; assumption|].
      subst dst. apply andb_true_iff in Eb. destruct Eb as [_ Eb]. apply n_is_absent_true in Eb.
      destruct (look f0 p) eqn:E0; [reflexivity| |]; exfalso; apply (HM p); solve [rewrite E0; discriminate | assumption].
Qed.

Lemma alive_Rm : forall f0 d n0 mid, wf f0 -> look f0 d = Dir -> look f0 (d ++ [n0]) = Absent ->
  forallb mid_op mid = true -> Rm (d ++ [n0]) f0 (alive f0 (Some d) n0 mid).
Proof.
  intros f0 d n0 mid W HD HA Hm. rewrite alive_some by assumption.
  apply (run_ind_u (Rm (d ++ [n0]) f0)); [intros; eapply step_keeps_Rm; eauto | assumption |].
  split; [apply create_inv; assumption|]. split.
  - intros q Hq. simpl. rewrite look_put_dir. destruct (path_eqb (d ++ [n0]) q); [discriminate | assumption].
  - intros dst [].
Qed.

(* a path outside the tracker's directory that the environment does not write keeps what it held *)
Lemma nw_and : forall (P : op -> bool) mid,
  forallb mid_op mid = true -> forallb P mid = true -> forallb (fun o => mid_op o && P o) mid = true.
Proof.
  intros P mid Hm Hw. induction mid as [|o r IH]; [reflexivity|]. simpl in *.
  apply andb_true_iff in Hm. apply andb_true_iff in Hw. destruct Hm, Hw.
  apply andb_true_iff. split; [apply andb_true_iff; split; assumption | auto].
Qed.

Lemma alive_frame : forall f0 d n0 mid q, wf f0 -> look f0 d = Dir -> look f0 (d ++ [n0]) = Absent ->
  forallb mid_op mid = true -> is_prefix (d ++ [n0]) q = false ->
  forallb (fun o => negb (writes_to q o)) mid = true ->
  look (s_fs (alive f0 (Some d) n0 mid)) q = look f0 q.
Proof.
  intros f0 d n0 mid q W HD HA Hm Hq Hw. rewrite alive_some by assumption.
  apply (run_ind_p (fun o => mid_op o && negb (writes_to q o))
           (fun s => Inv (d ++ [n0]) s /\ look (s_fs s) q = look f0 q)).
  - intros s o s' x [HI HQ] Ho Hs. apply andb_true_iff in Ho. destruct Ho as [Ho1 Ho2].
    apply negb_true_iff in Ho2. split; [eapply step_keeps_inv; eauto|].
    destruct HI as [t [Ht [HT [HF _]]]].
    destruct (step_some s t _ o s' x Ht HT (proj1 HF) Ho1 Hs) as [t' [_ [_ Hc]]].
    destruct Hc as [[E1 _] | [[p [c [Eo [_ [_ [_ [_ E]]]]]]] | [p [io [n [_ [_ [_ [_ [_ [E _]]]]]]]]]]].
    + rewrite E1. assumption.
    + subst o. simpl in Ho2. rewrite E, Ho2. assumption.
    + rewrite E. rewrite eqb_if; [assumption|]. intro; subst q.
      assert (X : is_prefix (d ++ [n0]) ((d ++ [n0]) ++ [n]) = true) by (apply is_prefix_spec; eauto). congruence.
  - apply nw_and; assumption.
  - split; [apply create_inv; assumption|]. simpl. rewrite look_put_dir.
    apply not_prefix in Hq. rewrite eqb_if by (intro; subst; tauto). reflexivity.
Qed.

Lemma not_written : forall q mid, ~ In q (written mid) -> forallb (fun o => negb (writes_to q o)) mid = true.
Proof.
  intros q mid H. induction mid as [|o r IH]; [reflexivity|]. simpl.
  apply andb_true_iff. split.
  - destruct o as [| | | |p c|]; try reflexivity. simpl. apply negb_true_iff. apply path_eqb_neq.
    intro; subst p. apply H. simpl. auto.
  - apply IH. intro Hi. apply H. unfold written. simpl. apply in_or_app. right. exact Hi.
Qed.

Lemma outs_requested : forall f0 d n0 mid, wf f0 -> look f0 d = Dir -> look f0 (d ++ [n0]) = Absent ->
  forallb mid_op mid = true ->
  forall dst, In dst (outs_of (alive f0 (Some d) n0 mid)) -> In dst (requested mid).
Proof.
  intros f0 d n0 mid W HD HA Hm dst Hd. rewrite alive_some in Hd by assumption.
  destruct (run_out_sub (d ++ [n0]) mid _ Hm (create_inv f0 d n0 W HA) dst Hd) as [A|A]; [contradiction | assumption].
Qed.

(* ------------------------------------------------------------------ (2) scratch empty *)
Theorem tracker_scratch_empty : forall f0 d n0 mid,
  wf f0 -> look f0 d = Dir -> look f0 (d ++ [n0]) = Absent -> forallb mid_op mid = true ->
  s_tr (life f0 (Some d) n0 mid) = None /\
  snd (step (alive f0 (Some d) n0 mid) Del) = OOk /\
  (forall q, is_prefix (d ++ [n0]) q = true -> look (s_fs (life f0 (Some d) n0 mid)) q = Absent) /\
  (forall q, look f0 q = Absent -> look (s_fs (life f0 (Some d) n0 mid)) q <> Absent ->
             In q (requested mid) \/ In q (written mid)).
Proof.
  intros f0 d n0 mid W HD HA Hm.
  assert (HI := alive_inv f0 d n0 mid W HD HA Hm).
  destruct (del_spec (d ++ [n0]) _ HI) as [t [g [h [Ht [Hc [Hs [Hh [Hg _]]]]]]]].
  rewrite life_alive, Hs. simpl. split; [reflexivity|]. split; [reflexivity|]. split.
  - intros q Hq. rewrite Hh, Hq. reflexivity.
  - intros q Hq0 Hq1.
    rewrite Hh in Hq1. destruct (is_prefix (d ++ [n0]) q) eqn:Ep; [congruence|].
    destruct (in_dec (list_eq_dec Z.eq_dec) q (t_out t)) as [Hi|Hi].
    + left. apply (outs_requested f0 d n0 mid W HD HA Hm). unfold outs_of. rewrite Ht. assumption.
    + destruct (in_dec (list_eq_dec Z.eq_dec) q (written mid)) as [Hw|Hw]; [right; assumption|].
      exfalso. apply Hq1. rewrite Hg by assumption.
      rewrite (alive_frame f0 d n0 mid q W HD HA Hm Ep (not_written q mid Hw)). assumption.
Qed.

(* ------------------------------------------------------------------ (1) inputs untouched *)
Theorem tracker_inputs_untouched_some : forall f0 d n0 mid p c,
  wf f0 -> look f0 d = Dir -> look f0 (d ++ [n0]) = Absent -> forallb mid_op mid = true ->
  forallb (fun o => negb (writes_to p o)) mid = true ->
  look f0 p = File c ->
  look (s_fs (alive f0 (Some d) n0 mid)) p = File c /\
  look (s_fs (life f0 (Some d) n0 mid)) p = File c.
Proof.
  intros f0 d n0 mid p c W HD HA Hm Hw Hp.
  assert (Hout : is_prefix (d ++ [n0]) p = false).
  { destruct (is_prefix (d ++ [n0]) p) eqn:E; [|reflexivity].
    rewrite (wf_under_absent f0 _ p W HA E) in Hp. discriminate. }
  assert (H1 : look (s_fs (alive f0 (Some d) n0 mid)) p = File c).
  { rewrite (alive_frame f0 d n0 mid p W HD HA Hm Hout Hw). assumption. }
  split; [assumption|].
  destruct (alive_Rm f0 d n0 mid W HD HA Hm) as [HI [_ HOa]].
  destruct (del_spec _ _ HI) as [t [g [h [Ht [Hc [Hs [Hh [Hg _]]]]]]]].
  rewrite life_alive, Hs. simpl. rewrite Hh, Hout, Hg; [assumption|].
  intro Hi. assert (X := HOa p). unfold outs_of in X. rewrite Ht in X. specialize (X Hi). congruence.
Qed.

(* without a temp directory the tracker does nothing to the file system *)
Definition NoneInv (s : state) : Prop :=
  exists t, s_tr s = Some t /\ t_tmp t = None /\ t_out t = [] /\
            forall k l, dget (t_loc t) k = Some l -> l = k.

Lemma step_none : forall s o s' x,
  NoneInv s -> mid_op o = true -> step s o = (s', x) ->
  NoneInv s' /\
  (forall q, writes_to q o = false -> look (s_fs s') q = look (s_fs s) q) /\
  (forall p l, o = RealLocation p -> x = OLoc l -> l = p).
Proof.
  intros s o s' x [t [Ht [HT [HO HL]]]] Hm Hs.
  destruct o as [tmp nm|p io n|p|p|p c|]; try discriminate; simpl in Hs.
  - rewrite Ht in Hs. unfold add_file in Hs.
    destruct (negb (add_check (s_fs s) p io =? 0)).
    + inversion Hs; subst. split; [exists t; auto|]. split; [reflexivity|]. intros; discriminate.
    + rewrite HT in Hs. inversion Hs; subst. simpl. split; [|split; [reflexivity | intros; discriminate]].
      eexists. split; [reflexivity|]. simpl. split; [assumption|]. split; [assumption|].
      intros k l Hk. rewrite dget_dset in Hk. destruct (path_eqb p k) eqn:E; [|auto].
      apply path_eqb_eq in E. congruence.
  - rewrite Ht in Hs. inversion Hs; subst. split; [exists t; auto|]. split; [reflexivity|].
    intros p' l Hp Hx. inversion Hp; subst p'. destruct (dget (t_loc t) p) eqn:E; inversion Hx; subst.
    apply HL. assumption.
  - rewrite Ht in Hs. inversion Hs; subst. split; [exists t; auto|]. split; [reflexivity|]. intros; discriminate.
  - unfold write_to in Hs.
    assert (X : forall g r, (g = s_fs s \/ g = put_file p c (s_fs s)) ->
                ({| s_fs := g; s_tr := s_tr s |}, r) = (s', x) ->
                NoneInv s' /\ (forall q, writes_to q (WriteTo p c) = false -> look (s_fs s') q = look (s_fs s) q) /\
                (forall p0 l, WriteTo p c = RealLocation p0 -> x = OLoc l -> l = p0)).
    { intros g r Hg H. inversion H; subst s' x. simpl. split; [exists t; auto|]. split; [|intros; discriminate].
      intros q Hq. simpl in Hq. destruct Hg as [Hg|Hg]; subst g; [reflexivity|].
      rewrite look_put_file, Hq. reflexivity. }
    assert (Y : forall g r, (g = s_fs s \/ g = put_file p c (s_fs s)) ->
                (let '(g0, r0) := (g, r) in ({| s_fs := g0; s_tr := s_tr s |}, r0)) = (s', x) ->
                NoneInv s' /\ (forall q, writes_to q (WriteTo p c) = false -> look (s_fs s') q = look (s_fs s) q) /\
                (forall p0 l, WriteTo p c = RealLocation p0 -> x = OLoc l -> l = p0)) by exact X.
    destruct (look (s_fs s) p); [|exact (Y _ _ (or_introl eq_refl) Hs)|];
      destruct (n_is_dir (look (s_fs s) (parent p)));
      first [exact (Y _ _ (or_introl eq_refl) Hs) | exact (Y _ _ (or_intror eq_refl) Hs)].
Qed.

Theorem tracker_inputs_untouched_none : forall f0 n0 mid q,
  forallb mid_op mid = true ->
  forallb (fun o => negb (writes_to q o)) mid = true ->
  look (s_fs (alive f0 None n0 mid)) q = look f0 q /\
  look (s_fs (life f0 None n0 mid)) q = look f0 q /\
  snd (step (alive f0 None n0 mid) Del) = OOk /\
  (forall p l, snd (step (alive f0 None n0 mid) (RealLocation p)) = OLoc l -> l = p).
Proof.
  intros f0 n0 mid q Hm Hw.
  assert (H : NoneInv (alive f0 None n0 mid) /\ look (s_fs (alive f0 None n0 mid)) q = look f0 q).
  { unfold alive. rewrite fst_run_cons. simpl.
    apply (run_ind_p (fun o => mid_op o && negb (writes_to q o))
             (fun s => NoneInv s /\ look (s_fs s) q = look f0 q)).
    - intros s o s' x [HN HQ] Ho Hs. apply andb_true_iff in Ho. destruct Ho as [Ho1 Ho2].
      apply negb_true_iff in Ho2. destruct (step_none s o s' x HN Ho1 Hs) as [A [B _]].
      split; [assumption|]. rewrite B; assumption.
    - clear -Hm Hw. induction mid as [|o r IH]; [reflexivity|]. simpl in *.
      apply andb_true_iff in Hm. apply andb_true_iff in Hw. destruct Hm, Hw.
      apply andb_true_iff. split; [apply andb_true_iff; split; assumption | auto].
    - split; [|reflexivity]. eexists. split; [reflexivity|]. simpl. split; [reflexivity|]. split; [reflexivity|].
      intros; discriminate. }
  destruct H as [[t [Ht [HT [HO HL]]]] HQ]. split; [assumption|].
  assert (Hd : step (alive f0 None n0 mid) Del = ({| s_fs := s_fs (alive f0 None n0 mid); s_tr := None |}, OOk)).
  { simpl. rewrite Ht. unfold del. rewrite HO, HT. reflexivity. }
  rewrite life_alive, Hd. simpl. split; [assumption|]. split; [reflexivity|].
  intros p l Hx. simpl in Hx. rewrite Ht in Hx. simpl in Hx.
  destruct (dget (t_loc t) p) eqn:E; inversion Hx; subst. apply HL. assumption.
Qed.

(* ------------------------------------------------------------------ (3) outputs only where requested *)
Lemma step_keeps_look : forall T s o s' x l,
  Inv T s -> mid_op o = true -> step s o = (s', x) -> writes_to l o = false ->
  look (s_fs s) l <> Absent -> look (s_fs s') l = look (s_fs s) l.
Proof.
  intros T s o s' x l [t [Ht [HT [HF _]]]] Hm Hs Hw Hl.
  destruct (step_some s t T o s' x Ht HT (proj1 HF) Hm Hs) as [t' [_ [_ Hc]]].
  destruct Hc as [[E1 _] | [[p [c [Eo [_ [_ [_ [_ E]]]]]]] | [p [io [n [_ [_ [_ [Ea [_ [E _]]]]]]]]]]].
  - rewrite E1. reflexivity.
  - subst o. simpl in Hw. rewrite E, Hw. reflexivity.
  - rewrite E. rewrite eqb_if; [reflexivity|]. intro; subst l. contradiction.
Qed.

(* a file stays a file while the tracker lives *)
Lemma file_stays : forall T l mid s, forallb mid_op mid = true -> Inv T s ->
  (exists c, look (s_fs s) l = File c) -> exists c, look (s_fs (fst (run s mid))) l = File c.
Proof.
  intros T l mid s Hm HI HF.
  assert (X : Inv T (fst (run s mid)) /\ exists c, look (s_fs (fst (run s mid))) l = File c); [|apply X].
  apply (run_ind_u (fun s => Inv T s /\ exists c, look (s_fs s) l = File c)); [|assumption|auto].
  intros s1 o s2 x [HI1 HF1] Ho Hs. split; [eapply step_keeps_inv; eauto|].
  destruct HI1 as [t [Ht [HT [HFl _]]]].
  destruct (step_some s1 t T o s2 x Ht HT (proj1 HFl) Ho Hs) as [t' [_ [_ Hc]]].
  destruct Hc as [[E1 _] | [[p [c [_ [_ [_ [_ [_ E]]]]]]] | [p [io [n [_ [_ [_ [_ [_ [E _]]]]]]]]]]].
  - rewrite E1. assumption.
  - destruct HF1 as [c1 HF1]. rewrite E. destruct (path_eqb p l); eauto.
  - destruct HF1 as [c1 HF1]. rewrite E. destruct (path_eqb (T ++ [n]) l); eauto.
Qed.

(* a location real_location has returned is a file directly in the tracker's directory, from
   then on *)
Lemma handed_file : forall T mid s l, forallb mid_op mid = true -> Inv T s ->
  In (OLoc l) (snd (run s mid)) ->
  child_of T l = true /\ exists c, look (s_fs (fst (run s mid))) l = File c.
Proof.
  intros T. induction mid as [|o r IH]; intros s l Hm HI Hin; [contradiction|].
  simpl in Hm. apply andb_true_iff in Hm. destruct Hm as [Hm1 Hm2].
  rewrite fst_run_cons. rewrite run_cons in Hin. destruct (step s o) as [s1 x] eqn:E.
  assert (HI1 := step_keeps_inv T s o s1 x HI Hm1 E).
  destruct (run s1 r) as [s2 xs] eqn:Er. simpl in Hin. simpl fst.
  destruct Hin as [Hx|Hx].
  - subst x. destruct HI as [t [Ht [HT [HF [HL HO]]]]].
    destruct (step_some s t T o s1 (OLoc l) Ht HT (proj1 HF) Hm1 E) as [t' [Ht' [HT' Hc]]].
    destruct Hc as [[E1 [E2 [E3 _]]] | [[p [c [_ [_ [Ex _]]]]] | [p [io [n [_ [Ex _]]]]]]]; try discriminate.
    destruct (E3 l eq_refl) as [p [_ Hp]]. destruct (HL p l Hp) as [C F]. split; [assumption|].
    apply (file_stays T l r s1 Hm2 HI1). rewrite E1. assumption.
  - replace s2 with (fst (run s1 r)) by (rewrite Er; reflexivity).
    apply IH; [assumption | assumption | rewrite Er; assumption].
Qed.

(* a handed-out location can be written, whenever *)
Lemma handed_writable : forall f0 d n0 m1 l c, wf f0 -> look f0 d = Dir -> look f0 (d ++ [n0]) = Absent ->
  forallb mid_op m1 = true ->
  In (OLoc l) (snd (run (start f0) (Create (Some d) n0 :: m1))) ->
  snd (step (alive f0 (Some d) n0 m1) (WriteTo l c)) = OOk.
Proof.
  intros f0 d n0 m1 l c W HD HA Hm Hin.
  rewrite run_cons, create_some in Hin by assumption.
  set (s1 := {| s_fs := put_dir (d ++ [n0]) f0; s_tr := Some (new_tracker (Some (d ++ [n0]))) |}) in *.
  destruct (run s1 m1) as [s2 xs] eqn:Er. simpl in Hin. destruct Hin as [Hin|Hin]; [discriminate|].
  destruct (handed_file (d ++ [n0]) m1 s1 l Hm (create_inv f0 d n0 W HA)) as [Cl [c0 Fl]]; [rewrite Er; assumption|].
  assert (HI := alive_inv f0 d n0 m1 W HD HA Hm).
  rewrite alive_some in * by assumption. fold s1 in HI |- *.
  destruct HI as [t [_ [_ [[HTd _] _]]]].
  simpl. unfold write_to. rewrite Fl.
  apply child_of_spec in Cl. destruct Cl as [n Cl]. subst l. rewrite parent_child, HTd. reflexivity.
Qed.

(* whatever the environment wrote successfully — to a handed-out location or anywhere else —
   is what the path holds while the tracker lives, until the environment writes it again *)
Theorem tracker_written_holds_last_write : forall f0 d n0 m1 l c m2,
  wf f0 -> look f0 d = Dir -> look f0 (d ++ [n0]) = Absent ->
  forallb mid_op (m1 ++ WriteTo l c :: m2) = true ->
  snd (step (alive f0 (Some d) n0 m1) (WriteTo l c)) = OOk ->
  forallb (fun o => negb (writes_to l o)) m2 = true ->
  look (s_fs (alive f0 (Some d) n0 (m1 ++ WriteTo l c :: m2))) l = File c.
Proof.
  intros f0 d n0 m1 l c m2 W HD HA Hm Hok Hn.
  rewrite forallb_app in Hm. apply andb_true_iff in Hm. destruct Hm as [Hm1 Hm2].
  simpl in Hm2.
  assert (HI := alive_inv f0 d n0 m1 W HD HA Hm1).
  rewrite alive_some in * by assumption.
  set (s1 := {| s_fs := put_dir (d ++ [n0]) f0; s_tr := Some (new_tracker (Some (d ++ [n0]))) |}) in *.
  rewrite fst_run_app, fst_run_cons.
  set (sa := fst (run s1 m1)) in *.
  destruct (step sa (WriteTo l c)) as [sb x] eqn:Es. simpl in Hok. subst x.
  assert (HIb := step_keeps_inv _ _ (WriteTo l c) _ _ HI eq_refl Es).
  assert (Hb : look (s_fs sb) l = File c).
  { simpl in Es. unfold write_to in Es.
    destruct (look (s_fs sa) l); [|discriminate|];
      destruct (n_is_dir (look (s_fs sa) (parent l))); inversion Es; subst; simpl;
      rewrite look_put_file, path_eqb_refl; reflexivity. }
  simpl.
  apply (run_ind_p (fun o => mid_op o && negb (writes_to l o))
           (fun s => Inv (d ++ [n0]) s /\ look (s_fs s) l = File c)).
  - intros s o s' x' [HIs HLs] Ho Hs. apply andb_true_iff in Ho. destruct Ho as [Ho1 Ho2].
    apply negb_true_iff in Ho2. split; [eapply step_keeps_inv; eauto|].
    rewrite (step_keeps_look _ _ _ _ _ _ HIs Ho1 Hs Ho2); [assumption | congruence].
  - apply nw_and; assumption.
  - split; assumption.
Qed.

Theorem tracker_location_holds_last_write : forall f0 d n0 m1 l c m2,
  wf f0 -> look f0 d = Dir -> look f0 (d ++ [n0]) = Absent ->
  forallb mid_op (m1 ++ WriteTo l c :: m2) = true ->
  In (OLoc l) (snd (run (start f0) (Create (Some d) n0 :: m1))) \/
    snd (step (alive f0 (Some d) n0 m1) (WriteTo l c)) = OOk ->
  forallb (fun o => negb (writes_to l o)) m2 = true ->
  look (s_fs (alive f0 (Some d) n0 (m1 ++ WriteTo l c :: m2))) l = File c.
Proof.
  intros f0 d n0 m1 l c m2 W HD HA Hm Hh Hn.
  apply tracker_written_holds_last_write; try assumption.
  destruct Hh as [Hh|Hh]; [|assumption].
  apply handed_writable; try assumption.
  rewrite forallb_app in Hm. apply andb_true_iff in Hm. apply Hm.
Qed.

Theorem tracker_outputs_only_where_requested : forall f0 d n0 mid,
  wf f0 -> look f0 d = Dir -> look f0 (d ++ [n0]) = Absent -> forallb mid_op mid = true ->
  (forall q, look f0 q = Absent -> look (s_fs (life f0 (Some d) n0 mid)) q <> Absent ->
             In q (requested mid) \/ In q (written mid)) /\
  (forall dst, In dst (outs_of (alive f0 (Some d) n0 mid)) -> In dst (requested mid) /\ look f0 dst = Absent) /\
  ((forall p, In p (requested mid) -> is_prefix (d ++ [n0]) p = false) ->
   forall dst, In dst (outs_of (alive f0 (Some d) n0 mid)) ->
   exists src c, snd (step (alive f0 (Some d) n0 mid) (RealLocation dst)) = OLoc src /\
                 child_of (d ++ [n0]) src = true /\
                 look (s_fs (alive f0 (Some d) n0 mid)) src = File c /\
                 look (s_fs (life f0 (Some d) n0 mid)) dst = File c) /\
  (forall q c, is_prefix (d ++ [n0]) q = false -> ~ In q (outs_of (alive f0 (Some d) n0 mid)) ->
     look (s_fs (alive f0 (Some d) n0 mid)) q = File c -> look (s_fs (life f0 (Some d) n0 mid)) q = File c).
Proof.
  intros f0 d n0 mid W HD HA Hm.
  split; [apply (tracker_scratch_empty f0 d n0 mid W HD HA Hm)|].
  assert (Hsub := outs_requested f0 d n0 mid W HD HA Hm).
  destruct (alive_Rm f0 d n0 mid W HD HA Hm) as [HI [_ HOa]].
  split; [intros dst Hd; split; auto|]. split.
  - intros Hreq dst Hd.
    destruct (del_spec _ _ HI) as [t [g [h [Ht [Hc [Hs [Hh [Hg [_ Hcont]]]]]]]]].
    unfold outs_of in Hd, Hsub. rewrite Ht in Hd, Hsub.
    destruct HI as [t0 [Ht0 [_ [_ [HL HO]]]]]. rewrite Ht in Ht0. inversion Ht0; subst t0.
    destruct (HO dst Hd) as [[src Hsrc] _]. destruct (HL dst src Hsrc) as [Csrc [c Fc]].
    exists src, c. split; [simpl; rewrite Ht, Hsrc; reflexivity|]. split; [assumption|]. split; [assumption|].
    rewrite life_alive, Hs. simpl. rewrite Hh, (Hreq dst (Hsub dst Hd)).
    rewrite (Hcont (fun x Hx => Hreq x (Hsub x Hx)) dst src Hd Hsrc). assumption.
  - intros q c Hq Hno Hqc.
    destruct (del_spec _ _ HI) as [t [g [h [Ht [Hc [Hs [Hh [Hg _]]]]]]]].
    unfold outs_of in Hno. rewrite Ht in Hno.
    rewrite life_alive, Hs. simpl. rewrite Hh, Hq, Hg by assumption. assumption.
Qed.

(* ------------------------------------------------------------------ (4) the copy is faithful *)
Theorem tracker_copy_faithful : forall f0 d n0 mid p l,
  wf f0 -> look f0 d = Dir -> look f0 (d ++ [n0]) = Absent -> forallb mid_op mid = true ->
  forallb (fun o => negb (writes_to l o) && negb (writes_to p o)) mid = true ->
  snd (step (alive f0 (Some d) n0 mid) (RealLocation p)) = OLoc l ->
  snd (step (alive f0 (Some d) n0 mid) (FileExists p)) = OBool true ->
  look (s_fs (alive f0 (Some d) n0 mid)) l = look (s_fs (alive f0 (Some d) n0 mid)) p /\
  (exists c, look (s_fs (alive f0 (Some d) n0 mid)) p = File c) /\
  (look f0 p <> Absent -> look (s_fs (alive f0 (Some d) n0 mid)) p = look f0 p).
Proof.
  intros f0 d n0 mid p l W HD HA Hm Hw Hl He.
  rewrite alive_some in * by assumption.
  set (s1 := {| s_fs := put_dir (d ++ [n0]) f0; s_tr := Some (new_tracker (Some (d ++ [n0]))) |}) in *.
  set (G := fun s => Inv (d ++ [n0]) s /\
     (forall t, s_tr s = Some t -> dget (t_loc t) p = Some l -> dget (t_pre t) p = Some true ->
                look (s_fs s) l = look (s_fs s) p /\ exists c, look (s_fs s) p = File c) /\
     (look f0 p <> Absent -> look (s_fs s) p = look f0 p)).
  assert (HG : G (fst (run s1 mid))).
  { apply (run_ind_p (fun o => mid_op o && (negb (writes_to l o) && negb (writes_to p o))) G).
    - intros s o s' x [HI [HGs HPs]] Ho Hs.
      apply andb_true_iff in Ho. destruct Ho as [Ho1 Ho2]. apply andb_true_iff in Ho2. destruct Ho2 as [Ho2 Ho3].
      apply negb_true_iff in Ho2. apply negb_true_iff in Ho3.
      split; [eapply step_keeps_inv; eauto|]. split.
      + intros t' Ht' Hloc Hpre.
        destruct HI as [t [Ht [HT [HF HR]]]].
        destruct (step_some s t _ o s' x Ht HT (proj1 HF) Ho1 Hs) as [t2 [Ht2 [_ Hc]]].
        rewrite Ht' in Ht2. inversion Ht2; subst t2. clear Ht2.
        destruct Hc as [[E1 [E2 _]] | [[q [c [Eo [E2 [_ [_ [_ E]]]]]]] | [q [io [n [_ [_ [_ [Ea [Ne [E [EL [EP _]]]]]]]]]]]]].
        * subst t'. rewrite E1. apply (HGs t Ht Hloc Hpre).
        * subst t' o. simpl in Ho2, Ho3. rewrite !E, Ho2, Ho3. apply (HGs t Ht Hloc Hpre).
        * rewrite EL, dget_dset in Hloc. rewrite EP, dget_dset in Hpre.
          destruct (path_eqb q p) eqn:Eq.
          -- apply path_eqb_eq in Eq. subst q. inversion Hloc; subst l. inversion Hpre as [Hf].
             rewrite !E, path_eqb_refl. rewrite (eqb_if _ _ _ _ _ Ne).
             unfold add_content. destruct (look (s_fs s) p); try discriminate. split; eauto.
          -- destruct (HGs t Ht Hloc Hpre) as [A [c A2]].
             rewrite !E. rewrite eqb_if by (intro; subst l; congruence).
             rewrite eqb_if by (intro; subst p; congruence). split; eauto.
      + intro Hp. rewrite <- (HPs Hp). eapply step_keeps_look; eauto. rewrite (HPs Hp). assumption.
    - clear -Hm Hw. induction mid as [|o r IH]; [reflexivity|]. simpl in *.
      apply andb_true_iff in Hm. apply andb_true_iff in Hw. destruct Hm, Hw.
      apply andb_true_iff. split; [apply andb_true_iff; split; assumption | auto].
    - split; [apply create_inv; assumption|]. split; [intros t Ht Hx; inversion Ht; subst; discriminate|].
      intro Hp. simpl. rewrite look_put_dir. rewrite eqb_if; [reflexivity|]. intro; subst p. contradiction. }
  destruct HG as [[t [Ht _]] [HG2 HG3]].
  simpl in Hl, He. rewrite Ht in Hl, He. simpl in Hl, He.
  destruct (dget (t_loc t) p) eqn:E1; inversion Hl; subst.
  destruct (dget (t_pre t) p) eqn:E2; inversion He; subst.
  destruct (HG2 t Ht E1 E2) as [A B]. auto.
Qed.

(* ------------------------------------------------------------------ (5) stale files do not matter *)
Lemma add_file_ext : forall f f' t p io n,
  look f p = look f' p -> look f (parent p) = look f' (parent p) ->
  (forall T, t_tmp t = Some T -> look f T = look f' T /\ look f (T ++ [n]) = look f' (T ++ [n])) ->
  snd (add_file f t p io n) = snd (add_file f' t p io n) /\
  snd (fst (add_file f t p io n)) = snd (fst (add_file f' t p io n)) /\
  forall q, look f q = look f' q ->
            look (fst (fst (add_file f t p io n))) q = look (fst (fst (add_file f' t p io n))) q.
Proof.
  intros f f' t p io n H1 H2 H3. unfold add_file.
  assert (Hc : add_check f' p io = add_check f p io) by (unfold add_check; rewrite <- H1, <- H2; reflexivity).
  rewrite Hc. destruct (negb (add_check f p io =? 0)); [simpl; auto|].
  destruct (t_tmp t) as [T|] eqn:ET; [|simpl; rewrite H1; auto].
  destruct (H3 T eq_refl) as [HT Htp]. rewrite <- Htp.
  destruct (negb (n_is_absent (look f (T ++ [n]))) || path_eqb (T ++ [n]) p) eqn:El; [simpl; auto|].
  apply orb_false_iff in El. destruct El as [El1 El2].
  unfold mkstemp_clean. rewrite <- HT, <- Htp, <- H1.
  destruct (negb (n_is_dir (look f T))); [simpl; auto|].
  rewrite El1. cbv iota. rewrite !look_put_file, !El2, <- H1.
  destruct (look f p) eqn:Ep; simpl; rewrite ?look_put_file, ?El2, <- ?H1, ?Ep; simpl;
    (split; [reflexivity|]); (split; [reflexivity|]);
    intros q Hq; rewrite ?look_put_file; destruct (path_eqb (T ++ [n]) q); auto.
Qed.

Definition reads (s : state) (o : op) : list path :=
  match o with
  | AddFile p _ n =>
      [p; parent p] ++
      match s_tr s with
      | Some t => match t_tmp t with Some T => [T; T ++ [n]] | None => [] end
      | None => []
      end
  | WriteTo p _ => [p; parent p]
  | _ => []
  end.

Lemma step_ext : forall s s' o, s_tr s = s_tr s' -> mid_op o = true ->
  (forall q, In q (reads s o) -> look (s_fs s) q = look (s_fs s') q) ->
  snd (step s o) = snd (step s' o) /\ s_tr (fst (step s o)) = s_tr (fst (step s' o)) /\
  forall q, look (s_fs s) q = look (s_fs s') q ->
            look (s_fs (fst (step s o))) q = look (s_fs (fst (step s' o))) q.
Proof.
  intros s s' o Ht Hm Hr. destruct o as [tmp nm|p io n|p|p|p c|]; try discriminate; simpl; rewrite <- Ht.
  - destruct (s_tr s) as [t|] eqn:Et; [|simpl; split; [reflexivity|]; split; [congruence | auto]].
    destruct (add_file_ext (s_fs s) (s_fs s') t p io n) as [A [B C]].
    + apply Hr. simpl. auto.
    + apply Hr. simpl. auto.
    + intros T HT. simpl in Hr. rewrite Et, HT in Hr. split; apply Hr; simpl; auto.
    + destruct (add_file (s_fs s) t p io n) as [[g t1] r]. destruct (add_file (s_fs s') t p io n) as [[g' t1'] r'].
      simpl in *. subst. auto.
  - destruct (s_tr s) eqn:Et; simpl; (split; [reflexivity|]); (split; [congruence | auto]).
  - destruct (s_tr s) eqn:Et; simpl; (split; [reflexivity|]); (split; [congruence | auto]).
  - unfold write_to. rewrite <- (Hr p), <- (Hr (parent p)) by (simpl; auto).
    destruct (look (s_fs s) p); [|simpl; auto|];
      destruct (n_is_dir (look (s_fs s) (parent p))); simpl; (split; [reflexivity|]); (split; [reflexivity|]);
      intros q Hq; rewrite ?look_put_file; destruct (path_eqb p q); auto.
Qed.

Lemma copy_out_ext : forall (NS : path -> Prop) loc l f f',
  (forall q, NS q -> look f q = look f' q) ->
  (forall dst, In dst l -> NS dst /\ NS (parent dst)) ->
  (forall k src, dget loc k = Some src -> NS src) ->
  snd (copy_out loc l f) = snd (copy_out loc l f') /\
  forall q, NS q -> look (fst (copy_out loc l f)) q = look (fst (copy_out loc l f')) q.
Proof.
  intros NS loc. induction l as [|d r IH]; intros f f' Hf Hl Hloc; [simpl; auto|].
  simpl. destruct (dget loc d) as [src|] eqn:Es; [|simpl; auto].
  destruct (Hl d (or_introl eq_refl)) as [Nd Np]. unfold copy_file.
  rewrite <- (Hf src (Hloc d src Es)), <- (Hf d Nd), <- (Hf (parent d) Np).
  destruct (look f src); try (simpl; auto; fail).
  assert (X : snd (copy_out loc r (put_file d c f)) = snd (copy_out loc r (put_file d c f')) /\
              forall q, NS q -> look (fst (copy_out loc r (put_file d c f))) q =
                                look (fst (copy_out loc r (put_file d c f'))) q).
  { apply IH; [|intros; apply Hl; right; assumption | assumption].
    intros q Hq. rewrite !look_put_file. destruct (path_eqb d q); auto. }
  destruct (look f d); try (simpl; auto; fail);
    destruct (n_is_dir (look f (parent d))); simpl; auto.
Qed.

Lemma snd_run_app_del : forall mid s,
  snd (run s (mid ++ [Del])) = snd (run s mid) ++ [snd (step (fst (run s mid)) Del)].
Proof.
  induction mid as [|o r IH]; intro s.
  - change (run s ([] ++ [Del])) with (let '(s1, x) := step s Del in (s1, [x])).
    change (run s []) with (s, @nil out). cbn [fst snd]. destruct (step s Del). reflexivity.
  - rewrite <- app_comm_cons, !run_cons. destruct (step s o) as [sa xa]. specialize (IH sa).
    destruct (run sa (r ++ [Del])) as [sb xb]. destruct (run sa r) as [sc xc]. simpl in *.
    rewrite IH. reflexivity.
Qed.

Lemma snd_let : forall (X : state * list out) a, snd (let '(s2, xs) := X in (s2, a :: xs)) = a :: snd X.
Proof. intros [s2 xs] a. reflexivity. Qed.

Lemma same_child : forall d a b q, is_prefix (d ++ [a]) q = true -> is_prefix (d ++ [b]) q = true -> a = b.
Proof.
  intros d a b q Ha Hb. apply is_prefix_spec in Ha. apply is_prefix_spec in Hb.
  destruct Ha as [r Ha]. destruct Hb as [r' Hb]. subst q.
  rewrite <- !app_assoc in Hb. apply app_inv_head in Hb. simpl in Hb. congruence.
Qed.

Section Stale.
Variables (d : path) (n0 : Z) (SE : list Z).
Hypothesis HE : ~ In n0 SE.
Let T := d ++ [n0].
Let ns (q : path) : Prop := stale_in d SE q = false.

Lemma stale_spec : forall q, stale_in d SE q = true -> under d q = true /\ is_prefix T q = false.
Proof.
  intros q H. unfold stale_in in H. apply existsb_exists in H. destruct H as [a [Ha Hp]].
  split; [eapply under_child_prefix; eauto|].
  destruct (is_prefix T q) eqn:Et; [|reflexivity]. exfalso. apply HE.
  rewrite (same_child d n0 a q Et Hp). assumption.
Qed.

Lemma ns_prefix : forall q, is_prefix T q = true -> ns q.
Proof.
  intros q H. unfold ns. destruct (stale_in d SE q) eqn:S; [|reflexivity].
  apply stale_spec in S. destruct S. congruence.
Qed.

Lemma ns_not_under : forall q, under d q = false -> ns q.
Proof.
  intros q H. unfold ns. destruct (stale_in d SE q) eqn:S; [|reflexivity].
  apply stale_spec in S. destruct S. congruence.
Qed.

Lemma ns_parent : forall q, ns q -> ns (parent q).
Proof.
  intros q H. unfold ns in *. destruct (stale_in d SE (parent q)) eqn:S; [|reflexivity].
  unfold stale_in in S. apply existsb_exists in S. destruct S as [a [Ha Hp]].
  assert (X : stale_in d SE q = true); [|congruence].
  unfold stale_in. apply existsb_exists. exists a. split; [assumption|].
  eapply is_prefix_trans; [exact Hp|]. apply is_prefix_spec.
  destruct q as [|x q'] using rev_ind; [exists []; reflexivity|].
  unfold parent. rewrite removelast_last. eauto.
Qed.

Definition Sim (s s' : state) : Prop :=
  s_tr s = s_tr s' /\ forall q, ns q -> look (s_fs s) q = look (s_fs s') q.

Definition ops_ns (mid : list op) : Prop := forall o p, In o mid -> In p (op_paths o) -> ns p.

Lemma sim_step : forall s s' o,
  Sim s s' -> Inv T s -> mid_op o = true -> (forall p, In p (op_paths o) -> ns p) ->
  snd (step s o) = snd (step s' o) /\ Sim (fst (step s o)) (fst (step s' o)).
Proof.
  intros s s' o [Ht Hq] [t [Et [ET _]]] Hm Hp.
  destruct (step_ext s s' o Ht Hm) as [A [B C]].
  - intros q Hi. apply Hq. destruct o as [tmp nm|p io n|p|p|p c|]; simpl in Hi; try contradiction.
    + rewrite Et, ET in Hi. simpl in Hi.
      destruct Hi as [Hi|[Hi|[Hi|[Hi|[]]]]]; subst q.
      * apply Hp. simpl. auto.
      * apply ns_parent, Hp. simpl. auto.
      * apply ns_prefix. apply prefix_cases. auto.
      * apply ns_prefix. apply is_prefix_spec. eauto.
    + destruct Hi as [Hi|[Hi|[]]]; subst q; [|apply ns_parent]; apply Hp; simpl; auto.
  - split; [assumption|]. split; [assumption|]. intros q Hn. apply C, Hq, Hn.
Qed.

Lemma stale_frame : forall s o s1 x,
  Inv T s -> mid_op o = true -> (forall p, In p (op_paths o) -> ns p) -> step s o = (s1, x) ->
  forall q, stale_in d SE q = true -> look (s_fs s1) q = look (s_fs s) q.
Proof.
  intros s o s1 x [t [Ht [HT [HF _]]]] Hm Hp Hs q Hq.
  destruct (step_some s t T o s1 x Ht HT (proj1 HF) Hm Hs) as [t' [_ [_ Hc]]].
  destruct Hc as [[E1 _] | [[p [c [Eo [_ [_ [_ [_ E]]]]]]] | [p [io [n [_ [_ [_ [_ [_ [E _]]]]]]]]]]].
  - rewrite E1. reflexivity.
  - rewrite E. rewrite eqb_if; [reflexivity|]. intro; subst q o.
    assert (X : ns p) by (apply Hp; simpl; auto). unfold ns in X. congruence.
  - rewrite E. rewrite eqb_if; [reflexivity|]. intro; subst q.
    assert (X : ns (T ++ [n])) by (apply ns_prefix, is_prefix_spec; eauto). unfold ns in X. congruence.
Qed.

Lemma sim_run : forall mid s s',
  forallb mid_op mid = true -> ops_ns mid -> Sim s s' -> Inv T s -> Inv T s' ->
  snd (run s mid) = snd (run s' mid) /\ Sim (fst (run s mid)) (fst (run s' mid)) /\
  (forall q, stale_in d SE q = true ->
     look (s_fs (fst (run s mid))) q = look (s_fs s) q /\ look (s_fs (fst (run s' mid))) q = look (s_fs s') q).
Proof.
  induction mid as [|o r IH]; intros s s' Hm Hn HS HI HI'; [simpl; auto|].
  simpl in Hm. apply andb_true_iff in Hm. destruct Hm as [Hm1 Hm2].
  assert (Hp : forall p, In p (op_paths o) -> ns p) by (intros p; apply (Hn o p); left; reflexivity).
  destruct (sim_step s s' o HS HI Hm1 Hp) as [A B].
  rewrite !run_cons. destruct (step s o) as [s1 x] eqn:E1. destruct (step s' o) as [s1' x'] eqn:E1'.
  simpl in A, B. subst x'.
  assert (HI1 := step_keeps_inv _ _ _ _ _ HI Hm1 E1). assert (HI1' := step_keeps_inv _ _ _ _ _ HI' Hm1 E1').
  destruct (IH s1 s1' Hm2 (fun o' p Ho => Hn o' p (or_intror Ho)) B HI1 HI1') as [C [D F]].
  destruct (run s1 r) as [s2 xs]. destruct (run s1' r) as [s2' xs']. simpl in *. subst xs'.
  split; [reflexivity|]. split; [assumption|].
  intros q Hq. destruct (F q Hq) as [F1 F2]. rewrite F1, F2.
  split; eapply stale_frame; eauto.
Qed.

Lemma requested_paths : forall mid p, In p (requested mid) -> exists o, In o mid /\ In p (op_paths o).
Proof.
  intros mid p H. unfold requested in H. apply in_flat_map in H. destruct H as [o [Ho Hp]].
  exists o. split; [assumption|]. destruct o as [| q io n | | | |]; try contradiction.
  destruct io; [contradiction|]. assumption.
Qed.

Theorem tracker_independent_of_stale_gen : forall f0 f0' mid,
  wf f0 -> wf f0' -> look f0 d = Dir -> look f0 T = Absent -> forallb mid_op mid = true ->
  (forall q, stale_in d SE q = false -> look f0 q = look f0' q) ->
  (forall o p, In o mid -> In p (op_paths o) -> stale_in d SE p = false) ->
  snd (run (start f0) (Create (Some d) n0 :: mid ++ [Del])) =
  snd (run (start f0') (Create (Some d) n0 :: mid ++ [Del])) /\
  (forall q, stale_in d SE q = false ->
     look (s_fs (life f0 (Some d) n0 mid)) q = look (s_fs (life f0' (Some d) n0 mid)) q) /\
  (forall q, stale_in d SE q = true ->
     look (s_fs (life f0 (Some d) n0 mid)) q = look f0 q /\
     look (s_fs (life f0' (Some d) n0 mid)) q = look f0' q).
Proof.
  intros f0 f0' mid W W' HD HA Hm Hagree Hops.
  assert (HD' : look f0' d = Dir).
  { rewrite <- Hagree; [assumption|]. apply ns_not_under.
    destruct (under d d) eqn:E; [|reflexivity]. exfalso. eapply under_neq; eauto. }
  assert (HA' : look f0' T = Absent).
  { rewrite <- Hagree; [assumption|]. apply ns_prefix, prefix_cases. auto. }
  set (s1 := {| s_fs := put_dir T f0; s_tr := Some (new_tracker (Some T)) |}).
  set (s1' := {| s_fs := put_dir T f0'; s_tr := Some (new_tracker (Some T)) |}).
  assert (HI1 : Inv T s1) by (apply create_inv; assumption).
  assert (HI1' : Inv T s1') by (apply create_inv; assumption).
  assert (HS1 : Sim s1 s1').
  { split; [reflexivity|]. intros q Hq. simpl. rewrite !look_put_dir. destruct (path_eqb T q); auto. }
  destruct (sim_run mid s1 s1' Hm Hops HS1 HI1 HI1') as [A [[Bt Bq] C]].
  assert (HI2 := run_keeps_inv T mid s1 Hm HI1). assert (HI2' := run_keeps_inv T mid s1' Hm HI1').
  destruct (del_spec T _ HI2) as [t [g [h [Ht [Hc [Hs [Hh [Hg _]]]]]]]].
  destruct (del_spec T _ HI2') as [t' [g' [h' [Ht' [Hc' [Hs' [Hh' [Hg' _]]]]]]]].
  rewrite Bt, Ht' in Ht. inversion Ht; subst t'. clear Ht.
  assert (Hal : alive f0 (Some d) n0 mid = fst (run s1 mid)) by (apply alive_some; assumption).
  assert (Hal' : alive f0' (Some d) n0 mid = fst (run s1' mid)) by (apply alive_some; assumption).
  assert (Hout : forall q, In q (t_out t) -> ns q).
  { intros q Hq. destruct (run_out_sub T mid s1 Hm HI1 q) as [X|X].
    - unfold outs_of. rewrite Bt, Ht'. assumption.
    - contradiction.
    - destruct (requested_paths mid q X) as [o [Ho Hp]]. eapply Hops; eauto. }
  split; [|split].
  - (* outputs *)
    rewrite !run_cons. unfold T in HA, HA'. rewrite (create_some f0 d n0 HD HA), (create_some f0' d n0 HD' HA').
    fold T. fold s1. fold s1'.
    rewrite !snd_let, !snd_run_app_del, A, Hs, Hs'. reflexivity.
  - intros q Hq. rewrite !life_alive, Hal, Hal', Hs, Hs'. simpl. rewrite Hh, Hh'.
    destruct (is_prefix T q); [reflexivity|].
    destruct (copy_out_ext ns (t_loc t) (t_out t) (s_fs (fst (run s1 mid))) (s_fs (fst (run s1' mid)))) as [_ X].
    + assumption.
    + intros dst Hd. split; [|apply ns_parent]; apply Hout; assumption.
    + intros k src Hk. destruct HI2' as [t2 [Ht2 [_ [_ [HL _]]]]]. rewrite Ht' in Ht2. inversion Ht2; subst t2.
      apply ns_prefix, child_prefix. apply (HL k src Hk).
    + rewrite Hc, Hc' in X. apply X. assumption.
  - intros q Hq. destruct (stale_spec q Hq) as [Hu Hp]. destruct (C q Hq) as [C1 C2].
    assert (Hno : ~ In q (t_out t)) by (intro Hi; apply Hout in Hi; unfold ns in Hi; congruence).
    rewrite !life_alive, Hal, Hal', Hs, Hs'. simpl. rewrite Hh, Hh', Hp, Hg, Hg', C1, C2 by assumption.
    simpl. rewrite !look_put_dir. apply not_prefix in Hp. rewrite !eqb_if by (intro; subst; tauto). auto.
Qed.
End Stale.

(* ------------------------------------------------------------------ the statements as used in Props/C19.v *)
Definition tracker_inputs_untouched := conj tracker_inputs_untouched_some tracker_inputs_untouched_none.

Lemma entries_In : forall f d a, In a (entries f d) <-> lookup f (d ++ [a]) <> None.
Proof.
  intros f d a. unfold entries. rewrite in_flat_map. split.
  - intros [[k e] [Hi Ha]]. simpl in Ha. destruct (strip d k) as [[|x [|y r]]|] eqn:S; try contradiction.
    destruct Ha as [Ha|[]]. subst x. apply strip_spec in S. subst k. eapply lookup_In. exact Hi.
  - intro H. destruct (lookup f (d ++ [a])) as [e|] eqn:L; [|congruence].
    exists (d ++ [a], e). split; [apply lookup_Some_In; assumption|]. simpl. rewrite strip_app. left. reflexivity.
Qed.

(* stale = at or below an entry the tmp_dir parent had BEFORE the life (in either file system) *)
Theorem tracker_independent_of_stale : forall d n0 f0 f0' mid,
  wf f0 -> wf f0' -> look f0 d = Dir -> look f0 (d ++ [n0]) = Absent -> look f0' (d ++ [n0]) = Absent ->
  forallb mid_op mid = true ->
  (forall q, stale_in d (entries f0 d ++ entries f0' d) q = false -> look f0 q = look f0' q) ->
  (forall o p, In o mid -> In p (op_paths o) -> stale_in d (entries f0 d ++ entries f0' d) p = false) ->
  snd (run (start f0) (Create (Some d) n0 :: mid ++ [Del])) =
  snd (run (start f0') (Create (Some d) n0 :: mid ++ [Del])) /\
  (forall q, stale_in d (entries f0 d ++ entries f0' d) q = false ->
     look (s_fs (life f0 (Some d) n0 mid)) q = look (s_fs (life f0' (Some d) n0 mid)) q) /\
  (forall q, stale_in d (entries f0 d ++ entries f0' d) q = true ->
     look (s_fs (life f0 (Some d) n0 mid)) q = look f0 q /\
     look (s_fs (life f0' (Some d) n0 mid)) q = look f0' q).
Proof.
  intros d n0 f0 f0' mid W W' HD HA HA' Hm.
  apply tracker_independent_of_stale_gen; try assumption.
  intro Hi. apply in_app_or in Hi. destruct Hi as [Hi|Hi]; apply entries_In in Hi; apply Hi; apply look_absent; assumption.
Qed.

(* decidable forms of the hypotheses *)
Lemma wfb_wf : forall f, wfb f = true -> wf f.
Proof.
  intros f H p a Hn. unfold wfb in H. rewrite forallb_forall in H.
  destruct (lookup f (p ++ [a])) as [e|] eqn:E; [|apply look_absent in E; contradiction].
  apply lookup_Some_In in E. specialize (H _ E). simpl in H.
  destruct (p ++ [a]) as [|x r] eqn:Ep; [destruct p; discriminate|].
  rewrite <- Ep, parent_child in H. apply n_is_dir_true. assumption.
Qed.

Lemma node_eqb_eq : forall a b, node_eqb a b = true -> a = b.
Proof. intros [| |x] [| |y] H; simpl in H; try discriminate; try reflexivity. apply Z.eqb_eq in H. congruence. Qed.

Lemma agree_b_spec : forall d E f f', agree_b d E f f' = true ->
  forall q, stale_in d E q = false -> look f q = look f' q.
Proof.
  intros d E f f' H q Hq. unfold agree_b in H. rewrite forallb_forall in H.
  assert (X : forall e g, In (q, e) g -> In (q, e) (f ++ f') -> look f q = look f' q).
  { intros e g _ Hi. specialize (H _ Hi). simpl in H. rewrite Hq in H. apply node_eqb_eq. assumption. }
  destruct (lookup f q) as [e|] eqn:E1.
  - apply lookup_Some_In in E1. apply (X e f E1). apply in_or_app. auto.
  - destruct (lookup f' q) as [e'|] eqn:E'.
    + apply lookup_Some_In in E'. apply (X e' f' E'). apply in_or_app. auto.
    + apply look_absent in E1. apply look_absent in E'. congruence.
Qed.

Lemma ops_ns_b_spec : forall d E mid, ops_ns_b d E mid = true ->
  forall o p, In o mid -> In p (op_paths o) -> stale_in d E p = false.
Proof.
  intros d E mid H o p Ho Hp. unfold ops_ns_b in H. rewrite forallb_forall in H.
  specialize (H o Ho). rewrite forallb_forall in H. specialize (H p Hp).
  apply negb_true_iff in H. assumption.
Qed.

(* the boolean the harness evaluates on a recorded life gives the hypotheses of the theorems.
   `ow` = the added paths the caller overwrites by design ([] for a plain run; [query] with
   obsm_key).  Audit 4 A1: the clause about the environment is per ADDED path, not per file of f0. *)
Lemma life_premise_ow_spec : forall ow f0 d n0 mid, life_premise_ow ow f0 d n0 mid = true ->
  wf f0 /\ look f0 d = Dir /\ look f0 (d ++ [n0]) = Absent /\ forallb mid_op mid = true /\
  (forall p, In p (added mid) -> ~ In p ow -> forallb (fun o => negb (writes_to p o)) mid = true) /\
  (forall p, In p (requested mid) -> is_prefix (d ++ [n0]) p = false) /\
  (forall o p, In o mid -> In p (op_paths o) -> stale_in d (entries f0 d) p = false).
Proof.
  intros ow f0 d n0 mid H. unfold life_premise_ow in H.
  repeat (apply andb_true_iff in H; let X := fresh "H" in destruct H as [H X]).
  split; [apply wfb_wf; assumption|]. split; [apply n_is_dir_true; assumption|].
  split; [apply n_is_absent_true; assumption|]. split; [assumption|]. split; [|split].
  - intros p Hp Hno. apply not_written. intro Hi. rewrite forallb_forall in H2. specialize (H2 p Hi).
    apply orb_true_iff in H2. destruct H2 as [H2|H2].
    + apply negb_true_iff in H2. apply mem_false in H2. contradiction.
    + apply mem_In in H2. contradiction.
  - intros p Hp. rewrite forallb_forall in H1. specialize (H1 p Hp). apply negb_true_iff in H1. assumption.
  - apply ops_ns_b_spec. assumption.
Qed.

Lemma life_premise_spec : forall f0 d n0 mid, life_premise f0 d n0 mid = true ->
  wf f0 /\ look f0 d = Dir /\ look f0 (d ++ [n0]) = Absent /\ forallb mid_op mid = true /\
  (forall p, In p (added mid) -> forallb (fun o => negb (writes_to p o)) mid = true) /\
  (forall p, In p (requested mid) -> is_prefix (d ++ [n0]) p = false) /\
  (forall o p, In o mid -> In p (op_paths o) -> stale_in d (entries f0 d) p = false).
Proof.
  intros f0 d n0 mid H. destruct (life_premise_ow_spec [] f0 d n0 mid H) as [A [B [C [D [E [F G]]]]]].
  repeat (split; [assumption|]). split; [|split; assumption].
  intros p Hp. apply E; [assumption|]. intros [].
Qed.

(* the premise composed with (1): on a life that meets it, every path handed to the tracker that
   held a file and is not overwritten by design holds that file while the tracker lives and after
   del; every OTHER file of f0 does so unless the environment wrote that very path (the CSV of an
   earlier run that a second run rewrites; the query under obsm_key) *)
Lemma life_premise_inputs_untouched : forall ow f0 d n0 mid, life_premise_ow ow f0 d n0 mid = true ->
  forall p c, look f0 p = File c ->
    (In p (added mid) /\ ~ In p ow) \/ ~ In p (written mid) ->
    look (s_fs (alive f0 (Some d) n0 mid)) p = File c /\
    look (s_fs (life f0 (Some d) n0 mid)) p = File c.
Proof.
  intros ow f0 d n0 mid H p c Hp Hc.
  destruct (life_premise_ow_spec ow f0 d n0 mid H) as [W [HD [HA [Hm [E _]]]]].
  apply tracker_inputs_untouched_some; try assumption.
  destruct Hc as [[Ha Hno]|Hnw]; [apply E; assumption|apply not_written; assumption].
Qed.

(* ------------------------------------------------------------------ a life keeps the file system well formed
   (so lives can follow each other: the theorems apply to the next tracker on what this one left) *)
Lemma putrel_wf : forall f g x, wf f -> putrel f g x -> wf g.
Proof.
  intros f g x W [ND [PD [c E]]] p a Hn. rewrite E in Hn. rewrite E.
  destruct (path_eqb x (p ++ [a])) eqn:Q.
  - apply path_eqb_eq in Q. subst x. rewrite parent_child in PD.
    rewrite eqb_if; [assumption|]. intro H. apply (f_equal (@length Z)) in H.
    rewrite app_length in H. simpl in H. lia.
  - assert (D := W p a Hn). rewrite eqb_if; [assumption|]. intro; subst x. contradiction.
Qed.

Lemma write_to_wf : forall f p c, wf f -> wf (fst (write_to f p c)).
Proof.
  intros f p c W. unfold write_to.
  assert (X : look f p <> Dir -> n_is_dir (look f (parent p)) = true -> wf (put_file p c f)).
  { intros ND PD. apply (putrel_wf f _ p W). split; [assumption|]. split; [apply n_is_dir_true; assumption|].
    exists c. intro q. apply look_put_file. }
  destruct (look f p) eqn:E; [|assumption|];
    destruct (n_is_dir (look f (parent p))) eqn:Ed; simpl; try assumption; apply X; congruence.
Qed.

Theorem tracker_life_keeps_wf : forall f0 tmp n0 mid,
  wf f0 -> forallb mid_op mid = true ->
  match tmp with Some d => look f0 d = Dir /\ look f0 (d ++ [n0]) = Absent | None => True end ->
  wf (s_fs (life f0 tmp n0 mid)).
Proof.
  intros f0 tmp n0 mid W Hm Hleg. destruct tmp as [d|].
  - destruct Hleg as [HD HA].
    assert (H : Inv (d ++ [n0]) (alive f0 (Some d) n0 mid) /\ wf (s_fs (alive f0 (Some d) n0 mid))).
    { rewrite alive_some by assumption.
      apply (run_ind_p mid_op (fun s => Inv (d ++ [n0]) s /\ wf (s_fs s))); [|assumption|].
      - intros s o s' x [HI HW] Ho Hs. split; [eapply step_keeps_inv; eauto|].
        destruct HI as [t [Ht [HT [HF _]]]].
        destruct (step_some s t _ o s' x Ht HT (proj1 HF) Ho Hs) as [t' [_ [_ Hc]]].
        destruct Hc as [[E1 _] | [[p [c [_ [_ [_ [ND [PD E]]]]]]] | [p [io [n [_ [_ [_ [Ea [_ [E _]]]]]]]]]]].
        + rewrite E1. assumption.
        + apply (putrel_wf (s_fs s) _ p HW). split; [assumption|]. split; [assumption|]. eauto.
        + apply (putrel_wf (s_fs s) _ (d ++ [n0] ++ [n]) HW). rewrite app_assoc.
          split; [congruence|]. split; [rewrite parent_child; apply HF|]. eauto.
      - split; [apply create_inv; assumption|]. simpl.
        intros p a Hn. rewrite look_put_dir in Hn. rewrite look_put_dir.
        destruct (path_eqb (d ++ [n0]) (p ++ [a])) eqn:Q.
        + apply path_eqb_eq in Q. apply app_inj_tail in Q. destruct Q; subst p a.
          rewrite eqb_if; [assumption|]. intro H. apply (f_equal (@length Z)) in H.
          rewrite app_length in H. simpl in H. lia.
        + assert (D := W p a Hn). rewrite eqb_if; [assumption|]. intro; subst p. congruence. }
    destruct H as [HI HW]. destruct (del_spec _ _ HI) as [t [g [h [Ht [Hc [Hs [Hh _]]]]]]].
    destruct HI as [t0 [Ht0 [_ [HF [HL HO]]]]]. rewrite Ht in Ht0. inversion Ht0; subst t0.
    assert (Wg : wf g).
    { clear Hs Hh. revert Hc HF HL HO HW. generalize (s_fs (alive f0 (Some d) n0 mid)).
      generalize (t_out t). intro l. induction l as [|x r IH]; intros f Hc HF HL HO HW.
      - simpl in Hc. inversion Hc; subst. assumption.
      - destruct (HO x (or_introl eq_refl)) as [[src Hsrc] [ND PD]].
        destruct (HL x src Hsrc) as [_ [c Fc]].
        simpl in Hc. rewrite Hsrc in Hc. unfold copy_file in Hc. rewrite Fc, PD in Hc. simpl in Hc.
        assert (P : putrel f (put_file x c f) x).
        { split; [assumption|]. split; [assumption|]. exists c. intro q. apply look_put_file. }
        assert (Hc' : copy_out (t_loc t) r (put_file x c f) = (g, 0)) by (destruct (look f x); congruence).
        apply (IH (put_file x c f) Hc').
        + eapply putrel_flat; eauto.
        + eapply putrel_loc; eauto.
        + eapply putrel_out; eauto. intros y Hy. apply HO. right. assumption.
        + eapply putrel_wf; eauto. }
    rewrite life_alive, Hs. simpl. intros p a Hn. rewrite Hh in Hn. rewrite Hh.
    destruct (is_prefix (d ++ [n0]) (p ++ [a])) eqn:E1; [contradiction|].
    destruct (is_prefix (d ++ [n0]) p) eqn:E2.
    + exfalso. assert (X : is_prefix (d ++ [n0]) (p ++ [a]) = true).
      { eapply is_prefix_trans; [exact E2|]. apply is_prefix_spec. eauto. }
      congruence.
    + apply (Wg p a). assumption.
  - assert (H : NoneInv (alive f0 None n0 mid) /\ wf (s_fs (alive f0 None n0 mid))).
    { unfold alive. rewrite fst_run_cons. simpl.
      apply (run_ind_p mid_op (fun s => NoneInv s /\ wf (s_fs s))); [|assumption|].
      - intros s o s' x [HN HW] Ho Hs. destruct (step_none s o s' x HN Ho Hs) as [A _].
        split; [assumption|].
        destruct o as [tmp nm|p io n|p|p|p c|]; try discriminate; simpl in Hs.
        + destruct HN as [t [Ht [HT _]]]. rewrite Ht in Hs. unfold add_file in Hs.
          destruct (negb (add_check (s_fs s) p io =? 0)); [inversion Hs; subst; assumption|].
          rewrite HT in Hs. inversion Hs; subst. assumption.
        + destruct (s_tr s); inversion Hs; subst; assumption.
        + destruct (s_tr s); inversion Hs; subst; assumption.
        + assert (Wt := write_to_wf (s_fs s) p c HW).
          destruct (write_to (s_fs s) p c) as [g r]. inversion Hs; subst. assumption.
      - split; [|assumption]. eexists. split; [reflexivity|]. simpl. split; [reflexivity|]. split; [reflexivity|].
        intros; discriminate. }
    destruct H as [[t [Ht [HT [HO _]]]] HW].
    rewrite life_alive. simpl. rewrite Ht. unfold del. rewrite HO, HT. simpl. assumption.
Qed.
