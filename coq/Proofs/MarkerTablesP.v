(* The pair-major marker tables written by the model of find_markers (Model/Penetrance.v:
   lookup_to_sparse) are well-formed compressed matrices in the sense of C13 (Model/Sparse.v:
   wf_comp), so that the theorems about transpose_sparse_matrix_on_disk (C13) apply to the
   gene-major tables add_sparse_by_gene_markers_to_file derives from them. *)
From Coq Require Import List Arith ZArith Bool Lia Sorted.
From CTM Require Import Base.Sx Model.Sparse Model.Transpose Model.Holm Model.Penetrance
                        Proofs.TransposeSpecP Proofs.TransposePatternP Proofs.PenetranceP.
Import ListNotations.
Local Open Scope nat_scope.

Definition table_of (rows : list (list nat)) : comp :=
  {| ptr := fst (lookup_to_sparse rows); idx := snd (lookup_to_sparse rows); dat := [] |}.

Lemma indptr_hd rows a : hd 1 (indptr_of rows a) = a.
Proof. destruct rows; reflexivity. Qed.

Lemma indptr_last : forall rows a, last (indptr_of rows a) 0 = a + length (concat rows).
Proof.
  induction rows as [|r t IH]; intros a; [cbn; lia|].
  cbn [indptr_of concat]. rewrite app_length.
  assert (E : forall x l, l <> [] -> last (x :: l) 0 = last l 0) by (intros x [|y l] Hl; [congruence | reflexivity]).
  rewrite E by (destruct t; discriminate). rewrite IH. lia.
Qed.

Lemma indptr_mono : forall rows a, mono (indptr_of rows a).
Proof.
  induction rows as [|r t IH]; intros a; [cbn; trivial|].
  cbn [indptr_of]. pose proof (IH (a + length r)) as M. pose proof (indptr_hd t (a + length r)) as Hh.
  destruct (indptr_of t (a + length r)) as [|y l] eqn:E; [cbn; trivial|].
  cbn [hd] in Hh. cbn [mono]. split; [lia | exact M].
Qed.

Lemma indptr_length : forall rows a, length (indptr_of rows a) = S (length rows).
Proof. induction rows as [|r t IH]; intros a; cbn; [reflexivity | rewrite IH; reflexivity]. Qed.

(* every gene index below the number of genes => well formed with n_genes possible minor indices *)
Lemma table_wf rows n_genes :
  Forall (Forall (fun g => g < n_genes)) rows ->
  wf_comp (table_of rows) n_genes /\ length (ptr (table_of rows)) = S (length rows).
Proof.
  intros Hr. unfold table_of, lookup_to_sparse, wf_comp. cbn [ptr idx fst snd].
  split; [split; [apply indptr_hd | split; [rewrite indptr_last; lia | split; [apply indptr_mono|]]] | apply indptr_length].
  induction Hr as [|r t H1 _ IH]; cbn [concat]; [constructor | apply Forall_app; split; assumption].
Qed.

(* the gene lists the model records for a pair are below the number of genes of the pair *)
Lemma where_true_lt : forall l k, Forall (fun g => g < k + length l) (where_true k l).
Proof.
  intros l k. apply Forall_forall. intros g Hg. apply where_true_in in Hg. destruct Hg as [Hk Hn].
  assert (g - k < length l) by (apply nth_error_Some; rewrite Hn; discriminate). lia.
Qed.

Lemma andb_list_length_le : forall a b, length (andb_list a b) <= length a.
Proof. induction a as [|x a IH]; intros [|y b]; cbn; try lia. specialize (IH b). lia. Qed.

Lemma up_down_lt v u : 
  Forall (fun g => g < length v) (fst (up_down (v, u))) /\ Forall (fun g => g < length v) (snd (up_down (v, u))).
Proof.
  unfold up_down. cbn [fst snd]. split.
  - pose proof (where_true_lt (andb_list v u) 0) as W. pose proof (andb_list_length_le v u).
    eapply Forall_impl; [|exact W]. cbn. intros g Hg. lia.
  - pose proof (where_true_lt (andb_list v (map negb u)) 0) as W. pose proof (andb_list_length_le v (map negb u)).
    eapply Forall_impl; [|exact W]. cbn. intros g Hg. lia.
Qed.

(* c11_tables_transpose: for the table of ANY per-pair gene lists with indices below n_genes (in
   particular the up and the down table of find_markers), transpose_sparse_matrix_on_disk - for every
   elements_at_a_time and chunk sizes >= 1 - returns; its output is the transpose specification, a
   well-formed gene-major table with n_genes rows whose row g stores pair j iff row j of the
   pair-major table stores gene g *)
Theorem tables_transpose : forall rows n_genes E L Lc,
  Forall (Forall (fun g => g < n_genes)) rows -> 1 <= L -> 1 <= Lc ->
  exists t, transpose (table_of rows) false n_genes None E L Lc = Ok t /\
    let out := t_out t in
    out = transpose_spec (table_of rows) false n_genes None /\
    hd 1 (ptr out) = 0 /\ mono (ptr out) /\ length (ptr out) = S n_genes /\
    last (ptr out) 0 = length (idx out) /\
    length (idx out) = length (concat rows) /\
    forall g j, g < n_genes -> j < length rows -> stored out g j = stored (table_of rows) j g.
Proof.
  intros rows n_genes E L Lc Hr HL HLc.
  destruct (table_wf rows n_genes Hr) as [W Hlen].
  destruct (transpose_full (table_of rows) (length rows) false n_genes None E L Lc W Hlen
              ltac:(discriminate) HL HLc) as (t & Ht & Hout & _ & Hhd & Hm & Hl & Hlast & Hidx & _).
  exists t. split; [exact Ht|]. cbv zeta.
  split; [exact Hout|]. split; [exact Hhd|]. split; [exact Hm|]. split; [exact Hl|]. split; [exact Hlast|].
  split.
  - rewrite Hidx. cbn [apply_slice]. unfold all_entries. rewrite map_length, seq_length. reflexivity.
  - intros g j Hg Hj. rewrite Hout.
    rewrite (spec_stored (table_of rows) n_genes false n_genes None g j W); try assumption.
    + reflexivity.
    + intros _. destruct W as (_ & _ & _ & F). exact F.
    + rewrite Hlen. lia.
Qed.
