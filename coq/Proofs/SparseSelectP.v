(* C13: row shuffling, column sub-setting and amalgamation on the rows view.
     shuffle_csr_h5ad_rows, subset_csc_h5ad_columns, amalgamate_h5ad *)
From Coq Require Import List Arith ZArith Lia Bool Permutation Sorted.
From CTM Require Import Base.Sx Base.ListX Model.Sparse Proofs.SparseP Proofs.SparseSortP Proofs.SparseBatchP.
Import ListNotations.

Notation srow := (list nat * list Z)%type (only parsing).
Notation rnil := (@nil nat, @nil Z) (only parsing).

(* ================================================================ the rows view without the
   duplicate-freeness *)
Lemma rows_view0 m nr nc :
  wf_csr m nr nc ->
  exists R, m = of_rows R /\ length R = nr /\ Forall row_ok R /\ Forall (cols_ok nc) R.
Proof.
  intros W. exists (rows_of m).
  split; [symmetry; eapply of_rows_rows_of; exact W|].
  split; [eapply rows_of_length; exact W|].
  split; [eapply rows_of_ok; exact W | eapply rows_of_cols_ok; exact W].
Qed.

Lemma row_entries_of_rows T j :
  Forall row_ok T -> j < length T -> row_entries (of_rows T) j = nth j T rnil.
Proof.
  intros Hok Hj. unfold row_entries.
  rewrite <- (rows_of_nth (of_rows T) j).
  - rewrite rows_of_of_rows by exact Hok. reflexivity.
  - unfold of_rows. cbn [ptr length]. rewrite cumsum_length, map_length. lia.
Qed.

(* the value a stored row gives to minor index x: first match *)
Definition entry_value (x : nat) (r : srow) : Z :=
  match find (fun p => fst p =? x) (combine (fst r) (snd r)) with Some p => snd p | None => 0%Z end.

Lemma cell_entries m nr nc j x :
  wf_csr m nr nc -> j < nr -> cell m j x = entry_value x (row_entries m j).
Proof.
  intros W Hj. pose proof W as (Wc & HP & HD). destruct Wc as (H0 & HL & HM & HF).
  assert (Hj' : S j < length (ptr m)) by lia.
  pose proof (mono_nth_le _ j HM Hj') as Hle.
  pose proof (mono_nth_le_last _ (S j) HM Hj') as Hlast. rewrite HL in Hlast.
  unfold entry_value, row_entries. cbn [fst snd].
  set (a := nth j (ptr m) 0) in *. set (b := nth (S j) (ptr m) 0) in *.
  unfold cell, lookup, span. fold a b.
  pose proof (find_span_slices (idx m) (dat m) x a (b - a)) as F.
  replace (a + (b - a)) with b in F by lia.
  specialize (F ltac:(lia) HD).
  destruct (find (fun k => nth k (idx m) 0 =? x) (seq a (b - a))) as [k|];
    destruct (find (fun p => fst p =? x) (combine (slice (idx m) a b) (slice (dat m) a b))) as [p|];
    try discriminate; [inversion F; reflexivity | reflexivity].
Qed.

(* equal stored rows give equal dense rows *)
Lemma dense_of_pick out m n nr nc order :
  wf_csr out n nc -> wf_csr m nr nc -> length order = n -> Forall (fun r => r < nr) order ->
  (forall i, i < n -> row_entries out i = row_entries m (nth i order 0)) ->
  (forall i x, i < n -> cell out i x = cell m (nth i order 0) x) /\
  dense_of out n nc = map (fun r => nth r (dense_of m nr nc) []) order.
Proof.
  intros Wo Wm HL HF HE.
  assert (HC : forall i x, i < n -> cell out i x = cell m (nth i order 0) x).
  { intros i x Hi. rewrite (cell_entries out n nc) by assumption.
    rewrite (cell_entries m nr nc); [rewrite HE by exact Hi; reflexivity | exact Wm|].
    rewrite Forall_forall in HF. apply HF. apply nth_In. lia. }
  split; [exact HC|].
  unfold dense_of. rewrite <- (map_nth_all order 0) at 1. rewrite HL, map_map.
  apply map_ext_in. intros i Hi. apply in_seq in Hi.
  assert (Hr : nth i order 0 < nr) by (rewrite Forall_forall in HF; apply HF; apply nth_In; lia).
  rewrite (nth_map_lt _ (seq 0 nr) (nth i order 0) 0) by (rewrite seq_length; exact Hr).
  rewrite seq_nth by exact Hr. cbn [Nat.add].
  apply map_ext. intros x. apply HC. lia.
Qed.

(* ================================================================ the copying loops *)
Lemma of_rows_ptr_nth R r : r <= length R ->
  nth_error (ptr (of_rows R)) r = Some (sum_list (map rlen (firstn r R))).
Proof.
  intros H. unfold of_rows. cbn [ptr]. fold (psums 0 (map rlen R)).
  rewrite nth_error_psums by (rewrite map_length; exact H). rewrite firstn_map. reflexivity.
Qed.

Lemma span_rlen (R : list srow) r : r < length R ->
  sum_list (map rlen (firstn (S r) R)) - sum_list (map rlen (firstn r R)) = rlen (nth r R rnil).
Proof.
  intros H. rewrite (firstn_S_nth R rnil _ H). rewrite map_app, sum_list_app.
  unfold sum_list at 2. cbn. lia.
Qed.

Lemma spans_from_rows R order : forall ct,
  Forall (fun r => r < length R) order ->
  spans_from ct (ptr (of_rows R)) order =
  Ok (removelast (psums ct (map rlen (map (fun r => nth r R rnil) order)))).
Proof.
  induction order as [|r t IH]; intros ct HF; [reflexivity|].
  inversion HF as [|? ? Hr HF']; subst. cbn [spans_from].
  rewrite !of_rows_ptr_nth by lia. rewrite span_rlen by exact Hr.
  rewrite IH by exact HF'. reflexivity.
Qed.

Lemma copy_rows_rows R order :
  Forall row_ok R -> Forall (fun r => r < length R) order ->
  copy_rows (of_rows R) order =
  Ok (concat (map fst (map (fun r => nth r R rnil) order)),
      concat (map snd (map (fun r => nth r R rnil) order))).
Proof.
  intros Hok. induction order as [|r t IH]; intros HF; [reflexivity|].
  inversion HF as [|? ? Hr HF']; subst. cbn [copy_rows].
  rewrite !of_rows_ptr_nth by lia. rewrite IH by exact HF'. cbn [bind fst snd map concat].
  unfold of_rows. cbn [idx dat]. rewrite rows_seg_fst by exact Hr. rewrite rows_seg_snd by assumption.
  reflexivity.
Qed.

(* ================================================================ shuffle_csr_h5ad_rows *)
Lemma perm_seq_range order n : Permutation order (seq 0 n) ->
  length order = n /\ Forall (fun r => r < n) order /\ NoDup order.
Proof.
  intros P. split; [rewrite (Permutation_length P); apply seq_length|]. split.
  - eapply Permutation_Forall; [apply Permutation_sym; exact P|].
    apply Forall_forall. intros x Hx. apply in_seq in Hx. lia.
  - eapply Permutation_NoDup; [apply Permutation_sym; exact P | apply seq_NoDup].
Qed.

Lemma pick_perm {A} (R : list A) d order :
  Permutation order (seq 0 (length R)) -> Permutation (map (fun r => nth r R d) order) R.
Proof.
  intros P. eapply Permutation_trans; [apply Permutation_map; exact P|].
  rewrite map_nth_all. reflexivity.
Qed.

Lemma shuffle_rows_of_rows R order :
  Forall row_ok R -> Permutation order (seq 0 (length R)) ->
  shuffle_rows (of_rows R) order = Ok (of_rows (map (fun r => nth r R rnil) order)).
Proof.
  intros Hok P. destruct (perm_seq_range _ _ P) as (LO & HF & _).
  set (T := map (fun r => nth r R rnil) order).
  assert (PT : Permutation T R).
  { unfold T. apply pick_perm. exact P. }
  assert (ST : sum_list (map rlen T) = sum_list (map rlen R)) by (apply sum_list_perm, Permutation_map; exact PT).
  assert (HokT : Forall row_ok T) by (eapply Permutation_Forall; [apply Permutation_sym; exact PT | exact Hok]).
  assert (LT : length T = length R) by (unfold T; rewrite map_length; exact LO).
  destruct (of_rows_lengths R Hok) as [LI LD].
  unfold shuffle_rows, precompute_indptr.
  rewrite spans_from_rows by exact HF. fold T. cbn [bind].
  unfold place_ptr. rewrite removelast_psums_length, map_length, LT.
  unfold of_rows at 1 2. cbn [ptr length]. rewrite cumsum_length, map_length.
  replace (S (length R) <? length R) with false by (symmetry; apply Nat.ltb_ge; lia).
  rewrite Nat.sub_diag. cbn [repeat]. rewrite app_nil_r.
  rewrite firstn_all2 by (rewrite removelast_psums_length, map_length, LT; lia).
  cbn [bind]. rewrite copy_rows_rows by assumption. fold T. cbn [bind fst snd].
  rewrite LI, LD, concat_rows_length, (concat_rows_length_snd _ HokT), ST.
  rewrite Nat.ltb_irrefl. cbn [orb]. rewrite Nat.sub_diag. cbn [repeat]. rewrite !app_nil_r.
  unfold of_rows. f_equal. f_equal.
  cbn [ptr]. rewrite cumsum_last. cbn [Nat.add]. rewrite <- ST.
  pose proof (psums_removelast_last 0 (map rlen T)) as E. cbn [Nat.add] in E. exact E.
Qed.

Theorem shuffle_rows_exact m nr nc order :
  wf_csr m nr nc -> Permutation order (seq 0 nr) ->
  exists out, shuffle_rows m order = Ok out /\
    wf_csr out nr nc /\ length (idx out) = length (idx m) /\
    (forall i, i < nr -> row_entries out i = row_entries m (nth i order 0)) /\
    (forall i x, i < nr -> cell out i x = cell m (nth i order 0) x) /\
    dense_of out nr nc = map (fun r => nth r (dense_of m nr nc) []) order /\
    (no_dup_minor m -> no_dup_minor out).
Proof.
  intros W P. destruct (rows_view0 m nr nc W) as (R & Em & LR & Hok & Hc).
  subst m. rewrite <- LR in P. destruct (perm_seq_range _ _ P) as (LO & HF & _).
  set (T := map (fun r => nth r R rnil) order).
  assert (LT : length T = nr) by (unfold T; rewrite map_length; lia).
  assert (HokT : Forall row_ok T) by (apply Forall_pick; assumption).
  assert (HcT : Forall (cols_ok nc) T) by (apply Forall_pick; assumption).
  assert (PT : Permutation T R).
  { unfold T. apply pick_perm. exact P. }
  assert (Wo : wf_csr (of_rows T) nr nc) by (rewrite <- LT; apply of_rows_wf; assumption).
  assert (HE : forall i, i < nr -> row_entries (of_rows T) i = row_entries (of_rows R) (nth i order 0)).
  { intros i Hi. rewrite row_entries_of_rows by (assumption || lia).
    rewrite row_entries_of_rows; [| exact Hok | rewrite Forall_forall in HF; apply HF; apply nth_In; lia].
    unfold T. apply (nth_map_lt (fun r => nth r R rnil) order i 0). lia. }
  exists (of_rows T). split; [apply shuffle_rows_of_rows; assumption|].
  split; [exact Wo|]. split.
  - destruct (of_rows_lengths T HokT) as [L1 _]. destruct (of_rows_lengths R Hok) as [L2 _].
    rewrite L1, L2. apply sum_list_perm, Permutation_map. exact PT.
  - split; [exact HE|].
    rewrite LR in HF.
    destruct (dense_of_pick (of_rows T) (of_rows R) nr nr nc order Wo W ltac:(lia) HF HE) as [C1 C2].
    split; [exact C1|]. split; [exact C2|].
    intros ND. apply (of_rows_no_dup T nc HokT HcT).
    eapply Permutation_Forall; [apply Permutation_sym; exact PT|].
    rewrite <- (rows_of_of_rows R Hok). eapply rows_of_nodup; eassumption.
Qed.

(* ================================================================ subset_csc_h5ad_columns *)
Lemma subset_columns_of_rows R chosen :
  Forall row_ok R -> Forall (fun c => c < length R) chosen ->
  subset_columns (of_rows R) chosen =
  Ok (of_rows (map (fun c => nth c R rnil) (sort_by (fun x => x) chosen))).
Proof.
  intros Hok HF. unfold subset_columns.
  set (cs := sort_by (fun x => x) chosen).
  assert (HFc : Forall (fun c => c < length R) cs).
  { eapply Permutation_Forall; [apply Permutation_sym, sort_by_perm | exact HF]. }
  rewrite spans_from_rows by exact HFc. cbn [bind].
  rewrite copy_rows_rows by assumption. cbn [bind fst snd].
  set (T := map (fun c => nth c R rnil) cs).
  unfold of_rows. f_equal. f_equal.
  rewrite concat_rows_length.
  pose proof (psums_removelast_last 0 (map rlen T)) as E. cbn [Nat.add] in E. exact E.
Qed.

(* the major slices of a CSC matrix are its columns: wf_csr m n_cols n_rows *)
Theorem subset_columns_exact m n_cols n_rows chosen :
  wf_csr m n_cols n_rows -> Forall (fun c => c < n_cols) chosen ->
  let cs := sort_by (fun x => x) chosen in
  let k := length chosen in
  Sorted le cs /\ Permutation cs chosen /\
  exists out, subset_columns m chosen = Ok out /\
    wf_csr out k n_rows /\
    (forall i, i < k -> row_entries out i = row_entries m (nth i cs 0)) /\
    (forall i r, i < k -> cell out i r = cell m (nth i cs 0) r) /\
    dense_of out k n_rows = map (fun c => nth c (dense_of m n_cols n_rows) []) cs /\
    (no_dup_minor m -> no_dup_minor out).
Proof.
  intros W HF. cbn zeta.
  set (cs := sort_by (fun x => x) chosen).
  assert (Pcs : Permutation cs chosen) by apply sort_by_perm.
  assert (Lcs : length cs = length chosen) by apply sort_by_length.
  split. { pose proof (sort_by_sorted (fun x : nat => x) chosen) as HS. rewrite map_id in HS. exact HS. }
  split; [exact Pcs|].
  destruct (rows_view0 m n_cols n_rows W) as (R & Em & LR & Hok & Hc).
  subst m. rewrite <- LR in HF.
  assert (HFc : Forall (fun c => c < length R) cs).
  { eapply Permutation_Forall; [apply Permutation_sym; exact Pcs | exact HF]. }
  set (T := map (fun c => nth c R rnil) cs).
  assert (LT : length T = length chosen) by (unfold T; rewrite map_length; exact Lcs).
  assert (HokT : Forall row_ok T) by (apply Forall_pick; assumption).
  assert (HcT : Forall (cols_ok n_rows) T) by (apply Forall_pick; assumption).
  assert (Wo : wf_csr (of_rows T) (length chosen) n_rows) by (rewrite <- LT; apply of_rows_wf; assumption).
  assert (HE : forall i, i < length chosen -> row_entries (of_rows T) i = row_entries (of_rows R) (nth i cs 0)).
  { intros i Hi. rewrite row_entries_of_rows by (assumption || lia).
    rewrite row_entries_of_rows; [| exact Hok | rewrite Forall_forall in HFc; apply HFc; apply nth_In; lia].
    unfold T. apply (nth_map_lt (fun c => nth c R rnil) cs i 0). lia. }
  exists (of_rows T). split; [apply subset_columns_of_rows; assumption|].
  split; [exact Wo|]. split; [exact HE|].
  rewrite LR in HFc.
  destruct (dense_of_pick (of_rows T) (of_rows R) (length chosen) n_cols n_rows cs Wo W Lcs HFc HE) as [C1 C2].
  split; [exact C1|]. split; [exact C2|].
  intros ND. apply (of_rows_no_dup T n_rows HokT HcT).
  unfold T. apply Forall_pick; [|rewrite LR; exact HFc].
  rewrite <- (rows_of_of_rows R Hok). eapply rows_of_nodup; eassumption.
Qed.

(* ================================================================ scipy.sparse.csr_matrix(dense) *)
Definition row_nz (row : list Z) : srow := (map fst (row_nonzero row), map snd (row_nonzero row)).

Lemma csr_of_dense_rows d : csr_of_dense d = of_rows (map row_nz d).
Proof.
  unfold csr_of_dense, of_rows. f_equal.
  - f_equal. f_equal. rewrite !map_map. apply map_ext. intros row.
    unfold rlen, row_nz. cbn [fst]. rewrite map_length. reflexivity.
  - rewrite !map_map. reflexivity.
  - rewrite !map_map. reflexivity.
Qed.

Lemma find_nz row : forall a x,
  match find (fun p : nat * Z => fst p =? x)
             (filter (fun p => negb (snd p =? 0)%Z) (combine (seq a (length row)) row)) with
  | Some p => snd p | None => 0%Z end
  = if a <=? x then nth (x - a) row 0%Z else 0%Z.
Proof.
  induction row as [|v t IH]; intros a x.
  - cbn. destruct (a <=? x); destruct (x - a); reflexivity.
  - cbn [length seq combine filter snd]. destruct (v =? 0)%Z eqn:Ev; cbn [negb].
    + rewrite IH. apply Z.eqb_eq in Ev. subst v.
      destruct (Nat.leb_spec a x) as [E1|E1]; destruct (Nat.leb_spec (S a) x) as [E2|E2]; try lia.
      * replace (x - a) with (S (x - S a)) by lia. reflexivity.
      * replace (x - a) with 0 by lia. reflexivity.
    + cbn [find fst]. destruct (a =? x) eqn:Eax.
      * apply Nat.eqb_eq in Eax. subst x. cbn [snd]. rewrite Nat.leb_refl, Nat.sub_diag. reflexivity.
      * apply Nat.eqb_neq in Eax. rewrite IH.
        destruct (Nat.leb_spec a x) as [E1|E1]; destruct (Nat.leb_spec (S a) x) as [E2|E2]; try lia.
        replace (x - a) with (S (x - S a)) by lia. reflexivity.
Qed.

Lemma nodup_map_filter {A B} (g : A -> B) (f : A -> bool) l :
  NoDup (map g l) -> NoDup (map g (filter f l)).
Proof.
  induction l as [|x t IH]; intros H; [constructor|]. cbn in H. inversion H as [|? ? Hn Ht]; subst.
  cbn [filter]. destruct (f x); [|apply IH; exact Ht]. cbn [map]. constructor; [|apply IH; exact Ht].
  intros Hin. apply Hn. apply in_map_iff in Hin. destruct Hin as (y & Ey & Hy).
  apply filter_In in Hy. apply in_map_iff. exists y. tauto.
Qed.

Lemma row_nz_ok row : row_ok (row_nz row).
Proof. unfold row_ok, row_nz. cbn [fst snd]. rewrite !map_length. reflexivity. Qed.

Lemma row_nz_cols row : cols_ok (length row) (row_nz row).
Proof.
  unfold cols_ok, row_nz, row_nonzero. cbn [fst]. apply Forall_forall. intros c Hc.
  apply in_map_iff in Hc. destruct Hc as (p & <- & Hp). apply filter_In in Hp. destruct Hp as [Hp _].
  destruct p as [i v]. apply in_combine_l in Hp. apply in_seq in Hp. cbn. lia.
Qed.

Lemma row_nz_nodup row : nodup_row (row_nz row).
Proof.
  unfold nodup_row, row_nz, row_nonzero. cbn [fst]. apply nodup_map_filter.
  rewrite map_fst_combine by (rewrite seq_length; reflexivity). apply seq_NoDup.
Qed.

Lemma dense_row_nz row : dense_row (length row) (row_nz row) = row.
Proof.
  unfold dense_row. transitivity (map (fun x => nth x row 0%Z) (seq 0 (length row))); [|apply map_nth_all].
  apply map_ext. intros x.
  rewrite row_value_find; [| exact (row_nz_nodup row) | exact (row_nz_ok row)].
  unfold row_nz. cbn [fst snd]. rewrite combine_fst_snd. unfold row_nonzero.
  rewrite (find_nz row 0 x). cbn [Nat.leb]. rewrite Nat.sub_0_r. reflexivity.
Qed.

(* ================================================================ amalgamate: joining pieces *)
(* a pointer array of n + 1 entries passes through the zero-padded copy of
   amalgamate_csr_to_x unchanged when n is the row count announced *)
Lemma amalgamate_ptr_id (P : list nat) n :
  length P = S n ->
  firstn n (removelast P ++ repeat 0 (n - length (removelast P))) ++ [last P 0] = P.
Proof.
  intros HL. assert (HP : P <> []) by (destruct P; [discriminate | discriminate]).
  pose proof (app_removelast_last 0 HP) as E.
  assert (HB : length (removelast P) = n).
  { apply (f_equal (@length nat)) in E. rewrite app_length in E. cbn in E. lia. }
  rewrite HB.
  rewrite Nat.sub_diag. cbn [repeat]. rewrite app_nil_r.
  rewrite <- HB at 1. rewrite firstn_all. symmetry. exact E.
Qed.

(* no piece is clipped when all rows fit *)
Lemma clipped_piece_fits N : forall ps pos,
  pos + sum_list (map (fun p => length (ptr p) - 1) ps) <= N -> clipped_piece N pos ps = false.
Proof.
  induction ps as [|p t IH]; intros pos H; [reflexivity|]. cbn [clipped_piece].
  cbn [map] in H. unfold sum_list in H. cbn [fold_right] in H. fold (sum_list (map (fun p => length (ptr p) - 1) t)) in H.
  rewrite IH by lia.
  replace (N <? pos + (length (ptr p) - 1)) with false by (symmetry; apply Nat.ltb_ge; lia).
  rewrite andb_false_r. reflexivity.
Qed.

Lemma of_rows_total Rs :
  sum_list (map (fun p => length (ptr p) - 1) (map of_rows Rs)) = length (concat Rs).
Proof.
  unfold sum_list. induction Rs as [|R t IH]; [reflexivity|]. cbn [map fold_right concat].
  rewrite app_length, IH. f_equal. unfold of_rows. cbn [ptr length].
  rewrite cumsum_length, map_length. lia.
Qed.

Lemma amalgamate_csr_rows Rs :
  Forall (Forall row_ok) Rs ->
  amalgamate_csr (map of_rows Rs) (length (concat Rs)) = Ok (of_rows (concat Rs)).
Proof.
  intros H. unfold amalgamate_csr. rewrite merge_csr_rows by exact H. cbn [bind]. cbv zeta.
  rewrite clipped_piece_fits by (rewrite of_rows_total; lia).
  assert (HL : length (ptr (of_rows (concat Rs))) = S (length (concat Rs))).
  { unfold of_rows. cbn [ptr length]. rewrite cumsum_length, map_length. reflexivity. }
  rewrite (amalgamate_ptr_id _ _ HL).
  destruct (of_rows (concat Rs)); reflexivity.
Qed.

Definition rows_inv (nc : nat) (R : list srow) : Prop :=
  Forall row_ok R /\ Forall (cols_ok nc) R /\ Forall nodup_row R.

Lemma rows_inv_concat nc Rs : Forall (rows_inv nc) Rs -> rows_inv nc (concat Rs).
Proof.
  intros H. unfold rows_inv. repeat split; apply Forall_concat;
    (eapply Forall_impl; [|exact H]); unfold rows_inv; tauto.
Qed.

Lemma concat_length_lens {A} (ll : list (list A)) : length (concat ll) = sum_list (map (@length A) ll).
Proof. unfold sum_list. induction ll as [|l t IH]; cbn; [reflexivity|]. rewrite app_length, IH. reflexivity. Qed.

Lemma pieces_view nc pieces ns :
  Forall2 (fun p n => wf_csr p n nc /\ no_dup_minor p) pieces ns ->
  exists Rs, pieces = map of_rows Rs /\ ns = map (@length _) Rs /\ Forall (rows_inv nc) Rs.
Proof.
  induction 1 as [|p n pieces ns [W ND] _ IH]; [exists []; repeat split; constructor|].
  destruct IH as (Rs & -> & -> & HI).
  destruct (rows_view p n nc W ND) as (R & -> & LR & Hok & Hc & HN & _).
  exists (R :: Rs). cbn [map]. rewrite LR. repeat split. constructor; [|exact HI]. repeat split; assumption.
Qed.

Lemma combine_map_same {A B C} (f : A -> B) (g : A -> C) l :
  combine (map f l) (map g l) = map (fun x => (f x, g x)) l.
Proof. induction l as [|x t IH]; cbn; [reflexivity|]. rewrite IH. reflexivity. Qed.

(* amalgamate_csr_to_x: pieces of n_k rows each are joined into one well-formed matrix of
   sum n_k rows whose dense view is the concatenation of the dense views *)
Theorem amalgamate_csr_exact pieces ns nc :
  Forall2 (fun p n => wf_csr p n nc /\ no_dup_minor p) pieces ns ->
  exists out, amalgamate_csr pieces (sum_list ns) = Ok out /\
    wf_csr out (sum_list ns) nc /\ no_dup_minor out /\
    dense_of out (sum_list ns) nc =
    concat (map (fun pn => dense_of (fst pn) (snd pn) nc) (combine pieces ns)) /\
    dense_of out (sum_list ns) nc =
    amalgamate_dense (map (fun pn => dense_of (fst pn) (snd pn) nc) (combine pieces ns)).
Proof.
  intros H. destruct (pieces_view nc pieces ns H) as (Rs & -> & -> & HI).
  destruct (rows_inv_concat nc Rs HI) as (Hok & Hc & HN).
  assert (HokRs : Forall (Forall row_ok) Rs) by (eapply Forall_impl; [|exact HI]; unfold rows_inv; tauto).
  rewrite <- concat_length_lens.
  exists (of_rows (concat Rs)). split; [apply amalgamate_csr_rows; exact HokRs|].
  split; [apply of_rows_wf; assumption|].
  split; [eapply of_rows_no_dup; eassumption|].
  assert (E : dense_of (of_rows (concat Rs)) (length (concat Rs)) nc =
              concat (map (fun pn => dense_of (fst pn) (snd pn) nc)
                          (combine (map of_rows Rs) (map (@length _) Rs)))).
  { rewrite dense_of_of_rows by assumption. rewrite concat_map. f_equal.
    rewrite combine_map_same, map_map. apply map_ext_in. intros R HR. cbn [fst snd].
    rewrite Forall_forall in HI. destruct (HI R HR) as (H1 & H2 & H3).
    symmetry. apply dense_of_of_rows; assumption. }
  split; exact E.
Qed.

(* ================================================================ amalgamate_h5ad on sources *)
Lemma res_all_ok {A} (l : list (res A)) ys : Forall2 (fun x y => x = Ok y) l ys -> res_all l = Ok ys.
Proof. induction 1 as [|x y l ys -> _ IH]; cbn; [reflexivity|]. rewrite IH. reflexivity. Qed.

Lemma source_piece nc s :
  source_ok nc s ->
  exists T, piece_sparse s = Ok (of_rows T) /\ rows_inv nc T /\
            map (dense_row nc) T = source_rows nc s /\ piece_dense s = Ok (source_rows nc s).
Proof.
  destruct s as [m nc' rows | d nr rows]; cbn [source_ok piece_sparse piece_dense source_rows].
  - intros (-> & W & ND & Hne & NDr & HF).
    set (nr := length (ptr m) - 1) in *.
    rewrite (csr_get_batch_exact m nr nc rows W ND Hne NDr HF).
    destruct (rows_view m nr nc W ND) as (R & -> & LR & Hok & Hc & HN & ED).
    rewrite <- LR in HF.
    exists (map (fun r => nth r R rnil) rows).
    split; [apply load_disjoint_rows; assumption|].
    split; [repeat split; apply Forall_pick; assumption|].
    split; [|reflexivity]. rewrite ED. apply pick_dense_rows. exact HF.
  - intros (HL & HR & Hne & NDr & HF).
    rewrite (dense_get_batch_exact d nr rows HL Hne NDr HF). cbn [bind].
    set (b := map (fun r => nth r d []) rows).
    assert (Hb : Forall (fun row => length row = nc) b).
    { unfold b. apply Forall_pick; [exact HR | rewrite HL; exact HF]. }
    exists (map row_nz b). split; [rewrite csr_of_dense_rows; reflexivity|].
    split.
    + repeat split; apply Forall_forall; intros r Hr; apply in_map_iff in Hr; destruct Hr as (row & <- & Hrow).
      * apply row_nz_ok.
      * rewrite Forall_forall in Hb. rewrite <- (Hb row Hrow). apply row_nz_cols.
      * apply row_nz_nodup.
    + split; [|reflexivity]. rewrite map_map. rewrite <- (map_id b) at 2. apply map_ext_in.
      intros row Hrow. rewrite Forall_forall in Hb. rewrite <- (Hb row Hrow). apply dense_row_nz.
Qed.

Lemma sources_view nc srcs :
  Forall (source_ok nc) srcs ->
  exists Ts, Forall2 (fun x y => x = Ok y) (map piece_sparse srcs) (map of_rows Ts) /\
             Forall (rows_inv nc) Ts /\
             map (map (dense_row nc)) Ts = map (source_rows nc) srcs /\
             Forall2 (fun x y => x = Ok y) (map piece_dense srcs) (map (source_rows nc) srcs).
Proof.
  induction 1 as [|s srcs Hs _ IH]; [exists []; repeat split; constructor|].
  destruct IH as (Ts & I1 & I2 & I3 & I4). destruct (source_piece nc s Hs) as (T & P1 & P2 & P3 & P4).
  exists (T :: Ts). cbn [map]. split; [constructor; assumption|]. split; [constructor; assumption|].
  split; [rewrite P3, I3; reflexivity | constructor; assumption].
Qed.

(* amalgamate_h5ad: the output is the concatenation, source after source, of the selected
   rows of each source in the requested order; the dense destination holds exactly that
   matrix and the sparse destination is a well-formed CSR encoding of it *)
Theorem amalgamate_exact srcs nc :
  Forall (source_ok nc) srcs ->
  let D := concat (map (source_rows nc) srcs) in
  amalgamate_to_dense srcs = Ok D /\
  exists out, amalgamate_to_csr srcs (length D) = Ok out /\
    wf_csr out (length D) nc /\ no_dup_minor out /\ dense_of out (length D) nc = D.
Proof.
  intros H. cbn zeta. destruct (sources_view nc srcs H) as (Ts & I1 & I2 & I3 & I4).
  split.
  - unfold amalgamate_to_dense. rewrite (res_all_ok _ _ I4). reflexivity.
  - destruct (rows_inv_concat nc Ts I2) as (Hok & Hc & HN).
    assert (HokTs : Forall (Forall row_ok) Ts) by (eapply Forall_impl; [|exact I2]; unfold rows_inv; tauto).
    assert (ED : concat (map (source_rows nc) srcs) = map (dense_row nc) (concat Ts)).
    { rewrite <- I3. symmetry. apply concat_map. }
    rewrite ED, map_length.
    exists (of_rows (concat Ts)). unfold amalgamate_to_csr. rewrite (res_all_ok _ _ I1). cbn [bind].
    split; [apply amalgamate_csr_rows; exact HokTs|].
    split; [apply of_rows_wf; assumption|].
    split; [eapply of_rows_no_dup; eassumption|].
    apply dense_of_of_rows; assumption.
Qed.

(* the decoded sources are what the wire decoders of 1305 / 1306 compute *)
Lemma sx_source_sparse_eq x : sx_source_sparse x = option_map piece_sparse (sx_source x).
Proof.
  destruct x as [z|l]; [reflexivity|].
  destruct l as [|a [|b [|c [|d [|e t]]]]]; try reflexivity; destruct a as [z|?]; try reflexivity.
  - destruct z as [|p|p]; try reflexivity; destruct p; reflexivity.
  - destruct z as [|p|p]; try reflexivity; destruct p; reflexivity.
  - destruct z as [|p|p]; try reflexivity; destruct p; reflexivity.
  - destruct z as [|p|p]; try reflexivity.
    + cbn. destruct (sx_comp b), (sx_nat c), (sx_Lnat d); reflexivity.
    + destruct p; try reflexivity. cbn. destruct (sx_LLZ b), (sx_nat c), (sx_Lnat d); reflexivity.
  - destruct z as [|p|p]; try reflexivity; destruct p; reflexivity.
Qed.

Lemma sx_source_dense_eq x : sx_source_dense x = option_map piece_dense (sx_source x).
Proof.
  destruct x as [z|l]; [reflexivity|].
  destruct l as [|a [|b [|c [|d [|e t]]]]]; try reflexivity; destruct a as [z|?]; try reflexivity.
  - destruct z as [|p|p]; try reflexivity; destruct p; reflexivity.
  - destruct z as [|p|p]; try reflexivity; destruct p; reflexivity.
  - destruct z as [|p|p]; try reflexivity; destruct p; reflexivity.
  - destruct z as [|p|p]; try reflexivity.
    + cbn. destruct (sx_comp b), (sx_nat c), (sx_Lnat d); reflexivity.
    + destruct p; try reflexivity. cbn. destruct (sx_LLZ b), (sx_nat c), (sx_Lnat d); reflexivity.
  - destruct z as [|p|p]; try reflexivity; destruct p; reflexivity.
Qed.

Lemma opt_all_option_map {A B C} (g : A -> option B) (f : B -> C) (h : A -> option C) l :
  (forall x, h x = option_map f (g x)) ->
  opt_all (map h l) = option_map (map f) (opt_all (map g l)).
Proof.
  intros H. induction l as [|x t IH]; [reflexivity|]. cbn [map opt_all]. rewrite H.
  destruct (g x) as [b|]; [|reflexivity]. cbn [option_map]. rewrite IH.
  destruct (opt_all (map g t)); reflexivity.
Qed.

(* the entry points 1305 / 1306 driven by the correspondence check run exactly
   amalgamate_to_csr / amalgamate_to_dense on the decoded sources *)
Theorem run_amalgamate_sparse_decoded srcs nr ss n :
  sx_list sx_source srcs = Some ss -> sx_nat nr = Some n ->
  run_amalgamate_sparse (L [srcs; nr]) = of_res of_comp (amalgamate_to_csr ss n).
Proof.
  intros H1 H2. unfold run_amalgamate_sparse. rewrite H2.
  destruct srcs as [z|l]; [discriminate|]. cbn [sx_list] in *.
  rewrite (opt_all_option_map sx_source piece_sparse sx_source_sparse l sx_source_sparse_eq).
  rewrite H1. reflexivity.
Qed.

Theorem run_amalgamate_dense_decoded srcs ss :
  sx_list sx_source srcs = Some ss ->
  run_amalgamate_dense srcs = of_res of_dense (amalgamate_to_dense ss).
Proof.
  intros H1. unfold run_amalgamate_dense.
  destruct srcs as [z|l]; [discriminate|]. cbn [sx_list] in *.
  rewrite (opt_all_option_map sx_source piece_dense sx_source_dense l sx_source_dense_eq).
  rewrite H1. reflexivity.
Qed.

Theorem run_amalgamate_decoded srcs nr ss n :
  sx_list sx_source srcs = Some ss -> sx_nat nr = Some n ->
  run_amalgamate_sparse (L [srcs; nr]) = of_res of_comp (amalgamate_to_csr ss n) /\
  run_amalgamate_dense srcs = of_res of_dense (amalgamate_to_dense ss).
Proof.
  intros H1 H2.
  exact (conj (run_amalgamate_sparse_decoded srcs nr ss n H1 H2) (run_amalgamate_dense_decoded srcs ss H1)).
Qed.

(* necessity of "permutation of ALL rows" in shuffle_rows_exact: a duplicate-free in-range
   list that leaves rows out is accepted, and the result is not a CSR matrix (the
   pointer array is padded with zeros, so it decreases) *)
Theorem shuffle_rows_sublist_refuted :
  exists m order out,
    wf_csr m 4 3 /\ no_dup_minor m /\ NoDup order /\ Forall (fun r => r < 4) order /\
    shuffle_rows m order = Ok out /\ ptr out = [0; 1; 0; 0; 5] /\ ~ mono (ptr out).
Proof.
  exists {| ptr := [0; 2; 2; 3; 5]; idx := [0; 2; 2; 0; 2]; dat := [5; 6; 7; 8; 9]%Z |}, [2; 0].
  eexists. split; [|split; [|split; [|split; [|split; [vm_compute; reflexivity | split; [reflexivity|]]]]]].
  - split; [|split; reflexivity]. split; [reflexivity|]. split; [reflexivity|]. split; [cbn; lia|].
    repeat (apply Forall_cons; [lia|]). apply Forall_nil.
  - intros j Hj. cbn [ptr length] in Hj.
    assert (D : j = 0 \/ j = 1 \/ j = 2 \/ j = 3) by lia.
    destruct D as [ -> | [ -> | [ -> | -> ] ] ]; vm_compute;
      repeat (apply NoDup_cons; [cbn [In]; lia|]); apply NoDup_nil.
  - repeat (apply NoDup_cons; [cbn [In]; lia|]). apply NoDup_nil.
  - repeat (apply Forall_cons; [lia|]). apply Forall_nil.
  - cbn. lia.
Qed.
