(* C13: row shuffling, column sub-setting and amalgamation on the rows view.
     shuffle_csr_h5ad_rows, subset_csc_h5ad_columns, amalgamate_h5ad *)
From Coq Require Import List Arith ZArith Lia Bool Permutation Sorted.
From CTM Require Import Base.Sx Base.ListX Model.Sparse Proofs.SparseP Proofs.SparseSortP Proofs.SparseBatchP.
Import ListNotations.

Notation srow := (list nat * list Z)%type (only parsing).
Notation rnil := (@nil nat, @nil Z) (only parsing).

(* ================================================================ the rows view without the
   duplicate-freeness *)
Lemma rows_view0 m nr nc :
  wf_csr m nr nc ->
  exists R, m = of_rows R /\ length R = nr /\ Forall row_ok R /\ Forall (cols_ok nc) R.
Proof.
  intros W. exists (rows_of m).
  split; [symmetry; eapply of_rows_rows_of; exact W|].
  split; [eapply rows_of_length; exact W|].
  split; [eapply rows_of_ok; exact W | eapply rows_of_cols_ok; exact W].
Qed.

Lemma row_entries_of_rows T j :
  Forall row_ok T -> j < length T -> row_entries (of_rows T) j = nth j T rnil.
Proof.
  intros Hok Hj. unfold row_entries.
  rewrite <- (rows_of_nth (of_rows T) j).
  - rewrite rows_of_of_rows by exact Hok. reflexivity.
  - unfold of_rows. cbn [ptr length]. rewrite cumsum_length, map_length. lia.
Qed.

(* the value a stored row gives to minor index x: first match *)
Definition entry_value (x : nat) (r : srow) : Z :=
  match find (fun p => fst p =? x) (combine (fst r) (snd r)) with Some p => snd p | None => 0%Z end.

Lemma cell_entries m nr nc j x :
  wf_csr m nr nc -> j < nr -> cell m j x = entry_value x (row_entries m j).
Proof.
  intros W Hj. pose proof W as (Wc & HP & HD). destruct Wc as (H0 & HL & HM & HF).
  assert (Hj' : S j < length (ptr m)) by lia.
  pose proof (mono_nth_le _ j HM Hj') as Hle.
  pose proof (mono_nth_le_last _ (S j) HM Hj') as Hlast. rewrite HL in Hlast.
  unfold entry_value, row_entries. cbn [fst snd].
  set (a := nth j (ptr m) 0) in *. set (b := nth (S j) (ptr m) 0) in *.
  unfold cell, lookup, span. fold a b.
  pose proof (find_span_slices (idx m) (dat m) x a (b - a)) as F.
  replace (a + (b - a)) with b in F by lia.
  specialize (F ltac:(lia) HD).
  destruct (find (fun k => nth k (idx m) 0 =? x) (seq a (b - a))) as [k|];
    destruct (find (fun p => fst p =? x) (combine (slice (idx m) a b) (slice (dat m) a b))) as [p|];
    try discriminate; [inversion F; reflexivity | reflexivity].
Qed.

(* equal stored rows give equal dense rows *)
Lemma dense_of_pick out m n nr nc order :
  wf_csr out n nc -> wf_csr m nr nc -> length order = n -> Forall (fun r => r < nr) order ->
  (forall i, i < n -> row_entries out i = row_entries m (nth i order 0)) ->
  (forall i x, i < n -> cell out i x = cell m (nth i order 0) x) /\
  dense_of out n nc = map (fun r => nth r (dense_of m nr nc) []) order.
Proof.
  intros Wo Wm HL HF HE.
  assert (HC : forall i x, i < n -> cell out i x = cell m (nth i order 0) x).
  { intros i x Hi. rewrite (cell_entries out n nc) by assumption.
    rewrite (cell_entries m nr nc); [rewrite HE by exact Hi; reflexivity | exact Wm|].
    rewrite Forall_forall in HF. apply HF. apply nth_In. lia. }
  split; [exact HC|].
  unfold dense_of. rewrite <- (map_nth_all order 0) at 1. rewrite HL, map_map.
  apply map_ext_in. intros i Hi. apply in_seq in Hi.
  assert (Hr : nth i order 0 < nr) by (rewrite Forall_forall in HF; apply HF; apply nth_In; lia).
  rewrite (nth_map_lt _ (seq 0 nr) (nth i order 0) 0) by (rewrite seq_length; exact Hr).
  rewrite seq_nth by exact Hr. cbn [Nat.add].
  apply map_ext. intros x. apply HC. lia.
Qed.

(* ================================================================ the copying loops *)
Lemma of_rows_ptr_nth R r : r <= length R ->
  nth_error (ptr (of_rows R)) r = Some (sum_list (map rlen (firstn r R))).
Proof.
  intros H. unfold of_rows. cbn [ptr]. fold (psums 0 (map rlen R)).
  rewrite nth_error_psums by (rewrite map_length; exact H). rewrite firstn_map. reflexivity.
Qed.

Lemma span_rlen (R : list srow) r : r < length R ->
  sum_list (map rlen (firstn (S r) R)) - sum_list (map rlen (firstn r R)) = rlen (nth r R rnil).
Proof.
  intros H. rewrite (firstn_S_nth R rnil _ H). rewrite map_app, sum_list_app.
  unfold sum_list at 2. cbn. lia.
Qed.

Lemma spans_from_rows R order : forall ct,
  Forall (fun r => r < length R) order ->
  spans_from ct (ptr (of_rows R)) order =
  Ok (removelast (psums ct (map rlen (map (fun r => nth r R rnil) order)))).
Proof.
  induction order as [|r t IH]; intros ct HF; [reflexivity|].
  inversion HF as [|? ? Hr HF']; subst. cbn [spans_from].
  rewrite !of_rows_ptr_nth by lia. rewrite span_rlen by exact Hr.
  rewrite IH by exact HF'. reflexivity.
Qed.

Lemma copy_rows_rows R order :
  Forall row_ok R -> Forall (fun r => r < length R) order ->
  copy_rows (of_rows R) order =
  Ok (concat (map fst (map (fun r => nth r R rnil) order)),
      concat (map snd (map (fun r => nth r R rnil) order))).
Proof.
  intros Hok. induction order as [|r t IH]; intros HF; [reflexivity|].
  inversion HF as [|? ? Hr HF']; subst. cbn [copy_rows].
  rewrite !of_rows_ptr_nth by lia. rewrite IH by exact HF'. cbn [bind fst snd map concat].
  unfold of_rows. cbn [idx dat]. rewrite rows_seg_fst by exact Hr. rewrite rows_seg_snd by assumption.
  reflexivity.
Qed.

(* ================================================================ shuffle_csr_h5ad_rows *)
Lemma perm_seq_range order n : Permutation order (seq 0 n) ->
  length order = n /\ Forall (fun r => r < n) order /\ NoDup order.
Proof.
  intros P. split; [rewrite (Permutation_length P); apply seq_length|]. split.
  - eapply Permutation_Forall; [apply Permutation_sym; exact P|].
    apply Forall_forall. intros x Hx. apply in_seq in Hx. lia.
  - eapply Permutation_NoDup; [apply Permutation_sym; exact P | apply seq_NoDup].
Qed.

Lemma pick_perm {A} (R : list A) d order :
  Permutation order (seq 0 (length R)) -> Permutation (map (fun r => nth r R d) order) R.
Proof.
  intros P. eapply Permutation_trans; [apply Permutation_map; exact P|].
  rewrite map_nth_all. reflexivity.
Qed.

Lemma shuffle_rows_of_rows R order :
  Forall row_ok R -> Permutation order (seq 0 (length R)) ->
  shuffle_rows (of_rows R) order = Ok (of_rows (map (fun r => nth r R rnil) order)).
Proof.
  intros Hok P. destruct (perm_seq_range _ _ P) as (LO & HF & _).
  set (T := map (fun r => nth r R rnil) order).
  assert (PT : Permutation T R).
  { unfold T. apply pick_perm. exact P. }
  assert (ST : sum_list (map rlen T) = sum_list (map rlen R)) by (apply sum_list_perm, Permutation_map; exact PT).
  assert (HokT : Forall row_ok T) by (eapply Permutation_Forall; [apply Permutation_sym; exact PT | exact Hok]).
  assert (LT : length T = length R) by (unfold T; rewrite map_length; exact LO).
  destruct (of_rows_lengths R Hok) as [LI LD].
  unfold shuffle_rows, precompute_indptr.
  rewrite spans_from_rows by exact HF. fold T. cbn [bind].
  unfold place_ptr. rewrite removelast_psums_length, map_length, LT.
  unfold of_rows at 1 2. cbn [ptr length]. rewrite cumsum_length, map_length.
  replace (S (length R) <? length R) with false by (symmetry; apply Nat.ltb_ge; lia).
  rewrite Nat.sub_diag. cbn [repeat]. rewrite app_nil_r.
  rewrite firstn_all2 by (rewrite removelast_psums_length, map_length, LT; lia).
  cbn [bind]. rewrite copy_rows_rows by assumption. fold T. cbn [bind fst snd].
  rewrite LI, LD, concat_rows_length, (concat_rows_length_snd _ HokT), ST.
  rewrite Nat.ltb_irrefl. cbn [orb]. rewrite Nat.sub_diag. cbn [repeat]. rewrite !app_nil_r.
  unfold of_rows. f_equal. f_equal.
  cbn [ptr]. rewrite cumsum_last. cbn [Nat.add]. rewrite <- ST.
  pose proof (psums_removelast_last 0 (map rlen T)) as E. cbn [Nat.add] in E. exact E.
Qed.

Theorem shuffle_rows_exact m nr nc order :
  wf_csr m nr nc -> Permutation order (seq 0 nr) ->
  exists out, shuffle_rows m order = Ok out /\
    wf_csr out nr nc /\ length (idx out) = length (idx m) /\
    (forall i, i < nr -> row_entries out i = row_entries m (nth i order 0)) /\
    (forall i x, i < nr -> cell out i x = cell m (nth i order 0) x) /\
    dense_of out nr nc = map (fun r => nth r (dense_of m nr nc) []) order /\
    (no_dup_minor m -> no_dup_minor out).
Proof.
  intros W P. destruct (rows_view0 m nr nc W) as (R & Em & LR & Hok & Hc).
  subst m. rewrite <- LR in P. destruct (perm_seq_range _ _ P) as (LO & HF & _).
  set (T := map (fun r => nth r R rnil) order).
  assert (LT : length T = nr) by (unfold T; rewrite map_length; lia).
  assert (HokT : Forall row_ok T) by (apply Forall_pick; assumption).
  assert (HcT : Forall (cols_ok nc) T) by (apply Forall_pick; assumption).
  assert (PT : Permutation T R).
  { unfold T. apply pick_perm. exact P. }
  assert (Wo : wf_csr (of_rows T) nr nc) by (rewrite <- LT; apply of_rows_wf; assumption).
  assert (HE : forall i, i < nr -> row_entries (of_rows T) i = row_entries (of_rows R) (nth i order 0)).
  { intros i Hi. rewrite row_entries_of_rows by (assumption || lia).
    rewrite row_entries_of_rows; [| exact Hok | rewrite Forall_forall in HF; apply HF; apply nth_In; lia].
    unfold T. apply (nth_map_lt (fun r => nth r R rnil) order i 0). lia. }
  exists (of_rows T). split; [apply shuffle_rows_of_rows; assumption|].
  split; [exact Wo|]. split.
  - destruct (of_rows_lengths T HokT) as [L1 _]. destruct (of_rows_lengths R Hok) as [L2 _].
    rewrite L1, L2. apply sum_list_perm, Permutation_map. exact PT.
  - split; [exact HE|].
    rewrite LR in HF.
    destruct (dense_of_pick (of_rows T) (of_rows R) nr nr nc order Wo W ltac:(lia) HF HE) as [C1 C2].
    split; [exact C1|]. split; [exact C2|].
    intros ND. apply (of_rows_no_dup T nc HokT HcT).
    eapply Permutation_Forall; [apply Permutation_sym; exact PT|].
    rewrite <- (rows_of_of_rows R Hok). eapply rows_of_nodup; eassumption.
Qed.

(* ================================================================ subset_csc_h5ad_columns *)
Lemma subset_columns_of_rows R chosen :
  Forall row_ok R -> Forall (fun c => c < length R) chosen ->
  subset_columns (of_rows R) chosen =
  Ok (of_rows (map (fun c => nth c R rnil) (sort_by (fun x => x) chosen))).
Proof.
  intros Hok HF. unfold subset_columns.
  set (cs := sort_by (fun x => x) chosen).
  assert (HFc : Forall (fun c => c < length R) cs).
  { eapply Permutation_Forall; [apply Permutation_sym, sort_by_perm | exact HF]. }
  rewrite spans_from_rows by exact HFc. cbn [bind].
  rewrite copy_rows_rows by assumption. cbn [bind fst snd].
  set (T := map (fun c => nth c R rnil) cs).
  unfold of_rows. f_equal. f_equal.
  rewrite concat_rows_length.
  pose proof (psums_removelast_last 0 (map rlen T)) as E. cbn [Nat.add] in E. exact E.
Qed.

(* the major slices of a CSC matrix are its columns: wf_csr m n_cols n_rows *)
Theorem subset_columns_exact m n_cols n_rows chosen :
  wf_csr m n_cols n_rows -> Forall (fun c => c < n_cols) chosen ->
  let cs := sort_by (fun x => x) chosen in
  let k := length chosen in
  Sorted le cs /\ Permutation cs chosen /\
  exists out, subset_columns m chosen = Ok out /\
    wf_csr out k n_rows /\
    (forall i, i < k -> row_entries out i = row_entries m (nth i cs 0)) /\
    (forall i r, i < k -> cell out i r = cell m (nth i cs 0) r) /\
    dense_of out k n_rows = map (fun c => nth c (dense_of m n_cols n_rows) []) cs /\
    (no_dup_minor m -> no_dup_minor out).
Proof.
  intros W HF. cbn zeta.
  set (cs := sort_by (fun x => x) chosen).
  assert (Pcs : Permutation cs chosen) by apply sort_by_perm.
  assert (Lcs : length cs = length chosen) by apply sort_by_length.
  split. { pose proof (sort_by_sorted (fun x : nat => x) chosen) as HS. rewrite map_id in HS. exact HS. }
  split; [exact Pcs|].
  destruct (rows_view0 m n_cols n_rows W) as (R & Em & LR & Hok & Hc).
  subst m. rewrite <- LR in HF.
  assert (HFc : Forall (fun c => c < length R) cs).
  { eapply Permutation_Forall; [apply Permutation_sym; exact Pcs | exact HF]. }
  set (T := map (fun c => nth c R rnil) cs).
  assert (LT : length T = length chosen) by (unfold T; rewrite map_length; exact Lcs).
  assert (HokT : Forall row_ok T) by (apply Forall_pick; assumption).
  assert (HcT : Forall (cols_ok n_rows) T) by (apply Forall_pick; assumption).
  assert (Wo : wf_csr (of_rows T) (length chosen) n_rows) by (rewrite <- LT; apply of_rows_wf; assumption).
  assert (HE : forall i, i < length chosen -> row_entries (of_rows T) i = row_entries (of_rows R) (nth i cs 0)).
  { intros i Hi. rewrite row_entries_of_rows by (assumption || lia).
    rewrite row_entries_of_rows; [| exact Hok | rewrite Forall_forall in HFc; apply HFc; apply nth_In; lia].
    unfold T. apply (nth_map_lt (fun c => nth c R rnil) cs i 0). lia. }
  exists (of_rows T). split; [apply subset_columns_of_rows; assumption|].
  split; [exact Wo|]. split; [exact HE|].
  rewrite LR in HFc.
  destruct (dense_of_pick (of_rows T) (of_rows R) (length chosen) n_cols n_rows cs Wo W Lcs HFc HE) as [C1 C2].
  split; [exact C1|]. split; [exact C2|].
  intros ND. apply (of_rows_no_dup T n_rows HokT HcT).
  unfold T. apply Forall_pick; [|rewrite LR; exact HFc].
  rewrite <- (rows_of_of_rows R Hok). eapply rows_of_nodup; eassumption.
Qed.
