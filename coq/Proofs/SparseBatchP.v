(* get_batch (C05): _load_disjoint_csr / CSRRowIterator.get_batch /
   DenseArrayRowIterator.get_batch return the requested rows in the requested order. *)
From Coq Require Import List Arith ZArith Lia Bool Permutation Sorted.
From CTM Require Import Base.Sx Base.ListX Model.Sparse Proofs.SparseP Proofs.SparseSortP.
Import ListNotations.

Notation srow := (list nat * list Z)%type (only parsing).
Notation rnil := (@nil nat, @nil Z) (only parsing).

(* ================================================================ small list facts *)
Lemma Forall_slice {A} (P : A -> Prop) l a b : Forall P l -> Forall P (slice l a b).
Proof. intros H. eapply Forall_sub; [|exact H]. intros x Hx. exact (In_slice _ _ _ _ Hx). Qed.

Lemma slice_as_map {A} (l : list A) d a b :
  a <= b -> b <= length l -> slice l a b = map (fun k => nth k l d) (seq a (b - a)).
Proof.
  intros H1 H2. rewrite map_nth_seq_slice by lia. f_equal. lia.
Qed.

Lemma map_nth_all {A} (l : list A) d : map (fun k => nth k l d) (seq 0 (length l)) = l.
Proof. rewrite map_nth_seq_slice by lia. apply slice_full. Qed.

Lemma nth_map_lt {A B} (f : A -> B) l k d d' : k < length l -> nth k (map f l) d' = f (nth k l d).
Proof.
  intros H. rewrite (nth_indep _ d' (f d)) by (rewrite map_length; exact H). apply map_nth.
Qed.

Lemma concat_map_map {A B C} (f : B -> C) (g : A -> list B) l :
  concat (map (fun x => map f (g x)) l) = map f (concat (map g l)).
Proof. induction l as [|x t IH]; cbn; [reflexivity|]. rewrite map_app, IH. reflexivity. Qed.

Lemma removelast_map {A B} (f : A -> B) l : removelast (map f l) = map f (removelast l).
Proof.
  induction l as [|x t IH]; [reflexivity|]. destruct t as [|y t']; [reflexivity|].
  change (removelast (map f (x :: y :: t'))) with (f x :: removelast (map f (y :: t'))).
  rewrite IH. reflexivity.
Qed.

(* ================================================================ pieces of the rows view *)
Lemma load_sparse_slice R a b :
  Forall row_ok R -> a <= b -> b <= length R ->
  load_sparse a b (of_rows R) = Ok (of_rows (slice R a b)).
Proof.
  intros Hok H01 H1.
  assert (ER : R = firstn a R ++ slice R a b ++ skipn b R).
  { rewrite <- (firstn_skipn a R) at 1. f_equal.
    rewrite <- (firstn_skipn (b - a) (skipn a R)) at 1. unfold slice. f_equal.
    rewrite skipn_skipn. f_equal. lia. }
  assert (L0 : length (firstn a R) = a) by (rewrite firstn_length; lia).
  assert (L1 : length (slice R a b) = b - a) by (apply slice_length; exact H1).
  rewrite ER at 1.
  replace a with (length (firstn a R)) at 1 by exact L0.
  replace b with (length (firstn a R) + length (slice R a b)) at 1 by lia.
  apply load_sparse_rows.
  - eapply Forall_sub; [|exact Hok]. intros x Hx. exact (firstn_In _ _ _ Hx).
  - apply Forall_slice. exact Hok.
Qed.

Lemma of_rows_lengths R : Forall row_ok R ->
  length (idx (of_rows R)) = sum_list (map rlen R) /\ length (dat (of_rows R)) = sum_list (map rlen R).
Proof.
  intros H. unfold of_rows. cbn [idx dat]. split; [apply concat_rows_length | apply concat_rows_length_snd; exact H].
Qed.

Lemma psums_map_add k l : map (fun x => x + k) (psums 0 l) = psums k l.
Proof. unfold psums. cbn [map]. rewrite cumsum_add. reflexivity. Qed.

Lemma removelast_psums_app k l1 l2 :
  removelast (psums k (l1 ++ l2)) = removelast (psums k l1) ++ removelast (psums (k + sum_list l1) l2).
Proof. rewrite psums_app. apply removelast_app. unfold psums. discriminate. Qed.

Lemma Forall_concat {A} (P : A -> Prop) ll : Forall (Forall P) ll -> Forall P (concat ll).
Proof.
  induction 1 as [|l t Hl _ IH]; cbn; [constructor|]. apply Forall_app. split; assumption.
Qed.

(* merge_csr's joining loop on pieces given by their rows *)
Lemma merge_from_rows Rs : forall i0, Forall (Forall row_ok) Rs ->
  merge_from i0 (map of_rows Rs) =
  (removelast (psums i0 (map rlen (concat Rs))),
   (concat (map fst (concat Rs)), concat (map snd (concat Rs)))).
Proof.
  induction Rs as [|R t IH]; intros i0 H; [reflexivity|].
  inversion H as [|? ? HR Ht]; subst. cbn [map merge_from concat].
  rewrite (IH _ Ht). cbn [fst snd]. rewrite !map_app, !concat_app.
  f_equal.
  rewrite removelast_psums_app. f_equal.
  - unfold of_rows. cbn [ptr]. fold (psums 0 (map rlen R)).
    rewrite <- removelast_map. rewrite psums_map_add. reflexivity.
  - unfold of_rows. cbn [idx]. rewrite concat_rows_length. reflexivity.
Qed.

Lemma merge_csr_rows Rs : Forall (Forall row_ok) Rs ->
  merge_csr (map of_rows Rs) = Ok (of_rows (concat Rs)).
Proof.
  intros H. unfold merge_csr.
  assert (Echk : forallb (fun p => length (idx p) =? length (dat p)) (map of_rows Rs) = true).
  { apply forallb_forall. intros p Hp. apply in_map_iff in Hp. destruct Hp as (R & <- & HR).
    rewrite Forall_forall in H. destruct (of_rows_lengths R (H R HR)) as [E1 E2].
    rewrite E1, E2. apply Nat.eqb_refl. }
  rewrite Echk. rewrite (merge_from_rows Rs 0 H). cbn [fst snd].
  pose proof (Forall_concat _ _ H) as HC.
  rewrite (concat_rows_length_snd _ HC).
  pose proof (psums_removelast_last 0 (map rlen (concat Rs))) as E. cbn [Nat.add] in E.
  rewrite E. reflexivity.
Qed.

(* ================================================================ locating a row in of_rows *)
Lemma nth_error_psums l : forall k pos, pos <= length l ->
  nth_error (psums k l) pos = Some (k + sum_list (firstn pos l)).
Proof.
  unfold psums. induction l as [|x t IH]; intros k pos H.
  - cbn in H. assert (pos = 0) by lia. subst. cbn. f_equal. unfold sum_list. cbn. lia.
  - destruct pos as [|pos]; [cbn; f_equal; unfold sum_list; cbn; lia|].
    cbn [cumsum_from nth_error firstn]. cbn in H. rewrite IH by lia.
    f_equal. unfold sum_list. cbn. lia.
Qed.

Lemma firstn_S_nth {A} (l : list A) d pos :
  pos < length l -> firstn (S pos) l = firstn pos l ++ [nth pos l d].
Proof.
  revert pos. induction l as [|x t IH]; intros pos H; [cbn in H; lia|].
  destruct pos as [|pos]; [reflexivity|]. cbn [firstn nth app]. f_equal. apply IH. cbn in H. lia.
Qed.

Lemma split_at_nth {A} (l : list A) d pos :
  pos < length l -> l = firstn pos l ++ [nth pos l d] ++ skipn (S pos) l.
Proof.
  intros H. rewrite app_assoc, <- firstn_S_nth by exact H. symmetry. apply firstn_skipn.
Qed.

Lemma rows_seg_fst (S : list srow) pos :
  pos < length S ->
  slice (concat (map fst S)) (sum_list (map rlen (firstn pos S)))
        (sum_list (map rlen (firstn (Datatypes.S pos) S))) = fst (nth pos S rnil).
Proof.
  intros H. rewrite (firstn_S_nth S rnil pos H). rewrite map_app, sum_list_app.
  rewrite (split_at_nth S rnil pos H) at 1. rewrite !map_app, !concat_app.
  rewrite <- (concat_rows_length (firstn pos S)).
  cbn [map concat sum_list fold_right]. rewrite app_nil_r, Nat.add_0_r.
  unfold rlen. apply slice_mid.
Qed.

Lemma rows_seg_snd (S : list srow) pos :
  Forall row_ok S -> pos < length S ->
  slice (concat (map snd S)) (sum_list (map rlen (firstn pos S)))
        (sum_list (map rlen (firstn (Datatypes.S pos) S))) = snd (nth pos S rnil).
Proof.
  intros Hok H. rewrite (firstn_S_nth S rnil pos H). rewrite map_app, sum_list_app.
  rewrite (split_at_nth S rnil pos H) at 1. rewrite !map_app, !concat_app.
  assert (Hok0 : Forall row_ok (firstn pos S)).
  { eapply Forall_sub; [|exact Hok]. intros x Hx. exact (firstn_In _ _ _ Hx). }
  rewrite <- (concat_rows_length_snd (firstn pos S) Hok0).
  cbn [map concat sum_list fold_right]. rewrite app_nil_r, Nat.add_0_r.
  assert (Hr : row_ok (nth pos S rnil)).
  { rewrite Forall_forall in Hok. apply Hok. apply nth_In. exact H. }
  unfold rlen. rewrite Hr. apply slice_mid.
Qed.

(* ================================================================ the un-sorting loop *)
Lemma unsort_rows (S : list srow) sd total (p : nat -> nat) : forall iis data_ct,
  Forall row_ok S ->
  (forall ii, In ii iis -> index_of ii sd = Some (p ii) /\ p ii < length S /\ ii <= length S) ->
  data_ct + sum_list (map rlen (map (fun ii => nth (p ii) S rnil) iis)) <= total ->
  unsort_from iis sd (of_rows S) total data_ct =
  Ok (removelast (psums data_ct (map rlen (map (fun ii => nth (p ii) S rnil) iis))),
      (concat (map fst (map (fun ii => nth (p ii) S rnil) iis)),
       concat (map snd (map (fun ii => nth (p ii) S rnil) iis)))).
Proof.
  induction iis as [|ii t IH]; intros data_ct Hok Hp Htot; [reflexivity|].
  destruct (Hp ii (or_introl eq_refl)) as (E1 & E2 & E3).
  cbn [unsort_from]. rewrite E1.
  unfold of_rows at 1 2. cbn [ptr]. fold (psums 0 (map rlen S)).
  rewrite !nth_error_psums by (rewrite map_length; lia). cbn [Nat.add].
  rewrite !firstn_map.
  set (i0 := sum_list (map rlen (firstn (p ii) S))).
  set (i1 := sum_list (map rlen (firstn (Datatypes.S (p ii)) S))).
  assert (Ei : i1 - i0 = rlen (nth (p ii) S rnil)).
  { unfold i0, i1. rewrite (firstn_S_nth S rnil _ E2). rewrite map_app, sum_list_app.
    unfold sum_list at 2. cbn. lia. }
  rewrite Ei.
  cbn [map] in Htot. unfold sum_list in Htot. cbn [fold_right] in Htot. fold (sum_list (map rlen (map (fun ii0 => nth (p ii0) S rnil) t))) in Htot.
  replace (total <? data_ct + rlen (nth (p ii) S rnil)) with false by (symmetry; apply Nat.ltb_ge; lia).
  unfold of_rows at 1. cbn [ptr length]. rewrite cumsum_length, map_length.
  replace (Datatypes.S (length S) <=? ii) with false by (symmetry; apply Nat.leb_gt; lia).
  rewrite IH; [|exact Hok | intros j Hj; apply Hp; right; exact Hj | lia].
  cbn [bind fst snd map concat]. unfold of_rows. cbn [idx dat].
  unfold i0, i1. rewrite rows_seg_fst by exact E2. rewrite rows_seg_snd by assumption.
  reflexivity.
Qed.

(* ================================================================ _load_disjoint_csr *)
Lemma perm_nonempty {A} (l l' : list A) : Permutation l l' -> l' <> [] -> l <> [].
Proof. intros P H E. subst. apply Permutation_nil in P. congruence. Qed.

(* on the rows view: the requested rows, in the requested order *)
Theorem load_disjoint_rows R rows :
  Forall row_ok R -> rows <> [] -> NoDup rows -> Forall (fun r => r < length R) rows ->
  load_disjoint_csr rows (of_rows R) = Ok (of_rows (map (fun r => nth r R rnil) rows)).
Proof.
  intros Hok Hne ND HF. unfold load_disjoint_csr.
  destruct (argsort_spec rows) as (Psd & Psrt & Ssrt). cbn zeta in Psd, Psrt, Ssrt.
  pose proof (argsort_length rows) as Lsd.
  set (sd := argsort rows) in *. set (srt := map (fun i => nth i rows 0) sd) in *.
  assert (NDs : NoDup srt) by (eapply Permutation_NoDup; [apply Permutation_sym; exact Psrt | exact ND]).
  assert (Slt : Sorted lt srt) by (apply sorted_le_nodup_lt; assumption).
  assert (HFs : Forall (fun r => r < length R) srt)
    by (eapply Permutation_Forall; [apply Permutation_sym; exact Psrt | exact HF]).
  assert (Hnes : srt <> []) by (eapply perm_nonempty; eassumption).
  destruct (merge_index_list_sorted (length R) srt Hnes Slt HFs) as (rgs & Em & Ee & Eb).
  rewrite Em. cbn [bind].
  rewrite (res_map_ok _ (fun rg => of_rows (slice R (fst rg) (snd rg)))).
  2:{ intros rg Hrg. rewrite Forall_forall in Eb. destruct (Eb rg Hrg).
      apply load_sparse_slice; [exact Hok | lia | lia]. }
  cbn [bind]. rewrite <- (map_map (fun rg => slice R (fst rg) (snd rg)) of_rows).
  rewrite merge_csr_rows.
  2:{ apply Forall_forall. intros l Hl. apply in_map_iff in Hl. destruct Hl as (rg & <- & _).
      apply Forall_slice; exact Hok. }
  cbn [bind].
  set (S := concat (map (fun rg => slice R (fst rg) (snd rg)) rgs)).
  assert (ES : S = map (fun r => nth r R rnil) srt).
  { unfold S. rewrite <- Ee. unfold expand. rewrite <- concat_map_map. f_equal.
    apply map_ext_in. intros rg Hrg. rewrite Forall_forall in Eb. destruct (Eb rg Hrg).
    apply slice_as_map; lia. }
  assert (LS : length S = length rows) by (rewrite ES; unfold srt; rewrite !map_length; exact Lsd).
  assert (Lsrt : length srt = length rows) by (unfold srt; rewrite map_length; exact Lsd).
  assert (HokS : Forall row_ok S).
  { rewrite ES. apply Forall_forall. intros r Hr. apply in_map_iff in Hr. destruct Hr as (k & <- & Hk).
    rewrite Forall_forall in Hok. apply Hok. apply nth_In. rewrite Forall_forall in HFs. apply HFs. exact Hk. }
  set (p := fun ii => match index_of ii sd with Some k => k | None => 0 end).
  assert (Hp : forall ii, In ii (seq 0 (length rows)) ->
               index_of ii sd = Some (p ii) /\ p ii < length sd /\ nth (p ii) sd 0 = ii).
  { intros ii Hii. assert (Hin : In ii sd) by (eapply Permutation_in; [apply Permutation_sym; exact Psd | exact Hii]).
    destruct (index_of_In ii sd Hin) as (k & K1 & K2 & K3). unfold p. rewrite K1. auto. }
  set (T := map (fun ii => nth (p ii) S rnil) (seq 0 (length rows))).
  assert (ET : T = map (fun r => nth r R rnil) rows).
  { unfold T. rewrite <- (map_nth_all rows 0) at 2. rewrite map_map. apply map_ext_in. intros ii Hii.
    destruct (Hp ii Hii) as (_ & P2 & P3). rewrite ES.
    rewrite (nth_map_lt _ srt (p ii) 0) by lia. f_equal.
    unfold srt. rewrite (nth_map_lt _ sd (p ii) 0) by lia. rewrite P3. reflexivity. }
  assert (PT : Permutation T S).
  { rewrite ET, ES. apply Permutation_map. apply Permutation_sym. exact Psrt. }
  destruct (of_rows_lengths S HokS) as [LI LD].
  rewrite (unsort_rows S sd (length (dat (of_rows S))) p).
  2:{ exact HokS. }
  2:{ intros ii Hii. destruct (Hp ii Hii) as (P1 & P2 & P3). split; [exact P1|]. apply in_seq in Hii. lia. }
  2:{ fold T. rewrite LD. rewrite (sum_list_perm _ _ (Permutation_map rlen PT)). lia. }
  fold T. cbn [bind fst snd]. rewrite LD.
  assert (ST : sum_list (map rlen S) = sum_list (map rlen T))
    by (symmetry; apply sum_list_perm, Permutation_map; exact PT).
  assert (LT : length T = length rows) by (unfold T; rewrite map_length, seq_length; reflexivity).
  assert (HokT : Forall row_ok T) by (eapply Permutation_Forall; [apply Permutation_sym; exact PT | exact HokS]).
  rewrite <- ET. unfold of_rows at 2. f_equal. f_equal.
  - unfold of_rows at 1. cbn [ptr length]. rewrite cumsum_length, map_length.
    rewrite removelast_psums_length, map_length, LS, LT.
    replace (Datatypes.S (length rows) - 1 - length rows) with 0 by lia. cbn [repeat app].
    rewrite ST. pose proof (psums_removelast_last 0 (map rlen T)) as E. cbn [Nat.add] in E. exact E.
  - rewrite concat_rows_length, ST, Nat.sub_diag. apply app_nil_r.
  - rewrite (concat_rows_length_snd _ HokT), ST, Nat.sub_diag. apply app_nil_r.
Qed.

(* ================================================================ of_rows is well formed *)
Definition nodup_row (r : srow) : Prop := NoDup (fst r).

Lemma of_rows_wf T nc :
  Forall row_ok T -> Forall (cols_ok nc) T -> wf_csr (of_rows T) (length T) nc.
Proof.
  intros Hok Hc. destruct (of_rows_lengths T Hok) as [LI LD].
  split; [|split].
  - split; [reflexivity|]. split; [|split].
    + rewrite LI. unfold of_rows. cbn [ptr]. rewrite cumsum_last. reflexivity.
    + unfold of_rows. cbn [ptr]. apply cumsum_mono.
    + unfold of_rows. cbn [idx]. apply Forall_concat. apply Forall_forall. intros l Hl.
      apply in_map_iff in Hl. destruct Hl as (r & <- & Hr). rewrite Forall_forall in Hc. exact (Hc r Hr).
  - unfold of_rows. cbn [ptr length]. rewrite cumsum_length, map_length. reflexivity.
  - rewrite LI, LD. reflexivity.
Qed.

Lemma segs_of_rows_gen {A} (ls : list (list A)) : forall (pre : list A),
  segs (pre ++ concat ls) (psums (length pre) (map (@length A) ls)) = ls.
Proof.
  induction ls as [|l t IH]; intros pre; [reflexivity|].
  unfold psums. cbn [map cumsum_from concat]. rewrite segs_cons2. f_equal.
  - apply slice_mid.
  - specialize (IH (pre ++ l)). rewrite app_length in IH. unfold psums in IH.
    rewrite <- app_assoc in IH. exact IH.
Qed.

Lemma combine_fst_snd {A B} (l : list (A * B)) : combine (map fst l) (map snd l) = l.
Proof. induction l as [|[a b] t IH]; cbn; [reflexivity|]. rewrite IH. reflexivity. Qed.

Lemma rows_of_of_rows T : Forall row_ok T -> rows_of (of_rows T) = T.
Proof.
  intros Hok. unfold rows_of, of_rows. cbn [ptr idx dat].
  assert (E1 : map rlen T = map (@length nat) (map fst T)) by (rewrite map_map; reflexivity).
  assert (E2 : map rlen T = map (@length Z) (map snd T)).
  { rewrite map_map. apply map_ext_in. intros r Hr. rewrite Forall_forall in Hok. exact (Hok r Hr). }
  pose proof (segs_of_rows_gen (map fst T) []) as S1. cbn [app length] in S1. unfold psums in S1.
  pose proof (segs_of_rows_gen (map snd T) []) as S2. cbn [app length] in S2. unfold psums in S2.
  rewrite E1 at 1. rewrite S1. rewrite E2. rewrite S2. apply combine_fst_snd.
Qed.

Lemma rows_of_nodup m nr nc :
  wf_csr m nr nc -> no_dup_minor m -> Forall nodup_row (rows_of m).
Proof.
  intros W ND. pose proof W as (Wc & HP & HD). destruct Wc as (H0 & HL & HM & HF).
  pose proof (rows_of_length _ _ _ W) as LR.
  apply Forall_forall. intros r Hr. destruct (In_nth _ _ rnil Hr) as (j & Hj & <-).
  rewrite LR in Hj. assert (Hj' : S j < length (ptr m)) by lia.
  rewrite rows_of_nth by exact Hj'. unfold nodup_row. cbn [fst].
  pose proof (mono_nth_le _ j HM Hj') as Hle.
  pose proof (mono_nth_le_last _ (S j) HM Hj') as Hlast. rewrite HL in Hlast.
  specialize (ND j Hj'). unfold span in ND. rewrite map_nth_seq_slice in ND by lia.
  replace (nth j (ptr m) 0 + (nth (S j) (ptr m) 0 - nth j (ptr m) 0)) with (nth (S j) (ptr m) 0) in ND by lia.
  exact ND.
Qed.

Lemma of_rows_no_dup T nc :
  Forall row_ok T -> Forall (cols_ok nc) T -> Forall nodup_row T -> no_dup_minor (of_rows T).
Proof.
  intros Hok Hc HN. pose proof (of_rows_wf T nc Hok Hc) as W.
  pose proof W as (Wc & HP & HD). destruct Wc as (H0 & HL & HM & HF).
  intros j Hj'. unfold span.
  pose proof (mono_nth_le _ j HM Hj') as Hle.
  pose proof (mono_nth_le_last _ (S j) HM Hj') as Hlast. rewrite HL in Hlast.
  rewrite map_nth_seq_slice by lia.
  replace (nth j (ptr (of_rows T)) 0 + (nth (S j) (ptr (of_rows T)) 0 - nth j (ptr (of_rows T)) 0))
    with (nth (S j) (ptr (of_rows T)) 0) by lia.
  pose proof (rows_of_nth (of_rows T) j Hj') as E. rewrite (rows_of_of_rows T Hok) in E.
  assert (Hin : In (nth j T rnil) T) by (apply nth_In; lia).
  rewrite Forall_forall in HN. specialize (HN _ Hin). unfold nodup_row in HN. rewrite E in HN. exact HN.
Qed.

Lemma dense_of_of_rows T nc :
  Forall row_ok T -> Forall (cols_ok nc) T -> Forall nodup_row T ->
  dense_of (of_rows T) (length T) nc = map (dense_row nc) T.
Proof.
  intros Hok Hc HN.
  rewrite (dense_of_rows (of_rows T) (length T) nc (of_rows_wf T nc Hok Hc) (of_rows_no_dup T nc Hok Hc HN)).
  rewrite rows_of_of_rows by exact Hok. reflexivity.
Qed.

(* selecting rows keeps the three row invariants *)
Lemma Forall_pick {A} (P : A -> Prop) (l : list A) d rows :
  Forall P l -> Forall (fun r => r < length l) rows -> Forall P (map (fun r => nth r l d) rows).
Proof.
  intros HP HF. apply Forall_forall. intros x Hx. apply in_map_iff in Hx. destruct Hx as (r & <- & Hr).
  rewrite Forall_forall in HP, HF. apply HP. apply nth_In. apply HF. exact Hr.
Qed.

(* the rows view of a well-formed duplicate-free matrix, all facts at once *)
Lemma rows_view m nr nc :
  wf_csr m nr nc -> no_dup_minor m ->
  exists R, m = of_rows R /\ length R = nr /\ Forall row_ok R /\ Forall (cols_ok nc) R /\
            Forall nodup_row R /\ dense_of m nr nc = map (dense_row nc) R.
Proof.
  intros W ND. exists (rows_of m).
  split; [symmetry; eapply of_rows_rows_of; exact W|].
  split; [eapply rows_of_length; exact W|].
  split; [eapply rows_of_ok; exact W|].
  split; [eapply rows_of_cols_ok; exact W|].
  split; [eapply rows_of_nodup; eassumption|].
  apply dense_of_rows; assumption.
Qed.

Lemma pick_dense_rows nc (R : list srow) rows :
  Forall (fun r => r < length R) rows ->
  map (dense_row nc) (map (fun r => nth r R rnil) rows) =
  map (fun r => nth r (map (dense_row nc) R) []) rows.
Proof.
  intros HF. rewrite map_map. apply map_ext_in. intros r Hr.
  rewrite Forall_forall in HF. symmetry. apply nth_map_lt. apply HF. exact Hr.
Qed.

(* ================================================================ C05: get_batch *)
(* _load_disjoint_csr: a well-formed CSR matrix holding exactly the requested rows *)
Theorem load_disjoint_exact m nr nc rows :
  wf_csr m nr nc -> no_dup_minor m ->
  rows <> [] -> NoDup rows -> Forall (fun r => r < nr) rows ->
  exists b, load_disjoint_csr rows m = Ok b /\
    wf_csr b (length rows) nc /\ no_dup_minor b /\
    dense_of b (length rows) nc = map (fun r => nth r (dense_of m nr nc) []) rows.
Proof.
  intros W NDm Hne ND HF. destruct (rows_view m nr nc W NDm) as (R & -> & LR & Hok & Hc & HN & ED).
  rewrite <- LR in HF.
  set (T := map (fun r => nth r R rnil) rows).
  assert (LT : length T = length rows) by (unfold T; apply map_length).
  assert (HokT : Forall row_ok T) by (apply Forall_pick; assumption).
  assert (HcT : Forall (cols_ok nc) T) by (apply Forall_pick; assumption).
  assert (HNT : Forall nodup_row T) by (apply Forall_pick; assumption).
  exists (of_rows T). split; [apply load_disjoint_rows; assumption|].
  rewrite <- LT. split; [apply of_rows_wf; assumption|].
  split; [eapply of_rows_no_dup; eassumption|].
  rewrite dense_of_of_rows by assumption. rewrite ED. apply pick_dense_rows. exact HF.
Qed.

Theorem csr_get_batch_exact m nr nc rows :
  wf_csr m nr nc -> no_dup_minor m ->
  rows <> [] -> NoDup rows -> Forall (fun r => r < nr) rows ->
  csr_get_batch rows nc m = Ok (map (fun r => nth r (dense_of m nr nc) []) rows).
Proof.
  intros W NDm Hne ND HF. destruct (rows_view m nr nc W NDm) as (R & -> & LR & Hok & Hc & HN & ED).
  rewrite <- LR in HF. unfold csr_get_batch.
  rewrite load_disjoint_rows by assumption. cbn [bind].
  set (T := map (fun r => nth r R rnil) rows).
  replace (length rows) with (length T) by (unfold T; apply map_length).
  rewrite csr_to_dense_rows by (apply Forall_pick; assumption).
  rewrite ED. f_equal. apply pick_dense_rows. exact HF.
Qed.
