(* get_batch (C05): _load_disjoint_csr / CSRRowIterator.get_batch /
   DenseArrayRowIterator.get_batch return the requested rows in the requested order. *)
From Coq Require Import List Arith ZArith Lia Bool Permutation Sorted.
From CTM Require Import Base.Sx Base.ListX Model.Sparse Proofs.SparseP Proofs.SparseSortP.
Import ListNotations.

Notation srow := (list nat * list Z)%type (only parsing).
Notation rnil := (@nil nat, @nil Z) (only parsing).

(* ================================================================ small list facts *)
Lemma Forall_slice {A} (P : A -> Prop) l a b : Forall P l -> Forall P (slice l a b).
Proof. intros H. eapply Forall_sub; [|exact H]. intros x Hx. exact (In_slice _ _ _ _ Hx). Qed.

Lemma slice_as_map {A} (l : list A) d a b :
  a <= b -> b <= length l -> slice l a b = map (fun k => nth k l d) (seq a (b - a)).
Proof.
  intros H1 H2. rewrite map_nth_seq_slice by lia. f_equal. lia.
Qed.

Lemma map_nth_all {A} (l : list A) d : map (fun k => nth k l d) (seq 0 (length l)) = l.
Proof. rewrite map_nth_seq_slice by lia. apply slice_full. Qed.

Lemma nth_map_lt {A B} (f : A -> B) l k d d' : k < length l -> nth k (map f l) d' = f (nth k l d).
Proof.
  intros H. rewrite (nth_indep _ d' (f d)) by (rewrite map_length; exact H). apply map_nth.
Qed.

Lemma concat_map_map {A B C} (f : B -> C) (g : A -> list B) l :
  concat (map (fun x => map f (g x)) l) = map f (concat (map g l)).
Proof. induction l as [|x t IH]; cbn; [reflexivity|]. rewrite map_app, IH. reflexivity. Qed.

Lemma removelast_map {A B} (f : A -> B) l : removelast (map f l) = map f (removelast l).
Proof.
  induction l as [|x t IH]; [reflexivity|]. destruct t as [|y t']; [reflexivity|].
  change (removelast (map f (x :: y :: t'))) with (f x :: removelast (map f (y :: t'))).
  rewrite IH. reflexivity.
Qed.

(* ================================================================ pieces of the rows view *)
Lemma load_sparse_slice R a b :
  Forall row_ok R -> a <= b -> b <= length R ->
  load_sparse a b (of_rows R) = Ok (of_rows (slice R a b)).
Proof.
  intros Hok H01 H1.
  assert (ER : R = firstn a R ++ slice R a b ++ skipn b R).
  { rewrite <- (firstn_skipn a R) at 1. f_equal.
    rewrite <- (firstn_skipn (b - a) (skipn a R)) at 1. unfold slice. f_equal.
    rewrite skipn_skipn. f_equal. lia. }
  assert (L0 : length (firstn a R) = a) by (rewrite firstn_length; lia).
  assert (L1 : length (slice R a b) = b - a) by (apply slice_length; exact H1).
  rewrite ER at 1.
  replace a with (length (firstn a R)) at 1 by exact L0.
  replace b with (length (firstn a R) + length (slice R a b)) at 1 by lia.
  apply load_sparse_rows.
  - eapply Forall_sub; [|exact Hok]. intros x Hx. exact (firstn_In _ _ _ Hx).
  - apply Forall_slice. exact Hok.
Qed.

Lemma of_rows_lengths R : Forall row_ok R ->
  length (idx (of_rows R)) = sum_list (map rlen R) /\ length (dat (of_rows R)) = sum_list (map rlen R).
Proof.
  intros H. unfold of_rows. cbn [idx dat]. split; [apply concat_rows_length | apply concat_rows_length_snd; exact H].
Qed.

Lemma psums_map_add k l : map (fun x => x + k) (psums 0 l) = psums k l.
Proof. unfold psums. cbn [map]. rewrite cumsum_add. reflexivity. Qed.

Lemma removelast_psums_app k l1 l2 :
  removelast (psums k (l1 ++ l2)) = removelast (psums k l1) ++ removelast (psums (k + sum_list l1) l2).
Proof. rewrite psums_app. apply removelast_app. unfold psums. discriminate. Qed.

Lemma Forall_concat {A} (P : A -> Prop) ll : Forall (Forall P) ll -> Forall P (concat ll).
Proof.
  induction 1 as [|l t Hl _ IH]; cbn; [constructor|]. apply Forall_app. split; assumption.
Qed.

(* merge_csr's joining loop on pieces given by their rows *)
Lemma merge_from_rows Rs : forall i0, Forall (Forall row_ok) Rs ->
  merge_from i0 (map of_rows Rs) =
  (removelast (psums i0 (map rlen (concat Rs))),
   (concat (map fst (concat Rs)), concat (map snd (concat Rs)))).
Proof.
  induction Rs as [|R t IH]; intros i0 H; [reflexivity|].
  inversion H as [|? ? HR Ht]; subst. cbn [map merge_from concat].
  rewrite (IH _ Ht). cbn [fst snd]. rewrite !map_app, !concat_app.
  f_equal.
  rewrite removelast_psums_app. f_equal.
  - unfold of_rows. cbn [ptr]. fold (psums 0 (map rlen R)).
    rewrite <- removelast_map. rewrite psums_map_add. reflexivity.
  - unfold of_rows. cbn [idx]. rewrite concat_rows_length. reflexivity.
Qed.

Lemma merge_csr_rows Rs : Forall (Forall row_ok) Rs ->
  merge_csr (map of_rows Rs) = Ok (of_rows (concat Rs)).
Proof.
  intros H. unfold merge_csr.
  assert (Echk : forallb (fun p => length (idx p) =? length (dat p)) (map of_rows Rs) = true).
  { apply forallb_forall. intros p Hp. apply in_map_iff in Hp. destruct Hp as (R & <- & HR).
    rewrite Forall_forall in H. destruct (of_rows_lengths R (H R HR)) as [E1 E2].
    rewrite E1, E2. apply Nat.eqb_refl. }
  rewrite Echk. rewrite (merge_from_rows Rs 0 H). cbn [fst snd].
  pose proof (Forall_concat _ _ H) as HC.
  rewrite (concat_rows_length_snd _ HC).
  pose proof (psums_removelast_last 0 (map rlen (concat Rs))) as E. cbn [Nat.add] in E.
  rewrite E. reflexivity.
Qed.

(* ================================================================ locating a row in of_rows *)
Lemma nth_error_psums l : forall k pos, pos <= length l ->
  nth_error (psums k l) pos = Some (k + sum_list (firstn pos l)).
Proof.
  unfold psums. induction l as [|x t IH]; intros k pos H.
  - cbn in H. assert (pos = 0) by lia. subst. cbn. f_equal. unfold sum_list. cbn. lia.
  - destruct pos as [|pos]; [cbn; f_equal; unfold sum_list; cbn; lia|].
    cbn [cumsum_from nth_error firstn]. cbn in H. rewrite IH by lia.
    f_equal. unfold sum_list. cbn. lia.
Qed.

Lemma firstn_S_nth {A} (l : list A) d pos :
  pos < length l -> firstn (S pos) l = firstn pos l ++ [nth pos l d].
Proof.
  revert pos. induction l as [|x t IH]; intros pos H; [cbn in H; lia|].
  destruct pos as [|pos]; [reflexivity|]. cbn [firstn nth app]. f_equal. apply IH. cbn in H. lia.
Qed.

Lemma split_at_nth {A} (l : list A) d pos :
  pos < length l -> l = firstn pos l ++ [nth pos l d] ++ skipn (S pos) l.
Proof.
  intros H. rewrite app_assoc, <- firstn_S_nth by exact H. symmetry. apply firstn_skipn.
Qed.

Lemma rows_seg_fst (S : list srow) pos :
  pos < length S ->
  slice (concat (map fst S)) (sum_list (map rlen (firstn pos S)))
        (sum_list (map rlen (firstn (Datatypes.S pos) S))) = fst (nth pos S rnil).
Proof.
  intros H. rewrite (firstn_S_nth S rnil pos H). rewrite map_app, sum_list_app.
  rewrite (split_at_nth S rnil pos H) at 1. rewrite !map_app, !concat_app.
  rewrite <- (concat_rows_length (firstn pos S)).
  cbn [map concat sum_list fold_right]. rewrite app_nil_r, Nat.add_0_r.
  unfold rlen. apply slice_mid.
Qed.

Lemma rows_seg_snd (S : list srow) pos :
  Forall row_ok S -> pos < length S ->
  slice (concat (map snd S)) (sum_list (map rlen (firstn pos S)))
        (sum_list (map rlen (firstn (Datatypes.S pos) S))) = snd (nth pos S rnil).
Proof.
  intros Hok H. rewrite (firstn_S_nth S rnil pos H). rewrite map_app, sum_list_app.
  rewrite (split_at_nth S rnil pos H) at 1. rewrite !map_app, !concat_app.
  assert (Hok0 : Forall row_ok (firstn pos S)).
  { eapply Forall_sub; [|exact Hok]. intros x Hx. exact (firstn_In _ _ _ Hx). }
  rewrite <- (concat_rows_length_snd (firstn pos S) Hok0).
  cbn [map concat sum_list fold_right]. rewrite app_nil_r, Nat.add_0_r.
  assert (Hr : row_ok (nth pos S rnil)).
  { rewrite Forall_forall in Hok. apply Hok. apply nth_In. exact H. }
  unfold rlen. rewrite Hr. apply slice_mid.
Qed.

(* ================================================================ the un-sorting loop *)
Lemma unsort_rows (S : list srow) sd total (p : nat -> nat) : forall iis data_ct,
  Forall row_ok S ->
  (forall ii, In ii iis -> index_of ii sd = Some (p ii) /\ p ii < length S /\ ii <= length S) ->
  data_ct + sum_list (map rlen (map (fun ii => nth (p ii) S rnil) iis)) <= total ->
  unsort_from iis sd (of_rows S) total data_ct =
  Ok (removelast (psums data_ct (map rlen (map (fun ii => nth (p ii) S rnil) iis))),
      (concat (map fst (map (fun ii => nth (p ii) S rnil) iis)),
       concat (map snd (map (fun ii => nth (p ii) S rnil) iis)))).
Proof.
  induction iis as [|ii t IH]; intros data_ct Hok Hp Htot; [reflexivity|].
  destruct (Hp ii (or_introl eq_refl)) as (E1 & E2 & E3).
  cbn [unsort_from]. rewrite E1.
  unfold of_rows at 1 2. cbn [ptr]. fold (psums 0 (map rlen S)).
  rewrite !nth_error_psums by (rewrite map_length; lia). cbn [Nat.add].
  rewrite !firstn_map.
  set (i0 := sum_list (map rlen (firstn (p ii) S))).
  set (i1 := sum_list (map rlen (firstn (Datatypes.S (p ii)) S))).
  assert (Ei : i1 - i0 = rlen (nth (p ii) S rnil)).
  { unfold i0, i1. rewrite (firstn_S_nth S rnil _ E2). rewrite map_app, sum_list_app.
    unfold sum_list at 2. cbn. lia. }
  rewrite Ei.
  cbn [map] in Htot. unfold sum_list in Htot. cbn [fold_right] in Htot. fold (sum_list (map rlen (map (fun ii0 => nth (p ii0) S rnil) t))) in Htot.
  replace (total <? data_ct + rlen (nth (p ii) S rnil)) with false by (symmetry; apply Nat.ltb_ge; lia).
  unfold of_rows at 1. cbn [ptr length]. rewrite cumsum_length, map_length.
  replace (Datatypes.S (length S) <=? ii) with false by (symmetry; apply Nat.leb_gt; lia).
  rewrite IH; [|exact Hok | intros j Hj; apply Hp; right; exact Hj | lia].
  cbn [bind fst snd map concat]. unfold of_rows. cbn [idx dat].
  unfold i0, i1. rewrite rows_seg_fst by exact E2. rewrite rows_seg_snd by assumption.
  reflexivity.
Qed.

(* ================================================================ _load_disjoint_csr *)
Lemma perm_nonempty {A} (l l' : list A) : Permutation l l' -> l' <> [] -> l <> [].
Proof. intros P H E. subst. apply Permutation_nil in P. congruence. Qed.

(* on the rows view: the requested rows, in the requested order *)
Theorem load_disjoint_rows R rows :
  Forall row_ok R -> rows <> [] -> NoDup rows -> Forall (fun r => r < length R) rows ->
  load_disjoint_csr rows (of_rows R) = Ok (of_rows (map (fun r => nth r R rnil) rows)).
Proof.
  intros Hok Hne ND HF. unfold load_disjoint_csr.
  destruct (argsort_spec rows) as (Psd & Psrt & Ssrt). cbn zeta in Psd, Psrt, Ssrt.
  pose proof (argsort_length rows) as Lsd.
  set (sd := argsort rows) in *. set (srt := map (fun i => nth i rows 0) sd) in *.
  assert (NDs : NoDup srt) by (eapply Permutation_NoDup; [apply Permutation_sym; exact Psrt | exact ND]).
  assert (Slt : Sorted lt srt) by (apply sorted_le_nodup_lt; assumption).
  assert (HFs : Forall (fun r => r < length R) srt)
    by (eapply Permutation_Forall; [apply Permutation_sym; exact Psrt | exact HF]).
  assert (Hnes : srt <> []) by (eapply perm_nonempty; eassumption).
  destruct (merge_index_list_sorted (length R) srt Hnes Slt HFs) as (rgs & Em & Ee & Eb).
  rewrite Em. cbn [bind].
  rewrite (res_map_ok _ (fun rg => of_rows (slice R (fst rg) (snd rg)))).
  2:{ intros rg Hrg. rewrite Forall_forall in Eb. destruct (Eb rg Hrg).
      apply load_sparse_slice; [exact Hok | lia | lia]. }
  cbn [bind]. rewrite <- (map_map (fun rg => slice R (fst rg) (snd rg)) of_rows).
  rewrite merge_csr_rows.
  2:{ apply Forall_forall. intros l Hl. apply in_map_iff in Hl. destruct Hl as (rg & <- & _).
      apply Forall_slice; exact Hok. }
  cbn [bind].
  set (S := concat (map (fun rg => slice R (fst rg) (snd rg)) rgs)).
  assert (ES : S = map (fun r => nth r R rnil) srt).
  { unfold S. rewrite <- Ee. unfold expand. rewrite <- concat_map_map. f_equal.
    apply map_ext_in. intros rg Hrg. rewrite Forall_forall in Eb. destruct (Eb rg Hrg).
    apply slice_as_map; lia. }
  assert (LS : length S = length rows) by (rewrite ES; unfold srt; rewrite !map_length; exact Lsd).
  assert (Lsrt : length srt = length rows) by (unfold srt; rewrite map_length; exact Lsd).
  assert (HokS : Forall row_ok S).
  { rewrite ES. apply Forall_forall. intros r Hr. apply in_map_iff in Hr. destruct Hr as (k & <- & Hk).
    rewrite Forall_forall in Hok. apply Hok. apply nth_In. rewrite Forall_forall in HFs. apply HFs. exact Hk. }
  set (p := fun ii => match index_of ii sd with Some k => k | None => 0 end).
  assert (Hp : forall ii, In ii (seq 0 (length rows)) ->
               index_of ii sd = Some (p ii) /\ p ii < length sd /\ nth (p ii) sd 0 = ii).
  { intros ii Hii. assert (Hin : In ii sd) by (eapply Permutation_in; [apply Permutation_sym; exact Psd | exact Hii]).
    destruct (index_of_In ii sd Hin) as (k & K1 & K2 & K3). unfold p. rewrite K1. auto. }
  set (T := map (fun ii => nth (p ii) S rnil) (seq 0 (length rows))).
  assert (ET : T = map (fun r => nth r R rnil) rows).
  { unfold T. rewrite <- (map_nth_all rows 0) at 2. rewrite map_map. apply map_ext_in. intros ii Hii.
    destruct (Hp ii Hii) as (_ & P2 & P3). rewrite ES.
    rewrite (nth_map_lt _ srt (p ii) 0) by lia. f_equal.
    unfold srt. rewrite (nth_map_lt _ sd (p ii) 0) by lia. rewrite P3. reflexivity. }
  assert (PT : Permutation T S).
  { rewrite ET, ES. apply Permutation_map. apply Permutation_sym. exact Psrt. }
  destruct (of_rows_lengths S HokS) as [LI LD].
  rewrite (unsort_rows S sd (length (dat (of_rows S))) p).
  2:{ exact HokS. }
  2:{ intros ii Hii. destruct (Hp ii Hii) as (P1 & P2 & P3). split; [exact P1|]. apply in_seq in Hii. lia. }
  2:{ fold T. rewrite LD. rewrite (sum_list_perm _ _ (Permutation_map rlen PT)). lia. }
  fold T. cbn [bind fst snd]. rewrite LD.
  assert (ST : sum_list (map rlen S) = sum_list (map rlen T))
    by (symmetry; apply sum_list_perm, Permutation_map; exact PT).
  assert (LT : length T = length rows) by (unfold T; rewrite map_length, seq_length; reflexivity).
  assert (HokT : Forall row_ok T) by (eapply Permutation_Forall; [apply Permutation_sym; exact PT | exact HokS]).
  rewrite <- ET. unfold of_rows at 2. f_equal. f_equal.
  - unfold of_rows at 1. cbn [ptr length]. rewrite cumsum_length, map_length.
    rewrite removelast_psums_length, map_length, LS, LT.
    replace (Datatypes.S (length rows) - 1 - length rows) with 0 by lia. cbn [repeat app].
    rewrite ST. pose proof (psums_removelast_last 0 (map rlen T)) as E. cbn [Nat.add] in E. exact E.
  - rewrite concat_rows_length, ST, Nat.sub_diag. apply app_nil_r.
  - rewrite (concat_rows_length_snd _ HokT), ST, Nat.sub_diag. apply app_nil_r.
Qed.

(* ================================================================ of_rows is well formed *)
Definition nodup_row (r : srow) : Prop := NoDup (fst r).

Lemma of_rows_wf T nc :
  Forall row_ok T -> Forall (cols_ok nc) T -> wf_csr (of_rows T) (length T) nc.
Proof.
  intros Hok Hc. destruct (of_rows_lengths T Hok) as [LI LD].
  split; [|split].
  - split; [reflexivity|]. split; [|split].
    + rewrite LI. unfold of_rows. cbn [ptr]. rewrite cumsum_last. reflexivity.
    + unfold of_rows. cbn [ptr]. apply cumsum_mono.
    + unfold of_rows. cbn [idx]. apply Forall_concat. apply Forall_forall. intros l Hl.
      apply in_map_iff in Hl. destruct Hl as (r & <- & Hr). rewrite Forall_forall in Hc. exact (Hc r Hr).
  - unfold of_rows. cbn [ptr length]. rewrite cumsum_length, map_length. reflexivity.
  - rewrite LI, LD. reflexivity.
Qed.

Lemma segs_of_rows_gen {A} (ls : list (list A)) : forall (pre : list A),
  segs (pre ++ concat ls) (psums (length pre) (map (@length A) ls)) = ls.
Proof.
  induction ls as [|l t IH]; intros pre; [reflexivity|].
  unfold psums. cbn [map cumsum_from concat]. rewrite segs_cons2. f_equal.
  - apply slice_mid.
  - specialize (IH (pre ++ l)). rewrite app_length in IH. unfold psums in IH.
    rewrite <- app_assoc in IH. exact IH.
Qed.

Lemma combine_fst_snd {A B} (l : list (A * B)) : combine (map fst l) (map snd l) = l.
Proof. induction l as [|[a b] t IH]; cbn; [reflexivity|]. rewrite IH. reflexivity. Qed.

Lemma rows_of_of_rows T : Forall row_ok T -> rows_of (of_rows T) = T.
Proof.
  intros Hok. unfold rows_of, of_rows. cbn [ptr idx dat].
  assert (E1 : map rlen T = map (@length nat) (map fst T)) by (rewrite map_map; reflexivity).
  assert (E2 : map rlen T = map (@length Z) (map snd T)).
  { rewrite map_map. apply map_ext_in. intros r Hr. rewrite Forall_forall in Hok. exact (Hok r Hr). }
  pose proof (segs_of_rows_gen (map fst T) []) as S1. cbn [app length] in S1. unfold psums in S1.
  pose proof (segs_of_rows_gen (map snd T) []) as S2. cbn [app length] in S2. unfold psums in S2.
  rewrite E1 at 1. rewrite S1. rewrite E2. rewrite S2. apply combine_fst_snd.
Qed.

Lemma rows_of_nodup m nr nc :
  wf_csr m nr nc -> no_dup_minor m -> Forall nodup_row (rows_of m).
Proof.
  intros W ND. pose proof W as (Wc & HP & HD). destruct Wc as (H0 & HL & HM & HF).
  pose proof (rows_of_length _ _ _ W) as LR.
  apply Forall_forall. intros r Hr. destruct (In_nth _ _ rnil Hr) as (j & Hj & <-).
  rewrite LR in Hj. assert (Hj' : S j < length (ptr m)) by lia.
  rewrite rows_of_nth by exact Hj'. unfold nodup_row. cbn [fst].
  pose proof (mono_nth_le _ j HM Hj') as Hle.
  pose proof (mono_nth_le_last _ (S j) HM Hj') as Hlast. rewrite HL in Hlast.
  specialize (ND j Hj'). unfold span in ND. rewrite map_nth_seq_slice in ND by lia.
  replace (nth j (ptr m) 0 + (nth (S j) (ptr m) 0 - nth j (ptr m) 0)) with (nth (S j) (ptr m) 0) in ND by lia.
  exact ND.
Qed.

Lemma of_rows_no_dup T nc :
  Forall row_ok T -> Forall (cols_ok nc) T -> Forall nodup_row T -> no_dup_minor (of_rows T).
Proof.
  intros Hok Hc HN. pose proof (of_rows_wf T nc Hok Hc) as W.
  pose proof W as (Wc & HP & HD). destruct Wc as (H0 & HL & HM & HF).
  intros j Hj'. unfold span.
  pose proof (mono_nth_le _ j HM Hj') as Hle.
  pose proof (mono_nth_le_last _ (S j) HM Hj') as Hlast. rewrite HL in Hlast.
  rewrite map_nth_seq_slice by lia.
  replace (nth j (ptr (of_rows T)) 0 + (nth (S j) (ptr (of_rows T)) 0 - nth j (ptr (of_rows T)) 0))
    with (nth (S j) (ptr (of_rows T)) 0) by lia.
  pose proof (rows_of_nth (of_rows T) j Hj') as E. rewrite (rows_of_of_rows T Hok) in E.
  assert (Hin : In (nth j T rnil) T) by (apply nth_In; lia).
  rewrite Forall_forall in HN. specialize (HN _ Hin). unfold nodup_row in HN. rewrite E in HN. exact HN.
Qed.

Lemma dense_of_of_rows T nc :
  Forall row_ok T -> Forall (cols_ok nc) T -> Forall nodup_row T ->
  dense_of (of_rows T) (length T) nc = map (dense_row nc) T.
Proof.
  intros Hok Hc HN.
  rewrite (dense_of_rows (of_rows T) (length T) nc (of_rows_wf T nc Hok Hc) (of_rows_no_dup T nc Hok Hc HN)).
  rewrite rows_of_of_rows by exact Hok. reflexivity.
Qed.

(* selecting rows keeps the three row invariants *)
Lemma Forall_pick {A} (P : A -> Prop) (l : list A) d rows :
  Forall P l -> Forall (fun r => r < length l) rows -> Forall P (map (fun r => nth r l d) rows).
Proof.
  intros HP HF. apply Forall_forall. intros x Hx. apply in_map_iff in Hx. destruct Hx as (r & <- & Hr).
  rewrite Forall_forall in HP, HF. apply HP. apply nth_In. apply HF. exact Hr.
Qed.

(* the rows view of a well-formed duplicate-free matrix, all facts at once *)
Lemma rows_view m nr nc :
  wf_csr m nr nc -> no_dup_minor m ->
  exists R, m = of_rows R /\ length R = nr /\ Forall row_ok R /\ Forall (cols_ok nc) R /\
            Forall nodup_row R /\ dense_of m nr nc = map (dense_row nc) R.
Proof.
  intros W ND. exists (rows_of m).
  split; [symmetry; eapply of_rows_rows_of; exact W|].
  split; [eapply rows_of_length; exact W|].
  split; [eapply rows_of_ok; exact W|].
  split; [eapply rows_of_cols_ok; exact W|].
  split; [eapply rows_of_nodup; eassumption|].
  apply dense_of_rows; assumption.
Qed.

Lemma pick_dense_rows nc (R : list srow) rows :
  Forall (fun r => r < length R) rows ->
  map (dense_row nc) (map (fun r => nth r R rnil) rows) =
  map (fun r => nth r (map (dense_row nc) R) []) rows.
Proof.
  intros HF. rewrite map_map. apply map_ext_in. intros r Hr.
  rewrite Forall_forall in HF. symmetry. apply nth_map_lt. apply HF. exact Hr.
Qed.

(* ================================================================ C05: get_batch *)
(* _load_disjoint_csr: a well-formed CSR matrix holding exactly the requested rows *)
Theorem load_disjoint_exact m nr nc rows :
  wf_csr m nr nc -> no_dup_minor m ->
  rows <> [] -> NoDup rows -> Forall (fun r => r < nr) rows ->
  exists b, load_disjoint_csr rows m = Ok b /\
    wf_csr b (length rows) nc /\ no_dup_minor b /\
    dense_of b (length rows) nc = map (fun r => nth r (dense_of m nr nc) []) rows.
Proof.
  intros W NDm Hne ND HF. destruct (rows_view m nr nc W NDm) as (R & -> & LR & Hok & Hc & HN & ED).
  rewrite <- LR in HF.
  set (T := map (fun r => nth r R rnil) rows).
  assert (LT : length T = length rows) by (unfold T; apply map_length).
  assert (HokT : Forall row_ok T) by (apply Forall_pick; assumption).
  assert (HcT : Forall (cols_ok nc) T) by (apply Forall_pick; assumption).
  assert (HNT : Forall nodup_row T) by (apply Forall_pick; assumption).
  exists (of_rows T). split; [apply load_disjoint_rows; assumption|].
  rewrite <- LT. split; [apply of_rows_wf; assumption|].
  split; [eapply of_rows_no_dup; eassumption|].
  rewrite dense_of_of_rows by assumption. rewrite ED. apply pick_dense_rows. exact HF.
Qed.

Theorem csr_get_batch_exact m nr nc rows :
  wf_csr m nr nc -> no_dup_minor m ->
  rows <> [] -> NoDup rows -> Forall (fun r => r < nr) rows ->
  csr_get_batch rows nc m = Ok (map (fun r => nth r (dense_of m nr nc) []) rows).
Proof.
  intros W NDm Hne ND HF. destruct (rows_view m nr nc W NDm) as (R & -> & LR & Hok & Hc & HN & ED).
  rewrite <- LR in HF. unfold csr_get_batch.
  rewrite load_disjoint_rows by assumption. cbn [bind].
  set (T := map (fun r => nth r R rnil) rows).
  replace (length rows) with (length T) by (unfold T; apply map_length).
  rewrite csr_to_dense_rows by (apply Forall_pick; assumption).
  rewrite ED. f_equal. apply pick_dense_rows. exact HF.
Qed.

(* ================================================================ the dense path *)
Lemma sorted_lt_strictly l : Sorted lt l -> strictly_increasing l = true.
Proof.
  induction 1 as [|x t Ht IH Hhd]; [reflexivity|]. destruct t as [|y t']; [reflexivity|].
  change (strictly_increasing (x :: y :: t')) with ((x <? y) && strictly_increasing (y :: t')).
  inversion Hhd; subst. rewrite IH. replace (x <? y) with true by (symmetry; apply Nat.ltb_lt; assumption).
  reflexivity.
Qed.

Definition scatter {A} (raw : list A) (sd : list nat) (out : list A) : list A :=
  fold_left (fun out p => upd out (snd p) (fst p)) (combine raw sd) out.

Lemma scatter_length {A} (raw : list A) sd : forall out, length (scatter raw sd out) = length out.
Proof.
  unfold scatter. revert sd. induction raw as [|r rt IH]; intros [|s t] out; cbn; try reflexivity.
  rewrite IH. apply upd_length.
Qed.

Lemma scatter_untouched {A} (raw : list A) sd i d : forall out,
  ~ In i sd -> nth i (scatter raw sd out) d = nth i out d.
Proof.
  unfold scatter. revert sd. induction raw as [|r rt IH]; intros [|s t] out Hn; cbn; try reflexivity.
  rewrite IH by (intros H; apply Hn; right; exact H).
  apply nth_upd_neq. intros ->. apply Hn. left. reflexivity.
Qed.

Lemma scatter_hit {A} (raw : list A) sd d : forall out k,
  NoDup sd -> length raw = length sd -> Forall (fun s => s < length out) sd -> k < length sd ->
  nth (nth k sd 0) (scatter raw sd out) d = nth k raw d.
Proof.
  revert sd. induction raw as [|r rt IH]; intros [|s t] out k ND HL HF Hk; cbn in HL, Hk; try lia.
  inversion ND as [|? ? Hn ND']; subst. inversion HF as [|? ? Hs HF']; subst.
  change (scatter (r :: rt) (s :: t) out) with (scatter rt t (upd out s r)).
  destruct k as [|k]; cbn [nth].
  - rewrite scatter_untouched by exact Hn. apply nth_upd_eq. exact Hs.
  - apply IH; [exact ND' | lia | | lia]. rewrite upd_length. exact HF'.
Qed.

Theorem dense_get_batch_exact (d : dense) nr rows :
  length d = nr -> rows <> [] -> NoDup rows -> Forall (fun r => r < nr) rows ->
  dense_get_batch rows nr d = Ok (map (fun r => nth r d []) rows).
Proof.
  intros HL Hne ND HF. unfold dense_get_batch.
  destruct (argsort_spec rows) as (Psd & Psrt & Ssrt). cbn zeta in Psd, Psrt, Ssrt.
  pose proof (argsort_length rows) as Lsd.
  set (sd := argsort rows) in *. set (srt := map (fun i => nth i rows 0) sd) in *.
  assert (NDs : NoDup srt) by (eapply Permutation_NoDup; [apply Permutation_sym; exact Psrt | exact ND]).
  assert (Slt : Sorted lt srt) by (apply sorted_le_nodup_lt; assumption).
  assert (HFs : Forall (fun r => r < nr) srt)
    by (eapply Permutation_Forall; [apply Permutation_sym; exact Psrt | exact HF]).
  assert (Hnes : srt <> []) by (eapply perm_nonempty; eassumption).
  assert (Lsrt : length srt = length rows) by (unfold srt; rewrite map_length; exact Lsd).
  destruct srt as [|s0 st] eqn:Esrt; [congruence|]. rewrite <- Esrt in *.
  rewrite (sorted_lt_strictly _ Slt).
  assert (Efa : forallb (fun r => r <? nr) srt = true).
  { apply forallb_forall. intros r Hr. apply Nat.ltb_lt. rewrite Forall_forall in HFs. exact (HFs r Hr). }
  rewrite Efa. cbn [andb]. f_equal.
  set (raw := map (fun r => nth r d []) srt).
  fold (scatter raw sd (repeat [] (length raw))).
  assert (Lraw : length raw = length rows) by (unfold raw; rewrite map_length; exact Lsrt).
  assert (NDsd : NoDup sd) by (eapply Permutation_NoDup; [apply Permutation_sym; exact Psd | apply seq_NoDup]).
  apply (nth_ext _ _ [] []).
  - rewrite scatter_length, repeat_length, map_length. exact Lraw.
  - intros i Hi. rewrite scatter_length, repeat_length, Lraw in Hi.
    assert (Hin : In i sd) by (eapply Permutation_in; [apply Permutation_sym; exact Psd | apply in_seq; lia]).
    destruct (In_nth _ _ 0 Hin) as (k & Hk & Ek). rewrite <- Ek.
    rewrite scatter_hit; [| exact NDsd | lia | | exact Hk].
    2:{ rewrite repeat_length, Lraw. eapply Permutation_Forall; [apply Permutation_sym; exact Psd|].
        apply Forall_forall. intros x Hx. apply in_seq in Hx. lia. }
    unfold raw. rewrite (nth_map_lt _ srt k 0) by lia.
    rewrite (nth_map_lt _ rows (nth k sd 0) 0) by (rewrite Ek; lia).
    f_equal. unfold srt. exact (nth_map_lt (fun i0 => nth i0 rows 0) sd k 0 0 Hk).
Qed.

(* ================================================================ rejected row lists *)
(* dense path: anything but a non-empty duplicate-free in-range list is refused *)
Theorem dense_get_batch_rejects (d : dense) nr rows :
  rows = [] \/ ~ NoDup rows \/ Exists (fun r => nr <= r) rows ->
  dense_get_batch rows nr d = Err EReject.
Proof.
  intros Hbad. unfold dense_get_batch.
  destruct (argsort_spec rows) as (Psd & Psrt & Ssrt). cbn zeta in Psd, Psrt, Ssrt.
  set (sd := argsort rows) in *. set (srt := map (fun i => nth i rows 0) sd) in *.
  destruct srt as [|s0 st] eqn:Esrt; [reflexivity|]. rewrite <- Esrt in *.
  destruct (strictly_increasing srt && forallb (fun r => r <? nr) srt) eqn:E; [|reflexivity].
  exfalso. apply andb_true_iff in E. destruct E as [E1 E2].
  destruct Hbad as [-> | [Hd | He]].
  - apply Permutation_sym, Permutation_nil in Psrt. congruence.
  - apply Hd. eapply Permutation_NoDup; [exact Psrt|].
    clear - E1. induction srt as [|x t IH]; [constructor|].
    assert (G : Forall (fun y => x < y) t /\ strictly_increasing t = true).
    { clear IH. revert x E1. induction t as [|y t' IH']; intros x E1; [split; [constructor | reflexivity]|].
      change (strictly_increasing (x :: y :: t')) with ((x <? y) && strictly_increasing (y :: t')) in E1.
      apply andb_true_iff in E1. destruct E1 as [H1 H2]. apply Nat.ltb_lt in H1.
      destruct (IH' y H2) as [I1 _]. split; [|exact H2]. constructor; [exact H1|].
      eapply Forall_impl; [|exact I1]. cbn. intros; lia. }
    destruct G as [G1 G2]. constructor; [|apply IH; exact G2].
    intros Hin. rewrite Forall_forall in G1. specialize (G1 x Hin). lia.
  - apply Exists_exists in He. destruct He as (r & Hr & Hge).
    assert (Hin : In r srt) by (eapply Permutation_in; [apply Permutation_sym; exact Psrt | exact Hr]).
    rewrite forallb_forall in E2. specialize (E2 r Hin). apply Nat.ltb_lt in E2. lia.
Qed.

(* ---- np.unique ---- *)
Lemma dedup_hd y t : exists t', dedup_sorted (y :: t) = y :: t'.
Proof.
  revert y. induction t as [|z t IH]; intros y; [exists []; reflexivity|].
  change (dedup_sorted (y :: z :: t)) with (if y =? z then dedup_sorted (z :: t) else y :: dedup_sorted (z :: t)).
  destruct (y =? z) eqn:E; [|eexists; reflexivity].
  apply Nat.eqb_eq in E. subst. apply IH.
Qed.

Lemma dedup_spec l : Sorted le l ->
  Sorted lt (dedup_sorted l) /\ (forall x, In x (dedup_sorted l) <-> In x l).
Proof.
  induction l as [|x t IH]; intros H; [split; [constructor | tauto]|].
  inversion H as [|? ? Ht Hhd]; subst. destruct (IH Ht) as [I1 I2].
  destruct t as [|y t']; [split; [repeat constructor | tauto]|].
  change (dedup_sorted (x :: y :: t')) with (if x =? y then dedup_sorted (y :: t') else x :: dedup_sorted (y :: t')).
  inversion Hhd; subst.
  destruct (x =? y) eqn:E.
  - apply Nat.eqb_eq in E. subst. split; [exact I1|]. intros z. rewrite I2. cbn. tauto.
  - apply Nat.eqb_neq in E. split.
    + constructor; [exact I1|]. destruct (dedup_hd y t') as (t'' & ->). constructor. lia.
    + intros z. split; intros [Hz|Hz]; [left; exact Hz | right; apply I2; exact Hz | left; exact Hz | right; apply I2; exact Hz].
Qed.

Lemma unique_spec l :
  Sorted lt (unique l) /\ (forall x, In x (unique l) <-> In x l).
Proof.
  unfold unique. pose proof (sort_by_sorted (fun x : nat => x) l) as HS. rewrite map_id in HS.
  destruct (dedup_spec _ HS) as [D1 D2]. split; [exact D1|].
  intros x. rewrite D2. split; apply Permutation_in; [|apply Permutation_sym]; apply sort_by_perm.
Qed.

Lemma unique_length_le l : length (unique l) <= length l.
Proof.
  destruct (unique_spec l) as [U1 U2]. apply NoDup_incl_length; [apply sorted_lt_nodup; exact U1|].
  intros x Hx. apply U2. exact Hx.
Qed.

Lemma unique_length_dup l : ~ NoDup l -> length (unique l) < length l.
Proof.
  intros Hd. destruct (unique_spec l) as [U1 U2].
  destruct (le_lt_dec (length l) (length (unique l))) as [H|H]; [|exact H].
  exfalso. apply Hd. apply (@NoDup_incl_NoDup _ (unique l)); [apply sorted_lt_nodup; exact U1 | exact H|].
  intros x Hx. apply U2. exact Hx.
Qed.

(* ---- inversion of the monadic plumbing ---- *)
Lemma bind_ok_inv {A B} (x : res A) (f : A -> res B) b :
  bind x f = Ok b -> exists a, x = Ok a /\ f a = Ok b.
Proof. destruct x as [a|e]; cbn; [eauto | discriminate]. Qed.

Lemma res_map_ok_inv {A B} (f : A -> res B) l : forall ys,
  res_map f l = Ok ys -> Forall2 (fun x y => f x = Ok y) l ys.
Proof.
  induction l as [|x t IH]; intros ys H; cbn in H.
  - inversion H; subst. constructor.
  - apply bind_ok_inv in H. destruct H as (y & Ey & H). apply bind_ok_inv in H.
    destruct H as (ys' & Eys & H). inversion H; subst. constructor; [exact Ey | apply IH; exact Eys].
Qed.

(* ---- counting the rows actually loaded ---- *)
Definition n_loaded (ps : list comp) : nat := sum_list (map (fun p => length (ptr p) - 1) ps).
Definition n_asked (rgs : list (nat * nat)) : nat := sum_list (map (fun rg => snd rg - fst rg) rgs).

Lemma expand_length rgs : length (expand rgs) = n_asked rgs.
Proof.
  unfold expand, n_asked. induction rgs as [|rg t IH]; [reflexivity|].
  cbn [map concat]. rewrite app_length, seq_length, IH. reflexivity.
Qed.

Lemma load_sparse_ptr_length a b m p :
  load_sparse a b m = Ok p -> length (ptr p) = length (slice (ptr m) a (S b)) /\ 1 <= length (ptr p).
Proof.
  unfold load_sparse. destruct (slice (ptr m) a (S b)) as [|p0 t] eqn:E; [discriminate|].
  intros H. injection H as <-. cbn [ptr length]. rewrite map_length. split; [reflexivity | lia].
Qed.

Lemma loaded_le m rgs ps :
  Forall2 (fun rg p => load_sparse (fst rg) (snd rg) m = Ok p) rgs ps -> n_loaded ps <= n_asked rgs.
Proof.
  unfold n_loaded, n_asked, sum_list. induction 1 as [|rg p rgs ps Hp _ IH]; [cbn; lia|].
  cbn [map fold_right]. destruct (load_sparse_ptr_length _ _ _ _ Hp) as [E1 E2].
  assert (length (ptr p) <= S (snd rg) - fst rg).
  { rewrite E1. unfold slice. rewrite firstn_length. lia. }
  lia.
Qed.

Lemma loaded_lt m nr rgs ps :
  length (ptr m) = S nr ->
  Forall2 (fun rg p => load_sparse (fst rg) (snd rg) m = Ok p) rgs ps ->
  Exists (fun rg => nr < snd rg) rgs -> n_loaded ps < n_asked rgs.
Proof.
  intros HP H. unfold n_loaded, n_asked, sum_list.
  induction H as [|rg p rgs ps Hp Hrest IH]; intros He; [inversion He|].
  cbn [map fold_right]. destruct (load_sparse_ptr_length _ _ _ _ Hp) as [E1 E2].
  assert (B : length (ptr p) <= S (snd rg) - fst rg).
  { rewrite E1. unfold slice. rewrite firstn_length. lia. }
  pose proof (loaded_le m rgs ps Hrest) as Hle. unfold n_loaded, n_asked, sum_list in Hle.
  inversion He as [? ? Hnow | ? ? Hlater]; subst.
  - assert (B2 : length (ptr p) <= S nr - fst rg).
    { rewrite E1. unfold slice. rewrite firstn_length, skipn_length, HP. lia. }
    lia.
  - specialize (IH Hlater). lia.
Qed.

Lemma removelast_len {A} (l : list A) : length (removelast l) = length l - 1.
Proof.
  induction l as [|x t IH]; [reflexivity|]. destruct t as [|y t']; [reflexivity|].
  change (removelast (x :: y :: t')) with (x :: removelast (y :: t')). cbn [length] in *. rewrite IH. lia.
Qed.

Lemma merge_from_ptr_length ps : forall i0, length (fst (merge_from i0 ps)) = n_loaded ps.
Proof.
  unfold n_loaded, sum_list. induction ps as [|p t IH]; intros i0; [reflexivity|].
  cbn [merge_from fst map fold_right]. rewrite app_length, map_length, removelast_len, IH. reflexivity.
Qed.

Lemma merge_csr_ptr_length ps mg : merge_csr ps = Ok mg -> length (ptr mg) = S (n_loaded ps).
Proof.
  unfold merge_csr. destruct (forallb _ ps); [|discriminate]. intros H. inversion H; subst.
  cbn [ptr]. rewrite app_length, merge_from_ptr_length. cbn. lia.
Qed.

(* the un-sorting loop reads the pointer after every position it visits *)
Lemma unsort_ok_bound sd mg total : forall iis dc r,
  unsort_from iis sd mg total dc = Ok r ->
  forall ii, In ii iis -> exists pos, index_of ii sd = Some pos /\ S pos < length (ptr mg).
Proof.
  induction iis as [|i t IH]; intros dc r H ii Hin; [destruct Hin|].
  cbn [unsort_from] in H. destruct (index_of i sd) as [pos|] eqn:Ei; [|discriminate].
  destruct (nth_error (ptr mg) pos) as [i0|]; [|discriminate].
  destruct (nth_error (ptr mg) (S pos)) as [i1|] eqn:E1; [|discriminate].
  destruct (total <? dc + (i1 - i0)); [discriminate|].
  destruct (length (ptr mg) <=? i); [discriminate|].
  apply bind_ok_inv in H. destruct H as (r' & Er & _).
  destruct Hin as [<- | Hin].
  - exists pos. split; [exact Ei|]. apply nth_error_Some. congruence.
  - eapply IH; eassumption.
Qed.

Lemma expand_in r rgs : In r (expand rgs) -> exists rg, In rg rgs /\ fst rg <= r < snd rg.
Proof.
  unfold expand. intros H. apply in_concat in H. destruct H as (l & Hl & Hr).
  apply in_map_iff in Hl. destruct Hl as (rg & <- & Hrg). apply in_seq in Hr. exists rg. split; [exact Hrg | lia].
Qed.

(* sparse path: an empty list, a duplicate or an out-of-range row makes
   _load_disjoint_csr fail - it never returns other rows instead *)
Theorem load_disjoint_rejects m nr rows :
  length (ptr m) = S nr ->
  rows = [] \/ ~ NoDup rows \/ Exists (fun r => nr <= r) rows ->
  exists e, load_disjoint_csr rows m = Err e.
Proof.
  intros HP Hbad. destruct (load_disjoint_csr rows m) as [b|e] eqn:E; [|eauto]. exfalso.
  unfold load_disjoint_csr in E.
  destruct (argsort_spec rows) as (Psd & Psrt & Ssrt). cbn zeta in Psd, Psrt, Ssrt.
  pose proof (argsort_length rows) as Lsd.
  set (sd := argsort rows) in *. set (srt := map (fun i => nth i rows 0) sd) in *.
  assert (Lsrt : length srt = length rows) by (unfold srt; rewrite map_length; exact Lsd).
  apply bind_ok_inv in E. destruct E as (rgs & Em & E).
  apply bind_ok_inv in E. destruct E as (pieces & Ep & E).
  apply bind_ok_inv in E. destruct E as (mg & Emg & E).
  apply bind_ok_inv in E. destruct E as (r & Eu & _).
  destruct (unique_spec srt) as [U1 U2].
  unfold merge_index_list in Em. destruct (unique srt) as [|x t] eqn:EU; [discriminate|].
  inversion Em; subst rgs. clear Em.
  assert (Ee : expand (merge_ranges_from x x t) = x :: t).
  { rewrite merge_ranges_expand by (lia || assumption). replace (S x - x) with 1 by lia. reflexivity. }
  set (rgs := merge_ranges_from x x t) in *.
  assert (Ea : n_asked rgs = length (unique srt)) by (rewrite <- expand_length, Ee, EU; reflexivity).
  apply res_map_ok_inv in Ep.
  pose proof (merge_csr_ptr_length _ _ Emg) as Lmg.
  (* the loop needs more pointers than rows requested *)
  assert (Hne : rows <> []).
  { intros ->. apply Permutation_sym, Permutation_nil in Psrt. rewrite Psrt in EU. cbn in EU. discriminate EU. }
  assert (Hlen : 0 < length rows) by (destruct rows; [congruence | cbn; lia]).
  assert (NDsd : NoDup sd) by (eapply Permutation_NoDup; [apply Permutation_sym; exact Psd | apply seq_NoDup]).
  set (k := length rows - 1).
  assert (Hk : k < length sd) by (unfold k; lia).
  assert (Hin : In (nth k sd 0) (seq 0 (length rows))).
  { eapply Permutation_in; [exact Psd | apply nth_In; exact Hk]. }
  destruct (unsort_ok_bound _ _ _ _ _ _ Eu _ Hin) as (pos & P1 & P2).
  rewrite (index_of_nth sd k NDsd Hk) in P1. inversion P1; subst pos.
  assert (Hneed : length rows <= n_loaded pieces) by (unfold k in P2; lia).
  pose proof (loaded_le m rgs pieces Ep) as Hle.
  pose proof (unique_length_le srt) as HU.
  destruct Hbad as [-> | [Hd | He]]; [congruence | |].
  - assert (~ NoDup srt) by (intros Hs; apply Hd; eapply Permutation_NoDup; eassumption).
    pose proof (unique_length_dup srt H). lia.
  - apply Exists_exists in He. destruct He as (r0 & Hr0 & Hge).
    assert (Hin0 : In r0 (expand rgs)).
    { rewrite Ee. apply U2. eapply Permutation_in; [apply Permutation_sym; exact Psrt | exact Hr0]. }
    destruct (expand_in _ _ Hin0) as (rg & Hrg & Hb).
    assert (Hex : Exists (fun rg => nr < snd rg) rgs) by (apply Exists_exists; exists rg; split; [exact Hrg | lia]).
    pose proof (loaded_lt m nr rgs pieces HP Ep Hex). lia.
Qed.

Theorem csr_get_batch_rejects m nr nc rows :
  length (ptr m) = S nr ->
  rows = [] \/ ~ NoDup rows \/ Exists (fun r => nr <= r) rows ->
  exists e, csr_get_batch rows nc m = Err e.
Proof.
  intros HP Hbad. destruct (load_disjoint_rejects m nr rows HP Hbad) as (e & E).
  exists e. unfold csr_get_batch. rewrite E. reflexivity.
Qed.
