(* C06: with a per-cell decision procedure, run_type_assignment = map map_one. *)
From Coq Require Import ZArith List Bool Lia Arith Permutation.
From CTM Require Import Base.Sx Base.ListX Base.SortX Model.Tree Model.Election Model.PerCell
     Proofs.ElectionWBP Proofs.ElectionP.
Import ListNotations.
Open Scope Z_scope.

(* ---------------- list helpers ---------------- *)
Lemma map_const_len {A B C} (x : C) (a : list A) (b : list B) :
  length a = length b -> map (fun _ => x) a = map (fun _ => x) b.
Proof.
  revert b. induction a as [|h t IH]; intros [|h' t'] H; cbn in *; try discriminate; [reflexivity|].
  f_equal. apply IH. lia.
Qed.

Lemma pick_combine {A B} (cells : list A) (f : A -> B) idx i r :
  Forall (fun i => (i < length cells)%nat) idx ->
  In (i, r) (combine idx (map f (pick cells idx))) ->
  exists c, nth_error cells i = Some c /\ r = f c.
Proof.
  induction idx as [|j t IH]; intros Hr Hin; [destruct Hin|].
  inversion Hr as [|? ? Hj Ht]; subst.
  unfold pick in Hin. cbn [flat_map] in Hin.
  destruct (nth_error cells j) as [c|] eqn:E; [|apply nth_error_None in E; lia].
  cbn [app map combine] in Hin. destruct Hin as [Heq | Hin].
  - inversion Heq; subst. eauto.
  - apply IH; assumption.
Qed.

Lemma nth_error_S {A} (x : A) l n : nth_error (x :: l) (S n) = nth_error l n.
Proof. reflexivity. Qed.
Lemma nth_error_O {A} (x : A) l : nth_error (x :: l) 0 = Some x.
Proof. reflexivity. Qed.

Lemma nth_map_some {A} (l : list A) k : nth k (map Some l) None = nth_error l k.
Proof. revert k. induction l as [|x t IH]; intros [|k]; cbn; auto. Qed.

Section PerCellProofs.
Variable cell rng : Type.
Variable decide : rng -> option (nat * node) -> list node -> list cell -> list rec * rng.
Variable dc : option (nat * node) -> list node -> cell -> rec.
(* the decision for a cell does not depend on the generator state nor on its company *)
Hypothesis decide_dc : forall g p kids cs, (2 <= length kids)%nat -> fst (decide g p kids cs) = map (dc p kids) cs.
Hypothesis dc_kids : forall p kids c, (2 <= length kids)%nat -> In (asg (dc p kids c)) kids.

Lemma decide_len : forall g p kids cs, (2 <= length kids)%nat -> length (fst (decide g p kids cs)) = length cs.
Proof. intros. rewrite decide_dc by assumption. apply map_length. Qed.
Lemma decide_kids : forall g p kids cs, (2 <= length kids)%nat ->
  Forall (fun r => In (asg r) kids) (fst (decide g p kids cs)).
Proof.
  intros g p kids cs H. rewrite decide_dc by assumption. apply Forall_forall. intros r Hr.
  apply in_map_iff in Hr. destruct Hr as (c & <- & _). apply dc_kids. exact H.
Qed.

Notation visit := (visit cell rng decide).
Notation do_level := (do_level cell rng decide).
Notation levels_from := (levels_from cell rng decide).
Notation child_rec := (child_rec cell dc).
Notation raw_one := (raw_one cell dc).
Notation descend := (descend cell dc).

(* what one visit writes *)
Lemma visit_percell cells li parent kids idx g res pa st' :
  Forall (fun i => (i < length cells)%nat) idx -> idx <> [] ->
  visit cells li parent kids idx (g, res, pa) = Ok st' ->
  exists g', st' = (g', write_back res li idx (map (child_rec parent kids) (pick cells idx)),
                    regroup idx (map (child_rec parent kids) (pick cells idx)) ++ pa).
Proof.
  intros Hidx Hne H. unfold Election.visit in H.
  destruct idx as [|i0 idx']; [congruence|].
  destruct kids as [|k0 kids']; [discriminate|].
  destruct kids' as [|k1 kids''].
  - injection H as <-. exists g.
    assert (E : map (fun _ : nat => trivial_rec k0) (i0 :: idx') =
                map (child_rec parent [k0]) (pick cells (i0 :: idx'))).
    { cbn [PerCell.child_rec]. apply map_const_len. symmetry. apply pick_length. exact Hidx. }
    rewrite <- E. reflexivity.
  - destruct (decide g parent (k0 :: k1 :: kids'') (pick cells (i0 :: idx'))) as [rs g'] eqn:E.
    destruct (Nat.eqb (length rs) (length (i0 :: idx'))) eqn:El; [|discriminate].
    injection H as <-. exists g'.
    pose proof (decide_dc g parent (k0 :: k1 :: kids'') (pick cells (i0 :: idx')) ltac:(cbn; lia)) as Hd.
    rewrite E in Hd. cbn [fst] in Hd. subst rs. reflexivity.
Qed.

(* ---------------- the per-cell row, level by level ---------------- *)
Definition step_rec (t : tree) (pli : nat) (x : node) (c : cell) : rec :=
  child_rec (Some (pli, x)) (children_of (nth pli t []) x) c.

Lemma descend_length lv rest pli x c : length (descend lv rest pli x c) = length rest.
Proof. revert lv pli x. induction rest as [|nxt rest' IH]; intros; cbn; [reflexivity|]. rewrite IH. reflexivity. Qed.

Lemma raw_one_length t c : length (raw_one t c) = length t.
Proof. destruct t as [|top rest]; cbn; [reflexivity|]. rewrite descend_length. reflexivity. Qed.

Lemma descend_step lv rest pli x c k r0 :
  nth_error (descend lv rest pli x c) k = Some r0 -> (S k < length rest)%nat ->
  nth_error (descend lv rest pli x c) (S k) =
    Some (child_rec (Some (S pli + k, asg r0)%nat) (children_of (nth k rest []) (asg r0)) c).
Proof.
  revert lv pli x k. induction rest as [|nxt rest' IH]; intros lv pli x k Hk Hlt; [cbn in Hlt; lia|].
  cbn [PerCell.descend] in *. destruct k as [|k].
  - rewrite nth_error_O in Hk. inversion Hk; subst r0. clear Hk.
    rewrite nth_error_S. destruct rest' as [|n2 rest'']; [cbn in Hlt; lia|].
    cbn [PerCell.descend nth]. rewrite nth_error_O. replace (S pli + 0)%nat with (S pli) by lia. reflexivity.
  - rewrite nth_error_S in Hk. rewrite nth_error_S.
    rewrite (IH nxt (S pli) _ k Hk) by (cbn in Hlt; lia).
    cbn [nth]. replace (S (S pli) + k)%nat with (S pli + S k)%nat by lia. reflexivity.
Qed.

Lemma raw_step t c k r0 :
  nth_error (raw_one t c) k = Some r0 -> (S k < length t)%nat ->
  nth_error (raw_one t c) (S k) = Some (step_rec t k (asg r0) c).
Proof.
  destruct t as [|top rest]; [cbn; intros; lia|].
  cbn [PerCell.raw_one]. intros Hk Hlt. cbn [length] in Hlt. unfold step_rec.
  destruct k as [|k].
  - rewrite nth_error_O in Hk. inversion Hk; subst r0. clear Hk. rewrite nth_error_S. cbn [nth].
    destruct rest as [|nxt rest']; [cbn in Hlt; lia|]. reflexivity.
  - rewrite nth_error_S in Hk. rewrite nth_error_S.
    rewrite (descend_step _ _ _ _ _ k r0 Hk) by lia. cbn [nth]. reflexivity.
Qed.

Lemma raw_zero top rest c : nth_error (raw_one (top :: rest) c) 0 = Some (child_rec None (nodes top) c).
Proof. reflexivity. Qed.

(* ---------------- one level below a non-root level: values ---------------- *)
Section LevelV.
Variable t : tree.
Variable cells : list cell.
Hypothesis Ht : tree_ok t.
Variable pli : nat.
Hypothesis Hpli : (S pli < length t)%nat.
Variable res0 : table.
Variable pa_prev : pa_t.
Hypothesis Hprev : forall x i, In i (lookup_pa pa_prev x) <->
    ((i < length cells)%nat /\ exists r, cellrec res0 i pli = Some r /\ asg r = x).
Hypothesis Hprev_nodup : forall x, NoDup (lookup_pa pa_prev x).

Definition VJ (P : list node) (st : state rng) : Prop :=
  let '(_, res, _) := st in
  forall i c r0, nth_error cells i = Some c -> cellrec res0 i pli = Some r0 -> In (asg r0) P ->
    cellrec res i (S pli) = Some (step_rec t pli (asg r0) c).

Lemma VJ_step P st x st' :
  ~ In x P ->
  J cell rng t cells pli res0 P st -> VJ P st ->
  visit cells (S pli) (Some (pli, x)) (children_of (nth pli t []) x) (lookup_pa pa_prev x) st = Ok st' ->
  VJ (x :: P) st'.
Proof.
  destruct st as [[g res] pa]. intros HxP (Hsh & _ & _ & _ & _) HV Hv.
  pose proof (idx_in_range cell cells pli res0 pa_prev Hprev x) as Hrange.
  pose proof (Hprev_nodup x) as NDidx.
  assert (Hidx_spec : forall i, In i (lookup_pa pa_prev x) <->
            ((i < length cells)%nat /\ exists r, cellrec res0 i pli = Some r /\ asg r = x))
    by (intros i; apply Hprev).
  remember (lookup_pa pa_prev x) as idx eqn:Hidx_def.
  destruct idx as [|i0 idx'] eqn:Eidx.
  - (* nothing routed to x: the state is unchanged *)
    cbn in Hv. inversion Hv; subst st'. unfold VJ. intros i c r0 Hc Hr0 [E | Hin]; [|eapply HV; eauto].
    exfalso. assert (Hi : In i []) by (apply Hidx_spec; split; [apply nth_error_Some; congruence | eauto]).
    destruct Hi.
  - rewrite <- Eidx in *. assert (Hne : idx <> []) by (rewrite Eidx; discriminate).
    destruct (visit_percell _ _ _ _ _ _ _ _ _ Hrange Hne Hv) as (g' & ->).
    set (kids := children_of (nth pli t []) x) in *.
    set (rs := map (child_rec (Some (pli, x)) kids) (pick cells idx)).
    assert (Hlen : length rs = length idx) by (unfold rs; rewrite map_length; apply pick_length; exact Hrange).
    unfold VJ. intros i c r0 Hc Hr0 HP.
    assert (Hi : (i < length cells)%nat) by (apply nth_error_Some; congruence).
    rewrite write_back_unfold.
    destruct (Z.eq_dec (asg r0) x) as [E | NE].
    + assert (Hii : In i idx) by (apply Hidx_spec; eauto).
      destruct (combine_in_fst idx rs i (eq_sym Hlen) Hii) as (r & Hr).
      destruct Hsh as [Hs1 Hs2].
      rewrite (fold_wb_hit (S pli) (combine idx rs) res i r).
      * destruct (pick_combine cells _ idx i r Hrange Hr) as (c' & Hc' & ->).
        rewrite Hc in Hc'. inversion Hc'; subst c'. rewrite E. reflexivity.
      * apply combine_fst_nodup. exact NDidx.
      * exact Hr.
      * lia.
      * rewrite Hs2 by exact Hi. exact Hpli.
    + destruct HP as [E | HP]; [congruence|].
      rewrite fold_wb_other_row.
      * eapply HV; eauto.
      * intros Hin. apply in_map_iff in Hin. destruct Hin as ([i' r'] & E' & Hin). cbn in E'; subst i'.
        apply in_combine_l in Hin. apply Hidx_spec in Hin. destruct Hin as (_ & r1 & Hr1 & Ha). congruence.
Qed.

Lemma VJ_fold xs P st st' :
  NoDup xs -> (forall x, In x xs -> ~ In x P) ->
  J cell rng t cells pli res0 P st -> VJ P st ->
  fold_outcome (fun st'' x => visit cells (S pli) (Some (pli, x)) (children_of (nth pli t []) x) (lookup_pa pa_prev x) st'')
               xs st = Ok st' ->
  VJ (rev xs ++ P) st'.
Proof.
  revert P st. induction xs as [|x xs IH]; intros P st ND Hdis HJ HV Hf; cbn in Hf.
  - inversion Hf; subst. exact HV.
  - destruct (visit cells (S pli) (Some (pli, x)) (children_of (nth pli t []) x) (lookup_pa pa_prev x) st) as [st1| | |] eqn:Ev;
      try discriminate.
    inversion ND; subst.
    cbn [rev]. rewrite <- app_assoc. cbn [app].
    apply (IH (x :: P) st1); auto.
    + intros y Hy [E | Hin]; [subst; contradiction | eapply Hdis; [right; exact Hy | exact Hin]].
    + eapply (J_step cell rng decide decide_kids); eauto. apply Hdis. left; reflexivity.
    + eapply VJ_step; eauto. apply Hdis. left; reflexivity.
Qed.
End LevelV.

(* ---------------- all levels ---------------- *)
Section LevelsV.
Variable t : tree.
Variable cells : list cell.
Hypothesis Ht : tree_ok t.

Definition VInv (li : nat) (st : state rng) : Prop :=
  let '(_, res, _) := st in
  forall i c k, nth_error cells i = Some c -> (k < li)%nat ->
    cellrec res i k = nth_error (raw_one t c) k.

Lemma VInv_level li st st' :
  Inv cell rng t cells li st -> VInv li st -> (li < length t)%nat ->
  do_level t cells li st = Ok st' -> VInv (S li) st'.
Proof.
  destruct st as [[g res] pa]. destruct li as [|pli]; intros HI HV HL Hd.
  - (* root *)
    destruct HI as (Hsh & _ & _ & _). unfold Election.do_level in Hd.
    assert (Hrange : Forall (fun i => (i < length cells)%nat) (seq 0 (length cells))) 
      by (apply Forall_forall; intros i0 Hi0; apply in_seq in Hi0; lia).
    destruct (length cells) as [|n'] eqn:En.
    + cbn in Hd. inversion Hd; subst st'. unfold VInv. intros i c k Hc _.
      exfalso. assert (i < length cells)%nat by (apply nth_error_Some; congruence). lia.
    + rewrite <- En in *.
      assert (Hne : seq 0 (length cells) <> []) by (rewrite En; discriminate).
      destruct (visit_percell _ _ _ _ _ _ _ _ _ Hrange Hne Hd) as (g' & ->).
      unfold VInv. intros i c k Hc Hk. assert (k = 0%nat) by lia. subst k.
      assert (Hi : (i < length cells)%nat) by (apply nth_error_Some; congruence).
      set (idx := seq 0 (length cells)) in *.
      set (rs := map (child_rec None (nodes (hd [] t))) (pick cells idx)).
      assert (Hlen : length rs = length idx) by (unfold rs; rewrite map_length; apply pick_length; exact Hrange).
      assert (Hii : In i idx) by (apply in_seq; lia).
      destruct (combine_in_fst idx rs i (eq_sym Hlen) Hii) as (r & Hr).
      destruct Hsh as [Hs1 Hs2].
      rewrite write_back_unfold, (fold_wb_hit 0 (combine idx rs) res i r).
      * destruct (pick_combine cells _ idx i r Hrange Hr) as (c' & Hc' & ->).
        rewrite Hc in Hc'. inversion Hc'; subst c'.
        destruct t as [|top rest]; [exfalso; apply (tk_nonempty _ Ht); reflexivity|]. reflexivity.
      * apply combine_fst_nodup. apply seq_NoDup.
      * exact Hr.
      * lia.
      * rewrite Hs2 by exact Hi. exact HL.
  - (* below *)
    pose proof HI as (Hsh & HB & HC & HD). destruct (HD ltac:(lia)) as [HD1 HD2].
    replace (S pli - 1)%nat with pli in HD1 by lia.
    unfold Election.do_level in Hd.
    set (lv := nth pli t []) in *.
    assert (HJ0 : J cell rng t cells pli res [] (g, res, [])).
    { unfold J. split; [exact Hsh|]. split; [reflexivity|]. split; [intros ? ? ? ? []|].
      split; [|intros x; constructor].
      intros x i. cbn. split; [tauto|]. intros (_ & r0 & r & _ & [] & _). }
    assert (HV0 : VJ t cells pli res [] (g, res, [])) by (unfold VJ; intros ? ? ? ? ? []).
    assert (ND : NoDup (zsort (nodes lv))) by (apply zsort_nodup; apply (tk_nodup t Ht pli)).
    assert (HJ : J cell rng t cells pli res (rev (zsort (nodes lv)) ++ []) st').
    { eapply (J_fold cell rng decide decide_kids) with (pa_prev := pa) (st := (g, res, [])); eauto. }
    assert (HVJ : VJ t cells pli res (rev (zsort (nodes lv)) ++ []) st').
    { eapply VJ_fold with (pa_prev := pa) (st := (g, res, [])); eauto. }
    rewrite app_nil_r in HJ, HVJ. destruct st' as [[g' res'] pa'].
    destruct HJ as (_ & Hcol & _ & _ & _).
    unfold VInv. intros i c k Hc Hk.
    assert (Hi : (i < length cells)%nat) by (apply nth_error_Some; congruence).
    destruct (Nat.eq_dec k (S pli)) as [-> | NE].
    + destruct (HB i pli Hi ltac:(lia)) as (r0 & Hr0 & Hn0).
      assert (Hraw : nth_error (raw_one t c) pli = Some r0) by (rewrite <- (HV i c pli Hc ltac:(lia)); exact Hr0).
      rewrite (raw_step t c pli r0 Hraw HL).
      apply (HVJ i c r0 Hc Hr0). apply in_rev. rewrite rev_involutive. apply zsort_in. exact Hn0.
    + rewrite Hcol by exact NE. apply HV; [exact Hc | lia].
Qed.

Lemma VInv_levels n_left li st st' :
  Inv cell rng t cells li st -> VInv li st -> (li + n_left = length t)%nat ->
  levels_from t cells li n_left st = Ok st' -> VInv (length t) st'.
Proof.
  revert li st. induction n_left as [|k IH]; intros li st HI HV HL H; cbn in H.
  - inversion H; subst. replace (length t) with li by lia. exact HV.
  - destruct (do_level t cells li st) as [st1| | |] eqn:Ed; try discriminate.
    apply (IH (S li) st1); [| |lia|exact H].
    + eapply (Inv_level cell rng decide decide_kids); eauto. lia.
    + eapply VInv_level; eauto. lia.
Qed.
End LevelsV.

(* ---------------- trailing passes ---------------- *)
Lemma inherit_map_some above raw : inherit above (map Some raw) = Ok (inherit_tot above raw).
Proof.
  revert above. induction raw as [|r t IH]; intros above; cbn; [reflexivity|]. rewrite IH. reflexivity.
Qed.

Lemma map_outcome_map {A B C} (f : B -> outcome C) (g : A -> B) (h : A -> C) l :
  (forall a, f (g a) = Ok (h a)) -> map_outcome f (map g l) = Ok (map h l).
Proof. intros H. induction l as [|a t IH]; cbn; [reflexivity|]. rewrite H, IH. reflexivity. Qed.

(* ---------------- the theorem ---------------- *)
Theorem per_cell t cells g rows g' :
  tree_ok t ->
  run_type_assignment cell rng decide t cells g = Ok (rows, g') ->
  rows = map (map_one cell dc t) cells.
Proof.
  intros Ht H. unfold run_type_assignment in H.
  destruct (levels_from t cells 0 (length t) (g, empty_table cell t cells, [])) as [[[g1 res] pa]| | |] eqn:El;
    try discriminate.
  pose proof (Inv_levels cell rng decide decide_kids t cells Ht (length t) 0 _ _ (Inv_init cell rng t cells g) eq_refl El) as HI.
  assert (HV0 : VInv t cells 0 (g, empty_table cell t cells, [])) by (unfold VInv; intros; lia).
  pose proof (VInv_levels t cells Ht (length t) 0 _ _ (Inv_init cell rng t cells g) HV0 eq_refl El) as HV.
  destruct HI as ((Hs1 & Hs2) & _).
  assert (Hres : res = map (fun c => map Some (raw_one t c)) cells).
  { apply nth_ext with (d := []) (d' := []); [rewrite map_length; exact Hs1|].
    intros i Hi. rewrite Hs1 in Hi.
    destruct (nth_error cells i) as [c|] eqn:Ec; [|apply nth_error_None in Ec; lia].
    assert (E : nth i (map (fun c => map Some (raw_one t c)) cells) [] = map Some (raw_one t c)).
    { apply nth_error_nth. rewrite nth_error_map, Ec. reflexivity. }
    rewrite E. apply nth_ext with (d := None) (d' := None).
    - rewrite map_length, raw_one_length. apply Hs2. exact Hi.
    - intros k Hk. rewrite Hs2 in Hk by exact Hi. rewrite nth_map_some.
      apply (HV i c k Ec Hk). }
  subst res.
  rewrite (map_outcome_map _ _ (map_one cell dc t)) in H.
  - inversion H. reflexivity.
  - intros c. rewrite inherit_map_some. reflexivity.
Qed.

(* the same cell gets the same row whatever its company, position, or the generator state:
   permutation, subset, superset, duplication and chunking of the query are all instances *)
Corollary same_cell_same_row t cells1 g1 rows1 g1' cells2 g2 rows2 g2' i j c :
  tree_ok t ->
  run_type_assignment cell rng decide t cells1 g1 = Ok (rows1, g1') ->
  run_type_assignment cell rng decide t cells2 g2 = Ok (rows2, g2') ->
  nth_error cells1 i = Some c -> nth_error cells2 j = Some c ->
  nth_error rows1 i = nth_error rows2 j.
Proof.
  intros Ht H1 H2 Hi Hj.
  rewrite (per_cell _ _ _ _ _ Ht H1), (per_cell _ _ _ _ _ Ht H2), !nth_error_map, Hi, Hj. reflexivity.
Qed.

(* running the query in chunks (any split, any generator state per chunk) = running it whole *)
Corollary chunks_concat t chunks gs (outs : list (list (list rec) * rng)) g rows g' :
  tree_ok t ->
  Forall2 (fun cg out => run_type_assignment cell rng decide t (fst cg) (snd cg) = Ok out) (combine chunks gs) outs ->
  length gs = length chunks ->
  run_type_assignment cell rng decide t (concat chunks) g = Ok (rows, g') ->
  rows = concat (map fst outs).
Proof.
  intros Ht HF Hlen H. rewrite (per_cell _ _ _ _ _ Ht H). clear H.
  revert gs outs HF Hlen. induction chunks as [|ch chunks IH]; intros gs outs HF Hlen.
  - destruct gs; [|discriminate]. inversion HF; subst. reflexivity.
  - destruct gs as [|g0 gs]; [discriminate|]. cbn [combine] in HF. inversion HF as [|? [rows0 g0'] ? outs' H0 HF']; subst.
    cbn [concat map fst]. rewrite map_app. cbn [fst snd] in H0.
    rewrite (per_cell _ _ _ _ _ Ht H0). f_equal. apply (IH gs outs' HF'). cbn in Hlen. lia.
Qed.
End PerCellProofs.

(* ---------------- a per-cell decision procedure meeting the hypotheses (non-vacuity) ---------------- *)
Definition ex_dc0 (p : option (nat * node)) (kids : list node) (c : Z) : rec :=
  {| asg := if Z.even c then hd 0 kids else last kids 0; prob := (3, 4); corr := Some (1, 2);
     runners := []; agg := one |}.
Lemma ex_dc_ok :
  (forall (g : nat) p kids cs, (2 <= length kids)%nat ->
     fst (map (ex_dc0 p kids) cs, S g) = map (ex_dc0 p kids) cs) /\
  (forall p kids c, (2 <= length kids)%nat -> In (asg (ex_dc0 p kids c)) kids).
Proof.
  split; [reflexivity|]. intros p kids c Hk. cbn [ex_dc0 asg].
  destruct kids as [|k0 kids']; [cbn in Hk; lia|].
  destruct (Z.even c); [left; reflexivity | apply last_in; discriminate].
Qed.
