(* The vote model instantiates the abstract decision procedure of the election: the
   hypotheses under which C01 / C03 / C06 are proved about `decide` are met by
   Model/VoteDecide.v:decide_vote, so those theorems hold of the election RUN WITH THE VOTE. *)
From Coq Require Import ZArith List Bool Lia Arith Permutation Sorted.
From CTM Require Import Base.Sx Base.ListX Base.SortX Model.Tree Model.Vote Model.Election Model.PerCell
     Model.VoteDecide Proofs.VoteP Proofs.VoteMainP Proofs.ChooseP Proofs.SubsetP Proofs.ElectionP Proofs.PerCellP.
Import ListNotations.
Open Scope Z_scope.

(* ---------------- the sort ---------------- *)
Lemma vinsert_perm vf x l : Permutation (vinsert vf x l) (x :: l).
Proof.
  induction l as [|y t IH]; cbn; [apply Permutation_refl|].
  destruct (Nat.leb (vf y) (vf x)); [apply Permutation_refl|].
  eapply Permutation_trans; [apply perm_skip; exact IH | apply perm_swap].
Qed.

Lemma vsort_perm vf l : Permutation (vsort vf l) l.
Proof.
  induction l as [|x t IH]; cbn; [constructor|].
  eapply Permutation_trans; [apply vinsert_perm | apply perm_skip; exact IH].
Qed.

Lemma vinsert_desc vf x l : vdesc vf l -> vdesc vf (vinsert vf x l).
Proof.
  unfold vdesc. induction l as [|y t IH]; intros H; cbn.
  - repeat constructor.
  - cbn [map] in H. apply StronglySorted_inv in H. destruct H as [H1 H2].
    destruct (Nat.leb_spec (vf y) (vf x)) as [Hle | Hlt]; cbn [map].
    + constructor; [constructor; assumption|].
      constructor; [exact Hle|]. rewrite Forall_forall in *. intros v Hv. specialize (H2 v Hv). unfold ge' in *. lia.
    + constructor; [apply IH; exact H1|].
      apply Forall_forall. intros v Hv. apply in_map_iff in Hv. destruct Hv as (z & <- & Hz).
      apply (Permutation_in _ (vinsert_perm vf x t)) in Hz. destruct Hz as [<- | Hz].
      * unfold ge'. lia.
      * rewrite Forall_forall in H2. apply H2. apply in_map. exact Hz.
Qed.

Lemma vsort_desc vf l : vdesc vf (vsort vf l).
Proof. induction l as [|x t IH]; cbn; [constructor | apply vinsert_desc; exact IH]. Qed.

(* ---------------- the vote always produces a record naming a child ---------------- *)
Lemma argmax_some ks : ks <> [] -> exists w, argmax ks = Some w.
Proof. destruct ks as [|k t]; [congruence | cbn; eauto]. Qed.

Lemma nearest_some q refs S : refs <> [] -> exists w, nearest q refs S = Some w.
Proof. intros H. unfold nearest. apply argmax_some. destruct refs; [congruence | discriminate]. Qed.

Lemma tally_some q refs subsets : refs <> [] -> exists winners, tally q refs subsets = Some winners.
Proof.
  intros H. unfold tally. induction subsets as [|S t IH]; cbn; [eauto|].
  destruct (nearest_some q refs S H) as (w & ->). destruct IH as (ws & ->). eauto.
Qed.

Lemma choose_with_in order vf n w wv rs :
  choose_with order vf n = Some (w, wv, rs) -> In w order.
Proof.
  unfold choose_with. destruct (firstn (Nat.min n (length order)) order) as [|w0 rest] eqn:E; [discriminate|].
  intros H. injection H as <- _ _. eapply firstn_subset. rewrite E. left. reflexivity.
Qed.

Lemma choose_with_some order vf n : order <> [] -> (1 <= n)%nat -> exists o, choose_with order vf n = Some o.
Proof.
  intros Ho Hn. unfold choose_with. destruct order as [|x t]; [congruence|].
  assert (E : Nat.min n (length (x :: t)) = S (Nat.min (n - 1) (length t))) by (cbn [length]; lia).
  rewrite E. cbn [firstn]. eauto.
Qed.

Section VoteDecideProofs.
Variable cell rng : Type.
Variable refs_at : option (nat * node) -> list vec.
Variable owners_at : option (nat * node) -> list Z.
Variable q_at : cell -> option (nat * node) -> vec.
Variable draw : rng -> option (nat * node) -> list (list nat) * rng.
Variable n_assign : nat.
Variable corr_at : cell -> option (nat * node) -> Z -> frac.
(* every parent at which a vote is held has at least one leaf below it, and at least the winner is reported *)
Hypothesis refs_nonempty : forall p, refs_at p <> [].
Hypothesis n_assign_pos : (1 <= n_assign)%nat.

Notation vote_record := (vote_record cell refs_at owners_at q_at n_assign corr_at).
Notation decide_vote := (decide_vote cell rng refs_at owners_at q_at draw n_assign corr_at).

Lemma vote_record_some p kids subsets c :
  kids <> [] -> exists r, vote_record p kids subsets c = Some r /\ In (asg r) kids.
Proof.
  intros Hk. unfold VoteDecide.vote_record.
  destruct (tally_some (q_at c p) (refs_at p) subsets (refs_nonempty p)) as (winners & ->).
  set (vf := votes_for (owners_at p) winners).
  assert (Ho : vsort vf kids <> []).
  { intros E. apply Hk. pose proof (vsort_perm vf kids) as P. rewrite E in P. apply Permutation_nil. exact P. }
  destruct (choose_with_some (vsort vf kids) vf n_assign Ho n_assign_pos) as ([[w wv] rs] & E). rewrite E.
  eexists. split; [reflexivity|]. cbn [asg].
  apply (Permutation_in _ (vsort_perm vf kids)). eapply choose_with_in. exact E.
Qed.

Lemma decide_vote_spec g p kids cs : kids <> [] ->
  exists rs, fst (decide_vote g p kids cs) = rs /\ length rs = length cs /\ Forall (fun r => In (asg r) kids) rs /\
             rs = map (fun c => match vote_record p kids (fst (draw g p)) c with Some r => r | None => trivial_rec 0 end) cs.
Proof.
  intros Hk. unfold VoteDecide.decide_vote. destruct (draw g p) as [subsets g'] eqn:Ed. cbn [fst].
  eexists. split; [reflexivity|].
  induction cs as [|c t IH]; cbn [flat_map map length]; [repeat split; constructor|].
  destruct (vote_record_some p kids subsets c Hk) as (r & Er & Hin). rewrite Er. cbn [app].
  destruct IH as (IH1 & IH2 & IH3). repeat split.
  - cbn [length]. f_equal. exact IH1.
  - constructor; assumption.
  - f_equal. exact IH3.
Qed.

Lemma kids_of_two (kids : list node) : (2 <= length kids)%nat -> kids <> [].
Proof. destruct kids; cbn; [lia | discriminate]. Qed.

(* the two hypotheses of the routing theorems *)
Theorem decide_vote_len : forall g p kids cs, (2 <= length kids)%nat -> length (fst (decide_vote g p kids cs)) = length cs.
Proof. intros g p kids cs H. destruct (decide_vote_spec g p kids cs (kids_of_two kids H)) as (rs & <- & Hl & _). exact Hl. Qed.

Theorem decide_vote_kids : forall g p kids cs, (2 <= length kids)%nat ->
  Forall (fun r => In (asg r) kids) (fst (decide_vote g p kids cs)).
Proof. intros g p kids cs H. destruct (decide_vote_spec g p kids cs (kids_of_two kids H)) as (rs & <- & _ & Hf & _). exact Hf. Qed.

(* hence: the election run with the vote maps every cell onto a root-to-leaf path, and never fails *)
Theorem vote_election_total t cells g : tree_ok t ->
  exists rows g', run_type_assignment cell rng decide_vote t cells g = Ok (rows, g') /\
                  spec_routing t (length cells) rows = true.
Proof.
  intros Ht.
  destruct (routing_total cell rng decide_vote decide_vote_len decide_vote_kids t cells g Ht) as (rows & g' & E).
  exists rows, g'. split; [exact E|].
  exact (routing_sound cell rng decide_vote decide_vote_kids t cells g rows g' Ht E).
Qed.

(* every record of a vote is an outcome the acceptor accepts (so the whole C03 contract holds of it) *)
Theorem vote_record_accepted p kids subsets c r winners :
  NoDup kids -> vote_record p kids subsets c = Some r ->
  tally (q_at c p) (refs_at p) subsets = Some winners ->
  exists wv rs, check_choice kids (votes_for (owners_at p) winners) n_assign (asg r) wv rs = true /\
                prob r = (Z.of_nat wv, Z.of_nat (length subsets)) /\
                map (fun x => fst (fst x)) (runners r) = map fst rs.
Proof.
  intros ND Hr Ht. unfold VoteDecide.vote_record in Hr. rewrite Ht in Hr.
  set (vf := votes_for (owners_at p) winners) in *.
  destruct (choose_with (vsort vf kids) vf n_assign) as [[[w wv] rs]|] eqn:E; [|discriminate].
  injection Hr as <-. exists wv, rs. cbn [asg prob runners]. split; [|split; [reflexivity|]].
  - apply (choose_meets_spec vf kids (vsort vf kids) n_assign w wv rs ND (vsort_perm vf kids) (vsort_desc vf kids) n_assign_pos E).
  - rewrite map_map. reflexivity.
Qed.

(* ---------------- bootstrap factor 1: the vote is per-cell, so C06 applies to it ---------------- *)
Variable n_markers : option (nat * node) -> nat.
Variable iters : nat.
Hypothesis draw_factor_one : forall g p,
  Forall (sorted_draw (n_markers p)) (fst (draw g p)) /\ length (fst (draw g p)) = iters.

Definition dc_vote (p : option (nat * node)) (kids : list node) (c : cell) : rec :=
  match vote_record p kids (repeat (seq 0 (n_markers p)) iters) c with Some r => r | None => trivial_rec 0 end.

Lemma tally_factor_one q refs n subsets :
  Forall (sorted_draw n) subsets -> tally q refs subsets = tally q refs (repeat (seq 0 n) (length subsets)).
Proof.
  intros H. rewrite (factor_one_tally q refs n subsets H).
  assert (H' : Forall (sorted_draw n) (repeat (seq 0 n) (length subsets))).
  { apply Forall_forall. intros S HS. apply repeat_spec in HS. subst S.
    exists (seq 0 n). split; [|split; [apply Permutation_refl | apply seq_sorted]].
    apply subset_ok_spec. rewrite seq_length, n_bootstrap_one. split; [reflexivity|]. split.
    - apply Forall_forall. intros j Hj. apply in_seq in Hj. lia.
    - apply seq_NoDup. }
  rewrite (factor_one_tally q refs n _ H'), repeat_length.
  destruct (nearest q refs (seq 0 n)); [reflexivity|]. destruct subsets; reflexivity.
Qed.

Lemma vote_record_factor_one g p kids c :
  vote_record p kids (fst (draw g p)) c = vote_record p kids (repeat (seq 0 (n_markers p)) iters) c.
Proof.
  destruct (draw_factor_one g p) as [HF Hl]. unfold VoteDecide.vote_record.
  rewrite (tally_factor_one (q_at c p) (refs_at p) (n_markers p) (fst (draw g p)) HF), Hl, repeat_length. reflexivity.
Qed.

Theorem decide_vote_per_cell : forall g p kids cs, (2 <= length kids)%nat ->
  fst (decide_vote g p kids cs) = map (dc_vote p kids) cs.
Proof.
  intros g p kids cs H. destruct (decide_vote_spec g p kids cs (kids_of_two kids H)) as (rs & <- & _ & _ & E).
  rewrite E. apply map_ext. intros c. unfold dc_vote. rewrite vote_record_factor_one. reflexivity.
Qed.

Theorem dc_vote_kids : forall p kids c, (2 <= length kids)%nat -> In (asg (dc_vote p kids c)) kids.
Proof.
  intros p kids c H. unfold dc_vote.
  destruct (vote_record_some p kids (repeat (seq 0 (n_markers p)) iters) c (kids_of_two kids H)) as (r & -> & Hin). exact Hin.
Qed.

(* the election run with the vote at factor 1 is the per-cell recursion: a cell's rows do not depend
   on the generator, on the other cells, or on how the query was chunked *)
Theorem vote_election_per_cell t cells g rows g' : tree_ok t ->
  run_type_assignment cell rng decide_vote t cells g = Ok (rows, g') ->
  rows = map (map_one cell dc_vote t) cells.
Proof. intros Ht H. exact (per_cell cell rng decide_vote dc_vote decide_vote_per_cell dc_vote_kids t cells g rows g' Ht H). Qed.
End VoteDecideProofs.
