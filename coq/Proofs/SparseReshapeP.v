(* Lemmas about the reshaping / copying part of Model/Sparse.v:
   _get_slices_for_copy and the hyperslab copies of copy_h5_excluding_data. *)
From Coq Require Import List Arith ZArith Lia Bool.
From CTM Require Import Base.Sx Base.ListX Model.Sparse Proofs.SparseP.
Import ListNotations.

(* one dimension: the slices start at 0, are contiguous, non-empty, end at n, and
   cutting any list of length n along them and gluing the pieces gives the list back *)
Definition tiles_once (n : nat) (chs : list (nat * nat)) : Prop :=
  chained 0 chs n /\
  forall (A : Type) (l : list A), length l = n ->
    concat (map (fun ch => slice l (fst ch) (snd ch)) chs) = l.

Lemma range_chunks_tiles n c : 1 <= c -> tiles_once n (range_chunks n c).
Proof.
  intros Hc. split.
  - unfold range_chunks. apply (range_chunks_from_chained n 0 n c); lia.
  - intros A l <-. apply range_chunks_cover. exact Hc.
Qed.

Theorem slices_partition shape per_dim :
  Forall2 tiles_once shape (slices_for_copy shape per_dim).
Proof.
  unfold slices_for_copy. induction shape as [|n t IH]; cbn [map]; constructor; [|exact IH].
  apply range_chunks_tiles. lia.
Qed.

Theorem copy_h5_1d_exact {A} (l : list A) max_elements : copy_h5_1d l max_elements = l.
Proof.
  unfold copy_h5_1d, slices_for_copy. cbn [map]. apply range_chunks_cover. lia.
Qed.

Lemma copy_tiles_exact (d : dense) nr nc rs cs :
  length d = nr -> Forall (fun row => length row = nc) d ->
  tiles_once nr rs -> tiles_once nc cs -> copy_tiles d rs cs = d.
Proof.
  intros HL HR [_ Tr] [_ Tc]. unfold copy_tiles.
  transitivity (concat (map (fun ch => slice d (fst ch) (snd ch)) rs)); [|apply Tr; exact HL].
  f_equal. apply map_ext. intros rc.
  transitivity (map (fun row : list Z => row) (slice d (fst rc) (snd rc))); [|apply map_id].
  apply map_ext_in. intros row Hrow.
  apply Tc. rewrite Forall_forall in HR. apply HR. exact (In_slice _ _ _ _ Hrow).
Qed.

Theorem copy_h5_2d_exact (d : dense) nr nc per_dim :
  length d = nr -> Forall (fun row => length row = nc) d -> copy_h5_2d d nr nc per_dim = d.
Proof.
  intros HL HR. unfold copy_h5_2d, slices_for_copy. cbn [map].
  apply (copy_tiles_exact d nr nc); try assumption; apply range_chunks_tiles; lia.
Qed.

(* _copy_layer_to_x_sparse: an accepted chunked copy of an array is the array *)
Theorem copy_array_exact {A} (l : list A) chunks out : copy_array l chunks = Ok out -> out = l.
Proof.
  unfold copy_array. destruct chunks as [c|]; [|intros H; inversion H; reflexivity].
  destruct (length l <? c); [intros H; inversion H; reflexivity|].
  destruct (chunk_ok (length l) c) eqn:E; [|discriminate]. intros H. inversion H; subst.
  apply range_chunks_cover. unfold chunk_ok in E. apply andb_true_iff in E. destruct E as [E _].
  apply Nat.ltb_lt in E. lia.
Qed.

(* ... and it is accepted for every array - the empty one included, which used to be
   refused (finding F-copy-layer-empty-sparse) - and every chunk shape HDF5 can report
   (a chunk dimension is at least 1) *)
Theorem copy_array_total {A} (l : list A) chunks :
  (forall c, chunks = Some c -> 1 <= c) -> copy_array l chunks = Ok l.
Proof.
  intros Hc.
  assert (E : exists out, copy_array l chunks = Ok out).
  { unfold copy_array. destruct chunks as [c|]; [|eexists; reflexivity].
    specialize (Hc c eq_refl).
    destruct (length l <? c) eqn:E1; [eexists; reflexivity|]. apply Nat.ltb_ge in E1.
    unfold chunk_ok.
    replace (0 <? c) with true by (symmetry; apply Nat.ltb_lt; lia).
    replace (c <=? length l) with true by (symmetry; apply Nat.leb_le; exact E1).
    cbn [andb]. eexists; reflexivity. }
  destruct E as (out & E). rewrite E. f_equal. exact (copy_array_exact l chunks out E).
Qed.

Theorem copy_dense_exact (d : dense) nr nc chunks out :
  length d = nr -> Forall (fun row => length row = nc) d ->
  copy_dense d nr nc chunks = Ok out -> out = d.
Proof.
  intros HL HR. unfold copy_dense.
  set (ch := match chunks with Some c => c | None => _ end).
  destruct (chunk_ok nr (fst ch) && chunk_ok nc (snd ch)) eqn:E; [|discriminate].
  intros H. inversion H; subst out. apply andb_true_iff in E. destruct E as [E1 E2].
  unfold chunk_ok in E1, E2. apply andb_true_iff in E1, E2. destruct E1 as [E1 _]. destruct E2 as [E2 _].
  apply Nat.ltb_lt in E1, E2.
  apply (copy_tiles_exact d nr nc); try assumption; apply range_chunks_tiles; lia.
Qed.
