(* Facts about the vote model (C02, C03, C18). *)
From Coq Require Import ZArith List Bool Lia Arith Permutation.
From CTM Require Import Base.Sx Base.ListX Base.SortX Model.IntDtype Model.Vote.
Import ListNotations.
Open Scope Z_scope.

(* ---------- zdistinct ---------- *)
Lemma zdistinct_in x l : In x (zdistinct l) <-> In x l.
Proof.
  induction l as [|y t IH]; cbn; [tauto|].
  rewrite filter_In, IH. split.
  - intros [H | [H _]]; auto.
  - intros [H | H]; [auto|].
    destruct (Z.eq_dec y x) as [E|E]; [auto|]. right. split; [exact H|].
    apply negb_true_iff. apply Z.eqb_neq. exact E.
Qed.

Lemma zdistinct_nodup l : NoDup (zdistinct l).
Proof.
  induction l as [|y t IH]; cbn; [constructor|].
  constructor.
  - rewrite filter_In. intros [_ H]. rewrite Z.eqb_refl in H. discriminate.
  - apply NoDup_filter. exact IH.
Qed.

(* ---------- every iteration casts exactly one vote ---------- *)
Definition nsum (l : list nat) : nat := fold_right Nat.add 0%nat l.

Lemma count_app {A} (f : A -> bool) l1 l2 : count f (l1 ++ l2) = (count f l1 + count f l2)%nat.
Proof. unfold count. rewrite filter_app, app_length. reflexivity. Qed.

(* one winner contributes to exactly one child of a duplicate-free list containing its owner *)
Lemma one_vote (kids : list Z) (o : Z) :
  NoDup kids -> In o kids ->
  nsum (map (fun c => if o =? c then 1%nat else 0%nat) kids) = 1%nat.
Proof.
  induction kids as [|k t IH]; intros ND Hin; [destruct Hin|].
  inversion ND; subst. cbn [map nsum fold_right].
  destruct (o =? k) eqn:E.
  - apply Z.eqb_eq in E. subst k.
    assert (Hz : nsum (map (fun c => if o =? c then 1%nat else 0%nat) t) = 0%nat).
    { clear -H1. induction t as [|y t IH]; cbn; [reflexivity|].
      destruct (o =? y) eqn:E; [apply Z.eqb_eq in E; subst; exfalso; apply H1; left; reflexivity|].
      apply IH. intros H. apply H1. right. exact H. }
    unfold nsum in *. rewrite Hz. reflexivity.
  - apply Z.eqb_neq in E. destruct Hin as [H | H]; [congruence|].
    unfold nsum in *. rewrite IH by assumption. reflexivity.
Qed.

Lemma nsum_map_add {A} (f g : A -> nat) l :
  nsum (map (fun x => (f x + g x)%nat) l) = (nsum (map f l) + nsum (map g l))%nat.
Proof. induction l as [|x t IH]; cbn; [reflexivity|]. unfold nsum in *. rewrite IH. lia. Qed.

Lemma votes_total (owners : list Z) (winners : list nat) :
  Forall (fun w => (w < length owners)%nat) winners ->
  nsum (map (votes_for owners winners) (zdistinct owners)) = length winners.
Proof.
  induction winners as [|w t IH]; intros H.
  - unfold votes_for, count. cbn. induction (zdistinct owners); cbn; auto.
  - inversion H; subst.
    assert (E : forall c, votes_for owners (w :: t) c =
                          ((if (nth w owners (-1) =? c)%Z then 1 else 0) + votes_for owners t c)%nat).
    { intros c. unfold votes_for, count. cbn [filter]. destruct (nth w owners (-1) =? c); reflexivity. }
    rewrite (map_ext _ _ E). rewrite nsum_map_add. rewrite IH by assumption.
    rewrite one_vote; [reflexivity | apply zdistinct_nodup |].
    apply zdistinct_in. apply nth_In. assumption.
Qed.

(* ---------- consequences of the executable statement ---------- *)
Lemma nsum_ge_member (f : Z -> nat) (l : list Z) x : In x l -> (f x <= nsum (map f l))%nat.
Proof.
  induction l as [|y t IH]; intros H; [destruct H|]. cbn. unfold nsum in *.
  destruct H as [-> | H]; [lia|]. specialize (IH H). lia.
Qed.

Lemma nsum_bound (f : Z -> nat) (l : list Z) b :
  (forall x, In x l -> (f x <= b)%nat) -> (nsum (map f l) <= length l * b)%nat.
Proof.
  induction l as [|y t IH]; intros H; cbn; [lia|]. unfold nsum in *.
  pose proof (H y (or_introl eq_refl)). specialize (IH (fun x Hx => H x (or_intror Hx))). lia.
Qed.

(* sum over a duplicate-free sub-list is bounded by the sum over the whole *)
Lemma nsum_app a b : nsum (a ++ b) = (nsum a + nsum b)%nat.
Proof. induction a as [|x a IH]; cbn; [reflexivity|]. unfold nsum in *. rewrite IH. lia. Qed.
Lemma nsum_cons x a : nsum (x :: a) = (x + nsum a)%nat.
Proof. reflexivity. Qed.

Lemma nsum_sub (f : Z -> nat) (sub all : list Z) :
  NoDup sub -> (forall x, In x sub -> In x all) -> (nsum (map f sub) <= nsum (map f all))%nat.
Proof.
  revert all. induction sub as [|x t IH]; intros all ND Hsub.
  - cbn. lia.
  - inversion ND; subst.
    assert (Hx : In x all) by (apply Hsub; left; reflexivity).
    apply in_split in Hx. destruct Hx as (l1 & l2 & ->).
    assert (Hs : forall y, In y t -> In y (l1 ++ l2)).
    { intros y Hy. specialize (Hsub y (or_intror Hy)). rewrite in_app_iff in *. cbn in Hsub.
      destruct Hsub as [H | [H | H]]; auto. subst. contradiction. }
    specialize (IH (l1 ++ l2) H2 Hs).
    rewrite map_app, nsum_app in IH. rewrite map_app, nsum_app.
    change (map f (x :: t)) with (f x :: map f t). change (map f (x :: l2)) with (f x :: map f l2).
    rewrite !nsum_cons. lia.
Qed.

Section Checked.
Variables (kids : list Z) (vf : Z -> nat) (n_assign : nat) (w : Z) (wv : nat) (rs : list (Z * nat)).
Variable iters : nat.
Hypothesis Hcheck : check_choice kids vf n_assign w wv rs = true.
Hypothesis Hkids : NoDup kids.
Hypothesis Htotal : nsum (map vf kids) = iters.

Lemma check_unpack :
  In w kids /\ vf w = wv /\ (forall c, In c kids -> (vf c <= wv)%nat) /\
  NoDup (w :: map fst rs) /\
  (forall r, In r rs -> In (fst r) kids /\ vf (fst r) = snd r /\ (0 < snd r)%nat) /\
  sorted_desc (wv :: map snd rs) = true /\
  length rs = Nat.min (n_assign - 1) (count (fun c => negb (c =? w) && Nat.ltb 0 (vf c)) kids) /\
  (forall c, In c kids -> In c (w :: map fst rs) \/ (vf c <= last (map snd rs) wv)%nat).
Proof.
  pose proof Hcheck as HC. unfold check_choice in HC.
  apply andb_true_iff in HC. destruct HC as [HC H8].
  apply andb_true_iff in HC. destruct HC as [HC H7].
  apply andb_true_iff in HC. destruct HC as [HC H6].
  apply andb_true_iff in HC. destruct HC as [HC H5].
  apply andb_true_iff in HC. destruct HC as [HC H4].
  apply andb_true_iff in HC. destruct HC as [HC H3].
  apply andb_true_iff in HC. destruct HC as [H1 H2].
  split; [apply zmem_in; exact H1|].
  split; [apply Nat.eqb_eq; exact H2|].
  split.
  { intros c Hc. rewrite forallb_forall in H3. specialize (H3 c Hc). apply Nat.leb_le in H3. exact H3. }
  split; [apply znodup_b_spec; exact H4|].
  split.
  { intros r Hr. rewrite forallb_forall in H5. specialize (H5 r Hr).
    apply andb_true_iff in H5. destruct H5 as [H5 H5c]. apply andb_true_iff in H5. destruct H5 as [H5a H5b].
    split; [apply zmem_in; exact H5a|]. split; [apply Nat.eqb_eq; exact H5b | apply Nat.ltb_lt; exact H5c]. }
  split; [exact H6|].
  split; [apply Nat.eqb_eq; exact H7|].
  intros c Hc. rewrite forallb_forall in H8. specialize (H8 c Hc). apply orb_true_iff in H8. destruct H8 as [H8 | H8].
  - left. apply zmem_in. exact H8.
  - right. apply Nat.leb_le. exact H8.
Qed.

(* the winner's share is a whole number of votes in (0, iterations] *)
Lemma prob_range : (1 <= iters)%nat -> (1 <= wv <= iters)%nat.
Proof.
  intros Hi. destruct check_unpack as (Hw & Hwv & Hmax & _).
  split.
  - destruct (Nat.eq_dec wv 0) as [E | NE]; [|lia]. exfalso.
    assert (nsum (map vf kids) <= length kids * 0)%nat by (apply nsum_bound; intros x Hx; rewrite <- E; apply Hmax; exact Hx).
    lia.
  - rewrite <- Htotal, <- Hwv. apply nsum_ge_member. exact Hw.
Qed.

(* winner plus runners-up never exceed the iteration count *)
Lemma sum_at_most_one : (wv + nsum (map snd rs) <= iters)%nat.
Proof.
  destruct check_unpack as (Hw & Hwv & _ & Hnd & Hrs & _).
  assert (E : nsum (map snd rs) = nsum (map vf (map fst rs))).
  { clear -Hrs. induction rs as [|r t IH]; cbn; [reflexivity|]. unfold nsum in *.
    rewrite IH by (intros r' Hr'; apply Hrs; right; exact Hr').
    destruct (Hrs r (or_introl eq_refl)) as (_ & Hv & _). rewrite Hv. reflexivity. }
  rewrite E, <- Hwv, <- Htotal.
  change (vf w + nsum (map vf (map fst rs)))%nat with (nsum (map vf (w :: map fst rs))).
  apply nsum_sub; [exact Hnd|].
  intros x [<- | Hx]; [exact Hw|]. apply in_map_iff in Hx. destruct Hx as (r & <- & Hr). apply Hrs. exact Hr.
Qed.

(* shape of the runner-up lists *)
Lemma runner_shape :
  (length rs <= n_assign - 1)%nat /\
  NoDup (map fst rs) /\ ~ In w (map fst rs) /\
  (forall r, In r rs -> In (fst r) kids /\ (0 < snd r <= wv)%nat /\ vf (fst r) = snd r) /\
  sorted_desc (map snd rs) = true.
Proof.
  destruct check_unpack as (Hw & Hwv & Hmax & Hnd & Hrs & Hsorted & Hlen & _).
  split; [rewrite Hlen; apply Nat.le_min_l|].
  inversion Hnd; subst. split; [assumption|]. split; [assumption|].
  split.
  - intros r Hr. destruct (Hrs r Hr) as (Ha & Hb & Hc). split; [exact Ha|]. split; [|exact Hb].
    split; [exact Hc|]. rewrite <- Hb. apply Hmax. exact Ha.
  - cbn [sorted_desc] in Hsorted. destruct (map snd rs) as [|y t]; [reflexivity|].
    apply andb_true_iff in Hsorted. tauto.
Qed.
End Checked.
