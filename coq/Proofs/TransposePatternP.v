(* Lemmas about Model/Transpose.v, part 5: the stored pattern of the output, with or
   without a value array, is the transposed stored pattern of the input. *)
From Coq Require Import List Arith ZArith Lia Bool.
From CTM Require Import Base.Sx Base.ListX Model.Sparse Model.Transpose
  Proofs.SparseP Proofs.TransposeP Proofs.TransposeFillP Proofs.TransposeSpecP.
Import ListNotations.

Lemma existsb_find {A} (f : A -> bool) l :
  existsb f l = match find f l with Some _ => true | None => false end.
Proof. induction l as [|x t IH]; [reflexivity|]. cbn. destruct (f x); [reflexivity | exact IH]. Qed.

Lemma stored_lookup m j x : stored m j x = match lookup m j x with Some _ => true | None => false end.
Proof. unfold stored, lookup. rewrite existsb_find. destruct (find _ _); reflexivity. Qed.

(* the same pointer and index arrays with a zero value array of the right length *)
Definition zero_values (m : comp) : comp :=
  {| ptr := ptr m; idx := idx m; dat := repeat 0%Z (length (idx m)) |}.

Lemma all_entries_zero_values m ud :
  all_entries (zero_values m) true =
  map (fun e => {| e_minor := e_minor e; e_major := e_major e; e_val := 0%Z |}) (all_entries m ud).
Proof.
  unfold all_entries, zero_values. cbn [ptr idx dat]. rewrite map_map. apply map_ext. intros k. cbn.
  f_equal. apply nth_repeat_0.
Qed.

Definition strip (e : entry) : entry := {| e_minor := e_minor e; e_major := e_major e; e_val := 0%Z |}.

Lemma apply_slice_strip sl l : apply_slice sl (map strip l) = map strip (apply_slice sl l).
Proof.
  destruct sl as [s|]; cbn [apply_slice]; [|reflexivity].
  rewrite filter_map_comm, !map_map. apply map_ext. reflexivity.
Qed.

Lemma out_row_strip l r : out_row (map strip l) r = map strip (out_row l r).
Proof. unfold out_row. apply filter_map_comm. Qed.

Lemma spec_entries_strip l n : spec_entries (map strip l) n = map strip (spec_entries l n).
Proof.
  unfold spec_entries. rewrite concat_map, map_map. f_equal. apply map_ext. intros r. apply out_row_strip.
Qed.

Lemma spec_pattern m ud imax sl :
  ptr (transpose_spec m ud imax sl) = ptr (transpose_spec (zero_values m) true imax sl) /\
  idx (transpose_spec m ud imax sl) = idx (transpose_spec (zero_values m) true imax sl).
Proof.
  unfold transpose_spec. cbn [ptr idx]. rewrite (all_entries_zero_values m ud).
  change (fun e => {| e_minor := e_minor e; e_major := e_major e; e_val := 0%Z |}) with strip.
  rewrite apply_slice_strip. split.
  - f_equal. f_equal. apply map_ext. intros r. rewrite out_row_strip, map_length. reflexivity.
  - rewrite spec_entries_strip, map_map. apply map_ext. reflexivity.
Qed.

Lemma stored_ext m1 m2 j x : ptr m1 = ptr m2 -> idx m1 = idx m2 -> stored m1 j x = stored m2 j x.
Proof. intros Hp Hi. unfold stored, span. rewrite Hp, Hi. reflexivity. Qed.

(* (r, j) is stored in the output iff (j, lo + r) is stored in the input *)
Theorem spec_stored m nm ud imax sl r j :
  wf_comp m nm -> (sl = None -> Forall (fun x => x < imax) (idx m)) ->
  r < n_out_of imax sl -> S j < length (ptr m) ->
  stored (transpose_spec m ud imax sl) r j = stored m j (slice_lo sl + r).
Proof.
  intros W Hi Hr Hj. destruct (spec_pattern m ud imax sl) as [Ep Ei].
  rewrite (stored_ext _ _ r j Ep Ei), !stored_lookup.
  rewrite (spec_lookup (zero_values m) nm imax sl r j); try assumption.
  - unfold lookup, span, zero_values. cbn [ptr idx dat]. destruct (find _ _); reflexivity.
  - cbn. apply repeat_length.
Qed.
