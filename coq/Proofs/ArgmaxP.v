(* key_lt is a strict weak order on keys with positive variance, hence argmax
   returns the FIRST index whose key is maximal (np.argmax). *)
From Coq Require Import ZArith List Bool Lia Arith.
From CTM Require Import Base.Sx Model.Vote Proofs.CorrP.
Import ListNotations.
Open Scope Z_scope.

Definition kvalid (k : Z * Z) : Prop := 0 < snd k.

Definition klt (k1 k2 : Z * Z) : Prop :=
  let (c1, v1) := k1 in let (c2, v2) := k2 in
  (c1 < 0 /\ 0 <= c2) \/
  (c1 < 0 /\ c2 < 0 /\ c2 * c2 * v1 < c1 * c1 * v2) \/
  (0 <= c1 /\ 0 <= c2 /\ c1 * c1 * v2 < c2 * c2 * v1).

Lemma key_lt_spec k1 k2 : key_lt k1 k2 = true <-> klt k1 k2.
Proof.
  destruct k1 as [c1 v1], k2 as [c2 v2]. unfold key_lt, klt.
  destruct (c1 <? 0) eqn:E1; destruct (c2 <? 0) eqn:E2;
    try apply Z.ltb_lt in E1; try apply Z.ltb_ge in E1; try apply Z.ltb_lt in E2; try apply Z.ltb_ge in E2.
  - rewrite Z.ltb_lt. split; [intros H; right; left; lia | intros [H | [H | H]]; lia].
  - split; [intros _; left; lia | reflexivity].
  - split; [discriminate | intros [H | [H | H]]; lia].
  - rewrite Z.ltb_lt. split; [intros H; right; right; lia | intros [H | [H | H]]; lia].
Qed.

Lemma cross_trans a b c v1 v2 v3 : 0 < v1 -> 0 < v2 -> 0 < v3 ->
  a * v2 < b * v1 -> b * v3 < c * v2 -> a * v3 < c * v1.
Proof.
  intros H1 H2 H3 Hab Hbc.
  assert (A : a * v2 * v3 < b * v1 * v3) by (apply Z.mul_lt_mono_pos_r; assumption).
  assert (B : b * v3 * v1 < c * v2 * v1) by (apply Z.mul_lt_mono_pos_r; assumption).
  apply (Z.mul_lt_mono_pos_r v2); [assumption|]. lia.
Qed.

Lemma cross_trans_le a b c v1 v2 v3 : 0 < v1 -> 0 < v2 -> 0 < v3 ->
  b * v1 <= a * v2 -> a * v3 < c * v1 -> b * v3 < c * v2.
Proof.
  intros H1 H2 H3 Hab Hac.
  assert (A : b * v1 * v3 <= a * v2 * v3) by (apply Z.mul_le_mono_nonneg_r; lia).
  assert (B : a * v3 * v2 < c * v1 * v2) by (apply Z.mul_lt_mono_pos_r; assumption).
  apply (Z.mul_lt_mono_pos_r v1); [assumption|]. lia.
Qed.

Lemma klt_irrefl k : ~ klt k k.
Proof. destruct k as [c v]. unfold klt. lia. Qed.

Lemma klt_trans k1 k2 k3 : kvalid k1 -> kvalid k2 -> kvalid k3 -> klt k1 k2 -> klt k2 k3 -> klt k1 k3.
Proof.
  destruct k1 as [c1 v1], k2 as [c2 v2], k3 as [c3 v3]. unfold kvalid, klt. cbn [snd].
  intros V1 V2 V3 H12 H23.
  destruct H12 as [H12 | [H12 | H12]]; destruct H23 as [H23 | [H23 | H23]]; try lia.
  - right. left. split; [lia|]. split; [lia|].
    destruct H12 as (? & ? & A). destruct H23 as (? & ? & B).
    apply (cross_trans (c3 * c3) (c2 * c2) (c1 * c1) v3 v2 v1); lia.
  - right. right. split; [lia|]. split; [lia|].
    destruct H12 as (? & ? & A). destruct H23 as (? & ? & B).
    apply (cross_trans (c1 * c1) (c2 * c2) (c3 * c3) v1 v2 v3); lia.
Qed.

Lemma lt_le_chain p q r x y z : 0 < x -> 0 < y -> 0 < z ->
  p * x < q * z -> q * y <= r * x -> p * y < r * z.
Proof.
  intros Hx Hy Hz A B.
  assert (A' : p * x * y < q * z * y) by (apply Z.mul_lt_mono_pos_r; assumption).
  assert (B' : q * y * z <= r * x * z) by (apply Z.mul_le_mono_nonneg_r; lia).
  apply (Z.mul_lt_mono_pos_r x); [assumption|]. lia.
Qed.

Lemma le_lt_chain p q r x y z : 0 < x -> 0 < y -> 0 < z ->
  p * x <= q * y -> q * z < r * x -> p * z < r * y.
Proof.
  intros Hx Hy Hz A B.
  assert (A' : p * x * z <= q * y * z) by (apply Z.mul_le_mono_nonneg_r; lia).
  assert (B' : q * z * y < r * x * y) by (apply Z.mul_lt_mono_pos_r; assumption).
  apply (Z.mul_lt_mono_pos_r x); [assumption|]. lia.
Qed.

(* not (a < b)  and  a < c   give   b < c *)
Lemma klt_neg_trans k1 k2 k3 : kvalid k1 -> kvalid k2 -> kvalid k3 ->
  ~ klt k1 k2 -> klt k1 k3 -> klt k2 k3.
Proof.
  destruct k1 as [c1 v1], k2 as [c2 v2], k3 as [c3 v3]. unfold kvalid, klt. cbn [snd].
  intros V1 V2 V3 N12 H13.
  destruct (Z.lt_ge_cases c2 0) as [S2 | S2]; destruct (Z.lt_ge_cases c3 0) as [S3 | S3].
  - right. left. split; [lia|]. split; [lia|].
    destruct H13 as [H | [H | H]]; [lia | | lia].
    destruct H as (S1 & _ & A).
    assert (B : c1 * c1 * v2 <= c2 * c2 * v1).
    { destruct (Z.lt_ge_cases (c2 * c2 * v1) (c1 * c1 * v2)) as [C | C]; [|lia].
      exfalso. apply N12. right. left. lia. }
    apply (lt_le_chain (c3 * c3) (c1 * c1) (c2 * c2) v1 v2 v3); lia.
  - left. lia.
  - exfalso. destruct H13 as [H | [H | H]]; [lia | | lia]. apply N12. left. lia.
  - right. right. split; [lia|]. split; [lia|].
    destruct (Z.lt_ge_cases c1 0) as [S1 | S1]; [exfalso; apply N12; left; lia|].
    destruct H13 as [H | [H | H]]; [lia | lia |].
    destruct H as (_ & _ & A).
    assert (B : c2 * c2 * v1 <= c1 * c1 * v2).
    { destruct (Z.lt_ge_cases (c1 * c1 * v2) (c2 * c2 * v1)) as [C | C]; [|lia].
      exfalso. apply N12. right. right. lia. }
    apply (le_lt_chain (c2 * c2) (c1 * c1) (c3 * c3) v1 v2 v3); lia.
Qed.

(* ---------- argmax ---------- *)
Lemma argmax_from_spec ks : forall best bk i (pre : list (Z * Z)),
  length pre = i -> (best < i)%nat -> nth_error pre best = Some bk ->
  Forall kvalid pre -> Forall kvalid ks ->
  (forall j kj, nth_error pre j = Some kj -> key_lt bk kj = false) ->
  (forall j kj, (j < best)%nat -> nth_error pre j = Some kj -> key_lt kj bk = true) ->
  let r := argmax_from best bk i ks in
  (r < i + length ks)%nat /\
  exists rk, nth_error (pre ++ ks) r = Some rk /\
    (forall j kj, nth_error (pre ++ ks) j = Some kj -> key_lt rk kj = false) /\
    (forall j kj, (j < r)%nat -> nth_error (pre ++ ks) j = Some kj -> key_lt kj rk = true).
Proof.
  induction ks as [|k t IH]; intros best bk i pre Hlen Hb Hbk Vpre Vks Hmax Hfirst; cbn [argmax_from].
  - cbn. rewrite app_nil_r. split; [cbn; lia|]. exists bk. auto.
  - inversion Vks as [|? ? Vk Vt]; subst.
    assert (Vbk : kvalid bk).
    { rewrite Forall_forall in Vpre. apply Vpre. eapply nth_error_In. exact Hbk. }
    assert (Happ : pre ++ k :: t = (pre ++ [k]) ++ t) by (rewrite <- app_assoc; reflexivity).
    assert (Vpre' : Forall kvalid (pre ++ [k])) by (apply Forall_app; split; [exact Vpre | constructor; [exact Vk | constructor]]).
    assert (Hlen' : length (pre ++ [k]) = S (length pre)) by (rewrite app_length; cbn; lia).
    destruct (key_lt bk k) eqn:E.
    + (* the new element takes over *)
      specialize (IH (length pre) k (S (length pre)) (pre ++ [k]) Hlen' ltac:(lia)).
      rewrite nth_error_app2 in IH by lia. rewrite Nat.sub_diag in IH. specialize (IH eq_refl Vpre' Vt).
      rewrite Happ. cbn [length]. replace (length pre + S (length t))%nat with (S (length pre) + length t)%nat by lia.
      apply IH.
      * intros j kj Hj. destruct (Nat.lt_ge_cases j (length pre)) as [Hlt | Hge].
        -- rewrite nth_error_app1 in Hj by exact Hlt.
           destruct (key_lt k kj) eqn:E2; [|reflexivity]. exfalso.
           assert (Vkj : kvalid kj) by (rewrite Forall_forall in Vpre; apply Vpre; eapply nth_error_In; exact Hj).
           pose proof (klt_trans bk k kj Vbk Vk Vkj (proj1 (key_lt_spec _ _) E) (proj1 (key_lt_spec _ _) E2)) as T.
           apply key_lt_spec in T. rewrite (Hmax j kj Hj) in T. discriminate.
        -- rewrite nth_error_app2 in Hj by exact Hge.
           destruct (j - length pre)%nat as [|m] eqn:Em; [|destruct m; discriminate].
           cbn in Hj. inversion Hj; subst kj.
           destruct (key_lt k k) eqn:E2; [|reflexivity]. apply key_lt_spec in E2. exfalso. eapply klt_irrefl; exact E2.
      * intros j kj Hj1 Hj. rewrite nth_error_app1 in Hj by exact Hj1.
        assert (Vkj : kvalid kj) by (rewrite Forall_forall in Vpre; apply Vpre; eapply nth_error_In; exact Hj).
        apply key_lt_spec. apply (klt_neg_trans bk kj k Vbk Vkj Vk).
        -- intros C. apply key_lt_spec in C. rewrite (Hmax j kj Hj) in C. discriminate.
        -- apply key_lt_spec. exact E.
    + specialize (IH best bk (S (length pre)) (pre ++ [k]) Hlen' ltac:(lia)).
      rewrite nth_error_app1 in IH by lia. specialize (IH Hbk Vpre' Vt).
      rewrite Happ. cbn [length]. replace (length pre + S (length t))%nat with (S (length pre) + length t)%nat by lia.
      apply IH.
      * intros j kj Hj. destruct (Nat.lt_ge_cases j (length pre)) as [Hlt | Hge].
        -- rewrite nth_error_app1 in Hj by exact Hlt. eapply Hmax; exact Hj.
        -- rewrite nth_error_app2 in Hj by exact Hge.
           destruct (j - length pre)%nat as [|m] eqn:Em; [|destruct m; discriminate].
           cbn in Hj. inversion Hj; subst kj. exact E.
      * intros j kj Hj1 Hj. rewrite nth_error_app1 in Hj by lia. eapply Hfirst; eauto.
Qed.

(* np.argmax: the first index whose key is maximal *)
Theorem argmax_spec ks r : Forall kvalid ks -> argmax ks = Some r ->
  (r < length ks)%nat /\
  exists rk, nth_error ks r = Some rk /\
    (forall j kj, nth_error ks j = Some kj -> key_lt rk kj = false) /\
    (forall j kj, (j < r)%nat -> nth_error ks j = Some kj -> key_lt kj rk = true).
Proof.
  intros V H. destruct ks as [|k t]; [discriminate|]. cbn in H. inversion H; subst r. clear H.
  inversion V as [|? ? Vk Vt]; subst.
  pose proof (argmax_from_spec t 0%nat k 1%nat [k] eq_refl ltac:(lia) eq_refl
                (Forall_cons _ Vk (Forall_nil _)) Vt) as Spec.
  cbn zeta in Spec. cbn [app] in Spec. cbn [length]. replace (S (length t)) with (1 + length t)%nat by lia.
  apply Spec.
  - intros j kj Hj. destruct j as [|j]; [|destruct j; discriminate]. cbn in Hj. inversion Hj; subst.
    destruct (key_lt kj kj) eqn:E; [|reflexivity]. apply key_lt_spec in E. exfalso. eapply klt_irrefl; exact E.
  - intros j kj Hj. lia.
Qed.

Lemma ckey_valid q r : kvalid (ckey q r).
Proof.
  unfold ckey, kvalid. destruct (ccov r r =? 0) eqn:E; cbn [snd]; [lia|].
  apply Z.eqb_neq in E. pose proof (Proofs.CorrP.ccov_self_nonneg r). lia.
Qed.

(* what key_lt decides: c1/sqrt(v1) < c2/sqrt(v2), i.e. (correlation 1 < correlation 2) once
   the common positive factor (the query's own norm) is cancelled *)
Lemma key_lt_meaning c1 v1 c2 v2 : 0 < v1 -> 0 < v2 ->
  (key_lt (c1, v1) (c2, v2) = true <-> c1 * Z.abs c1 * v2 < c2 * Z.abs c2 * v1).
Proof.
  intros V1 V2. rewrite key_lt_spec. unfold klt.
  destruct (Z.abs_spec c1) as [[P1 ->] | [P1 ->]], (Z.abs_spec c2) as [[P2 ->] | [P2 ->]].
  - split; [intros [H | [H | H]]; nia | intros H; right; right; nia].
  - split; [intros [H | [H | H]]; nia | intros H; exfalso; nia].
  - split; [intros _; nia | intros _; left; lia].
  - split; [intros [H | [H | H]]; nia | intros H; right; left; nia].
Qed.
