(* Lemmas about Model/Transpose.v, part 3: what the specification transpose_spec says
   about the matrix - column of a stored entry (searchsorted), rows of the output,
   order inside the rows, and every stored value at its transposed position. *)
From Coq Require Import List Arith ZArith Lia Bool.
From CTM Require Import Base.Sx Base.ListX Model.Sparse Model.Transpose
  Proofs.SparseP Proofs.TransposeP Proofs.TransposeFillP.
Import ListNotations.

(* ================================================================ small list facts *)
Lemma find_filter {A} (P Q : A -> bool) l : find Q (filter P l) = find (fun x => P x && Q x) l.
Proof.
  induction l as [|x t IH]; [reflexivity|]. cbn [filter find].
  destruct (P x); cbn [andb find]; [destruct (Q x); [reflexivity | exact IH] | exact IH].
Qed.

Lemma find_map {A B} (p : B -> bool) (h : A -> B) l :
  find p (map h l) = option_map h (find (fun x => p (h x)) l).
Proof. induction l as [|x t IH]; [reflexivity|]. cbn. destruct (p (h x)); [reflexivity | exact IH]. Qed.

Lemma find_ext' {A} (f g : A -> bool) l : (forall x, f x = g x) -> find f l = find g l.
Proof. intros H. induction l as [|x t IH]; [reflexivity|]. cbn. rewrite H, IH. reflexivity. Qed.

Lemma filter_map_comm {A B} (p : B -> bool) (h : A -> B) l :
  filter p (map h l) = map h (filter (fun x => p (h x)) l).
Proof. induction l as [|x t IH]; [reflexivity|]. cbn. destruct (p (h x)); cbn; rewrite IH; reflexivity. Qed.

Lemma filter_filter {A} (p q : A -> bool) l : filter q (filter p l) = filter (fun x => p x && q x) l.
Proof.
  induction l as [|x t IH]; [reflexivity|]. cbn [filter].
  destruct (p x); cbn [andb filter]; [destruct (q x); rewrite IH; reflexivity | exact IH].
Qed.

Lemma filter_none {A} (f : A -> bool) l : (forall x, In x l -> f x = false) -> filter f l = [].
Proof.
  induction l as [|x t IH]; intros H; [reflexivity|]. cbn. rewrite (H x) by (left; reflexivity).
  apply IH. intros y Hy. apply H. right. exact Hy.
Qed.

Lemma filter_seq_interval a b n :
  a <= b -> b <= n -> filter (fun k => (a <=? k) && (k <? b)) (seq 0 n) = seq a (b - a).
Proof.
  intros H1 H2. replace n with (a + ((b - a) + (n - b))) by lia.
  rewrite seq_app, seq_app, !filter_app. cbn [Nat.add].
  rewrite filter_none, filter_all, filter_none.
  - replace (a + (b - a)) with b by lia. cbn. apply app_nil_r.
  - intros k Hk. apply in_seq in Hk. apply andb_false_iff. right. apply Nat.ltb_ge. lia.
  - apply Forall_forall. intros k Hk. apply in_seq in Hk. apply andb_true_iff.
    split; [apply Nat.leb_le | apply Nat.ltb_lt]; lia.
  - intros k Hk. apply in_seq in Hk. apply andb_false_iff. left. apply Nat.leb_gt. lia.
Qed.

Lemma NoDup_map_eq {A B} (f : A -> B) l a b :
  NoDup (map f l) -> In a l -> In b l -> f a = f b -> a = b.
Proof.
  induction l as [|x t IH]; intros ND Ha Hb E; [destruct Ha|]. cbn in ND. inversion ND as [|? ? Hn ND']; subst.
  destruct Ha as [<-|Ha]; destruct Hb as [<-|Hb]; [reflexivity| | |apply IH; assumption].
  - exfalso. apply Hn. rewrite E. apply in_map. exact Hb.
  - exfalso. apply Hn. rewrite <- E. apply in_map. exact Ha.
Qed.

(* ================================================================ column of a stored entry *)
Lemma mono_nth_le_gen ps i : forall j, mono ps -> i <= j -> j < length ps -> nth i ps 0 <= nth j ps 0.
Proof.
  induction j as [|j IH]; intros HM Hij Hj.
  - replace i with 0 by lia. lia.
  - destruct (Nat.eq_dec i (S j)) as [->|Hne]; [lia|].
    pose proof (mono_nth_le ps j HM Hj). specialize (IH HM ltac:(lia) ltac:(lia)). lia.
Qed.

Lemma mono_tail x t : mono (x :: t) -> mono t.
Proof. destruct t as [|y t']; [intros _; exact Logic.I | intros [_ H]; exact H]. Qed.

Lemma mono_Forall_ge : forall t x, mono (x :: t) -> Forall (fun y => x <= y) t.
Proof.
  induction t as [|y t' IH]; intros x H; [constructor|]. destruct H as [H1 H2].
  constructor; [exact H1|]. eapply Forall_impl; [|apply IH; exact H2]. cbn. intros; lia.
Qed.

Lemma filter_cons1 {A} (f : A -> bool) x l :
  filter f (x :: l) = if f x then x :: filter f l else filter f l.
Proof. reflexivity. Qed.

(* searchsorted(indptr, k, side='right') = j+1  when  indptr[j] <= k < indptr[j+1] *)
Lemma count_le_unique : forall p j k,
  mono p -> S j < length p -> nth j p 0 <= k < nth (S j) p 0 ->
  length (filter (fun x => x <=? k) p) = S j.
Proof.
  induction p as [|x t IH]; intros j k HM HL Hk; [cbn in HL; lia|].
  destruct j as [|j].
  - destruct t as [|y t']; [cbn in HL; lia|]. cbn [nth] in Hk. rewrite filter_cons1.
    replace (x <=? k) with true by (symmetry; apply Nat.leb_le; lia).
    rewrite (filter_none _ (y :: t')); [reflexivity|].
    intros z Hz. apply Nat.leb_gt. destruct HM as [_ HM2].
    destruct Hz as [<-|Hz]; [lia|].
    pose proof (mono_Forall_ge _ _ HM2) as HF. rewrite Forall_forall in HF. specialize (HF z Hz). lia.
  - pose proof (mono_nth_le_gen (x :: t) 0 (S j) HM ltac:(lia) ltac:(cbn in *; lia)) as H0.
    cbn [nth] in H0, Hk. rewrite filter_cons1.
    replace (x <=? k) with true by (symmetry; apply Nat.leb_le; lia).
    cbn [length]. f_equal. apply IH; [exact (mono_tail _ _ HM) | cbn in HL; lia | exact Hk].
Qed.

Lemma col_exists : forall p k,
  mono p -> hd 1 p <= k -> k < last p 0 ->
  exists j, S j < length p /\ nth j p 0 <= k < nth (S j) p 0.
Proof.
  induction p as [|x t IH]; intros k HM H0 HL; [cbn in *; lia|].
  destruct t as [|y t']; [cbn in *; lia|].
  destruct (le_lt_dec y k) as [Hy|Hy].
  - destruct (IH k (mono_tail _ _ HM) Hy HL) as (j & J1 & J2).
    exists (S j). split; [cbn in *; lia | exact J2].
  - exists 0. cbn in *. lia.
Qed.

Lemma col_spec m nm k :
  wf_comp m nm -> k < length (idx m) ->
  let j := major_of (ptr m) k in S j < length (ptr m) /\ nth j (ptr m) 0 <= k < nth (S j) (ptr m) 0.
Proof.
  intros (H0 & HL & HM & _) Hk. cbn zeta.
  destruct (col_exists (ptr m) k HM ltac:(lia) ltac:(lia)) as (j & J1 & J2).
  unfold major_of. rewrite (count_le_unique (ptr m) j k HM J1 J2). cbn. rewrite Nat.sub_0_r. tauto.
Qed.

(* the positions of column j = the stored entries whose column is j *)
Lemma span_filter m nm j :
  wf_comp m nm -> S j < length (ptr m) ->
  span m j = filter (fun k => major_of (ptr m) k =? j) (seq 0 (length (idx m))).
Proof.
  intros W Hj. pose proof W as (H0 & HL & HM & _). unfold span.
  pose proof (mono_nth_le _ j HM Hj) as Hle.
  pose proof (mono_nth_le_last _ (S j) HM Hj) as Hlast. rewrite HL in Hlast.
  rewrite <- (filter_seq_interval (nth j (ptr m) 0) (nth (S j) (ptr m) 0) (length (idx m)) Hle Hlast).
  apply filter_ext_in. intros k Hk. apply in_seq in Hk.
  apply eq_iff_eq_true. rewrite andb_true_iff, Nat.leb_le, Nat.ltb_lt, Nat.eqb_eq. split.
  - intros Hb. unfold major_of. rewrite (count_le_unique _ j k HM Hj Hb). cbn. apply Nat.sub_0_r.
  - intros <-. apply (col_spec m nm k W). lia.
Qed.

(* ================================================================ rows of the output *)
Definition slice_lo (sl : option (nat * nat)) : nat := match sl with Some s => fst s | None => 0 end.

Lemma shift_minor_0 e : shift_minor 0 e = e.
Proof. destruct e. unfold shift_minor. cbn. rewrite Nat.sub_0_r. reflexivity. Qed.

(* output row r = the entries of input row lo + r, in storage order *)
Lemma out_row_entries es imax sl r :
  r < n_out_of imax sl ->
  out_row (apply_slice sl es) r = map (shift_minor (slice_lo sl)) (out_row es (slice_lo sl + r)).
Proof.
  intros Hr. destruct sl as [[lo hi]|]; cbn [apply_slice slice_lo fst snd n_out_of] in *.
  - unfold out_row. rewrite filter_map_comm, filter_filter. f_equal. apply filter_ext. intros e.
    unfold in_slice, shift_minor. cbn [e_minor fst snd].
    apply eq_iff_eq_true. rewrite !andb_true_iff, Nat.leb_le, Nat.ltb_lt, !Nat.eqb_eq. lia.
  - cbn [Nat.add]. rewrite (map_ext _ (fun e => e) shift_minor_0), map_id. reflexivity.
Qed.

Lemma spec_entries_split Es n r :
  r < n ->
  spec_entries Es n = spec_entries Es r ++ out_row Es r ++ concat (map (out_row Es) (seq (S r) (n - S r))).
Proof.
  intros H. rewrite (spec_entries_app Es r n) by lia. f_equal.
  replace (n - r) with (1 + (n - S r)) by lia. rewrite seq_app, map_app, concat_app. cbn.
  rewrite app_nil_r. f_equal. f_equal. f_equal. f_equal. lia.
Qed.

Lemma spec_row_slice {A} (f : entry -> A) Es n r :
  r < n ->
  slice (map f (spec_entries Es n)) (off Es r) (off Es (S r)) = map f (out_row Es r).
Proof.
  intros H. rewrite (spec_entries_split Es n r H), !map_app, off_S.
  rewrite <- (spec_entries_off Es r), <- (map_length f (spec_entries Es r)), <- (map_length f (out_row Es r)).
  apply slice_mid.
Qed.

(* the rows of the output of the specification *)
Theorem spec_rows m ud imax sl r :
  r < n_out_of imax sl ->
  let out := transpose_spec m ud imax sl in
  let row := out_row (all_entries m ud) (slice_lo sl + r) in
  slice (idx out) (nth r (ptr out) 0) (nth (S r) (ptr out) 0) = map e_major row /\
  (ud = true -> slice (dat out) (nth r (ptr out) 0) (nth (S r) (ptr out) 0) = map e_val row).
Proof.
  intros Hr. cbn zeta. unfold transpose_spec. cbn [ptr idx dat].
  set (Es := apply_slice sl (all_entries m ud)). set (n := n_out_of imax sl) in *.
  fold (cnts Es n). rewrite !nth_iptr by lia.
  assert (ER : out_row Es r = map (shift_minor (slice_lo sl)) (out_row (all_entries m ud) (slice_lo sl + r)))
    by (apply (out_row_entries _ imax); exact Hr).
  split.
  - rewrite spec_row_slice by exact Hr. rewrite ER, map_map. apply map_ext. reflexivity.
  - intros ->. rewrite spec_row_slice by exact Hr. rewrite ER, map_map. apply map_ext. reflexivity.
Qed.

(* ================================================================ order inside a row *)
Lemma esorted_mono l : esorted l -> mono (map e_major l).
Proof.
  induction l as [|x t IH]; intros H; [exact Logic.I|]. destruct H as [HF HS].
  destruct t as [|y t']; [exact Logic.I|]. cbn [map]. split; [inversion HF; assumption | apply IH; exact HS].
Qed.

Fixpoint esorted_lt (l : list entry) : Prop :=
  match l with
  | [] => True
  | x :: t => Forall (fun y => e_major x < e_major y) t /\ esorted_lt t
  end.

Lemma esorted_lt_strict l : esorted_lt l -> strictly_increasing (map e_major l) = true.
Proof.
  induction l as [|x t IH]; intros H; [reflexivity|]. destruct H as [HF HS].
  destruct t as [|y t']; [reflexivity|]. cbn [map]. change (strictly_increasing (e_major x :: e_major y :: map e_major t'))
    with ((e_major x <? e_major y) && strictly_increasing (map e_major (y :: t'))).
  rewrite (IH HS). inversion HF as [|? ? Hy _]; subst.
  replace (e_major x <? e_major y) with true by (symmetry; apply Nat.ltb_lt; exact Hy). reflexivity.
Qed.

Lemma esorted_lt_filter_seq (mk : nat -> entry) (P : entry -> bool) : forall n a,
  (forall k k', a <= k -> k < k' -> k' < a + n -> P (mk k) = true -> P (mk k') = true ->
                e_major (mk k) < e_major (mk k')) ->
  esorted_lt (filter P (map mk (seq a n))).
Proof.
  induction n as [|n IH]; intros a H; [exact Logic.I|]. cbn [seq map filter].
  assert (IHa : esorted_lt (filter P (map mk (seq (S a) n)))).
  { apply IH. intros k k' H1 H2 H3. apply H; lia. }
  destruct (P (mk a)) eqn:Pa; [|exact IHa]. split; [|exact IHa].
  apply Forall_forall. intros y Hy. apply filter_In in Hy. destruct Hy as [Hy Py].
  apply in_map_iff in Hy. destruct Hy as (k' & <- & Hk'). apply in_seq in Hk'.
  apply H; try lia; assumption.
Qed.

(* no column stores a row twice => inside an output row the columns strictly increase *)
Lemma out_row_strict m nm ud x :
  wf_comp m nm -> no_dup_minor m -> esorted_lt (out_row (all_entries m ud) x).
Proof.
  intros W ND. unfold out_row, all_entries. apply esorted_lt_filter_seq.
  intros k k' _ Hkk Hk' Pk Pk'. cbn [e_minor e_major] in *. cbn [Nat.add] in Hk'.
  apply Nat.eqb_eq in Pk, Pk'.
  pose proof (major_of_mono (ptr m) k k' ltac:(lia)) as Hle.
  destruct (Nat.eq_dec (major_of (ptr m) k) (major_of (ptr m) k')) as [E|Hne]; [exfalso | lia].
  destruct (col_spec m nm k W ltac:(lia)) as (J1 & J2).
  destruct (col_spec m nm k' W Hk') as (_ & J2').
  set (j := major_of (ptr m) k) in *. rewrite <- E in J2'.
  specialize (ND j J1).
  assert (Ik : In k (span m j)) by (unfold span; apply in_seq; lia).
  assert (Ik' : In k' (span m j)) by (unfold span; apply in_seq; lia).
  pose proof (NoDup_map_eq _ _ k k' ND Ik Ik' ltac:(congruence)). lia.
Qed.

Lemma esorted_lt_shift lo l : esorted_lt l -> esorted_lt (map (shift_minor lo) l).
Proof.
  induction l as [|x t IH]; intros H; [exact Logic.I|]. destruct H as [HF HS]. cbn [map]. split; [|apply IH; exact HS].
  apply Forall_forall. intros y Hy. apply in_map_iff in Hy. destruct Hy as (y0 & <- & Hy0).
  rewrite Forall_forall in HF. cbn. apply HF. exact Hy0.
Qed.

Theorem spec_rows_sorted m ud imax sl r :
  r < n_out_of imax sl ->
  let out := transpose_spec m ud imax sl in
  let seg := slice (idx out) (nth r (ptr out) 0) (nth (S r) (ptr out) 0) in
  mono seg /\
  (forall nm, wf_comp m nm -> no_dup_minor m -> strictly_increasing seg = true).
Proof.
  intros Hr. cbn zeta. destruct (spec_rows m ud imax sl r Hr) as [E _]. cbn zeta in E. rewrite E. split.
  - apply esorted_mono. unfold out_row. apply esorted_filter. apply all_entries_esorted.
  - intros nm W ND. apply esorted_lt_strict. apply (out_row_strict m nm); assumption.
Qed.

(* ================================================================ values at transposed positions *)
Lemma combine_map2 {A B C} (f : A -> B) (g : A -> C) l :
  combine (map f l) (map g l) = map (fun e => (f e, g e)) l.
Proof. induction l as [|x t IH]; [reflexivity|]. cbn. rewrite IH. reflexivity. Qed.

Theorem spec_lookup m nm imax sl r j :
  wf_comp m nm -> length (dat m) = length (idx m) ->
  (sl = None -> Forall (fun x => x < imax) (idx m)) ->
  r < n_out_of imax sl -> S j < length (ptr m) ->
  lookup (transpose_spec m true imax sl) r j = lookup m j (slice_lo sl + r).
Proof.
  intros W HD Hi Hr Hj.
  destruct (spec_rows m true imax sl r Hr) as [E1 E2]. cbn zeta in E1, E2. specialize (E2 eq_refl).
  destruct (spec_ptr_clauses m true imax sl Hi) as (P0 & PM & PL & PLast & _ & PD).
  cbn zeta in P0, PM, PL, PLast, PD. specialize (PD eq_refl).
  set (out := transpose_spec m true imax sl) in *. set (x := slice_lo sl + r) in *.
  assert (Hr' : S r < length (ptr out)) by lia.
  pose proof (mono_nth_le _ r PM Hr') as Hle.
  pose proof (mono_nth_le_last _ (S r) PM Hr') as Hlast. rewrite PLast in Hlast.
  set (a := nth r (ptr out) 0) in *. set (b := nth (S r) (ptr out) 0) in *.
  unfold lookup at 1. unfold span. fold a b.
  pose proof (find_span_slices (idx out) (dat out) j a (b - a)) as F.
  replace (a + (b - a)) with b in F by lia. rewrite (F ltac:(lia) PD). clear F.
  rewrite E1, E2, combine_map2, find_map.
  unfold out_row at 1. unfold all_entries at 1. rewrite find_filter, find_map.
  cbn [e_minor e_major fst].
  unfold lookup. rewrite (span_filter m nm j W Hj), find_filter.
  rewrite (find_ext' (fun k => (major_of (ptr m) k =? j) && (nth k (idx m) 0 =? x))
                     (fun k => (nth k (idx m) 0 =? x) && (major_of (ptr m) k =? j)))
    by (intros k; apply andb_comm).
  destruct (find _ (seq 0 (length (idx m)))) as [k|]; reflexivity.
Qed.

(* every stored value at its transposed position: the dense view of the output is the
   transpose of the dense view of the input (rows lo .. hi of it for a slice) *)
Theorem spec_dense m nm imax sl :
  wf_comp m nm -> length (dat m) = length (idx m) ->
  (sl = None -> Forall (fun x => x < imax) (idx m)) ->
  let out := transpose_spec m true imax sl in
  (forall r j, r < n_out_of imax sl -> S j < length (ptr m) -> cell out r j = cell m j (slice_lo sl + r)) /\
  dense_of out (n_out_of imax sl) (length (ptr m) - 1) =
  map (fun r => map (fun j => cell m j (slice_lo sl + r)) (seq 0 (length (ptr m) - 1))) (seq 0 (n_out_of imax sl)).
Proof.
  intros W HD Hi. cbn zeta.
  assert (C : forall r j, r < n_out_of imax sl -> S j < length (ptr m) ->
              cell (transpose_spec m true imax sl) r j = cell m j (slice_lo sl + r)).
  { intros r j Hr Hj. unfold cell. rewrite (spec_lookup m nm imax sl r j W HD Hi Hr Hj). reflexivity. }
  split; [exact C|]. unfold dense_of. apply map_ext_in. intros r Hr. apply in_seq in Hr.
  apply map_ext_in. intros j Hj. apply in_seq in Hj. apply C; lia.
Qed.

(* ================================================================ C13: the whole statement *)
Theorem transpose_full m nmaj ud imax sl E L Lc :
  wf_comp m imax -> length (ptr m) = S nmaj ->
  (ud = true -> length (dat m) = length (idx m)) ->
  1 <= L -> 1 <= Lc ->
  exists t, transpose m ud imax sl E L Lc = Ok t /\
    let out := t_out t in
    let n_out := n_out_of imax sl in
    out = transpose_spec m ud imax sl /\
    chained 0 (t_blocks t) n_out /\
    hd 1 (ptr out) = 0 /\ mono (ptr out) /\ length (ptr out) = S n_out /\
    last (ptr out) 0 = length (idx out) /\
    length (idx out) = length (apply_slice sl (all_entries m ud)) /\
    (forall r, r < n_out ->
       let seg := slice (idx out) (nth r (ptr out) 0) (nth (S r) (ptr out) 0) in
       mono seg /\ (no_dup_minor m -> strictly_increasing seg = true)) /\
    (ud = true ->
       length (dat out) = length (idx out) /\
       (forall r j, r < n_out -> j < nmaj -> cell out r j = cell m j (slice_lo sl + r)) /\
       dense_of out n_out nmaj =
       map (fun r => map (fun j => cell m j (slice_lo sl + r)) (seq 0 nmaj)) (seq 0 n_out)).
Proof.
  intros W HP HD HL HLc. pose proof W as (_ & _ & _ & HF).
  destruct (transpose_exact m ud imax sl E L Lc HL HLc HD (fun _ => HF)) as (t & EQ & EO & CH).
  exists t. split; [exact EQ|]. cbn zeta. rewrite EO.
  destruct (spec_ptr_clauses m ud imax sl (fun _ => HF)) as (P0 & PM & PL & PLast & PN & PD).
  cbn zeta in P0, PM, PL, PLast, PN, PD.
  split; [reflexivity|]. split; [exact CH|]. split; [exact P0|]. split; [exact PM|].
  split; [exact PL|]. split; [exact PLast|]. split; [exact PN|]. split.
  - intros r Hr. cbn zeta. destruct (spec_rows_sorted m ud imax sl r Hr) as [S1 S2]. cbn zeta in S1, S2.
    split; [exact S1|]. intros ND. exact (S2 imax W ND).
  - intros ->. split; [apply PD; reflexivity|].
    destruct (spec_dense m imax imax sl W (HD eq_refl) (fun _ => HF)) as [C D]. cbn zeta in C, D.
    rewrite HP in C, D. cbn [Nat.sub] in D. rewrite Nat.sub_0_r in D. split; [|exact D].
    intros r j Hr Hj. apply C; lia.
Qed.
