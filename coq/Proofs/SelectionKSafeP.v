(* C12 for genes_at_a_time = k (Model/SelectionK.v), the clauses that the early stop of a batch gives
   back: the FULL invariant J of SelectionP.v (every chosen gene marks a slot of the parent) is
   preserved by every batch, hence spec_c12 holds on every completed run; and the exact length of a
   batch: min(k, number of genes of positive utility when the batch is formed). *)
From Coq Require Import ZArith List Bool Arith Lia Permutation.
From CTM Require Import Base.Sx Base.ListX Base.SortX Model.Tree Model.Selection Model.SelectionK
                        Proofs.SelectionP Proofs.SelectionKP.
Import ListNotations.
Local Open Scope nat_scope.

Section Safe.
Variable n_genes : nat.
Variable pairs : list nat.
Variable marks : nat -> slot -> bool.
Variable n : nat.
Notation J := (J n_genes pairs marks n).
Notation JK := (JK n_genes pairs marks n).
Notation PI := (PI n_genes).
Notation update_filled := (update_filled n_genes pairs marks n).
Notation start := (start n_genes pairs marks n).
Notation pool0 := (pool0 n_genes pairs marks n).

(* ------------------------------------------------------------------ J is preserved *)
Lemma popk_invJ j : forall st pool batch st2 pool2,
  popk marks j st pool batch = POk st2 pool2 -> J st -> PI st pool -> J st2.
Proof.
  induction j as [|j IH]; intros st pool batch st2 pool2 H HJ HP; cbn [popk] in H.
  - destruct batch as [|g b]; [|discriminate]. inversion H; subst. exact HJ.
  - destruct pool as [|p0 pr] eqn:Ep.
    { destruct batch as [|g b]; [|discriminate]. inversion H; subst. exact HJ. }
    rewrite <- Ep in *.
    destruct batch as [|g b].
    { destruct (exhausted st pool); [|discriminate]. inversion H; subst. exact HJ. }
    destruct (is_top st pool g) eqn:T; [|discriminate].
    destruct (utility st g <=? 0)%Z eqn:U; [discriminate|]. apply Z.leb_gt in U.
    destruct (nmem g (chosen st)) eqn:C; [destruct b; discriminate|].
    apply nmem_false in C. apply is_top_spec in T. destruct T as [T1 T2].
    apply (IH _ _ _ _ _ H).
    + apply J_choose; [exact HJ | exact C | apply (PI_genes _ _ _ HP); exact T1 |].
      destruct (util_pos n_genes pairs marks n st g HJ C U) as (s & H1 & H2 & _). exists s. auto.
    + apply PI_choose. exact HP.
Qed.

Lemma stepk_invJ k st pool b st' pool' :
  J st -> PI st pool -> stepk n_genes pairs marks n k st pool b = SNext st' pool' -> J st' /\ PI st' pool'.
Proof.
  intros HJ HP H.
  destruct (stepk_inv n_genes pairs marks n k _ _ _ _ _ (J_JK _ _ _ _ _ HJ) HP H) as [_ HP'].
  split; [|exact HP'].
  apply stepk_next in H. destruct H as [_ H].
  apply (popk_invJ _ _ _ _ _ _ H); [apply J_update; exact HJ | apply PI_refresh; exact HP].
Qed.

Lemma runk_invJ k trace : forall st pool i st',
  J st -> PI st pool -> runk n_genes pairs marks n k st pool trace i = KDone st' -> J st'.
Proof.
  induction trace as [|b t IH]; intros st pool i st' HJ HP H; cbn [runk] in H.
  - destruct (finished n_genes pairs (update_filled st)); [|discriminate]. inversion H; subst st'.
    apply J_update. exact HJ.
  - destruct (stepk n_genes pairs marks n k st pool b) as [st1 pool1|e|] eqn:S; [|destruct t; discriminate|discriminate].
    destruct (stepk_invJ _ _ _ _ _ _ HJ HP S) as [HJ1 HP1]. apply (IH _ _ _ _ HJ1 HP1 H).
Qed.

(* every selected gene is a gene of the thinned array and a reference marker of at least one pair the
   parent must discriminate - for every k, as for k = 1 *)
Theorem batch_in_query_and_marker k prefix batches st :
  replayk n_genes pairs marks n k prefix batches = KDone st ->
  forall g, In g (chosen st) -> g < n_genes /\ exists p d, In p pairs /\ marks g (p, d) = true.
Proof.
  unfold replayk. destruct (list_eqb prefix (chosen start)); [|discriminate]. intros H g Hg.
  pose proof (runk_invJ _ _ _ _ _ _ (J_start n_genes pairs marks n) (PI_pool0 n_genes pairs marks n) H) as HJ.
  split; [apply (J_genes _ _ _ _ _ HJ g Hg)|].
  destruct (J_useful _ _ _ _ _ HJ g Hg) as ([p d] & H1 & H2). exists p, d.
  split; [apply (slot_in pairs p d); exact H1 | exact H2].
Qed.

(* the executable statement of C12 itself (not only spec_c12_batch) on every completed run *)
Theorem batch_full_spec k prefix batches st :
  no_gene_both_ways marks ->
  replayk n_genes pairs marks n k prefix batches = KDone st ->
  spec_c12 n_genes pairs marks n (chosen st) = true.
Proof.
  intros Hb H. unfold spec_c12. rewrite !andb_true_iff. split; [split|].
  - apply nodup_b_spec. apply (batch_no_duplicates n_genes pairs marks n k _ _ _ H).
  - apply forallb_forall. intros g Hg.
    destruct (batch_in_query_and_marker _ _ _ _ H g Hg) as (L & p & d & Hp & Hm).
    apply andb_true_iff. split; [apply Nat.ltb_lt; exact L|].
    apply existsb_exists. exists (p, d). split; [apply slot_in; exact Hp | exact Hm].
  - apply forallb_forall. intros p Hp. apply Nat.leb_le.
    pose proof (batch_coverage n_genes pairs marks n k _ _ _ Hb H p Hp) as C.
    rewrite (covered_split marks (genes n_genes) p Hb) in C. exact C.
Qed.

(* ------------------------------------------------------------------ totality *)
(* the replay never ends in the exception, and the fuelled deterministic loop ends in `break` *)
Theorem batch_total k :
  1 <= k ->
  (forall prefix batches e, replayk n_genes pairs marks n k prefix batches <> KRaise e) /\
  exists st, greedyk n_genes pairs marks n k (S n_genes) start pool0 = GDone st.
Proof.
  intros Hk. split; [exact (batch_never_raises n_genes pairs marks n k)|].
  destruct (batch_terminates n_genes pairs marks n k Hk) as (tr & st & H & _). exists st. exact H.
Qed.

(* ------------------------------------------------------------------ the exact length of a batch *)
(* number of genes of positive utility (all of them unchosen: a chosen gene has a negative utility) *)
Definition n_useful (st : state) : nat := count (fun g => (0 <? utility st g)%Z) (genes n_genes).

Theorem batch_length_exact k st pool batch st' pool' :
  JK st -> PI st pool -> stepk n_genes pairs marks n k st pool batch = SNext st' pool' ->
  length batch = Nat.min k (n_useful (update_filled st)).
Proof.
  intros HJ HP H.
  destruct (batch_trace_legal n_genes pairs marks n k _ _ _ _ _ HJ HP H) as (_ & L & Ch & ND & Lg & Sh).
  pose proof (JK_update _ _ _ _ _ HJ) as HJ1.
  set (st1 := update_filled st) in *.
  set (pos := filter (fun g => (0 <? utility st1 g)%Z) (genes n_genes)).
  assert (Epos : n_useful st1 = length pos) by reflexivity.
  (* the batch consists of distinct genes of positive utility *)
  assert (I1 : incl batch pos).
  { intros g Hg. apply in_split in Hg. destruct Hg as (b1 & b2 & E).
    destruct (Lg b1 g b2 E) as (G1 & _ & G3 & _).
    apply filter_In. split; [apply genes_in; exact G1 | apply Z.ltb_lt; exact G3]. }
  pose proof (NoDup_incl_length ND I1) as B1.
  destruct (Nat.lt_ge_cases (length batch) k) as [Lt|Ge]; [|rewrite Epos; lia].
  (* a short batch holds every gene of positive utility *)
  assert (I2 : incl pos batch).
  { intros h Hh. apply filter_In in Hh. destruct Hh as [H1 H2]. apply genes_in in H1. apply Z.ltb_lt in H2.
    destruct (nmem h (chosen st')) eqn:C.
    - apply nmem_in in C. rewrite Ch in C. apply in_app_iff in C. destruct C as [C|C]; [|exact C].
      exfalso. change (chosen st) with (chosen st1) in C.
      pose proof (JK_taken _ _ _ _ _ HJ1 h C). lia.
    - apply nmem_false in C. pose proof (Sh Lt h H1 C). lia. }
  assert (NDp : NoDup pos) by (apply NoDup_filter, genes_nodup).
  pose proof (NoDup_incl_length NDp I2) as B2. rewrite Epos. lia.
Qed.
End Safe.
