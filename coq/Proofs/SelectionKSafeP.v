(* When does a batch raise?  Never while at least k genes of the thinned array are still unchosen
   (Model/SelectionK.v, C12 for genes_at_a_time = k). *)
From Coq Require Import ZArith List Bool Arith Lia Permutation.
From CTM Require Import Base.Sx Base.ListX Base.SortX Model.Tree Model.Selection Model.SelectionK
                        Proofs.SelectionP Proofs.SelectionKP.
Import ListNotations.
Local Open Scope nat_scope.

Section Safe.
Variable n_genes : nat.
Variable pairs : list nat.
Variable marks : nat -> slot -> bool.
Variable n : nat.
Notation JK := (JK n_genes pairs marks n).
Notation PI := (PI n_genes).

(* some gene is still unchosen *)
Lemma unchosen_exists st : JK st -> length (chosen st) < n_genes ->
  exists g, g < n_genes /\ ~ In g (chosen st).
Proof.
  intros HJ L.
  destruct (find (fun g => negb (nmem g (chosen st))) (genes n_genes)) as [g|] eqn:E.
  - apply find_some in E. destruct E as [E1 E2]. apply negb_true_iff, nmem_false in E2.
    exists g. split; [apply genes_in; exact E1 | exact E2].
  - exfalso. assert (I : incl (genes n_genes) (chosen st)).
    { intros g Hg. pose proof (find_none _ _ E g Hg) as H. cbv beta in H.
      apply negb_false_iff, nmem_in in H. exact H. }
    pose proof (NoDup_incl_length (genes_nodup n_genes) I) as B.
    unfold genes in B. rewrite seq_length in B. lia.
Qed.

Lemma popk_no_raise j : forall st pool batch e,
  JK st -> PI st pool -> j <= n_genes - length (chosen st) ->
  popk marks j st pool batch <> PErr e.
Proof.
  induction j as [|j IH]; intros st pool batch e HJ HP Hj; cbn [popk].
  - destruct batch; discriminate.
  - destruct (unchosen_exists st HJ) as (g0 & G1 & G2); [lia|].
    pose proof (PI_all _ _ _ HP g0 G1 G2) as Hin.
    destruct pool as [|p0 pr] eqn:Ep; [destruct Hin|]. rewrite <- Ep in *.
    destruct batch as [|g b]; [discriminate|].
    destruct (is_top st pool g) eqn:T; [|discriminate].
    apply is_top_spec in T. destruct T as [T1 T2].
    destruct (nmem g (chosen st)) eqn:C.
    + exfalso. apply nmem_in in C. pose proof (JK_taken _ _ _ _ _ HJ g C) as Neg.
      pose proof (JK_nonneg n_genes pairs marks n st g0 HJ G2) as Pos.
      specialize (T2 g0 Hin). lia.
    + apply nmem_false in C. apply IH.
      * apply JK_choose; [exact HJ | exact C | apply (PI_genes _ _ _ HP); exact T1].
      * apply PI_choose. exact HP.
      * cbn [choose chosen]. rewrite app_length. cbn. lia.
Qed.

(* a batch of k genes cannot raise while at least k genes are unchosen: both exceptions need
   k > (number of query genes of the thinned array not yet selected) *)
Theorem batch_no_raise_when_enough_genes k st pool batch e :
  JK st -> PI st pool -> k <= n_genes - length (chosen st) ->
  stepk n_genes pairs marks n k st pool batch <> SRaise e.
Proof.
  intros HJ HP Hk. unfold stepk.
  destruct (finished n_genes pairs (update_filled n_genes pairs marks n st)); [discriminate|].
  pose proof (popk_no_raise k (update_filled n_genes pairs marks n st) (refresh n_genes pairs marks n st pool) batch) as H.
  destruct (popk marks k (update_filled n_genes pairs marks n st) (refresh n_genes pairs marks n st pool) batch) as [a b|e'|] eqn:E;
    try discriminate.
  exfalso. apply (H e'); [apply JK_update; exact HJ | apply PI_refresh; exact HP | exact Hk | reflexivity].
Qed.

(* conversely a batch can only complete if at least k genes were unchosen *)
Theorem batch_completes_only_with_enough_genes k st pool batch st' pool' :
  JK st -> PI st pool -> stepk n_genes pairs marks n k st pool batch = SNext st' pool' ->
  k <= n_genes - length (chosen st).
Proof.
  intros HJ HP H.
  destruct (stepk_inv n_genes pairs marks n k _ _ _ _ _ HJ HP H) as [HJ' _].
  destruct (batch_trace_legal n_genes pairs marks n k _ _ _ _ _ HJ HP H) as (L & Ch & _).
  pose proof (chosenK_bound n_genes pairs marks n _ HJ') as B. rewrite Ch, app_length, L in B. lia.
Qed.
End Safe.
