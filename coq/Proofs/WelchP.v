(* Lemmas about Model/Welch.v: score_differential_genes instantiated with the quantities computed
   FROM THE SUMMARY STATISTICS (Welch statistic, nu, penetrance, fold, means), the special cases
   the property text names (zero variance, one-cell clusters, empty clusters), swap symmetry. *)
From Coq Require Import ZArith List Bool Arith Lia.
From CTM Require Import Base.Sx Base.ListX Model.Holm Model.Penetrance Model.Stats Model.Welch
                        Proofs.HolmP Proofs.PenetranceP Proofs.BoringP.
Import ListNotations.
Open Scope Z_scope.

(* ------------------------------------------------------------------ *)
(* small list facts *)
Lemma opt_list_nth {A} : forall (l : list (option A)) r g a,
  opt_list l = Some r -> nth_error r g = Some a -> nth_error l g = Some (Some a).
Proof.
  induction l as [|o t IH]; intros r g a Hr Hn; cbn in Hr.
  - inversion Hr; subst. destruct g; discriminate Hn.
  - destruct o as [x|]; [|discriminate Hr].
    destruct (opt_list t) as [t'|] eqn:Et; [|discriminate Hr]. inversion Hr; subst.
    destruct g as [|g]; cbn in *; [inversion Hn; reflexivity|]. eapply IH; [reflexivity | exact Hn].
Qed.

Lemma opt_list_length {A} : forall (l : list (option A)) r, opt_list l = Some r -> length r = length l.
Proof.
  induction l as [|o t IH]; intros r Hr; cbn in Hr.
  - inversion Hr; reflexivity.
  - destruct o as [x|]; [|discriminate Hr].
    destruct (opt_list t) as [t'|] eqn:Et; [|discriminate Hr]. inversion Hr; subst. cbn. f_equal. apply IH. reflexivity.
Qed.

Lemma nth_error_map_inv {A B} (f : A -> B) : forall l g b,
  nth_error (map f l) g = Some b -> exists a, nth_error l g = Some a /\ b = f a.
Proof.
  induction l as [|x t IH]; intros g b Hn; destruct g; cbn in *; try discriminate.
  - inversion Hn. eexists; split; reflexivity.
  - apply IH. exact Hn.
Qed.

Lemma nth_error_combine_inv {A B} : forall (l : list A) (l' : list B) g a b,
  nth_error (combine l l') g = Some (a, b) -> nth_error l g = Some a /\ nth_error l' g = Some b.
Proof.
  induction l as [|x t IH]; intros l' g a b Hn; destruct l', g; cbn in *; try discriminate.
  - inversion Hn. split; reflexivity.
  - apply IH. exact Hn.
Qed.

Lemma map_eq_nth {A} (f : A -> bool) : forall l l' g a,
  map f l = map f l' -> nth_error l g = Some a -> exists a', nth_error l' g = Some a' /\ f a' = f a.
Proof.
  induction l as [|x t IH]; intros l' g a Hm Hn; destruct l' as [|y t']; cbn in Hm; try discriminate.
  - destruct g; discriminate Hn.
  - inversion Hm. destruct g as [|g]; cbn in *.
    + inversion Hn; subst. eexists; split; [reflexivity | symmetry; assumption].
    + eapply IH; eassumption.
Qed.

(* ------------------------------------------------------------------ *)
(* to_S is exact: the integer over S IS the rational *)
Lemma to_S_exact S r x : 0 < snd r -> to_S S r = Some x -> x * snd r = fst r * S.
Proof.
  intros Hd. unfold to_S. destruct ((fst r * S) mod snd r =? 0) eqn:E; [|discriminate].
  intros Hx. inversion Hx. apply Z.eqb_eq in E.
  pose proof (Z.div_mod (fst r * S) (snd r) ltac:(lia)) as Hdm. rewrite E in Hdm. lia.
Qed.

(* rounding *)
Lemma fl_den_pos x : 0 < snd (fl x).
Proof.
  unfold fl. destruct (Z.abs (fst x) =? 0); [cbn; lia|]. cbv zeta.
  match goal with |- 0 < snd (if ?c then _ else _) => destruct c eqn:Ee end; cbn [snd]; [lia|].
  apply Z.leb_gt in Ee. apply Z.pow_pos_nonneg; lia.
Qed.
Lemma fl_zero x : fst x = 0 -> fl x = (0, 1).
Proof. intros E. unfold fl. rewrite E. reflexivity. Qed.
Lemma radd_comm x y : radd x y = radd y x.
Proof. unfold radd. f_equal; lia. Qed.

Lemma rsub_swap x y : rsub y x = (- fst (rsub x y), snd (rsub x y)).
Proof. unfold rsub. cbn [fst snd]. f_equal; lia. Qed.
(* rounding is odd *)
Lemma fl_opp a b : fl (- a, b) = (- fst (fl (a, b)), snd (fl (a, b))).
Proof.
  unfold fl. cbn [fst snd]. rewrite Z.abs_opp, Z.sgn_opp.
  destruct (Z.abs a =? 0); [reflexivity|]. cbv zeta.
  match goal with |- (if ?c then _ else _) = _ => destruct c end; cbn [fst snd]; f_equal; ring.
Qed.
Lemma mdiff_f_swap D c1 c2 :
  fst (mdiff_f D c2 c1) = - fst (mdiff_f D c1 c2) /\ snd (mdiff_f D c2 c1) = snd (mdiff_f D c1 c2).
Proof.
  unfold mdiff_f. rewrite (rsub_swap (mean_f D c1) (mean_f D c2)), fl_opp.
  destruct (rsub (mean_f D c1) (mean_f D c2)) as [a b]. cbn [fst snd]. split; reflexivity.
Qed.

(* ------------------------------------------------------------------ *)
(* inversion of stats_pair *)
Lemma stats_pair_inv D S H lo hi T b cdfs s1 s2 x :
  stats_pair D S H lo hi T b cdfs s1 s2 = POk x ->
  exists l1 l2 gi,
    cstats_of s1 = POk l1 /\ cstats_of s2 = POk l2 /\ length l1 = length l2 /\
    opt_list (map (fun cc => gene_in D S (fst cc) (snd cc)) (combine l1 l2)) = Some gi /\
    x = mk_pair_in (s_n s1) (s_n s2) (2 * H) T
                   (welch_pvalues H lo hi b cdfs (welch_genes D l1 l2))
                   (map (fun y : score * Z * Z => fst (fst y)) gi)
                   (map (fun y : score * Z * Z => snd (fst y)) gi)
                   (map (fun y : score * Z * Z => snd y) gi).
Proof.
  unfold stats_pair. intros Hx.
  destruct (cstats_of s1) as [l1|c]; [|discriminate Hx].
  destruct (cstats_of s2) as [l2|c]; [|discriminate Hx]. cbn [pbind] in Hx.
  destruct ((length l1 =? length l2)%nat) eqn:El; [|discriminate Hx].
  cbn [negb] in Hx. apply Nat.eqb_eq in El.
  destruct (opt_list _) as [gi|] eqn:Eg; [|discriminate Hx].
  inversion Hx. exists l1, l2, gi. repeat split; assumption.
Qed.

Lemma gene_in_inv D S c1 c2 sc m1 m2 :
  gene_in D S c1 c2 = Some (sc, m1, m2) ->
  exists q1 qd f, sc = (q1, qd, f) /\ to_S S (q1_r c1 c2) = Some q1 /\ to_S S (qdiff_r c1 c2) = Some qd /\
    to_S S (fold_f D c1 c2) = Some f /\ to_S S (mean_f D c1) = Some m1 /\ to_S S (mean_f D c2) = Some m2.
Proof.
  unfold gene_in. intros Hg.
  destruct (to_S S (q1_r c1 c2)) as [a|]; [|discriminate Hg].
  destruct (to_S S (qdiff_r c1 c2)) as [b|]; [|discriminate Hg].
  destruct (to_S S (fold_f D c1 c2)) as [c|]; [|discriminate Hg].
  destruct (to_S S (mean_f D c1)) as [x1|]; [|discriminate Hg].
  destruct (to_S S (mean_f D c2)) as [x2|]; [|discriminate Hg].
  inversion Hg; subst. exists a, b, c. repeat split; reflexivity.
Qed.

(* the scores of gene g of the computed pair are those of the g-th rows *)
Lemma stats_scores_nth D S (l1 l2 : list cstat) gi g sc :
  opt_list (map (fun cc => gene_in D S (fst cc) (snd cc)) (combine l1 l2)) = Some gi ->
  nth_error (map (fun y : score * Z * Z => fst (fst y)) gi) g = Some sc ->
  exists c1 c2 m1 m2, nth_error l1 g = Some c1 /\ nth_error l2 g = Some c2 /\ gene_in D S c1 c2 = Some (sc, m1, m2).
Proof.
  intros Hg Hn. apply nth_error_map_inv in Hn. destruct Hn as ([[sc' m1] m2] & Hn & ->). cbn [fst].
  pose proof (opt_list_nth _ _ _ _ Hg Hn) as Hm.
  apply nth_error_map_inv in Hm. destruct Hm as ([c1 c2] & Hc & Hgi). cbn [fst snd] in Hgi.
  apply nth_error_combine_inv in Hc. destruct Hc as [H1 H2].
  exists c1, c2, m1, m2. repeat split; try assumption. symmetry. exact Hgi.
Qed.

(* ------------------------------------------------------------------ *)
(* p-values: range *)
Lemma welch_p_range H lo hi b g c : 0 < H -> 0 <= lo -> hi <= 2 * H -> lo <= hi ->
  0 <= welch_p H lo hi b g c <= 2 * H.
Proof.
  intros HH Hlo Hhi Hlh. unfold welch_p.
  destruct g; try destruct b as [[bn bd]|]; try destruct (tnu_boring _ _ _); apply p_of_cdf_range; assumption.
Qed.

Lemma welch_pvalues_range H lo hi b cdfs tn : 0 < H -> 0 <= lo -> hi <= 2 * H -> lo <= hi ->
  Forall (fun q => 0 <= q <= 2 * H) (welch_pvalues H lo hi b cdfs tn).
Proof.
  intros HH Hlo Hhi Hlh. unfold welch_pvalues. apply Forall_forall. intros q Hq.
  apply in_map_iff in Hq. destruct Hq as (gc & <- & _). apply welch_p_range; assumption.
Qed.

(* ------------------------------------------------------------------ *)
(* c11_sound instantiated with the statistics: what a recorded gene satisfies, in terms of the two
   rows of the statistics file *)
(* off_threshold (audit 3, defect A1): NO RATIONAL SCORE EQUALS A THRESHOLD OR A FLOOR (each x/S).
   The scores of the model are exact rationals, those of the code binary64 results of 2-4 rounded
   operations (relative error < 2^-50): a comparison `score > threshold` / `score < floor` of the code
   agrees with the model's unless the rational score is within that distance of the threshold, and for
   cell counts below 2^24 that happens only when it EQUALS the threshold as written (7/10, 1/10, 4/5: then
   binary64 lands on either side: n1=4, ge1=1, n2=6, ge1=5 gives qdiff = 7/10, float 0.7000000000000001 >
   0.7; pij 9/10 against 1 gives qdiff = 1/10, float 0.09999999999999998 < 0.1).  The statements from
   the statistics speak for the code only under this hypothesis (thresholds read as the rationals
   the user wrote); the harness (threshold_hit_cases) places count ratios exactly on 0.7 / 0.1 / 0.8 and
   counts what the real code does there (evidence key c11_threshold_hit_exactly). *)
(* THE TWO q1 CLAUSES ARE KEPT (audit 4, A6), although they are stronger than needed: q1 = max(ge1/n) is ONE
   correctly rounded division compared with a correctly rounded literal, so fl(ge1/n) = fl(x/S) when
   ge1/n = x/S and otherwise the two differ by >= 1/(n S) >> one ulp: binary64 and the rationals decide
   `q1 > th` and `q1 < floor` identically (checked outside Coq: 45,045,000 comparisons, all a/n with
   n <= 3000 against 0.5, 0.1, 0.7, 0.8, 0.3, `>` and `<`: 0 disagreements).  That is a theorem about `fl`
   (strict monotonicity across a relative gap of 2^-52) which is NOT proved here, and dropping the clauses
   would make the q1 part of crit_strict non-strict; so the hypothesis stays and costs what the audit
   measured: 2.87 % of the count quadruples with n <= 40 fail off_threshold, 85 % of them via q1 alone. *)
Definition rne (r : rat) (S x : Z) : Prop := fst r * S <> x * snd r.          (* r <> x/S *)
Definition off_threshold (th : thresholds) (D S : Z) (c1 c2 : cstat) : Prop :=
  rne (q1_r c1 c2) S (q1_th th) /\ rne (q1_r c1 c2) S (q1_min th) /\
  rne (qdiff_r c1 c2) S (qdiff_th th) /\ rne (qdiff_r c1 c2) S (qdiff_min th) /\
  rne (fold_f D c1 c2) S (fold_th th) /\ rne (fold_f D c1 c2) S (fold_min th).

Definition strictly_above_floors (th : thresholds) (g : score) : Prop :=
  let '(q1, qd, f) := g in q1_min th < q1 /\ qdiff_min th < qd /\ fold_min th < f.
Definition on_or_above_thresholds (th : thresholds) (g : score) : Prop :=
  let '(q1, qd, f) := g in q1_th th <= q1 /\ qdiff_th th <= qd /\ fold_th th <= f.
(* what a recorded off-threshold gene satisfies: STRICT inequalities only (so that rounding errors
   smaller than the distance to the threshold cannot flip them) *)
Definition crit_strict (th : thresholds) (exact : bool) (sc : score) : Prop :=
  if exact then strictly_passes th sc else strictly_above_floors th sc.

Definition stat_crit (th : thresholds) (exact : bool) (D S : Z) (c1 c2 : cstat) : Prop :=
  exists q1 qd f,
    (* q1/S = max(pij_1, pij_2), qd/S = |pij_1 - pij_2| / max(..), f/S = |mean_1 - mean_2|, exactly *)
    q1 * snd (q1_r c1 c2) = fst (q1_r c1 c2) * S /\
    qd * snd (qdiff_r c1 c2) = fst (qdiff_r c1 c2) * S /\
    f * snd (fold_f D c1 c2) = fst (fold_f D c1 c2) * S /\
    crit th exact (q1, qd, f) /\ crit_strict th exact (q1, qd, f).

(* off the thresholds `on or above` and `strictly above` coincide *)
Lemma off_threshold_strict th exact D S c1 c2 q1 qd f :
  0 < snd (q1_r c1 c2) -> 0 < snd (qdiff_r c1 c2) -> 0 < snd (fold_f D c1 c2) ->
  off_threshold th D S c1 c2 ->
  q1 * snd (q1_r c1 c2) = fst (q1_r c1 c2) * S ->
  qd * snd (qdiff_r c1 c2) = fst (qdiff_r c1 c2) * S ->
  f * snd (fold_f D c1 c2) = fst (fold_f D c1 c2) * S ->
  (crit th exact (q1, qd, f) -> crit_strict th exact (q1, qd, f)) /\
  (on_or_above_thresholds th (q1, qd, f) -> strictly_passes th (q1, qd, f)).
Proof.
  intros P1 P2 P3 (O1 & O2 & O3 & O4 & O5 & O6) E1 E2 E3. unfold rne in *.
  assert (N1 : q1 <> q1_th th) by (intro; subst q1; apply O1; lia).
  assert (N2 : q1 <> q1_min th) by (intro; subst q1; apply O2; lia).
  assert (N3 : qd <> qdiff_th th) by (intro; subst qd; apply O3; lia).
  assert (N4 : qd <> qdiff_min th) by (intro; subst qd; apply O4; lia).
  assert (N5 : f <> fold_th th) by (intro; subst f; apply O5; lia).
  assert (N6 : f <> fold_min th) by (intro; subst f; apply O6; lia).
  split.
  - unfold crit, crit_strict. destruct exact; [tauto|]. unfold above_floors, strictly_above_floors. lia.
  - unfold on_or_above_thresholds, strictly_passes. lia.
Qed.

Definition rat_wf (D : Z) (c : cstat) : Prop := 0 < D /\ 0 <= c_ge1 c.

Lemma q1_r_den c1 c2 : 0 < snd (q1_r c1 c2).
Proof. unfold q1_r, pij, nmax1. destruct (rgt _ _); cbn [snd]; lia. Qed.
Lemma fold_f_den D c1 c2 : 0 < D -> 0 < snd (fold_f D c1 c2).
Proof. intros _. unfold fold_f, mdiff_f. cbn [snd]. apply fl_den_pos. Qed.
Lemma qdiff_r_den c1 c2 : 0 <= c_ge1 c1 -> 0 <= c_ge1 c2 -> 0 < snd (qdiff_r c1 c2).
Proof.
  intros _ _. unfold qdiff_r.
  destruct (0 <? fst (q1_r c1 c2)) eqn:E; cbn [snd]; unfold nmax1; [|nia].
  apply Z.ltb_lt in E. nia.
Qed.

Theorem sdg_stats_sound : forall st mask D H lo hi T b cdfs s1 s2 v up g,
  0 < D ->
  - st_S st < q1_min (st_th st) -> q1_min (st_th st) < q1_th (st_th st) ->
  sdg_stats st mask D H lo hi T b cdfs s1 s2 = POk (v, up) -> nth_error v g = Some true ->
  st_n_min st <= s_n s1 /\ st_n_min st <= s_n s2 /\
  exists l1 l2 c1 c2,
    cstats_of s1 = POk l1 /\ cstats_of s2 = POk l2 /\ nth_error l1 g = Some c1 /\ nth_error l2 g = Some c2 /\
    (exists a, nth_error (approx_correct_ttest (2 * H) T (welch_pvalues H lo hi b cdfs (welch_genes D l1 l2))) g = Some a /\ a < T) /\
    in_list mask g /\
    (0 <= c_ge1 c1 -> 0 <= c_ge1 c2 -> off_threshold (st_th st) D (st_S st) c1 c2 ->
     stat_crit (st_th st) (st_exact st) D (st_S st) c1 c2).
Proof.
  intros st mask D H lo hi T b cdfs s1 s2 v up g HD Hf Ho Hs Hg.
  unfold sdg_stats in Hs.
  destruct (stats_pair D (st_S st) H lo hi T b cdfs s1 s2) as [x|c] eqn:Ex; [|discriminate Hs].
  cbn [pbind] in Hs.
  destruct (stats_pair_inv _ _ _ _ _ _ _ _ _ _ _ Ex) as (l1 & l2 & gi & E1 & E2 & _ & Egi & Hx).
  destruct (sdg_sound st mask x v up g Hf Ho Hs Hg) as (N1 & N2 & Hp & Hl & sc & Hsc & Hc).
  subst x. cbn [pi_n1 pi_n2 pi_SP pi_T pi_p pi_scores] in *.
  split; [exact N1|]. split; [exact N2|].
  destruct (stats_scores_nth _ _ _ _ _ _ _ Egi Hsc) as (c1 & c2 & m1 & m2 & Hc1 & Hc2 & Hgi).
  exists l1, l2, c1, c2.
  split; [exact E1|]. split; [exact E2|]. split; [exact Hc1|]. split; [exact Hc2|].
  split; [exact Hp|]. split; [exact Hl|].
  intros G1 G2 Hoff.
  destruct (gene_in_inv _ _ _ _ _ _ _ Hgi) as (q1 & qd & f & -> & T1 & T2 & T3 & _ & _).
  exists q1, qd, f.
  pose proof (to_S_exact _ _ _ (q1_r_den c1 c2) T1) as X1.
  pose proof (to_S_exact _ _ _ (qdiff_r_den c1 c2 G1 G2) T2) as X2.
  pose proof (to_S_exact _ _ _ (fold_f_den D c1 c2 HD) T3) as X3.
  split; [exact X1|]. split; [exact X2|]. split; [exact X3|]. split; [exact Hc|].
  exact (proj1 (off_threshold_strict _ (st_exact st) _ _ _ _ _ _ _ (q1_r_den c1 c2) (qdiff_r_den c1 c2 G1 G2)
                  (fold_f_den D c1 c2 HD) Hoff X1 X2 X3) Hc).
Qed.

(* ------------------------------------------------------------------ *)
(* ... and with the EXACT Welch p-values and the FULL Holm correction: the route the code takes
   (skip |t| <= boring_t, correct only p < p_th) records a gene only if the full Holm-Bonferroni
   correction of the exact two-sided Welch p-values is below p_th - given the premise, checked
   numerically by the harness on every gene that occurs, that the oracle's CDF value of every
   SKIPPED gene has 2c >= p_th and 2(1-c) >= p_th *)
Definition gcdf (t_cdf : tnu -> option Z) (g : tnu) : option Z := match g with TN_nan => None | _ => t_cdf g end.
Definition gbrg (b : option (Z * Z)) (g : tnu) : bool :=
  match b with Some (bn, bd) => tnu_boring bn bd g | None => false end.

Lemma welch_p_exactG H lo hi t_cdf g : welch_p H lo hi None g (t_cdf g) = exactG _ H lo hi (gcdf t_cdf) g.
Proof. unfold exactG, gcdf, welch_p. destruct g; reflexivity. Qed.

Lemma welch_p_skipG H lo hi b t_cdf g :
  welch_p H lo hi b g (t_cdf g) = skipG _ H lo hi (gcdf t_cdf) (gbrg b) g.
Proof.
  unfold skipG, exactG, gcdf, gbrg, welch_p. destruct b as [[bn bd]|].
  - destruct g; reflexivity.
  - destruct g; reflexivity.
Qed.

Theorem welch_route_decisions : forall H lo hi T b t_cdf tn,
  0 < H -> 0 <= lo <= H -> H <= hi <= 2 * H -> T <= 2 * H ->
  (forall g c, In g tn -> gbrg b g = true -> gcdf t_cdf g = Some c ->
               T <= 2 * c /\ T <= 2 * (2 * H - c)) ->
  map (fun v => v <? T) (approx_correct_ttest (2 * H) T (welch_pvalues H lo hi b t_cdf tn))
  = map (fun v => v <? T) (correct_ttest (2 * H) 0 (welch_pvalues H lo hi None t_cdf tn)).
Proof.
  intros H lo hi T b t_cdf tn HH Hlo Hhi HT Hprem.
  unfold welch_pvalues.
  rewrite (map_ext _ _ (welch_p_skipG H lo hi b t_cdf)), (map_ext _ _ (welch_p_exactG H lo hi t_cdf)).
  (* the premise is needed only on the genes of the list: restrict the skipping rule to them *)
  set (l := tn) in *.
  assert (Gen : forall l0, (forall gc, In gc l0 -> In gc l) ->
    map (fun v => v <? T) (approx_correct_ttest (2 * H) T (map (skipG _ H lo hi (gcdf t_cdf) (gbrg b)) l0))
    = map (fun v => v <? T) (correct_ttest (2 * H) 0 (map (exactG _ H lo hi (gcdf t_cdf)) l0))).
  { intros l0 Hin.
    assert (P' : Forall (fun x => 0 <= x <= 2 * H) (map (skipG _ H lo hi (gcdf t_cdf) (gbrg b)) l0)).
    { apply Forall_forall. intros x Hx. apply in_map_iff in Hx. destruct Hx as (gc & <- & _).
      unfold skipG, exactG. destruct (gbrg b gc); apply p_of_cdf_range; lia. }
    assert (P : Forall (fun x => 0 <= x <= 2 * H) (map (exactG _ H lo hi (gcdf t_cdf)) l0)).
    { apply Forall_forall. intros x Hx. apply in_map_iff in Hx. destruct Hx as (gc & <- & _).
      unfold exactG. apply p_of_cdf_range; lia. }
    destruct (boring_sound_full (2 * H) T (map (exactG _ H lo hi (gcdf t_cdf)) l0) (map (skipG _ H lo hi (gcdf t_cdf) (gbrg b)) l0)
                P P' HT) as [_ R]; [|exact R].
    clear P P'. induction l0 as [|gc t IH]; cbn [map]; constructor.
    - unfold same_or_above, skipG. destruct (gbrg b gc) eqn:Eb; [|left; reflexivity].
      right. rewrite p_of_half by lia. split; [|exact HT].
      unfold exactG. destruct (gcdf t_cdf gc) as [c|] eqn:Ec.
      + destruct (Hprem gc c (Hin gc (or_introl eq_refl)) Eb Ec) as [L U].
        unfold p_of_cdf, pval_of, clipc.
        destruct (2 * Z.min hi (Z.max lo c) <? 2 * H) eqn:E2; [apply Z.ltb_lt in E2 | apply Z.ltb_ge in E2]; lia.
      + change (p_of_cdf H lo hi None) with (p_of_cdf H lo hi (Some H)). rewrite p_of_half by lia. exact HT.
    - apply IH. intros gc' Hgc'. apply Hin. right. exact Hgc'. }
  apply Gen. intros gc Hgc. exact Hgc.
Qed.

Theorem sdg_stats_sound_exact_welch : forall st mask D H lo hi T b t_cdf s1 s2 v up g,
  0 < D -> 0 < H -> 0 <= lo <= H -> H <= hi <= 2 * H -> T <= 2 * H ->
  - st_S st < q1_min (st_th st) -> q1_min (st_th st) < q1_th (st_th st) ->
  (forall l1 l2 gc c, cstats_of s1 = POk l1 -> cstats_of s2 = POk l2 ->
       In gc (welch_genes D l1 l2) -> gbrg b gc = true -> gcdf t_cdf gc = Some c ->
       T <= 2 * c /\ T <= 2 * (2 * H - c)) ->
  sdg_stats st mask D H lo hi T b t_cdf s1 s2 = POk (v, up) -> nth_error v g = Some true ->
  exists l1 l2, cstats_of s1 = POk l1 /\ cstats_of s2 = POk l2 /\
    exists h, nth_error (correct_ttest (2 * H) 0 (welch_pvalues H lo hi None t_cdf (welch_genes D l1 l2))) g = Some h /\ h < T.
Proof.
  intros st mask D H lo hi T b t_cdf s1 s2 v up g HD HH Hlo Hhi HT Hf Ho Hprem Hs Hg.
  destruct (sdg_stats_sound st mask D H lo hi T b t_cdf s1 s2 v up g HD Hf Ho Hs Hg)
    as (_ & _ & l1 & l2 & c1 & c2 & E1 & E2 & _ & _ & (a & Ha & HaT) & _ & _).
  exists l1, l2. split; [exact E1|]. split; [exact E2|].
  pose proof (welch_route_decisions H lo hi T b t_cdf (welch_genes D l1 l2) HH Hlo Hhi HT
                (fun gc c => Hprem l1 l2 gc c E1 E2)) as Hd.
  destruct (map_eq_nth (fun v => v <? T) _ _ g a Hd Ha) as (h & Hh & Hlt).
  exists h. split; [exact Hh|].
  apply Z.ltb_lt. rewrite Hlt. apply Z.ltb_lt. exact HaT.
Qed.

(* ------------------------------------------------------------------ *)
(* completeness from the statistics *)
Theorem sdg_stats_complete : forall st mask D H lo hi T b cdfs s1 s2 v up g l1 l2 c1 c2 q1 qd f,
  0 < st_S st -> 0 < D ->
  sdg_stats st mask D H lo hi T b cdfs s1 s2 = POk (v, up) ->
  st_n_min st <= s_n s1 -> st_n_min st <= s_n s2 ->
  cstats_of s1 = POk l1 -> cstats_of s2 = POk l2 -> nth_error l1 g = Some c1 -> nth_error l2 g = Some c2 ->
  (exists a, nth_error (approx_correct_ttest (2 * H) T (welch_pvalues H lo hi b cdfs (welch_genes D l1 l2))) g = Some a /\ a < T) ->
  in_list mask g ->
  0 <= c_ge1 c1 -> 0 <= c_ge1 c2 -> off_threshold (st_th st) D (st_S st) c1 c2 ->
  to_S (st_S st) (q1_r c1 c2) = Some q1 -> to_S (st_S st) (qdiff_r c1 c2) = Some qd ->
  to_S (st_S st) (fold_f D c1 c2) = Some f ->
  on_or_above_thresholds (st_th st) (q1, qd, f) ->
  nth_error v g = Some true.
Proof.
  intros st mask D H lo hi T b cdfs s1 s2 v up g l1 l2 c1 c2 q1 qd f HS HD Hs N1 N2 E1 E2 Hc1 Hc2 Hp Hl G1 G2 Hoff T1 T2 T3 Hge.
  assert (Hsp : strictly_passes (st_th st) (q1, qd, f)).
  { pose proof (to_S_exact _ _ _ (q1_r_den c1 c2) T1) as X1.
    pose proof (to_S_exact _ _ _ (qdiff_r_den c1 c2 G1 G2) T2) as X2.
    pose proof (to_S_exact _ _ _ (fold_f_den D c1 c2 HD) T3) as X3.
    exact (proj2 (off_threshold_strict _ (st_exact st) _ _ _ _ _ _ _ (q1_r_den c1 c2) (qdiff_r_den c1 c2 G1 G2)
                    (fold_f_den D c1 c2 HD) Hoff X1 X2 X3) Hge). }
  unfold sdg_stats in Hs.
  destruct (stats_pair D (st_S st) H lo hi T b cdfs s1 s2) as [x|c] eqn:Ex; [|discriminate Hs].
  cbn [pbind] in Hs.
  destruct (stats_pair_inv _ _ _ _ _ _ _ _ _ _ _ Ex) as (l1' & l2' & gi & E1' & E2' & Hl12 & Egi & Hx).
  rewrite E1 in E1'. rewrite E2 in E2'. inversion E1'; inversion E2'; subst l1' l2'.
  apply (sdg_complete st mask x v up g (q1, qd, f) HS); subst x;
    cbn [pi_n1 pi_n2 pi_SP pi_T pi_p pi_scores pi_mean1]; try assumption.
  - rewrite !map_length. reflexivity.
  - (* the g-th score *)
    assert (Hcomb : nth_error (combine l1 l2) g = Some (c1, c2)).
    { rewrite nth_error_combine, Hc1, Hc2. reflexivity. }
    assert (Hlen : (g < length gi)%nat).
    { rewrite (opt_list_length _ _ Egi), map_length. apply nth_error_Some. rewrite Hcomb. discriminate. }
    destruct (nth_error gi g) as [[[sc m1] m2]|] eqn:En; [|apply nth_error_None in En; lia].
    pose proof (opt_list_nth _ _ _ _ Egi En) as Hm.
    rewrite nth_error_map, Hcomb in Hm. cbn in Hm. inversion Hm as [Hgi].
    destruct (gene_in_inv _ _ _ _ _ _ _ Hgi) as (q1' & qd' & f' & -> & T1' & T2' & T3' & _ & _).
    rewrite nth_error_map, En. cbn. congruence.
Qed.

(* ------------------------------------------------------------------ *)
(* the cases the property text names *)

(* the float variance is exactly 0.0 in both clusters (n >= 1 each): var1/n1 + var2/n2 = 0.0 is not > 0, so
   denom = 1.0e-10, and nu_denom = 0 or NaN falls back to 1.0: nu = 0 (scipy's t.cdf(., df=0) is NaN, the
   p-value 1).  The float variance of a CONSTANT gene is exactly 0.0 when the constant is dyadic with few
   bits (0, 2.0, 0.25 ...) and a rounding residue of either sign otherwise (Props/C11.v:
   c11_welch_constant_gene_noise) *)
Lemma welch_zero_variance D c1 c2 :
  1 <= c_n c1 -> 1 <= c_n c2 ->
  fst (var_f D c1) = 0 -> fst (var_f D c2) = 0 ->
  exists nud, welch_gene D c1 c2 = TN_tiny (fst (mdiff_f D c1 c2)) (snd (mdiff_f D c1 c2)) 0 nud.
Proof.
  intros N1 N2 V1 V2. unfold welch_gene.
  destruct ((c_n c1 <? 1) || (c_n c2 <? 1)) eqn:En.
  { apply orb_true_iff in En. destruct En as [En|En]; apply Z.ltb_lt in En; lia. }
  cbv zeta.
  rewrite (fl_zero (rdivz (var_f D c1) (c_n c1))) by exact V1.
  rewrite (fl_zero (rdivz (var_f D c2) (c_n c2))) by exact V2.
  change (radd (0, 1) (0, 1)) with (0, 1). rewrite (fl_zero (0, 1)) by reflexivity.
  cbn [fst snd Z.ltb Z.compare Z.mul].
  destruct (nu_denom _ _) as [[Kn Kd]|]; cbn [fst snd]; eexists; reflexivity.
Qed.

Lemma welch_empty_cluster D c1 c2 : c_n c1 <= 0 \/ c_n c2 <= 0 -> welch_gene D c1 c2 = TN_nan.
Proof.
  intros Hn. unfold welch_gene.
  destruct ((c_n c1 <? 1) || (c_n c2 <? 1)) eqn:En; [reflexivity|].
  apply orb_false_iff in En. destruct En as [A B]. apply Z.ltb_ge in A, B. lia.
Qed.

(* whatever the oracle says, the p-value of a gene of an empty cluster, and of any gene whose CDF value
   is NaN (nu = 0: zero variance), is 1 *)
Lemma welch_p_nan H lo hi b g : 0 < H -> lo <= H <= hi -> welch_p H lo hi b g None = 2 * H.
Proof.
  intros HH Hc. unfold welch_p.
  assert (E : p_of_cdf H lo hi None = 2 * H) by (change (p_of_cdf H lo hi None) with (p_of_cdf H lo hi (Some H)); apply p_of_half; assumption).
  destruct g; try destruct b as [[bn bd]|]; try destruct (tnu_boring _ _ _); try exact E; apply p_of_half; assumption.
Qed.
Lemma welch_p_empty H lo hi b c : 0 < H -> lo <= H <= hi -> welch_p H lo hi b TN_nan c = 2 * H.
Proof.
  intros HH Hc. unfold welch_p. change (p_of_cdf H lo hi None) with (p_of_cdf H lo hi (Some H)). apply p_of_half; assumption.
Qed.

(* ------------------------------------------------------------------ *)
(* swapping the two clusters *)
Definition tnu_neg (g : tnu) : tnu :=
  match g with
  | TN s a b c d => TN (- s) a b c d
  | TN_tiny dn dd c d => TN_tiny (- dn) dd c d
  | TN_nan => TN_nan
  end.

Lemma nu_denom_sym k1 k2 : nu_denom k1 k2 = nu_denom k2 k1.
Proof.
  destruct k1 as [a b| |], k2 as [c d| |]; cbn; try reflexivity.
  replace (c * b + a * d) with (a * d + c * b) by lia. replace (d * b) with (b * d) by lia. reflexivity.
Qed.

(* t -> -t with the same t^2, the same nu *)
Theorem welch_gene_swap D c1 c2 : welch_gene D c2 c1 = tnu_neg (welch_gene D c1 c2).
Proof.
  unfold welch_gene. rewrite (orb_comm (c_n c2 <? 1)).
  destruct ((c_n c1 <? 1) || (c_n c2 <? 1)); [reflexivity|].
  cbv zeta.
  rewrite (nu_denom_sym (kterm (var_f D c2) (c_n c2))).
  rewrite (radd_comm (fl (rdivz (var_f D c2) (c_n c2)))).
  destruct (mdiff_f_swap D c1 c2) as [Ed Es].
  rewrite Ed, Es.
  replace (- fst (mdiff_f D c1 c2) * - fst (mdiff_f D c1 c2)) with (fst (mdiff_f D c1 c2) * fst (mdiff_f D c1 c2)) by lia.
  rewrite Z.sgn_opp.
  destruct (0 <? _); reflexivity.
Qed.

(* skipping is symmetric *)
Lemma tnu_boring_neg bn bd g : tnu_boring bn bd (tnu_neg g) = tnu_boring bn bd g.
Proof. destruct g; cbn; try reflexivity. rewrite Z.abs_opp. reflexivity. Qed.

(* rationals equal as numbers *)
Definition req (a b : rat) : Prop := fst a * snd b = fst b * snd a.

Theorem welch_scores_swap D c1 c2 :
  fold_f D c2 c1 = (fst (fold_f D c1 c2), snd (fold_f D c2 c1)) /\ snd (fold_f D c2 c1) = snd (fold_f D c1 c2) /\
  req (q1_r c2 c1) (q1_r c1 c2) /\
  (0 <= c_ge1 c1 -> 0 <= c_ge1 c2 -> req (qdiff_r c2 c1) (qdiff_r c1 c2)).
Proof.
  assert (F1 : fst (fold_f D c2 c1) = fst (fold_f D c1 c2)).
  { unfold fold_f. cbn [fst]. rewrite (proj1 (mdiff_f_swap D c1 c2)). apply Z.abs_opp. }
  assert (Q : req (q1_r c2 c1) (q1_r c1 c2)).
  { unfold req, q1_r, rgt, pij. cbn [fst snd].
    destruct (c_ge1 c1 * nmax1 (c_n c2) <? c_ge1 c2 * nmax1 (c_n c1)) eqn:A;
    destruct (c_ge1 c2 * nmax1 (c_n c1) <? c_ge1 c1 * nmax1 (c_n c2)) eqn:B; cbn [fst snd];
    try apply Z.ltb_lt in A; try apply Z.ltb_lt in B; try apply Z.ltb_ge in A; try apply Z.ltb_ge in B; lia. }
  split; [|split; [|split]].
  - rewrite <- F1. destruct (fold_f D c2 c1); reflexivity.
  - unfold fold_f. cbn [snd]. exact (proj2 (mdiff_f_swap D c1 c2)).
  - exact Q.
  - intros G1 G2. unfold req, qdiff_r.
    set (d12 := Z.abs (c_ge1 c1 * nmax1 (c_n c2) - c_ge1 c2 * nmax1 (c_n c1))).
    assert (Ed : Z.abs (c_ge1 c2 * nmax1 (c_n c1) - c_ge1 c1 * nmax1 (c_n c2)) = d12).
    { unfold d12. replace (c_ge1 c2 * nmax1 (c_n c1) - c_ge1 c1 * nmax1 (c_n c2))
        with (- (c_ge1 c1 * nmax1 (c_n c2) - c_ge1 c2 * nmax1 (c_n c1))) by lia. apply Z.abs_opp. }
    rewrite Ed. unfold req in Q.
    pose proof (q1_r_den c1 c2) as P1. pose proof (q1_r_den c2 c1) as P2.
    assert (Hs : (0 <? fst (q1_r c2 c1)) = (0 <? fst (q1_r c1 c2))).
    { destruct (0 <? fst (q1_r c2 c1)) eqn:A; destruct (0 <? fst (q1_r c1 c2)) eqn:B; try reflexivity;
      try apply Z.ltb_lt in A; try apply Z.ltb_lt in B; try apply Z.ltb_ge in A; try apply Z.ltb_ge in B; nia. }
    rewrite Hs. destruct (0 <? fst (q1_r c1 c2)); cbn [fst snd]; [|lia].
    (* d*s21*(N1*N2*q12) = d*s12*(N2*N1*q21)  from  q21*s12 = q12*s21 *)
    transitivity (d12 * (nmax1 (c_n c1) * nmax1 (c_n c2)) * (fst (q1_r c1 c2) * snd (q1_r c2 c1))); [lia|].
    rewrite <- Q. lia.
Qed.

(* the p-value under the swap: t.cdf(-t) = 1 - t.cdf(t) AT THIS GENE gives the same p-value when
   neither value is clipped; the clip [eps, ceil] = [2^-1022, 1 - 2^-53] is NOT symmetric
   (1 - ceil > eps), so below 1 - ceil the two p-values differ (welch_p_swap_clip_differs) *)
Lemma p_of_cdf_swap H lo hi c : 0 < H -> lo <= 2 * H - hi -> 2 * H - hi <= c <= hi ->
  p_of_cdf H lo hi (Some (2 * H - c)) = p_of_cdf H lo hi (Some c).
Proof.
  intros HH Hlo Hc. unfold p_of_cdf, pval_of, clipc.
  replace (Z.min hi (Z.max lo (2 * H - c))) with (2 * H - c) by lia.
  replace (Z.min hi (Z.max lo c)) with c by lia.
  destruct (2 * (2 * H - c) <? 2 * H) eqn:A; destruct (2 * c <? 2 * H) eqn:B;
    try apply Z.ltb_lt in A; try apply Z.ltb_lt in B; try apply Z.ltb_ge in A; try apply Z.ltb_ge in B; lia.
Qed.

Lemma welch_p_swap_clip_differs :
  (* H = 32, clip [1, 60]: c = 2 (t far in the lower tail), swapped 62 -> clipped to 60 *)
  p_of_cdf 32 1 60 (Some 2) = 4 /\ p_of_cdf 32 1 60 (Some (2 * 32 - 2)) = 8.
Proof. split; vm_compute; reflexivity. Qed.

(* the pairs computed from the statistics meet pair_wf (the hypothesis of the per-pair theorems) *)
Lemma stats_pair_wf D S H lo hi T b cdfs s1 s2 x :
  stats_pair D S H lo hi T b cdfs s1 s2 = POk x -> pair_wf x.
Proof.
  intros Hx. destruct (stats_pair_inv _ _ _ _ _ _ _ _ _ _ _ Hx) as (l1 & l2 & gi & _ & _ & L12 & Egi & ->).
  unfold pair_wf. cbn [pi_p pi_scores pi_mean1 pi_mean2].
  pose proof (opt_list_length _ _ Egi) as Lg. rewrite map_length, combine_length in Lg.
  unfold welch_pvalues, welch_genes. rewrite !map_length, !combine_length.
  repeat split; lia.
Qed.

Lemma welch_p_empty_cluster : forall D c1 c2 H lo hi b c, 0 < H -> lo <= H <= hi ->
  c_n c1 <= 0 \/ c_n c2 <= 0 -> welch_p H lo hi b (welch_gene D c1 c2) c = 2 * H.
Proof. intros D c1 c2 H lo hi b c HH Hc Hn. rewrite (welch_empty_cluster D c1 c2 Hn). exact (welch_p_empty H lo hi b c HH Hc). Qed.

(* ------------------------------------------------------------------ *)
(* COMPOSITION of the CDF half (BoringP: end points + monotonicity => a skipped gene has exact p >= p_th)
   with the route theorem above (audit 3, defect A6): the per-gene premise of sdg_stats_sound_exact_welch is
   DERIVED from premises about the oracle at the two end points +-boring_t and between them.
   The statistic of a gene is t = ts * sqrt(ta/td) (tnu_sq; for the denom = 1.0e-10 branch t = (dn/dd)/1e-10)
   at nu = nun/nud (tnu_nu).  x |-> sgn(x) x^2 is increasing, so t <= t' iff ts*ta/td <= ts'*ta'/td'. *)
Definition tnu_sq (g : tnu) : option (Z * Z * Z) :=
  match g with
  | TN s a d _ _ => Some (s, a, d)
  | TN_tiny dn dd _ _ => Some (Z.sgn dn, (dn * EPS_DEN) * (dn * EPS_DEN), (dd * EPS_NUM) * (dd * EPS_NUM))
  | TN_nan => None
  end.
Definition tnu_nu (g : tnu) : option rat :=
  match g with TN _ _ _ n m => Some (n, m) | TN_tiny _ _ n m => Some (n, m) | TN_nan => None end.
Definition tnu_wfb (g : tnu) : bool :=
  match tnu_sq g with Some (s, a, d) => (-1 <=? s) && (s <=? 1) && (0 <=? a) && (0 <? d) | None => false end.
Definition t_le (g g' : tnu) : Prop :=
  match tnu_sq g, tnu_sq g' with
  | Some (s, a, d), Some (s', a', d') => s * a * d' <= s' * a' * d
  | _, _ => False
  end.
(* the genes the skipping rule skips and the CDF is asked about: well formed, not NaN, |t| <= bn/bd *)
Definition in_band (bn bd : Z) (g : tnu) : bool := tnu_wfb g && tnu_boring bn bd g.
(* g, g' at the same nu, both inside [-boring_t, boring_t], t(g) <= t(g') *)
Definition band_le (bn bd : Z) (g g' : tnu) : Prop :=
  in_band bn bd g = true /\ in_band bn bd g' = true /\ tnu_nu g = tnu_nu g' /\ t_le g g'.
(* the statistic t = s * bn/bd at the nu of g *)
Definition end_pt (s bn bd : Z) (g : tnu) : tnu :=
  match tnu_nu g with Some (n, m) => TN s (bn * bn) (bd * bd) n m | None => TN_nan end.

Lemma tnu_boring_sq bn bd g s a d : 0 <= bn -> 0 < bd ->
  tnu_sq g = Some (s, a, d) -> tnu_boring bn bd g = true -> a * (bd * bd) <= (bn * bn) * d.
Proof.
  intros Hbn Hbd Hs Hb. destruct g as [s0 a0 d0 n m|dn dd n m|]; cbn in Hs; inversion Hs; subst; clear Hs.
  - cbn in Hb. apply Z.leb_le in Hb. exact Hb.
  - cbn [tnu_boring] in Hb. apply Z.leb_le in Hb.
    assert (P1 : 0 < EPS_DEN) by reflexivity. assert (P2 : 0 < EPS_NUM) by reflexivity.
    generalize dependent EPS_DEN. generalize dependent EPS_NUM. intros E2 P2 E1 Hb P1.
    assert (X0 : 0 <= Z.abs dn * E1 * bd) by (pose proof (Z.abs_nonneg dn); nia).
    pose proof (Z.square_le_mono_nonneg _ _ X0 Hb) as Hsq.
    replace (dn * E1 * (dn * E1) * (bd * bd)) with (Z.abs dn * E1 * bd * (Z.abs dn * E1 * bd)).
    2:{ replace (Z.abs dn * E1 * bd * (Z.abs dn * E1 * bd)) with ((Z.abs dn * Z.abs dn) * (E1 * bd * (E1 * bd))) by ring.
        rewrite <- Z.abs_mul, Z.abs_eq by nia. ring. }
    replace (bn * bn * (dd * E2 * (dd * E2))) with (bn * (dd * E2) * (bn * (dd * E2))) by ring.
    exact Hsq.
Qed.

Lemma in_band_inv bn bd g : in_band bn bd g = true ->
  exists s a d n m, tnu_sq g = Some (s, a, d) /\ tnu_nu g = Some (n, m) /\ -1 <= s <= 1 /\ 0 <= a /\ 0 < d /\
                    tnu_boring bn bd g = true.
Proof.
  unfold in_band, tnu_wfb. intros Hb. apply andb_true_iff in Hb. destruct Hb as [Hw Hb].
  destruct (tnu_sq g) as [[[s a] d]|] eqn:Es; [|discriminate Hw].
  apply andb_true_iff in Hw. destruct Hw as [Hw W4]. apply andb_true_iff in Hw. destruct Hw as [Hw W3].
  apply andb_true_iff in Hw. destruct Hw as [W1 W2].
  apply Z.leb_le in W1, W2, W3. apply Z.ltb_lt in W4.
  destruct g as [s0 a0 d0 n m|dn dd n m|]; [exists s, a, d, n, m|exists s, a, d, n, m|discriminate Es];
    repeat split; try assumption; try reflexivity.
Qed.

Section WelchBoring.
  Variables H T bn bd : Z.
  Variable t_cdf : tnu -> option Z.           (* scipy.stats.t.cdf(t, df=nu) as a function of the statistic *)
  Hypothesis b_nonneg : 0 <= bn.
  Hypothesis bd_pos : 0 < bd.
  (* about the real boring_t and scipy's CDF at it (checked numerically by the harness for every nu that occurs) *)
  Hypothesis end_lo : forall n m c, t_cdf (TN (-1) (bn * bn) (bd * bd) n m) = Some c -> T <= 2 * c.
  Hypothesis end_hi : forall n m c, t_cdf (TN 1 (bn * bn) (bd * bd) n m) = Some c -> T <= 2 * (2 * H - c).
  (* assumptions about scipy, on [-boring_t, boring_t] and at one nu only *)
  Hypothesis t_mono : forall g g' c c', band_le bn bd g g' -> t_cdf g = Some c -> t_cdf g' = Some c' -> c <= c'.
  Hypothesis t_nan : forall g g', band_le bn bd g g' \/ band_le bn bd g' g -> t_cdf g = None -> t_cdf g' = None.

  Lemma end_pt_in_band s g n m : -1 <= s <= 1 -> tnu_nu g = Some (n, m) -> in_band bn bd (end_pt s bn bd g) = true.
  Proof.
    intros Hs En. unfold end_pt. rewrite En. unfold in_band, tnu_wfb. cbn [tnu_sq tnu_boring].
    rewrite Z.leb_refl, andb_true_r.
    repeat (apply andb_true_iff; split); try (apply Z.leb_le); try (apply Z.ltb_lt); nia.
  Qed.

  Lemma welch_skipped_ge : forall g c, in_band bn bd g = true -> gcdf t_cdf g = Some c ->
    T <= 2 * c /\ T <= 2 * (2 * H - c).
  Proof.
    apply (skipped_ge_ord tnu H T (gcdf t_cdf) (in_band bn bd) (band_le bn bd)
             (end_pt (-1) bn bd) (end_pt 1 bn bd)).
    - (* between *)
      intros g Hb. destruct (in_band_inv _ _ _ Hb) as (s & a & d & n & m & Es & En & Hs & Ha & Hd & Hbor).
      pose proof (tnu_boring_sq bn bd g s a d b_nonneg bd_pos Es Hbor) as Hsq.
      split.
      + split; [apply (end_pt_in_band (-1) g n m); [lia | exact En]|]. split; [exact Hb|].
        unfold end_pt. rewrite En. split; [reflexivity|]. unfold t_le. cbn [tnu_sq]. rewrite Es. nia.
      + split; [exact Hb|]. split; [apply (end_pt_in_band 1 g n m); [lia | exact En]|].
        unfold end_pt. rewrite En. split; [reflexivity|]. unfold t_le. cbn [tnu_sq]. rewrite Es. nia.
    - intros g c. unfold end_pt. destruct (tnu_nu g) as [[n m]|]; cbn [gcdf]; [apply end_lo | discriminate].
    - intros g c. unfold end_pt. destruct (tnu_nu g) as [[n m]|]; cbn [gcdf]; [apply end_hi | discriminate].
    - intros a a' c c' Hle. assert (Na : gcdf t_cdf a = t_cdf a /\ gcdf t_cdf a' = t_cdf a').
      { destruct Hle as (B1 & B2 & _ & _). destruct a, a'; try discriminate B1; try discriminate B2; split; reflexivity. }
      destruct Na as [-> ->]. apply t_mono. exact Hle.
    - intros a a' Hle. assert (Na : gcdf t_cdf a = t_cdf a /\ gcdf t_cdf a' = t_cdf a').
      { destruct Hle as [(B1 & B2 & _ & _)|(B2 & B1 & _ & _)]; destruct a, a'; try discriminate B1; try discriminate B2; split; reflexivity. }
      destruct Na as [-> ->]. apply t_nan. exact Hle.
  Qed.
End WelchBoring.

(* the statistics computed from summary rows are well formed *)
Lemma welch_gene_wf D c1 c2 : 0 < D -> welch_gene D c1 c2 = TN_nan \/ tnu_wfb (welch_gene D c1 c2) = true.
Proof.
  intros HD. unfold welch_gene.
  destruct ((c_n c1 <? 1) || (c_n c2 <? 1)) eqn:En; [left; reflexivity|right].
  cbv zeta.
  set (A := fl (radd (fl (rdivz (var_f D c1) (c_n c1))) (fl (rdivz (var_f D c2) (c_n c2))))).
  pose proof (fl_den_pos (radd (fl (rdivz (var_f D c1) (c_n c1))) (fl (rdivz (var_f D c2) (c_n c2))))) as PA.
  fold A in PA.
  assert (Pdd : 0 < snd (mdiff_f D c1 c2)) by (unfold mdiff_f; apply fl_den_pos).
  set (dn := fst (mdiff_f D c1 c2)) in *. set (dd := snd (mdiff_f D c1 c2)) in *.
  assert (Hsg : -1 <= Z.sgn dn <= 1) by (destruct dn; cbn; lia).
  destruct (0 <? fst A) eqn:EA.
  - apply Z.ltb_lt in EA. unfold tnu_wfb. cbn [tnu_sq].
    repeat (apply andb_true_iff; split); try (apply Z.leb_le); try (apply Z.ltb_lt); nia.
  - unfold tnu_wfb. cbn [tnu_sq].
    assert (P2 : 0 < EPS_NUM) by reflexivity.
    repeat (apply andb_true_iff; split); try (apply Z.leb_le); try (apply Z.ltb_lt); try lia; try nia.
Qed.

Theorem sdg_stats_sound_exact_welch_composed : forall st mask D H lo hi T bn bd t_cdf s1 s2 v up g,
  0 < D -> 0 < H -> 0 <= lo <= H -> H <= hi <= 2 * H -> T <= 2 * H ->
  - st_S st < q1_min (st_th st) -> q1_min (st_th st) < q1_th (st_th st) ->
  0 <= bn -> 0 < bd ->
  (forall n m c, t_cdf (TN (-1) (bn * bn) (bd * bd) n m) = Some c -> T <= 2 * c) ->
  (forall n m c, t_cdf (TN 1 (bn * bn) (bd * bd) n m) = Some c -> T <= 2 * (2 * H - c)) ->
  (forall g g' c c', band_le bn bd g g' -> t_cdf g = Some c -> t_cdf g' = Some c' -> c <= c') ->
  (forall g g', band_le bn bd g g' \/ band_le bn bd g' g -> t_cdf g = None -> t_cdf g' = None) ->
  sdg_stats st mask D H lo hi T (Some (bn, bd)) t_cdf s1 s2 = POk (v, up) -> nth_error v g = Some true ->
  exists l1 l2, cstats_of s1 = POk l1 /\ cstats_of s2 = POk l2 /\
    exists h, nth_error (correct_ttest (2 * H) 0 (welch_pvalues H lo hi None t_cdf (welch_genes D l1 l2))) g = Some h /\ h < T.
Proof.
  intros st mask D H lo hi T bn bd t_cdf s1 s2 v up g HD HH Hlo Hhi HT Hf Ho Hbn Hbd Elo Ehi Hmono Hnan Hs Hg.
  apply (sdg_stats_sound_exact_welch st mask D H lo hi T (Some (bn, bd)) t_cdf s1 s2 v up g HD HH Hlo Hhi HT Hf Ho); [|exact Hs|exact Hg].
  intros l1 l2 gc c _ _ Hin Hb Hc. cbn [gbrg] in Hb.
  apply (welch_skipped_ge H T bn bd t_cdf Hbn Hbd Elo Ehi Hmono Hnan gc c); [|exact Hc].
  unfold in_band. rewrite Hb, andb_true_r.
  unfold welch_genes in Hin. apply in_map_iff in Hin. destruct Hin as ([c1 c2] & <- & _). cbn [fst snd] in *.
  destruct (welch_gene_wf D c1 c2 HD) as [E|E]; [|exact E].
  rewrite E in Hc. discriminate Hc.
Qed.

(* ------------------------------------------------------------------ *)
(* a gene whose float variance is exactly 0.0 in both clusters is NOT RECORDED, whatever its means, when the
   oracle is NaN at nu = 0 (scipy: t.cdf(x, df=0) = nan - an assumption about scipy, observed by the harness) *)
Definition nan_at_nu_zero (t_cdf : tnu -> option Z) : Prop :=
  forall g n m, tnu_nu g = Some (n, m) -> n = 0 -> t_cdf g = None.

Lemma nth_error_map_some {A B} (f : A -> B) l g a : nth_error l g = Some a -> nth_error (map f l) g = Some (f a).
Proof. intros E. rewrite nth_error_map, E. reflexivity. Qed.

Theorem constant_gene_not_recorded : forall st mask D H lo hi T b t_cdf s1 s2 v up g l1 l2 c1 c2,
  0 < D -> 0 < H -> 0 <= lo <= H -> H <= hi <= 2 * H -> T <= 2 * H ->
  - st_S st < q1_min (st_th st) -> q1_min (st_th st) < q1_th (st_th st) ->
  nan_at_nu_zero t_cdf ->
  sdg_stats st mask D H lo hi T b t_cdf s1 s2 = POk (v, up) ->
  cstats_of s1 = POk l1 -> cstats_of s2 = POk l2 -> nth_error l1 g = Some c1 -> nth_error l2 g = Some c2 ->
  1 <= c_n c1 -> 1 <= c_n c2 -> fst (var_f D c1) = 0 -> fst (var_f D c2) = 0 ->
  (exists nud, welch_gene D c1 c2 = TN_tiny (fst (mdiff_f D c1 c2)) (snd (mdiff_f D c1 c2)) 0 nud) /\
  nth_error (welch_pvalues H lo hi b t_cdf (welch_genes D l1 l2)) g = Some (2 * H) /\
  nth_error v g <> Some true.
Proof.
  intros st mask D H lo hi T b t_cdf s1 s2 v up g l1 l2 c1 c2 HD HH Hlo Hhi HT Hf Ho Hnan Hs E1 E2 Hc1 Hc2 N1 N2 V1 V2.
  destruct (welch_zero_variance D c1 c2 N1 N2 V1 V2) as (nud & Eg).
  assert (Hp : nth_error (welch_pvalues H lo hi b t_cdf (welch_genes D l1 l2)) g = Some (2 * H)).
  { unfold welch_pvalues, welch_genes. rewrite !nth_error_map, nth_error_combine, Hc1, Hc2. cbn [option_map fst snd].
    rewrite Eg. rewrite (Hnan (TN_tiny (fst (mdiff_f D c1 c2)) (snd (mdiff_f D c1 c2)) 0 nud) 0 nud eq_refl eq_refl). f_equal. apply welch_p_nan; lia. }
  split; [exists nud; exact Eg|]. split; [exact Hp|].
  intros Hg.
  destruct (sdg_stats_sound st mask D H lo hi T b t_cdf s1 s2 v up g HD Hf Ho Hs Hg)
    as (_ & _ & l1' & l2' & c1' & c2' & E1' & E2' & _ & _ & (a & Ha & HaT) & _ & _).
  rewrite E1 in E1'. rewrite E2 in E2'. inversion E1'; inversion E2'; subst l1' l2'.
  destruct (restricted_holm_equiv (2 * H) T _ (welch_pvalues_range H lo hi b t_cdf (welch_genes D l1 l2) HH ltac:(lia) ltac:(lia) ltac:(lia)) HT)
    as (_ & _ & Hat).
  destruct (Hat g (2 * H) Hp) as (_ & Hk & _). destruct (Hk HT) as (Hkeep & _).
  rewrite Hkeep in Ha. assert (Ea : a = 2 * H) by congruence. lia.
Qed.

(* ------------------------------------------------------------------ *)
(* audit 4, A6: the cluster-size hypothesis of the model.  The real n_cells is an np.int64 and
   n**3 - n**2 is computed in int64; kterm computes it over Z.  The two agree for every n up to 2^21:
   the true value is below 2^63 (for n = 2^21 the intermediate n**3 = 2^63 wraps and the subtraction wraps
   back: the int64 result is still the true value). *)
Definition cells_in_int64_range (n : Z) : Prop := 0 <= n <= 2 ^ 21.
Lemma kterm_den_no_int64_wrap n : cells_in_int64_range n -> 0 <= n * n * n - n * n < 2 ^ 63.
Proof.
  unfold cells_in_int64_range. change (2 ^ 21) with 2097152. change (2 ^ 63) with 9223372036854775808.
  intros H. nia.
Qed.
(* ... and the bound is tight: the next size wraps *)
Lemma kterm_den_wraps_above : let n := 2 ^ 21 + 1 in 2 ^ 63 <= n * n * n - n * n.
Proof. vm_compute. discriminate. Qed.
