(* The routing invariant of run_type_assignment (C01, C03 routing part). *)
From Coq Require Import ZArith List Bool Lia Arith Permutation.
From CTM Require Import Base.Sx Base.ListX Base.SortX Model.Tree Model.Election Proofs.ElectionWBP.
Import ListNotations.
Open Scope Z_scope.

(* what the mapping needs of a taxonomy (all but the last clause follow from the validator, C10) *)
Record tree_ok (t : tree) : Prop := {
  tk_nonempty : t <> [];
  tk_top : nodes (hd [] t) <> [];
  tk_nodup : forall k, NoDup (nodes (nth k t []));
  tk_children_exist : forall k x c, (S k < length t)%nat ->
      In c (children_of (nth k t []) x) -> In c (nodes (nth (S k) t []));
  tk_disjoint : forall k x x' c, (S k < length t)%nat -> x <> x' ->
      In c (children_of (nth k t []) x) -> ~ In c (children_of (nth k t []) x');
  tk_has_child : forall k x, (S k < length t)%nat ->
      In x (nodes (nth k t [])) -> children_of (nth k t []) x <> []
}.

Section RoutingProofs.
Variable cell rng : Type.
Variable decide : rng -> option (nat * node) -> list node -> list cell -> list rec * rng.
(* decide is only ever called on a parent with at least two children, so that is all
   that is asked of it (asking it for every child list would be unsatisfiable: no record
   can name a member of the empty list) *)
Hypothesis decide_len : forall g p kids cs, (2 <= length kids)%nat -> length (fst (decide g p kids cs)) = length cs.
Hypothesis decide_kids : forall g p kids cs, (2 <= length kids)%nat ->
  Forall (fun r => In (asg r) kids) (fst (decide g p kids cs)).

Notation visit := (visit cell rng decide).
Notation do_level := (do_level cell rng decide).
Notation levels_from := (levels_from cell rng decide).
Notation state := (state rng).

Lemma pick_length (cells : list cell) idx :
  Forall (fun i => (i < length cells)%nat) idx -> length (pick cells idx) = length idx.
Proof.
  induction idx as [|i t IH]; intros H; cbn; [reflexivity|].
  inversion H; subst. unfold pick in *. cbn [flat_map]. rewrite app_length, IH by assumption.
  destruct (nth_error cells i) eqn:E; [reflexivity|]. apply nth_error_None in E. lia.
Qed.

(* effect of one visit *)
Lemma visit_spec cells li parent kids idx g res pa st' :
  Forall (fun i => (i < length cells)%nat) idx ->
  visit cells li parent kids idx (g, res, pa) = Ok st' ->
  (idx = [] /\ st' = (g, res, pa)) \/
  (idx <> [] /\ kids <> [] /\ exists rs g',
      length rs = length idx /\ Forall (fun r => In (asg r) kids) rs /\
      st' = (g', write_back res li idx rs, regroup idx rs ++ pa)).
Proof.
  intros Hidx H. unfold Election.visit in H.
  destruct idx as [|i0 idx']; [left; inversion H; auto|].
  right. split; [discriminate|].
  destruct kids as [|k0 kids']; [discriminate|]. split; [discriminate|].
  destruct kids' as [|k1 kids''].
  - inversion H; subst. exists (map (fun _ => trivial_rec k0) (i0 :: idx')), g.
    split; [apply map_length|]. split; [|reflexivity].
    apply Forall_forall. intros r Hr. apply in_map_iff in Hr. destruct Hr as (? & <- & _). cbn. auto.
  - destruct (decide g parent (k0 :: k1 :: kids'') (pick cells (i0 :: idx'))) as [rs g'] eqn:E.
    destruct (Nat.eqb (length rs) (length (i0 :: idx'))) eqn:El; [|discriminate].
    inversion H; subst. exists rs, g'. apply Nat.eqb_eq in El.
    split; [exact El|]. split; [|reflexivity].
    pose proof (decide_kids g parent (k0 :: k1 :: kids'') (pick cells (i0 :: idx')) ltac:(cbn; lia)) as Hk.
    rewrite E in Hk. exact Hk.
Qed.

Lemma visit_total cells li parent kids idx g res pa :
  Forall (fun i => (i < length cells)%nat) idx ->
  (idx <> [] -> kids <> []) ->
  exists st', visit cells li parent kids idx (g, res, pa) = Ok st'.
Proof.
  intros Hidx Hk. unfold Election.visit.
  destruct idx as [|i0 idx']; [eauto|].
  destruct kids as [|k0 kids']; [exfalso; apply Hk; [discriminate | reflexivity]|].
  destruct kids' as [|k1 kids'']; [eauto|].
  destruct (decide g parent (k0 :: k1 :: kids'') (pick cells (i0 :: idx'))) as [rs g'] eqn:E.
  pose proof (decide_len g parent (k0 :: k1 :: kids'') (pick cells (i0 :: idx')) ltac:(cbn; lia)) as Hl.
  rewrite E in Hl. cbn [fst] in Hl. rewrite pick_length in Hl by exact Hidx.
  rewrite Hl. rewrite Nat.eqb_refl. eauto.
Qed.

(* ---------------- shape of the table ---------------- *)
Definition shape (n L : nat) (res : table) : Prop :=
  length res = n /\ forall i, (i < n)%nat -> length (nth i res []) = L.

Lemma shape_write_back n L res li idx rs : shape n L res -> shape n L (write_back res li idx rs).
Proof.
  intros [H1 H2]. rewrite write_back_unfold. split.
  - rewrite fold_wb_length. exact H1.
  - intros i Hi. rewrite fold_wb_row_length. apply H2. exact Hi.
Qed.

(* ---------------- one level below a non-root level ---------------- *)
Section Level.
Variable t : tree.
Variable cells : list cell.
Hypothesis Ht : tree_ok t.
Let n := length cells.
Let L := length t.
Variable pli : nat.                    (* parent level index; child level = S pli *)
Hypothesis Hpli : (S pli < L)%nat.
Let lv := nth pli t [].
Variable res0 : table.                 (* table when the level starts *)
Variable pa_prev : pa_t.
Hypothesis Hshape0 : shape n L res0.
(* previously_assigned[parent_level] is exact *)
Hypothesis Hprev : forall x i, In i (lookup_pa pa_prev x) <->
    ((i < n)%nat /\ exists r, cellrec res0 i pli = Some r /\ asg r = x).
Hypothesis Hprev_nodup : forall x, NoDup (lookup_pa pa_prev x).

(* invariant of the fold over the parents; P = parents visited so far *)
Definition J (P : list node) (st : state) : Prop :=
  let '(_, res, pa) := st in
  shape n L res /\
  (forall i k, k <> S pli -> cellrec res i k = cellrec res0 i k) /\
  (forall i r0, (i < n)%nat -> cellrec res0 i pli = Some r0 -> In (asg r0) P ->
       exists r, cellrec res i (S pli) = Some r /\ In (asg r) (children_of lv (asg r0))) /\
  (forall x i, In i (lookup_pa pa x) <->
       ((i < n)%nat /\ exists r0 r, cellrec res0 i pli = Some r0 /\ In (asg r0) P /\
                                   cellrec res i (S pli) = Some r /\ asg r = x)) /\
  (forall x, NoDup (lookup_pa pa x)).

Lemma idx_in_range x : Forall (fun i => (i < length cells)%nat) (lookup_pa pa_prev x).
Proof. apply Forall_forall. intros i Hi. apply Hprev in Hi. tauto. Qed.

Lemma J_step P st x st' :
  ~ In x P ->
  J P st ->
  visit cells (S pli) (Some (pli, x)) (children_of lv x) (lookup_pa pa_prev x) st = Ok st' ->
  J (x :: P) st'.
Proof.
  destruct st as [[g res] pa]. intros HxP (Hsh & Hcol & HF & HG & HND) Hv.
  pose proof (idx_in_range x) as Hrange.
  pose proof (Hprev_nodup x) as NDidx.
  assert (Hidx_spec : forall i, In i (lookup_pa pa_prev x) <-> ((i < n)%nat /\ exists r, cellrec res0 i pli = Some r /\ asg r = x))
    by (intros i; apply Hprev).
  remember (lookup_pa pa_prev x) as idx eqn:Hidx_def.
  destruct (visit_spec _ _ _ _ _ _ _ _ _ Hrange Hv) as [[Hnil ->] | (Hne & Hkids & rs & g' & Hlen & Hrs & ->)].
  - (* no cell was routed to x *)
    unfold J. split; [exact Hsh|]. split; [exact Hcol|]. split; [|split; [|exact HND]].
    + intros i r0 Hi Hr0 [E | Hin]; [|eauto].
      exfalso. assert (In i idx) by (apply Hidx_spec; eauto). rewrite Hnil in H. destruct H.
    + intros c i. rewrite HG. split.
      * intros (Hi & r0 & r & H1 & H2 & H3 & H4). split; [exact Hi|]. exists r0, r. repeat split; auto. right; exact H2.
      * intros (Hi & r0 & r & H1 & [E | H2] & H3 & H4).
        -- exfalso. assert (In i idx) by (apply Hidx_spec; eauto). rewrite Hnil in H. destruct H.
        -- split; [exact Hi|]. exists r0, r. auto.
  - (* cells routed to x get a child of x *)
    set (res' := write_back res (S pli) idx rs).
    assert (Hhit : forall i r, In (i, r) (combine idx rs) -> cellrec res' i (S pli) = Some r).
    { intros i r Hin. unfold res'. rewrite write_back_unfold.
      assert (Hi : In i idx) by (eapply in_combine_l; exact Hin).
      apply Hidx_spec in Hi. destruct Hi as [Hi _].
      destruct Hsh as [Hs1 Hs2].
      apply fold_wb_hit; auto.
      - apply combine_fst_nodup. exact NDidx.
      - lia.
      - rewrite Hs2 by exact Hi. exact Hpli. }
    assert (Hmiss : forall i k, ~ In i idx -> cellrec res' i k = cellrec res i k).
    { intros i k Hni. unfold res'. rewrite write_back_unfold. apply fold_wb_other_row.
      intros Hin. apply Hni. apply in_map_iff in Hin. destruct Hin as ([i' r'] & E & Hin). cbn in E; subst.
      eapply in_combine_l; exact Hin. }
    assert (Hrs_in : forall i r, In (i, r) (combine idx rs) -> In (asg r) (children_of lv x)).
    { intros i r Hin. apply in_combine_r in Hin. rewrite Forall_forall in Hrs. apply Hrs. exact Hin. }
    unfold J. split; [apply shape_write_back; exact Hsh|].
    split.
    { intros i k Hk. fold res'. unfold res'. rewrite write_back_unfold, fold_wb_other_col by exact Hk. apply Hcol. exact Hk. }
    split.
    { intros i r0 Hi Hr0 Hin. fold res'.
      destruct (Z.eq_dec (asg r0) x) as [E | NE].
      - assert (Hii : In i idx) by (apply Hidx_spec; eauto).
        destruct (combine_in_fst idx rs i (eq_sym Hlen) Hii) as (r & Hr).
        exists r. split; [apply Hhit; exact Hr|]. rewrite E. eapply Hrs_in; exact Hr.
      - destruct Hin as [E | Hin]; [congruence|].
        assert (Hni : ~ In i idx).
        { intros Hii. apply Hidx_spec in Hii. destruct Hii as (_ & r & Hr & Ha). congruence. }
        rewrite Hmiss by exact Hni. apply HF; assumption. }
    split; [|intros c; rewrite lookup_regroup; destruct (zmem c (map asg rs)); [apply rows_of_nodup; exact NDidx | apply HND]].
    intros c i. rewrite lookup_regroup. fold res'.
    destruct (zmem c (map asg rs)) eqn:Ec.
    + rewrite in_rows_of. split.
      * intros (r & Hin & Ha).
        assert (Hii : In i idx) by (eapply in_combine_l; exact Hin).
        destruct (proj1 (Hidx_spec i) Hii) as (Hi & r0 & Hr0 & Hx).
        split; [exact Hi|]. exists r0, r. repeat split; auto. left. symmetry. exact Hx.
      * intros (Hi & r0 & r & Hr0 & HP & Hr & Ha).
        destruct (Z.eq_dec (asg r0) x) as [E | NE].
        -- assert (Hii : In i idx) by (apply Hidx_spec; eauto).
           destruct (combine_in_fst idx rs i (eq_sym Hlen) Hii) as (r' & Hr').
           pose proof (Hhit _ _ Hr') as Hh. rewrite Hh in Hr. inversion Hr; subst r'. eauto.
        -- exfalso. destruct HP as [E | HP]; [congruence|].
           assert (Hni : ~ In i idx).
           { intros Hii. apply Hidx_spec in Hii. destruct Hii as (_ & r1 & Hr1 & Ha1). congruence. }
           rewrite Hmiss in Hr by exact Hni.
           destruct (HF i r0 Hi Hr0 HP) as (r2 & Hr2 & Hc2). rewrite Hr2 in Hr. inversion Hr; subst r2.
           apply zmem_in in Ec. apply in_map_iff in Ec. destruct Ec as (r3 & E3 & Hin3).
           rewrite Forall_forall in Hrs. specialize (Hrs r3 Hin3). rewrite E3, <- Ha in Hrs.
           eapply (tk_disjoint t Ht pli (asg r0) x (asg r)); eauto.
    + assert (Hnot : forall j q0, cellrec res0 j pli = Some q0 -> In (asg q0) P -> ~ In j idx).
      { intros j r0 Hr0 HP Hii. apply Hidx_spec in Hii. destruct Hii as (_ & r1 & Hr1 & Hx1).
        rewrite Hr0 in Hr1. inversion Hr1; subst r1. subst x. contradiction. }
      rewrite HG. split.
      * intros (Hi & r0 & r & Hr0 & HP & Hr & Ha). split; [exact Hi|]. exists r0, r.
        repeat split; auto; [right; exact HP|].
        rewrite Hmiss by (eapply Hnot; eauto). exact Hr.
      * intros (Hi & r0 & r & Hr0 & [E | HP] & Hr & Ha).
        -- exfalso. assert (Hii : In i idx) by (apply Hidx_spec; eauto).
           destruct (combine_in_fst idx rs i (eq_sym Hlen) Hii) as (r' & Hr').
           pose proof (Hhit _ _ Hr') as Hh. rewrite Hh in Hr. inversion Hr; subst r'.
           apply zmem_false in Ec. apply Ec. apply in_map_iff. exists r. split; [exact Ha|].
           eapply in_combine_r; exact Hr'.
        -- split; [exact Hi|]. exists r0, r. repeat split; auto.
           rewrite Hmiss in Hr by (eapply Hnot; eauto). exact Hr.
Qed.

(* the fold over the sorted parents *)
Lemma J_fold xs P st st' :
  NoDup xs -> (forall x, In x xs -> ~ In x P) ->
  J P st ->
  fold_outcome (fun st'' x => visit cells (S pli) (Some (pli, x)) (children_of lv x) (lookup_pa pa_prev x) st'')
               xs st = Ok st' ->
  J (rev xs ++ P) st'.
Proof.
  revert P st. induction xs as [|x xs IH]; intros P st ND Hdis HJ Hf; cbn in Hf.
  - inversion Hf; subst. exact HJ.
  - destruct (visit cells (S pli) (Some (pli, x)) (children_of lv x) (lookup_pa pa_prev x) st) as [st1| | |] eqn:Ev;
      try discriminate.
    inversion ND; subst.
    cbn [rev]. rewrite <- app_assoc. cbn [app].
    apply (IH (x :: P) st1); auto.
    + intros y Hy [E | Hin]; [subst; contradiction | eapply Hdis; [right; exact Hy | exact Hin]].
    + eapply J_step; eauto. apply Hdis. left; reflexivity.
Qed.

Lemma J_fold_total xs P st :
  NoDup xs -> (forall x, In x xs -> ~ In x P) -> (forall x, In x xs -> In x (nodes lv)) ->
  J P st ->
  exists st', fold_outcome (fun st'' x => visit cells (S pli) (Some (pli, x)) (children_of lv x) (lookup_pa pa_prev x) st'')
               xs st = Ok st'.
Proof.
  revert P st. induction xs as [|x xs IH]; intros P st ND Hdis Hnodes HJ; cbn; [eauto|].
  destruct st as [[g res] pa].
  destruct (visit_total cells (S pli) (Some (pli, x)) (children_of lv x) (lookup_pa pa_prev x) g res pa
              (idx_in_range x)) as (st1 & Hv).
  { intros _. apply (tk_has_child t Ht pli x Hpli). apply Hnodes. left; reflexivity. }
  rewrite Hv. inversion ND; subst.
  apply (IH (x :: P) st1); auto.
  - intros y Hy [E | Hin]; [subst; contradiction | eapply Hdis; [right; exact Hy | exact Hin]].
  - intros y Hy. apply Hnodes. right; exact Hy.
  - eapply J_step; eauto. apply Hdis. left; reflexivity.
Qed.
End Level.

(* ---------------- the invariant across levels ---------------- *)
Section Levels.
Variable t : tree.
Variable cells : list cell.
Hypothesis Ht : tree_ok t.
Let n := length cells.
Let L := length t.

Definition Inv (li : nat) (st : state) : Prop :=
  let '(_, res, pa) := st in
  shape n L res /\
  (forall i k, (i < n)%nat -> (k < li)%nat ->
      exists r, cellrec res i k = Some r /\ In (asg r) (nodes (nth k t []))) /\
  (forall i k r r', (i < n)%nat -> (S k < li)%nat ->
      cellrec res i k = Some r -> cellrec res i (S k) = Some r' ->
      In (asg r') (children_of (nth k t []) (asg r))) /\
  ((0 < li)%nat ->
      (forall x i, In i (lookup_pa pa x) <->
         ((i < n)%nat /\ exists r, cellrec res i (li - 1) = Some r /\ asg r = x)) /\
      (forall x, NoDup (lookup_pa pa x))).

Lemma seq_range a len : Forall (fun i => (i < a + len)%nat) (seq a len).
Proof. apply Forall_forall. intros i Hi. apply in_seq in Hi. lia. Qed.

Lemma Inv_root g res pa st' :
  Inv 0 (g, res, pa) -> (0 < L)%nat ->
  do_level t cells 0 (g, res, pa) = Ok st' -> Inv 1 st'.
Proof.
  intros (Hsh & _ & _ & _) HL Hd. unfold Election.do_level in Hd.
  assert (Hrange : Forall (fun i => (i < length cells)%nat) (seq 0 (length cells))) by apply (seq_range 0).
  destruct (visit_spec _ _ _ _ _ _ _ _ _ Hrange Hd) as [[Hnil ->] | (Hne & Hkids & rs & g' & Hlen & Hrs & ->)].
  - assert (Hn0 : n = 0%nat) by (unfold n; destruct (length cells); [reflexivity | discriminate]).
    unfold Inv. split; [exact Hsh|]. split; [intros; lia|]. split; [intros; lia|].
    intros _. split; [|intros x; constructor].
    intros x i. cbn. split; [tauto | intros [Hi _]; lia].
  - set (idx := seq 0 (length cells)) in *.
    set (res' := write_back res 0 idx rs).
    assert (NDidx : NoDup idx) by apply seq_NoDup.
    assert (Hhit : forall i r, In (i, r) (combine idx rs) -> cellrec res' i 0 = Some r).
    { intros i r Hin. unfold res'. rewrite write_back_unfold.
      assert (Hi : In i idx) by (eapply in_combine_l; exact Hin).
      apply in_seq in Hi. destruct Hsh as [Hs1 Hs2].
      apply fold_wb_hit; auto.
      - apply combine_fst_nodup. exact NDidx.
      - fold n in Hi. lia.
      - rewrite Hs2 by (fold n in Hi; lia). exact HL. }
    assert (Hall : forall i, (i < n)%nat -> exists r, In (i, r) (combine idx rs)).
    { intros i Hi. apply combine_in_fst; [symmetry; exact Hlen|]. apply in_seq. fold n. lia. }
    unfold Inv. split; [apply shape_write_back; exact Hsh|].
    split.
    { intros i k Hi Hk. assert (k = 0%nat) by lia. subst k.
      destruct (Hall i Hi) as (r & Hr). exists r. split; [apply Hhit; exact Hr|].
      rewrite Forall_forall in Hrs. replace (nth 0 t []) with (hd [] t) by (destruct t; reflexivity).
      apply Hrs. eapply in_combine_r; exact Hr. }
    split; [intros; lia|].
    intros _. split.
    + intros c i. rewrite lookup_regroup. replace (1 - 1)%nat with 0%nat by lia. fold res'.
      destruct (zmem c (map asg rs)) eqn:Ec.
      * rewrite in_rows_of. split.
        -- intros (r & Hin & Ha). split; [|exists r; split; [apply Hhit; exact Hin | exact Ha]].
           apply in_combine_l in Hin. apply in_seq in Hin. fold n in Hin. lia.
        -- intros (Hi & r & Hr & Ha). destruct (Hall i Hi) as (r' & Hr').
           rewrite (Hhit _ _ Hr') in Hr. inversion Hr; subst. eauto.
      * cbn. split; [tauto|]. intros (Hi & r & Hr & Ha). destruct (Hall i Hi) as (r' & Hr').
        rewrite (Hhit _ _ Hr') in Hr. inversion Hr; subst r'.
        apply zmem_false in Ec. apply Ec. apply in_map_iff. exists r. split; [exact Ha|].
        eapply in_combine_r; exact Hr'.
    + intros c. rewrite lookup_regroup. destruct (zmem c (map asg rs)); [apply rows_of_nodup; exact NDidx | constructor].
Qed.

Lemma Inv_below pli g res pa st' :
  Inv (S pli) (g, res, pa) -> (S pli < L)%nat ->
  do_level t cells (S pli) (g, res, pa) = Ok st' -> Inv (S (S pli)) st'.
Proof.
  intros (Hsh & HB & HC & HD) HL Hd. destruct (HD ltac:(lia)) as [HD1 HD2].
  replace (S pli - 1)%nat with pli in HD1 by lia.
  unfold Election.do_level in Hd.
  set (lv := nth pli t []) in *.
  assert (HJ0 : J t cells pli res [] (g, res, [])).
  { unfold J. split; [exact Hsh|]. split; [reflexivity|]. split; [intros ? ? ? ? []|].
    split; [|intros x; constructor].
    intros x i. cbn. split; [tauto|]. intros (_ & r0 & r & _ & [] & _). }
  assert (HJ : J t cells pli res (rev (zsort (nodes lv)) ++ []) st').
  { eapply J_fold with (pa_prev := pa) (st := (g, res, [])); eauto.
    - apply zsort_nodup. apply (tk_nodup t Ht pli). }
  rewrite app_nil_r in HJ. destruct st' as [[g' res'] pa'].
  destruct HJ as (Hsh' & Hcol & HF & HG & HND).
  assert (Hvisited : forall x, In x (nodes lv) -> In x (rev (zsort (nodes lv)))).
  { intros x Hx. apply in_rev. rewrite rev_involutive. apply zsort_in. exact Hx. }
  unfold Inv. split; [exact Hsh'|].
  split.
  { intros i k Hi Hk. destruct (Nat.eq_dec k (S pli)) as [-> | NE].
    - destruct (HB i pli Hi ltac:(lia)) as (r0 & Hr0 & Hn0).
      destruct (HF i r0 Hi Hr0 (Hvisited _ Hn0)) as (r & Hr & Hc).
      exists r. split; [exact Hr|]. eapply (tk_children_exist t Ht pli); eauto.
    - rewrite Hcol by exact NE. apply HB; [exact Hi | lia]. }
  split.
  { intros i k r r' Hi Hk Hr Hr'. destruct (Nat.eq_dec k pli) as [-> | NE].
    - rewrite Hcol in Hr by lia.
      destruct (HB i pli Hi ltac:(lia)) as (r0 & Hr0 & Hn0).
      rewrite Hr0 in Hr. inversion Hr; subst r0.
      destruct (HF i r Hi Hr0 (Hvisited _ Hn0)) as (r2 & Hr2 & Hc).
      rewrite Hr2 in Hr'. inversion Hr'; subst. exact Hc.
    - rewrite Hcol in Hr by lia. rewrite Hcol in Hr' by lia. eapply HC; eauto. lia. }
  intros _. split; [|exact HND].
  intros x i. replace (S (S pli) - 1)%nat with (S pli) by lia. rewrite HG. split.
  - intros (Hi & r0 & r & _ & _ & Hr & Ha). eauto.
  - intros (Hi & r & Hr & Ha). split; [exact Hi|].
    destruct (HB i pli Hi ltac:(lia)) as (r0 & Hr0 & Hn0).
    exists r0, r. repeat split; auto.
Qed.

Lemma Inv_level li st st' :
  Inv li st -> (li < L)%nat -> do_level t cells li st = Ok st' -> Inv (S li) st'.
Proof.
  destruct st as [[g res] pa]. destruct li as [|pli].
  - intros H1 H2 H3. eapply Inv_root; eauto.
  - intros H1 H2 H3. eapply Inv_below; eauto.
Qed.

Lemma Inv_levels n_left li st st' :
  Inv li st -> (li + n_left = L)%nat -> levels_from t cells li n_left st = Ok st' -> Inv L st'.
Proof.
  revert li st. induction n_left as [|k IH]; intros li st HI Hsum Hl; cbn in Hl.
  - inversion Hl; subst. replace L with li by lia. exact HI.
  - destruct (do_level t cells li st) as [st1| | |] eqn:Ed; try discriminate.
    apply (IH (S li) st1); [|lia|exact Hl].
    eapply Inv_level; eauto. lia.
Qed.

Lemma nth_map_const {A B} (l : list A) (b d : B) i :
  (i < length l)%nat -> nth i (map (fun _ => b) l) d = b.
Proof. revert i. induction l as [|x l' IH]; intros [|i] H; cbn in *; try lia; auto. apply IH. lia. Qed.

Lemma Inv_init g : Inv 0 (g, empty_table cell t cells, []).
Proof.
  unfold Inv. split.
  - unfold shape, empty_table. split; [apply map_length|].
    intros i Hi. rewrite nth_map_const by exact Hi. apply map_length.
  - split; [intros; lia|]. split; [intros; lia|]. intros H; lia.
Qed.

(* totality of the level loop *)
Lemma level_total li st : Inv li st -> (li < L)%nat -> exists st', do_level t cells li st = Ok st'.
Proof.
  destruct st as [[g res] pa]. intros HI HL. destruct li as [|pli].
  - unfold Election.do_level. apply visit_total; [apply (seq_range 0)|].
    intros _. apply (tk_top t Ht).
  - destruct HI as (Hsh & HB & HC & HD). destruct (HD ltac:(lia)) as [HD1 HD2].
    replace (S pli - 1)%nat with pli in HD1 by lia.
    unfold Election.do_level.
    eapply J_fold_total with (pa_prev := pa) (P := @nil node) (res0 := res); eauto.
    + apply zsort_nodup. apply (tk_nodup t Ht pli).
    + intros x Hx. apply zsort_in. exact Hx.
    + unfold J. split; [exact Hsh|]. split; [reflexivity|]. split; [intros ? ? ? ? []|].
      split; [|intros x; constructor].
      intros x i. cbn. split; [tauto|]. intros (_ & r0 & r & _ & [] & _).
Qed.

Lemma levels_total n_left li st :
  Inv li st -> (li + n_left = L)%nat -> exists st', levels_from t cells li n_left st = Ok st'.
Proof.
  revert li st. induction n_left as [|k IH]; intros li st HI Hsum; cbn; [eauto|].
  destruct (level_total li st HI ltac:(lia)) as (st1 & E). rewrite E.
  apply IH; [|lia]. eapply Inv_level; eauto. lia.
Qed.
End Levels.

(* ---------------- trailing passes ---------------- *)
Lemma inherit_asg above row rs :
  inherit above row = Ok rs -> map (option_map asg) row = map (fun r => Some (asg r)) rs.
Proof.
  revert above rs. induction row as [|o row IH]; intros above rs H; cbn in H.
  - inversion H; reflexivity.
  - destruct o as [r|]; [|discriminate].
    destruct (inherit _ row) as [t'| | |] eqn:E; try discriminate.
    inversion H; subst. cbn. f_equal. eapply IH. exact E.
Qed.

Lemma inherit_total above row :
  (forall o, In o row -> o <> None) -> exists rs, inherit above row = Ok rs.
Proof.
  revert above. induction row as [|o row IH]; intros above H; cbn; [eauto|].
  destruct o as [r|]; [|exfalso; apply (H None); [left; reflexivity | reflexivity]].
  destruct (IH (Some match corr r with Some c => c | None => match above with Some a => a | None => one end end)
               (fun o Ho => H o (or_intror Ho))) as (rs & E).
  rewrite E. eauto.
Qed.

Lemma running_asg acc rs : map asg (running acc rs) = map asg rs.
Proof. revert acc. induction rs as [|r rs IH]; intros acc; cbn; [reflexivity|]. f_equal. apply IH. Qed.

Lemma running_length acc rs : length (running acc rs) = length rs.
Proof. revert acc. induction rs as [|r rs IH]; intros acc; cbn; [reflexivity|]. f_equal. apply IH. Qed.

Lemma path_ok_intro t row :
  length row = length t ->
  (forall k r, nth_error row k = Some r -> In (asg r) (nodes (nth k t []))) ->
  (forall k r r', nth_error row k = Some r -> nth_error row (S k) = Some r' ->
      In (asg r') (children_of (nth k t []) (asg r))) ->
  path_ok t row = true.
Proof.
  revert row. induction t as [|lv t' IH]; intros row Hlen Hn Hc.
  - destruct row; [reflexivity | discriminate].
  - destruct row as [|r row']; [discriminate|]. cbn [path_ok].
    apply andb_true_intro. split; [apply andb_true_intro; split|].
    + apply zmem_in. apply (Hn 0%nat r). reflexivity.
    + destruct t' as [|lv2 t'']; [reflexivity|].
      destruct row' as [|r' row'']; [cbn in Hlen; discriminate|].
      apply zmem_in. apply (Hc 0%nat r r'); reflexivity.
    + apply IH.
      * cbn in Hlen. lia.
      * intros k r0 H. apply (Hn (S k) r0). exact H.
      * intros k r0 r1 H1 H2. apply (Hc (S k) r0 r1); assumption.
Qed.

Lemma map_outcome_spec {A B} (f : A -> outcome B) l out :
  map_outcome f l = Ok out -> Forall2 (fun x y => f x = Ok y) l out.
Proof.
  revert out. induction l as [|x l' IH]; intros out H; cbn in H.
  - inversion H. constructor.
  - destruct (f x) as [y| | |] eqn:E; try discriminate.
    destruct (map_outcome f l') as [t'| | |] eqn:E2; try discriminate.
    inversion H; subst. constructor; [exact E | apply IH; reflexivity].
Qed.

Lemma map_outcome_total {A B} (f : A -> outcome B) l :
  (forall x, In x l -> exists y, f x = Ok y) -> exists out, map_outcome f l = Ok out.
Proof.
  induction l as [|x l' IH]; intros H; cbn; [eauto|].
  destruct (H x (or_introl eq_refl)) as (y & E). rewrite E.
  destruct (IH (fun z Hz => H z (or_intror Hz))) as (out & E2). rewrite E2. eauto.
Qed.

(* ---------------- the theorems ---------------- *)
Theorem routing_sound t cells g rows g' :
  tree_ok t ->
  run_type_assignment cell rng decide t cells g = Ok (rows, g') ->
  spec_routing t (length cells) rows = true.
Proof.
  intros Ht H. unfold run_type_assignment in H.
  destruct (levels_from t cells 0 (length t) (g, empty_table cell t cells, [])) as [[[g1 res] pa]| | |] eqn:El;
    try discriminate.
  pose proof (Inv_levels t cells Ht (length t) 0 _ _ (Inv_init t cells g) eq_refl El) as HI.
  destruct HI as ((Hs1 & Hs2) & HB & HC & _).
  match type of H with context [map_outcome ?f res] => destruct (map_outcome f res) as [rows'| | |] eqn:Em end;
    try discriminate.
  inversion H; subst rows' g1. clear H.
  apply map_outcome_spec in Em.
  unfold spec_routing. apply andb_true_intro. split.
  - apply Nat.eqb_eq. rewrite <- (Forall2_length _ _ _ Em). exact Hs1.
  - apply forallb_forall. intros row Hrow.
    apply In_nth_error in Hrow. destruct Hrow as (i & Hi).
    assert (Hilt : (i < length rows)%nat) by (apply nth_error_Some; congruence).
    rewrite <- (Forall2_length _ _ _ Em), Hs1 in Hilt.
    destruct (nth_error res i) as [orow|] eqn:Eo; [|apply nth_error_None in Eo; lia].
    pose proof (Forall2_nth_error _ _ _ _ _ _ Em Eo Hi) as Hf. cbn beta in Hf.
    destruct (inherit None orow) as [rs| | |] eqn:Ei; try discriminate.
    inversion Hf; subst row. clear Hf.
    pose proof (inherit_asg _ _ _ Ei) as Hasg.
    assert (Horow : nth i res [] = orow) by (apply nth_error_nth; exact Eo).
    assert (Hlen_o : length orow = length t) by (rewrite <- Horow; apply Hs2; exact Hilt).
    assert (Hlen_rs : length rs = length t).
    { rewrite <- Hlen_o. apply (f_equal (@length _)) in Hasg. rewrite !map_length in Hasg. lia. }
    (* k-th record of the final row has the assignment of the k-th table entry *)
    assert (Hk : forall k r, nth_error (running one rs) k = Some r ->
                 exists r0, cellrec res i k = Some r0 /\ asg r0 = asg r).
    { intros k r Hr.
      assert (Hka : nth_error (map asg (running one rs)) k = Some (asg r)) by (rewrite nth_error_map, Hr; reflexivity).
      rewrite running_asg in Hka.
      assert (Hkb : nth_error (map (fun r => Some (asg r)) rs) k = Some (Some (asg r))).
      { rewrite nth_error_map. rewrite nth_error_map in Hka. destruct (nth_error rs k); inversion Hka; reflexivity. }
      rewrite <- Hasg in Hkb. rewrite nth_error_map in Hkb.
      destruct (nth_error orow k) as [o|] eqn:Eok; [|discriminate].
      destruct o as [r0|]; [|discriminate]. cbn in Hkb.
      exists r0. split; [|congruence]. unfold cellrec. rewrite Horow. apply nth_error_nth. exact Eok. }
    apply path_ok_intro.
    + rewrite running_length. exact Hlen_rs.
    + intros k r Hr. destruct (Hk k r Hr) as (r0 & Hr0 & Ha). rewrite <- Ha.
      assert (Hklt : (k < length t)%nat).
      { assert (Hlt : (k < length (running one rs))%nat) by (apply nth_error_Some; congruence).
        rewrite running_length in Hlt. lia. }
      destruct (HB i k Hilt Hklt) as (r1 & Hr1 & Hn1). rewrite Hr0 in Hr1. inversion Hr1; subst. exact Hn1.
    + intros k r r' Hr Hr'. destruct (Hk k r Hr) as (r0 & Hr0 & Ha). destruct (Hk (S k) r' Hr') as (r1 & Hr1 & Ha1).
      rewrite <- Ha, <- Ha1.
      assert (Hklt : (S k < length t)%nat).
      { assert (Hlt : (S k < length (running one rs))%nat) by (apply nth_error_Some; congruence).
        rewrite running_length in Hlt. lia. }
      eapply HC; eauto.
Qed.

Theorem routing_total t cells g :
  tree_ok t -> exists rows g', run_type_assignment cell rng decide t cells g = Ok (rows, g').
Proof.
  intros Ht. unfold run_type_assignment.
  destruct (levels_total t cells Ht (length t) 0 _ (Inv_init t cells g) eq_refl) as ([[g1 res] pa] & El).
  rewrite El.
  pose proof (Inv_levels t cells Ht (length t) 0 _ _ (Inv_init t cells g) eq_refl El) as HI.
  destruct HI as ((Hs1 & Hs2) & HB & _ & _).
  match goal with |- context [map_outcome ?f res] =>
    destruct (map_outcome_total f res) as (out & Eo) end.
  - intros orow Hin. apply In_nth_error in Hin. destruct Hin as (i & Hi).
    assert (Hilt : (i < length cells)%nat) by (rewrite <- Hs1; apply nth_error_Some; congruence).
    assert (Horow : nth i res [] = orow) by (apply nth_error_nth; exact Hi).
    destruct (inherit_total None orow) as (rs & E).
    + intros o Ho. apply In_nth_error in Ho. destruct Ho as (k & Hk).
      assert (Hklt : (k < length t)%nat).
      { rewrite <- (Hs2 i Hilt), Horow. apply nth_error_Some. congruence. }
      destruct (HB i k Hilt Hklt) as (r & Hr & _). unfold cellrec in Hr. rewrite Horow in Hr.
      erewrite nth_error_nth in Hr by exact Hk. congruence.
    + rewrite E. eauto.
  - rewrite Eo. eauto.
Qed.
End RoutingProofs.

(* ---------------- a decision procedure that meets the hypotheses (non-vacuity) ---------------- *)
Lemma last_in {A} (l : list A) d : l <> [] -> In (last l d) l.
Proof.
  induction l as [|x t IH]; intros H; [congruence|].
  destruct t as [|y t']; [left; reflexivity|]. right. apply IH. discriminate.
Qed.

Definition ends_decide (g : nat) (p : option (nat * node)) (kids : list node) (cs : list Z) : list rec * nat :=
  (map (fun c => {| asg := if Z.even c then hd 0 kids else last kids 0; prob := (3, 4); corr := Some (1, 2);
                    runners := []; agg := one |}) cs, S g).

Lemma ends_decide_ok :
  (forall g p kids cs, (2 <= length kids)%nat -> length (fst (ends_decide g p kids cs)) = length cs) /\
  (forall g p kids cs, (2 <= length kids)%nat -> Forall (fun r => In (asg r) kids) (fst (ends_decide g p kids cs))).
Proof.
  split; intros g p kids cs Hk; cbn [ends_decide fst].
  - apply map_length.
  - apply Forall_forall. intros r Hr. apply in_map_iff in Hr. destruct Hr as (c & <- & _). cbn [asg].
    destruct kids as [|k0 kids']; [cbn in Hk; lia|].
    destruct (Z.even c); [left; reflexivity | apply last_in; discriminate].
Qed.
