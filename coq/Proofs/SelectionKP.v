(* Lemmas about Model/SelectionK.v (C12 for every genes_at_a_time = k >= 1). *)
From Coq Require Import ZArith List Bool Arith Lia Permutation.
From CTM Require Import Base.Sx Base.ListX Base.SortX Model.Tree Model.Selection Model.SelectionK
                        Proofs.SelectionP.
Import ListNotations.
Local Open Scope nat_scope.

Section SelKP.
Variable n_genes : nat.
Variable pairs : list nat.
Variable marks : nat -> slot -> bool.
Variable n : nat.

Notation genes := (genes n_genes).
Notation slots := (slots pairs).
Notation census := (census n_genes marks).
Notation are_possible := (are_possible n_genes marks n).
Notation update_filled := (update_filled n_genes pairs marks n).
Notation newly := (newly n_genes marks n).
Notation choose := (choose marks).
Notation step := (step n_genes pairs marks n).
Notation finished := (finished n_genes pairs).
Notation max_utility := (max_utility n_genes).
Notation all_filled := (all_filled pairs).
Notation desperate := (desperate n_genes pairs marks n).
Notation start := (start n_genes pairs marks n).
Notation run := (run n_genes pairs marks n).
Notation init := (init pairs marks).
Notation cnt := (cnt marks).
Notation util := (util pairs marks).
Notation fillable := (fillable n_genes marks n).
Notation J := (J n_genes pairs marks n).
Notation refresh := (refresh n_genes pairs marks n).
Notation pool0 := (pool0 n_genes pairs marks n).

(* ------------------------------------------------------------------ the invariant without "useful" *)
(* J of SelectionP.v minus J_useful: for k >= 2 a chosen gene need not mark any slot *)
Record JK (st : state) : Prop := {
  JK_nodup : NoDup (chosen st);
  JK_genes : forall g, In g (chosen st) -> g < n_genes;
  JK_counts : forall s, counts st s = cnt (chosen st) s;
  JK_aggr : forall p, aggr st p = counts st (p, false) + counts st (p, true);
  JK_util : forall g, ~ In g (chosen st) -> utility st g = Z.of_nat (util (filled st) g);
  JK_taken : forall g, In g (chosen st) -> (utility st g < 0)%Z;
  JK_filled : forall s, filled st s = true -> In s slots /\ fillable st s
}.

Lemma J_JK st : J st -> JK st.
Proof.
  intros H. constructor.
  - apply (J_nodup _ _ _ _ _ H).
  - apply (J_genes _ _ _ _ _ H).
  - apply (J_counts _ _ _ _ _ H).
  - apply (J_aggr _ _ _ _ _ H).
  - apply (J_util _ _ _ _ _ H).
  - apply (J_taken _ _ _ _ _ H).
  - apply (J_filled _ _ _ _ _ H).
Qed.

Lemma JK_start : JK start.
Proof. apply J_JK, J_start. Qed.

Lemma cntK_le_census st s : JK st -> cnt (chosen st) s <= census s.
Proof.
  intros HJ. unfold SelectionP.cnt, Selection.census. apply count_incl; [apply (JK_nodup _ HJ)|].
  intros g Hg _. apply genes_in. apply (JK_genes _ HJ). exact Hg.
Qed.

Lemma JK_update st : JK st -> JK (update_filled st).
Proof.
  intros HJ. constructor.
  - apply (JK_nodup _ HJ).
  - apply (JK_genes _ HJ).
  - apply (JK_counts _ HJ).
  - apply (JK_aggr _ HJ).
  - intros g Hg. change (chosen (update_filled st)) with (chosen st) in Hg.
    unfold Selection.update_filled at 1. cbn [utility].
    rewrite (JK_util _ HJ g Hg), (util_update n_genes pairs marks n st g). lia.
  - intros g Hg. change (chosen (update_filled st)) with (chosen st) in Hg.
    unfold Selection.update_filled. cbn [utility]. pose proof (JK_taken _ HJ g Hg). lia.
  - intros s Hs. rewrite filled_update in Hs. apply orb_true_iff in Hs. destruct Hs as [Hs|Hs].
    + destruct (JK_filled _ HJ s Hs) as [H1 H2]. split; [exact H1 | exact H2].
    + apply andb_true_iff in Hs. destruct Hs as [H1 H2]. apply existsb_slot in H2.
      split; [exact H2|]. apply newly_fillable in H1. apply H1.
Qed.

Lemma JK_choose st g : JK st -> ~ In g (chosen st) -> g < n_genes -> JK (choose st g).
Proof.
  intros HJ Hn Hg. constructor; cbn [Selection.choose chosen counts aggr filled utility].
  - apply NoDup_app; [apply (JK_nodup _ HJ) | repeat constructor; intros [] | ].
    intros x Hx [->|[]]. contradiction.
  - intros h Hh. apply in_app_iff in Hh. destruct Hh as [Hh|[<-|[]]]; [apply (JK_genes _ HJ h Hh) | exact Hg].
  - intros s. unfold SelectionP.cnt. rewrite count_app, count_cons, count_nil. rewrite (JK_counts _ HJ).
    unfold SelectionP.cnt, b2n. lia.
  - intros p. rewrite (JK_aggr _ HJ). lia.
  - intros h Hh. rewrite in_app_iff in Hh. destruct (Nat.eqb h g) eqn:E.
    + apply Nat.eqb_eq in E. subst. exfalso. apply Hh. right. left. reflexivity.
    + apply (JK_util _ HJ). tauto.
  - intros h Hh. destruct (Nat.eqb h g) eqn:E; [lia|].
    apply Nat.eqb_neq in E. apply in_app_iff in Hh. destruct Hh as [Hh|[->|[]]]; [apply (JK_taken _ HJ h Hh) | congruence].
  - intros s Hs. destruct (JK_filled _ HJ s Hs) as [H1 H2]. split; [exact H1 | apply fillable_choose; exact H2].
Qed.

Lemma chosenK_bound st : JK st -> length (chosen st) <= n_genes.
Proof.
  intros HJ. rewrite <- (seq_length n_genes 0). apply NoDup_incl_length; [apply (JK_nodup _ HJ)|].
  intros g Hg. apply genes_in. apply (JK_genes _ HJ g Hg).
Qed.

(* an unchosen gene never has a negative utility *)
Lemma JK_nonneg st g : JK st -> ~ In g (chosen st) -> (0 <= utility st g)%Z.
Proof. intros HJ Hn. rewrite (JK_util _ HJ g Hn). lia. Qed.

(* while the loop has not stopped, some unchosen gene carries the (positive) maximum *)
Lemma unfinished_top st : JK st -> finished st = false ->
  exists g0, g0 < n_genes /\ ~ In g0 (chosen st) /\ utility st g0 = max_utility st /\ (0 < max_utility st)%Z.
Proof.
  intros HJ F. apply (not_finished n_genes pairs marks) in F. destruct F as [F _].
  destruct (fold_max_in (map (utility st) genes) (-1)%Z) as [E|E].
  - unfold Selection.max_utility in F. rewrite E in F. lia.
  - apply in_map_iff in E. destruct E as (g0 & E & Hg0). fold (max_utility st) in E.
    exists g0. split; [apply genes_in; exact Hg0|]. split; [|split; [exact E | exact F]].
    intros Hc. pose proof (JK_taken _ HJ g0 Hc). lia.
Qed.

(* ------------------------------------------------------------------ the terminal state *)
Lemma terminalK_all_filled st0 :
  JK st0 -> finished (update_filled st0) = true -> forall s, In s slots -> filled (update_filled st0) s = true.
Proof.
  intros HJ F s Hs. pose proof (JK_update _ HJ) as HJ1.
  unfold Selection.finished in F. apply orb_true_iff in F. destruct F as [F|F]; [|apply (proj1 (all_filled_spec pairs _) F); exact Hs].
  apply Z.leb_le in F.
  destruct (filled (update_filled st0) s) eqn:Ef; [reflexivity|]. exfalso.
  assert (Hall : forall g, In g genes -> marks g s = true -> In g (chosen st0)).
  { intros g Hg Hm. destruct (nmem g (chosen st0)) eqn:E; [apply nmem_in; exact E|].
    apply nmem_false in E. exfalso.
    assert (Hu : (0 < utility (update_filled st0) g)%Z).
    { rewrite (JK_util _ HJ1 g E). assert (0 < util (filled (update_filled st0)) g); [|lia].
      apply count_pos. exists s. split; [exact Hs|]. rewrite Hm, Ef. reflexivity. }
    apply genes_in in Hg. pose proof (max_utility_ge n_genes (update_filled st0) g Hg). lia. }
  assert (Hc : census s <= counts st0 s).
  { rewrite (JK_counts _ HJ). unfold Selection.census, SelectionP.cnt.
    apply count_incl; [apply genes_nodup | exact Hall]. }
  rewrite (filled_update_in n_genes pairs marks n st0 s Hs) in Ef. apply orb_false_iff in Ef. destruct Ef as [E1 E2].
  unfold Selection.newly in E2. rewrite E1 in E2. cbn in E2.
  pose proof (cntK_le_census st0 s HJ) as Hle. rewrite <- (JK_counts _ HJ) in Hle.
  assert (E3 : (counts st0 s =? census s) = true) by (apply Nat.eqb_eq; lia).
  rewrite E3, orb_true_r in E2. discriminate.
Qed.

Lemma pairK_coverage st p :
  JK st -> fillable st (p, false) -> fillable st (p, true) ->
  Nat.min (2 * n) (census (p, false) + census (p, true)) <= aggr st p.
Proof.
  intros HJ Hd Hu. rewrite (JK_aggr _ HJ).
  pose proof (cntK_le_census st (p, false) HJ) as L1. pose proof (cntK_le_census st (p, true) HJ) as L2.
  rewrite <- (JK_counts _ HJ) in L1, L2.
  unfold SelectionP.fillable in Hd, Hu. cbn [fst] in Hd, Hu. rewrite (JK_aggr _ HJ) in Hd, Hu.
  assert (P : are_possible p = true -> n <= census (p, false) /\ n <= census (p, true)).
  { unfold Selection.are_possible. rewrite andb_true_iff, !Nat.leb_le. tauto. }
  destruct Hd as [[D1 D2]|[D|D]], Hu as [[U1 U2]|[U|U]]; try (apply P in D2); try (apply P in U2); lia.
Qed.

(* ------------------------------------------------------------------ the pool *)
(* sorted_utility_idx: duplicate-free, gene indices only, holds every unchosen gene *)
Record PI (st : state) (pool : list nat) : Prop := {
  PI_nodup : NoDup pool;
  PI_genes : forall g, In g pool -> g < n_genes;
  PI_all : forall g, g < n_genes -> ~ In g (chosen st) -> In g pool
}.

Lemma pool_remove_in g h pool : In h (pool_remove g pool) <-> In h pool /\ h <> g.
Proof.
  unfold pool_remove. rewrite filter_In, negb_true_iff, Nat.eqb_neq. tauto.
Qed.

Lemma PI_genes_all st : PI st genes.
Proof.
  constructor; [apply genes_nodup | intros g Hg; apply genes_in; exact Hg | intros g Hg _; apply genes_in; exact Hg].
Qed.

Lemma PI_refresh st pool : PI st pool -> PI (update_filled st) (refresh st pool).
Proof.
  intros H. unfold SelectionK.refresh. destruct (existsb (newly st) slots).
  - apply PI_genes_all.
  - destruct H as [H1 H2 H3]. constructor; auto.
Qed.

Lemma PI_choose st pool g : PI st pool -> PI (choose st g) (pool_remove g pool).
Proof.
  intros [H1 H2 H3]. constructor.
  - unfold pool_remove. apply NoDup_filter. exact H1.
  - intros h Hh. apply pool_remove_in in Hh. apply H2. tauto.
  - intros h Hh Hn. cbn [Selection.choose chosen] in Hn. rewrite in_app_iff in Hn.
    apply pool_remove_in. split; [apply H3; tauto|]. intros ->. apply Hn. right. left. reflexivity.
Qed.

Lemma PI_pool0 : PI start pool0.
Proof.
  unfold SelectionK.pool0. constructor.
  - apply NoDup_filter, genes_nodup.
  - intros g Hg. apply filter_In in Hg. apply genes_in. tauto.
  - intros g Hg Hn. apply filter_In. split; [apply genes_in; exact Hg|].
    apply negb_true_iff, nmem_false. exact Hn.
Qed.

(* ------------------------------------------------------------------ is_top *)
Lemma is_top_spec st pool g :
  is_top st pool g = true <-> In g pool /\ forall h, In h pool -> (utility st h <= utility st g)%Z.
Proof.
  unfold is_top. rewrite andb_true_iff, nmem_in, forallb_forall.
  split; intros [H1 H2]; split; auto; intros h Hh; specialize (H2 h Hh); apply Z.leb_le; exact H2.
Qed.

(* ------------------------------------------------------------------ one batch *)
Section Batch.
Variable k : nat.
Notation popk := (popk marks).
Notation stepk := (stepk n_genes pairs marks n k).
Notation runk := (runk n_genes pairs marks n k).
Notation greedyk := (greedyk n_genes pairs marks n k).
Notation popg := (popg marks).

(* shape of a successful batch: exactly j genes, appended in order; every popped gene was a member
   of the list, unchosen, not popped earlier in the batch, and of maximal utility (utility as it
   stood when the batch started) among the members not yet popped *)
Lemma popk_shape j : forall st pool batch st2 pool2,
  popk j st pool batch = POk st2 pool2 ->
  length batch = j /\ chosen st2 = chosen st ++ batch /\
  (forall h, In h pool2 <-> In h pool /\ ~ In h batch) /\
  (forall b1 g b2, batch = b1 ++ g :: b2 ->
     In g pool /\ ~ In g (chosen st) /\ ~ In g b1 /\
     forall h, In h pool -> ~ In h b1 -> (utility st h <= utility st g)%Z).
Proof.
  induction j as [|j IH]; intros st pool batch st2 pool2 H; cbn [SelectionK.popk] in H.
  - destruct batch as [|g b]; [|discriminate]. inversion H; subst. split; [reflexivity|].
    split; [rewrite app_nil_r; reflexivity|]. split; [intros h; cbn; tauto|].
    intros [|x b1] g b2 E; discriminate.
  - destruct pool as [|p0 pr] eqn:Ep; [destruct batch; discriminate|]. rewrite <- Ep in *.
    destruct batch as [|g b]; [discriminate|].
    destruct (is_top st pool g) eqn:T; [|discriminate].
    destruct (nmem g (chosen st)) eqn:C; [destruct b; discriminate|].
    apply nmem_false in C. apply is_top_spec in T. destruct T as [T1 T2].
    destruct (IH _ _ _ _ _ H) as (L & Ch & Pl & Lg).
    split; [cbn; lia|]. split; [rewrite Ch; cbn [Selection.choose chosen]; rewrite <- app_assoc; reflexivity|].
    split.
    + intros h. rewrite Pl, pool_remove_in. cbn [In]. split; intros A.
      * destruct A as [[A1 A2] A3]. split; [exact A1|]. intros [B|B]; [apply A2; symmetry; exact B | exact (A3 B)].
      * destruct A as [A1 A2]. split; [split; [exact A1 | intros B; apply A2; left; symmetry; exact B]|].
        intros B. apply A2. right. exact B.
    + intros [|x b1] g' b2 E; cbn in E; inversion E; subst.
      * split; [exact T1|]. split; [exact C|]. split; [intros []|]. intros h Hh _. apply T2. exact Hh.
      * destruct (Lg b1 g' b2 eq_refl) as (A1 & A2 & A3 & A4).
        apply pool_remove_in in A1. destruct A1 as [A1 A1'].
        cbn [Selection.choose chosen] in A2. rewrite in_app_iff in A2.
        split; [exact A1|]. split; [tauto|].
        split; [intros [B|B]; [congruence | contradiction]|].
        intros h Hh Hn. cbn [In] in Hn.
        assert (Hne : h <> x) by (intros ->; apply Hn; left; reflexivity).
        specialize (A4 h). cbn [Selection.choose utility] in A4.
        apply Nat.eqb_neq in Hne. rewrite Hne in A4.
        apply Nat.eqb_neq in A1'. rewrite A1' in A4.
        apply A4; [apply pool_remove_in; split; [exact Hh | apply Nat.eqb_neq; exact Hne] | tauto].
Qed.

Lemma popk_inv j : forall st pool batch st2 pool2,
  popk j st pool batch = POk st2 pool2 -> JK st -> PI st pool -> JK st2 /\ PI st2 pool2.
Proof.
  induction j as [|j IH]; intros st pool batch st2 pool2 H HJ HP; cbn [SelectionK.popk] in H.
  - destruct batch as [|g b]; [|discriminate]. inversion H; subst. auto.
  - destruct pool as [|p0 pr] eqn:Ep; [destruct batch; discriminate|]. rewrite <- Ep in *.
    destruct batch as [|g b]; [discriminate|].
    destruct (is_top st pool g) eqn:T; [|discriminate].
    destruct (nmem g (chosen st)) eqn:C; [destruct b; discriminate|].
    apply nmem_false in C. apply is_top_spec in T. destruct T as [T1 T2].
    apply (IH _ _ _ _ _ H).
    + apply JK_choose; [exact HJ | exact C | apply (PI_genes _ _ HP); exact T1].
    + apply PI_choose. exact HP.
Qed.

(* while the loop has not stopped, the first pop of a batch cannot raise and takes a gene of
   positive utility: only the LATER pops of a batch can go wrong *)
Lemma top_unfinished st pool g :
  JK st -> PI st pool -> finished st = false -> is_top st pool g = true ->
  ~ In g (chosen st) /\ g < n_genes /\ utility st g = max_utility st /\ (0 < utility st g)%Z.
Proof.
  intros HJ HP F T. apply is_top_spec in T. destruct T as [T1 T2].
  destruct (unfinished_top st HJ F) as (g0 & G1 & G2 & G3 & G4).
  pose proof (T2 g0 (PI_all _ _ HP g0 G1 G2)) as Hge.
  pose proof (PI_genes _ _ HP g T1) as Hg.
  pose proof (max_utility_ge n_genes st g Hg) as Hle.
  split; [|split; [exact Hg | split; lia]].
  intros Hc. pose proof (JK_taken _ HJ g Hc). lia.
Qed.

Lemma pool_nonempty_unfinished st pool : JK st -> PI st pool -> finished st = false -> pool <> [].
Proof.
  intros HJ HP F. destruct (unfinished_top st HJ F) as (g0 & G1 & G2 & _).
  pose proof (PI_all _ _ HP g0 G1 G2) as H. intros ->. destruct H.
Qed.

(* ------------------------------------------------------------------ runs *)
Lemma stepk_next st pool b st' pool' :
  stepk st pool b = SNext st' pool' ->
  finished (update_filled st) = false /\
  SelectionK.popk marks k (update_filled st) (refresh st pool) b = POk st' pool'.
Proof.
  unfold SelectionK.stepk. destruct (finished (update_filled st)); [discriminate|].
  destruct (SelectionK.popk marks k (update_filled st) (refresh st pool) b); try discriminate.
  intros H. inversion H; subst. auto.
Qed.

Lemma stepk_inv st pool b st' pool' :
  JK st -> PI st pool -> stepk st pool b = SNext st' pool' -> JK st' /\ PI st' pool'.
Proof.
  intros HJ HP H. apply stepk_next in H. destruct H as [_ H].
  apply (popk_inv _ _ _ _ _ _ H); [apply JK_update; exact HJ | apply PI_refresh; exact HP].
Qed.

Lemma runk_inv trace : forall st pool i st',
  JK st -> PI st pool -> runk st pool trace i = KDone st' ->
  JK st' /\ exists st0, JK st0 /\ st' = update_filled st0 /\ finished st' = true.
Proof.
  induction trace as [|b t IH]; intros st pool i st' HJ HP H; cbn [SelectionK.runk] in H.
  - destruct (finished (update_filled st)) eqn:F; [|discriminate]. inversion H; subst st'.
    split; [apply JK_update; exact HJ|]. exists st. auto.
  - destruct (stepk st pool b) as [st1 pool1|e|] eqn:S; [|destruct t; discriminate|discriminate].
    destruct (stepk_inv _ _ _ _ _ HJ HP S) as [HJ1 HP1]. apply (IH _ _ _ _ HJ1 HP1 H).
Qed.

Theorem batch_no_duplicates prefix batches st :
  replayk n_genes pairs marks n k prefix batches = KDone st -> NoDup (chosen st) /\ forall g, In g (chosen st) -> g < n_genes.
Proof.
  unfold replayk. destruct (list_eqb prefix (chosen start)); [|discriminate]. intros H.
  destruct (runk_inv _ _ _ _ _ JK_start PI_pool0 H) as [HJ _].
  split; [apply (JK_nodup _ HJ) | apply (JK_genes _ HJ)].
Qed.

Theorem batch_coverage prefix batches st :
  no_gene_both_ways marks ->
  replayk n_genes pairs marks n k prefix batches = KDone st ->
  forall p, In p pairs ->
    Nat.min (2 * n) (covered marks genes p) <= covered marks (chosen st) p.
Proof.
  intros Hb. unfold replayk. destruct (list_eqb prefix (chosen start)); [|discriminate]. intros H p Hp.
  destruct (runk_inv _ _ _ _ _ JK_start PI_pool0 H) as (HJ & st0 & HJ0 & -> & F).
  pose proof (terminalK_all_filled st0 HJ0 F) as Hall.
  assert (Hd : fillable (update_filled st0) (p, false)).
  { apply (JK_filled _ HJ). apply Hall. apply slot_in. exact Hp. }
  assert (Hu : fillable (update_filled st0) (p, true)).
  { apply (JK_filled _ HJ). apply Hall. apply slot_in. exact Hp. }
  pose proof (pairK_coverage _ p HJ Hd Hu) as C.
  rewrite !covered_split by exact Hb. rewrite (JK_aggr _ HJ), !(JK_counts _ HJ) in C. exact C.
Qed.
End Batch.
End SelKP.
