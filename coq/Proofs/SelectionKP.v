(* Lemmas about Model/SelectionK.v (C12 for every genes_at_a_time = k >= 1). *)
From Coq Require Import ZArith List Bool Arith Lia Permutation.
From CTM Require Import Base.Sx Base.ListX Base.SortX Model.Tree Model.Selection Model.SelectionK
                        Proofs.SelectionP.
Import ListNotations.
Local Open Scope nat_scope.

Section SelKP.
Variable n_genes : nat.
Variable pairs : list nat.
Variable marks : nat -> slot -> bool.
Variable n : nat.

Notation genes := (genes n_genes).
Notation slots := (slots pairs).
Notation census := (census n_genes marks).
Notation are_possible := (are_possible n_genes marks n).
Notation update_filled := (update_filled n_genes pairs marks n).
Notation newly := (newly n_genes marks n).
Notation choose := (choose marks).
Notation step := (step n_genes pairs marks n).
Notation finished := (finished n_genes pairs).
Notation max_utility := (max_utility n_genes).
Notation all_filled := (all_filled pairs).
Notation desperate := (desperate n_genes pairs marks n).
Notation start := (start n_genes pairs marks n).
Notation run := (run n_genes pairs marks n).
Notation init := (init pairs marks).
Notation cnt := (cnt marks).
Notation util := (util pairs marks).
Notation fillable := (fillable n_genes marks n).
Notation J := (J n_genes pairs marks n).
Notation refresh := (refresh n_genes pairs marks n).
Notation pool0 := (pool0 n_genes pairs marks n).

(* ------------------------------------------------------------------ the invariant without "useful" *)
(* J of SelectionP.v minus J_useful: for k >= 2 a chosen gene need not mark any slot *)
Record JK (st : state) : Prop := {
  JK_nodup : NoDup (chosen st);
  JK_genes : forall g, In g (chosen st) -> g < n_genes;
  JK_counts : forall s, counts st s = cnt (chosen st) s;
  JK_aggr : forall p, aggr st p = counts st (p, false) + counts st (p, true);
  JK_util : forall g, ~ In g (chosen st) -> utility st g = Z.of_nat (util (filled st) g);
  JK_taken : forall g, In g (chosen st) -> (utility st g < 0)%Z;
  JK_filled : forall s, filled st s = true -> In s slots /\ fillable st s
}.

Lemma J_JK st : J st -> JK st.
Proof.
  intros H. constructor.
  - apply (J_nodup _ _ _ _ _ H).
  - apply (J_genes _ _ _ _ _ H).
  - apply (J_counts _ _ _ _ _ H).
  - apply (J_aggr _ _ _ _ _ H).
  - apply (J_util _ _ _ _ _ H).
  - apply (J_taken _ _ _ _ _ H).
  - apply (J_filled _ _ _ _ _ H).
Qed.

Lemma JK_start : JK start.
Proof. apply J_JK, J_start. Qed.

Lemma cntK_le_census st s : JK st -> cnt (chosen st) s <= census s.
Proof.
  intros HJ. unfold SelectionP.cnt, Selection.census. apply count_incl; [apply (JK_nodup _ HJ)|].
  intros g Hg _. apply genes_in. apply (JK_genes _ HJ). exact Hg.
Qed.

Lemma JK_update st : JK st -> JK (update_filled st).
Proof.
  intros HJ. constructor.
  - apply (JK_nodup _ HJ).
  - apply (JK_genes _ HJ).
  - apply (JK_counts _ HJ).
  - apply (JK_aggr _ HJ).
  - intros g Hg. change (chosen (update_filled st)) with (chosen st) in Hg.
    unfold Selection.update_filled at 1. cbn [utility].
    rewrite (JK_util _ HJ g Hg), (util_update n_genes pairs marks n st g). lia.
  - intros g Hg. change (chosen (update_filled st)) with (chosen st) in Hg.
    unfold Selection.update_filled. cbn [utility]. pose proof (JK_taken _ HJ g Hg). lia.
  - intros s Hs. rewrite filled_update in Hs. apply orb_true_iff in Hs. destruct Hs as [Hs|Hs].
    + destruct (JK_filled _ HJ s Hs) as [H1 H2]. split; [exact H1 | exact H2].
    + apply andb_true_iff in Hs. destruct Hs as [H1 H2]. apply existsb_slot in H2.
      split; [exact H2|]. apply newly_fillable in H1. apply H1.
Qed.

Lemma JK_choose st g : JK st -> ~ In g (chosen st) -> g < n_genes -> JK (choose st g).
Proof.
  intros HJ Hn Hg. constructor; cbn [Selection.choose chosen counts aggr filled utility].
  - apply NoDup_app; [apply (JK_nodup _ HJ) | repeat constructor; intros [] | ].
    intros x Hx [->|[]]. contradiction.
  - intros h Hh. apply in_app_iff in Hh. destruct Hh as [Hh|[<-|[]]]; [apply (JK_genes _ HJ h Hh) | exact Hg].
  - intros s. unfold SelectionP.cnt. rewrite count_app, count_cons, count_nil. rewrite (JK_counts _ HJ).
    unfold SelectionP.cnt, b2n. lia.
  - intros p. rewrite (JK_aggr _ HJ). lia.
  - intros h Hh. rewrite in_app_iff in Hh. destruct (Nat.eqb h g) eqn:E.
    + apply Nat.eqb_eq in E. subst. exfalso. apply Hh. right. left. reflexivity.
    + apply (JK_util _ HJ). tauto.
  - intros h Hh. destruct (Nat.eqb h g) eqn:E; [lia|].
    apply Nat.eqb_neq in E. apply in_app_iff in Hh. destruct Hh as [Hh|[->|[]]]; [apply (JK_taken _ HJ h Hh) | congruence].
  - intros s Hs. destruct (JK_filled _ HJ s Hs) as [H1 H2]. split; [exact H1 | apply fillable_choose; exact H2].
Qed.

Lemma chosenK_bound st : JK st -> length (chosen st) <= n_genes.
Proof.
  intros HJ. rewrite <- (seq_length n_genes 0). apply NoDup_incl_length; [apply (JK_nodup _ HJ)|].
  intros g Hg. apply genes_in. apply (JK_genes _ HJ g Hg).
Qed.

(* an unchosen gene never has a negative utility *)
Lemma JK_nonneg st g : JK st -> ~ In g (chosen st) -> (0 <= utility st g)%Z.
Proof. intros HJ Hn. rewrite (JK_util _ HJ g Hn). lia. Qed.

(* while the loop has not stopped, some unchosen gene carries the (positive) maximum *)
Lemma unfinished_top st : JK st -> finished st = false ->
  exists g0, g0 < n_genes /\ ~ In g0 (chosen st) /\ utility st g0 = max_utility st /\ (0 < max_utility st)%Z.
Proof.
  intros HJ F. apply (not_finished n_genes pairs marks) in F. destruct F as [F _].
  destruct (fold_max_in (map (utility st) genes) (-1)%Z) as [E|E].
  - unfold Selection.max_utility in F. rewrite E in F. lia.
  - apply in_map_iff in E. destruct E as (g0 & E & Hg0). fold (max_utility st) in E.
    exists g0. split; [apply genes_in; exact Hg0|]. split; [|split; [exact E | exact F]].
    intros Hc. pose proof (JK_taken _ HJ g0 Hc). lia.
Qed.

(* ------------------------------------------------------------------ the terminal state *)
Lemma terminalK_all_filled st0 :
  JK st0 -> finished (update_filled st0) = true -> forall s, In s slots -> filled (update_filled st0) s = true.
Proof.
  intros HJ F s Hs. pose proof (JK_update _ HJ) as HJ1.
  unfold Selection.finished in F. apply orb_true_iff in F. destruct F as [F|F]; [|apply (proj1 (all_filled_spec pairs _) F); exact Hs].
  apply Z.leb_le in F.
  destruct (filled (update_filled st0) s) eqn:Ef; [reflexivity|]. exfalso.
  assert (Hall : forall g, In g genes -> marks g s = true -> In g (chosen st0)).
  { intros g Hg Hm. destruct (nmem g (chosen st0)) eqn:E; [apply nmem_in; exact E|].
    apply nmem_false in E. exfalso.
    assert (Hu : (0 < utility (update_filled st0) g)%Z).
    { rewrite (JK_util _ HJ1 g E). assert (0 < util (filled (update_filled st0)) g); [|lia].
      apply count_pos. exists s. split; [exact Hs|]. rewrite Hm, Ef. reflexivity. }
    apply genes_in in Hg. pose proof (max_utility_ge n_genes (update_filled st0) g Hg). lia. }
  assert (Hc : census s <= counts st0 s).
  { rewrite (JK_counts _ HJ). unfold Selection.census, SelectionP.cnt.
    apply count_incl; [apply genes_nodup | exact Hall]. }
  rewrite (filled_update_in n_genes pairs marks n st0 s Hs) in Ef. apply orb_false_iff in Ef. destruct Ef as [E1 E2].
  unfold Selection.newly in E2. rewrite E1 in E2. cbn in E2.
  pose proof (cntK_le_census st0 s HJ) as Hle. rewrite <- (JK_counts _ HJ) in Hle.
  assert (E3 : (counts st0 s =? census s) = true) by (apply Nat.eqb_eq; lia).
  rewrite E3, orb_true_r in E2. discriminate.
Qed.

Lemma pairK_coverage st p :
  JK st -> fillable st (p, false) -> fillable st (p, true) ->
  Nat.min (2 * n) (census (p, false) + census (p, true)) <= aggr st p.
Proof.
  intros HJ Hd Hu. rewrite (JK_aggr _ HJ).
  pose proof (cntK_le_census st (p, false) HJ) as L1. pose proof (cntK_le_census st (p, true) HJ) as L2.
  rewrite <- (JK_counts _ HJ) in L1, L2.
  unfold SelectionP.fillable in Hd, Hu. cbn [fst] in Hd, Hu. rewrite (JK_aggr _ HJ) in Hd, Hu.
  assert (P : are_possible p = true -> n <= census (p, false) /\ n <= census (p, true)).
  { unfold Selection.are_possible. rewrite andb_true_iff, !Nat.leb_le. tauto. }
  destruct Hd as [[D1 D2]|[D|D]], Hu as [[U1 U2]|[U|U]]; try (apply P in D2); try (apply P in U2); lia.
Qed.

(* ------------------------------------------------------------------ the pool *)
(* sorted_utility_idx: duplicate-free, gene indices only, holds every unchosen gene *)
Record PI (st : state) (pool : list nat) : Prop := {
  PI_nodup : NoDup pool;
  PI_genes : forall g, In g pool -> g < n_genes;
  PI_all : forall g, g < n_genes -> ~ In g (chosen st) -> In g pool
}.

Lemma pool_remove_in g h pool : In h (pool_remove g pool) <-> In h pool /\ h <> g.
Proof.
  unfold pool_remove. rewrite filter_In, negb_true_iff, Nat.eqb_neq. tauto.
Qed.

Lemma PI_genes_all st : PI st genes.
Proof.
  constructor; [apply genes_nodup | intros g Hg; apply genes_in; exact Hg | intros g Hg _; apply genes_in; exact Hg].
Qed.

Lemma PI_refresh st pool : PI st pool -> PI (update_filled st) (refresh st pool).
Proof.
  intros H. unfold SelectionK.refresh. destruct (existsb (newly st) slots).
  - apply PI_genes_all.
  - destruct H as [H1 H2 H3]. constructor; auto.
Qed.
End SelKP.
