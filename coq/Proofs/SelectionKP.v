(* Lemmas about Model/SelectionK.v (C12 for every genes_at_a_time = k >= 1). *)
From Coq Require Import ZArith List Bool Arith Lia Permutation.
From CTM Require Import Base.Sx Base.ListX Base.SortX Model.Tree Model.Selection Model.SelectionK
                        Proofs.SelectionP.
Import ListNotations.
Local Open Scope nat_scope.

Section SelKP.
Variable n_genes : nat.
Variable pairs : list nat.
Variable marks : nat -> slot -> bool.
Variable n : nat.

Notation genes := (genes n_genes).
Notation slots := (slots pairs).
Notation census := (census n_genes marks).
Notation are_possible := (are_possible n_genes marks n).
Notation update_filled := (update_filled n_genes pairs marks n).
Notation newly := (newly n_genes marks n).
Notation choose := (choose marks).
Notation step := (step n_genes pairs marks n).
Notation finished := (finished n_genes pairs).
Notation max_utility := (max_utility n_genes).
Notation all_filled := (all_filled pairs).
Notation desperate := (desperate n_genes pairs marks n).
Notation start := (start n_genes pairs marks n).
Notation run := (run n_genes pairs marks n).
Notation init := (init pairs marks).
Notation cnt := (cnt marks).
Notation util := (util pairs marks).
Notation fillable := (fillable n_genes marks n).
Notation J := (J n_genes pairs marks n).
Notation refresh := (refresh n_genes pairs marks n).
Notation pool0 := (pool0 n_genes pairs marks n).

(* ------------------------------------------------------------------ the invariant without "useful" *)
(* J of SelectionP.v minus J_useful: for k >= 2 a chosen gene need not mark any slot *)
Record JK (st : state) : Prop := {
  JK_nodup : NoDup (chosen st);
  JK_genes : forall g, In g (chosen st) -> g < n_genes;
  JK_counts : forall s, counts st s = cnt (chosen st) s;
  JK_aggr : forall p, aggr st p = counts st (p, false) + counts st (p, true);
  JK_util : forall g, ~ In g (chosen st) -> utility st g = Z.of_nat (util (filled st) g);
  JK_taken : forall g, In g (chosen st) -> (utility st g < 0)%Z;
  JK_filled : forall s, filled st s = true -> In s slots /\ fillable st s
}.

Lemma J_JK st : J st -> JK st.
Proof.
  intros H. constructor.
  - apply (J_nodup _ _ _ _ _ H).
  - apply (J_genes _ _ _ _ _ H).
  - apply (J_counts _ _ _ _ _ H).
  - apply (J_aggr _ _ _ _ _ H).
  - apply (J_util _ _ _ _ _ H).
  - apply (J_taken _ _ _ _ _ H).
  - apply (J_filled _ _ _ _ _ H).
Qed.

Lemma JK_start : JK start.
Proof. apply J_JK, J_start. Qed.

Lemma cntK_le_census st s : JK st -> cnt (chosen st) s <= census s.
Proof.
  intros HJ. unfold SelectionP.cnt, Selection.census. apply count_incl; [apply (JK_nodup _ HJ)|].
  intros g Hg _. apply genes_in. apply (JK_genes _ HJ). exact Hg.
Qed.

Lemma JK_update st : JK st -> JK (update_filled st).
Proof.
  intros HJ. constructor.
  - apply (JK_nodup _ HJ).
  - apply (JK_genes _ HJ).
  - apply (JK_counts _ HJ).
  - apply (JK_aggr _ HJ).
  - intros g Hg. change (chosen (update_filled st)) with (chosen st) in Hg.
    unfold Selection.update_filled at 1. cbn [utility].
    rewrite (JK_util _ HJ g Hg), (util_update n_genes pairs marks n st g). lia.
  - intros g Hg. change (chosen (update_filled st)) with (chosen st) in Hg.
    unfold Selection.update_filled. cbn [utility]. pose proof (JK_taken _ HJ g Hg). lia.
  - intros s Hs. rewrite filled_update in Hs. apply orb_true_iff in Hs. destruct Hs as [Hs|Hs].
    + destruct (JK_filled _ HJ s Hs) as [H1 H2]. split; [exact H1 | exact H2].
    + apply andb_true_iff in Hs. destruct Hs as [H1 H2]. apply existsb_slot in H2.
      split; [exact H2|]. apply newly_fillable in H1. apply H1.
Qed.

Lemma JK_choose st g : JK st -> ~ In g (chosen st) -> g < n_genes -> JK (choose st g).
Proof.
  intros HJ Hn Hg. constructor; cbn [Selection.choose chosen counts aggr filled utility].
  - apply NoDup_app; [apply (JK_nodup _ HJ) | repeat constructor; intros [] | ].
    intros x Hx [->|[]]. contradiction.
  - intros h Hh. apply in_app_iff in Hh. destruct Hh as [Hh|[<-|[]]]; [apply (JK_genes _ HJ h Hh) | exact Hg].
  - intros s. unfold SelectionP.cnt. rewrite count_app, count_cons, count_nil. rewrite (JK_counts _ HJ).
    unfold SelectionP.cnt, b2n. lia.
  - intros p. rewrite (JK_aggr _ HJ). lia.
  - intros h Hh. rewrite in_app_iff in Hh. destruct (Nat.eqb h g) eqn:E.
    + apply Nat.eqb_eq in E. subst. exfalso. apply Hh. right. left. reflexivity.
    + apply (JK_util _ HJ). tauto.
  - intros h Hh. destruct (Nat.eqb h g) eqn:E; [lia|].
    apply Nat.eqb_neq in E. apply in_app_iff in Hh. destruct Hh as [Hh|[->|[]]]; [apply (JK_taken _ HJ h Hh) | congruence].
  - intros s Hs. destruct (JK_filled _ HJ s Hs) as [H1 H2]. split; [exact H1 | apply fillable_choose; exact H2].
Qed.

Lemma chosenK_bound st : JK st -> length (chosen st) <= n_genes.
Proof.
  intros HJ. rewrite <- (seq_length n_genes 0). apply NoDup_incl_length; [apply (JK_nodup _ HJ)|].
  intros g Hg. apply genes_in. apply (JK_genes _ HJ g Hg).
Qed.

(* an unchosen gene never has a negative utility *)
Lemma JK_nonneg st g : JK st -> ~ In g (chosen st) -> (0 <= utility st g)%Z.
Proof. intros HJ Hn. rewrite (JK_util _ HJ g Hn). lia. Qed.

(* while the loop has not stopped, some unchosen gene carries the (positive) maximum *)
Lemma unfinished_top st : JK st -> finished st = false ->
  exists g0, g0 < n_genes /\ ~ In g0 (chosen st) /\ utility st g0 = max_utility st /\ (0 < max_utility st)%Z.
Proof.
  intros HJ F. apply (not_finished n_genes pairs marks) in F. destruct F as [F _].
  destruct (fold_max_in (map (utility st) genes) (-1)%Z) as [E|E].
  - unfold Selection.max_utility in F. rewrite E in F. lia.
  - apply in_map_iff in E. destruct E as (g0 & E & Hg0). fold (max_utility st) in E.
    exists g0. split; [apply genes_in; exact Hg0|]. split; [|split; [exact E | exact F]].
    intros Hc. pose proof (JK_taken _ HJ g0 Hc). lia.
Qed.

(* ------------------------------------------------------------------ the terminal state *)
Lemma terminalK_all_filled st0 :
  JK st0 -> finished (update_filled st0) = true -> forall s, In s slots -> filled (update_filled st0) s = true.
Proof.
  intros HJ F s Hs. pose proof (JK_update _ HJ) as HJ1.
  unfold Selection.finished in F. apply orb_true_iff in F. destruct F as [F|F]; [|apply (proj1 (all_filled_spec pairs _) F); exact Hs].
  apply Z.leb_le in F.
  destruct (filled (update_filled st0) s) eqn:Ef; [reflexivity|]. exfalso.
  assert (Hall : forall g, In g genes -> marks g s = true -> In g (chosen st0)).
  { intros g Hg Hm. destruct (nmem g (chosen st0)) eqn:E; [apply nmem_in; exact E|].
    apply nmem_false in E. exfalso.
    assert (Hu : (0 < utility (update_filled st0) g)%Z).
    { rewrite (JK_util _ HJ1 g E). assert (0 < util (filled (update_filled st0)) g); [|lia].
      apply count_pos. exists s. split; [exact Hs|]. rewrite Hm, Ef. reflexivity. }
    apply genes_in in Hg. pose proof (max_utility_ge n_genes (update_filled st0) g Hg). lia. }
  assert (Hc : census s <= counts st0 s).
  { rewrite (JK_counts _ HJ). unfold Selection.census, SelectionP.cnt.
    apply count_incl; [apply genes_nodup | exact Hall]. }
  rewrite (filled_update_in n_genes pairs marks n st0 s Hs) in Ef. apply orb_false_iff in Ef. destruct Ef as [E1 E2].
  unfold Selection.newly in E2. rewrite E1 in E2. cbn in E2.
  pose proof (cntK_le_census st0 s HJ) as Hle. rewrite <- (JK_counts _ HJ) in Hle.
  assert (E3 : (counts st0 s =? census s) = true) by (apply Nat.eqb_eq; lia).
  rewrite E3, orb_true_r in E2. discriminate.
Qed.

Lemma pairK_coverage st p :
  JK st -> fillable st (p, false) -> fillable st (p, true) ->
  Nat.min (2 * n) (census (p, false) + census (p, true)) <= aggr st p.
Proof.
  intros HJ Hd Hu. rewrite (JK_aggr _ HJ).
  pose proof (cntK_le_census st (p, false) HJ) as L1. pose proof (cntK_le_census st (p, true) HJ) as L2.
  rewrite <- (JK_counts _ HJ) in L1, L2.
  unfold SelectionP.fillable in Hd, Hu. cbn [fst] in Hd, Hu. rewrite (JK_aggr _ HJ) in Hd, Hu.
  assert (P : are_possible p = true -> n <= census (p, false) /\ n <= census (p, true)).
  { unfold Selection.are_possible. rewrite andb_true_iff, !Nat.leb_le. tauto. }
  destruct Hd as [[D1 D2]|[D|D]], Hu as [[U1 U2]|[U|U]]; try (apply P in D2); try (apply P in U2); lia.
Qed.

(* ------------------------------------------------------------------ the pool *)
(* sorted_utility_idx: duplicate-free, gene indices only, holds every unchosen gene *)
Record PI (st : state) (pool : list nat) : Prop := {
  PI_nodup : NoDup pool;
  PI_genes : forall g, In g pool -> g < n_genes;
  PI_all : forall g, g < n_genes -> ~ In g (chosen st) -> In g pool
}.

Lemma pool_remove_in g h pool : In h (pool_remove g pool) <-> In h pool /\ h <> g.
Proof.
  unfold pool_remove. rewrite filter_In, negb_true_iff, Nat.eqb_neq. tauto.
Qed.

Lemma PI_genes_all st : PI st genes.
Proof.
  constructor; [apply genes_nodup | intros g Hg; apply genes_in; exact Hg | intros g Hg _; apply genes_in; exact Hg].
Qed.

Lemma PI_refresh st pool : PI st pool -> PI (update_filled st) (refresh st pool).
Proof.
  intros H. unfold SelectionK.refresh. destruct (existsb (newly st) slots).
  - apply PI_genes_all.
  - destruct H as [H1 H2 H3]. constructor; auto.
Qed.

Lemma PI_choose st pool g : PI st pool -> PI (choose st g) (pool_remove g pool).
Proof.
  intros [H1 H2 H3]. constructor.
  - unfold pool_remove. apply NoDup_filter. exact H1.
  - intros h Hh. apply pool_remove_in in Hh. apply H2. tauto.
  - intros h Hh Hn. cbn [Selection.choose chosen] in Hn. rewrite in_app_iff in Hn.
    apply pool_remove_in. split; [apply H3; tauto|]. intros ->. apply Hn. right. left. reflexivity.
Qed.

Lemma PI_pool0 : PI start pool0.
Proof.
  unfold SelectionK.pool0. constructor.
  - apply NoDup_filter, genes_nodup.
  - intros g Hg. apply filter_In in Hg. apply genes_in. tauto.
  - intros g Hg Hn. apply filter_In. split; [apply genes_in; exact Hg|].
    apply negb_true_iff, nmem_false. exact Hn.
Qed.

(* ------------------------------------------------------------------ is_top *)
Lemma is_top_spec st pool g :
  is_top st pool g = true <-> In g pool /\ forall h, In h pool -> (utility st h <= utility st g)%Z.
Proof.
  unfold is_top. rewrite andb_true_iff, nmem_in, forallb_forall.
  split; intros [H1 H2]; split; auto; intros h Hh; specialize (H2 h Hh); apply Z.leb_le; exact H2.
Qed.

(* ------------------------------------------------------------------ one batch *)
Lemma exhausted_spec st pool :
  exhausted st pool = true <-> forall h, In h pool -> (utility st h <= 0)%Z.
Proof.
  unfold exhausted. rewrite forallb_forall. split; intros H h Hh; specialize (H h Hh); apply Z.leb_le; exact H.
Qed.

Section Batch.
Variable k : nat.
Notation popk := (popk marks).
Notation stepk := (stepk n_genes pairs marks n k).
Notation runk := (runk n_genes pairs marks n k).
Notation greedyk := (greedyk n_genes pairs marks n k).
Notation popg := (popg marks).

(* shape of a successful batch: at most j genes, appended in order; every popped gene was a member
   of the list, unchosen, not popped earlier in the batch, of POSITIVE utility and of maximal utility
   (utility as it stood when the batch started) among the members not yet popped; and if the batch
   has fewer than j genes, no member left has a positive utility *)
Lemma popk_shape j : forall st pool batch st2 pool2,
  popk j st pool batch = POk st2 pool2 ->
  length batch <= j /\ chosen st2 = chosen st ++ batch /\
  (forall h, In h pool2 <-> In h pool /\ ~ In h batch) /\
  (forall b1 g b2, batch = b1 ++ g :: b2 ->
     In g pool /\ ~ In g (chosen st) /\ ~ In g b1 /\ (0 < utility st g)%Z /\
     forall h, In h pool -> ~ In h b1 -> (utility st h <= utility st g)%Z) /\
  (length batch < j -> forall h, In h pool2 -> (utility st h <= 0)%Z).
Proof.
  induction j as [|j IH]; intros st pool batch st2 pool2 H; cbn [SelectionK.popk] in H.
  - destruct batch as [|g b]; [|discriminate]. inversion H; subst. split; [cbn; lia|].
    split; [rewrite app_nil_r; reflexivity|]. split; [intros h; cbn; tauto|].
    split; [intros [|x b1] g b2 E; discriminate | cbn; lia].
  - destruct pool as [|p0 pr] eqn:Ep.
    { destruct batch as [|g b]; [|discriminate]. inversion H; subst. split; [cbn; lia|].
      split; [rewrite app_nil_r; reflexivity|]. split; [intros h; cbn; tauto|].
      split; [intros [|x b1] g b2 E; discriminate | intros _ h []]. }
    rewrite <- Ep in *.
    destruct batch as [|g b].
    { destruct (exhausted st pool) eqn:X; [|discriminate]. inversion H; subst st2 pool2.
      split; [cbn; lia|]. split; [rewrite app_nil_r; reflexivity|]. split; [intros h; cbn; tauto|].
      split; [intros [|x b1] g b2 E; discriminate|]. intros _. apply exhausted_spec. exact X. }
    destruct (is_top st pool g) eqn:T; [|discriminate].
    destruct (utility st g <=? 0)%Z eqn:U; [discriminate|]. apply Z.leb_gt in U.
    destruct (nmem g (chosen st)) eqn:C; [destruct b; discriminate|].
    apply nmem_false in C. apply is_top_spec in T. destruct T as [T1 T2].
    destruct (IH _ _ _ _ _ H) as (L & Ch & Pl & Lg & Sh).
    split; [cbn; lia|]. split; [rewrite Ch; cbn [Selection.choose chosen]; rewrite <- app_assoc; reflexivity|].
    split; [|split].
    + intros h. rewrite Pl, pool_remove_in. cbn [In]. split; intros A.
      * destruct A as [[A1 A2] A3]. split; [exact A1|]. intros [B|B]; [apply A2; symmetry; exact B | exact (A3 B)].
      * destruct A as [A1 A2]. split; [split; [exact A1 | intros B; apply A2; left; symmetry; exact B]|].
        intros B. apply A2. right. exact B.
    + intros [|x b1] g' b2 E; cbn in E; inversion E; subst.
      * split; [exact T1|]. split; [exact C|]. split; [intros []|]. split; [exact U|]. intros h Hh _. apply T2. exact Hh.
      * destruct (Lg b1 g' b2 eq_refl) as (A1 & A2 & A3 & A5 & A4).
        apply pool_remove_in in A1. destruct A1 as [A1 A1'].
        cbn [Selection.choose chosen] in A2. rewrite in_app_iff in A2.
        assert (A1b : (g' =? x) = false) by (apply Nat.eqb_neq; exact A1').
        split; [exact A1|]. split; [tauto|].
        split; [intros [B|B]; [congruence | contradiction]|].
        split; [cbn [Selection.choose utility] in A5; rewrite A1b in A5; exact A5|].
        intros h Hh Hn. cbn [In] in Hn.
        assert (Hne : h <> x) by (intros ->; apply Hn; left; reflexivity).
        specialize (A4 h). cbn [Selection.choose utility] in A4.
        apply Nat.eqb_neq in Hne. rewrite Hne in A4. rewrite A1b in A4.
        apply A4; [apply pool_remove_in; split; [exact Hh | apply Nat.eqb_neq; exact Hne] | tauto].
    + intros Hl h Hh. cbn [length] in Hl. assert (Hl' : length b < j) by lia.
      pose proof (Sh Hl' h Hh) as A. apply Pl in Hh. destruct Hh as [Hh _]. apply pool_remove_in in Hh.
      destruct Hh as [_ Hne]. cbn [Selection.choose utility] in A. apply Nat.eqb_neq in Hne. rewrite Hne in A. exact A.
Qed.

Lemma popk_inv j : forall st pool batch st2 pool2,
  popk j st pool batch = POk st2 pool2 -> JK st -> PI st pool -> JK st2 /\ PI st2 pool2.
Proof.
  induction j as [|j IH]; intros st pool batch st2 pool2 H HJ HP; cbn [SelectionK.popk] in H.
  - destruct batch as [|g b]; [|discriminate]. inversion H; subst. auto.
  - destruct pool as [|p0 pr] eqn:Ep.
    { destruct batch as [|g b]; [|discriminate]. inversion H; subst. auto. }
    rewrite <- Ep in *.
    destruct batch as [|g b].
    { destruct (exhausted st pool); [|discriminate]. inversion H; subst. auto. }
    destruct (is_top st pool g) eqn:T; [|discriminate].
    destruct (utility st g <=? 0)%Z; [discriminate|].
    destruct (nmem g (chosen st)) eqn:C; [destruct b; discriminate|].
    apply nmem_false in C. apply is_top_spec in T. destruct T as [T1 T2].
    apply (IH _ _ _ _ _ H).
    + apply JK_choose; [exact HJ | exact C | apply (PI_genes _ _ HP); exact T1].
    + apply PI_choose. exact HP.
Qed.

(* the `raise RuntimeError("chose gene twice")` statement is unreachable: a gene is popped only if its
   utility is positive, a chosen gene has a negative utility *)
Lemma popk_no_raise j : forall st pool batch e,
  JK st -> PI st pool -> popk j st pool batch <> PErr e.
Proof.
  induction j as [|j IH]; intros st pool batch e HJ HP; cbn [SelectionK.popk].
  - destruct batch; discriminate.
  - destruct pool as [|p0 pr] eqn:Ep; [destruct batch; discriminate|]. rewrite <- Ep in *.
    destruct batch as [|g b]; [destruct (exhausted st pool); discriminate|].
    destruct (is_top st pool g) eqn:T; [|discriminate].
    destruct (utility st g <=? 0)%Z eqn:U; [discriminate|]. apply Z.leb_gt in U.
    apply is_top_spec in T. destruct T as [T1 T2].
    destruct (nmem g (chosen st)) eqn:C.
    + exfalso. apply nmem_in in C. pose proof (JK_taken _ HJ g C). lia.
    + apply nmem_false in C. apply IH.
      * apply JK_choose; [exact HJ | exact C | apply (PI_genes _ _ HP); exact T1].
      * apply PI_choose. exact HP.
Qed.

(* while the loop has not stopped, a member of maximal utility is unchosen and of positive utility *)
Lemma top_unfinished st pool g :
  JK st -> PI st pool -> finished st = false -> is_top st pool g = true ->
  ~ In g (chosen st) /\ g < n_genes /\ utility st g = max_utility st /\ (0 < utility st g)%Z.
Proof.
  intros HJ HP F T. apply is_top_spec in T. destruct T as [T1 T2].
  destruct (unfinished_top st HJ F) as (g0 & G1 & G2 & G3 & G4).
  pose proof (T2 g0 (PI_all _ _ HP g0 G1 G2)) as Hge.
  pose proof (PI_genes _ _ HP g T1) as Hg.
  pose proof (max_utility_ge n_genes st g Hg) as Hle.
  split; [|split; [exact Hg | split; lia]].
  intros Hc. pose proof (JK_taken _ HJ g Hc). lia.
Qed.

Lemma pool_nonempty_unfinished st pool : JK st -> PI st pool -> finished st = false -> pool <> [].
Proof.
  intros HJ HP F. destruct (unfinished_top st HJ F) as (g0 & G1 & G2 & _).
  pose proof (PI_all _ _ HP g0 G1 G2) as H. intros ->. destruct H.
Qed.

Lemma not_exhausted_unfinished st pool : JK st -> PI st pool -> finished st = false -> exhausted st pool = false.
Proof.
  intros HJ HP F. destruct (unfinished_top st HJ F) as (g0 & G1 & G2 & G3 & G4).
  destruct (exhausted st pool) eqn:X; [|reflexivity]. exfalso.
  pose proof (proj1 (exhausted_spec st pool) X g0 (PI_all _ _ HP g0 G1 G2)). lia.
Qed.

(* ... so the first test of a batch never stops it: a batch of the unfinished loop is not empty *)
Lemma popk_nonempty j st pool batch st2 pool2 :
  JK st -> PI st pool -> finished st = false ->
  SelectionK.popk marks (S j) st pool batch = POk st2 pool2 -> batch <> [].
Proof.
  intros HJ HP F H ->. cbn [SelectionK.popk] in H.
  pose proof (pool_nonempty_unfinished _ _ HJ HP F) as Hne.
  destruct pool as [|p0 pr] eqn:Ep; [congruence|]. rewrite <- Ep in *.
  rewrite (not_exhausted_unfinished _ _ HJ HP F) in H. discriminate.
Qed.

(* ------------------------------------------------------------------ runs *)
Lemma stepk_next st pool b st' pool' :
  stepk st pool b = SNext st' pool' ->
  finished (update_filled st) = false /\
  SelectionK.popk marks k (update_filled st) (refresh st pool) b = POk st' pool'.
Proof.
  unfold SelectionK.stepk. destruct (finished (update_filled st)); [discriminate|].
  destruct (SelectionK.popk marks k (update_filled st) (refresh st pool) b); try discriminate.
  intros H. inversion H; subst. auto.
Qed.

Lemma stepk_inv st pool b st' pool' :
  JK st -> PI st pool -> stepk st pool b = SNext st' pool' -> JK st' /\ PI st' pool'.
Proof.
  intros HJ HP H. apply stepk_next in H. destruct H as [_ H].
  apply (popk_inv _ _ _ _ _ _ H); [apply JK_update; exact HJ | apply PI_refresh; exact HP].
Qed.

Lemma stepk_no_raise st pool b e : JK st -> PI st pool -> stepk st pool b <> SRaise e.
Proof.
  intros HJ HP. unfold SelectionK.stepk. destruct (finished (update_filled st)); [discriminate|].
  pose proof (popk_no_raise k (update_filled st) (refresh st pool) b) as H.
  destruct (SelectionK.popk marks k (update_filled st) (refresh st pool) b) as [x y|e'|] eqn:E; try discriminate.
  exfalso. apply (H e'); [apply JK_update; exact HJ | apply PI_refresh; exact HP | reflexivity].
Qed.

Lemma runk_inv trace : forall st pool i st',
  JK st -> PI st pool -> runk st pool trace i = KDone st' ->
  JK st' /\ exists st0, JK st0 /\ st' = update_filled st0 /\ finished st' = true.
Proof.
  induction trace as [|b t IH]; intros st pool i st' HJ HP H; cbn [SelectionK.runk] in H.
  - destruct (finished (update_filled st)) eqn:F; [|discriminate]. inversion H; subst st'.
    split; [apply JK_update; exact HJ|]. exists st. auto.
  - destruct (stepk st pool b) as [st1 pool1|e|] eqn:S; [|destruct t; discriminate|discriminate].
    destruct (stepk_inv _ _ _ _ _ HJ HP S) as [HJ1 HP1]. apply (IH _ _ _ _ HJ1 HP1 H).
Qed.

(* no sequence of batches, legal or not, drives the loop into the exception *)
Theorem runk_never_raises trace : forall st pool i e,
  JK st -> PI st pool -> runk st pool trace i <> KRaise e.
Proof.
  induction trace as [|b t IH]; intros st pool i e HJ HP; cbn [SelectionK.runk].
  - destruct (finished (update_filled st)); discriminate.
  - destruct (stepk st pool b) as [st1 pool1|e1|] eqn:S.
    + destruct (stepk_inv _ _ _ _ _ HJ HP S) as [HJ1 HP1]. apply IH; assumption.
    + exfalso. exact (stepk_no_raise _ _ _ _ HJ HP S).
    + discriminate.
Qed.

Theorem batch_no_duplicates prefix batches st :
  replayk n_genes pairs marks n k prefix batches = KDone st -> NoDup (chosen st) /\ forall g, In g (chosen st) -> g < n_genes.
Proof.
  unfold replayk. destruct (list_eqb prefix (chosen start)); [|discriminate]. intros H.
  destruct (runk_inv _ _ _ _ _ JK_start PI_pool0 H) as [HJ _].
  split; [apply (JK_nodup _ HJ) | apply (JK_genes _ HJ)].
Qed.

Theorem batch_coverage prefix batches st :
  no_gene_both_ways marks ->
  replayk n_genes pairs marks n k prefix batches = KDone st ->
  forall p, In p pairs ->
    Nat.min (2 * n) (covered marks genes p) <= covered marks (chosen st) p.
Proof.
  intros Hb. unfold replayk. destruct (list_eqb prefix (chosen start)); [|discriminate]. intros H p Hp.
  destruct (runk_inv _ _ _ _ _ JK_start PI_pool0 H) as (HJ & st0 & HJ0 & -> & F).
  pose proof (terminalK_all_filled st0 HJ0 F) as Hall.
  assert (Hd : fillable (update_filled st0) (p, false)).
  { apply (JK_filled _ HJ). apply Hall. apply slot_in. exact Hp. }
  assert (Hu : fillable (update_filled st0) (p, true)).
  { apply (JK_filled _ HJ). apply Hall. apply slot_in. exact Hp. }
  pose proof (pairK_coverage _ p HJ Hd Hu) as C.
  rewrite !covered_split by exact Hb. rewrite (JK_aggr _ HJ), !(JK_counts _ HJ) in C. exact C.
Qed.

Theorem batch_never_raises prefix batches e :
  replayk n_genes pairs marks n k prefix batches <> KRaise e.
Proof.
  unfold replayk. destruct (list_eqb prefix (chosen start)); [|discriminate].
  apply runk_never_raises; [apply JK_start | apply PI_pool0].
Qed.

(* ------------------------------------------------------------------ legality of the trace *)
(* a batch has between 1 and k genes, appended in order, pairwise distinct.  Every gene popped in it:
   a gene of the thinned array that was unchosen when the batch was formed, of POSITIVE utility, and
   no gene that was unchosen then and has not been popped earlier in the batch had a larger utility
   (utility = the array as it stood when the batch was formed, i.e. after the update of this
   iteration).  The batch is shorter than k exactly when it ran out of useful genes: then no gene
   left unchosen has a positive utility *)
Theorem batch_trace_legal st pool batch st' pool' :
  JK st -> PI st pool -> stepk st pool batch = SNext st' pool' ->
  let st1 := update_filled st in
  (1 <= k -> 1 <= length batch) /\ length batch <= k /\
  chosen st' = chosen st ++ batch /\ NoDup batch /\
  (forall b1 g b2, batch = b1 ++ g :: b2 ->
    g < n_genes /\ ~ In g (chosen st) /\ (0 < utility st1 g)%Z /\
    forall h, h < n_genes -> ~ In h (chosen st) -> ~ In h b1 -> (utility st1 h <= utility st1 g)%Z) /\
  (length batch < k -> forall h, h < n_genes -> ~ In h (chosen st') -> (utility st1 h <= 0)%Z).
Proof.
  intros HJ HP H. cbv zeta. apply stepk_next in H. destruct H as [F H].
  pose proof (JK_update _ HJ) as HJ1. pose proof (PI_refresh _ _ HP) as HP1.
  destruct (popk_inv _ _ _ _ _ _ H HJ1 HP1) as [HJ2 HP2].
  destruct (popk_shape _ _ _ _ _ _ H) as (L & Ch & Pl & Lg & Sh).
  split.
  { intros Hk. destruct k as [|j]; [lia|]. pose proof (popk_nonempty _ _ _ _ _ _ HJ1 HP1 F H) as Hne.
    destruct batch; [congruence | cbn; lia]. }
  split; [exact L|]. split; [exact Ch|]. split; [|split].
  - (* NoDup: a gene is never popped twice in a batch *)
    clear - Lg. induction batch as [|x b IH] using rev_ind; [constructor|].
    apply NoDup_app; [|repeat constructor; intros []|].
    + apply IH. intros b1 g b2 E. apply (Lg b1 g (b2 ++ [x])). rewrite E, <- app_assoc. reflexivity.
    + intros y Hy [<-|[]]. destruct (Lg b x [] eq_refl) as (_ & _ & A & _). contradiction.
  - intros b1 g b2 E. destruct (Lg b1 g b2 E) as (A1 & A2 & _ & A5 & A4).
    split; [apply (PI_genes _ _ HP1); exact A1|]. split; [exact A2|]. split; [exact A5|].
    intros h Hh Hn Hb. apply A4; [|exact Hb]. apply (PI_all _ _ HP1); assumption.
  - intros Hl h Hh Hn. apply (Sh Hl). apply (PI_all _ _ HP2); assumption.
Qed.

(* every gene of every batch is a reference marker of a slot of the parent that was not yet filled
   when the batch was formed (its utility is positive) *)
Theorem batch_genes_are_markers st pool batch st' pool' g :
  JK st -> PI st pool -> stepk st pool batch = SNext st' pool' -> In g batch ->
  exists s, In s slots /\ marks g s = true /\ filled (update_filled st) s = false.
Proof.
  intros HJ HP H Hg. destruct (batch_trace_legal _ _ _ _ _ HJ HP H) as (_ & _ & _ & _ & Lg & _).
  apply in_split in Hg. destruct Hg as (b1 & b2 & E). destruct (Lg b1 g b2 E) as (_ & C & Pos & _).
  pose proof (JK_update _ HJ) as HJ1.
  change (chosen st) with (chosen (update_filled st)) in C.
  rewrite (JK_util _ HJ1 g C) in Pos.
  assert (P : 0 < util (filled (update_filled st)) g) by lia.
  apply count_pos in P. destruct P as (s & Hs & Hm). apply andb_true_iff in Hm.
  destruct Hm as [M1 M2]. apply negb_true_iff in M2. exists s. auto.
Qed.
End Batch.

(* ------------------------------------------------------------------ k = 1 is the model of Selection.v *)

Lemma step_cond_top st pool g :
  JK st -> PI st pool -> finished st = false ->
  is_top st pool g && negb (nmem g (chosen st)) =
  negb (nmem g (chosen st)) && nmem g genes && (utility st g =? max_utility st)%Z.
Proof.
  intros HJ HP F.
  destruct (is_top st pool g) eqn:T.
  - destruct (top_unfinished _ _ _ HJ HP F T) as (C & Hg & Hu & _).
    apply nmem_false in C. rewrite C. cbn.
    apply genes_in, nmem_in in Hg. rewrite Hg, Hu, Z.eqb_refl. reflexivity.
  - cbn [andb]. symmetry. apply not_true_is_false. intros A.
    apply andb_true_iff in A. destruct A as [A A3]. apply andb_true_iff in A. destruct A as [A1 A2].
    apply negb_true_iff, nmem_false in A1. apply nmem_in, genes_in in A2. apply Z.eqb_eq in A3.
    assert (T' : is_top st pool g = true).
    { apply is_top_spec. split; [apply (PI_all _ _ HP); assumption|].
      intros h Hh. rewrite A3. apply max_utility_ge. apply (PI_genes _ _ HP). exact Hh. }
    congruence.
Qed.

Theorem batch_one_is_run trace : forall st pool i,
  JK st -> PI st pool ->
  kres_opt (runk n_genes pairs marks n 1 st pool (map (fun g => [g]) trace) i) = run st trace.
Proof.
  induction trace as [|g t IH]; intros st pool i HJ HP; cbn [map SelectionK.runk Selection.run].
  - destruct (finished (update_filled st)); reflexivity.
  - unfold SelectionK.stepk, Selection.step.
    destruct (finished (update_filled st)) eqn:F; [reflexivity|].
    pose proof (JK_update _ HJ) as HJ1. pose proof (PI_refresh _ _ HP) as HP1.
    pose proof (step_cond_top _ _ g HJ1 HP1 F) as Hc.
    pose proof (pool_nonempty_unfinished _ _ HJ1 HP1 F) as Hne.
    rewrite <- Hc. clear Hc.
    cbn [SelectionK.popk]. destruct (refresh st pool) as [|p0 pr] eqn:Ep; [congruence|]. rewrite <- Ep in *.
    destruct (is_top (update_filled st) (refresh st pool) g) eqn:T; cbn [andb]; [|reflexivity].
    destruct (top_unfinished _ _ _ HJ1 HP1 F T) as (C & _ & _ & Pos).
    apply Z.leb_gt in Pos. rewrite Pos. apply nmem_false in C. rewrite C. cbn [negb].
    apply nmem_false in C. apply is_top_spec in T. destruct T as [T1 _].
    apply IH; [apply JK_choose; [exact HJ1 | exact C | apply (PI_genes _ _ HP1); exact T1] | apply PI_choose; exact HP1].
Qed.

(* with k = 1 the loop never raises, whatever batches are offered (an instance of runk_never_raises;
   it held before the repair of the batches as well) *)
Theorem batch_one_never_raises trace : forall st pool i e,
  JK st -> PI st pool -> runk n_genes pairs marks n 1 st pool trace i <> KRaise e.
Proof. exact (runk_never_raises 1 trace). Qed.

(* ------------------------------------------------------------------ termination *)
Section Fuel.
Variable k : nat.
Notation greedyk := (greedyk n_genes pairs marks n k).
Notation runk := (runk n_genes pairs marks n k).

Lemma first_top_spec st pool :
  match first_top st pool with
  | Some g => is_top st pool g = true
  | None => pool = []
  end.
Proof.
  unfold first_top.
  destruct (find (fun g => forallb (fun h => (utility st h <=? utility st g)%Z) pool) pool) as [g|] eqn:E.
  - apply find_some in E. destruct E as [E1 E2]. unfold is_top. apply nmem_in in E1. rewrite E1, E2. reflexivity.
  - destruct pool as [|p0 pr] eqn:Ep; [reflexivity|]. exfalso. rewrite <- Ep in *.
    (* a non-empty list has a member of maximal utility *)
    assert (Hmax : exists g, In g pool /\ forall h, In h pool -> (utility st h <= utility st g)%Z).
    { assert (Hn : pool <> []) by (rewrite Ep; discriminate). clear - Hn.
      induction pool as [|x r IH]; [congruence|]. destruct r as [|y r'].
      - exists x. split; [left; reflexivity|]. intros h [<-|[]]. lia.
      - destruct IH as (g & G1 & G2); [discriminate|].
        destruct (Z_le_gt_dec (utility st x) (utility st g)) as [Le|Gt].
        + exists g. split; [right; exact G1|]. intros h [<-|Hh]; [exact Le | apply G2; exact Hh].
        + exists x. split; [left; reflexivity|]. intros h [<-|Hh]; [lia | specialize (G2 h Hh); lia]. }
    destruct Hmax as (g & G1 & G2). pose proof (find_none _ _ E g G1) as Hf. cbv beta in Hf.
    assert (forallb (fun h => (utility st h <=? utility st g)%Z) pool = true); [|congruence].
    apply forallb_forall. intros h Hh. apply Z.leb_le. apply G2. exact Hh.
Qed.

(* the deterministic pops are a legal batch with the same outcome *)
Lemma popg_popk j : forall st pool,
  match popg marks j st pool with
  | GP st2 pool2 => exists batch, popk marks j st pool batch = POk st2 pool2
  | GPErr e => exists batch, popk marks j st pool batch = PErr e
  end.
Proof.
  induction j as [|j IH]; intros st pool; cbn [SelectionK.popg].
  - exists []. reflexivity.
  - pose proof (first_top_spec st pool) as Ft. destruct (first_top st pool) as [g|].
    + assert (Hp : pool <> []).
      { apply is_top_spec in Ft. destruct Ft as [Ft _]. intros ->. destruct Ft. }
      destruct (utility st g <=? 0)%Z eqn:U.
      { exists []. cbn [SelectionK.popk]. destruct pool as [|p0 pr] eqn:Ep; [congruence|]. rewrite <- Ep in *.
        assert (X : exhausted st pool = true).
        { apply exhausted_spec. intros h Hh. apply is_top_spec in Ft. destruct Ft as [_ Ft].
          specialize (Ft h Hh). apply Z.leb_le in U. lia. }
        rewrite X. reflexivity. }
      destruct (nmem g (chosen st)) eqn:C.
      * exists [g]. cbn [SelectionK.popk]. destruct pool; [congruence|]. rewrite Ft, U, C. reflexivity.
      * specialize (IH (choose st g) (pool_remove g pool)).
        destruct (popg marks j (choose st g) (pool_remove g pool)) as [st2 pool2|e];
          destruct IH as (b & Hb); exists (g :: b); cbn [SelectionK.popk];
          (destruct pool; [congruence|]); rewrite Ft, U, C; exact Hb.
    + subst pool. exists []. reflexivity.
Qed.

(* the fuelled loop ends in `break`: every pass that does not break chooses at least one new gene *)
Lemma greedyk_enough fuel : forall st pool i,
  1 <= k -> JK st -> PI st pool -> n_genes - length (chosen st) < fuel ->
  exists trace st', greedyk fuel st pool = GDone st' /\ runk st pool trace i = KDone st'.
Proof.
  induction fuel as [|f IH]; intros st pool i Hk HJ HP Hf; [lia|]. cbn [SelectionK.greedyk].
  destruct (finished (update_filled st)) eqn:F.
  - exists [], (update_filled st). cbn [SelectionK.runk]. rewrite F. split; reflexivity.
  - pose proof (JK_update _ HJ) as HJ1. pose proof (PI_refresh _ _ HP) as HP1.
    pose proof (popg_popk k (update_filled st) (refresh st pool)) as G.
    destruct (popg marks k (update_filled st) (refresh st pool)) as [st2 pool2|e].
    + destruct G as (b & Hb).
      destruct (popk_inv _ _ _ _ _ _ Hb HJ1 HP1) as [HJ2 HP2].
      destruct (popk_shape _ _ _ _ _ _ Hb) as (L & Ch & _).
      assert (Hne : b <> []).
      { destruct k as [|j]; [lia|]. apply (popk_nonempty _ _ _ _ _ _ HJ1 HP1 F Hb). }
      assert (Lb : 1 <= length b) by (destruct b; [congruence | cbn; lia]).
      pose proof (chosenK_bound _ HJ2) as B. rewrite Ch, app_length in B.
      change (chosen (update_filled st)) with (chosen st) in B.
      destruct (IH st2 pool2 (S i) Hk HJ2 HP2) as (tr & st' & G1 & G2).
      { rewrite Ch, app_length. change (chosen (update_filled st)) with (chosen st). lia. }
      exists (b :: tr), st'. split; [exact G1|]. cbn [SelectionK.runk]. unfold SelectionK.stepk. rewrite F, Hb. exact G2.
    + exfalso. destruct G as (b & Hb). exact (popk_no_raise _ _ _ _ _ HJ1 HP1 Hb).
Qed.

Theorem batch_terminates :
  1 <= k ->
  exists trace st,
    greedyk (S n_genes) start pool0 = GDone st /\
    replayk n_genes pairs marks n k (chosen start) trace = KDone st.
Proof.
  intros Hk. destruct (greedyk_enough (S n_genes) start pool0 0 Hk JK_start PI_pool0) as (tr & st & H1 & H2); [lia|].
  exists tr, st. split; [exact H1|]. unfold replayk.
  assert (E : list_eqb (chosen start) (chosen start) = true).
  { generalize (chosen start). intros l. induction l as [|x r IHl]; cbn; [reflexivity|].
    rewrite Nat.eqb_refl, IHl. reflexivity. }
  rewrite E. exact H2.
Qed.

(* every completed run chooses between 1 and k genes per pass and at most n_genes in all *)
Theorem batch_iterations_bounded trace : forall st pool i st',
  1 <= k -> JK st -> PI st pool -> runk st pool trace i = KDone st' ->
  length (chosen st) + length trace <= length (chosen st') /\
  length (chosen st') <= length (chosen st) + k * length trace /\ length (chosen st') <= n_genes.
Proof.
  induction trace as [|b t IH]; intros st pool i st' Hk HJ HP H.
  - destruct (runk_inv k _ _ _ _ _ HJ HP H) as [HJ' _].
    pose proof (chosenK_bound _ HJ') as B.
    cbn [SelectionK.runk] in H. destruct (finished (update_filled st)); [|discriminate].
    inversion H; subst. cbn in *. lia.
  - cbn [SelectionK.runk] in H.
    destruct (stepk n_genes pairs marks n k st pool b) as [st1 pool1|e|] eqn:S; [|destruct t; discriminate|discriminate].
    destruct (stepk_inv k _ _ _ _ _ HJ HP S) as [HJ1 HP1].
    destruct (IH _ _ _ _ Hk HJ1 HP1 H) as (E1 & E2 & B).
    destruct (batch_trace_legal k _ _ _ _ _ HJ HP S) as (L1 & L2 & Ch & _).
    specialize (L1 Hk). rewrite Ch, app_length in E1, E2. cbn [length]. nia.
Qed.
End Fuel.

(* ------------------------------------------------------------------ the executable statement *)
Theorem spec_batch_holds k prefix batches st :
  no_gene_both_ways marks ->
  replayk n_genes pairs marks n k prefix batches = KDone st ->
  spec_c12_batch n_genes pairs marks n (chosen st) = true.
Proof.
  intros Hb H. unfold spec_c12_batch. rewrite !andb_true_iff.
  destruct (batch_no_duplicates k _ _ _ H) as [ND Hg]. split; [split|].
  - apply nodup_b_spec. exact ND.
  - apply forallb_forall. intros g Hin. apply Nat.ltb_lt. apply Hg. exact Hin.
  - apply forallb_forall. intros p Hp. apply Nat.leb_le.
    pose proof (batch_coverage k _ _ _ Hb H p Hp) as C.
    rewrite (covered_split marks genes p Hb) in C. exact C.
Qed.
End SelKP.
