(* Lemmas about Model/Markers.v (C08). *)
From Coq Require Import ZArith List Bool Arith Lia Permutation.
From CTM Require Import Base.Sx Base.ListX Base.SortX Model.Tree Model.Markers.
Import ListNotations.
Open Scope Z_scope.

(* ------------------------------------------------------------------ keys and tables *)
Lemma pkey_eqb_eq a b : pkey_eqb a b = true <-> a = b.
Proof.
  destruct a as [[i x]|], b as [[j y]|]; cbn; try (split; congruence).
  rewrite andb_true_iff, Nat.eqb_eq, Z.eqb_eq. split; [intros [-> ->]; reflexivity | intros H; inversion H; auto].
Qed.
Lemma pkey_eqb_refl a : pkey_eqb a a = true.
Proof. apply pkey_eqb_eq. reflexivity. Qed.
Lemma pkey_eqb_neq a b : pkey_eqb a b = false <-> a <> b.
Proof. rewrite <- pkey_eqb_eq. destruct (pkey_eqb a b); split; congruence. Qed.

Lemma tget_tset_same {A} k (v : A) tb : tget k (tset k v tb) = Some v.
Proof.
  induction tb as [|[k' v'] r IH]; cbn; [rewrite pkey_eqb_refl; reflexivity|].
  destruct (pkey_eqb k k') eqn:E; cbn; rewrite E; [reflexivity | exact IH].
Qed.
Lemma tget_tset_other {A} k k' (v : A) tb : k' <> k -> tget k' (tset k v tb) = tget k' tb.
Proof.
  intros N. induction tb as [|[k2 v2] r IH]; cbn.
  - apply pkey_eqb_neq in N. rewrite N. reflexivity.
  - destruct (pkey_eqb k k2) eqn:E; cbn.
    + apply pkey_eqb_eq in E. subst k2. apply pkey_eqb_neq in N. rewrite N. reflexivity.
    + destruct (pkey_eqb k' k2); [reflexivity | exact IH].
Qed.
Lemma tget_In {A} k (v : A) tb : tget k tb = Some v -> In (k, v) tb.
Proof.
  induction tb as [|[k' v'] r IH]; cbn; [discriminate|].
  destruct (pkey_eqb k k') eqn:E.
  - apply pkey_eqb_eq in E. subst. intros H; inversion H; subst. left; reflexivity.
  - intros H. right. apply IH. exact H.
Qed.
Lemma tget_none_tset {A} k (v : A) tb : tget k tb = None -> tset k v tb = tb ++ [(k, v)].
Proof.
  induction tb as [|[k' v'] r IH]; cbn; [reflexivity|].
  destruct (pkey_eqb k k'); [discriminate|]. intros H. rewrite (IH H). reflexivity.
Qed.
(* a binding survives an assignment, unless it is the first binding of the assigned key *)
Lemma tset_In {A} k (l : A) p (v : A) tb :
  In (k, l) tb -> In (k, l) (tset p v tb) \/ (k = p /\ tget p tb = Some l).
Proof.
  induction tb as [|[k' v'] r IH]; cbn; [tauto|].
  intros [H|H].
  - inversion H; subst k' v'. destruct (pkey_eqb p k) eqn:E.
    + right. apply pkey_eqb_eq in E. auto.
    + left. left. reflexivity.
  - destruct (pkey_eqb p k') eqn:E.
    + left. right. exact H.
    + destruct (IH H) as [H1|H1]; [left; right; exact H1 | right; exact H1].
Qed.
Lemma tset_In_new {A} p (v : A) tb : In (p, v) (tset p v tb).
Proof. apply tget_In. apply tget_tset_same. Qed.

Lemma entry_tset_same k v tb : entry (tset k v tb) k = v.
Proof. unfold entry. rewrite tget_tset_same. reflexivity. Qed.
Lemma entry_tset_other k k' v tb : k' <> k -> entry (tset k v tb) k' = entry tb k'.
Proof. intros N. unfold entry. rewrite tget_tset_other by exact N. reflexivity. Qed.

(* ------------------------------------------------------------------ gene sets *)
Lemma uniq_In g l : In g (uniq l) <-> In g l.
Proof. apply nodup_In. Qed.
Lemma uniq_NoDup l : NoDup (uniq l).
Proof. apply NoDup_nodup. Qed.
Lemma inq_In q g l : In g (inq q l) <-> In g l /\ In g q.
Proof. unfold inq. rewrite filter_In, zmem_in. tauto. Qed.
Lemma canon_In g l : In g (canon l) <-> In g l.
Proof. unfold canon. rewrite zsort_in. apply uniq_In. Qed.
Lemma inq_app q a b : inq q (a ++ b) = inq q a ++ inq q b.
Proof. apply filter_app. Qed.

Lemma same_set_length (a b : list gene) :
  (forall g, In g a <-> In g b) -> length (uniq a) = length (uniq b).
Proof.
  intros H. apply Permutation_length. apply NoDup_Permutation; try apply uniq_NoDup.
  intros g. rewrite !uniq_In. apply H.
Qed.
Lemma n_usable_set q a b : (forall g, In g a <-> In g b) -> n_usable q a = n_usable q b.
Proof.
  intros H. unfold n_usable. apply same_set_length. intros g. rewrite !inq_In, H. tauto.
Qed.
Lemma n_usable_zero q l : n_usable q l = 0%nat <-> (forall g, In g l -> ~ In g q).
Proof.
  unfold n_usable. split.
  - intros H g Hg Hq. assert (Hi : In g (uniq (inq q l))) by (apply uniq_In, inq_In; auto).
    destruct (uniq (inq q l)); [destruct Hi | discriminate].
  - intros H. destruct (uniq (inq q l)) as [|g r] eqn:E; [reflexivity|].
    exfalso. assert (Hi : In g (uniq (inq q l))) by (rewrite E; left; reflexivity).
    apply uniq_In, inq_In in Hi. destruct Hi as [H1 H2]. exact (H g H1 H2).
Qed.

(* ------------------------------------------------------------------ the fallback loop *)
(* the loop read over the lists of the ancestors that are keys of the table *)
Fixpoint loop_lists (q : list gene) (minm : nat) (al : list (list gene)) (new : list gene) : list gene :=
  match al with
  | [] => new
  | l :: r => let new' := new ++ l in
              if (minm <=? n_usable q new')%nat then new' else loop_lists q minm r new'
  end.
Definition present_lists (tb : table) (ancs : list (nat * node)) : list (list gene) :=
  flat_map (fun a => match tget (Some a) tb with Some l => [l] | None => [] end) ancs.

Lemma patch_loop_lists tb q minm ancs new patched :
  fst (patch_loop tb q minm ancs new patched) = loop_lists q minm (present_lists tb ancs) new.
Proof.
  revert new patched. induction ancs as [|a rest IH]; intros new patched; cbn; [reflexivity|].
  destruct (tget (Some a) tb) as [l|]; cbn; [|apply IH].
  destruct (minm <=? n_usable q (new ++ l))%nat; [reflexivity | apply IH].
Qed.
Lemma patch_loop_patched_nil tb q minm ancs new patched :
  is_nil (snd (patch_loop tb q minm ancs new patched)) = is_nil patched && is_nil (present_lists tb ancs).
Proof.
  revert new patched. induction ancs as [|a rest IH]; intros new patched; cbn; [rewrite andb_true_r; reflexivity|].
  destruct (tget (Some a) tb) as [l|]; cbn; [|apply IH].
  destruct (minm <=? n_usable q (new ++ l))%nat; cbn.
  - destruct patched; cbn; reflexivity.
  - rewrite IH. destruct patched; cbn; reflexivity.
Qed.

Lemma find_seq_shift (P : nat -> bool) a n :
  find P (seq (S a) n) = option_map S (find (fun k => P (S k)) (seq a n)).
Proof.
  revert a. induction n as [|n IH]; intros a; cbn; [reflexivity|].
  destruct (P (S a)); [reflexivity | apply IH].
Qed.

Lemma find_ext' {A} (f g : A -> bool) l : (forall a, f a = g a) -> find f l = find g l.
Proof. intros H. induction l as [|x t IH]; cbn; [reflexivity|]. rewrite H, IH. reflexivity. Qed.

Lemma k_min_cons q minm own l r :
  k_min q minm own (l :: r) =
  if (minm <=? n_usable q (own ++ l))%nat then 1%nat else S (k_min q minm (own ++ l) r).
Proof.
  unfold k_min. cbn [length seq find].
  assert (E1 : with_first own (l :: r) 1 = own ++ l).
  { unfold with_first. cbn. rewrite app_nil_r. reflexivity. }
  rewrite E1. destruct (minm <=? n_usable q (own ++ l))%nat; [reflexivity|].
  rewrite find_seq_shift.
  assert (E2 : forall k, with_first own (l :: r) (S k) = with_first (own ++ l) r k).
  { intros k. unfold with_first. cbn. rewrite app_assoc. reflexivity. }
  rewrite (find_ext' _ (fun k => (minm <=? n_usable q (with_first (own ++ l) r k))%nat)) by (intros k; rewrite E2; reflexivity).
  destruct (find _ (seq 1 (length r))); reflexivity.
Qed.

Lemma loop_lists_spec q minm al own :
  loop_lists q minm al own = with_first own al (k_min q minm own al).
Proof.
  revert own. induction al as [|l r IH]; intros own.
  - unfold with_first, k_min. cbn. rewrite app_nil_r. reflexivity.
  - cbn [loop_lists]. rewrite k_min_cons.
    destruct (minm <=? n_usable q (own ++ l))%nat.
    + unfold with_first. cbn. rewrite app_nil_r. reflexivity.
    + rewrite IH. unfold with_first. cbn. rewrite app_assoc. reflexivity.
Qed.

(* minimality, stated on its own: no shorter prefix of the ancestor lists reaches the minimum,
   and if the chosen one does not reach it either then every ancestor was taken *)
Lemma k_min_minimal q minm own al k :
  (1 <= k < k_min q minm own al)%nat -> (n_usable q (with_first own al k) < minm)%nat.
Proof.
  unfold k_min. intros Hk.
  destruct (find _ (seq 1 (length al))) as [k0|] eqn:E.
  - (* find returns the first hit *)
    clear -E Hk. revert E Hk. generalize 1%nat as a. generalize (length al) as n.
    induction n as [|n IH]; intros a E Hk; cbn in E; [discriminate|].
    destruct (minm <=? n_usable q (with_first own al a))%nat eqn:Ea.
    + inversion E; subst. lia.
    + destruct (Nat.eq_dec k a) as [->|N]; [apply Nat.leb_gt in Ea; exact Ea|].
      apply (IH (S a)); [exact E | lia].
  - pose proof (find_none _ _ E k) as H. cbv beta in H.
    assert (Hin : In k (seq 1 (length al))) by (apply in_seq; lia).
    apply H in Hin. apply Nat.leb_gt in Hin. exact Hin.
Qed.
Lemma k_min_bounds q minm own al : (k_min q minm own al <= length al)%nat /\
  (al <> [] -> 1 <= k_min q minm own al)%nat.
Proof.
  unfold k_min. destruct (find _ (seq 1 (length al))) as [k0|] eqn:E.
  - apply find_some in E. destruct E as [E _]. apply in_seq in E. lia.
  - split; [lia|]. destruct al; [congruence | cbn; lia].
Qed.

(* ------------------------------------------------------------------ one step of the fold: the table *)
Definition step_tb (t : tree) (q : list gene) (minm : nat) (tb : table) (p : pkey) : table :=
  if (length (children t p) <=? 1)%nat then tb else
  match p with
  | None => tb
  | Some (li, x) =>
      let tb1 := match tget p tb with Some _ => tb | None => tset p [] tb end in
      if (n_usable q (entry tb p) <? minm)%nat
      then fst (patch_parent t q minm tb1 li x (entry tb p)) else tb1
  end.

Lemma vstep_tb t q minm st p : v_tb (vstep t q minm st p) = step_tb t q minm (v_tb st) p.
Proof.
  unfold vstep, step_tb, entry.
  destruct (length (children t p) <=? 1)%nat; [reflexivity|].
  destruct p as [[li x]|].
  - destruct (tget (Some (li, x)) (v_tb st)) as [l|] eqn:E.
    + destruct (is_nil l) eqn:N.
      * destruct l; [|discriminate].
        destruct (n_usable q [] <? minm)%nat; [|reflexivity].
        destruct (patch_parent t q minm (v_tb st) li x []) as [tb' pw]. cbn [fst].
        destruct (Nat.eqb _ 0); reflexivity.
      * destruct (n_usable q l <? minm)%nat; [|reflexivity].
        destruct (patch_parent t q minm (v_tb st) li x l) as [tb' pw]. cbn [fst].
        destruct (Nat.eqb _ 0); reflexivity.
    + destruct (n_usable q [] <? minm)%nat; [|reflexivity].
      destruct (patch_parent t q minm (tset (Some (li, x)) [] (v_tb st)) li x []) as [tb' pw]. cbn [fst].
      destruct (Nat.eqb _ 0); reflexivity.
  - destruct (tget None (v_tb st)) as [l|]; [|reflexivity].
    destruct (is_nil l); [reflexivity|].
    destruct (n_usable q l <? minm)%nat; [|reflexivity].
    destruct (Nat.eqb _ 0); reflexivity.
Qed.

Lemma patch_parent_other t q minm tb li x markers k :
  k <> Some (li, x) -> tget k (fst (patch_parent t q minm tb li x markers)) = tget k tb.
Proof.
  intros N. unfold patch_parent.
  destruct (patch_loop tb q minm (ancestors t li x) markers []) as [new1 patched1].
  destruct (n_usable q new1 <? minm)%nat.
  - destruct (tget None tb) as [l|]; cbn [fst].
    + destruct (is_nil (patched1 ++ [None])); [reflexivity | apply tget_tset_other; exact N].
    + destruct (is_nil patched1); [reflexivity | apply tget_tset_other; exact N].
  - cbn [fst]. destruct (is_nil patched1); [reflexivity | apply tget_tset_other; exact N].
Qed.

Lemma step_tb_other t q minm tb p k : k <> p -> tget k (step_tb t q minm tb p) = tget k tb.
Proof.
  intros N. unfold step_tb.
  destruct (length (children t p) <=? 1)%nat; [reflexivity|].
  destruct p as [[li x]|]; [|reflexivity].
  assert (E1 : tget k (match tget (Some (li, x)) tb with Some _ => tb | None => tset (Some (li, x)) [] tb end)
               = tget k tb).
  { destruct (tget (Some (li, x)) tb); [reflexivity | apply tget_tset_other; exact N]. }
  destruct (n_usable q (entry tb (Some (li, x))) <? minm)%nat; [|exact E1].
  rewrite patch_parent_other by exact N. exact E1.
Qed.

(* ancestors lie strictly above *)
Lemma ancestors_above t li x k a : In (k, a) (ancestors t li x) -> (k < li)%nat.
Proof.
  revert x. induction li as [|n IH]; intros x; cbn; [tauto|].
  destruct (parent_of (nth n t []) x) as [p|]; [|intros []].
  intros [H|H]; [inversion H; lia | apply IH in H; lia].
Qed.

(* the declarative statement reads the table only at p, at p's ancestors and at the root *)
Lemma present_lists_ext tb tb' ancs :
  (forall a, In a ancs -> tget (Some a) tb = tget (Some a) tb') ->
  present_lists tb ancs = present_lists tb' ancs.
Proof.
  unfold present_lists. induction ancs as [|a r IH]; intros H; cbn; [reflexivity|].
  rewrite (H a) by (left; reflexivity). rewrite IH; [reflexivity|].
  intros b Hb. apply H. right. exact Hb.
Qed.
Lemma spec_markers_ext tb tb' q minm t p :
  tget p tb = tget p tb' ->
  (forall li x a, p = Some (li, x) -> In a (ancestors t li x) -> tget (Some a) tb = tget (Some a) tb') ->
  (p <> None -> tget None tb = tget None tb') ->
  spec_markers tb q minm t p = spec_markers tb' q minm t p.
Proof.
  intros H1 H2 H3. unfold spec_markers, entry, anc_lists. rewrite H1.
  destruct p as [[li x]|]; [|reflexivity].
  rewrite H3 by discriminate.
  fold (present_lists tb (ancestors t li x)). fold (present_lists tb' (ancestors t li x)).
  rewrite (present_lists_ext tb tb'); [reflexivity|].
  intros a Ha. eapply H2; [reflexivity | exact Ha].
Qed.

(* what the step writes for p is the declarative statement read from the table it found *)
Lemma step_tb_self t q minm tb li x :
  (2 <= length (children t (Some (li, x))))%nat ->
  forall g, (In g (entry (step_tb t q minm tb (Some (li, x))) (Some (li, x))) /\ In g q)
            <-> In g (spec_markers tb q minm t (Some (li, x))).
Proof.
  intros Hc g.
  unfold step_tb. destruct (length (children t (Some (li, x))) <=? 1)%nat eqn:Ec; [apply Nat.leb_le in Ec; lia|].
  remember (match tget (Some (li, x)) tb with Some _ => tb | None => tset (Some (li, x)) [] tb end) as tb1 eqn:Etb1.
  assert (Eown : entry tb1 (Some (li, x)) = entry tb (Some (li, x))).
  { subst tb1. unfold entry. destruct (tget (Some (li, x)) tb) eqn:E; [rewrite E; reflexivity | rewrite tget_tset_same; reflexivity]. }
  assert (Eoth : forall k, k <> Some (li, x) -> tget k tb1 = tget k tb).
  { intros k N. subst tb1. destruct (tget (Some (li, x)) tb); [reflexivity | apply tget_tset_other; exact N]. }
  unfold spec_markers.
  remember (entry tb (Some (li, x))) as own eqn:Eo.
  destruct (n_usable q own <? minm)%nat eqn:Emin.
  - apply Nat.ltb_lt in Emin.
    destruct (minm <=? n_usable q own)%nat eqn:Emin'; [apply Nat.leb_le in Emin'; lia|].
    unfold patch_parent.
    pose proof (patch_loop_lists tb1 q minm (ancestors t li x) own []) as HL.
    pose proof (patch_loop_patched_nil tb1 q minm (ancestors t li x) own []) as HN.
    destruct (patch_loop tb1 q minm (ancestors t li x) own []) as [new1 patched1].
    cbn [fst snd] in HL, HN.
    assert (EP : present_lists tb1 (ancestors t li x) = anc_lists tb t li x).
    { unfold anc_lists. apply present_lists_ext. intros [k a] Ha. apply Eoth.
      intros E. inversion E; subst. apply ancestors_above in Ha. lia. }
    rewrite EP in HL, HN. rewrite loop_lists_spec in HL.
    remember (anc_lists tb t li x) as al eqn:Eal.
    remember (with_first own al (k_min q minm own al)) as u eqn:Eu0.
    subst new1.
    assert (ER : tget None tb1 = tget None tb) by (apply Eoth; discriminate).
    rewrite ER.
    destruct (n_usable q u <? minm)%nat eqn:Eu.
    + unfold entry at 2. destruct (tget None tb) as [l0|] eqn:E0.
      * cbn [fst]. assert (Hnn : is_nil (patched1 ++ [None]) = false) by (destruct patched1; reflexivity).
        rewrite Hnn. rewrite entry_tset_same. rewrite canon_In, !inq_In. tauto.
      * cbn [fst]. destruct (is_nil patched1) eqn:Np.
        -- (* nothing to patch with: the entry stays *)
           rewrite Eown. cbn in HN. symmetry in HN.
           assert (Hal : al = []) by (destruct al; [reflexivity | discriminate]).
           rewrite Eu0, Hal. unfold with_first, k_min. cbn. rewrite !app_nil_r, inq_In. tauto.
        -- rewrite entry_tset_same. rewrite canon_In, !inq_In, app_nil_r. tauto.
    + cbn [fst]. destruct (is_nil patched1) eqn:Np.
      * rewrite Eown. cbn in HN. symmetry in HN.
        assert (Hal : al = []) by (destruct al; [reflexivity | discriminate]).
        rewrite Eu0, Hal. unfold with_first, k_min. cbn. rewrite !app_nil_r, inq_In. tauto.
      * rewrite entry_tset_same. rewrite canon_In, !inq_In. tauto.
  - apply Nat.ltb_ge in Emin.
    destruct (minm <=? n_usable q own)%nat eqn:Emin'; [|apply Nat.leb_gt in Emin'; lia].
    rewrite Eown, inq_In. tauto.
Qed.

(* ------------------------------------------------------------------ the fold over the parents *)
Definition depth (k : pkey) : nat := match k with None => 0 | Some (li, _) => S li end.

(* processing order read backwards: every later-listed key is at least as deep, no key twice *)
Fixpoint ordered (l : list pkey) : Prop :=
  match l with
  | [] => True
  | p :: rest => (forall k, In k rest -> (depth p <= depth k)%nat) /\ ~ In p rest /\ ordered rest
  end.

Definition dict_ok (t : tree) : Prop := Forall (fun lv => NoDup (nodes lv)) t.

Lemma apf_ge li t k x : In (k, x) (all_parents_from li t) -> (li <= k)%nat.
Proof.
  revert li. induction t as [|lv rest IH]; intros li; cbn; [tauto|].
  destruct rest as [|lv2 rest2]; [cbn; tauto|].
  rewrite in_app_iff, in_map_iff. intros [(y & E & _)|H]; [inversion E; lia | apply IH in H; lia].
Qed.

Lemma ordered_map_level li (ns : list node) (tail : list pkey) :
  NoDup ns -> ordered tail -> (forall k, In k tail -> (S li < depth k)%nat) ->
  ordered (map Some (map (fun x => (li, x)) ns) ++ tail).
Proof.
  intros ND Ho Hd. induction ns as [|x r IH]; cbn [map app]; [exact Ho|].
  inversion ND as [|? ? Hx ND']; subst.
  cbn [ordered]. split; [|split].
  - intros k Hk. rewrite in_app_iff in Hk. destruct Hk as [Hk|Hk].
    + rewrite in_map_iff in Hk. destruct Hk as (y & <- & Hy).
      rewrite in_map_iff in Hy. destruct Hy as (z & <- & _). cbn. lia.
    + apply Hd in Hk. cbn. lia.
  - rewrite in_app_iff. intros [Hk|Hk].
    + rewrite in_map_iff in Hk. destruct Hk as (y & E & Hy). inversion E; subst y.
      rewrite in_map_iff in Hy. destruct Hy as (z & E2 & Hz). inversion E2; subst z. contradiction.
    + apply Hd in Hk. cbn in Hk. lia.
  - apply IH. exact ND'.
Qed.

Lemma ordered_apf li t : dict_ok t -> ordered (map Some (all_parents_from li t)).
Proof.
  revert li. induction t as [|lv rest IH]; intros li Hd; cbn; [exact Logic.I|].
  destruct rest as [|lv2 rest2]; [exact Logic.I|].
  inversion Hd as [|? ? Hlv Hrest]; subst.
  rewrite map_app. apply ordered_map_level.
  - exact Hlv.
  - apply IH. exact Hrest.
  - intros k Hk. rewrite in_map_iff in Hk. destruct Hk as ([k' x] & <- & Hin).
    apply apf_ge in Hin. cbn. lia.
Qed.

Lemma ordered_all_parents t : dict_ok t -> ordered (all_parents t).
Proof.
  intros Hd. unfold all_parents. cbn [ordered]. split; [|split].
  - intros k _. cbn. lia.
  - rewrite in_map_iff. intros (y & E & _). discriminate.
  - apply ordered_apf. exact Hd.
Qed.

Section Fold.
Variables (t : tree) (q : list gene) (minm : nat) (tb0 : table).

Definition R (l : list pkey) : table := fold_right (fun p tb => step_tb t q minm tb p) tb0 l.

Lemma step_tb_root tb p : tget None (step_tb t q minm tb p) = tget None tb.
Proof.
  destruct p as [[li x]|].
  - apply step_tb_other. discriminate.
  - unfold step_tb. destruct (length (children t None) <=? 1)%nat; reflexivity.
Qed.
Lemma R_root l : tget None (R l) = tget None tb0.
Proof. induction l as [|p r IH]; cbn; [reflexivity|]. rewrite step_tb_root. exact IH. Qed.

Lemma R_inv l : ordered l ->
  (forall k, ~ In k l -> tget k (R l) = tget k tb0) /\
  (forall li x, In (Some (li, x)) l -> (2 <= length (children t (Some (li, x))))%nat ->
     forall g, (In g (entry (R l) (Some (li, x))) /\ In g q)
               <-> In g (spec_markers tb0 q minm t (Some (li, x)))).
Proof.
  induction l as [|p rest IH]; intros Ho.
  - split; [reflexivity | intros li x []].
  - cbn [ordered] in Ho. destruct Ho as (Hdeep & Hnew & Ho).
    destruct (IH Ho) as [IH1 IH2]. clear IH. cbn [R fold_right]. fold (R rest). split.
    + intros k Hk. cbn in Hk. rewrite step_tb_other by (intros ->; tauto). apply IH1. tauto.
    + intros li x Hin Hc g. destruct Hin as [->|Hin].
      * rewrite step_tb_self by exact Hc.
        rewrite (spec_markers_ext (R rest) tb0); [reflexivity | | | ].
        -- apply IH1. exact Hnew.
        -- intros li' x' [k a] E Ha. inversion E; subst li' x'. apply IH1.
           intros Hr. apply Hdeep in Hr. apply ancestors_above in Ha. cbn in Hr. lia.
        -- intros _. apply R_root.
      * assert (N : Some (li, x) <> p) by (intros <-; contradiction).
        unfold entry. rewrite step_tb_other by exact N. apply IH2; assumption.
Qed.
End Fold.

Lemma vfold_tb_gen t q minm l st :
  v_tb (fold_left (vstep t q minm) l st) = fold_left (step_tb t q minm) l (v_tb st).
Proof.
  revert st. induction l as [|p r IH]; intros st; cbn; [reflexivity|].
  rewrite IH, vstep_tb. reflexivity.
Qed.
Lemma vfold_tb t q minm tb : v_tb (vfold tb q t minm) = R t q minm tb (all_parents t).
Proof.
  unfold vfold, R. rewrite vfold_tb_gen. cbn [vinit v_tb].
  rewrite <- (rev_involutive (all_parents t)) at 2. rewrite fold_left_rev_right. reflexivity.
Qed.

(* the validated table: what C08 says about it *)
Lemma validate_spec t tb q minm tb' log :
  dict_ok t -> validate_marker_lookup tb q t minm = MOk (tb', log) ->
  (forall k, ~ In k (all_parents t) -> tget k tb' = tget k tb) /\
  tget None tb' = tget None tb /\
  (forall li x, In (Some (li, x)) (all_parents t) -> (2 <= length (children t (Some (li, x))))%nat ->
     forall g, (In g (entry tb' (Some (li, x))) /\ In g q) <-> In g (spec_markers tb q minm t (Some (li, x)))).
Proof.
  intros Hd H. unfold validate_marker_lookup in H.
  destruct (v_err (vfold tb q t minm)); [destruct (Nat.eqb _ _); discriminate|].
  inversion H; subst tb' log. rewrite vfold_tb.
  destruct (R_inv t q minm tb (all_parents t) (ordered_all_parents t Hd)) as [H1 H2].
  split; [exact H1|]. split; [apply R_root | exact H2].
Qed.

(* presence of the keys of branching parents in the validated table *)
Lemma step_tb_present t q minm tb li x :
  (2 <= length (children t (Some (li, x))))%nat ->
  tget (Some (li, x)) (step_tb t q minm tb (Some (li, x))) <> None.
Proof.
  intros Hc. unfold step_tb.
  destruct (length (children t (Some (li, x))) <=? 1)%nat eqn:Ec; [apply Nat.leb_le in Ec; lia|].
  assert (P1 : tget (Some (li, x))
                 (match tget (Some (li, x)) tb with Some _ => tb | None => tset (Some (li, x)) [] tb end) <> None).
  { destruct (tget (Some (li, x)) tb) eqn:E; [rewrite E; discriminate | rewrite tget_tset_same; discriminate]. }
  destruct (n_usable q (entry tb (Some (li, x))) <? minm)%nat; [|exact P1].
  unfold patch_parent.
  destruct (patch_loop _ q minm (ancestors t li x) (entry tb (Some (li, x))) []) as [new1 patched1].
  destruct (n_usable q new1 <? minm)%nat.
  - destruct (tget None _); cbn [fst].
    + destruct (is_nil (patched1 ++ [None])); [exact P1 | rewrite tget_tset_same; discriminate].
    + destruct (is_nil patched1); [exact P1 | rewrite tget_tset_same; discriminate].
  - cbn [fst]. destruct (is_nil patched1); [exact P1 | rewrite tget_tset_same; discriminate].
Qed.

Lemma R_present t q minm tb0 l li x :
  In (Some (li, x)) l -> (2 <= length (children t (Some (li, x))))%nat ->
  tget (Some (li, x)) (R t q minm tb0 l) <> None.
Proof.
  induction l as [|p rest IH]; intros Hin Hc; [destruct Hin|].
  cbn [R fold_right]. fold (R t q minm tb0 rest).
  destruct (option_map (fun _ => tt) (Some tt)) eqn:Dummy; [|discriminate]. clear Dummy.
  assert (D : {p = Some (li, x)} + {p <> Some (li, x)}).
  { destruct (pkey_eqb p (Some (li, x))) eqn:E; [left; apply pkey_eqb_eq; exact E | right; apply pkey_eqb_neq; exact E]. }
  destruct D as [->|N].
  - apply step_tb_present. exact Hc.
  - rewrite step_tb_other by congruence. apply IH; [|exact Hc].
    destruct Hin as [E|Hin]; [congruence | exact Hin].
Qed.

(* the root is processed last *)
Lemma vfold_last tb q t minm :
  vfold tb q t minm =
  vstep t q minm (fold_left (vstep t q minm) (rev (map Some (all_parents_from 0 t))) (vinit tb)) None.
Proof. unfold vfold, all_parents. cbn [rev]. rewrite fold_left_app. reflexivity. Qed.

Lemma before_root_tb tb q t minm :
  tget None (v_tb (fold_left (vstep t q minm) (rev (map Some (all_parents_from 0 t))) (vinit tb))) = tget None tb.
Proof.
  rewrite vfold_tb_gen. cbn [vinit v_tb].
  rewrite <- (rev_involutive (map Some (all_parents_from 0 t))) at 1.
  rewrite rev_involutive.
  replace (fold_left (step_tb t q minm) (rev (map Some (all_parents_from 0 t))) tb)
    with (R t q minm tb (map Some (all_parents_from 0 t))).
  - apply R_root.
  - unfold R. rewrite <- (rev_involutive (map Some (all_parents_from 0 t))) at 1.
    rewrite fold_left_rev_right. reflexivity.
Qed.

Lemma vstep_root_ok t q minm st :
  (2 <= length (children t None))%nat -> v_err (vstep t q minm st None) = false ->
  exists l, tget None (v_tb st) = Some l /\ l <> [] /\
            ((n_usable q l < minm)%nat -> n_usable q l <> 0%nat).
Proof.
  intros Hc. unfold vstep.
  destruct (length (children t None) <=? 1)%nat eqn:Ec; [apply Nat.leb_le in Ec; lia|].
  destruct (tget None (v_tb st)) as [l|] eqn:E; [|cbn; discriminate].
  destruct (is_nil l) eqn:N; [cbn; discriminate|].
  intros H. exists l. split; [reflexivity|]. split; [intros ->; discriminate|].
  intros Hlt. apply Nat.ltb_lt in Hlt. rewrite Hlt in H.
  unfold entry in H. rewrite E in H.
  destruct (Nat.eqb (n_usable q l) 0) eqn:Z; [cbn in H; discriminate|].
  apply Nat.eqb_neq in Z. exact Z.
Qed.

Lemma validate_root t tb q minm r :
  validate_marker_lookup tb q t minm = MOk r -> (2 <= length (children t None))%nat ->
  exists l, tget None tb = Some l /\ l <> [] /\ ((n_usable q l < minm)%nat -> n_usable q l <> 0%nat).
Proof.
  intros H Hc. unfold validate_marker_lookup in H.
  destruct (v_err (vfold tb q t minm)) eqn:E; [destruct (Nat.eqb _ _); discriminate|].
  rewrite vfold_last in E. apply vstep_root_ok in E; [|exact Hc].
  rewrite before_root_tb in E. exact E.
Qed.

(* ------------------------------------------------------------------ the loop of create_marker_cache *)
Lemma cc_loop_get q tb f k :
  cc_loop q tb = MOk f -> tget k f = option_map (fun l => uniq (inq q l)) (tget k tb).
Proof.
  revert f. induction tb as [|[k' l] r IH]; intros f H; cbn in H.
  - inversion H; reflexivity.
  - destruct (is_nil (uniq (inq q l)) && negb (is_nil l)); [discriminate|].
    destruct (cc_loop q r) as [f'|e]; [|discriminate]. inversion H; subst f. cbn.
    destruct (pkey_eqb k k'); [reflexivity | apply IH; reflexivity].
Qed.
Lemma cc_loop_keys q tb f : cc_loop q tb = MOk f -> map fst f = map fst tb.
Proof.
  revert f. induction tb as [|[k' l] r IH]; intros f H; cbn in H.
  - inversion H; reflexivity.
  - destruct (is_nil (uniq (inq q l)) && negb (is_nil l)); [discriminate|].
    destruct (cc_loop q r) as [f'|e]; [|discriminate]. inversion H; subst f. cbn.
    rewrite (IH f'); reflexivity.
Qed.
Lemma cc_loop_err q tb k l :
  In (k, l) tb -> l <> [] -> (forall g, In g l -> ~ In g q) -> exists e, cc_loop q tb = MErr e.
Proof.
  intros Hin Hne Hno. induction tb as [|[k' l'] r IH]; [destruct Hin|]. cbn.
  destruct Hin as [E|Hin].
  - inversion E; subst k' l'.
    assert (Z : uniq (inq q l) = []).
    { destruct (uniq (inq q l)) as [|g r'] eqn:Eu; [reflexivity|].
      exfalso. assert (Hi : In g (uniq (inq q l))) by (rewrite Eu; left; reflexivity).
      apply uniq_In, inq_In in Hi. destruct Hi. eapply Hno; eauto. }
    rewrite Z. destruct l; [congruence|]. cbn. eexists; reflexivity.
  - destruct (is_nil (uniq (inq q l')) && negb (is_nil l')); [eexists; reflexivity|].
    destruct (IH Hin) as [e He]. rewrite He. eexists; reflexivity.
Qed.

(* ------------------------------------------------------------------ write_query_markers *)
Lemma index_last_nth g names i : index_last g names = Some i -> nth_error names i = Some g.
Proof.
  revert i. induction names as [|x r IH]; intros i; cbn; [discriminate|].
  destruct (index_last g r) as [j|].
  - intros H; inversion H; subst. cbn. apply IH. reflexivity.
  - destruct (x =? g) eqn:E; [|discriminate]. apply Z.eqb_eq in E. subst.
    intros H; inversion H; reflexivity.
Qed.
Lemma index_last_some g names : In g names -> exists i, index_last g names = Some i.
Proof.
  induction names as [|x r IH]; intros H; [destruct H|]. cbn.
  destruct (index_last g r) as [j|] eqn:E; [eexists; reflexivity|].
  destruct H as [->|H]; [rewrite Z.eqb_refl; eexists; reflexivity|].
  destruct (IH H) as [i Hi]. discriminate.
Qed.
Lemma index_last_none g names : index_last g names = None -> ~ In g names.
Proof. intros H Hin. destruct (index_last_some g names Hin) as [i Hi]. congruence. Qed.

Definition col_ok (refg qg : list gene) (pr : nat * nat) (g : gene) : Prop :=
  nth_error refg (fst pr) = Some g /\ nth_error qg (snd pr) = Some g.

Lemma index_pairs_spec refg qg genes ps :
  index_pairs refg qg genes = Some ps -> Forall2 (col_ok refg qg) ps genes.
Proof.
  revert ps. induction genes as [|g r IH]; intros ps H; cbn in H.
  - inversion H. constructor.
  - destruct (index_last g refg) as [a|] eqn:Ea; [|discriminate].
    destruct (index_last g qg) as [b|] eqn:Eb; [|discriminate].
    destruct (index_pairs refg qg r) as [rest|]; [|discriminate].
    inversion H; subst ps. constructor; [|apply IH; reflexivity].
    split; cbn; apply index_last_nth; assumption.
Qed.
Lemma index_pairs_some refg qg genes :
  (forall g, In g genes -> In g refg /\ In g qg) -> exists ps, index_pairs refg qg genes = Some ps.
Proof.
  induction genes as [|g r IH]; intros H; cbn; [eexists; reflexivity|].
  destruct (H g (or_introl eq_refl)) as [Hr Hq].
  destruct (index_last_some g refg Hr) as [a ->]. destruct (index_last_some g qg Hq) as [b ->].
  destruct IH as [ps ->]; [intros g' Hg'; apply H; right; exact Hg'|]. eexists; reflexivity.
Qed.

Lemma pinsert_perm x l : Permutation (pinsert x l) (x :: l).
Proof.
  induction l as [|y t IH]; cbn; [reflexivity|].
  destruct (fst x <=? fst y)%nat; [reflexivity|]. rewrite IH. apply perm_swap.
Qed.
Lemma psort_perm l : Permutation (psort l) l.
Proof.
  induction l as [|x t IH]; cbn; [reflexivity|]. rewrite pinsert_perm. constructor. exact IH.
Qed.

Fixpoint ascending (l : list nat) : Prop :=
  match l with
  | [] => True
  | x :: t => (match t with [] => True | y :: _ => (x <= y)%nat end) /\ ascending t
  end.
Lemma pinsert_ascending x l : ascending (map fst l) -> ascending (map fst (pinsert x l)).
Proof.
  induction l as [|y t IH]; cbn; [tauto|].
  destruct (fst x <=? fst y)%nat eqn:E.
  - apply Nat.leb_le in E. cbn. tauto.
  - apply Nat.leb_gt in E. intros [H1 H2]. cbn. split; [|apply IH; exact H2].
    destruct t as [|z t']; cbn; [lia|]. destruct (fst x <=? fst z)%nat; cbn; [lia|]. cbn in H1. exact H1.
Qed.
Lemma psort_ascending l : ascending (map fst (psort l)).
Proof. induction l as [|x t IH]; cbn; [exact Logic.I | apply pinsert_ascending; exact IH]. Qed.

Lemma names_at_Forall2 names (idx : list nat) (gs : list gene) :
  Forall2 (fun i g => nth_error names i = Some g) idx gs -> names_at names idx = Some gs.
Proof.
  unfold names_at. induction 1 as [|i g idx gs H _ IH]; cbn; [reflexivity|]. rewrite H, IH. reflexivity.
Qed.
Lemma names_at_inv names idx gs :
  names_at names idx = Some gs -> Forall2 (fun i g => nth_error names i = Some g) idx gs.
Proof.
  unfold names_at. revert gs. induction idx as [|i r IH]; intros gs H; cbn in H.
  - inversion H. constructor.
  - destruct (nth_error names i) as [g|] eqn:E; [|discriminate].
    destruct (opt_all (map (nth_error names) r)) as [gs'|]; [|discriminate].
    inversion H; subst. constructor; [exact E | apply IH; reflexivity].
Qed.

(* a sorted group: both index arrays name the same genes, column by column,
   and those genes are the listed ones *)
Lemma group_names refg qg genes ps :
  index_pairs refg qg genes = Some ps ->
  exists names, Permutation genes names /\
    names_at refg (map fst (psort ps)) = Some names /\
    names_at qg (map snd (psort ps)) = Some names.
Proof.
  intros H. apply index_pairs_spec in H.
  destruct (Permutation_Forall2 (Permutation_sym (psort_perm ps)) H) as (names & Hp & HF).
  exists names. split; [exact Hp|].
  split; apply names_at_Forall2.
  - clear -HF. induction HF as [|pr g s ns [H1 _] _ IH]; cbn; constructor; assumption.
  - clear -HF. induction HF as [|pr g s ns [_ H2] _ IH]; cbn; constructor; assumption.
Qed.

Lemma wq_groups_get refg qg tb gs k l :
  wq_groups refg qg tb = Some gs -> tget k tb = Some l ->
  exists ps, index_pairs refg qg l = Some ps /\
             tget k gs = Some (map fst (psort ps), map snd (psort ps)).
Proof.
  revert gs. induction tb as [|[k' l'] r IH]; intros gs H Hk; cbn in *; [discriminate|].
  destruct (index_pairs refg qg l') as [ps'|] eqn:Ep; [|discriminate].
  destruct (wq_groups refg qg r) as [rest|]; [|discriminate].
  inversion H; subst gs. cbn.
  destruct (pkey_eqb k k').
  - inversion Hk; subst l'. exists ps'. split; [exact Ep | reflexivity].
  - apply IH; [reflexivity | exact Hk].
Qed.
Lemma wq_groups_in refg qg tb gs k ri qi :
  wq_groups refg qg tb = Some gs -> In (k, (ri, qi)) gs ->
  exists l ps, In (k, l) tb /\ index_pairs refg qg l = Some ps /\
               ri = map fst (psort ps) /\ qi = map snd (psort ps).
Proof.
  revert gs. induction tb as [|[k' l'] r IH]; intros gs H Hin; cbn in *.
  - inversion H; subst. destruct Hin.
  - destruct (index_pairs refg qg l') as [ps'|] eqn:Ep; [|discriminate].
    destruct (wq_groups refg qg r) as [rest|]; [|discriminate].
    inversion H; subst gs. destruct Hin as [E|Hin].
    + inversion E; subst. exists l', ps'. auto.
    + destruct (IH rest eq_refl Hin) as (l & ps & H1 & H2). exists l, ps. tauto.
Qed.

(* pairing by name, for every gene order *)
Lemma pairing_by_name tb refg qg c k ri qi :
  write_query_markers tb refg qg = MOk c -> In (k, (ri, qi)) (c_groups c) ->
  exists l names, In (k, l) tb /\ Permutation l names /\ ascending ri /\
    names_at refg ri = Some names /\ names_at qg qi = Some names.
Proof.
  unfold write_query_markers. destruct (wq_groups refg qg tb) as [gs|] eqn:E; [|discriminate].
  intros H Hin. inversion H; subst c. cbn [c_groups] in Hin.
  destruct (wq_groups_in _ _ _ _ _ _ _ E Hin) as (l & ps & Hl & Hps & -> & ->).
  destruct (group_names _ _ _ _ Hps) as (names & Hp & H1 & H2).
  exists l, names. repeat split; auto. apply psort_ascending.
Qed.

Lemma names_at_columns refg qg ri qi names j r s :
  names_at refg ri = Some names -> names_at qg qi = Some names ->
  nth_error ri j = Some r -> nth_error qi j = Some s ->
  exists g, nth_error names j = Some g /\ nth_error refg r = Some g /\ nth_error qg s = Some g.
Proof.
  intros H1 H2 Hr Hs. apply names_at_inv in H1. apply names_at_inv in H2.
  assert (Hl : (j < length names)%nat).
  { rewrite <- (Forall2_length _ _ _ H1). apply nth_error_Some. congruence. }
  destruct (nth_error names j) as [g|] eqn:Eg; [|apply nth_error_None in Eg; lia].
  exists g. split; [reflexivity|]. split.
  - exact (Forall2_nth_error _ _ _ _ _ _ H1 Hr Eg).
  - exact (Forall2_nth_error _ _ _ _ _ _ H2 Hs Eg).
Qed.

Lemma write_get tb refg qg c k l :
  write_query_markers tb refg qg = MOk c -> tget k tb = Some l ->
  exists ri qi names, tget k (c_groups c) = Some (ri, qi) /\ Permutation l names /\ ascending ri /\
    names_at refg ri = Some names /\ names_at qg qi = Some names.
Proof.
  unfold write_query_markers. destruct (wq_groups refg qg tb) as [gs|] eqn:E; [|discriminate].
  intros H Hk. inversion H; subst c. cbn [c_groups].
  destruct (wq_groups_get _ _ _ _ _ _ E Hk) as (ps & Hps & Hg).
  destruct (group_names _ _ _ _ Hps) as (names & Hp & H1 & H2).
  exists (map fst (psort ps)), (map snd (psort ps)), names. repeat split; auto. apply psort_ascending.
Qed.

(* ------------------------------------------------------------------ create_cache: the main statements *)
Lemma create_cache_inv tb refg qg t minm c :
  create_cache tb refg qg (Some t) minm = MOk c ->
  exists tb' log final,
    validate_marker_lookup tb qg t minm = MOk (tb', log) /\
    cc_loop qg tb' = MOk final /\ missing_ref refg tb' = false /\
    write_query_markers final refg qg = MOk c.
Proof.
  unfold create_cache. destruct (validate_marker_lookup tb qg t minm) as [[tb' log]|e] eqn:V; [|discriminate].
  destruct (cc_loop qg tb') as [final|e] eqn:C; [|discriminate].
  destruct (missing_ref refg tb') eqn:M; [discriminate|].
  intros H. exists tb', log, final. auto.
Qed.

Lemma in_all_parents t p : In p (all_parents t) <->
  p = None \/ exists li x, p = Some (li, x) /\ In (li, x) (all_parents_from 0 t).
Proof.
  unfold all_parents. cbn. rewrite in_map_iff. split.
  - intros [H|([li x] & H & Hin)]; [left; congruence | right; exists li, x; split; [congruence | exact Hin]].
  - intros [->|(li & x & -> & Hin)]; [left; reflexivity | right; exists (li, x); auto].
Qed.

Theorem used_equals_spec t tb refg qg minm c p :
  dict_ok t ->
  create_cache tb refg qg (Some t) minm = MOk c ->
  In p (all_parents t) -> (2 <= length (children t p))%nat ->
  exists ri qi names,
    tget p (c_groups c) = Some (ri, qi) /\
    names_at refg ri = Some names /\ names_at qg qi = Some names /\
    NoDup names /\ ascending ri /\
    forall g, In g names <-> In g (spec_markers tb qg minm t p).
Proof.
  intros Hd Hc Hp Hch.
  destruct (create_cache_inv _ _ _ _ _ _ Hc) as (tb' & log & final & V & C & M & W).
  destruct (validate_spec _ _ _ _ _ _ Hd V) as (V1 & V2 & V3).
  (* the key is present in the validated table *)
  assert (Hpres : exists l, tget p tb' = Some l /\
                            forall g, (In g l /\ In g qg) <-> In g (spec_markers tb qg minm t p)).
  { destruct p as [[li x]|].
    - assert (Hne : tget (Some (li, x)) tb' <> None).
      { unfold validate_marker_lookup in V.
        destruct (v_err (vfold tb qg t minm)); [destruct (Nat.eqb _ _); discriminate|].
        inversion V; subst tb' log. rewrite vfold_tb. apply R_present; assumption. }
      destruct (tget (Some (li, x)) tb') as [l|] eqn:E; [|congruence].
      exists l. split; [reflexivity|]. intros g. rewrite <- (V3 li x Hp Hch g). unfold entry. rewrite E. reflexivity.
    - destruct (validate_root _ _ _ _ _ V Hch) as (l & Hl & _).
      exists l. split; [congruence|]. intros g. unfold spec_markers, entry. rewrite Hl, inq_In. reflexivity. }
  destruct Hpres as (l & Hl & Hspec).
  assert (Hf : tget p final = Some (uniq (inq qg l))) by (rewrite (cc_loop_get _ _ _ _ C), Hl; reflexivity).
  destruct (write_get _ _ _ _ _ _ W Hf) as (ri & qi & names & G & Hperm & Hasc & N1 & N2).
  exists ri, qi, names. repeat split; auto.
  - eapply Permutation_NoDup; [exact Hperm | apply uniq_NoDup].
  - intros Hg. apply Hspec. apply inq_In, uniq_In. eapply Permutation_in; [apply Permutation_sym; exact Hperm | exact Hg].
  - intros Hg. eapply Permutation_in; [exact Hperm|]. apply uniq_In, inq_In, Hspec. exact Hg.
Qed.

(* ------------------------------------------------------------------ serialize_markers *)
Lemma serialize_keys_get c refg t ks out p :
  serialize_keys c refg t ks = MOk out -> In p ks ->
  exists g, serialize_one c refg t p = MOk g /\ tget p out = Some g.
Proof.
  revert out. induction ks as [|k r IH]; intros out H Hin; [destruct Hin|].
  cbn in H. destruct (serialize_one c refg t k) as [g|e] eqn:E1; [|discriminate].
  destruct (serialize_keys c refg t r) as [rest|e] eqn:E2; [|discriminate].
  inversion H; subst out. cbn.
  destruct (pkey_eqb p k) eqn:E.
  - apply pkey_eqb_eq in E. subst k. exists g. auto.
  - apply pkey_eqb_neq in E. destruct Hin as [->|Hin]; [congruence|].
    apply (IH rest eq_refl Hin).
Qed.

Theorem reported_equals_used c refg t out p :
  serialize c refg t = MOk out -> In p (all_parents t) ->
  ((p <> None /\ (length (children t p) < 2)%nat) -> tget p out = Some []) /\
  ((p = None \/ (2 <= length (children t p))%nat) ->
     exists ri qi names, tget p (c_groups c) = Some (ri, qi) /\
                         names_at refg ri = Some names /\ tget p out = Some names).
Proof.
  unfold serialize. intros H Hin.
  assert (Hin' : In p (map Some (all_parents_from 0 t) ++ [None])).
  { unfold all_parents in Hin. rewrite in_app_iff. cbn in *. tauto. }
  destruct (serialize_keys_get _ _ _ _ _ _ H Hin') as (g & Hg & Ho).
  unfold serialize_one in Hg. split.
  - intros [Hn Hc]. destruct p as [pp|]; [|congruence].
    apply Nat.ltb_lt in Hc. rewrite Hc in Hg. inversion Hg; subst g. exact Ho.
  - intros Hc.
    assert (Hb : (match p with Some _ => (length (children t p) <? 2)%nat | None => false end) = false).
    { destruct p as [pp|]; [|reflexivity]. destruct Hc as [Hc|Hc]; [discriminate|]. apply Nat.ltb_ge. exact Hc. }
    rewrite Hb in Hg. destruct (tget p (c_groups c)) as [[ri qi]|]; [|discriminate].
    destruct (names_at refg ri) as [names|] eqn:En; [|discriminate].
    inversion Hg; subst g. exists ri, qi, names. auto.
Qed.

(* ------------------------------------------------------------------ parents with a single child *)
Lemma vstep_single_child t q minm st p :
  (length (children t p) <= 1)%nat ->
  vstep t q minm st p =
  {| v_tb := v_tb st; v_err := v_err st; v_bad := v_bad st; v_skip := S (v_skip st); v_log := v_log st |}.
Proof. intros H. unfold vstep. apply Nat.leb_le in H. rewrite H. reflexivity. Qed.

(* ------------------------------------------------------------------ errors *)
Lemma validate_root_unchanged t tb q minm tb' log :
  validate_marker_lookup tb q t minm = MOk (tb', log) -> tget None tb' = tget None tb.
Proof.
  unfold validate_marker_lookup. destruct (v_err (vfold tb q t minm)); [destruct (Nat.eqb _ _); discriminate|].
  intros H; inversion H; subst. rewrite vfold_tb. apply R_root.
Qed.

Theorem root_without_usable_is_error t tb refg qg minm :
  (2 <= length (children t None))%nat ->
  (forall g, In g (entry tb None) -> ~ In g qg) ->
  exists e, create_cache tb refg qg (Some t) minm = MErr e.
Proof.
  intros Hc Hno. destruct (create_cache tb refg qg (Some t) minm) as [c|e] eqn:E; [|eexists; reflexivity].
  exfalso. destruct (create_cache_inv _ _ _ _ _ _ E) as (tb' & log & final & V & C & M & W).
  destruct (validate_root _ _ _ _ _ V Hc) as (l & Hl & Hne & Hmin).
  assert (Z : n_usable qg l = 0%nat).
  { apply n_usable_zero. intros g Hg. apply Hno. unfold entry. rewrite Hl. exact Hg. }
  assert (Hl' : tget None tb' = Some l) by (rewrite (validate_root_unchanged _ _ _ _ _ _ V); exact Hl).
  destruct (cc_loop_err qg tb' None l (tget_In _ _ _ Hl') Hne) as [e He].
  - apply n_usable_zero. exact Z.
  - congruence.
Qed.

Lemma loop_lists_incl q minm al new g : In g new -> In g (loop_lists q minm al new).
Proof.
  revert new. induction al as [|l r IH]; intros new H; cbn; [exact H|].
  destruct (minm <=? n_usable q (new ++ l))%nat; [|apply IH]; apply in_or_app; left; exact H.
Qed.

Definition lists_gene (g : gene) (tb : table) : Prop := exists k l, In (k, l) tb /\ In g l.

Lemma patch_parent_keeps t q minm tb li x g :
  In g q -> lists_gene g tb ->
  lists_gene g (fst (patch_parent t q minm tb li x (entry tb (Some (li, x))))).
Proof.
  intros Hq (k & l & Hin & Hg). unfold patch_parent.
  pose proof (patch_loop_lists tb q minm (ancestors t li x) (entry tb (Some (li, x))) []) as HL.
  destruct (patch_loop tb q minm (ancestors t li x) (entry tb (Some (li, x))) []) as [new1 patched1].
  cbn [fst] in HL.
  assert (Hincl : forall g', In g' (entry tb (Some (li, x))) -> In g' new1).
  { intros g' H'. rewrite HL. apply loop_lists_incl. exact H'. }
  assert (Key : forall new2, (forall g', In g' new1 -> In g' new2) ->
                lists_gene g (tset (Some (li, x)) (canon (inq q new2)) tb)).
  { intros new2 H2. destruct (tset_In k l (Some (li, x)) (canon (inq q new2)) tb Hin) as [H|[-> Hget]].
    - exists k, l. auto.
    - exists (Some (li, x)), (canon (inq q new2)). split; [apply tset_In_new|].
      apply canon_In, inq_In. split; [|exact Hq]. apply H2, Hincl. unfold entry. rewrite Hget. exact Hg. }
  destruct (n_usable q new1 <? minm)%nat.
  - destruct (tget None tb) as [l0|]; cbn [fst].
    + destruct (is_nil (patched1 ++ [None])); [exists k, l; auto|].
      apply Key. intros g' H'. apply in_or_app. left. exact H'.
    + destruct (is_nil patched1); [exists k, l; auto | apply Key; auto].
  - cbn [fst]. destruct (is_nil patched1); [exists k, l; auto | apply Key; auto].
Qed.

Lemma step_tb_keeps t q minm tb p g : In g q -> lists_gene g tb -> lists_gene g (step_tb t q minm tb p).
Proof.
  intros Hq H. unfold step_tb.
  destruct (length (children t p) <=? 1)%nat; [exact H|].
  destruct p as [[li x]|]; [|exact H].
  destruct (tget (Some (li, x)) tb) as [l0|] eqn:E.
  - destruct (n_usable q (entry tb (Some (li, x))) <? minm)%nat; [|exact H].
    apply patch_parent_keeps; assumption.
  - assert (H1 : lists_gene g (tset (Some (li, x)) [] tb)).
    { rewrite (tget_none_tset _ _ _ E). destruct H as (k & l & Hin & Hg). exists k, l. split; [apply in_or_app; left; exact Hin | exact Hg]. }
    destruct (n_usable q (entry tb (Some (li, x))) <? minm)%nat; [|exact H1].
    assert (Ee : entry tb (Some (li, x)) = entry (tset (Some (li, x)) [] tb) (Some (li, x))).
    { rewrite entry_tset_same. unfold entry. rewrite E. reflexivity. }
    rewrite Ee. apply patch_parent_keeps; assumption.
Qed.

Lemma fold_step_tb_keeps t q minm l tb g :
  In g q -> lists_gene g tb -> lists_gene g (fold_left (step_tb t q minm) l tb).
Proof.
  intros Hq. revert tb. induction l as [|p r IH]; intros tb H; cbn; [exact H|].
  apply IH. apply step_tb_keeps; assumption.
Qed.

Theorem unknown_to_reference_is_error t tb refg qg minm k l g :
  In (k, l) tb -> In g l -> In g qg -> ~ In g refg ->
  exists e, create_cache tb refg qg (Some t) minm = MErr e.
Proof.
  intros Hin Hg Hq Hr. destruct (create_cache tb refg qg (Some t) minm) as [c|e] eqn:E; [|eexists; reflexivity].
  exfalso. destruct (create_cache_inv _ _ _ _ _ _ E) as (tb' & log & final & V & C & M & W).
  assert (HL : lists_gene g tb').
  { unfold validate_marker_lookup in V.
    destruct (v_err (vfold tb qg t minm)); [destruct (Nat.eqb _ _); discriminate|].
    inversion V; subst tb' log. unfold vfold. rewrite vfold_tb_gen. cbn [vinit v_tb].
    apply fold_step_tb_keeps; [exact Hq | exists k, l; auto]. }
  destruct HL as (k' & l' & Hin' & Hg').
  assert (T : missing_ref refg tb' = true).
  { unfold missing_ref. apply existsb_exists. exists (k', l'). split; [exact Hin'|].
    cbn. apply existsb_exists. exists g. split; [exact Hg'|]. apply negb_true_iff, zmem_false. exact Hr. }
  congruence.
Qed.

(* every gene written to the cache is a gene of the query and of the reference *)
Theorem used_in_query_and_reference tb refg qg topt minm c k ri qi :
  create_cache tb refg qg topt minm = MOk c -> In (k, (ri, qi)) (c_groups c) ->
  exists names, names_at refg ri = Some names /\ names_at qg qi = Some names /\ ascending ri /\
                forall g, In g names -> In g qg /\ In g refg.
Proof.
  unfold create_cache.
  destruct (match topt with Some t => _ | None => MOk tb end) as [tb'|e] eqn:V; [|discriminate].
  destruct (cc_loop qg tb') as [final|e] eqn:C; [|discriminate].
  destruct (missing_ref refg tb'); [discriminate|].
  intros W Hin. destruct (pairing_by_name _ _ _ _ _ _ _ W Hin) as (l & names & Hl & Hp & Ha & N1 & N2).
  exists names. repeat split; auto.
  - apply names_at_inv in N2. clear -N2 H.
    induction N2 as [|i g' idx gs Hi _ IH]; [destruct H|].
    destruct H as [->|H]; [eapply nth_error_In; exact Hi | apply IH; exact H].
  - apply names_at_inv in N1. clear -N1 H.
    induction N1 as [|i g' idx gs Hi _ IH]; [destruct H|].
    destruct H as [->|H]; [eapply nth_error_In; exact Hi | apply IH; exact H].
Qed.

(* ------------------------------------------------------------------ flattening *)
Theorem flatten_unions tb refg qg lv minm c :
  NoDup (nodes lv) -> (2 <= length (nodes lv))%nat ->
  create_cache (flatten_table tb) refg qg (Some [lv]) minm = MOk c ->
  all_parents [lv] = [None] /\
  exists ri qi names,
    tget None (c_groups c) = Some (ri, qi) /\
    names_at refg ri = Some names /\ names_at qg qi = Some names /\ NoDup names /\
    forall g, In g names <-> (In g qg /\ exists k l, In (k, l) tb /\ In g l).
Proof.
  intros ND Hn H. split; [reflexivity|].
  assert (Hd : dict_ok [lv]) by (constructor; [exact ND | constructor]).
  destruct (used_equals_spec [lv] (flatten_table tb) refg qg minm c None Hd H) as (ri & qi & names & G & N1 & N2 & NDn & _ & Hs).
  - left. reflexivity.
  - cbn. exact Hn.
  - exists ri, qi, names. repeat split; auto.
    + apply Hs in H0. unfold spec_markers, flatten_table, entry in H0. cbn in H0.
      apply inq_In in H0. tauto.
    + apply Hs in H0. unfold spec_markers, flatten_table, entry in H0. cbn in H0.
      apply inq_In in H0. destruct H0 as [H0 _]. apply canon_In, in_concat in H0.
      destruct H0 as (l & Hl & Hg). apply in_map_iff in Hl. destruct Hl as ([k l'] & <- & Hkl).
      exists k, l'. auto.
    + intros [Hq (k & l & Hkl & Hg)]. apply Hs. unfold spec_markers, flatten_table, entry. cbn.
      apply inq_In. split; [|exact Hq]. apply canon_In, in_concat. exists l. split; [|exact Hg].
      apply in_map_iff. exists (k, l). auto.
Qed.

Lemma flatten_is_leaf_level t t' : flatten t = TOk t' -> t' = [leaf_level t].
Proof. unfold flatten, mk_tree. destruct (validate [leaf_level t]); intros H; inversion H; reflexivity. Qed.

Theorem no_shared_marker_is_error t tb refg qg minm :
  (2 <= length (children t None))%nat ->
  (forall k l g, In (k, l) tb -> In g l -> ~ In g qg) ->
  exists e, create_cache tb refg qg (Some t) minm = MErr e.
Proof.
  intros Hc Hno. apply root_without_usable_is_error; [exact Hc|].
  intros g Hg. unfold entry in Hg. destruct (tget None tb) as [l|] eqn:E; [|destruct Hg].
  exact (Hno None l g (tget_In _ _ _ E) Hg).
Qed.

(* ------------------------------------------------------------------ unknown markers: which entries reach the reference check *)
(* entry_replaced without the membership test *)
Definition replaced_core (tb : table) (q : list gene) (minm : nat) (t : tree) (p : pkey) : bool :=
  match p with
  | None => false
  | Some (li, x) =>
      (2 <=? length (children t p))%nat && (n_usable q (entry tb p) <? minm)%nat &&
      (negb (is_nil (anc_lists tb t li x)) || match tget None tb with Some _ => true | None => false end)
  end.

Lemma entry_replaced_core tb q minm t p :
  entry_replaced tb q minm t p = in_parents t p && replaced_core tb q minm t p.
Proof.
  destruct p as [[li x]|]; unfold entry_replaced, replaced_core; [|rewrite andb_false_r; reflexivity].
  rewrite !andb_assoc. reflexivity.
Qed.

Lemma replaced_core_ext tb tb' q minm t p :
  tget p tb = tget p tb' ->
  (forall li x a, p = Some (li, x) -> In a (ancestors t li x) -> tget (Some a) tb = tget (Some a) tb') ->
  tget None tb = tget None tb' ->
  replaced_core tb q minm t p = replaced_core tb' q minm t p.
Proof.
  intros H1 H2 H3. destruct p as [[li x]|]; [|reflexivity].
  unfold replaced_core, entry, anc_lists. rewrite H1, H3.
  fold (present_lists tb (ancestors t li x)). fold (present_lists tb' (ancestors t li x)).
  rewrite (present_lists_ext tb tb'); [reflexivity|].
  intros a Ha. eapply H2; [reflexivity | exact Ha].
Qed.

(* an entry that is not replaced is left as listed by the step of its own key *)
Lemma step_tb_keep t q minm tb p v :
  tget p tb = Some v -> replaced_core tb q minm t p = false ->
  tget p (step_tb t q minm tb p) = Some v.
Proof.
  intros Hget Hrep. unfold step_tb.
  destruct (length (children t p) <=? 1)%nat eqn:Ec; [exact Hget|].
  destruct p as [[li x]|]; [|exact Hget].
  rewrite Hget. cbv beta iota zeta.
  destruct (n_usable q (entry tb (Some (li, x))) <? minm)%nat eqn:Emin; [|exact Hget].
  unfold replaced_core in Hrep. rewrite Emin in Hrep.
  assert (H2 : (2 <=? length (children t (Some (li, x))))%nat = true).
  { apply Nat.leb_le. apply Nat.leb_gt in Ec. lia. }
  rewrite H2 in Hrep. cbn [andb] in Hrep.
  apply orb_false_iff in Hrep. destruct Hrep as [Hal Hroot].
  apply negb_false_iff in Hal. unfold anc_lists in Hal.
  unfold patch_parent.
  pose proof (patch_loop_patched_nil tb q minm (ancestors t li x) (entry tb (Some (li, x))) []) as HN.
  destruct (patch_loop tb q minm (ancestors t li x) (entry tb (Some (li, x))) []) as [new1 patched1].
  cbn [fst snd] in HN. unfold present_lists in HN. rewrite Hal in HN. cbn in HN.
  destruct (tget None tb) as [l0|]; [discriminate|].
  destruct (n_usable q new1 <? minm)%nat; cbn [fst]; rewrite HN; exact Hget.
Qed.

Lemma R_keep t q minm tb0 l : ordered l ->
  forall k v, tget k tb0 = Some v -> (In k l -> replaced_core tb0 q minm t k = false) ->
  tget k (R t q minm tb0 l) = Some v.
Proof.
  induction l as [|p rest IH]; intros Ho k v Hget Hrep; [exact Hget|].
  cbn [ordered] in Ho. destruct Ho as (Hdeep & Hnew & Ho).
  cbn [R fold_right]. fold (R t q minm tb0 rest).
  destruct (R_inv t q minm tb0 rest Ho) as [IH1 _].
  destruct (pkey_eqb k p) eqn:E.
  - apply pkey_eqb_eq in E. subst p.
    assert (Hk : tget k (R t q minm tb0 rest) = tget k tb0) by (apply IH1; exact Hnew).
    apply step_tb_keep; [rewrite Hk; exact Hget|].
    rewrite <- (Hrep (or_introl eq_refl)). apply replaced_core_ext.
    + exact Hk.
    + intros li x [k' a] Ek Ha. subst k. apply IH1.
      intros Hr. apply Hdeep in Hr. apply ancestors_above in Ha. cbn in Hr. lia.
    + apply R_root.
  - apply pkey_eqb_neq in E. rewrite step_tb_other by exact E.
    apply IH; [exact Ho | exact Hget |]. intros Hin. apply Hrep. right. exact Hin.
Qed.

(* a listed marker that the reference does not know ends the run with an error, unless the query lacks it too
   AND its entry is replaced by the patched one (which is restricted to query genes) *)
Theorem unknown_marker_is_error t tb refg qg minm k l g :
  dict_ok t -> tget k tb = Some l -> In g l ->
  demands_error tb refg qg minm t k g = true ->
  exists e, create_cache tb refg qg (Some t) minm = MErr e.
Proof.
  intros Hd Hget Hg Hdem. unfold demands_error in Hdem.
  apply andb_true_iff in Hdem. destruct Hdem as [Hr Hc].
  apply negb_true_iff in Hr. apply zmem_false in Hr.
  apply orb_true_iff in Hc. destruct Hc as [Hq|Hn].
  - apply zmem_in in Hq. eapply unknown_to_reference_is_error; [apply tget_In; exact Hget | exact Hg | exact Hq | exact Hr].
  - destruct (create_cache tb refg qg (Some t) minm) as [c|e] eqn:E; [|eexists; reflexivity].
    exfalso. destruct (create_cache_inv _ _ _ _ _ _ E) as (tb' & log & final & V & C & M & W).
    assert (Hk : tget k tb' = Some l).
    { unfold validate_marker_lookup in V.
      destruct (v_err (vfold tb qg t minm)); [destruct (Nat.eqb _ _); discriminate|].
      inversion V; subst tb' log. rewrite vfold_tb.
      apply R_keep; [apply ordered_all_parents; exact Hd | exact Hget |].
      intros Hin. apply negb_true_iff in Hn. rewrite entry_replaced_core in Hn.
      assert (Hp : in_parents t k = true).
      { unfold in_parents. apply existsb_exists. exists k. split; [exact Hin | apply pkey_eqb_refl]. }
      rewrite Hp in Hn. exact Hn. }
    assert (T : missing_ref refg tb' = true).
    { unfold missing_ref. apply existsb_exists. exists (k, l). split; [apply tget_In; exact Hk|].
      cbn. apply existsb_exists. exists g. split; [exact Hg|]. apply negb_true_iff, zmem_false. exact Hr. }
    congruence.
Qed.

(* hence: an accepted table (a dict: no key twice) leaves nothing in unknown_demanded *)
Lemma NoDup_keys_tget {A} k (v : A) tb : NoDup (map fst tb) -> In (k, v) tb -> tget k tb = Some v.
Proof.
  induction tb as [|[k' v'] r IH]; intros ND Hin; [destruct Hin|].
  cbn [map fst] in ND. inversion ND as [|? ? Hnot ND']; subst.
  cbn [tget]. destruct Hin as [E|Hin].
  - inversion E; subst. rewrite pkey_eqb_refl. reflexivity.
  - destruct (pkey_eqb k k') eqn:Ek.
    + apply pkey_eqb_eq in Ek. subst k'. exfalso. apply Hnot. apply in_map_iff. exists (k, v). auto.
    + apply IH; assumption.
Qed.

Theorem accepted_demands_nothing t tb refg qg minm c :
  dict_ok t -> NoDup (map fst tb) ->
  create_cache tb refg qg (Some t) minm = MOk c ->
  unknown_demanded tb refg qg minm t = [].
Proof.
  intros Hd ND Hc.
  destruct (unknown_demanded tb refg qg minm t) as [|[k g] rest] eqn:E; [reflexivity|].
  exfalso.
  assert (Hin : In (k, g) (unknown_demanded tb refg qg minm t)) by (rewrite E; left; reflexivity).
  unfold unknown_demanded in Hin. apply in_flat_map in Hin. destruct Hin as ([k' l] & Hkl & Hin).
  apply filter_In in Hkl. destruct Hkl as [Hkl _].
  cbn [fst snd] in Hin. apply in_map_iff in Hin. destruct Hin as (g' & Eg & Hg').
  inversion Eg; subst k' g'. apply filter_In in Hg'. destruct Hg' as [Hg Hdem].
  destruct (unknown_marker_is_error t tb refg qg minm k l g Hd (NoDup_keys_tget _ _ _ ND Hkl) Hg Hdem) as [e He].
  congruence.
Qed.
