(* Lemmas about Model/Markers.v (C08). *)
From Coq Require Import ZArith List Bool Arith Lia Permutation.
From CTM Require Import Base.Sx Base.ListX Base.SortX Model.Tree Model.Markers.
Import ListNotations.
Open Scope Z_scope.

(* ------------------------------------------------------------------ keys and tables *)
Lemma pkey_eqb_eq a b : pkey_eqb a b = true <-> a = b.
Proof.
  destruct a as [[i x]|], b as [[j y]|]; cbn; try (split; congruence).
  rewrite andb_true_iff, Nat.eqb_eq, Z.eqb_eq. split; [intros [-> ->]; reflexivity | intros H; inversion H; auto].
Qed.
Lemma pkey_eqb_refl a : pkey_eqb a a = true.
Proof. apply pkey_eqb_eq. reflexivity. Qed.
Lemma pkey_eqb_neq a b : pkey_eqb a b = false <-> a <> b.
Proof. rewrite <- pkey_eqb_eq. destruct (pkey_eqb a b); split; congruence. Qed.

Lemma tget_tset_same {A} k (v : A) tb : tget k (tset k v tb) = Some v.
Proof.
  induction tb as [|[k' v'] r IH]; cbn; [rewrite pkey_eqb_refl; reflexivity|].
  destruct (pkey_eqb k k') eqn:E; cbn; rewrite E; [reflexivity | exact IH].
Qed.
Lemma tget_tset_other {A} k k' (v : A) tb : k' <> k -> tget k' (tset k v tb) = tget k' tb.
Proof.
  intros N. induction tb as [|[k2 v2] r IH]; cbn.
  - apply pkey_eqb_neq in N. rewrite N. reflexivity.
  - destruct (pkey_eqb k k2) eqn:E; cbn.
    + apply pkey_eqb_eq in E. subst k2. apply pkey_eqb_neq in N. rewrite N. reflexivity.
    + destruct (pkey_eqb k' k2); [reflexivity | exact IH].
Qed.
Lemma tget_In {A} k (v : A) tb : tget k tb = Some v -> In (k, v) tb.
Proof.
  induction tb as [|[k' v'] r IH]; cbn; [discriminate|].
  destruct (pkey_eqb k k') eqn:E.
  - apply pkey_eqb_eq in E. subst. intros H; inversion H; subst. left; reflexivity.
  - intros H. right. apply IH. exact H.
Qed.
Lemma tget_none_tset {A} k (v : A) tb : tget k tb = None -> tset k v tb = tb ++ [(k, v)].
Proof.
  induction tb as [|[k' v'] r IH]; cbn; [reflexivity|].
  destruct (pkey_eqb k k'); [discriminate|]. intros H. rewrite (IH H). reflexivity.
Qed.
(* a binding survives an assignment, unless it is the first binding of the assigned key *)
Lemma tset_In {A} k (l : A) p (v : A) tb :
  In (k, l) tb -> In (k, l) (tset p v tb) \/ (k = p /\ tget p tb = Some l).
Proof.
  induction tb as [|[k' v'] r IH]; cbn; [tauto|].
  intros [H|H].
  - inversion H; subst k' v'. destruct (pkey_eqb p k) eqn:E.
    + right. apply pkey_eqb_eq in E. auto.
    + left. left. reflexivity.
  - destruct (pkey_eqb p k') eqn:E.
    + left. right. exact H.
    + destruct (IH H) as [H1|H1]; [left; right; exact H1 | right; exact H1].
Qed.
Lemma tset_In_new {A} p (v : A) tb : In (p, v) (tset p v tb).
Proof. apply tget_In. apply tget_tset_same. Qed.

Lemma entry_tset_same k v tb : entry (tset k v tb) k = v.
Proof. unfold entry. rewrite tget_tset_same. reflexivity. Qed.
Lemma entry_tset_other k k' v tb : k' <> k -> entry (tset k v tb) k' = entry tb k'.
Proof. intros N. unfold entry. rewrite tget_tset_other by exact N. reflexivity. Qed.

(* ------------------------------------------------------------------ gene sets *)
Lemma uniq_In g l : In g (uniq l) <-> In g l.
Proof. apply nodup_In. Qed.
Lemma uniq_NoDup l : NoDup (uniq l).
Proof. apply NoDup_nodup. Qed.
Lemma inq_In q g l : In g (inq q l) <-> In g l /\ In g q.
Proof. unfold inq. rewrite filter_In, zmem_in. tauto. Qed.
Lemma canon_In g l : In g (canon l) <-> In g l.
Proof. unfold canon. rewrite zsort_in. apply uniq_In. Qed.
Lemma inq_app q a b : inq q (a ++ b) = inq q a ++ inq q b.
Proof. apply filter_app. Qed.

Lemma same_set_length (a b : list gene) :
  (forall g, In g a <-> In g b) -> length (uniq a) = length (uniq b).
Proof.
  intros H. apply Permutation_length. apply NoDup_Permutation; try apply uniq_NoDup.
  intros g. rewrite !uniq_In. apply H.
Qed.
Lemma n_usable_set q a b : (forall g, In g a <-> In g b) -> n_usable q a = n_usable q b.
Proof.
  intros H. unfold n_usable. apply same_set_length. intros g. rewrite !inq_In, H. tauto.
Qed.
Lemma n_usable_zero q l : n_usable q l = 0%nat <-> (forall g, In g l -> ~ In g q).
Proof.
  unfold n_usable. split.
  - intros H g Hg Hq. assert (Hi : In g (uniq (inq q l))) by (apply uniq_In, inq_In; auto).
    destruct (uniq (inq q l)); [destruct Hi | discriminate].
  - intros H. destruct (uniq (inq q l)) as [|g r] eqn:E; [reflexivity|].
    exfalso. assert (Hi : In g (uniq (inq q l))) by (rewrite E; left; reflexivity).
    apply uniq_In, inq_In in Hi. destruct Hi as [H1 H2]. exact (H g H1 H2).
Qed.

(* ------------------------------------------------------------------ the fallback loop *)
(* the loop read over the lists of the ancestors that are keys of the table *)
Fixpoint loop_lists (q : list gene) (minm : nat) (al : list (list gene)) (new : list gene) : list gene :=
  match al with
  | [] => new
  | l :: r => let new' := new ++ l in
              if (minm <=? n_usable q new')%nat then new' else loop_lists q minm r new'
  end.
Definition present_lists (tb : table) (ancs : list (nat * node)) : list (list gene) :=
  flat_map (fun a => match tget (Some a) tb with Some l => [l] | None => [] end) ancs.

Lemma patch_loop_lists tb q minm ancs new patched :
  fst (patch_loop tb q minm ancs new patched) = loop_lists q minm (present_lists tb ancs) new.
Proof.
  revert new patched. induction ancs as [|a rest IH]; intros new patched; cbn; [reflexivity|].
  destruct (tget (Some a) tb) as [l|]; cbn; [|apply IH].
  destruct (minm <=? n_usable q (new ++ l))%nat; [reflexivity | apply IH].
Qed.
Lemma patch_loop_patched_nil tb q minm ancs new patched :
  is_nil (snd (patch_loop tb q minm ancs new patched)) = is_nil patched && is_nil (present_lists tb ancs).
Proof.
  revert new patched. induction ancs as [|a rest IH]; intros new patched; cbn; [rewrite andb_true_r; reflexivity|].
  destruct (tget (Some a) tb) as [l|]; cbn; [|apply IH].
  destruct (minm <=? n_usable q (new ++ l))%nat; cbn.
  - destruct patched; cbn; reflexivity.
  - rewrite IH. destruct patched; cbn; reflexivity.
Qed.

Lemma find_seq_shift (P : nat -> bool) a n :
  find P (seq (S a) n) = option_map S (find (fun k => P (S k)) (seq a n)).
Proof.
  revert a. induction n as [|n IH]; intros a; cbn; [reflexivity|].
  destruct (P (S a)); [reflexivity | apply IH].
Qed.

Lemma find_ext' {A} (f g : A -> bool) l : (forall a, f a = g a) -> find f l = find g l.
Proof. intros H. induction l as [|x t IH]; cbn; [reflexivity|]. rewrite H, IH. reflexivity. Qed.

Lemma k_min_cons q minm own l r :
  k_min q minm own (l :: r) =
  if (minm <=? n_usable q (own ++ l))%nat then 1%nat else S (k_min q minm (own ++ l) r).
Proof.
  unfold k_min. cbn [length seq find].
  assert (E1 : with_first own (l :: r) 1 = own ++ l).
  { unfold with_first. cbn. rewrite app_nil_r. reflexivity. }
  rewrite E1. destruct (minm <=? n_usable q (own ++ l))%nat; [reflexivity|].
  rewrite find_seq_shift.
  assert (E2 : forall k, with_first own (l :: r) (S k) = with_first (own ++ l) r k).
  { intros k. unfold with_first. cbn. rewrite app_assoc. reflexivity. }
  rewrite (find_ext' _ (fun k => (minm <=? n_usable q (with_first (own ++ l) r k))%nat)) by (intros k; rewrite E2; reflexivity).
  destruct (find _ (seq 1 (length r))); reflexivity.
Qed.

Lemma loop_lists_spec q minm al own :
  loop_lists q minm al own = with_first own al (k_min q minm own al).
Proof.
  revert own. induction al as [|l r IH]; intros own.
  - unfold with_first, k_min. cbn. rewrite app_nil_r. reflexivity.
  - cbn [loop_lists]. rewrite k_min_cons.
    destruct (minm <=? n_usable q (own ++ l))%nat.
    + unfold with_first. cbn. rewrite app_nil_r. reflexivity.
    + rewrite IH. unfold with_first. cbn. rewrite app_assoc. reflexivity.
Qed.

(* minimality, stated on its own: no shorter prefix of the ancestor lists reaches the minimum,
   and if the chosen one does not reach it either then every ancestor was taken *)
Lemma k_min_minimal q minm own al k :
  (1 <= k < k_min q minm own al)%nat -> (n_usable q (with_first own al k) < minm)%nat.
Proof.
  unfold k_min. intros Hk.
  destruct (find _ (seq 1 (length al))) as [k0|] eqn:E.
  - (* find returns the first hit *)
    clear -E Hk. revert E Hk. generalize 1%nat as a. generalize (length al) as n.
    induction n as [|n IH]; intros a E Hk; cbn in E; [discriminate|].
    destruct (minm <=? n_usable q (with_first own al a))%nat eqn:Ea.
    + inversion E; subst. lia.
    + destruct (Nat.eq_dec k a) as [->|N]; [apply Nat.leb_gt in Ea; exact Ea|].
      apply (IH (S a)); [exact E | lia].
  - pose proof (find_none _ _ E k) as H. cbv beta in H.
    assert (Hin : In k (seq 1 (length al))) by (apply in_seq; lia).
    apply H in Hin. apply Nat.leb_gt in Hin. exact Hin.
Qed.
Lemma k_min_bounds q minm own al : (k_min q minm own al <= length al)%nat /\
  (al <> [] -> 1 <= k_min q minm own al)%nat.
Proof.
  unfold k_min. destruct (find _ (seq 1 (length al))) as [k0|] eqn:E.
  - apply find_some in E. destruct E as [E _]. apply in_seq in E. lia.
  - split; [lia|]. destruct al; [congruence | cbn; lia].
Qed.

(* ------------------------------------------------------------------ one step of the fold: the table *)
Definition step_tb (t : tree) (q : list gene) (minm : nat) (tb : table) (p : pkey) : table :=
  if (length (children t p) <=? 1)%nat then tb else
  match p with
  | None => tb
  | Some (li, x) =>
      let tb1 := match tget p tb with Some _ => tb | None => tset p [] tb end in
      if (n_usable q (entry tb p) <? minm)%nat
      then fst (patch_parent t q minm tb1 li x (entry tb p)) else tb1
  end.

Lemma vstep_tb t q minm st p : v_tb (vstep t q minm st p) = step_tb t q minm (v_tb st) p.
Proof.
  unfold vstep, step_tb, entry.
  destruct (length (children t p) <=? 1)%nat; [reflexivity|].
  destruct p as [[li x]|].
  - destruct (tget (Some (li, x)) (v_tb st)) as [l|] eqn:E.
    + destruct (is_nil l) eqn:N.
      * destruct l; [|discriminate].
        destruct (n_usable q [] <? minm)%nat; [|reflexivity].
        destruct (patch_parent t q minm (v_tb st) li x []) as [tb' pw]. cbn [fst].
        destruct (Nat.eqb _ 0); reflexivity.
      * destruct (n_usable q l <? minm)%nat; [|reflexivity].
        destruct (patch_parent t q minm (v_tb st) li x l) as [tb' pw]. cbn [fst].
        destruct (Nat.eqb _ 0); reflexivity.
    + destruct (n_usable q [] <? minm)%nat; [|reflexivity].
      destruct (patch_parent t q minm (tset (Some (li, x)) [] (v_tb st)) li x []) as [tb' pw]. cbn [fst].
      destruct (Nat.eqb _ 0); reflexivity.
  - destruct (tget None (v_tb st)) as [l|]; [|reflexivity].
    destruct (is_nil l); [reflexivity|].
    destruct (n_usable q l <? minm)%nat; [|reflexivity].
    destruct (Nat.eqb _ 0); reflexivity.
Qed.

Lemma patch_parent_other t q minm tb li x markers k :
  k <> Some (li, x) -> tget k (fst (patch_parent t q minm tb li x markers)) = tget k tb.
Proof.
  intros N. unfold patch_parent.
  destruct (patch_loop tb q minm (ancestors t li x) markers []) as [new1 patched1].
  destruct (n_usable q new1 <? minm)%nat.
  - destruct (tget None tb) as [l|]; cbn [fst].
    + destruct (is_nil (patched1 ++ [None])); [reflexivity | apply tget_tset_other; exact N].
    + destruct (is_nil patched1); [reflexivity | apply tget_tset_other; exact N].
  - cbn [fst]. destruct (is_nil patched1); [reflexivity | apply tget_tset_other; exact N].
Qed.

Lemma step_tb_other t q minm tb p k : k <> p -> tget k (step_tb t q minm tb p) = tget k tb.
Proof.
  intros N. unfold step_tb.
  destruct (length (children t p) <=? 1)%nat; [reflexivity|].
  destruct p as [[li x]|]; [|reflexivity].
  assert (E1 : tget k (match tget (Some (li, x)) tb with Some _ => tb | None => tset (Some (li, x)) [] tb end)
               = tget k tb).
  { destruct (tget (Some (li, x)) tb); [reflexivity | apply tget_tset_other; exact N]. }
  destruct (n_usable q (entry tb (Some (li, x))) <? minm)%nat; [|exact E1].
  rewrite patch_parent_other by exact N. exact E1.
Qed.

(* ancestors lie strictly above *)
Lemma ancestors_above t li x k a : In (k, a) (ancestors t li x) -> (k < li)%nat.
Proof.
  revert x. induction li as [|n IH]; intros x; cbn; [tauto|].
  destruct (parent_of (nth n t []) x) as [p|]; [|intros []].
  intros [H|H]; [inversion H; lia | apply IH in H; lia].
Qed.

(* the declarative statement reads the table only at p, at p's ancestors and at the root *)
Lemma present_lists_ext tb tb' ancs :
  (forall a, In a ancs -> tget (Some a) tb = tget (Some a) tb') ->
  present_lists tb ancs = present_lists tb' ancs.
Proof.
  unfold present_lists. induction ancs as [|a r IH]; intros H; cbn; [reflexivity|].
  rewrite (H a) by (left; reflexivity). rewrite IH; [reflexivity|].
  intros b Hb. apply H. right. exact Hb.
Qed.
Lemma spec_markers_ext tb tb' q minm t p :
  tget p tb = tget p tb' ->
  (forall li x a, p = Some (li, x) -> In a (ancestors t li x) -> tget (Some a) tb = tget (Some a) tb') ->
  (p <> None -> tget None tb = tget None tb') ->
  spec_markers tb q minm t p = spec_markers tb' q minm t p.
Proof.
  intros H1 H2 H3. unfold spec_markers, entry, anc_lists. rewrite H1.
  destruct p as [[li x]|]; [|reflexivity].
  rewrite H3 by discriminate.
  fold (present_lists tb (ancestors t li x)). fold (present_lists tb' (ancestors t li x)).
  rewrite (present_lists_ext tb tb'); [reflexivity|].
  intros a Ha. eapply H2; [reflexivity | exact Ha].
Qed.

(* what the step writes for p is the declarative statement read from the table it found *)
Lemma step_tb_self t q minm tb li x :
  (2 <= length (children t (Some (li, x))))%nat ->
  forall g, (In g (entry (step_tb t q minm tb (Some (li, x))) (Some (li, x))) /\ In g q)
            <-> In g (spec_markers tb q minm t (Some (li, x))).
Proof.
  intros Hc g.
  unfold step_tb. destruct (length (children t (Some (li, x))) <=? 1)%nat eqn:Ec; [apply Nat.leb_le in Ec; lia|].
  remember (match tget (Some (li, x)) tb with Some _ => tb | None => tset (Some (li, x)) [] tb end) as tb1 eqn:Etb1.
  assert (Eown : entry tb1 (Some (li, x)) = entry tb (Some (li, x))).
  { subst tb1. unfold entry. destruct (tget (Some (li, x)) tb) eqn:E; [rewrite E; reflexivity | rewrite tget_tset_same; reflexivity]. }
  assert (Eoth : forall k, k <> Some (li, x) -> tget k tb1 = tget k tb).
  { intros k N. subst tb1. destruct (tget (Some (li, x)) tb); [reflexivity | apply tget_tset_other; exact N]. }
  unfold spec_markers.
  remember (entry tb (Some (li, x))) as own eqn:Eo.
  destruct (n_usable q own <? minm)%nat eqn:Emin.
  - apply Nat.ltb_lt in Emin.
    destruct (minm <=? n_usable q own)%nat eqn:Emin'; [apply Nat.leb_le in Emin'; lia|].
    unfold patch_parent.
    pose proof (patch_loop_lists tb1 q minm (ancestors t li x) own []) as HL.
    pose proof (patch_loop_patched_nil tb1 q minm (ancestors t li x) own []) as HN.
    destruct (patch_loop tb1 q minm (ancestors t li x) own []) as [new1 patched1].
    cbn [fst snd] in HL, HN.
    assert (EP : present_lists tb1 (ancestors t li x) = anc_lists tb t li x).
    { unfold anc_lists. apply present_lists_ext. intros [k a] Ha. apply Eoth.
      intros E. inversion E; subst. apply ancestors_above in Ha. lia. }
    rewrite EP in HL, HN. rewrite loop_lists_spec in HL.
    remember (anc_lists tb t li x) as al eqn:Eal.
    remember (with_first own al (k_min q minm own al)) as u eqn:Eu0.
    subst new1.
    assert (ER : tget None tb1 = tget None tb) by (apply Eoth; discriminate).
    rewrite ER.
    destruct (n_usable q u <? minm)%nat eqn:Eu.
    + unfold entry at 2. destruct (tget None tb) as [l0|] eqn:E0.
      * cbn [fst]. assert (Hnn : is_nil (patched1 ++ [None]) = false) by (destruct patched1; reflexivity).
        rewrite Hnn. rewrite entry_tset_same. rewrite canon_In, !inq_In. tauto.
      * cbn [fst]. destruct (is_nil patched1) eqn:Np.
        -- (* nothing to patch with: the entry stays *)
           rewrite Eown. cbn in HN. symmetry in HN.
           assert (Hal : al = []) by (destruct al; [reflexivity | discriminate]).
           rewrite Eu0, Hal. unfold with_first, k_min. cbn. rewrite !app_nil_r, inq_In. tauto.
        -- rewrite entry_tset_same. rewrite canon_In, !inq_In, app_nil_r. tauto.
    + cbn [fst]. destruct (is_nil patched1) eqn:Np.
      * rewrite Eown. cbn in HN. symmetry in HN.
        assert (Hal : al = []) by (destruct al; [reflexivity | discriminate]).
        rewrite Eu0, Hal. unfold with_first, k_min. cbn. rewrite !app_nil_r, inq_In. tauto.
      * rewrite entry_tset_same. rewrite canon_In, !inq_In. tauto.
  - apply Nat.ltb_ge in Emin.
    destruct (minm <=? n_usable q own)%nat eqn:Emin'; [|apply Nat.leb_gt in Emin'; lia].
    rewrite Eown, inq_In. tauto.
Qed.

(* ------------------------------------------------------------------ the fold over the parents *)
Definition depth (k : pkey) : nat := match k with None => 0 | Some (li, _) => S li end.

(* processing order read backwards: every later-listed key is at least as deep, no key twice *)
Fixpoint ordered (l : list pkey) : Prop :=
  match l with
  | [] => True
  | p :: rest => (forall k, In k rest -> (depth p <= depth k)%nat) /\ ~ In p rest /\ ordered rest
  end.

Definition dict_ok (t : tree) : Prop := Forall (fun lv => NoDup (nodes lv)) t.

Lemma apf_ge li t k x : In (k, x) (all_parents_from li t) -> (li <= k)%nat.
Proof.
  revert li. induction t as [|lv rest IH]; intros li; cbn; [tauto|].
  destruct rest as [|lv2 rest2]; [cbn; tauto|].
  rewrite in_app_iff, in_map_iff. intros [(y & E & _)|H]; [inversion E; lia | apply IH in H; lia].
Qed.

Lemma ordered_map_level li (ns : list node) (tail : list pkey) :
  NoDup ns -> ordered tail -> (forall k, In k tail -> (S li < depth k)%nat) ->
  ordered (map Some (map (fun x => (li, x)) ns) ++ tail).
Proof.
  intros ND Ho Hd. induction ns as [|x r IH]; cbn [map app]; [exact Ho|].
  inversion ND as [|? ? Hx ND']; subst.
  cbn [ordered]. split; [|split].
  - intros k Hk. rewrite in_app_iff in Hk. destruct Hk as [Hk|Hk].
    + rewrite in_map_iff in Hk. destruct Hk as (y & <- & Hy).
      rewrite in_map_iff in Hy. destruct Hy as (z & <- & _). cbn. lia.
    + apply Hd in Hk. cbn. lia.
  - rewrite in_app_iff. intros [Hk|Hk].
    + rewrite in_map_iff in Hk. destruct Hk as (y & E & Hy). inversion E; subst y.
      rewrite in_map_iff in Hy. destruct Hy as (z & E2 & Hz). inversion E2; subst z. contradiction.
    + apply Hd in Hk. cbn in Hk. lia.
  - apply IH. exact ND'.
Qed.

Lemma ordered_apf li t : dict_ok t -> ordered (map Some (all_parents_from li t)).
Proof.
  revert li. induction t as [|lv rest IH]; intros li Hd; cbn; [exact Logic.I|].
  destruct rest as [|lv2 rest2]; [exact Logic.I|].
  inversion Hd as [|? ? Hlv Hrest]; subst.
  rewrite map_app. apply ordered_map_level.
  - exact Hlv.
  - apply IH. exact Hrest.
  - intros k Hk. rewrite in_map_iff in Hk. destruct Hk as ([k' x] & <- & Hin).
    apply apf_ge in Hin. cbn. lia.
Qed.

Lemma ordered_all_parents t : dict_ok t -> ordered (all_parents t).
Proof.
  intros Hd. unfold all_parents. cbn [ordered]. split; [|split].
  - intros k _. cbn. lia.
  - rewrite in_map_iff. intros (y & E & _). discriminate.
  - apply ordered_apf. exact Hd.
Qed.

Section Fold.
Variables (t : tree) (q : list gene) (minm : nat) (tb0 : table).

Definition R (l : list pkey) : table := fold_right (fun p tb => step_tb t q minm tb p) tb0 l.

Lemma step_tb_root tb p : tget None (step_tb t q minm tb p) = tget None tb.
Proof.
  destruct p as [[li x]|].
  - apply step_tb_other. discriminate.
  - unfold step_tb. destruct (length (children t None) <=? 1)%nat; reflexivity.
Qed.
Lemma R_root l : tget None (R l) = tget None tb0.
Proof. induction l as [|p r IH]; cbn; [reflexivity|]. rewrite step_tb_root. exact IH. Qed.

Lemma R_inv l : ordered l ->
  (forall k, ~ In k l -> tget k (R l) = tget k tb0) /\
  (forall li x, In (Some (li, x)) l -> (2 <= length (children t (Some (li, x))))%nat ->
     forall g, (In g (entry (R l) (Some (li, x))) /\ In g q)
               <-> In g (spec_markers tb0 q minm t (Some (li, x)))).
Proof.
  induction l as [|p rest IH]; intros Ho.
  - split; [reflexivity | intros li x []].
  - cbn [ordered] in Ho. destruct Ho as (Hdeep & Hnew & Ho).
    destruct (IH Ho) as [IH1 IH2]. clear IH. cbn [R fold_right]. fold (R rest). split.
    + intros k Hk. cbn in Hk. rewrite step_tb_other by (intros ->; tauto). apply IH1. tauto.
    + intros li x Hin Hc g. destruct Hin as [->|Hin].
      * rewrite step_tb_self by exact Hc.
        rewrite (spec_markers_ext (R rest) tb0); [reflexivity | | | ].
        -- apply IH1. exact Hnew.
        -- intros li' x' [k a] E Ha. inversion E; subst li' x'. apply IH1.
           intros Hr. apply Hdeep in Hr. apply ancestors_above in Ha. cbn in Hr. lia.
        -- intros _. apply R_root.
      * assert (N : Some (li, x) <> p) by (intros <-; contradiction).
        unfold entry. rewrite step_tb_other by exact N. apply IH2; assumption.
Qed.
End Fold.

Lemma vfold_tb_gen t q minm l st :
  v_tb (fold_left (vstep t q minm) l st) = fold_left (step_tb t q minm) l (v_tb st).
Proof.
  revert st. induction l as [|p r IH]; intros st; cbn; [reflexivity|].
  rewrite IH, vstep_tb. reflexivity.
Qed.
Lemma vfold_tb t q minm tb : v_tb (vfold tb q t minm) = R t q minm tb (all_parents t).
Proof.
  unfold vfold, R. rewrite vfold_tb_gen. cbn [vinit v_tb].
  rewrite <- (rev_involutive (all_parents t)) at 2. rewrite fold_left_rev_right. reflexivity.
Qed.

(* the validated table: what C08 says about it *)
Lemma validate_spec t tb q minm tb' log :
  dict_ok t -> validate_marker_lookup tb q t minm = MOk (tb', log) ->
  (forall k, ~ In k (all_parents t) -> tget k tb' = tget k tb) /\
  tget None tb' = tget None tb /\
  (forall li x, In (Some (li, x)) (all_parents t) -> (2 <= length (children t (Some (li, x))))%nat ->
     forall g, (In g (entry tb' (Some (li, x))) /\ In g q) <-> In g (spec_markers tb q minm t (Some (li, x)))).
Proof.
  intros Hd H. unfold validate_marker_lookup in H.
  destruct (v_err (vfold tb q t minm)); [destruct (Nat.eqb _ _); discriminate|].
  inversion H; subst tb' log. rewrite vfold_tb.
  destruct (R_inv t q minm tb (all_parents t) (ordered_all_parents t Hd)) as [H1 H2].
  split; [exact H1|]. split; [apply R_root | exact H2].
Qed.

(* presence of the keys of branching parents in the validated table *)
Lemma step_tb_present t q minm tb li x :
  (2 <= length (children t (Some (li, x))))%nat ->
  tget (Some (li, x)) (step_tb t q minm tb (Some (li, x))) <> None.
Proof.
  intros Hc. unfold step_tb.
  destruct (length (children t (Some (li, x))) <=? 1)%nat eqn:Ec; [apply Nat.leb_le in Ec; lia|].
  assert (P1 : tget (Some (li, x))
                 (match tget (Some (li, x)) tb with Some _ => tb | None => tset (Some (li, x)) [] tb end) <> None).
  { destruct (tget (Some (li, x)) tb) eqn:E; [rewrite E; discriminate | rewrite tget_tset_same; discriminate]. }
  destruct (n_usable q (entry tb (Some (li, x))) <? minm)%nat; [|exact P1].
  unfold patch_parent.
  destruct (patch_loop _ q minm (ancestors t li x) (entry tb (Some (li, x))) []) as [new1 patched1].
  destruct (n_usable q new1 <? minm)%nat.
  - destruct (tget None _); cbn [fst].
    + destruct (is_nil (patched1 ++ [None])); [exact P1 | rewrite tget_tset_same; discriminate].
    + destruct (is_nil patched1); [exact P1 | rewrite tget_tset_same; discriminate].
  - cbn [fst]. destruct (is_nil patched1); [exact P1 | rewrite tget_tset_same; discriminate].
Qed.

Lemma R_present t q minm tb0 l li x :
  In (Some (li, x)) l -> (2 <= length (children t (Some (li, x))))%nat ->
  tget (Some (li, x)) (R t q minm tb0 l) <> None.
Proof.
  induction l as [|p rest IH]; intros Hin Hc; [destruct Hin|].
  cbn [R fold_right]. fold (R t q minm tb0 rest).
  destruct (option_map (fun _ => tt) (Some tt)) eqn:Dummy; [|discriminate]. clear Dummy.
  assert (D : {p = Some (li, x)} + {p <> Some (li, x)}).
  { destruct (pkey_eqb p (Some (li, x))) eqn:E; [left; apply pkey_eqb_eq; exact E | right; apply pkey_eqb_neq; exact E]. }
  destruct D as [->|N].
  - apply step_tb_present. exact Hc.
  - rewrite step_tb_other by congruence. apply IH; [|exact Hc].
    destruct Hin as [E|Hin]; [congruence | exact Hin].
Qed.

(* the root is processed last *)
Lemma vfold_last tb q t minm :
  vfold tb q t minm =
  vstep t q minm (fold_left (vstep t q minm) (rev (map Some (all_parents_from 0 t))) (vinit tb)) None.
Proof. unfold vfold, all_parents. cbn [rev]. rewrite fold_left_app. reflexivity. Qed.

Lemma before_root_tb tb q t minm :
  tget None (v_tb (fold_left (vstep t q minm) (rev (map Some (all_parents_from 0 t))) (vinit tb))) = tget None tb.
Proof.
  rewrite vfold_tb_gen. cbn [vinit v_tb].
  rewrite <- (rev_involutive (map Some (all_parents_from 0 t))) at 1.
  rewrite rev_involutive.
  replace (fold_left (step_tb t q minm) (rev (map Some (all_parents_from 0 t))) tb)
    with (R t q minm tb (map Some (all_parents_from 0 t))).
  - apply R_root.
  - unfold R. rewrite <- (rev_involutive (map Some (all_parents_from 0 t))) at 1.
    rewrite fold_left_rev_right. reflexivity.
Qed.

Lemma vstep_root_ok t q minm st :
  (2 <= length (children t None))%nat -> v_err (vstep t q minm st None) = false ->
  exists l, tget None (v_tb st) = Some l /\ l <> [] /\
            ((n_usable q l < minm)%nat -> n_usable q l <> 0%nat).
Proof.
  intros Hc. unfold vstep.
  destruct (length (children t None) <=? 1)%nat eqn:Ec; [apply Nat.leb_le in Ec; lia|].
  destruct (tget None (v_tb st)) as [l|] eqn:E; [|cbn; discriminate].
  destruct (is_nil l) eqn:N; [cbn; discriminate|].
  intros H. exists l. split; [reflexivity|]. split; [intros ->; discriminate|].
  intros Hlt. apply Nat.ltb_lt in Hlt. rewrite Hlt in H.
  unfold entry in H. rewrite E in H.
  destruct (Nat.eqb (n_usable q l) 0) eqn:Z; [cbn in H; discriminate|].
  apply Nat.eqb_neq in Z. exact Z.
Qed.

Lemma validate_root t tb q minm r :
  validate_marker_lookup tb q t minm = MOk r -> (2 <= length (children t None))%nat ->
  exists l, tget None tb = Some l /\ l <> [] /\ ((n_usable q l < minm)%nat -> n_usable q l <> 0%nat).
Proof.
  intros H Hc. unfold validate_marker_lookup in H.
  destruct (v_err (vfold tb q t minm)) eqn:E; [destruct (Nat.eqb _ _); discriminate|].
  rewrite vfold_last in E. apply vstep_root_ok in E; [|exact Hc].
  rewrite before_root_tb in E. exact E.
Qed.

(* ------------------------------------------------------------------ the loop of create_marker_cache *)
Lemma cc_loop_get need q tb f k :
  cc_loop need q tb = MOk f -> tget k f = option_map (fun l => uniq (inq q l)) (tget k tb).
Proof.
  revert f. induction tb as [|[k' l] r IH]; intros f H; cbn in H.
  - inversion H; reflexivity.
  - destruct (is_nil (uniq (inq q l)) && negb (is_nil l) && need k'); [discriminate|].
    destruct (cc_loop need q r) as [f'|e]; [|discriminate]. inversion H; subst f. cbn.
    destruct (pkey_eqb k k'); [reflexivity | apply IH; reflexivity].
Qed.
Lemma cc_loop_keys need q tb f : cc_loop need q tb = MOk f -> map fst f = map fst tb.
Proof.
  revert f. induction tb as [|[k' l] r IH]; intros f H; cbn in H.
  - inversion H; reflexivity.
  - destruct (is_nil (uniq (inq q l)) && negb (is_nil l) && need k'); [discriminate|].
    destruct (cc_loop need q r) as [f'|e]; [|discriminate]. inversion H; subst f. cbn.
    rewrite (IH f'); reflexivity.
Qed.
Lemma cc_loop_err need q tb k l :
  In (k, l) tb -> need k = true -> l <> [] -> (forall g, In g l -> ~ In g q) -> exists e, cc_loop need q tb = MErr e.
Proof.
  intros Hin Hneed Hne Hno. induction tb as [|[k' l'] r IH]; [destruct Hin|]. cbn.
  destruct Hin as [E|Hin].
  - inversion E; subst k' l'.
    assert (Z : uniq (inq q l) = []).
    { destruct (uniq (inq q l)) as [|g r'] eqn:Eu; [reflexivity|].
      exfalso. assert (Hi : In g (uniq (inq q l))) by (rewrite Eu; left; reflexivity).
      apply uniq_In, inq_In in Hi. destruct Hi. eapply Hno; eauto. }
    rewrite Z, Hneed. destruct l; [congruence|]. cbn. eexists; reflexivity.
  - destruct (is_nil (uniq (inq q l')) && negb (is_nil l') && need k'); [eexists; reflexivity|].
    destruct (IH Hin) as [e He]. rewrite He. eexists; reflexivity.
Qed.

(* the loop rejects nothing but a NEEDED entry that lists genes and shares none with the query *)
Definition entry_ok (need : pkey -> bool) (q : list gene) (kl : pkey * list gene) : Prop :=
  need (fst kl) = false \/ snd kl = [] \/ n_usable q (snd kl) <> 0%nat.

Lemma cc_loop_ok_iff need q tb :
  (exists f, cc_loop need q tb = MOk f) <-> Forall (entry_ok need q) tb.
Proof.
  induction tb as [|[k l] r IH]; cbn [cc_loop].
  - split; [constructor | eexists; reflexivity].
  - split.
    + intros [f H].
      destruct (is_nil (uniq (inq q l)) && negb (is_nil l) && need k) eqn:E; [discriminate|].
      destruct (cc_loop need q r) as [f'|e]; [|discriminate].
      constructor; [|apply IH; eexists; reflexivity].
      unfold entry_ok, n_usable. cbn [fst snd].
      destruct (need k); [|left; reflexivity]. right.
      destruct l as [|g l']; [left; reflexivity|]. right.
      cbn [is_nil negb] in E. rewrite !andb_true_r in E.
      destruct (uniq (inq q (g :: l'))); [discriminate | cbn; discriminate].
    + intros HF. inversion HF as [|? ? Hk Hr]; subst.
      apply IH in Hr. destruct Hr as [f' Hf']. rewrite Hf'.
      assert (E : is_nil (uniq (inq q l)) && negb (is_nil l) && need k = false).
      { unfold entry_ok, n_usable in Hk. cbn [fst snd] in Hk. destruct Hk as [Hk|[Hk|Hk]].
        - rewrite Hk. apply andb_false_r.
        - subst l. reflexivity.
        - destruct (uniq (inq q l)); [exfalso; apply Hk; reflexivity | reflexivity]. }
      rewrite E. eexists; reflexivity.
Qed.

Lemma cc_loop_err_code need q tb e : cc_loop need q tb = MErr e -> e = E_NO_OVERLAP.
Proof.
  induction tb as [|[k l] r IH]; cbn; [discriminate|].
  destruct (is_nil (uniq (inq q l)) && negb (is_nil l) && need k); [intros H; inversion H; reflexivity|].
  destruct (cc_loop need q r) as [f'|e']; [discriminate|]. intros H; inversion H; subst. apply IH. reflexivity.
Qed.

(* ... stated on the failing entry *)
Lemma cc_loop_fails_on_needed need q tb e :
  cc_loop need q tb = MErr e ->
  e = E_NO_OVERLAP /\
  exists k l, In (k, l) tb /\ need k = true /\ l <> [] /\ (forall g, In g l -> ~ In g q).
Proof.
  intros H. split; [eapply cc_loop_err_code; exact H|].
  revert e H. induction tb as [|[k l] r IH]; intros e H; cbn in H; [discriminate|].
  destruct (is_nil (uniq (inq q l)) && negb (is_nil l) && need k) eqn:E.
  - apply andb_true_iff in E. destruct E as [E Hn]. apply andb_true_iff in E. destruct E as [E1 E2].
    exists k, l. split; [left; reflexivity|]. split; [exact Hn|].
    split; [intros ->; discriminate|].
    apply n_usable_zero. unfold n_usable. destruct (uniq (inq q l)); [reflexivity | discriminate].
  - destruct (cc_loop need q r) as [f'|e'] eqn:Er; [discriminate|].
    destruct (IH e' eq_refl) as (k' & l' & Hin & Hrest). exists k', l'. split; [right; exact Hin | exact Hrest].
Qed.

(* ------------------------------------------------------------------ write_query_markers *)
Lemma index_last_nth g names i : index_last g names = Some i -> nth_error names i = Some g.
Proof.
  revert i. induction names as [|x r IH]; intros i; cbn; [discriminate|].
  destruct (index_last g r) as [j|].
  - intros H; inversion H; subst. cbn. apply IH. reflexivity.
  - destruct (x =? g) eqn:E; [|discriminate]. apply Z.eqb_eq in E. subst.
    intros H; inversion H; reflexivity.
Qed.
Lemma index_last_some g names : In g names -> exists i, index_last g names = Some i.
Proof.
  induction names as [|x r IH]; intros H; [destruct H|]. cbn.
  destruct (index_last g r) as [j|] eqn:E; [eexists; reflexivity|].
  destruct H as [->|H]; [rewrite Z.eqb_refl; eexists; reflexivity|].
  destruct (IH H) as [i Hi]. discriminate.
Qed.
Lemma index_last_none g names : index_last g names = None -> ~ In g names.
Proof. intros H Hin. destruct (index_last_some g names Hin) as [i Hi]. congruence. Qed.

Definition col_ok (refg qg : list gene) (pr : nat * nat) (g : gene) : Prop :=
  nth_error refg (fst pr) = Some g /\ nth_error qg (snd pr) = Some g.

Lemma index_pairs_spec refg qg genes ps :
  index_pairs refg qg genes = Some ps -> Forall2 (col_ok refg qg) ps genes.
Proof.
  revert ps. induction genes as [|g r IH]; intros ps H; cbn in H.
  - inversion H. constructor.
  - destruct (index_last g refg) as [a|] eqn:Ea; [|discriminate].
    destruct (index_last g qg) as [b|] eqn:Eb; [|discriminate].
    destruct (index_pairs refg qg r) as [rest|]; [|discriminate].
    inversion H; subst ps. constructor; [|apply IH; reflexivity].
    split; cbn; apply index_last_nth; assumption.
Qed.
Lemma index_pairs_some refg qg genes :
  (forall g, In g genes -> In g refg /\ In g qg) -> exists ps, index_pairs refg qg genes = Some ps.
Proof.
  induction genes as [|g r IH]; intros H; cbn; [eexists; reflexivity|].
  destruct (H g (or_introl eq_refl)) as [Hr Hq].
  destruct (index_last_some g refg Hr) as [a ->]. destruct (index_last_some g qg Hq) as [b ->].
  destruct IH as [ps ->]; [intros g' Hg'; apply H; right; exact Hg'|]. eexists; reflexivity.
Qed.

Lemma pinsert_perm x l : Permutation (pinsert x l) (x :: l).
Proof.
  induction l as [|y t IH]; cbn; [reflexivity|].
  destruct (fst x <=? fst y)%nat; [reflexivity|]. rewrite IH. apply perm_swap.
Qed.
Lemma psort_perm l : Permutation (psort l) l.
Proof.
  induction l as [|x t IH]; cbn; [reflexivity|]. rewrite pinsert_perm. constructor. exact IH.
Qed.

Fixpoint ascending (l : list nat) : Prop :=
  match l with
  | [] => True
  | x :: t => (match t with [] => True | y :: _ => (x <= y)%nat end) /\ ascending t
  end.
Lemma pinsert_ascending x l : ascending (map fst l) -> ascending (map fst (pinsert x l)).
Proof.
  induction l as [|y t IH]; cbn; [tauto|].
  destruct (fst x <=? fst y)%nat eqn:E.
  - apply Nat.leb_le in E. cbn. tauto.
  - apply Nat.leb_gt in E. intros [H1 H2]. cbn. split; [|apply IH; exact H2].
    destruct t as [|z t']; cbn; [lia|]. destruct (fst x <=? fst z)%nat; cbn; [lia|]. cbn in H1. exact H1.
Qed.
Lemma psort_ascending l : ascending (map fst (psort l)).
Proof. induction l as [|x t IH]; cbn; [exact Logic.I | apply pinsert_ascending; exact IH]. Qed.

Lemma names_at_Forall2 names (idx : list nat) (gs : list gene) :
  Forall2 (fun i g => nth_error names i = Some g) idx gs -> names_at names idx = Some gs.
Proof.
  unfold names_at. induction 1 as [|i g idx gs H _ IH]; cbn; [reflexivity|]. rewrite H, IH. reflexivity.
Qed.
Lemma names_at_inv names idx gs :
  names_at names idx = Some gs -> Forall2 (fun i g => nth_error names i = Some g) idx gs.
Proof.
  unfold names_at. revert gs. induction idx as [|i r IH]; intros gs H; cbn in H.
  - inversion H. constructor.
  - destruct (nth_error names i) as [g|] eqn:E; [|discriminate].
    destruct (opt_all (map (nth_error names) r)) as [gs'|]; [|discriminate].
    inversion H; subst. constructor; [exact E | apply IH; reflexivity].
Qed.

(* a sorted group: both index arrays name the same genes, column by column,
   and those genes are the listed ones *)
Lemma group_names refg qg genes ps :
  index_pairs refg qg genes = Some ps ->
  exists names, Permutation genes names /\
    names_at refg (map fst (psort ps)) = Some names /\
    names_at qg (map snd (psort ps)) = Some names.
Proof.
  intros H. apply index_pairs_spec in H.
  destruct (Permutation_Forall2 (Permutation_sym (psort_perm ps)) H) as (names & Hp & HF).
  exists names. split; [exact Hp|].
  split; apply names_at_Forall2.
  - clear -HF. induction HF as [|pr g s ns [H1 _] _ IH]; cbn; constructor; assumption.
  - clear -HF. induction HF as [|pr g s ns [_ H2] _ IH]; cbn; constructor; assumption.
Qed.

Lemma wq_groups_get refg qg tb gs k l :
  wq_groups refg qg tb = Some gs -> tget k tb = Some l ->
  exists ps, index_pairs refg qg l = Some ps /\
             tget k gs = Some (map fst (psort ps), map snd (psort ps)).
Proof.
  revert gs. induction tb as [|[k' l'] r IH]; intros gs H Hk; cbn in *; [discriminate|].
  destruct (index_pairs refg qg l') as [ps'|] eqn:Ep; [|discriminate].
  destruct (wq_groups refg qg r) as [rest|]; [|discriminate].
  inversion H; subst gs. cbn.
  destruct (pkey_eqb k k').
  - inversion Hk; subst l'. exists ps'. split; [exact Ep | reflexivity].
  - apply IH; [reflexivity | exact Hk].
Qed.
Lemma wq_groups_in refg qg tb gs k ri qi :
  wq_groups refg qg tb = Some gs -> In (k, (ri, qi)) gs ->
  exists l ps, In (k, l) tb /\ index_pairs refg qg l = Some ps /\
               ri = map fst (psort ps) /\ qi = map snd (psort ps).
Proof.
  revert gs. induction tb as [|[k' l'] r IH]; intros gs H Hin; cbn in *.
  - inversion H; subst. destruct Hin.
  - destruct (index_pairs refg qg l') as [ps'|] eqn:Ep; [|discriminate].
    destruct (wq_groups refg qg r) as [rest|]; [|discriminate].
    inversion H; subst gs. destruct Hin as [E|Hin].
    + inversion E; subst. exists l', ps'. auto.
    + destruct (IH rest eq_refl Hin) as (l & ps & H1 & H2). exists l, ps. tauto.
Qed.

(* pairing by name, for every gene order *)
Lemma pairing_by_name tb refg qg c k ri qi :
  write_query_markers tb refg qg = MOk c -> In (k, (ri, qi)) (c_groups c) ->
  exists l names, In (k, l) tb /\ Permutation l names /\ ascending ri /\
    names_at refg ri = Some names /\ names_at qg qi = Some names.
Proof.
  unfold write_query_markers. destruct (wq_groups refg qg tb) as [gs|] eqn:E; [|discriminate].
  intros H Hin. inversion H; subst c. cbn [c_groups] in Hin.
  destruct (wq_groups_in _ _ _ _ _ _ _ E Hin) as (l & ps & Hl & Hps & -> & ->).
  destruct (group_names _ _ _ _ Hps) as (names & Hp & H1 & H2).
  exists l, names. repeat split; auto. apply psort_ascending.
Qed.

Lemma names_at_columns refg qg ri qi names j r s :
  names_at refg ri = Some names -> names_at qg qi = Some names ->
  nth_error ri j = Some r -> nth_error qi j = Some s ->
  exists g, nth_error names j = Some g /\ nth_error refg r = Some g /\ nth_error qg s = Some g.
Proof.
  intros H1 H2 Hr Hs. apply names_at_inv in H1. apply names_at_inv in H2.
  assert (Hl : (j < length names)%nat).
  { rewrite <- (Forall2_length _ _ _ H1). apply nth_error_Some. congruence. }
  destruct (nth_error names j) as [g|] eqn:Eg; [|apply nth_error_None in Eg; lia].
  exists g. split; [reflexivity|]. split.
  - exact (Forall2_nth_error _ _ _ _ _ _ H1 Hr Eg).
  - exact (Forall2_nth_error _ _ _ _ _ _ H2 Hs Eg).
Qed.

Lemma write_get tb refg qg c k l :
  write_query_markers tb refg qg = MOk c -> tget k tb = Some l ->
  exists ri qi names, tget k (c_groups c) = Some (ri, qi) /\ Permutation l names /\ ascending ri /\
    names_at refg ri = Some names /\ names_at qg qi = Some names.
Proof.
  unfold write_query_markers. destruct (wq_groups refg qg tb) as [gs|] eqn:E; [|discriminate].
  intros H Hk. inversion H; subst c. cbn [c_groups].
  destruct (wq_groups_get _ _ _ _ _ _ E Hk) as (ps & Hps & Hg).
  destruct (group_names _ _ _ _ Hps) as (names & Hp & H1 & H2).
  exists (map fst (psort ps)), (map snd (psort ps)), names. repeat split; auto. apply psort_ascending.
Qed.

(* ------------------------------------------------------------------ create_cache: the main statements *)
Lemma create_cache_inv tb refg qg t minm c :
  create_cache tb refg qg (Some t) minm = MOk c ->
  exists tb' log final,
    validate_marker_lookup tb qg t minm = MOk (tb', log) /\
    cc_loop (needs_markers t) qg tb' = MOk final /\ missing_ref refg tb' = false /\
    write_query_markers final refg qg = MOk c.
Proof.
  unfold create_cache. destruct (validate_marker_lookup tb qg t minm) as [[tb' log]|e] eqn:V; [|discriminate].
  cbn [cc_need]. destruct (cc_loop (needs_markers t) qg tb') as [final|e] eqn:C; [|discriminate].
  destruct (missing_ref refg tb') eqn:M; [discriminate|].
  intros H. exists tb', log, final. auto.
Qed.

Lemma in_all_parents t p : In p (all_parents t) <->
  p = None \/ exists li x, p = Some (li, x) /\ In (li, x) (all_parents_from 0 t).
Proof.
  unfold all_parents. cbn. rewrite in_map_iff. split.
  - intros [H|([li x] & H & Hin)]; [left; congruence | right; exists li, x; split; [congruence | exact Hin]].
  - intros [->|(li & x & -> & Hin)]; [left; reflexivity | right; exists (li, x); auto].
Qed.

Theorem used_equals_spec t tb refg qg minm c p :
  dict_ok t ->
  create_cache tb refg qg (Some t) minm = MOk c ->
  In p (all_parents t) -> (2 <= length (children t p))%nat ->
  exists ri qi names,
    tget p (c_groups c) = Some (ri, qi) /\
    names_at refg ri = Some names /\ names_at qg qi = Some names /\
    NoDup names /\ ascending ri /\
    forall g, In g names <-> In g (spec_markers tb qg minm t p).
Proof.
  intros Hd Hc Hp Hch.
  destruct (create_cache_inv _ _ _ _ _ _ Hc) as (tb' & log & final & V & C & M & W).
  destruct (validate_spec _ _ _ _ _ _ Hd V) as (V1 & V2 & V3).
  (* the key is present in the validated table *)
  assert (Hpres : exists l, tget p tb' = Some l /\
                            forall g, (In g l /\ In g qg) <-> In g (spec_markers tb qg minm t p)).
  { destruct p as [[li x]|].
    - assert (Hne : tget (Some (li, x)) tb' <> None).
      { unfold validate_marker_lookup in V.
        destruct (v_err (vfold tb qg t minm)); [destruct (Nat.eqb _ _); discriminate|].
        inversion V; subst tb' log. rewrite vfold_tb. apply R_present; assumption. }
      destruct (tget (Some (li, x)) tb') as [l|] eqn:E; [|congruence].
      exists l. split; [reflexivity|]. intros g. rewrite <- (V3 li x Hp Hch g). unfold entry. rewrite E. reflexivity.
    - destruct (validate_root _ _ _ _ _ V Hch) as (l & Hl & _).
      exists l. split; [congruence|]. intros g. unfold spec_markers, entry. rewrite Hl, inq_In. reflexivity. }
  destruct Hpres as (l & Hl & Hspec).
  assert (Hf : tget p final = Some (uniq (inq qg l))) by (rewrite (cc_loop_get _ _ _ _ _ C), Hl; reflexivity).
  destruct (write_get _ _ _ _ _ _ W Hf) as (ri & qi & names & G & Hperm & Hasc & N1 & N2).
  exists ri, qi, names. repeat split; auto.
  - eapply Permutation_NoDup; [exact Hperm | apply uniq_NoDup].
  - intros Hg. apply Hspec. apply inq_In, uniq_In. eapply Permutation_in; [apply Permutation_sym; exact Hperm | exact Hg].
  - intros Hg. eapply Permutation_in; [exact Hperm|]. apply uniq_In, inq_In, Hspec. exact Hg.
Qed.

(* ------------------------------------------------------------------ serialize_markers *)
Lemma serialize_keys_get c refg t ks out p :
  serialize_keys c refg t ks = MOk out -> In p ks ->
  exists g, serialize_one c refg t p = MOk g /\ tget p out = Some g.
Proof.
  revert out. induction ks as [|k r IH]; intros out H Hin; [destruct Hin|].
  cbn in H. destruct (serialize_one c refg t k) as [g|e] eqn:E1; [|discriminate].
  destruct (serialize_keys c refg t r) as [rest|e] eqn:E2; [|discriminate].
  inversion H; subst out. cbn.
  destruct (pkey_eqb p k) eqn:E.
  - apply pkey_eqb_eq in E. subst k. exists g. auto.
  - apply pkey_eqb_neq in E. destruct Hin as [->|Hin]; [congruence|].
    apply (IH rest eq_refl Hin).
Qed.

Theorem reported_equals_used c refg t out p :
  serialize c refg t = MOk out -> In p (all_parents t) ->
  ((p <> None /\ (length (children t p) < 2)%nat) -> tget p out = Some []) /\
  ((p = None \/ (2 <= length (children t p))%nat) ->
     exists ri qi names, tget p (c_groups c) = Some (ri, qi) /\
                         names_at refg ri = Some names /\ tget p out = Some names).
Proof.
  unfold serialize. intros H Hin.
  assert (Hin' : In p (map Some (all_parents_from 0 t) ++ [None])).
  { unfold all_parents in Hin. rewrite in_app_iff. cbn in *. tauto. }
  destruct (serialize_keys_get _ _ _ _ _ _ H Hin') as (g & Hg & Ho).
  unfold serialize_one in Hg. split.
  - intros [Hn Hc]. destruct p as [pp|]; [|congruence].
    apply Nat.ltb_lt in Hc. rewrite Hc in Hg. inversion Hg; subst g. exact Ho.
  - intros Hc.
    assert (Hb : (match p with Some _ => (length (children t p) <? 2)%nat | None => false end) = false).
    { destruct p as [pp|]; [|reflexivity]. destruct Hc as [Hc|Hc]; [discriminate|]. apply Nat.ltb_ge. exact Hc. }
    rewrite Hb in Hg. destruct (tget p (c_groups c)) as [[ri qi]|]; [|discriminate].
    destruct (names_at refg ri) as [names|] eqn:En; [|discriminate].
    inversion Hg; subst g. exists ri, qi, names. auto.
Qed.

(* ------------------------------------------------------------------ parents with a single child *)
Lemma vstep_single_child t q minm st p :
  (length (children t p) <= 1)%nat ->
  vstep t q minm st p =
  {| v_tb := v_tb st; v_err := v_err st; v_bad := v_bad st; v_skip := S (v_skip st); v_log := v_log st |}.
Proof. intros H. unfold vstep. apply Nat.leb_le in H. rewrite H. reflexivity. Qed.

(* ------------------------------------------------------------------ errors *)
Lemma validate_root_unchanged t tb q minm tb' log :
  validate_marker_lookup tb q t minm = MOk (tb', log) -> tget None tb' = tget None tb.
Proof.
  unfold validate_marker_lookup. destruct (v_err (vfold tb q t minm)); [destruct (Nat.eqb _ _); discriminate|].
  intros H; inversion H; subst. rewrite vfold_tb. apply R_root.
Qed.

Theorem root_without_usable_is_error t tb refg qg minm :
  (2 <= length (children t None))%nat ->
  (forall g, In g (entry tb None) -> ~ In g qg) ->
  exists e, create_cache tb refg qg (Some t) minm = MErr e.
Proof.
  intros Hc Hno. destruct (create_cache tb refg qg (Some t) minm) as [c|e] eqn:E; [|eexists; reflexivity].
  exfalso. destruct (create_cache_inv _ _ _ _ _ _ E) as (tb' & log & final & V & C & M & W).
  destruct (validate_root _ _ _ _ _ V Hc) as (l & Hl & Hne & Hmin).
  assert (Z : n_usable qg l = 0%nat).
  { apply n_usable_zero. intros g Hg. apply Hno. unfold entry. rewrite Hl. exact Hg. }
  assert (Hl' : tget None tb' = Some l) by (rewrite (validate_root_unchanged _ _ _ _ _ _ V); exact Hl).
  assert (Hneed : needs_markers t None = true).
  { unfold needs_markers, in_parents, all_parents. cbn [existsb pkey_eqb orb]. apply Nat.leb_le. exact Hc. }
  destruct (cc_loop_err (needs_markers t) qg tb' None l (tget_In _ _ _ Hl') Hneed Hne) as [e He].
  - apply n_usable_zero. exact Z.
  - congruence.
Qed.

Lemma loop_lists_incl q minm al new g : In g new -> In g (loop_lists q minm al new).
Proof.
  revert new. induction al as [|l r IH]; intros new H; cbn; [exact H|].
  destruct (minm <=? n_usable q (new ++ l))%nat; [|apply IH]; apply in_or_app; left; exact H.
Qed.

Definition lists_gene (g : gene) (tb : table) : Prop := exists k l, In (k, l) tb /\ In g l.

Lemma patch_parent_keeps t q minm tb li x g :
  In g q -> lists_gene g tb ->
  lists_gene g (fst (patch_parent t q minm tb li x (entry tb (Some (li, x))))).
Proof.
  intros Hq (k & l & Hin & Hg). unfold patch_parent.
  pose proof (patch_loop_lists tb q minm (ancestors t li x) (entry tb (Some (li, x))) []) as HL.
  destruct (patch_loop tb q minm (ancestors t li x) (entry tb (Some (li, x))) []) as [new1 patched1].
  cbn [fst] in HL.
  assert (Hincl : forall g', In g' (entry tb (Some (li, x))) -> In g' new1).
  { intros g' H'. rewrite HL. apply loop_lists_incl. exact H'. }
  assert (Key : forall new2, (forall g', In g' new1 -> In g' new2) ->
                lists_gene g (tset (Some (li, x)) (canon (inq q new2)) tb)).
  { intros new2 H2. destruct (tset_In k l (Some (li, x)) (canon (inq q new2)) tb Hin) as [H|[-> Hget]].
    - exists k, l. auto.
    - exists (Some (li, x)), (canon (inq q new2)). split; [apply tset_In_new|].
      apply canon_In, inq_In. split; [|exact Hq]. apply H2, Hincl. unfold entry. rewrite Hget. exact Hg. }
  destruct (n_usable q new1 <? minm)%nat.
  - destruct (tget None tb) as [l0|]; cbn [fst].
    + destruct (is_nil (patched1 ++ [None])); [exists k, l; auto|].
      apply Key. intros g' H'. apply in_or_app. left. exact H'.
    + destruct (is_nil patched1); [exists k, l; auto | apply Key; auto].
  - cbn [fst]. destruct (is_nil patched1); [exists k, l; auto | apply Key; auto].
Qed.

Lemma step_tb_keeps t q minm tb p g : In g q -> lists_gene g tb -> lists_gene g (step_tb t q minm tb p).
Proof.
  intros Hq H. unfold step_tb.
  destruct (length (children t p) <=? 1)%nat; [exact H|].
  destruct p as [[li x]|]; [|exact H].
  destruct (tget (Some (li, x)) tb) as [l0|] eqn:E.
  - destruct (n_usable q (entry tb (Some (li, x))) <? minm)%nat; [|exact H].
    apply patch_parent_keeps; assumption.
  - assert (H1 : lists_gene g (tset (Some (li, x)) [] tb)).
    { rewrite (tget_none_tset _ _ _ E). destruct H as (k & l & Hin & Hg). exists k, l. split; [apply in_or_app; left; exact Hin | exact Hg]. }
    destruct (n_usable q (entry tb (Some (li, x))) <? minm)%nat; [|exact H1].
    assert (Ee : entry tb (Some (li, x)) = entry (tset (Some (li, x)) [] tb) (Some (li, x))).
    { rewrite entry_tset_same. unfold entry. rewrite E. reflexivity. }
    rewrite Ee. apply patch_parent_keeps; assumption.
Qed.

Lemma fold_step_tb_keeps t q minm l tb g :
  In g q -> lists_gene g tb -> lists_gene g (fold_left (step_tb t q minm) l tb).
Proof.
  intros Hq. revert tb. induction l as [|p r IH]; intros tb H; cbn; [exact H|].
  apply IH. apply step_tb_keeps; assumption.
Qed.

Theorem unknown_to_reference_is_error t tb refg qg minm k l g :
  In (k, l) tb -> In g l -> In g qg -> ~ In g refg ->
  exists e, create_cache tb refg qg (Some t) minm = MErr e.
Proof.
  intros Hin Hg Hq Hr. destruct (create_cache tb refg qg (Some t) minm) as [c|e] eqn:E; [|eexists; reflexivity].
  exfalso. destruct (create_cache_inv _ _ _ _ _ _ E) as (tb' & log & final & V & C & M & W).
  assert (HL : lists_gene g tb').
  { unfold validate_marker_lookup in V.
    destruct (v_err (vfold tb qg t minm)); [destruct (Nat.eqb _ _); discriminate|].
    inversion V; subst tb' log. unfold vfold. rewrite vfold_tb_gen. cbn [vinit v_tb].
    apply fold_step_tb_keeps; [exact Hq | exists k, l; auto]. }
  destruct HL as (k' & l' & Hin' & Hg').
  assert (T : missing_ref refg tb' = true).
  { unfold missing_ref. apply existsb_exists. exists (k', l'). split; [exact Hin'|].
    cbn. apply existsb_exists. exists g. split; [exact Hg'|]. apply negb_true_iff, zmem_false. exact Hr. }
  congruence.
Qed.

(* every gene written to the cache is a gene of the query and of the reference *)
Theorem used_in_query_and_reference tb refg qg topt minm c k ri qi :
  create_cache tb refg qg topt minm = MOk c -> In (k, (ri, qi)) (c_groups c) ->
  exists names, names_at refg ri = Some names /\ names_at qg qi = Some names /\ ascending ri /\
                forall g, In g names -> In g qg /\ In g refg.
Proof.
  unfold create_cache.
  destruct (match topt with Some t => _ | None => MOk tb end) as [tb'|e] eqn:V; [|discriminate].
  destruct (cc_loop (cc_need topt) qg tb') as [final|e] eqn:C; [|discriminate].
  destruct (missing_ref refg tb'); [discriminate|].
  intros W Hin. destruct (pairing_by_name _ _ _ _ _ _ _ W Hin) as (l & names & Hl & Hp & Ha & N1 & N2).
  exists names. repeat split; auto.
  - apply names_at_inv in N2. clear -N2 H.
    induction N2 as [|i g' idx gs Hi _ IH]; [destruct H|].
    destruct H as [->|H]; [eapply nth_error_In; exact Hi | apply IH; exact H].
  - apply names_at_inv in N1. clear -N1 H.
    induction N1 as [|i g' idx gs Hi _ IH]; [destruct H|].
    destruct H as [->|H]; [eapply nth_error_In; exact Hi | apply IH; exact H].
Qed.

(* ------------------------------------------------------------------ flattening *)
Theorem flatten_unions tb refg qg lv minm c :
  NoDup (nodes lv) -> (2 <= length (nodes lv))%nat ->
  create_cache (flatten_table tb) refg qg (Some [lv]) minm = MOk c ->
  all_parents [lv] = [None] /\
  exists ri qi names,
    tget None (c_groups c) = Some (ri, qi) /\
    names_at refg ri = Some names /\ names_at qg qi = Some names /\ NoDup names /\
    forall g, In g names <-> (In g qg /\ exists k l, In (k, l) tb /\ In g l).
Proof.
  intros ND Hn H. split; [reflexivity|].
  assert (Hd : dict_ok [lv]) by (constructor; [exact ND | constructor]).
  destruct (used_equals_spec [lv] (flatten_table tb) refg qg minm c None Hd H) as (ri & qi & names & G & N1 & N2 & NDn & _ & Hs).
  - left. reflexivity.
  - cbn. exact Hn.
  - exists ri, qi, names. repeat split; auto.
    + apply Hs in H0. unfold spec_markers, flatten_table, entry in H0. cbn in H0.
      apply inq_In in H0. tauto.
    + apply Hs in H0. unfold spec_markers, flatten_table, entry in H0. cbn in H0.
      apply inq_In in H0. destruct H0 as [H0 _]. apply canon_In, in_concat in H0.
      destruct H0 as (l & Hl & Hg). apply in_map_iff in Hl. destruct Hl as ([k l'] & <- & Hkl).
      exists k, l'. auto.
    + intros [Hq (k & l & Hkl & Hg)]. apply Hs. unfold spec_markers, flatten_table, entry. cbn.
      apply inq_In. split; [|exact Hq]. apply canon_In, in_concat. exists l. split; [|exact Hg].
      apply in_map_iff. exists (k, l). auto.
Qed.

Lemma flatten_is_leaf_level t t' : flatten t = TOk t' -> t' = [leaf_level t].
Proof. unfold flatten, mk_tree. destruct (validate [leaf_level t]); intros H; inversion H; reflexivity. Qed.

Theorem no_shared_marker_is_error t tb refg qg minm :
  (2 <= length (children t None))%nat ->
  (forall k l g, In (k, l) tb -> In g l -> ~ In g qg) ->
  exists e, create_cache tb refg qg (Some t) minm = MErr e.
Proof.
  intros Hc Hno. apply root_without_usable_is_error; [exact Hc|].
  intros g Hg. unfold entry in Hg. destruct (tget None tb) as [l|] eqn:E; [|destruct Hg].
  exact (Hno None l g (tget_In _ _ _ E) Hg).
Qed.

(* ------------------------------------------------------------------ unknown markers: which entries reach the reference check *)
(* entry_replaced without the membership test *)
Definition replaced_core (tb : table) (q : list gene) (minm : nat) (t : tree) (p : pkey) : bool :=
  match p with
  | None => false
  | Some (li, x) =>
      (2 <=? length (children t p))%nat && (n_usable q (entry tb p) <? minm)%nat &&
      (negb (is_nil (anc_lists tb t li x)) || match tget None tb with Some _ => true | None => false end)
  end.

Lemma entry_replaced_core tb q minm t p :
  entry_replaced tb q minm t p = in_parents t p && replaced_core tb q minm t p.
Proof.
  destruct p as [[li x]|]; unfold entry_replaced, replaced_core; [|rewrite andb_false_r; reflexivity].
  rewrite !andb_assoc. reflexivity.
Qed.

Lemma replaced_core_ext tb tb' q minm t p :
  tget p tb = tget p tb' ->
  (forall li x a, p = Some (li, x) -> In a (ancestors t li x) -> tget (Some a) tb = tget (Some a) tb') ->
  tget None tb = tget None tb' ->
  replaced_core tb q minm t p = replaced_core tb' q minm t p.
Proof.
  intros H1 H2 H3. destruct p as [[li x]|]; [|reflexivity].
  unfold replaced_core, entry, anc_lists. rewrite H1, H3.
  fold (present_lists tb (ancestors t li x)). fold (present_lists tb' (ancestors t li x)).
  rewrite (present_lists_ext tb tb'); [reflexivity|].
  intros a Ha. eapply H2; [reflexivity | exact Ha].
Qed.

(* an entry that is not replaced is left as listed by the step of its own key *)
Lemma step_tb_keep t q minm tb p v :
  tget p tb = Some v -> replaced_core tb q minm t p = false ->
  tget p (step_tb t q minm tb p) = Some v.
Proof.
  intros Hget Hrep. unfold step_tb.
  destruct (length (children t p) <=? 1)%nat eqn:Ec; [exact Hget|].
  destruct p as [[li x]|]; [|exact Hget].
  rewrite Hget. cbv beta iota zeta.
  destruct (n_usable q (entry tb (Some (li, x))) <? minm)%nat eqn:Emin; [|exact Hget].
  unfold replaced_core in Hrep. rewrite Emin in Hrep.
  assert (H2 : (2 <=? length (children t (Some (li, x))))%nat = true).
  { apply Nat.leb_le. apply Nat.leb_gt in Ec. lia. }
  rewrite H2 in Hrep. cbn [andb] in Hrep.
  apply orb_false_iff in Hrep. destruct Hrep as [Hal Hroot].
  apply negb_false_iff in Hal. unfold anc_lists in Hal.
  unfold patch_parent.
  pose proof (patch_loop_patched_nil tb q minm (ancestors t li x) (entry tb (Some (li, x))) []) as HN.
  destruct (patch_loop tb q minm (ancestors t li x) (entry tb (Some (li, x))) []) as [new1 patched1].
  cbn [fst snd] in HN. unfold present_lists in HN. rewrite Hal in HN. cbn in HN.
  destruct (tget None tb) as [l0|]; [discriminate|].
  destruct (n_usable q new1 <? minm)%nat; cbn [fst]; rewrite HN; exact Hget.
Qed.

Lemma R_keep t q minm tb0 l : ordered l ->
  forall k v, tget k tb0 = Some v -> (In k l -> replaced_core tb0 q minm t k = false) ->
  tget k (R t q minm tb0 l) = Some v.
Proof.
  induction l as [|p rest IH]; intros Ho k v Hget Hrep; [exact Hget|].
  cbn [ordered] in Ho. destruct Ho as (Hdeep & Hnew & Ho).
  cbn [R fold_right]. fold (R t q minm tb0 rest).
  destruct (R_inv t q minm tb0 rest Ho) as [IH1 _].
  destruct (pkey_eqb k p) eqn:E.
  - apply pkey_eqb_eq in E. subst p.
    assert (Hk : tget k (R t q minm tb0 rest) = tget k tb0) by (apply IH1; exact Hnew).
    apply step_tb_keep; [rewrite Hk; exact Hget|].
    rewrite <- (Hrep (or_introl eq_refl)). apply replaced_core_ext.
    + exact Hk.
    + intros li x [k' a] Ek Ha. subst k. apply IH1.
      intros Hr. apply Hdeep in Hr. apply ancestors_above in Ha. cbn in Hr. lia.
    + apply R_root.
  - apply pkey_eqb_neq in E. rewrite step_tb_other by exact E.
    apply IH; [exact Ho | exact Hget |]. intros Hin. apply Hrep. right. exact Hin.
Qed.

(* a listed marker that the reference does not know ends the run with an error, unless the query lacks it too
   AND its entry is replaced by the patched one (which is restricted to query genes) *)
Theorem unknown_marker_is_error t tb refg qg minm k l g :
  dict_ok t -> tget k tb = Some l -> In g l ->
  demands_error tb refg qg minm t k g = true ->
  exists e, create_cache tb refg qg (Some t) minm = MErr e.
Proof.
  intros Hd Hget Hg Hdem. unfold demands_error in Hdem.
  apply andb_true_iff in Hdem. destruct Hdem as [Hr Hc].
  apply negb_true_iff in Hr. apply zmem_false in Hr.
  apply orb_true_iff in Hc. destruct Hc as [Hq|Hn].
  - apply zmem_in in Hq. eapply unknown_to_reference_is_error; [apply tget_In; exact Hget | exact Hg | exact Hq | exact Hr].
  - destruct (create_cache tb refg qg (Some t) minm) as [c|e] eqn:E; [|eexists; reflexivity].
    exfalso. destruct (create_cache_inv _ _ _ _ _ _ E) as (tb' & log & final & V & C & M & W).
    assert (Hk : tget k tb' = Some l).
    { unfold validate_marker_lookup in V.
      destruct (v_err (vfold tb qg t minm)); [destruct (Nat.eqb _ _); discriminate|].
      inversion V; subst tb' log. rewrite vfold_tb.
      apply R_keep; [apply ordered_all_parents; exact Hd | exact Hget |].
      intros Hin. apply negb_true_iff in Hn. rewrite entry_replaced_core in Hn.
      assert (Hp : in_parents t k = true).
      { unfold in_parents. apply existsb_exists. exists k. split; [exact Hin | apply pkey_eqb_refl]. }
      rewrite Hp in Hn. exact Hn. }
    assert (T : missing_ref refg tb' = true).
    { unfold missing_ref. apply existsb_exists. exists (k, l). split; [apply tget_In; exact Hk|].
      cbn. apply existsb_exists. exists g. split; [exact Hg|]. apply negb_true_iff, zmem_false. exact Hr. }
    congruence.
Qed.

(* hence: an accepted table (a dict: no key twice) leaves nothing in unknown_demanded *)
Lemma NoDup_keys_tget {A} k (v : A) tb : NoDup (map fst tb) -> In (k, v) tb -> tget k tb = Some v.
Proof.
  induction tb as [|[k' v'] r IH]; intros ND Hin; [destruct Hin|].
  cbn [map fst] in ND. inversion ND as [|? ? Hnot ND']; subst.
  cbn [tget]. destruct Hin as [E|Hin].
  - inversion E; subst. rewrite pkey_eqb_refl. reflexivity.
  - destruct (pkey_eqb k k') eqn:Ek.
    + apply pkey_eqb_eq in Ek. subst k'. exfalso. apply Hnot. apply in_map_iff. exists (k, v). auto.
    + apply IH; assumption.
Qed.

Theorem accepted_demands_nothing t tb refg qg minm c :
  dict_ok t -> NoDup (map fst tb) ->
  create_cache tb refg qg (Some t) minm = MOk c ->
  unknown_demanded tb refg qg minm t = [].
Proof.
  intros Hd ND Hc.
  destruct (unknown_demanded tb refg qg minm t) as [|[k g] rest] eqn:E; [reflexivity|].
  exfalso.
  assert (Hin : In (k, g) (unknown_demanded tb refg qg minm t)) by (rewrite E; left; reflexivity).
  unfold unknown_demanded in Hin. apply in_flat_map in Hin. destruct Hin as ([k' l] & Hkl & Hin).
  apply filter_In in Hkl. destruct Hkl as [Hkl _].
  cbn [fst snd] in Hin. apply in_map_iff in Hin. destruct Hin as (g' & Eg & Hg').
  inversion Eg; subst k' g'. apply filter_In in Hg'. destruct Hg' as [Hg Hdem].
  destruct (unknown_marker_is_error t tb refg qg minm k l g Hd (NoDup_keys_tget _ _ _ ND Hkl) Hg Hdem) as [e He].
  congruence.
Qed.

(* ------------------------------------------------------------------ entries that need no markers (repaired F7) *)
(* The entry of a key that needs no markers (not a parent of the tree with >= 2 children) never decides
   whether the cache is created.  Such an entry is still read when a descendant falls back on its ancestors,
   so the two runs (entry [] / entry l) differ in more than one place; the proof is a simulation of the two
   folds of validate_marker_lookup. *)
Lemma n_usable_pos q l : n_usable q l <> 0%nat <-> exists g, In g l /\ In g q.
Proof.
  unfold n_usable. destruct (uniq (inq q l)) as [|g0 r] eqn:E.
  - split; [intros H; exfalso; apply H; reflexivity|].
    intros (g & Hg & Hq). assert (Hi : In g (uniq (inq q l))) by (apply uniq_In, inq_In; auto).
    rewrite E in Hi. destruct Hi.
  - split; [|intros _; cbn; discriminate]. intros _.
    assert (Hi : In g0 (uniq (inq q l))) by (rewrite E; left; reflexivity).
    apply uniq_In, inq_In in Hi. exists g0. exact Hi.
Qed.

Lemma loop_lists_sub q minm al new g : In g (loop_lists q minm al new) -> In g (new ++ concat al).
Proof.
  revert new. induction al as [|l r IH]; intros new H; cbn in *; [rewrite app_nil_r; exact H|].
  destruct (minm <=? n_usable q (new ++ l))%nat.
  - rewrite app_assoc. apply in_or_app. left. exact H.
  - apply IH in H. rewrite <- app_assoc in H. exact H.
Qed.
Lemma loop_lists_full q minm al new :
  (minm <= n_usable q (loop_lists q minm al new))%nat \/ loop_lists q minm al new = new ++ concat al.
Proof.
  revert new. induction al as [|l r IH]; intros new; cbn; [right; rewrite app_nil_r; reflexivity|].
  destruct (minm <=? n_usable q (new ++ l))%nat eqn:E.
  - left. apply Nat.leb_le. exact E.
  - destruct (IH (new ++ l)) as [H|H]; [left; exact H | right; rewrite H, app_assoc; reflexivity].
Qed.

Lemma in_present_lists tb ancs l :
  In l (present_lists tb ancs) <-> exists a, In a ancs /\ tget (Some a) tb = Some l.
Proof.
  unfold present_lists. rewrite in_flat_map. split.
  - intros (a & Ha & Hl). exists a. split; [exact Ha|].
    destruct (tget (Some a) tb) as [l'|]; [destruct Hl as [->|[]]; reflexivity | destruct Hl].
  - intros (a & Ha & Hl). exists a. split; [exact Ha|]. rewrite Hl. left. reflexivity.
Qed.
Lemma present_lists_nil tb ancs :
  present_lists tb ancs = [] -> forall a, In a ancs -> tget (Some a) tb = None.
Proof.
  intros H a Ha. destruct (tget (Some a) tb) as [l|] eqn:E; [|reflexivity].
  assert (Hin : In l (present_lists tb ancs)) by (apply in_present_lists; exists a; auto).
  rewrite H in Hin. destruct Hin.
Qed.
Lemma present_lists_nil_of tb ancs :
  (forall a, In a ancs -> tget (Some a) tb = None) -> present_lists tb ancs = [].
Proof.
  intros H. destruct (present_lists tb ancs) as [|l r] eqn:E; [reflexivity|].
  assert (Hin : In l (present_lists tb ancs)) by (rewrite E; left; reflexivity).
  apply in_present_lists in Hin. destruct Hin as (a & Ha & Hl). rewrite (H a Ha) in Hl. discriminate.
Qed.

(* keys of a table *)
Lemma tset_keys {A} k (v : A) tb :
  map fst (tset k v tb) = match tget k tb with Some _ => map fst tb | None => map fst tb ++ [k] end.
Proof.
  induction tb as [|[k' v'] r IH]; cbn; [reflexivity|].
  destruct (pkey_eqb k k') eqn:E; cbn; [reflexivity|]. rewrite IH. destruct (tget k r); reflexivity.
Qed.
Lemma tget_none_keys {A} k (tb : list (pkey * A)) : tget k tb = None -> ~ In k (map fst tb).
Proof.
  induction tb as [|[k' v'] r IH]; cbn; [tauto|].
  destruct (pkey_eqb k k') eqn:E; [discriminate|]. apply pkey_eqb_neq in E.
  intros H [Hk|Hk]; [congruence | exact (IH H Hk)].
Qed.
Lemma NoDup_snoc {A} (l : list A) x : NoDup l -> ~ In x l -> NoDup (l ++ [x]).
Proof.
  induction l as [|y r IH]; intros ND Hx; cbn; [constructor; [tauto | constructor]|].
  inversion ND as [|? ? Hy ND']; subst. constructor.
  - rewrite in_app_iff. cbn. intros [H|[H|[]]]; [exact (Hy H) | subst; apply Hx; left; reflexivity].
  - apply IH; [exact ND' | intros H; apply Hx; right; exact H].
Qed.
Lemma tset_nodup {A} k (v : A) tb : NoDup (map fst tb) -> NoDup (map fst (tset k v tb)).
Proof.
  intros ND. rewrite tset_keys. destruct (tget k tb) eqn:E; [exact ND|].
  apply NoDup_snoc; [exact ND | apply tget_none_keys; exact E].
Qed.

Lemma patch_parent_nodup t q minm tb li x markers :
  NoDup (map fst tb) -> NoDup (map fst (fst (patch_parent t q minm tb li x markers))).
Proof.
  intros ND. unfold patch_parent.
  destruct (patch_loop tb q minm (ancestors t li x) markers []) as [new1 patched1].
  destruct (n_usable q new1 <? minm)%nat.
  - destruct (tget None tb); cbn [fst].
    + destruct (is_nil (patched1 ++ [None])); [exact ND | apply tset_nodup; exact ND].
    + destruct (is_nil patched1); [exact ND | apply tset_nodup; exact ND].
  - cbn [fst]. destruct (is_nil patched1); [exact ND | apply tset_nodup; exact ND].
Qed.
Lemma step_tb_nodup t q minm tb p : NoDup (map fst tb) -> NoDup (map fst (step_tb t q minm tb p)).
Proof.
  intros ND. unfold step_tb.
  destruct (length (children t p) <=? 1)%nat; [exact ND|].
  destruct p as [[li x]|]; [|exact ND].
  assert (ND1 : NoDup (map fst (match tget (Some (li, x)) tb with Some _ => tb | None => tset (Some (li, x)) [] tb end))).
  { destruct (tget (Some (li, x)) tb); [exact ND | apply tset_nodup; exact ND]. }
  destruct (n_usable q (entry tb (Some (li, x))) <? minm)%nat; [|exact ND1].
  apply patch_parent_nodup. exact ND1.
Qed.
Lemma fold_step_tb_nodup t q minm L tb :
  NoDup (map fst tb) -> NoDup (map fst (fold_left (step_tb t q minm) L tb)).
Proof.
  revert tb. induction L as [|p r IH]; intros tb ND; cbn; [exact ND|]. apply IH. apply step_tb_nodup. exact ND.
Qed.

(* ---- the error flag of the fold, read off the tables *)
Definition step_err (t : tree) (q : list gene) (minm : nat) (tb : table) (p : pkey) : bool :=
  if (length (children t p) <=? 1)%nat then false else
  match p with
  | None => is_nil (entry tb None) ||
            ((n_usable q (entry tb None) <? minm)%nat && Nat.eqb (n_usable q (entry tb None)) 0)
  | Some _ => (n_usable q (entry tb p) <? minm)%nat &&
              Nat.eqb (n_usable q (entry (step_tb t q minm tb p) p)) 0
  end.

Lemma vstep_err t q minm st p :
  v_err (vstep t q minm st p) = v_err st || step_err t q minm (v_tb st) p.
Proof.
  unfold step_err. rewrite <- vstep_tb. unfold vstep, entry.
  destruct (length (children t p) <=? 1)%nat; [cbn; rewrite orb_false_r; reflexivity|].
  destruct p as [[li x]|].
  - destruct (tget (Some (li, x)) (v_tb st)) as [l|] eqn:E.
    + destruct (is_nil l) eqn:N.
      * destruct l; [|discriminate].
        destruct (n_usable q [] <? minm)%nat; [|cbn; rewrite orb_false_r; reflexivity].
        destruct (patch_parent t q minm (v_tb st) li x []) as [tb' pw].
        destruct (Nat.eqb _ 0) eqn:Z; cbn [v_tb v_err]; rewrite Z; cbn [andb]; [rewrite orb_true_r | rewrite orb_false_r]; reflexivity.
      * destruct (n_usable q l <? minm)%nat; [|cbn; rewrite orb_false_r; reflexivity].
        destruct (patch_parent t q minm (v_tb st) li x l) as [tb' pw].
        destruct (Nat.eqb _ 0) eqn:Z; cbn [v_tb v_err]; rewrite Z; cbn [andb]; [rewrite orb_true_r | rewrite orb_false_r]; reflexivity.
    + destruct (n_usable q [] <? minm)%nat; [|cbn; rewrite orb_false_r; reflexivity].
      destruct (patch_parent t q minm (tset (Some (li, x)) [] (v_tb st)) li x []) as [tb' pw].
      destruct (Nat.eqb _ 0) eqn:Z; cbn [v_tb v_err]; rewrite Z; cbn [andb]; [rewrite orb_true_r | rewrite orb_false_r]; reflexivity.
  - destruct (tget None (v_tb st)) as [l|] eqn:E; [|cbn; rewrite orb_true_r; reflexivity].
    destruct (is_nil l) eqn:N; [cbn; rewrite orb_true_r; reflexivity|]. cbn [orb].
    destruct (n_usable q l <? minm)%nat; [|cbn; rewrite orb_false_r; reflexivity].
    destruct (Nat.eqb _ 0); cbn [v_err andb]; [rewrite orb_true_r | rewrite orb_false_r]; reflexivity.
Qed.

Fixpoint run_ok (t : tree) (q : list gene) (minm : nat) (L : list pkey) (tb : table) : bool :=
  match L with
  | [] => true
  | p :: r => negb (step_err t q minm tb p) && run_ok t q minm r (step_tb t q minm tb p)
  end.

Lemma vfold_err_gen t q minm L st :
  v_err (fold_left (vstep t q minm) L st) = v_err st || negb (run_ok t q minm L (v_tb st)).
Proof.
  revert st. induction L as [|p r IH]; intros st; cbn [fold_left run_ok]; [cbn; rewrite orb_false_r; reflexivity|].
  rewrite IH, vstep_err, vstep_tb.
  destruct (v_err st), (step_err t q minm (v_tb st) p), (run_ok t q minm r (step_tb t q minm (v_tb st) p)); reflexivity.
Qed.

Lemma validate_ok_inv t tb q minm tb' log :
  validate_marker_lookup tb q t minm = MOk (tb', log) ->
  run_ok t q minm (rev (all_parents t)) tb = true /\
  tb' = fold_left (step_tb t q minm) (rev (all_parents t)) tb.
Proof.
  unfold validate_marker_lookup. destruct (v_err (vfold tb q t minm)) eqn:E; [destruct (Nat.eqb _ _); discriminate|].
  intros H. inversion H; subst tb' log. unfold vfold in *. rewrite vfold_err_gen in E. cbn [vinit v_err v_tb orb] in E.
  split; [apply negb_false_iff; exact E|]. rewrite vfold_tb_gen. reflexivity.
Qed.
Lemma validate_ok_of t tb q minm :
  run_ok t q minm (rev (all_parents t)) tb = true ->
  exists log, validate_marker_lookup tb q t minm =
              MOk (fold_left (step_tb t q minm) (rev (all_parents t)) tb, log).
Proof.
  intros H. unfold validate_marker_lookup.
  assert (E : v_err (vfold tb q t minm) = false).
  { unfold vfold. rewrite vfold_err_gen. cbn [vinit v_err v_tb orb]. rewrite H. reflexivity. }
  rewrite E. eexists. unfold vfold. rewrite vfold_tb_gen. reflexivity.
Qed.

(* ---- what one step does to the entry of a branching, non-root parent *)
Lemma step_char t q minm tb li x :
  (2 <= length (children t (Some (li, x))))%nat ->
  let d := Some (li, x) in
  let own := entry tb d in
  let al := present_lists tb (ancestors t li x) in
  let rootl := entry tb None in
  let tb' := step_tb t q minm tb d in
  ((minm <= n_usable q own)%nat /\ tget d tb' = Some own) \/
  ((n_usable q own < minm)%nat /\ exists new2,
      incl own new2 /\ incl new2 (own ++ concat al ++ rootl) /\
      ((minm <= n_usable q new2)%nat \/ incl (own ++ concat al ++ rootl) new2) /\
      tget d tb' = Some (if is_nil al && match tget None tb with None => true | Some _ => false end
                         then own else canon (inq q new2))).
Proof.
  intros Hc. cbv zeta. unfold step_tb.
  destruct (length (children t (Some (li, x))) <=? 1)%nat eqn:Ec; [apply Nat.leb_le in Ec; lia|].
  remember (match tget (Some (li, x)) tb with Some _ => tb | None => tset (Some (li, x)) [] tb end) as tb1 eqn:Etb1.
  assert (Hd1 : tget (Some (li, x)) tb1 = Some (entry tb (Some (li, x)))).
  { subst tb1. unfold entry. destruct (tget (Some (li, x)) tb) eqn:E; [exact E | apply tget_tset_same]. }
  assert (Eoth : forall k, k <> Some (li, x) -> tget k tb1 = tget k tb).
  { intros k N. subst tb1. destruct (tget (Some (li, x)) tb); [reflexivity | apply tget_tset_other; exact N]. }
  remember (entry tb (Some (li, x))) as own eqn:Eo.
  destruct (n_usable q own <? minm)%nat eqn:Emin.
  - apply Nat.ltb_lt in Emin. right. split; [exact Emin|].
    unfold patch_parent.
    pose proof (patch_loop_lists tb1 q minm (ancestors t li x) own []) as HL.
    pose proof (patch_loop_patched_nil tb1 q minm (ancestors t li x) own []) as HN.
    destruct (patch_loop tb1 q minm (ancestors t li x) own []) as [new1 patched1].
    cbn [fst snd] in HL, HN. cbn [is_nil andb] in HN.
    assert (EP : present_lists tb1 (ancestors t li x) = present_lists tb (ancestors t li x)).
    { apply present_lists_ext. intros [k a] Ha. apply Eoth.
      intros E. inversion E; subst. apply ancestors_above in Ha. lia. }
    rewrite EP in HL, HN.
    remember (present_lists tb (ancestors t li x)) as al eqn:Eal.
    assert (ER : tget None tb1 = tget None tb) by (apply Eoth; discriminate).
    rewrite ER.
    assert (Hsub : incl new1 (own ++ concat al)).
    { intros g Hg. rewrite HL in Hg. apply loop_lists_sub in Hg. exact Hg. }
    assert (Hown : incl own new1).
    { intros g Hg. rewrite HL. apply loop_lists_incl. exact Hg. }
    destruct (n_usable q new1 <? minm)%nat eqn:Eu.
    + apply Nat.ltb_lt in Eu.
      assert (Hfull : new1 = own ++ concat al).
      { destruct (loop_lists_full q minm al own) as [H|H]; [rewrite <- HL in H; lia | rewrite HL; exact H]. }
      unfold entry. destruct (tget None tb) as [l0|] eqn:E0.
      * exists (new1 ++ l0). cbn [fst].
        assert (Hnn : is_nil (patched1 ++ [None]) = false) by (destruct patched1; reflexivity).
        rewrite Hnn, andb_false_r, tget_tset_same.
        split; [intros g Hg; apply in_or_app; left; apply Hown; exact Hg|].
        split; [rewrite Hfull, <- app_assoc; apply incl_refl|].
        split; [right; rewrite Hfull, <- app_assoc; apply incl_refl | reflexivity].
      * exists new1. cbn [fst]. rewrite andb_true_r, <- HN.
        split; [exact Hown|].
        split; [rewrite app_nil_r; exact Hsub|].
        split; [right; rewrite app_nil_r, Hfull; apply incl_refl|].
        destruct (is_nil patched1); [exact Hd1 | apply tget_tset_same].
    + apply Nat.ltb_ge in Eu. exists new1. cbn [fst].
      destruct (is_nil patched1) eqn:Np.
      * exfalso. symmetry in HN. assert (Hal : al = []) by (destruct al; [reflexivity | discriminate]).
        rewrite Hal in HL. cbn in HL. subst new1. lia.
      * rewrite <- HN. cbn [andb]. rewrite tget_tset_same.
        split; [exact Hown|].
        split; [intros g Hg; apply Hsub in Hg; rewrite app_assoc; apply in_or_app; left; exact Hg|].
        split; [left; exact Eu | reflexivity].
  - apply Nat.ltb_ge in Emin. left. split; [exact Emin | exact Hd1].
Qed.

Lemma entry_in_tget tb k g : In g (entry tb k) -> exists l, tget k tb = Some l /\ In g l.
Proof. unfold entry. destruct (tget k tb) as [l|]; [intros H; exists l; auto | intros []]. Qed.

(* ---- the simulation: two tables that differ in the entry of a key p that needs no markers *)
Section NoNeed.
Variables (t : tree) (q : list gene) (minm : nat) (refg : list gene) (p : pkey) (l : list gene).

Record rel (tb0 tb1 : table) : Prop := {
  r_keys : forall k, tget k tb0 = None <-> tget k tb1 = None;
  r_use : forall k, n_usable q (entry tb0 k) <> 0%nat -> n_usable q (entry tb1 k) <> 0%nat;
  r_same : forall k, k <> p -> tget k tb1 = tget k tb0 \/ (forall g, In g (entry tb1 k) -> In g q);
  r_p : tget p tb1 = Some l;
  r_root : p <> None -> tget None tb1 = tget None tb0;
  r_ref : forall k g, In g (entry tb1 k) -> In g q -> In g refg
}.

Lemma rel_step tb0 tb1 d :
  (d = p -> (length (children t d) <= 1)%nat) ->
  rel tb0 tb1 -> step_err t q minm tb0 d = false ->
  step_err t q minm tb1 d = false /\ rel (step_tb t q minm tb0 d) (step_tb t q minm tb1 d).
Proof.
  intros Hdp HR He0.
  destruct (length (children t d) <=? 1)%nat eqn:Ec.
  { unfold step_err, step_tb. rewrite Ec. split; [reflexivity | exact HR]. }
  assert (Hc : (2 <= length (children t d))%nat) by (apply Nat.leb_gt in Ec; lia).
  assert (Ndp : d <> p) by (intros E; apply Hdp in E; lia).
  destruct HR as [Rk Ru Rs Rp Rr Rf].
  destruct d as [[li x]|].
  2:{ (* the root: its entry is the same in both runs *)
    assert (Er : tget None tb1 = tget None tb0) by (apply Rr; congruence).
    assert (Ee : entry tb1 None = entry tb0 None) by (unfold entry; rewrite Er; reflexivity).
    split.
    - unfold step_err in *. rewrite Ec in *. rewrite Ee. exact He0.
    - unfold step_tb. rewrite Ec. constructor; assumption. }
  set (d := Some (li, x)) in *.
  pose proof (step_char t q minm tb0 li x Hc) as C0.
  pose proof (step_char t q minm tb1 li x Hc) as C1.
  cbv zeta in C0, C1. fold d in C0, C1.
  remember (step_tb t q minm tb0 d) as tb0' eqn:E0'.
  remember (step_tb t q minm tb1 d) as tb1' eqn:E1'.
  assert (O0 : forall k, k <> d -> tget k tb0' = tget k tb0) by (intros k N; subst tb0'; apply step_tb_other; exact N).
  assert (O1 : forall k, k <> d -> tget k tb1' = tget k tb1) by (intros k N; subst tb1'; apply step_tb_other; exact N).
  assert (P0 : tget d tb0' <> None) by (subst tb0'; apply step_tb_present; exact Hc).
  assert (P1 : tget d tb1' <> None) by (subst tb1'; apply step_tb_present; exact Hc).
  assert (OE0 : forall k, k <> d -> entry tb0' k = entry tb0 k) by (intros k N; unfold entry; rewrite O0 by exact N; reflexivity).
  assert (OE1 : forall k, k <> d -> entry tb1' k = entry tb1 k) by (intros k N; unfold entry; rewrite O1 by exact N; reflexivity).
  remember (entry tb0 d) as own0 eqn:Eo0. remember (entry tb1 d) as own1 eqn:Eo1.
  remember (present_lists tb0 (ancestors t li x)) as al0 eqn:Ea0.
  remember (present_lists tb1 (ancestors t li x)) as al1 eqn:Ea1.
  (* usable genes of run 0 have counterparts in run 1 *)
  assert (F1 : (exists g, In g own0 /\ In g q) -> exists g, In g own1 /\ In g q).
  { intros H. apply n_usable_pos. subst own1. apply Ru. subst own0. apply n_usable_pos. exact H. }
  assert (F2 : (exists g, In g (concat al0) /\ In g q) -> exists g, In g (concat al1) /\ In g q).
  { intros (g & Hg & Hq). apply in_concat in Hg. destruct Hg as (l' & Hl' & Hg).
    subst al0. apply in_present_lists in Hl'. destruct Hl' as (a & Ha & Hl').
    assert (U : n_usable q (entry tb1 (Some a)) <> 0%nat).
    { apply Ru. apply n_usable_pos. exists g. unfold entry. rewrite Hl'. auto. }
    apply n_usable_pos in U. destruct U as (g1 & Hg1 & Hq1).
    apply entry_in_tget in Hg1. destruct Hg1 as (l1 & Hl1 & Hg1).
    exists g1. split; [|exact Hq1]. apply in_concat. exists l1. split; [|exact Hg1].
    subst al1. apply in_present_lists. exists a. auto. }
  assert (F3 : (exists g, In g (entry tb0 None) /\ In g q) -> exists g, In g (entry tb1 None) /\ In g q).
  { intros H. apply n_usable_pos. apply Ru. apply n_usable_pos. exact H. }
  assert (FW : (exists g, In g (own0 ++ concat al0 ++ entry tb0 None) /\ In g q) ->
               exists g, In g (own1 ++ concat al1 ++ entry tb1 None) /\ In g q).
  { intros (g & Hg & Hq). rewrite !in_app_iff in Hg. destruct Hg as [Hg|[Hg|Hg]].
    - destruct F1 as (g1 & H1 & H2); [exists g; auto|]. exists g1. rewrite !in_app_iff. auto.
    - destruct F2 as (g1 & H1 & H2); [exists g; auto|]. exists g1. rewrite !in_app_iff. auto.
    - destruct F3 as (g1 & H1 & H2); [exists g; auto|]. exists g1. rewrite !in_app_iff. auto. }
  assert (F4 : al1 = [] -> al0 = []).
  { intros H. subst al0 al1. apply present_lists_nil_of. intros a Ha. apply Rk.
    eapply present_lists_nil; [exact H | exact Ha]. }
  assert (F5 : tget None tb1 = None -> tget None tb0 = None) by (intros H; apply Rk; exact H).
  (* run 0 raised no error *)
  assert (G0 : (n_usable q own0 < minm)%nat -> n_usable q (entry tb0' d) <> 0%nat).
  { intros Hlt. unfold step_err in He0. rewrite Ec in He0. fold d in He0. rewrite <- Eo0, <- E0' in He0.
    apply Nat.ltb_lt in Hlt. rewrite Hlt in He0. cbn [andb] in He0. apply Nat.eqb_neq. exact He0. }
  (* hence the witness of run 1 *)
  assert (W : (n_usable q own1 < minm)%nat -> exists g, In g (own1 ++ concat al1 ++ entry tb1 None) /\ In g q).
  { intros Hlt1. destruct C0 as [[HA0 T0]|[HB0 (new2 & I1 & I2 & I3 & T0)]].
    - destruct F1 as (g1 & H1 & H2); [apply n_usable_pos; lia|]. exists g1. rewrite !in_app_iff. auto.
    - apply FW. pose proof (G0 HB0) as U. apply n_usable_pos in U. destruct U as (g & Hg & Hq).
      unfold entry in Hg. rewrite T0 in Hg. exists g. split; [|exact Hq].
      destruct (is_nil al0 && _).
      + apply in_or_app. left. exact Hg.
      + apply canon_In, inq_In in Hg. apply I2. tauto. }
  (* the new entry of d in run 1 has a usable gene whenever run 1 patches *)
  assert (G1 : (n_usable q own1 < minm)%nat -> n_usable q (entry tb1' d) <> 0%nat).
  { intros Hlt1. destruct C1 as [[HA1 T1]|[HB1 (new2 & I1 & I2 & I3 & T1)]]; [lia|].
    destruct (W Hlt1) as (g1 & Hg1 & Hq1).
    assert (U2 : exists g, In g new2 /\ In g q).
    { destruct I3 as [I3|I3]; [apply n_usable_pos; lia | exists g1; split; [apply I3; exact Hg1 | exact Hq1]]. }
    destruct U2 as (g & Hg & Hq). apply n_usable_pos. unfold entry. rewrite T1.
    destruct (is_nil al1 && _) eqn:Eb.
    - apply andb_true_iff in Eb. destruct Eb as [Eb1 Eb2].
      assert (Hal : al1 = []) by (destruct al1; [reflexivity | discriminate]).
      assert (Hr : entry tb1 None = []) by (unfold entry; destruct (tget None tb1); [discriminate | reflexivity]).
      apply I2 in Hg. rewrite Hal, Hr in Hg. cbn in Hg. rewrite app_nil_r in Hg. exists g. auto.
    - exists g. split; [|exact Hq]. apply canon_In, inq_In. auto. }
  split.
  { unfold step_err. rewrite Ec. fold d. rewrite <- Eo1, <- E1'.
    destruct (n_usable q own1 <? minm)%nat eqn:El; [|reflexivity]. cbn [andb].
    apply Nat.eqb_neq. apply G1. apply Nat.ltb_lt. exact El. }
  assert (Dk : forall k, {k = d} + {k <> d}).
  { intros k. destruct (pkey_eqb k d) eqn:E; [left; apply pkey_eqb_eq; exact E | right; apply pkey_eqb_neq; exact E]. }
  constructor.
  - intros k. destruct (Dk k) as [->|N]; [tauto|]. rewrite O0, O1 by exact N. apply Rk.
  - intros k. destruct (Dk k) as [->|N]; [|rewrite OE0, OE1 by exact N; apply Ru].
    intros U0. destruct C1 as [[HA1 T1]|[HB1 _]]; [|apply G1; exact HB1].
    unfold entry at 1. rewrite T1.
    destruct C0 as [[HA0 T0]|[HB0 _]].
    + unfold entry in U0. rewrite T0 in U0. apply n_usable_pos. apply F1. apply n_usable_pos. exact U0.
    + lia.
  - intros k Nk. destruct (Dk k) as [->|N].
    2:{ rewrite O0, O1, OE1 by exact N. apply Rs. exact Nk. }
    destruct C1 as [[HA1 T1]|[HB1 (new2 & I1 & I2 & I3 & T1)]].
    + (* run 1 does not patch *)
      destruct (Rs d Nk) as [Hs|Hs].
      * assert (Eoo : own1 = own0) by (subst own0 own1; unfold entry; rewrite Hs; reflexivity).
        destruct C0 as [[HA0 T0]|[HB0 _]]; [left; rewrite T0, T1, Eoo; reflexivity | rewrite Eoo in HA1; lia].
      * right. unfold entry. rewrite T1. subst own1. exact Hs.
    + destruct (is_nil al1 && _) eqn:Eb.
      * (* nothing to patch with *)
        apply andb_true_iff in Eb. destruct Eb as [Eb1 Eb2].
        destruct (Rs d Nk) as [Hs|Hs].
        -- assert (Eoo : own1 = own0) by (subst own0 own1; unfold entry; rewrite Hs; reflexivity).
           destruct C0 as [[HA0 T0]|[HB0 (new0 & _ & _ & _ & T0)]]; [rewrite Eoo in HB1; lia|].
           left. rewrite T0, T1, Eoo.
           assert (Hal : al1 = []) by (destruct al1; [reflexivity | discriminate]).
           rewrite (F4 Hal).
           assert (Hr : tget None tb0 = None) by (apply F5; destruct (tget None tb1); [discriminate | reflexivity]).
           rewrite Hr. reflexivity.
        -- right. unfold entry. rewrite T1. subst own1. exact Hs.
      * right. unfold entry. rewrite T1. intros g Hg. apply canon_In, inq_In in Hg. tauto.
  - rewrite O1 by (intros E; apply Ndp; symmetry; exact E). exact Rp.
  - intros Np. rewrite O0, O1 by discriminate. apply Rr. exact Np.
  - intros k. destruct (Dk k) as [->|N]; [|rewrite OE1 by exact N; apply Rf].
    intros g Hg Hq.
    assert (Hold : forall g', In g' (own1 ++ concat al1 ++ entry tb1 None) -> In g' q -> In g' refg).
    { intros g' Hg' Hq'. rewrite !in_app_iff in Hg'. destruct Hg' as [Hg'|[Hg'|Hg']].
      - subst own1. eapply Rf; eauto.
      - apply in_concat in Hg'. destruct Hg' as (l' & Hl' & Hg').
        subst al1. apply in_present_lists in Hl'. destruct Hl' as (a & Ha & Hl').
        apply (Rf (Some a)); [unfold entry; rewrite Hl'; exact Hg' | exact Hq'].
      - eapply Rf; eauto. }
    destruct C1 as [[HA1 T1]|[HB1 (new2 & I1 & I2 & I3 & T1)]].
    + unfold entry in Hg. rewrite T1 in Hg. apply Hold; [apply in_or_app; left; exact Hg | exact Hq].
    + unfold entry in Hg. rewrite T1 in Hg. destruct (is_nil al1 && _).
      * apply Hold; [apply in_or_app; left; exact Hg | exact Hq].
      * apply canon_In, inq_In in Hg. apply Hold; [apply I2; tauto | exact Hq].
Qed.

Lemma rel_fold L : forall tb0 tb1,
  (forall d, In d L -> d = p -> (length (children t d) <= 1)%nat) ->
  rel tb0 tb1 -> run_ok t q minm L tb0 = true ->
  run_ok t q minm L tb1 = true /\
  rel (fold_left (step_tb t q minm) L tb0) (fold_left (step_tb t q minm) L tb1).
Proof.
  induction L as [|d r IH]; intros tb0 tb1 HL HR Hok; cbn [run_ok fold_left] in *; [split; [reflexivity | exact HR]|].
  apply andb_true_iff in Hok. destruct Hok as [He Hok]. apply negb_true_iff in He.
  destruct (rel_step tb0 tb1 d (HL d (or_introl eq_refl)) HR He) as [He1 HR1].
  destruct (IH _ _ (fun d' Hd' => HL d' (or_intror Hd')) HR1 Hok) as [Hok1 HR2].
  rewrite He1, Hok1. split; [reflexivity | exact HR2].
Qed.
End NoNeed.

Lemma missing_ref_false refg tb :
  missing_ref refg tb = false <-> (forall k l g, In (k, l) tb -> In g l -> In g refg).
Proof.
  unfold missing_ref. split.
  - intros H k l g Hin Hg. destruct (zmem g refg) eqn:Z; [apply zmem_in; exact Z|].
    exfalso. assert (T : existsb (fun kl => existsb (fun g => negb (zmem g refg)) (snd kl)) tb = true).
    { apply existsb_exists. exists (k, l). split; [exact Hin|]. cbn. apply existsb_exists. exists g. rewrite Z. auto. }
    congruence.
  - intros H. destruct (existsb (fun kl : pkey * list gene => existsb (fun g => negb (zmem g refg)) (snd kl)) tb) eqn:E; [|exact E]. exfalso.
    apply existsb_exists in E. destruct E as ([k l] & Hin & E). cbn in E.
    apply existsb_exists in E. destruct E as (g & Hg & E). apply negb_true_iff, zmem_false in E.
    apply E. eapply H; eauto.
Qed.

(* once the loop and the reference check have passed, the cache is written *)
Lemma write_after_loop need refg qg tb final :
  cc_loop need qg tb = MOk final -> missing_ref refg tb = false ->
  exists c, write_query_markers final refg qg = MOk c.
Proof.
  intros C M. rewrite missing_ref_false in M. unfold write_query_markers.
  assert (H : exists gs, wq_groups refg qg final = Some gs).
  { revert final C M. induction tb as [|[k l] r IH]; intros final C M; cbn in C.
    - inversion C; subst. eexists; reflexivity.
    - destruct (is_nil (uniq (inq qg l)) && negb (is_nil l) && need k); [discriminate|].
      destruct (cc_loop need qg r) as [f'|e] eqn:Er; [|discriminate]. inversion C; subst final. cbn.
      destruct (index_pairs_some refg qg (uniq (inq qg l))) as [ps ->].
      { intros g Hg. apply uniq_In, inq_In in Hg. destruct Hg as [Hg Hq]. split; [|exact Hq].
        apply (M k l g); [left; reflexivity | exact Hg]. }
      destruct (IH f' eq_refl) as [gs ->]; [intros k' l' g Hin Hg; apply (M k' l' g); [right; exact Hin | exact Hg]|].
      eexists; reflexivity. }
  destruct H as [gs ->]. eexists; reflexivity.
Qed.

Lemma needs_markers_in t d : needs_markers t d = false -> In d (all_parents t) -> (length (children t d) <= 1)%nat.
Proof.
  unfold needs_markers, in_parents. intros H Hin.
  assert (E : existsb (pkey_eqb d) (all_parents t) = true).
  { apply existsb_exists. exists d. split; [exact Hin | apply pkey_eqb_refl]. }
  rewrite E in H. cbn [andb] in H. apply Nat.leb_gt in H. lia.
Qed.

(* THE STATEMENT: an entry that needs no markers never makes the creation of the cache fail *)
Theorem unneeded_entry_is_harmless t tb refg qg minm p l :
  NoDup (map fst tb) ->
  needs_markers t p = false ->
  (forall g, In g l -> In g refg) ->
  (exists c, create_cache (tset p [] tb) refg qg (Some t) minm = MOk c) ->
  exists c, create_cache (tset p l tb) refg qg (Some t) minm = MOk c.
Proof.
  intros ND Hp Hl [c0 H0].
  destruct (create_cache_inv _ _ _ _ _ _ H0) as (tb0' & log0 & final0 & V0 & C0 & M0 & W0).
  destruct (validate_ok_inv _ _ _ _ _ _ V0) as [Ok0 E0].
  set (L := rev (all_parents t)) in *.
  assert (HL : forall d, In d L -> d = p -> (length (children t d) <= 1)%nat).
  { intros d Hd ->. apply needs_markers_in; [exact Hp|]. apply in_rev. exact Hd. }
  assert (HR : rel qg refg p l (tset p [] tb) (tset p l tb)).
  { assert (Dk : forall k, {k = p} + {k <> p}).
    { intros k. destruct (pkey_eqb k p) eqn:E; [left; apply pkey_eqb_eq; exact E | right; apply pkey_eqb_neq; exact E]. }
    constructor.
    - intros k. destruct (Dk k) as [->|N].
      + rewrite !tget_tset_same. split; discriminate.
      + rewrite !tget_tset_other by exact N. tauto.
    - intros k. destruct (Dk k) as [->|N].
      + rewrite entry_tset_same. intros H. exfalso. apply H. reflexivity.
      + rewrite !entry_tset_other by exact N. tauto.
    - intros k N. left. rewrite !tget_tset_other by exact N. reflexivity.
    - apply tget_tset_same.
    - intros N. rewrite !tget_tset_other by (intros E; apply N; symmetry; exact E). reflexivity.
    - intros k g Hg Hq. destruct (Dk k) as [->|N].
      + rewrite entry_tset_same in Hg. apply Hl. exact Hg.
      + rewrite entry_tset_other in Hg by exact N.
        destruct (zmem g refg) eqn:Z; [apply zmem_in; exact Z|]. exfalso. apply zmem_false in Z.
        apply entry_in_tget in Hg. destruct Hg as (l' & Hl' & Hg).
        assert (Hin : In (k, l') (tset p [] tb)).
        { apply tget_In. rewrite tget_tset_other by exact N. exact Hl'. }
        destruct (unknown_to_reference_is_error t _ refg qg minm k l' g Hin Hg Hq Z) as [e He]. congruence. }
  destruct (rel_fold t qg minm refg p l L _ _ HL HR Ok0) as [Ok1 HR1].
  fold L in E0. rewrite <- E0 in HR1.
  destruct (validate_ok_of _ _ _ _ Ok1) as [log1 V1]. fold L in V1.
  remember (fold_left (step_tb t qg minm) L (tset p l tb)) as tb1' eqn:E1.
  assert (ND1 : NoDup (map fst tb1')) by (subst tb1'; apply fold_step_tb_nodup, tset_nodup; exact ND).
  destruct HR1 as [Rk Ru Rs Rp Rr Rf].
  assert (M0' := M0). rewrite missing_ref_false in M0'.
  (* the reference check *)
  assert (M1 : missing_ref refg tb1' = false).
  { apply missing_ref_false. intros k l' g Hin Hg.
    pose proof (NoDup_keys_tget _ _ _ ND1 Hin) as Hk.
    destruct (zmem g qg) eqn:Zq.
    - apply zmem_in in Zq. apply (Rf k); [unfold entry; rewrite Hk; exact Hg | exact Zq].
    - apply zmem_false in Zq.
      destruct (pkey_eqb k p) eqn:Ekp.
      + apply pkey_eqb_eq in Ekp. subst k. rewrite Rp in Hk. inversion Hk; subst l'. apply Hl. exact Hg.
      + apply pkey_eqb_neq in Ekp. destruct (Rs k Ekp) as [Hs|Hs].
        * apply (M0' k l' g); [apply tget_In; rewrite <- Hs; exact Hk | exact Hg].
        * exfalso. apply Zq. apply Hs. unfold entry. rewrite Hk. exact Hg. }
  (* the loop *)
  assert (C1 : exists final1, cc_loop (needs_markers t) qg tb1' = MOk final1).
  { apply cc_loop_ok_iff. apply Forall_forall. intros [k l'] Hin.
    pose proof (NoDup_keys_tget _ _ _ ND1 Hin) as Hk.
    unfold entry_ok. cbn [fst snd].
    destruct (needs_markers t k) eqn:Nk; [|left; reflexivity]. right.
    assert (Ekp : k <> p) by (intros ->; congruence).
    destruct (Rs k Ekp) as [Hs|Hs].
    - assert (F0 : Forall (entry_ok (needs_markers t) qg) tb0') by (apply cc_loop_ok_iff; eexists; exact C0).
      rewrite Forall_forall in F0. specialize (F0 (k, l')). unfold entry_ok in F0. cbn [fst snd] in F0.
      destruct F0 as [F0|F0]; [apply tget_In; rewrite <- Hs; exact Hk | congruence | exact F0].
    - destruct l' as [|g r]; [left; reflexivity|]. right. apply n_usable_pos. exists g.
      split; [left; reflexivity|]. apply Hs. unfold entry. rewrite Hk. left. reflexivity. }
  destruct C1 as [final1 C1].
  destruct (write_after_loop _ _ _ _ _ C1 M1) as [c1 W1].
  exists c1. unfold create_cache. rewrite V1. cbn [cc_need]. rewrite C1, M1. exact W1.
Qed.

(* the single-child form *)
Corollary single_child_entry_is_harmless t tb refg qg minm p l :
  NoDup (map fst tb) ->
  In p (all_parents t) -> (length (children t p) <= 1)%nat ->
  (forall g, In g l -> In g refg) ->
  (exists c, create_cache (tset p [] tb) refg qg (Some t) minm = MOk c) ->
  exists c, create_cache (tset p l tb) refg qg (Some t) minm = MOk c.
Proof.
  intros ND _ Hc. apply unneeded_entry_is_harmless; [exact ND|].
  unfold needs_markers. apply andb_false_iff. right. apply Nat.leb_gt. lia.
Qed.

(* a key that is no parent of the tree (a node of the leaf level, of a dropped level, ...) needs none either *)
Lemma not_a_parent_needs_none t p : ~ In p (all_parents t) -> needs_markers t p = false.
Proof.
  intros H. unfold needs_markers, in_parents.
  destruct (existsb (pkey_eqb p) (all_parents t)) eqn:E; [|reflexivity].
  exfalso. apply existsb_exists in E. destruct E as (k & Hk & E). apply pkey_eqb_eq in E. subst k. exact (H Hk).
Qed.

(* what the creation of a cache can fail with after validate_marker_lookup has passed: E_NO_OVERLAP is raised
   for nothing but a parent of the tree with >= 2 children that lists genes and has none in the query *)
Theorem no_overlap_only_for_needed t tb refg qg minm :
  create_cache tb refg qg (Some t) minm = MErr E_NO_OVERLAP ->
  exists tb' log k l, validate_marker_lookup tb qg t minm = MOk (tb', log) /\
    In (k, l) tb' /\ In k (all_parents t) /\ (2 <= length (children t k))%nat /\
    l <> [] /\ (forall g, In g l -> ~ In g qg).
Proof.
  unfold create_cache.
  destruct (validate_marker_lookup tb qg t minm) as [[tb' log]|e] eqn:V.
  2:{ intros H. exfalso. inversion H as [He]. subst e. unfold validate_marker_lookup in V.
      destruct (v_err _); [destruct (Nat.eqb _ _); discriminate | discriminate]. }
  cbn [cc_need]. destruct (cc_loop (needs_markers t) qg tb') as [final|e] eqn:C.
  - destruct (missing_ref refg tb'); [discriminate|].
    unfold write_query_markers. destruct (wq_groups refg qg final); discriminate.
  - intros _. destruct (cc_loop_fails_on_needed _ _ _ _ C) as (_ & k & l & Hin & Hn & Hne & Hno).
    exists tb', log, k, l. split; [reflexivity|]. split; [exact Hin|].
    unfold needs_markers in Hn. apply andb_true_iff in Hn. destruct Hn as [Hp Hc].
    unfold in_parents in Hp. apply existsb_exists in Hp. destruct Hp as (k' & Hk' & Ek). apply pkey_eqb_eq in Ek. subst k'.
    split; [exact Hk'|]. split; [apply Nat.leb_le; exact Hc|]. auto.
Qed.
