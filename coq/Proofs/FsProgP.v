(* Proofs for Model/FsModel.v (C19), second part:
     A. nothing that existed before an accepted run is gone after it (in particular a declared
        output left by an earlier run is overwritten, never removed);
     B. stale independence for PROGRAMS (functions from the observation history to the next
        operation): every observation the acceptor lets a program make has the same answer on
        two file systems that agree where the theorem says, hence the same trace. *)
From Coq Require Import ZArith List Bool Lia Sorted.
From CTM Require Import Base.Sx Model.FsModel Proofs.FsModelP.
Import ListNotations.
Open Scope Z_scope.

(* ------------------------------------------------------------------ A. never deleted *)
Definition P (f0 : fs) (c : config) (f : fs) (b : bk) : Prop :=
  (forall p, lookup f0 p <> None -> lookup f p <> None) /\
  (forall p, In p (b_new b) -> lookup f0 p = None) /\
  (forall p, In p (b_dirs b) -> ~ In p (c_outputs c)).

Lemma P_init : forall c f0, P f0 c f0 bk0.
Proof. intros. repeat split; simpl; intros; try contradiction; auto. Qed.

Lemma removed_was_absent : forall f0 c f b p,
  J f0 c f b -> P f0 c f b ->
  (In p (b_created b) /\ removable c b p = true) \/ In p (b_dirs b) -> lookup f0 p = None.
Proof.
  intros f0 c f b p [J1 [J2 [J3 [J3b J4]]]] [P1 [P2 P3]] [[Hc Hr]|Hd].
  - unfold removable in Hr. apply orb_true_iff in Hr. destruct Hr as [Hr|Hr].
    + apply negb_true_iff in Hr. apply mem_false in Hr.
      destruct (J2 p (or_introl Hc)) as [A|A]; [exfalso; apply Hr; apply J4; assumption | assumption].
    + apply P2. apply mem_In. assumption.
  - destruct (J2 p (or_intror Hd)) as [A|A]; [exfalso; apply (P3 p Hd); apply J4; assumption | assumption].
Qed.

Lemma In_new_out : forall e p l x, In x (new_out e p l) -> (x = p /\ e = None) \/ In x l.
Proof.
  intros e p l x H. destruct e as [e|]; simpl in H; [auto|].
  apply In_add in H. destruct H as [H|H]; auto.
Qed.

Lemma absent_now_absent_before : forall f0 f p,
  (forall q, lookup f0 q <> None -> lookup f q <> None) -> lookup f p = None -> lookup f0 p = None.
Proof.
  intros f0 f p H Hp. destruct (lookup f0 p) eqn:E; [|reflexivity].
  exfalso. apply (H p); [congruence | assumption].
Qed.

Lemma decide_keeps_P : forall f0 c f b o e b',
  J f0 c f b -> P f0 c f b -> decide c f b o = Ok (e, b') -> P f0 c (apply e f) b'.
Proof.
  intros f0 c f b o e b' HJ HP H.
  pose proof (fun p => removed_was_absent f0 c f b p HJ HP) as RA.
  destruct HP as [P1 [P2 P3]].
  pose proof (fun p => absent_now_absent_before f0 f p P1) as AB.
  decide_inv H; norm; cbn [apply]; unfold P; bk_simpl.
  all: try (repeat split; assumption).
  all: split; [intros y Hy | split; [intros y Hy | intros y Hy]].
  (* P3: directories are not declared outputs *)
  all: try (match goal with |- ~ In _ (c_outputs _) =>
              fin; try (apply P3; assumption); assumption end; fail).
  (* P2: what is in `new` was absent at the start *)
  all: try (match goal with |- lookup _ _ = None =>
              repeat (match goal with
                      | H : In _ (new_out _ _ _) |- _ => apply In_new_out in H; destruct H as [[-> H]|H]
                      | H : In _ (del _ _) |- _ => apply In_del in H; destruct H as [_ H]
                      | H : In _ (add _ _) |- _ => apply In_add in H; destruct H as [->|H]
                      end); try (apply P2; assumption); apply AB; assumption end; fail).
  (* P1: what was there at the start is still there *)
  all: try (rewrite ?lookup_set, ?lookup_remove;
            repeat (match goal with |- context [path_eqb ?a ?z] => destruct (path_eqb a z) eqn:?; norm end);
            try discriminate; try (apply P1; assumption);
            exfalso; apply Hy; apply RA; auto; fail).
Qed.

Lemma exec_keeps_JP : forall f0 c t f b g b',
  J f0 c f b -> P f0 c f b -> exec c f b t = Ok (g, b') -> J f0 c g b' /\ P f0 c g b'.
Proof.
  intros f0 c t. induction t as [|o t IH]; intros f b g b' HJ HP H; simpl in H.
  - inversion H; subst. auto.
  - destruct (step c f b o) as [[f1 b1]|code] eqn:S; [|discriminate].
    pose proof (step_keeps_J _ _ _ _ _ _ _ HJ S) as HJ1.
    apply step_decide in S. destruct S as [e [D ->]].
    eapply IH; [exact HJ1 | eapply decide_keeps_P; eauto | exact H].
Qed.

Theorem preexisting_never_deleted : forall c f0 t g,
  accept c f0 t = Accepted g -> forall p, lookup f0 p <> None -> lookup g p <> None.
Proof.
  intros c f0 t g H. apply accept_exec in H. destruct H as [b' [E _]].
  destruct (exec_keeps_JP f0 c t f0 bk0 g b' (J_init c f0) (P_init c f0) E) as [_ [P1 _]]. exact P1.
Qed.
