(* Proofs for Model/FsModel.v (C19), second part:
     A. nothing that existed before an accepted run is gone after it (in particular a declared
        output left by an earlier run is overwritten, never removed);
     B. stale independence for PROGRAMS (functions from the observation history to the next
        operation): every observation the acceptor lets a program make has the same answer on
        two file systems that agree where the theorem says, hence the same trace. *)
From Coq Require Import ZArith List Bool Lia Sorted.
From CTM Require Import Base.Sx Model.FsModel Proofs.FsModelP.
Import ListNotations.
Open Scope Z_scope.

(* ------------------------------------------------------------------ A. never deleted *)
Definition Pinv (f0 : fs) (c : config) (f : fs) (b : bk) : Prop :=
  (forall p, lookup f0 p <> None -> lookup f p <> None) /\
  (forall p, In p (b_new b) -> lookup f0 p = None) /\
  (forall p, In p (b_dirs b) -> ~ In p (c_outputs c)).

Lemma P_init : forall c f0, Pinv f0 c f0 bk0.
Proof. intros. repeat split; simpl; intros; try contradiction; auto. Qed.

Lemma removed_was_absent : forall f0 c f b p,
  J f0 c f b -> Pinv f0 c f b ->
  (In p (b_created b) /\ removable c b p = true) \/ In p (b_dirs b) -> lookup f0 p = None.
Proof.
  intros f0 c f b p [J1 [J2 [J3 [J3b J4]]]] [P1 [P2 P3]] [[Hc Hr]|Hd].
  - unfold removable in Hr. apply orb_true_iff in Hr. destruct Hr as [Hr|Hr].
    + apply negb_true_iff in Hr. apply mem_false in Hr.
      destruct (J2 p (or_introl Hc)) as [A|A]; [exfalso; apply Hr; apply J4; assumption | assumption].
    + apply P2. apply mem_In. assumption.
  - destruct (J2 p (or_intror Hd)) as [A|A]; [exfalso; apply (P3 p Hd); apply J4; assumption | assumption].
Qed.

Lemma In_new_out : forall e p l x, In x (new_out e p l) -> (x = p /\ e = None) \/ In x l.
Proof.
  intros e p l x H. destruct e as [e|]; simpl in H; [auto|].
  apply In_add in H. destruct H as [H|H]; auto.
Qed.

Lemma absent_now_absent_before : forall f0 f p,
  (forall q, lookup f0 q <> None -> lookup f q <> None) -> lookup f p = None -> lookup f0 p = None.
Proof.
  intros f0 f p H Hp. destruct (lookup f0 p) eqn:E; [|reflexivity].
  exfalso. apply (H p); [congruence | assumption].
Qed.

Lemma decide_keeps_P : forall f0 c f b o e b',
  J f0 c f b -> Pinv f0 c f b -> decide c f b o = Ok (e, b') -> Pinv f0 c (apply e f) b'.
Proof.
  intros f0 c f b o e b' HJ HP H.
  pose proof (fun p => removed_was_absent f0 c f b p HJ HP) as RA.
  destruct HP as [P1 [P2 P3]].
  pose proof (fun p => absent_now_absent_before f0 f p P1) as AB.
  decide_inv H; norm; cbn [apply]; unfold Pinv; bk_simpl.
  all: try (repeat split; assumption).
  all: split; [intros y Hy | split; [intros y Hy | intros y Hy]].
  (* P3: directories are not declared outputs *)
  all: try (match goal with |- ~ In _ (c_outputs _) =>
              fin; try (apply P3; assumption); assumption end; fail).
  (* P2: what is in `new` was absent at the start *)
  all: try (match goal with |- lookup _ _ = None =>
              repeat (match goal with
                      | H : In _ (new_out _ _ _) |- _ => apply In_new_out in H; destruct H as [[-> H]|H]
                      | H : In _ (del _ _) |- _ => apply In_del in H; destruct H as [_ H]
                      | H : In _ (add _ _) |- _ => apply In_add in H; destruct H as [->|H]
                      end); try (apply P2; assumption); apply AB; assumption end; fail).
  (* P1: what was there at the start is still there *)
  all: try (rewrite ?lookup_set, ?lookup_remove;
            repeat (match goal with |- context [path_eqb ?a ?z] => destruct (path_eqb a z) eqn:?; norm end);
            try discriminate; try (apply P1; assumption);
            exfalso; apply Hy; apply RA; auto; fail).
Qed.

Lemma exec_keeps_JP : forall f0 c t f b g b',
  J f0 c f b -> Pinv f0 c f b -> exec c f b t = Ok (g, b') -> J f0 c g b' /\ Pinv f0 c g b'.
Proof.
  intros f0 c t. induction t as [|o t IH]; intros f b g b' HJ HP H; simpl in H.
  - inversion H; subst. auto.
  - destruct (step c f b o) as [[f1 b1]|code] eqn:S; [|discriminate].
    pose proof (step_keeps_J _ _ _ _ _ _ _ HJ S) as HJ1.
    apply step_decide in S. destruct S as [e [D ->]].
    eapply IH; [exact HJ1 | eapply decide_keeps_P; eauto | exact H].
Qed.

Theorem preexisting_never_deleted : forall c f0 t g,
  accept c f0 t = Accepted g -> forall p, lookup f0 p <> None -> lookup g p <> None.
Proof.
  intros c f0 t g H. apply accept_exec in H. destruct H as [b' [E _]].
  destruct (exec_keeps_JP f0 c t f0 bk0 g b' (J_init c f0) (P_init c f0) E) as [_ [P1 _]]. exact P1.
Qed.

(* ------------------------------------------------------------------ B. listings *)
Lemma name_insert_In : forall x l y, In y (name_insert x l) <-> y = x \/ In y l.
Proof.
  intros x l. induction l as [|a l IH]; intros y; simpl.
  - split; intros [H|H]; auto; contradiction.
  - destruct (x <? a) eqn:E1; [simpl; split; intros [H|H]; auto|].
    destruct (x =? a) eqn:E2.
    + apply Z.eqb_eq in E2. subst. simpl. split; [auto | intros [->|H]; auto].
    + simpl. rewrite IH. split; [intros [H|[H|H]] | intros [H|[H|H]]]; auto.
Qed.

Lemma name_insert_sorted : forall x l, StronglySorted Z.lt l -> StronglySorted Z.lt (name_insert x l).
Proof.
  intros x l H. induction H as [|a l Hs IH Hf]; simpl.
  - constructor; constructor.
  - destruct (x <? a) eqn:E1.
    + apply Z.ltb_lt in E1. constructor; [constructor; assumption|].
      constructor; [assumption|]. rewrite Forall_forall in *. intros y Hy. specialize (Hf y Hy). lia.
    + destruct (x =? a) eqn:E2; [constructor; assumption|].
      apply Z.ltb_ge in E1. apply Z.eqb_neq in E2.
      constructor; [assumption|]. rewrite Forall_forall in *. intros y Hy.
      apply name_insert_In in Hy. destruct Hy as [->|Hy]; [lia | auto].
Qed.

Lemma sorted_ext : forall l1 l2 : list Z,
  StronglySorted Z.lt l1 -> StronglySorted Z.lt l2 -> (forall x, In x l1 <-> In x l2) -> l1 = l2.
Proof.
  induction l1 as [|a l1 IH]; intros l2 H1 H2 H.
  - destruct l2 as [|z l2]; [reflexivity|]. exfalso. apply (H z). left. reflexivity.
  - destruct l2 as [|z l2]; [exfalso; apply (H a); left; reflexivity|].
    inversion H1 as [|? ? S1 F1]; subst. inversion H2 as [|? ? S2 F2]; subst.
    rewrite Forall_forall in F1, F2.
    assert (E : a = z).
    { destruct (proj1 (H a) (or_introl eq_refl)) as [A|A]; [auto|].
      destruct (proj2 (H z) (or_introl eq_refl)) as [B|B]; [auto|].
      specialize (F1 z B). specialize (F2 a A). lia. }
    subst. f_equal. apply IH; [assumption | assumption|].
    intro x. split; intro Hx.
    + destruct (proj1 (H x) (or_intror Hx)) as [A|A]; [|assumption].
      subst. specialize (F1 x Hx). lia.
    + destruct (proj2 (H x) (or_intror Hx)) as [A|A]; [|assumption].
      subst. specialize (F2 x Hx). lia.
Qed.

Lemma listing_sorted : forall f d, StronglySorted Z.lt (listing f d).
Proof.
  induction f as [|[k e] f IH]; intro d; simpl; [constructor|].
  destruct (strip d k) as [[|n [|m r]]|]; try apply IH. apply name_insert_sorted. apply IH.
Qed.

Lemma listing_In : forall f d n, In n (listing f d) <-> lookup f (d ++ [n]) <> None.
Proof.
  intros f d n. split.
  - induction f as [|[k e] f IH]; simpl; [contradiction|].
    intro H. destruct (path_eqb k (d ++ [n])) eqn:E; [discriminate|].
    destruct (strip d k) as [[|m [|m' r]]|] eqn:S; auto.
    apply name_insert_In in H. destruct H as [->|H]; [|auto].
    apply strip_spec in S. subst. rewrite path_eqb_refl in E. discriminate.
  - intro H. destruct (lookup f (d ++ [n])) as [e|] eqn:L; [|congruence]. clear H.
    apply lookup_Some_In in L. induction f as [|[k e'] f IH]; simpl in *; [contradiction|].
    destruct L as [L|L].
    + inversion L; subst. rewrite strip_app. apply name_insert_In. auto.
    + specialize (IH L). destruct (strip d k) as [[|m [|m' r]]|]; auto.
      apply name_insert_In. auto.
Qed.

Lemma listing_ext : forall f f' d,
  (forall q, under d q = true -> lookup f q = lookup f' q) -> listing f d = listing f' d.
Proof.
  intros f f' d H. apply sorted_ext; try apply listing_sorted.
  intro n. rewrite !listing_In. rewrite H; [tauto|].
  apply under_spec. exists n, []. reflexivity.
Qed.

(* ------------------------------------------------------------------ B. programs *)
Lemma step_stat : forall c f b p r g b',
  step c f b (Stat p r) = Ok (g, b') -> statable c b p = true.
Proof.
  intros c f b p r g b' H. unfold step, decide in H. destruct (b_done b); [discriminate|].
  destruct (statable c b p); [reflexivity | discriminate].
Qed.

Lemma step_openr : forall c f b p g b',
  step c f b (OpenR p) = Ok (g, b') -> mem p (c_inputs c) || mem p (b_created b) = true.
Proof.
  intros c f b p g b' H. unfold step, decide in H. destruct (b_done b); [discriminate|].
  destruct (mem p (c_inputs c) || mem p (b_created b)); [reflexivity | discriminate].
Qed.

Lemma step_listdir : forall c f b p g b',
  step c f b (ListDir p) = Ok (g, b') -> mem p (b_dirs b) = true.
Proof.
  intros c f b p g b' H. unfold step, decide in H. destruct (b_done b); [discriminate|].
  destruct (mem p (b_dirs b)); [reflexivity | discriminate].
Qed.

Lemma kind_sim : forall c N f f' b o p,
  inv c N b -> agree (region c N b) f f' -> kagree c f f' -> kreadable c b o p ->
  kind_of (lookup f p) = kind_of (lookup f' p).
Proof.
  intros c N f f' b o p Hi Ha Hk H.
  destruct (kreadable_region c N b o p Hi H) as [K|K]; [apply Hk; assumption|].
  rewrite (Ha p) by (left; assumption). reflexivity.
Qed.

(* every observation the acceptor lets a run make has the same answer on both file systems *)
Lemma observe_sim : forall c N f f' b o0 g b',
  inv c N b -> incl (op_fresh c (fill f o0)) N -> agree (region c N b) f f' -> kagree c f f' ->
  step c f b (fill f o0) = Ok (g, b') ->
  fill f' o0 = fill f o0 /\ observe f' (fill f o0) = observe f (fill f o0).
Proof.
  intros c N f f' b o0 g b' Hi Hn Ha Hk S.
  destruct o0 as [x|x cid|x t cid|x|x|x|x y|x|ok|x r]; cbn [fill observe] in *; try (split; reflexivity).
  - split; [reflexivity|]. apply step_openr in S.
    rewrite (Ha x); [reflexivity|]. apply (readable_region c N b (OpenR x) x Hi Hn). simpl. auto.
  - split; [reflexivity|]. apply step_listdir in S. f_equal. symmetry. apply listing_ext.
    intros q Hq. apply Ha. apply (readable_region c N b (ListDir x) q Hi Hn). simpl. auto.
  - apply step_stat in S.
    assert (K : kind_of (lookup f x) = kind_of (lookup f' x)).
    { apply (kind_sim c N f f' b (Stat x r) x Hi Ha Hk). simpl. auto. }
    rewrite K. split; reflexivity.
Qed.

Lemma prun_exec : forall c pg fuel f b h g b' t h',
  prun c pg fuel f b h = Ok (g, b', t, h') -> exec c f b t = Ok (g, b').
Proof.
  intros c pg fuel. induction fuel as [|n IH]; intros f b h g b' t h' H; simpl in H.
  - inversion H; subst. reflexivity.
  - destruct (b_done b); [inversion H; subst; reflexivity|].
    destruct (step c f b (fill f (pg h))) as [[f1 b1]|code] eqn:S; [|discriminate].
    destruct (prun c pg n f1 b1 (h ++ [observe f (fill f (pg h))])) as [[[[g1 b2] t1] h2]|code] eqn:R; [|discriminate].
    inversion H; subst. simpl. rewrite S. eapply IH; eauto.
Qed.

Lemma prun_sim : forall c pg N fuel f f' b h g b' t h',
  inv c N b -> incl (fresh_names c t) N -> agree (region c N b) f f' -> kagree c f f' ->
  prun c pg fuel f b h = Ok (g, b', t, h') ->
  exists g', prun c pg fuel f' b h = Ok (g', b', t, h') /\ agree (region c N b') g g'.
Proof.
  intros c pg N fuel. induction fuel as [|n IH]; intros f f' b h g b' t h' Hi Hn Ha Hk H; simpl in H |- *.
  - inversion H; subst. eauto.
  - destruct (b_done b); [inversion H; subst; eauto|].
    destruct (step c f b (fill f (pg h))) as [[f1 b1]|code] eqn:S; [|discriminate].
    destruct (prun c pg n f1 b1 (h ++ [observe f (fill f (pg h))])) as [[[[g1 b2] t1] h2]|code] eqn:R; [|discriminate].
    inversion H; subst. clear H. rewrite fresh_cons in Hn.
    pose proof (incl_app_l _ _ _ _ Hn) as Ho. pose proof (incl_app_r _ _ _ _ Hn) as Ht.
    destruct (observe_sim c N f f' b (pg h) f1 b1 Hi Ho Ha Hk S) as [EF EO].
    destruct (step_sim c N f f' b _ f1 b1 Hi Ho Ha Hk S) as [f1' [S' [Ha1 [_ Hk1]]]].
    assert (Hi1 : inv c N b1) by (eapply step_keeps_inv; eauto).
    assert (Hk' : kagree c f1 f1') by (intros x Hx; apply Hk1; apply Hk; assumption).
    destruct (IH f1 f1' b1 _ g b' t1 h' Hi1 Ht Ha1 Hk' R) as [g' [R' Ag]].
    exists g'. rewrite EF, S', EO, R'. auto.
Qed.

(* the trace of an accepted program run is an accepted trace: every theorem about accepted
   traces (soundness, nothing deleted, concurrency) applies to program runs *)
Theorem program_run_is_accepted_trace : forall c pg fuel f g t h,
  paccept c pg fuel f g t h -> accept c f t = Accepted g.
Proof.
  intros c pg fuel f g t h [b [R D]]. apply accept_exec. exists b. split; [|assumption].
  eapply prun_exec; eauto.
Qed.

Theorem stale_independence_program_thm : forall c pg fuel f1 f2 g1 t h,
  outside_scratch c = true -> mem (c_query c) (c_outputs c) = false ->
  (forall p, In p (c_inputs c) -> lookup f1 p = lookup f2 p) ->
  (c_obsm c = true -> lookup f1 (c_query c) = lookup f2 (c_query c)) ->
  (forall p, kregion c p = true -> kind_of (lookup f1 p) = kind_of (lookup f2 p)) ->
  paccept c pg fuel f1 g1 t h ->
  (forall p, in_cone c (fresh_names c t) p = true -> lookup f1 p = None /\ lookup f2 p = None) ->
  exists g2,
    paccept c pg fuel f2 g2 t h /\
    (forall o, In o (c_outputs c) ->
       lookup g1 o = lookup g2 o \/ (lookup g1 o = lookup f1 o /\ lookup g2 o = lookup f2 o)) /\
    (forall p, in_cone c (fresh_names c t) p = false -> ~ In p (c_outputs c) -> wq c p = false ->
       lookup g1 p = lookup f1 p /\ lookup g2 p = lookup f2 p).
Proof.
  intros c pg fuel f1 f2 g1 t h Hout Hq Hin Hqq Hk [b' [R D]] Hcone.
  set (N := fresh_names c t) in *.
  assert (Ha : agree (region c N bk0) f1 f2).
  { intros p [Hp|[Hp|[Hp|Hp]]].
    - destruct (Hcone p Hp) as [A B]. congruence.
    - apply Hin. assumption.
    - apply wq_spec in Hp. destruct Hp as [Ho ->]. apply Hqq. assumption.
    - simpl in Hp. contradiction. }
  destruct (prun_sim c pg N fuel f1 f2 bk0 [] g1 b' t h (inv_bk0 c N) (incl_refl _) Ha Hk R) as [g2 [R2 Ag]].
  pose proof (prun_exec _ _ _ _ _ _ _ _ _ _ R) as E1. pose proof (prun_exec _ _ _ _ _ _ _ _ _ _ R2) as E2.
  pose proof (exec_keeps_inv c N t f1 bk0 g1 b' (inv_bk0 c N) (incl_refl _) E1) as [_ [_ [I3 _]]].
  exists g2. split; [exists b'; auto|]. split.
  - intros o Ho. destruct (mem o (b_owned b')) eqn:M.
    + left. apply Ag. right. right. right. apply mem_In. assumption.
    + right. apply mem_false in M.
      assert (C : in_cone c N o = false) by (apply in_cone_outside; apply outside_scratch_spec; auto).
      assert (Q : wq c o = false).
      { destruct (wq c o) eqn:W; [|reflexivity]. apply wq_spec in W. destruct W as [_ ->].
        apply mem_false in Hq. contradiction. }
      split; eapply exec_frame; eauto using inv_bk0, incl_refl.
  - intros p C Ho Q.
    assert (M : ~ In p (b_owned b')) by (intro A; apply Ho; apply I3; assumption).
    split; eapply exec_frame; eauto using inv_bk0, incl_refl.
Qed.

(* ------------------------------------------------------------------ checkers for the Examples *)
Fixpoint prefixes (d : path) : list path :=
  match d with [] => [[]] | a :: r => [] :: map (cons a) (prefixes r) end.

Lemma prefixes_spec : forall d p, is_prefix p d = true -> In p (prefixes d).
Proof.
  induction d as [|a d IH]; intros p H; apply is_prefix_spec in H; destruct H as [r H].
  - destruct p; [left; reflexivity | discriminate].
  - destruct p as [|b p]; [left; reflexivity|]. simpl in H. inversion H; subst.
    right. apply in_map. apply IH. apply is_prefix_spec. eauto.
Qed.

Definition kagree_b (c : config) (f1 f2 : fs) : bool :=
  forallb (fun d => forallb (fun p => probe_ok (kind_of (lookup f1 p)) (kind_of (lookup f2 p))) (prefixes d))
          (c_scratch c :: declared c).

Lemma kagree_b_spec : forall c f1 f2, kagree_b c f1 f2 = true ->
  forall p, kregion c p = true -> kind_of (lookup f1 p) = kind_of (lookup f2 p).
Proof.
  intros c f1 f2 H p K. unfold kagree_b in H. rewrite forallb_forall in H.
  unfold kregion in K. apply existsb_exists in K. destruct K as [d [Hd Hp]].
  specialize (H d Hd). rewrite forallb_forall in H. specialize (H p (prefixes_spec d p Hp)).
  destruct (lookup f1 p) as [[[|] ?]|]; destruct (lookup f2 p) as [[[|] ?]|]; simpl in *; congruence.
Qed.

Definition cone_free_b (c : config) (N : list Z) (f : fs) : bool :=
  forallb (fun kv => negb (in_cone c N (fst kv))) f.

Lemma cone_free_b_spec : forall c N f, cone_free_b c N f = true ->
  forall p, in_cone c N p = true -> lookup f p = None.
Proof.
  intros c N f H p Hc. destruct (lookup f p) as [e|] eqn:L; [|reflexivity].
  apply lookup_Some_In in L. unfold cone_free_b in H. rewrite forallb_forall in H.
  specialize (H (p, e) L). simpl in H. rewrite Hc in H. discriminate.
Qed.
