(* Lemmas about the reshaping part of Model/Sparse.v (audit repairs):
   - _copy_layer_to_x_dense: total form (exactly when the chunked copy is accepted);
   - amalgamate_h5ad: the dense destination under the guards h5py needs (at least one
     source, at least one column), the sparse destination without them. *)
From Coq Require Import List Arith ZArith Lia Bool.
From CTM Require Import Base.Sx Base.ListX Model.Sparse
  Proofs.SparseP Proofs.SparseReshapeP Proofs.SparseSelectP.
Import ListNotations.

(* the chunk shape _copy_layer_to_x_dense creates the destination with *)
Definition dense_chunk_shape (n_rows n_cols : nat) (chunks : option (nat * nat)) : nat * nat :=
  match chunks with
  | Some c => c
  | None => let rc := Z.to_nat (Z.min 10000 (Z.of_nat (n_rows / 10))) in
            ((if rc =? 0 then n_rows else rc), n_cols)
  end.

(* the shapes h5py accepts: the source dataset is chunked with a chunk shape inside its
   extent (what HDF5 guarantees for a fixed-size dataset), or it is contiguous and has at
   least one row and one column *)
Definition dense_chunks_ok (n_rows n_cols : nat) (chunks : option (nat * nat)) : Prop :=
  match chunks with
  | Some c => 1 <= fst c <= n_rows /\ 1 <= snd c <= n_cols
  | None => 1 <= n_rows /\ 1 <= n_cols
  end.

Lemma chunk_ok_iff n c : chunk_ok n c = true <-> 1 <= c <= n.
Proof. unfold chunk_ok. rewrite andb_true_iff, Nat.ltb_lt, Nat.leb_le. lia. Qed.

Lemma dense_shape_ok nr nc chunks :
  dense_chunks_ok nr nc chunks <->
  chunk_ok nr (fst (dense_chunk_shape nr nc chunks)) && chunk_ok nc (snd (dense_chunk_shape nr nc chunks)) = true.
Proof.
  rewrite andb_true_iff, !chunk_ok_iff. unfold dense_chunks_ok, dense_chunk_shape.
  destruct chunks as [c|]; [tauto|]. cbn zeta. cbn [fst snd].
  set (rc := Z.to_nat (Z.min 10000 (Z.of_nat (nr / 10)))).
  assert (Hrc : rc <= nr / 10) by (unfold rc; lia).
  assert (Hd : nr / 10 <= nr) by (apply Nat.div_le_upper_bound; lia).
  destruct (rc =? 0) eqn:E; [apply Nat.eqb_eq in E | apply Nat.eqb_neq in E]; lia.
Qed.

(* total form: on every rectangular array and every acceptable chunk shape the copy is
   accepted and is the identity; on every other chunk shape h5py refuses (ValueError) *)
Theorem copy_dense_total (d : dense) nr nc chunks :
  length d = nr -> Forall (fun row => length row = nc) d ->
  (dense_chunks_ok nr nc chunks -> copy_dense d nr nc chunks = Ok d) /\
  (~ dense_chunks_ok nr nc chunks -> copy_dense d nr nc chunks = Err EValue).
Proof.
  intros HL HR. pose proof (dense_shape_ok nr nc chunks) as S.
  assert (U : copy_dense d nr nc chunks =
              let ch := dense_chunk_shape nr nc chunks in
              if chunk_ok nr (fst ch) && chunk_ok nc (snd ch)
              then Ok (copy_tiles d (range_chunks nr (fst ch)) (range_chunks nc (snd ch)))
              else Err EValue) by reflexivity.
  split; intros H.
  - rewrite U. cbv zeta. pose proof H as H'. apply S in H'. rewrite H'. f_equal.
    apply andb_true_iff in H'. destruct H' as [H1 H2]. rewrite chunk_ok_iff in H1, H2.
    apply (copy_tiles_exact d nr nc); try assumption; apply range_chunks_tiles; lia.
  - rewrite U. cbv zeta.
    destruct (chunk_ok nr (fst (dense_chunk_shape nr nc chunks)) &&
              chunk_ok nc (snd (dense_chunk_shape nr nc chunks))) eqn:E; [|reflexivity].
    exfalso. apply H. apply S. reflexivity.
Qed.

(* ---------------------------------------------------------------- amalgamate_h5ad *)
(* the dense destination needs at least one source and at least one column
   (amalgamate_dense_to_x creates the dataset with chunks=(min(n_rows,1000), min(n_cols,1000)):
   h5py refuses a chunk dimension 0; without a source the shape test raises first); the
   sparse destination needs neither *)
Theorem amalgamate_exact_guarded srcs nc :
  Forall (source_ok nc) srcs ->
  let D := concat (map (source_rows nc) srcs) in
  (srcs <> [] -> 1 <= nc ->
     amalgamate_to_dense srcs = Ok D /\ 1 <= length D /\ Forall (fun row => length row = nc) D) /\
  exists out, amalgamate_to_csr srcs (length D) = Ok out /\
    wf_csr out (length D) nc /\ no_dup_minor out /\ dense_of out (length D) nc = D.
Proof.
  intros H. destruct (amalgamate_exact srcs nc H) as [HD HS]. cbn zeta in *. split; [|exact HS].
  intros Hne Hnc. split; [exact HD|].
  destruct HS as (out & _ & _ & _ & ED). split.
  - destruct srcs as [|s t]; [congruence|]. inversion H as [|? ? Hs _]; subst.
    cbn [map concat]. rewrite app_length.
    assert (1 <= length (source_rows nc s)); [|lia].
    destruct s as [m nc' rows | d nr rows]; cbn [source_ok source_rows] in *; rewrite map_length.
    + destruct Hs as (_ & _ & _ & Hr & _). destruct rows; [congruence | cbn; lia].
    + destruct Hs as (_ & _ & Hr & _). destruct rows; [congruence | cbn; lia].
  - rewrite <- ED. unfold dense_of. apply Forall_forall. intros row Hrow.
    apply in_map_iff in Hrow. destruct Hrow as (j & <- & _). rewrite map_length, seq_length. reflexivity.
Qed.

(* the joining step: statement without the clause that repeated the previous one
   (amalgamate_dense is concat by definition) *)
Theorem amalgamate_csr_join pieces ns nc :
  Forall2 (fun p n => wf_csr p n nc /\ no_dup_minor p) pieces ns ->
  exists out, amalgamate_csr pieces (sum_list ns) = Ok out /\
    wf_csr out (sum_list ns) nc /\ no_dup_minor out /\
    dense_of out (sum_list ns) nc =
    concat (map (fun pn => dense_of (fst pn) (snd pn) nc) (combine pieces ns)).
Proof.
  intros H. destruct (amalgamate_csr_exact pieces ns nc H) as (out & E & W & ND & ED & _).
  exists out. repeat split; try assumption; apply W.
Qed.

(* ---------------------------------------------------------------- the row count of the sparse destination *)
(* amalgamate_csr_to_x does not compare final_shape[0] (= len(dst_obs) in amalgamate_h5ad)
   with the number of rows of the pieces: with well-formed pieces of 1 + 2 rows and a row
   count of 4 it returns normally and the pointer array written is zero-padded in the
   middle, hence not monotone - not a CSR matrix; with a row count of 2 (one too few) it
   returns normally and a row boundary is overwritten; h5py refuses only when the clipped slice
   has to take a piece of two or more rows (a one-row piece is broadcast, possibly to nothing).  (The dense destination raises RuntimeError "Expected shape ..." in all
   these cases.)  c13_amalgamate / c13_amalgamate_join are about the row count that IS the
   number of rows. *)
Definition rc_pieces : list comp :=
  [{| ptr := [0; 0]; idx := []; dat := [] |}; {| ptr := [0; 1; 2]; idx := [3; 0]; dat := [7; 8]%Z |}].

Theorem amalgamate_rowcount_unchecked :
  Forall2 (fun p n => wf_csr p n 4 /\ no_dup_minor p) rc_pieces [1; 2] /\
  amalgamate_csr rc_pieces 3 = Ok {| ptr := [0; 0; 1; 2]; idx := [3; 0]; dat := [7; 8]%Z |} /\
  (exists out, amalgamate_csr rc_pieces 4 = Ok out /\ ptr out = [0; 0; 1; 0; 2] /\ ~ mono (ptr out)) /\
  amalgamate_csr rc_pieces 2 = Ok {| ptr := [0; 0; 2]; idx := [3; 0]; dat := [7; 8]%Z |} /\
  amalgamate_csr rc_pieces 1 = Err EReject.
Proof.
  split.
  { constructor; [|constructor; [|constructor]].
    - split.
      + unfold wf_csr, wf_comp; cbn [ptr idx dat hd last length mono].
        split; [split; [reflexivity | split; [reflexivity | split; [lia | constructor]]] | split; reflexivity].
      + intros j Hj. cbn [ptr length] in Hj. assert (j = 0) by lia. subst j. vm_compute. constructor.
    - split.
      + unfold wf_csr, wf_comp; cbn [ptr idx dat hd last length mono].
        split; [split; [reflexivity | split; [reflexivity | split; [lia|]]] | split; reflexivity].
        repeat (apply Forall_cons; [lia|]). apply Forall_nil.
      + intros j Hj. cbn [ptr length] in Hj. assert (D : j = 0 \/ j = 1) by lia.
        destruct D as [-> | ->]; vm_compute; repeat (apply NoDup_cons; [cbn [In]; lia|]); apply NoDup_nil. }
  split; [vm_compute; reflexivity|]. split.
  { eexists. split; [vm_compute; reflexivity|]. split; [reflexivity|]. cbn. lia. }
  split; vm_compute; reflexivity.
Qed.
