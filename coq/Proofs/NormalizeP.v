(* Lemmas about Model/Normalize.v (C07). *)
From Coq Require Import ZArith List Bool Lia Permutation.
From CTM Require Import Base.Sx Base.SortX Base.ListX Model.Normalize.
Import ListNotations.
Open Scope Z_scope.

(* ------------------------------------------------------------------ *)
(* generic list facts                                                  *)

Lemma Forall2_map_both {A B C D} (P : C -> D -> Prop) (f : A -> C) (g : B -> D) l1 l2 :
  Forall2 (fun x y => P (f x) (g y)) l1 l2 -> Forall2 P (map f l1) (map g l2).
Proof. intros H; induction H; simpl; constructor; auto. Qed.

Lemma Forall2_map_l {A B C} (P : C -> B -> Prop) (f : A -> C) l1 l2 :
  Forall2 (fun x y => P (f x) y) l1 l2 -> Forall2 P (map f l1) l2.
Proof. intros H; induction H; simpl; constructor; auto. Qed.

Lemma Forall2_weaken {A B} (P Q : A -> B -> Prop) l1 l2 :
  (forall x y, P x y -> Q x y) -> Forall2 P l1 l2 -> Forall2 Q l1 l2.
Proof. intros HPQ H; induction H; constructor; auto. Qed.

Lemma Forall2_and_Forall_l {A B} (P : A -> B -> Prop) (Q : A -> Prop) l1 l2 :
  Forall2 P l1 l2 -> Forall Q l1 -> Forall2 (fun x y => P x y /\ Q x) l1 l2.
Proof.
  intros H; induction H; intros HQ; constructor; inversion HQ; subst; auto.
Qed.

Lemma Forall2_same {A} (P : A -> A -> Prop) l : (forall x, In x l -> P x x) -> Forall2 P l l.
Proof. induction l; intros H; constructor; [apply H; left; reflexivity | apply IHl; intros; apply H; right; assumption]. Qed.

Lemma Forall2_map_eq {A B C} (f : A -> C) (g : B -> C) l1 l2 :
  Forall2 (fun x y => f x = g y) l1 l2 -> map f l1 = map g l2.
Proof. intros H; induction H; simpl; congruence. Qed.

(* ------------------------------------------------------------------ *)
(* arithmetic of CPM                                                   *)

Definition nonneg_row (row : list Z) : Prop := Forall (fun x => 0 <= x) row.

Lemma existsb_neg_false row : existsb (fun x => x <? 0) row = false <-> nonneg_row row.
Proof.
  unfold nonneg_row; induction row as [|x t IH]; simpl.
  - split; auto.
  - rewrite orb_false_iff, IH, Z.ltb_ge. split.
    + intros [H1 H2]; constructor; assumption.
    + intros H; inversion H; subst; split; assumption.
Qed.

Lemma has_negative_false d : has_negative d = false <-> Forall nonneg_row d.
Proof.
  unfold has_negative; induction d as [|r t IH]; simpl.
  - split; auto.
  - rewrite orb_false_iff, IH, existsb_neg_false. split.
    + intros [H1 H2]; constructor; assumption.
    + intros H; inversion H; subst; split; assumption.
Qed.

Lemma rsum_nonneg row : nonneg_row row -> 0 <= rsum row.
Proof. induction 1; simpl; lia. Qed.

Lemma rsum_zero_all row : nonneg_row row -> rsum row <= 0 -> Forall (fun x => x = 0) row.
Proof.
  induction 1 as [|x t Hx Ht IH]; simpl; intros Hs; constructor.
  - pose proof (rsum_nonneg t Ht). lia.
  - apply IH. lia.
Qed.

Lemma denom_pos row : 0 < denom row.
Proof. unfold denom. destruct (0 <? rsum row) eqn:E; [apply Z.ltb_lt in E; lia | lia]. Qed.

Lemma cpm_row_dens row : Forall (fun a => 0 < snd a) (cpm_row row).
Proof.
  unfold cpm_row. apply Forall_forall. intros a Ha. apply in_map_iff in Ha.
  destruct Ha as [x [Hx _]]. subst a. simpl. apply denom_pos.
Qed.

Lemma cpm_row_length row : length (cpm_row row) = length row.
Proof. unfold cpm_row. apply map_length. Qed.

(* two rows proportional by a positive rational a/b : a * x = b * y entry-wise *)
Definition proportional (a b : Z) (r1 r2 : list Z) : Prop := Forall2 (fun x y => a * x = b * y) r1 r2.

Lemma proportional_rsum a b r1 r2 : proportional a b r1 r2 -> a * rsum r1 = b * rsum r2.
Proof. induction 1; simpl; lia. Qed.

Lemma proportional_nonneg a b r1 r2 :
  0 < a -> 0 < b -> proportional a b r1 r2 -> nonneg_row r1 -> nonneg_row r2.
Proof.
  intros Ha Hb H; induction H as [|x y t1 t2 Hxy Ht IH]; intros Hn; constructor.
  - inversion Hn; subst. nia.
  - apply IH. inversion Hn; subst; assumption.
Qed.

Lemma cpm_proportional a b r1 r2 :
  0 < a -> 0 < b -> nonneg_row r1 -> proportional a b r1 r2 ->
  Forall2 feq (cpm_row r1) (cpm_row r2).
Proof.
  intros Ha Hb Hn Hp.
  pose proof (proportional_rsum a b r1 r2 Hp) as Hs.
  pose proof (proportional_nonneg a b r1 r2 Ha Hb Hp Hn) as Hn2.
  pose proof (rsum_nonneg r1 Hn) as Hs1. pose proof (rsum_nonneg r2 Hn2) as Hs2.
  unfold cpm_row. apply Forall2_map_both. unfold feq; simpl.
  unfold denom.
  destruct (0 <? rsum r1) eqn:E1; destruct (0 <? rsum r2) eqn:E2.
  - apply Z.ltb_lt in E1. apply Z.ltb_lt in E2.
    eapply Forall2_weaken; [|exact Hp]. intros x y Hxy. simpl in Hxy.
    assert (H : (a * b) * (x * rsum r2) = (a * b) * (y * rsum r1)).
    { replace (a * b * (x * rsum r2)) with ((a * x) * (b * rsum r2)) by ring.
      replace (a * b * (y * rsum r1)) with ((b * y) * (a * rsum r1)) by ring.
      rewrite Hxy, Hs. reflexivity. }
    apply Z.mul_reg_l in H; [|nia].
    replace (x * million * rsum r2) with (x * rsum r2 * million) by ring.
    replace (y * million * rsum r1) with (y * rsum r1 * million) by ring.
    rewrite H. reflexivity.
  - apply Z.ltb_lt in E1. apply Z.ltb_ge in E2. exfalso. nia.
  - apply Z.ltb_ge in E1. apply Z.ltb_lt in E2. exfalso. nia.
  - apply Z.ltb_ge in E1. apply Z.ltb_ge in E2.
    pose proof (rsum_zero_all r1 Hn E1) as Hz.
    pose proof (Forall2_and_Forall_l _ _ _ _ Hp Hz) as H2.
    eapply Forall2_weaken; [|exact H2]. intros x y [Hxy Hx0]. simpl in *. subst x.
    assert (y = 0) by nia. subst y. reflexivity.
Qed.

Lemma scale_proportional k row : proportional 1 k (map (Z.mul k) row) row.
Proof.
  unfold proportional. induction row as [|x t IH]; cbn [map]; constructor; [lia | exact IH].
Qed.

Lemma nonneg_scale k row : 0 < k -> nonneg_row row -> nonneg_row (map (Z.mul k) row).
Proof. intros Hk H; induction H; simpl; constructor; [nia | assumption]. Qed.

Lemma cpm_scale k row :
  0 < k -> nonneg_row row -> Forall2 feq (cpm_row (map (Z.mul k) row)) (cpm_row row).
Proof.
  intros Hk Hn. apply (cpm_proportional 1 k); [lia | assumption | | apply scale_proportional].
  apply nonneg_scale; assumption.
Qed.

Lemma existsb_neg_scale k row : 0 < k ->
  existsb (fun x => x <? 0) (map (Z.mul k) row) = existsb (fun x => x <? 0) row.
Proof.
  intros Hk. induction row as [|x t IH]; simpl; [reflexivity|]. rewrite IH. f_equal.
  destruct (x <? 0) eqn:E; [apply Z.ltb_lt in E; apply Z.ltb_lt; nia | apply Z.ltb_ge in E; apply Z.ltb_ge; nia].
Qed.

(* ------------------------------------------------------------------ *)
(* selection of columns by name                                        *)

Definition lookup {A} (genes : list Z) (row : list A) (g : Z) : option A :=
  match gene_to_col genes g with Some j => nth_error row j | None => None end.
Definition olist {A} (o : option A) : list A := match o with Some x => [x] | None => [] end.
(* the values of the genes `sel`, looked up by name *)
Definition pick {A} (genes : list Z) (row : list A) (sel : list Z) : list A :=
  flat_map (fun g => olist (lookup genes row g)) sel.
Definition well_shaped {A} (genes : list Z) (d : list (list A)) : Prop :=
  Forall (fun r => length r = length genes) d.

Lemma gene_to_col_spec genes g j :
  gene_to_col genes g = Some j -> (j < length genes)%nat /\ nth_error genes j = Some g.
Proof.
  revert j; induction genes as [|h t IH]; simpl; intros j H; [discriminate|].
  destruct (g =? h) eqn:E.
  - inversion H; subst. apply Z.eqb_eq in E. subst. simpl. split; [lia | reflexivity].
  - destruct (gene_to_col t g) as [j'|]; simpl in H; [|discriminate].
    inversion H; subst. destruct (IH j' eq_refl) as [H1 H2]. simpl. split; [lia | assumption].
Qed.

Lemma gene_to_col_none genes g : gene_to_col genes g = None <-> ~ In g genes.
Proof.
  induction genes as [|h t IH]; simpl.
  - split; auto.
  - destruct (g =? h) eqn:E.
    + apply Z.eqb_eq in E. subst. split; [discriminate | intros H; exfalso; apply H; left; reflexivity].
    + apply Z.eqb_neq in E. destruct (gene_to_col t g) as [j0|] eqn:G; simpl.
      * split; [discriminate|]. intros H. exfalso. apply H. right.
        destruct (in_dec Z.eq_dec g t) as [Hi|Hn]; [assumption|]. apply IH in Hn. discriminate.
      * split; [|reflexivity]. intros _ [H|H]; [congruence|]. apply (proj1 IH); [reflexivity | assumption].
Qed.

Lemma gene_to_col_in genes g : In g genes -> exists j, gene_to_col genes g = Some j.
Proof.
  intros H. destruct (gene_to_col genes g) eqn:E; [eexists; reflexivity|].
  apply gene_to_col_none in E. contradiction.
Qed.

Lemma lookup_zassoc {A} genes (row : list A) g : lookup genes row g = zassoc g (combine genes row).
Proof.
  unfold lookup. revert row; induction genes as [|h t IH]; intros row; simpl; [reflexivity|].
  destruct row as [|x r]; simpl.
  - destruct (g =? h); [reflexivity|]. destruct (gene_to_col t g); reflexivity.
  - destruct (g =? h); [reflexivity|]. rewrite <- IH.
    destruct (gene_to_col t g); reflexivity.
Qed.

Lemma lookup_known {A} genes (row : list A) g :
  length row = length genes -> In g genes -> exists v, lookup genes row g = Some v.
Proof.
  intros Hl Hin. unfold lookup. destruct (gene_to_col_in genes g Hin) as [j Hj]. rewrite Hj.
  destruct (gene_to_col_spec genes g j Hj) as [Hlt _].
  destruct (nth_error row j) eqn:E; [eexists; reflexivity|].
  apply nth_error_None in E. lia.
Qed.

Lemma lookup_unknown {A} genes (row : list A) g : ~ In g genes -> lookup genes row g = None.
Proof. intros H. unfold lookup. apply gene_to_col_none in H. rewrite H. reflexivity. Qed.

Lemma idx_array_cons genes g sel :
  idx_array genes (g :: sel) =
  match gene_to_col genes g with
  | None => None
  | Some j => match idx_array genes sel with Some t => Some (j :: t) | None => None end
  end.
Proof. reflexivity. Qed.

Lemma idx_array_known genes sel : incl sel genes -> exists idx, idx_array genes sel = Some idx.
Proof.
  induction sel as [|g t IH]; intros Hi.
  - exists []. reflexivity.
  - rewrite idx_array_cons. destruct (gene_to_col_in genes g (Hi g (or_introl eq_refl))) as [j Hj].
    rewrite Hj. destruct IH as [idx Hidx]; [intros x Hx; apply Hi; right; assumption|].
    rewrite Hidx. eexists; reflexivity.
Qed.

Lemma idx_array_unknown genes sel : ~ incl sel genes -> idx_array genes sel = None.
Proof.
  induction sel as [|g t IH]; intros Hi.
  - exfalso. apply Hi. intros x [].
  - rewrite idx_array_cons. destruct (gene_to_col genes g) as [j0|] eqn:E; [|reflexivity].
    rewrite IH; [reflexivity|]. intros Ht. apply Hi. intros x [Hx|Hx]; [|apply Ht; assumption].
    subst x. destruct (in_dec Z.eq_dec g genes) as [Hy|Hn]; [assumption|].
    apply gene_to_col_none in Hn. congruence.
Qed.

Lemma take_cols_pick {A} genes (row : list A) sel idx :
  length row = length genes -> idx_array genes sel = Some idx ->
  take_cols idx row = Some (pick genes row sel).
Proof.
  intros Hl. revert idx; induction sel as [|g t IH]; intros idx H.
  - inversion H; subst. reflexivity.
  - rewrite idx_array_cons in H. destruct (gene_to_col genes g) as [j|] eqn:Ej; [|discriminate].
    destruct (idx_array genes t) as [it|] eqn:Et; [|discriminate]. inversion H; subst.
    unfold take_cols. simpl. unfold lookup at 1. rewrite Ej.
    destruct (gene_to_col_spec genes g j Ej) as [Hlt _].
    destruct (nth_error row j) as [v|] eqn:En; [|apply nth_error_None in En; lia].
    specialize (IH it eq_refl). unfold take_cols in IH. rewrite IH. reflexivity.
Qed.

Lemma pick_map_some {A} genes (row : list A) sel :
  length row = length genes -> incl sel genes ->
  map Some (pick genes row sel) = map (lookup genes row) sel.
Proof.
  intros Hl. induction sel as [|g t IH]; intros Hi; [reflexivity|].
  unfold pick in *. simpl. rewrite map_app, IH by (intros x Hx; apply Hi; right; assumption).
  destruct (lookup_known genes row g Hl (Hi g (or_introl eq_refl))) as [v Hv]. rewrite Hv. reflexivity.
Qed.

Lemma pick_length {A} genes (row : list A) sel :
  length row = length genes -> incl sel genes -> length (pick genes row sel) = length sel.
Proof.
  intros Hl Hi. rewrite <- (map_length Some), pick_map_some, map_length by assumption. reflexivity.
Qed.

Lemma pick_ext {A} genes genes' (row : list A) (row' : list A) sel :
  (forall g, In g sel -> lookup genes row g = lookup genes' row' g) ->
  pick genes row sel = pick genes' row' sel.
Proof.
  induction sel as [|g t IH]; intros H; [reflexivity|].
  unfold pick in *. simpl. rewrite H by (left; reflexivity). f_equal. apply IH.
  intros x Hx. apply H. right. assumption.
Qed.

(* selecting twice = selecting once *)
Lemma lookup_pick {A} genes (row : list A) am g :
  length row = length genes -> incl am genes -> In g am ->
  lookup am (pick genes row am) g = lookup genes row g.
Proof.
  intros Hl Hi Hg. unfold lookup at 1. destruct (gene_to_col_in am g Hg) as [j Hj]. rewrite Hj.
  destruct (gene_to_col_spec am g j Hj) as [_ Hnth].
  pose proof (pick_map_some genes row am Hl Hi) as Hm.
  assert (H : nth_error (map Some (pick genes row am)) j = nth_error (map (lookup genes row) am) j)
    by (rewrite Hm; reflexivity).
  rewrite !nth_error_map, Hnth in H. simpl in H.
  destruct (nth_error (pick genes row am) j); simpl in H; congruence.
Qed.

Lemma pick_pick {A} genes (row : list A) am nm :
  length row = length genes -> incl am genes -> incl nm am ->
  pick am (pick genes row am) nm = pick genes row nm.
Proof.
  intros Hl Hi Hn. apply pick_ext. intros g Hg. apply lookup_pick; auto.
Qed.

Lemma opt_all_map_some {A B} (f : A -> option B) (g : A -> B) l :
  (forall x, In x l -> f x = Some (g x)) -> opt_all (map f l) = Some (map g l).
Proof.
  induction l as [|x t IH]; intros H; [reflexivity|]. simpl.
  rewrite (H x (or_introl eq_refl)), IH; [reflexivity|]. intros y Hy. apply H. right. assumption.
Qed.

Lemma forallb_zmem_incl sel genes : forallb (fun g => zmem g genes) sel = true <-> incl sel genes.
Proof.
  rewrite forallb_forall. unfold incl. split; intros H x Hx; [apply zmem_in | apply zmem_in]; auto.
Qed.

(* complete description of downsample_genes on a well-shaped matrix *)
Lemma downsample_spec {A} (m : cbg A) sel :
  well_shaped (c_genes m) (c_data m) ->
  downsample_genes m sel =
    if negb (znodup_b sel) then Err EDupSelected
    else if forallb (fun g => zmem g (c_genes m)) sel
         then Ok (mk_cbg sel (map (fun row => pick (c_genes m) row sel) (c_data m)) (c_norm m) true)
         else Err EUnknownGene.
Proof.
  intros Hw. unfold downsample_genes. destruct (negb (znodup_b sel)); [reflexivity|].
  destruct (forallb (fun g => zmem g (c_genes m)) sel) eqn:E.
  - apply forallb_zmem_incl in E. destruct (idx_array_known _ _ E) as [idx Hidx]. rewrite Hidx.
    rewrite (opt_all_map_some _ (fun row => pick (c_genes m) row sel)); [reflexivity|].
    intros row Hrow. apply take_cols_pick; [|assumption].
    unfold well_shaped in Hw. rewrite Forall_forall in Hw. apply Hw. assumption.
  - rewrite idx_array_unknown; [reflexivity|]. intros Hi. apply forallb_zmem_incl in Hi. congruence.
Qed.

Lemma make_cbg_spec {A} genes (d : list (list A)) n :
  make_cbg genes d n =
    if negb (forallb (fun r => Nat.eqb (length r) (length genes)) d) then Err EShape
    else if negb (znodup_b genes) then Err EDupGenes else Ok (mk_cbg genes d n false).
Proof. reflexivity. Qed.

Lemma shape_check {A} genes (d : list (list A)) :
  forallb (fun r => Nat.eqb (length r) (length genes)) d = true <-> well_shaped genes d.
Proof.
  unfold well_shaped. rewrite forallb_forall, Forall_forall.
  split; intros H x Hx; [apply Nat.eqb_eq | apply Nat.eqb_eq]; auto.
Qed.

Lemma make_cbg_ok {A} genes (d : list (list A)) n :
  NoDup genes -> well_shaped genes d -> make_cbg genes d n = Ok (mk_cbg genes d n false).
Proof.
  intros Hn Hw. rewrite make_cbg_spec. apply shape_check in Hw. rewrite Hw.
  apply znodup_b_spec in Hn. rewrite Hn. reflexivity.
Qed.

Lemma marker_cache_spec genes lists :
  marker_cache genes lists =
    if forallb (fun g => zmem g genes) (concat lists)
    then Ok (filter (fun g => zmem g (concat lists)) genes) else Err EUnknownGene.
Proof. reflexivity. Qed.

Lemma in_concat_incl {A} (l : list A) ll : In l ll -> incl l (concat ll).
Proof. intros H x Hx. apply in_concat. exists l. split; assumption. Qed.

(* ------------------------------------------------------------------ *)
(* permutations of columns                                             *)

Lemma permute_cons {A} j p (l : list A) : permute (j :: p) l = olist (nth_error l j) ++ permute p l.
Proof. unfold permute, olist. simpl. destruct (nth_error l j); reflexivity. Qed.

Lemma permute_seq_gen {A} (pre l : list A) :
  permute (seq (length pre) (length l)) (pre ++ l) = l.
Proof.
  revert pre; induction l as [|x t IH]; intros pre; [reflexivity|].
  cbn [length seq]. rewrite permute_cons.
  rewrite nth_error_app2 by lia. rewrite Nat.sub_diag. simpl. f_equal.
  specialize (IH (pre ++ [x])). rewrite app_length in IH. simpl in IH.
  rewrite Nat.add_1_r, <- app_assoc in IH. simpl in IH. exact IH.
Qed.

Lemma permute_seq {A} (l : list A) : permute (seq 0 (length l)) l = l.
Proof. exact (permute_seq_gen [] l). Qed.

Lemma permute_perm {A} p (l : list A) :
  Permutation p (seq 0 (length l)) -> Permutation (permute p l) l.
Proof.
  intros H. rewrite <- (permute_seq l) at 2. unfold permute. apply Permutation_flat_map. exact H.
Qed.

Lemma permute_map {A B} (f : A -> B) p l : permute p (map f l) = map f (permute p l).
Proof.
  induction p as [|j t IH]; [reflexivity|]. rewrite !permute_cons, map_app, IH, nth_error_map.
  destruct (nth_error l j); reflexivity.
Qed.

Lemma nth_error_combine {A B} (a : list A) (b : list B) j :
  nth_error (combine a b) j =
  match nth_error a j, nth_error b j with Some x, Some y => Some (x, y) | _, _ => None end.
Proof.
  revert b j; induction a as [|x t IH]; intros b j.
  - simpl. destruct j; reflexivity.
  - destruct b as [|y r]; simpl.
    + destruct j; simpl; [reflexivity|]. destruct (nth_error t j); reflexivity.
    + destruct j; simpl; [reflexivity | apply IH].
Qed.

Lemma combine_permute {A B} p (a : list A) (b : list B) :
  length a = length b -> combine (permute p a) (permute p b) = permute p (combine a b).
Proof.
  intros Hl. induction p as [|j t IH]; [reflexivity|].
  rewrite !permute_cons, nth_error_combine.
  destruct (nth_error a j) eqn:Ea; destruct (nth_error b j) eqn:Eb; simpl.
  - rewrite IH. reflexivity.
  - apply nth_error_None in Eb. assert (nth_error a j <> None) by congruence.
    apply nth_error_Some in H. lia.
  - apply nth_error_None in Ea. assert (nth_error b j <> None) by congruence.
    apply nth_error_Some in H. lia.
  - exact IH.
Qed.

Lemma map_fst_combine {A B} (a : list A) (b : list B) : length a = length b -> map fst (combine a b) = a.
Proof.
  revert b; induction a as [|x t IH]; intros b Hl; [reflexivity|].
  destruct b; simpl in *; [discriminate|]. f_equal. apply IH. lia.
Qed.

Lemma zassoc_perm {A} (l l' : list (Z * A)) g :
  NoDup (map fst l) -> Permutation l l' -> zassoc g l = zassoc g l'.
Proof.
  intros Hn Hp.
  assert (Hn' : NoDup (map fst l')) by (eapply Permutation_NoDup; [apply Permutation_map; exact Hp | exact Hn]).
  destruct (zassoc g l) as [v|] eqn:E.
  - symmetry. apply zassoc_nodup_in; [assumption|]. eapply Permutation_in; [exact Hp|]. apply zassoc_in. assumption.
  - symmetry. apply zassoc_none. apply zassoc_none in E. intros Hin. apply E.
    eapply Permutation_in; [apply Permutation_sym; apply Permutation_map; exact Hp | exact Hin].
Qed.

Lemma lookup_permute {A} p genes (row : list A) g :
  NoDup genes -> length row = length genes -> Permutation p (seq 0 (length genes)) ->
  lookup (permute p genes) (permute p row) g = lookup genes row g.
Proof.
  intros Hn Hl Hp. rewrite !lookup_zassoc, combine_permute by lia.
  symmetry. apply zassoc_perm.
  - rewrite map_fst_combine by lia. assumption.
  - apply Permutation_sym. apply permute_perm. rewrite combine_length, Hl, Nat.min_id. assumption.
Qed.

Lemma rsum_perm r1 r2 : Permutation r1 r2 -> rsum r1 = rsum r2.
Proof. induction 1; simpl; lia. Qed.

Lemma existsb_perm {A} (f : A -> bool) l l' : Permutation l l' -> existsb f l = existsb f l'.
Proof.
  induction 1; simpl; try congruence.
  destruct (f x), (f y); reflexivity.
Qed.

Lemma zmem_perm g l l' : Permutation l l' -> zmem g l = zmem g l'.
Proof. apply existsb_perm. Qed.

(* dropping columns by name *)
Lemma zassoc_filter {A} (keep : Z -> bool) (l : list (Z * A)) g :
  keep g = true -> zassoc g (filter (fun gx => keep (fst gx)) l) = zassoc g l.
Proof.
  intros Hk. induction l as [|[k v] t IH]; [reflexivity|]. simpl.
  destruct (keep k) eqn:Ek; simpl.
  - rewrite IH. reflexivity.
  - destruct (g =? k) eqn:E; [apply Z.eqb_eq in E; congruence | exact IH].
Qed.

Lemma combine_fst_snd {A B} (l : list (A * B)) : combine (map fst l) (map snd l) = l.
Proof. induction l as [|[a b] t IH]; simpl; congruence. Qed.

Lemma map_fst_filter {A} (keep : Z -> bool) (l : list (Z * A)) :
  map fst (filter (fun gx => keep (fst gx)) l) = filter keep (map fst l).
Proof.
  induction l as [|[k v] t IH]; [reflexivity|]. simpl. destruct (keep k); simpl; congruence.
Qed.

Lemma drop_cols_combine {A} keep genes (row : list A) :
  length row = length genes ->
  combine (filter keep genes) (drop_cols keep genes row) = filter (fun gx => keep (fst gx)) (combine genes row).
Proof.
  intros Hl. unfold drop_cols.
  rewrite <- (map_fst_combine genes row) at 1 by lia.
  rewrite <- map_fst_filter. apply combine_fst_snd.
Qed.

Lemma drop_cols_length {A} keep genes (row : list A) :
  length row = length genes -> length (drop_cols keep genes row) = length (filter keep genes).
Proof.
  intros Hl. unfold drop_cols. rewrite map_length.
  rewrite <- (map_length fst), map_fst_filter, map_fst_combine by lia. reflexivity.
Qed.

Lemma lookup_drop {A} keep genes (row : list A) g :
  length row = length genes -> keep g = true ->
  lookup (filter keep genes) (drop_cols keep genes row) g = lookup genes row g.
Proof.
  intros Hl Hk. rewrite !lookup_zassoc, drop_cols_combine by assumption. apply zassoc_filter. assumption.
Qed.

(* ------------------------------------------------------------------ *)
(* the query preparation                                               *)

Section Prepare.
Variable R : Type.
Variable lg : frac -> R.
(* the ONLY assumption about log2(1 + .): it is a function of the value of the fraction *)
Hypothesis lg_ext : forall a b, 0 < snd a -> 0 < snd b -> feq a b -> lg a = lg b.

Notation log2cpm_row := (log2cpm_row R lg).
Notation to_log2cpm := (to_log2cpm R lg).
Notation prepare_query := (prepare_query R lg).
Notation node_matrices := (node_matrices R).

Lemma lg_Forall2 l1 l2 :
  Forall (fun a => 0 < snd a) l1 -> Forall (fun a => 0 < snd a) l2 -> Forall2 feq l1 l2 ->
  map lg l1 = map lg l2.
Proof.
  intros H1 H2 H. induction H as [|a b t1 t2 Hab Ht IH]; [reflexivity|].
  inversion H1; subst. inversion H2; subst. simpl. f_equal; [apply lg_ext; assumption | apply IH; assumption].
Qed.

Lemma log2cpm_proportional a b r1 r2 :
  0 < a -> 0 < b -> nonneg_row r1 -> proportional a b r1 r2 -> log2cpm_row r1 = log2cpm_row r2.
Proof.
  intros Ha Hb Hn Hp. unfold Normalize.log2cpm_row.
  apply lg_Forall2; [apply cpm_row_dens | apply cpm_row_dens | apply (cpm_proportional a b); assumption].
Qed.

Lemma log2cpm_scale k row : 0 < k -> nonneg_row row -> log2cpm_row (map (Z.mul k) row) = log2cpm_row row.
Proof.
  intros Hk Hn. apply (log2cpm_proportional 1 k); [lia | assumption | | apply scale_proportional].
  apply nonneg_scale; assumption.
Qed.

Lemma log2cpm_row_length row : length (log2cpm_row row) = length row.
Proof. unfold Normalize.log2cpm_row. rewrite map_length. apply cpm_row_length. Qed.

Lemma log2cpm_permute p row :
  Permutation p (seq 0 (length row)) -> log2cpm_row (permute p row) = permute p (log2cpm_row row).
Proof.
  intros Hp. unfold Normalize.log2cpm_row, cpm_row, denom.
  rewrite (rsum_perm _ _ (permute_perm p row Hp)). rewrite !permute_map. reflexivity.
Qed.

(* --- raw input = the normalised matrix declared normalised --- *)
Lemma shape_check_map {A B} (f : list A -> list B) (genes : list Z) (d : list (list A)) :
  (forall r, length (f r) = length r) ->
  forallb (fun r => Nat.eqb (length r) (length genes)) (map f d) =
  forallb (fun r => Nat.eqb (length r) (length genes)) d.
Proof.
  intros Hf. induction d as [|r t IH]; [reflexivity|]. simpl. rewrite Hf, IH. reflexivity.
Qed.

Lemma raw_equals_declared genes d lists :
  has_negative d = false ->
  prepare_query genes (DeclRaw d) lists = prepare_query genes (DeclNorm (map log2cpm_row d)) lists.
Proof.
  intros Hneg. unfold Normalize.prepare_query. rewrite Hneg.
  destruct (marker_cache genes lists) as [am|e]; [|reflexivity]. cbn [bind].
  rewrite !make_cbg_spec. rewrite (shape_check_map log2cpm_row) by apply log2cpm_row_length.
  destruct (negb (forallb (fun r => Nat.eqb (length r) (length genes)) d)); [reflexivity|].
  destruct (negb (znodup_b genes)); reflexivity.
Qed.

Lemma raw_negative genes d lists :
  has_negative d = true ->
  prepare_query genes (DeclRaw d) lists =
  match marker_cache genes lists with Ok _ => Err ENegative | Err e => Err e end.
Proof.
  intros Hneg. unfold Normalize.prepare_query. rewrite Hneg.
  destruct (marker_cache genes lists); reflexivity.
Qed.

(* --- complete description of prepare_query on a well-formed declared-normalised input --- *)
Definition spec_matrix (genes : list Z) (d : list (list R)) (nm : list Z) : result (list (list R)) :=
  if znodup_b nm then Ok (map (fun row => pick genes row nm) d) else Err EDupSelected.

Lemma prepare_norm_spec genes d lists :
  NoDup genes -> well_shaped genes d ->
  prepare_query genes (DeclNorm d) lists =
    if forallb (fun g => zmem g genes) (concat lists)
    then res_all (map (spec_matrix genes d) lists)
    else Err EUnknownGene.
Proof.
  intros Hn Hw. unfold Normalize.prepare_query. rewrite marker_cache_spec.
  destruct (forallb (fun g => zmem g genes) (concat lists)) eqn:Eall; [|reflexivity].
  cbn [bind]. rewrite (make_cbg_ok genes d Log2CPM Hn Hw). cbn [bind].
  set (am := filter (fun g => zmem g (concat lists)) genes).
  assert (Ham : incl am genes) by (intros x Hx; apply filter_In in Hx; tauto).
  assert (Hnd : NoDup am) by (apply NoDup_filter; assumption).
  rewrite downsample_spec by exact Hw. cbn [c_genes c_data c_norm].
  apply znodup_b_spec in Hnd. rewrite Hnd. cbn [negb].
  apply forallb_zmem_incl in Ham. rewrite Ham. apply forallb_zmem_incl in Ham. cbn [bind].
  unfold Normalize.node_matrices. f_equal. apply map_ext_in. intros nm Hnm.
  assert (Hw2 : well_shaped am (map (fun row => pick genes row am) d)).
  { unfold well_shaped in *. rewrite Forall_forall in *. intros r Hr. apply in_map_iff in Hr.
    destruct Hr as [row [Hrow Hin]]. subst r. apply pick_length; [apply Hw; assumption | assumption]. }
  rewrite downsample_spec by exact Hw2. cbn [c_genes c_data c_norm].
  unfold spec_matrix. destruct (znodup_b nm); cbn [negb]; [|reflexivity].
  assert (Hsub : incl nm am).
  { intros g Hg. apply filter_In. pose proof (in_concat_incl nm lists Hnm g Hg) as Hc. split.
    - rewrite forallb_forall in Eall. apply zmem_in. apply Eall. assumption.
    - apply zmem_in. assumption. }
  apply forallb_zmem_incl in Hsub. rewrite Hsub. apply forallb_zmem_incl in Hsub. cbn [bind c_data].
  f_equal. rewrite map_map. apply map_ext_in. intros row Hrow.
  apply pick_pick; [|assumption|assumption].
  unfold well_shaped in Hw. rewrite Forall_forall in Hw. apply Hw. assumption.
Qed.

(* --- two inputs that agree, by gene NAME, on the markers are prepared identically --- *)
Lemma forallb_ext_in {A} (f g : A -> bool) l : (forall x, In x l -> f x = g x) -> forallb f l = forallb g l.
Proof.
  induction l as [|x t IH]; intros H; [reflexivity|]. simpl.
  rewrite (H x (or_introl eq_refl)), IH; [reflexivity|]. intros y Hy. apply H. right. assumption.
Qed.

Lemma zmem_iff g l l' : (In g l <-> In g l') -> zmem g l = zmem g l'.
Proof.
  intros H. destruct (zmem g l) eqn:E1; destruct (zmem g l') eqn:E2; try reflexivity.
  - apply zmem_in in E1. apply zmem_false in E2. tauto.
  - apply zmem_false in E1. apply zmem_in in E2. tauto.
Qed.

Lemma prepare_agree genes genes' d d' lists :
  NoDup genes -> NoDup genes' -> well_shaped genes d -> well_shaped genes' d' ->
  (forall g, In g (concat lists) -> (In g genes <-> In g genes')) ->
  Forall2 (fun row row' => forall g, In g (concat lists) -> lookup genes row g = lookup genes' row' g) d d' ->
  prepare_query genes (DeclNorm d) lists = prepare_query genes' (DeclNorm d') lists.
Proof.
  intros Hn Hn' Hw Hw' Hin Hag. rewrite !prepare_norm_spec by assumption.
  rewrite (forallb_ext_in (fun g => zmem g genes) (fun g => zmem g genes'))
    by (intros g Hg; apply zmem_iff; apply Hin; assumption).
  destruct (forallb (fun g => zmem g genes') (concat lists)); [|reflexivity].
  f_equal. apply map_ext_in. intros nm Hnm. unfold spec_matrix.
  destruct (znodup_b nm); [|reflexivity]. f_equal.
  apply Forall2_map_eq. eapply Forall2_weaken; [|exact Hag].
  intros row row' H. apply pick_ext. intros g Hg. apply H. apply (in_concat_incl nm lists Hnm). assumption.
Qed.

(* --- gene permutation --- *)
Lemma perm_in_range p n j : Permutation p (seq 0 n) -> In j p -> (j < n)%nat.
Proof. intros Hp Hj. apply (Permutation_in _ Hp) in Hj. apply in_seq in Hj. lia. Qed.

Lemma gene_permutation_norm p genes d lists :
  NoDup genes -> well_shaped genes d -> Permutation p (seq 0 (length genes)) ->
  prepare_query (permute p genes) (DeclNorm (map (permute p) d)) lists = prepare_query genes (DeclNorm d) lists.
Proof.
  intros Hn Hw Hp.
  pose proof (permute_perm p genes Hp) as Hpg.
  apply prepare_agree.
  - eapply Permutation_NoDup; [apply Permutation_sym; exact Hpg | exact Hn].
  - exact Hn.
  - unfold well_shaped in *. rewrite Forall_forall in *. intros r Hr. apply in_map_iff in Hr.
    destruct Hr as [row [Hrow Hin]]. subst r. specialize (Hw row Hin).
    rewrite (Permutation_length (permute_perm p row ltac:(rewrite Hw; exact Hp))).
    rewrite (Permutation_length Hpg). assumption.
  - exact Hw.
  - intros g _. split; intros H; [eapply Permutation_in; [exact Hpg | exact H]
                                 | eapply Permutation_in; [apply Permutation_sym; exact Hpg | exact H]].
  - unfold well_shaped in Hw. rewrite Forall_forall in Hw.
    apply Forall2_map_l.
    apply Forall2_same. intros row Hrow g _. apply lookup_permute; [assumption | apply Hw; assumption | assumption].
Qed.

Lemma has_negative_permute p d :
  Forall (fun row => Permutation p (seq 0 (length row))) d ->
  has_negative (map (permute p) d) = has_negative d.
Proof.
  unfold has_negative. induction 1 as [|row t Hrow Ht IH]; [reflexivity|]. simpl. rewrite IH. f_equal.
  apply existsb_perm. apply permute_perm. assumption.
Qed.

Lemma marker_cache_ok_perm genes genes' lists :
  Permutation genes' genes ->
  (exists am, marker_cache genes lists = Ok am) \/
  (marker_cache genes lists = Err EUnknownGene /\ marker_cache genes' lists = Err EUnknownGene).
Proof.
  intros Hp. rewrite !marker_cache_spec.
  rewrite (forallb_ext_in (fun g => zmem g genes') (fun g => zmem g genes))
    by (intros g _; apply zmem_perm; assumption).
  destruct (forallb (fun g => zmem g genes) (concat lists)); [left; eexists; reflexivity | right; split; reflexivity].
Qed.

Lemma gene_permutation p genes inp lists :
  NoDup genes ->
  match inp with DeclRaw d => well_shaped genes d | DeclNorm d => well_shaped genes d end ->
  Permutation p (seq 0 (length genes)) ->
  prepare_query (permute p genes)
    (match inp with DeclRaw d => DeclRaw (map (permute p) d) | DeclNorm d => DeclNorm (map (permute p) d) end) lists
  = prepare_query genes inp lists.
Proof.
  intros Hn Hw Hp. destruct inp as [d|d]; [|apply gene_permutation_norm; assumption].
  assert (Hrows : Forall (fun row => Permutation p (seq 0 (length row))) d).
  { unfold well_shaped in Hw. rewrite Forall_forall in *. intros row Hrow. rewrite (Hw row Hrow). exact Hp. }
  destruct (has_negative d) eqn:Eneg.
  - rewrite !raw_negative by (try rewrite has_negative_permute; assumption).
    rewrite !marker_cache_spec.
    rewrite (forallb_ext_in (fun g => zmem g (permute p genes)) (fun g => zmem g genes))
      by (intros g _; apply zmem_perm; apply permute_perm; assumption).
    destruct (forallb (fun g => zmem g genes) (concat lists)); reflexivity.
  - rewrite !raw_equals_declared by (try rewrite has_negative_permute; assumption).
    rewrite map_map.
    rewrite (map_ext_in (fun x => log2cpm_row (permute p x)) (fun x => permute p (log2cpm_row x))).
    + rewrite <- (map_map log2cpm_row (permute p)). apply gene_permutation_norm; [assumption| |assumption].
      unfold well_shaped in *. rewrite Forall_forall in *. intros r Hr. apply in_map_iff in Hr.
      destruct Hr as [row [Hrow Hin]]. subst r. rewrite log2cpm_row_length. apply Hw. assumption.
    + intros row Hrow. apply log2cpm_permute. rewrite Forall_forall in Hrows. apply Hrows. assumption.
Qed.

(* --- extra genes (declared-normalised input) --- *)
Lemma extra_genes_irrelevant keep genes d lists :
  NoDup genes -> well_shaped genes d ->
  (forall g, In g (concat lists) -> keep g = true) ->
  prepare_query (filter keep genes) (DeclNorm (map (drop_cols keep genes) d)) lists =
  prepare_query genes (DeclNorm d) lists.
Proof.
  intros Hn Hw Hk. apply prepare_agree.
  - apply NoDup_filter. assumption.
  - assumption.
  - unfold well_shaped in *. rewrite Forall_forall in *. intros r Hr. apply in_map_iff in Hr.
    destruct Hr as [row [Hrow Hin]]. subst r. apply drop_cols_length. apply Hw. assumption.
  - assumption.
  - intros g Hg. rewrite filter_In. specialize (Hk g Hg). tauto.
  - unfold well_shaped in Hw. rewrite Forall_forall in Hw.
    apply Forall2_map_l.
    apply Forall2_same. intros row Hrow g Hg. apply lookup_drop; [apply Hw; assumption | apply Hk; assumption].
Qed.

(* --- scale invariance of the whole preparation --- *)
Lemma has_negative_scale ks d :
  Forall (fun k => 0 < k) ks -> length ks = length d -> has_negative (scale_rows ks d) = has_negative d.
Proof.
  intros Hks. revert d; induction Hks as [|k t Hk Ht IH]; intros d Hl; destruct d as [|row d]; try discriminate; [reflexivity|].
  unfold scale_rows, has_negative in *. simpl. rewrite existsb_neg_scale by assumption. f_equal.
  apply IH. simpl in Hl. lia.
Qed.

Lemma log2cpm_scale_rows ks d :
  Forall (fun k => 0 < k) ks -> length ks = length d -> Forall nonneg_row d ->
  map log2cpm_row (scale_rows ks d) = map log2cpm_row d.
Proof.
  intros Hks. revert d; induction Hks as [|k t Hk Ht IH]; intros d Hl Hn; destruct d as [|row d]; try discriminate; [reflexivity|].
  inversion Hn; subst. unfold scale_rows in *. simpl. f_equal.
  - apply log2cpm_scale; assumption.
  - apply IH; [simpl in Hl; lia | assumption].
Qed.

Lemma scale_invariant ks genes d lists :
  Forall (fun k => 0 < k) ks -> length ks = length d ->
  prepare_query genes (DeclRaw (scale_rows ks d)) lists = prepare_query genes (DeclRaw d) lists.
Proof.
  intros Hks Hl. destruct (has_negative d) eqn:Eneg.
  - rewrite !raw_negative by (try rewrite has_negative_scale; assumption). reflexivity.
  - rewrite !raw_equals_declared by (try rewrite has_negative_scale; assumption).
    rewrite log2cpm_scale_rows; [reflexivity | assumption | assumption |]. apply has_negative_false. assumption.
Qed.

(* --- rejections --- *)
Lemma negative_raw_rejected genes d lists r :
  has_negative d = true -> prepare_query genes (DeclRaw d) lists <> Ok r.
Proof.
  intros Hneg. rewrite raw_negative by assumption. destruct (marker_cache genes lists); discriminate.
Qed.

Lemma negative_raw_error genes d lists am :
  has_negative d = true -> marker_cache genes lists = Ok am ->
  prepare_query genes (DeclRaw d) lists = Err ENegative.
Proof. intros Hneg Hm. rewrite raw_negative by assumption. rewrite Hm. reflexivity. Qed.

Lemma normalise_after_downsample_rejected (m m' : cbg Z) sel :
  downsample_genes m sel = Ok m' ->
  to_log2cpm m' = Err (match c_norm m with Raw => EDownsampled | Log2CPM => ENotRaw end).
Proof.
  unfold downsample_genes. destruct (negb (znodup_b sel)); [discriminate|].
  destruct (idx_array (c_genes m) sel); [|discriminate].
  destruct (opt_all (map (take_cols l) (c_data m))); [|discriminate].
  intros H; inversion H; subst. unfold Normalize.to_log2cpm. cbn [c_norm c_down].
  destruct (c_norm m); reflexivity.
Qed.

End Prepare.

(* ------------------------------------------------------------------ *)
(* the instance used on the wire satisfies the assumption made about lg
   (so the assumption is satisfiable by a function that is injective on values) *)

Lemma fnorm_parts n d : 0 < d ->
  let g := Z.gcd n d in
  0 < g /\ n = g * (n / g) /\ d = g * (d / g) /\ Z.gcd (n / g) (d / g) = 1 /\ 0 < d / g.
Proof.
  intros Hd g.
  assert (Hg : 0 < g).
  { pose proof (Z.gcd_nonneg n d). destruct (Z.eq_dec g 0) as [E|E]; [|unfold g in *; lia].
    apply Z.gcd_eq_0 in E. lia. }
  assert (Hn : n = g * (n / g)).
  { apply Z_div_exact_full_2; [lia|]. apply Z.mod_divide; [lia|]. apply Z.gcd_divide_l. }
  assert (Hdd : d = g * (d / g)).
  { apply Z_div_exact_full_2; [lia|]. apply Z.mod_divide; [lia|]. apply Z.gcd_divide_r. }
  repeat split; try assumption.
  - apply Z.gcd_div_gcd; [lia | reflexivity].
  - nia.
Qed.

Lemma fnorm_pos a : 0 < snd a -> fnorm a = (fst a / Z.gcd (fst a) (snd a), snd a / Z.gcd (fst a) (snd a)).
Proof.
  intros Hd. unfold fnorm. destruct (fnorm_parts (fst a) (snd a) Hd) as [Hg _].
  destruct (Z.gcd (fst a) (snd a) =? 0) eqn:E; [apply Z.eqb_eq in E; lia | reflexivity].
Qed.

Lemma fnorm_ext a b : 0 < snd a -> 0 < snd b -> feq a b -> fnorm a = fnorm b.
Proof.
  intros Ha Hb Hab. rewrite !fnorm_pos by assumption. destruct a as [n1 d1]. destruct b as [n2 d2].
  unfold feq in Hab. simpl in *.
  destruct (fnorm_parts n1 d1 Ha) as [Hg1 [Hn1 [Hd1 [Hc1 Hp1]]]].
  destruct (fnorm_parts n2 d2 Hb) as [Hg2 [Hn2 [Hd2 [Hc2 Hp2]]]].
  set (g1 := Z.gcd n1 d1) in *. set (g2 := Z.gcd n2 d2) in *.
  set (a1 := n1 / g1) in *. set (b1 := d1 / g1) in *. set (a2 := n2 / g2) in *. set (b2 := d2 / g2) in *.
  assert (Hx : a1 * b2 = a2 * b1).
  { assert (H : (g1 * g2) * (a1 * b2) = (g1 * g2) * (a2 * b1)).
    { replace (g1 * g2 * (a1 * b2)) with ((g1 * a1) * (g2 * b2)) by ring.
      replace (g1 * g2 * (a2 * b1)) with ((g2 * a2) * (g1 * b1)) by ring.
      rewrite <- Hn1, <- Hd2, <- Hn2, <- Hd1. exact Hab. }
    apply Z.mul_reg_l in H; [exact H | nia]. }
  assert (Hb12 : b1 = b2).
  { apply Z.divide_antisym_nonneg; try lia.
    - apply (Z.gauss b1 a1 b2); [exists a2; lia | rewrite Z.gcd_comm; exact Hc1].
    - apply (Z.gauss b2 a2 b1); [exists a1; lia | rewrite Z.gcd_comm; exact Hc2]. }
  f_equal; [|exact Hb12]. rewrite <- Hb12 in Hx. apply Z.mul_reg_r in Hx; [exact Hx | lia].
Qed.

(* and it does separate different values *)
Lemma fnorm_sound a : 0 < snd a -> feq (fnorm a) a /\ 0 < snd (fnorm a).
Proof.
  intros Ha. rewrite fnorm_pos by assumption. destruct a as [n d]. simpl in *.
  destruct (fnorm_parts n d Ha) as [Hg [Hn [Hd [_ Hp]]]]. unfold feq. simpl. split; [|exact Hp].
  set (g := Z.gcd n d) in *. rewrite Hd at 1. rewrite Hn at 2. ring.
Qed.

Lemma fnorm_injective a b : 0 < snd a -> 0 < snd b -> fnorm a = fnorm b -> feq a b.
Proof.
  intros Ha Hb H. destruct (fnorm_sound a Ha) as [Fa Pa]. destruct (fnorm_sound b Hb) as [Fb Pb].
  rewrite H in Fa, Pa. unfold feq in *.
  destruct a as [n1 d1]; destruct b as [n2 d2]; destruct (fnorm (n2, d2)) as [u v]; simpl in *.
  assert (E : v * (n1 * d2) = v * (n2 * d1)).
  { replace (v * (n1 * d2)) with ((n1 * v) * d2) by ring. rewrite <- Fa.
    replace (u * d1 * d2) with ((u * d2) * d1) by ring. rewrite Fb. ring. }
  apply Z.mul_reg_l in E; [exact E | lia].
Qed.

(* ------------------------------------------------------------------ *)
(* statements in the form used by Props/C07.v                          *)

Lemma scale_invariant_full (R : Type) (lg : frac -> R) :
  (forall a b, 0 < snd a -> 0 < snd b -> feq a b -> lg a = lg b) ->
  (forall k row, 0 < k -> Forall (fun x => 0 <= x) row ->
     Forall2 feq (cpm_row (map (Z.mul k) row)) (cpm_row row) /\
     log2cpm_row R lg (map (Z.mul k) row) = log2cpm_row R lg row) /\
  (forall ks genes d lists, Forall (fun k => 0 < k) ks -> length ks = length d ->
     prepare_query R lg genes (DeclRaw (scale_rows ks d)) lists = prepare_query R lg genes (DeclRaw d) lists).
Proof.
  intros lg_ext. split.
  - intros k row Hk Hn. split; [apply cpm_scale; assumption | apply log2cpm_scale; assumption].
  - intros ks genes d lists Hks Hl. apply scale_invariant; assumption.
Qed.

Lemma scale_invariant_rational (R : Type) (lg : frac -> R) :
  (forall a b, 0 < snd a -> 0 < snd b -> feq a b -> lg a = lg b) ->
  forall a b r1 r2, 0 < a -> 0 < b -> Forall (fun x => 0 <= x) r1 ->
    Forall2 (fun x y => a * x = b * y) r1 r2 ->
    Forall2 feq (cpm_row r1) (cpm_row r2) /\ log2cpm_row R lg r1 = log2cpm_row R lg r2.
Proof.
  intros lg_ext a b r1 r2 Ha Hb Hn Hp. split.
  - apply (cpm_proportional a b); assumption.
  - apply (log2cpm_proportional R lg lg_ext a b); assumption.
Qed.

Lemma gene_permutation_both (R : Type) (lg : frac -> R) p genes lists :
  NoDup genes -> Permutation p (seq 0 (length genes)) ->
  (forall d : list (list Z), Forall (fun r => length r = length genes) d ->
     prepare_query R lg (permute p genes) (DeclRaw (map (permute p) d)) lists =
     prepare_query R lg genes (DeclRaw d) lists) /\
  (forall d : list (list R), Forall (fun r => length r = length genes) d ->
     prepare_query R lg (permute p genes) (DeclNorm (map (permute p) d)) lists =
     prepare_query R lg genes (DeclNorm d) lists).
Proof.
  intros Hn Hp. split; intros d Hw.
  - exact (gene_permutation R lg p genes (DeclRaw d) lists Hn Hw Hp).
  - exact (gene_permutation R lg p genes (DeclNorm d) lists Hn Hw Hp).
Qed.

Lemma negative_raw_both (R : Type) (lg : frac -> R) genes d lists :
  has_negative d = true ->
  (forall r, prepare_query R lg genes (DeclRaw d) lists <> Ok r) /\
  (forall am, marker_cache genes lists = Ok am -> prepare_query R lg genes (DeclRaw d) lists = Err ENegative).
Proof.
  intros Hneg. split.
  - intros r. apply negative_raw_rejected. assumption.
  - intros am. apply negative_raw_error. assumption.
Qed.

Lemma prepare_agree_assoc (R : Type) (lg : frac -> R) genes genes' (d d' : list (list R)) lists :
  NoDup genes -> NoDup genes' ->
  Forall (fun r => length r = length genes) d -> Forall (fun r => length r = length genes') d' ->
  (forall g, In g (concat lists) -> (In g genes <-> In g genes')) ->
  Forall2 (fun row row' => forall g, In g (concat lists) ->
             zassoc g (combine genes row) = zassoc g (combine genes' row')) d d' ->
  prepare_query R lg genes (DeclNorm d) lists = prepare_query R lg genes' (DeclNorm d') lists.
Proof.
  intros Hn Hn' Hw Hw' Hin Hag. apply prepare_agree; try assumption.
  eapply Forall2_weaken; [|exact Hag]. intros row row' H g Hg. rewrite !lookup_zassoc. apply H. assumption.
Qed.
