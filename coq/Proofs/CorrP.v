(* Cauchy-Schwarz over Z for the centred cross products of Model/Vote.v, and its
   consequence for C18: a query equal to a reference row is never beaten. *)
From Coq Require Import ZArith List Bool Lia Arith.
From CTM Require Import Base.Sx Model.Vote.
Import ListNotations.
Open Scope Z_scope.

Lemma dot_self_nonneg a : 0 <= dot a a.
Proof. induction a as [|x t IH]; cbn; nia. Qed.

Lemma cs_aux a b x y : length a = length b ->
  0 <= x * x * dot b b - 2 * x * y * dot a b + y * y * dot a a.
Proof.
  revert b. induction a as [|h t IH]; intros [|k u] Hl; try discriminate; cbn [dot]; [rewrite !Z.mul_0_r; lia|].
  injection Hl as Hl. specialize (IH u Hl).
  pose proof (Z.square_nonneg (x * k - y * h)) as Hsq.
  replace (x * x * (k * k + dot u u) - 2 * x * y * (h * k + dot t u) + y * y * (h * h + dot t t))
    with ((x * k - y * h) * (x * k - y * h) + (x * x * dot u u - 2 * x * y * dot t u + y * y * dot t t)) by ring.
  lia.
Qed.

Lemma dot_zero_r a b : length a = length b -> dot b b = 0 -> dot a b = 0.
Proof.
  revert b. induction a as [|h t IH]; intros [|k u] Hl Hz; try discriminate; cbn [dot] in *; [reflexivity|].
  injection Hl as Hl. pose proof (dot_self_nonneg u).
  assert (k = 0) by nia. assert (dot u u = 0) by nia. subst k. rewrite IH by assumption. lia.
Qed.

Lemma cauchy_schwarz a b : length a = length b -> dot a b * dot a b <= dot a a * dot b b.
Proof.
  intros Hl. pose proof (dot_self_nonneg b) as Hb.
  destruct (Z.eq_dec (dot b b) 0) as [E | NE].
  - rewrite (dot_zero_r a b Hl E), E. lia.
  - pose proof (cs_aux a b (dot a b) (dot b b) Hl) as H.
    assert (0 < dot b b) by lia. nia.
Qed.

(* centring: dot of the centred, n-scaled vectors *)
Lemma dot_centred a b n sa sb : length a = length b ->
  dot (map (fun x => n * x - sa) a) (map (fun y => n * y - sb) b) =
  n * n * dot a b - n * sb * zsum a - n * sa * zsum b + Z.of_nat (length a) * sa * sb.
Proof.
  revert b. induction a as [|h t IH]; intros [|k u] Hl; try discriminate; [cbn; lia|].
  injection Hl as Hl. specialize (IH u Hl).
  cbn [map dot zsum fold_right length]. rewrite IH. unfold zsum. rewrite Nat2Z.inj_succ. lia.
Qed.

Lemma ccov_centred a b : length a = length b ->
  let n := Z.of_nat (length a) in
  dot (map (fun x => n * x - zsum a) a) (map (fun y => n * y - zsum b) b) = n * ccov a b.
Proof.
  intros Hl n. rewrite dot_centred by exact Hl. unfold ccov. fold n. lia.
Qed.

Lemma ccov_cauchy_schwarz a b : length a = length b ->
  ccov a b * ccov a b <= ccov a a * ccov b b.
Proof.
  intros Hl. set (n := Z.of_nat (length a)).
  assert (Hn : 0 <= n) by (unfold n; lia).
  destruct (Z.eq_dec n 0) as [E | NE].
  - unfold ccov. fold n. rewrite <- Hl. fold n. rewrite E.
    assert (length a = 0%nat) by (unfold n in E; lia).
    destruct a; [|discriminate]. destruct b; [|discriminate]. cbn. lia.
  - pose proof (ccov_centred a b Hl) as Hab. pose proof (ccov_centred a a eq_refl) as Haa.
    pose proof (ccov_centred b b eq_refl) as Hbb. cbn zeta in *. fold n in Hab, Haa.
    rewrite <- Hl in Hbb. fold n in Hbb.
    set (A := map (fun x => n * x - zsum a) a) in *.
    set (B := map (fun y => n * y - zsum b) b) in *.
    assert (HlAB : length A = length B) by (unfold A, B; rewrite !map_length; exact Hl).
    pose proof (cauchy_schwarz A B HlAB) as CS.
    rewrite Hab, Haa, Hbb in CS.
    assert (0 < n) by lia. nia.
Qed.

Lemma ccov_self_nonneg a : 0 <= ccov a a.
Proof.
  set (n := Z.of_nat (length a)).
  pose proof (ccov_centred a a eq_refl) as H. cbn zeta in H. fold n in H.
  pose proof (dot_self_nonneg (map (fun x => n * x - zsum a) a)) as Hd. rewrite H in Hd.
  assert (0 <= n) by (unfold n; lia).
  destruct (Z.eq_dec n 0) as [E | NE]; [|nia].
  assert (length a = 0%nat) by (unfold n in E; lia). destruct a; [cbn; lia | discriminate].
Qed.

(* C18: the key of a reference row equal to the query is never strictly below another key *)
Lemma self_key_maximal q r : length q = length r -> 0 < ccov q q ->
  key_lt (ckey q q) (ckey q r) = false.
Proof.
  intros Hl Hv. unfold ckey.
  assert (Eq : (ccov q q =? 0) = false) by (apply Z.eqb_neq; lia). rewrite Eq.
  destruct (ccov r r =? 0) eqn:Er; unfold key_lt.
  - assert (E1 : (ccov q q <? 0) = false) by (apply Z.ltb_ge; lia). rewrite E1.
    change (0 <? 0) with false. cbn iota. apply Z.ltb_ge. nia.
  - apply Z.eqb_neq in Er. pose proof (ccov_self_nonneg r) as Hr.
    assert (E1 : (ccov q q <? 0) = false) by (apply Z.ltb_ge; lia). rewrite E1.
    destruct (ccov q r <? 0); [reflexivity|].
    apply Z.ltb_ge. pose proof (ccov_cauchy_schwarz q r Hl). nia.
Qed.

(* a row whose correlation with the query is not perfect is strictly below the query's own key *)
Lemma other_key_below q r : length q = length r -> 0 < ccov q q ->
  (ccov r r = 0 \/ ccov q r < 0 \/ ccov q r * ccov q r < ccov q q * ccov r r) ->
  key_lt (ckey q r) (ckey q q) = true.
Proof.
  intros Hl Hv Hnp. unfold ckey.
  assert (Eq : (ccov q q =? 0) = false) by (apply Z.eqb_neq; lia). rewrite Eq.
  pose proof (ccov_self_nonneg r) as Hr.
  destruct (ccov r r =? 0) eqn:Er; unfold key_lt.
  - change (0 <? 0) with false. cbn iota.
    assert (E1 : (ccov q q <? 0) = false) by (apply Z.ltb_ge; lia). rewrite E1.
    apply Z.ltb_lt. nia.
  - apply Z.eqb_neq in Er.
    assert (E1 : (ccov q q <? 0) = false) by (apply Z.ltb_ge; lia).
    destruct (ccov q r <? 0) eqn:Ec; rewrite E1; [reflexivity|].
    apply Z.ltb_ge in Ec. apply Z.ltb_lt.
    destruct Hnp as [H | [H | H]]; [lia | lia |]. nia.
Qed.
