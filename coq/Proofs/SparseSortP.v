(* Lemmas about the sorting helpers of Model/Sparse.v: sort_by, argsort, unique,
   index_of, merge_index_list. *)
From Coq Require Import List Arith ZArith Lia Bool Permutation Sorted.
From CTM Require Import Base.Sx Base.ListX Model.Sparse Proofs.SparseP.
Import ListNotations.

(* ================================================================ sort_by *)
Lemma ins_by_perm {A} (key : A -> nat) x l : Permutation (ins_by key x l) (x :: l).
Proof.
  induction l as [|y t IH]; cbn; [reflexivity|].
  destruct (key x <=? key y); [reflexivity|].
  rewrite IH. apply perm_swap.
Qed.

Lemma sort_by_perm {A} (key : A -> nat) l : Permutation (sort_by key l) l.
Proof.
  induction l as [|x t IH]; cbn; [reflexivity|].
  rewrite ins_by_perm. constructor. exact IH.
Qed.

Lemma sort_by_length {A} (key : A -> nat) l : length (sort_by key l) = length l.
Proof. apply Permutation_length, sort_by_perm. Qed.

Lemma ins_by_sorted {A} (key : A -> nat) x l :
  Sorted le (map key l) -> Sorted le (map key (ins_by key x l)).
Proof.
  induction l as [|y t IH]; intros H; cbn; [repeat constructor|].
  destruct (key x <=? key y) eqn:E.
  - apply Nat.leb_le in E. cbn. constructor; [exact H | constructor; exact E].
  - apply Nat.leb_gt in E. cbn in H. inversion H as [|? ? Ht Hhd]; subst.
    cbn. constructor; [apply IH; exact Ht|].
    destruct t as [|z t']; cbn.
    + constructor. lia.
    + destruct (key x <=? key z); cbn; constructor; [lia|].
      inversion Hhd; subst. assumption.
Qed.

Lemma sort_by_sorted {A} (key : A -> nat) l : Sorted le (map key (sort_by key l)).
Proof. induction l as [|x t IH]; cbn; [constructor | apply ins_by_sorted; exact IH]. Qed.

(* sorting a sorted list changes nothing *)
Lemma sort_by_id_sorted l : Sorted le l -> sort_by (fun x => x) l = l.
Proof.
  induction l as [|x t IH]; intros H; [reflexivity|].
  inversion H as [|? ? Ht Hhd]; subst.
  change (sort_by (fun x0 : nat => x0) (x :: t)) with (ins_by (fun x0 : nat => x0) x (sort_by (fun x0 : nat => x0) t)).
  rewrite (IH Ht).
  destruct t as [|y t']; [reflexivity|]. cbn [ins_by]. inversion Hhd; subst.
  replace (x <=? y) with true by (symmetry; apply Nat.leb_le; assumption). reflexivity.
Qed.

Lemma le_strongly l : Sorted le l -> StronglySorted le l.
Proof. apply Sorted_StronglySorted. intros a b c; lia. Qed.

Lemma lt_strongly l : Sorted lt l -> StronglySorted lt l.
Proof. apply Sorted_StronglySorted. intros a b c; lia. Qed.

Lemma sorted_le_nodup_lt l : Sorted le l -> NoDup l -> Sorted lt l.
Proof.
  intros H ND. apply le_strongly in H. induction H as [|x t Ht IH Hall]; [constructor|].
  inversion ND as [|? ? Hn ND']; subst. constructor; [apply IH; exact ND'|].
  destruct t as [|y t']; constructor.
  inversion Hall as [|? ? Hxy _]; subst.
  assert (x <> y) by (intros ->; apply Hn; left; reflexivity). lia.
Qed.

Lemma sorted_lt_le l : Sorted lt l -> Sorted le l.
Proof.
  induction 1 as [|x t Ht IH Hhd]; constructor; [exact IH|].
  destruct Hhd; constructor. lia.
Qed.

Lemma sorted_lt_nodup l : Sorted lt l -> NoDup l.
Proof.
  intros H. apply lt_strongly in H. induction H as [|x t Ht IH Hall]; constructor; [|exact IH].
  intros Hin. rewrite Forall_forall in Hall. specialize (Hall x Hin). lia.
Qed.

Lemma dedup_sorted_lt l : Sorted lt l -> dedup_sorted l = l.
Proof.
  induction l as [|x t IH]; intros H; [reflexivity|].
  inversion H as [|? ? Ht Hhd]; subst. destruct t as [|y t']; [reflexivity|].
  inversion Hhd; subst.
  change (dedup_sorted (x :: y :: t')) with (if x =? y then dedup_sorted (y :: t') else x :: dedup_sorted (y :: t')).
  replace (x =? y) with false by (symmetry; apply Nat.eqb_neq; lia).
  rewrite (IH Ht). reflexivity.
Qed.

(* np.unique of a strictly increasing list *)
Lemma unique_sorted_lt l : Sorted lt l -> unique l = l.
Proof.
  intros H. unfold unique. rewrite sort_by_id_sorted by (apply sorted_lt_le; exact H).
  apply dedup_sorted_lt. exact H.
Qed.

(* ================================================================ argsort *)
Lemma combine_seq_spec (rows : list nat) a :
  Forall (fun p => nth (snd p - a) rows 0 = fst p /\ a <= snd p < a + length rows)
         (combine rows (seq a (length rows))).
Proof.
  revert a. induction rows as [|x t IH]; intros a; cbn; constructor.
  - cbn. rewrite Nat.sub_diag. split; [reflexivity | lia].
  - eapply Forall_impl; [|apply (IH (S a))]. cbn. intros [k i] [H1 H2]. cbn in *.
    replace (i - a) with (S (i - S a)) by lia. split; [exact H1 | lia].
Qed.

(* np.argsort: a permutation sd of the positions such that rows[sd] is sorted and is a
   permutation of rows *)
Lemma argsort_spec rows :
  let sd := argsort rows in
  let srt := map (fun i => nth i rows 0) sd in
  Permutation sd (seq 0 (length rows)) /\ Permutation srt rows /\ Sorted le srt.
Proof.
  cbn zeta. unfold argsort.
  set (P := sort_by fst (combine rows (seq 0 (length rows)))).
  assert (PP : Permutation P (combine rows (seq 0 (length rows)))) by apply sort_by_perm.
  assert (HF : Forall (fun p => nth (snd p) rows 0 = fst p) P).
  { eapply Permutation_Forall; [apply Permutation_sym; exact PP|].
    eapply Forall_impl; [|apply (combine_seq_spec rows 0)]. cbn. intros p [H _].
    rewrite Nat.sub_0_r in H. exact H. }
  assert (E : map (fun i => nth i rows 0) (map snd P) = map fst P).
  { rewrite map_map. apply map_ext_in. intros p Hp. rewrite Forall_forall in HF. apply HF. exact Hp. }
  rewrite E. split; [|split].
  - eapply Permutation_trans; [apply Permutation_map; exact PP|].
    rewrite map_snd_combine by (rewrite seq_length; reflexivity). reflexivity.
  - eapply Permutation_trans; [apply Permutation_map; exact PP|].
    rewrite map_fst_combine by (rewrite seq_length; reflexivity). reflexivity.
  - apply sort_by_sorted.
Qed.

Lemma argsort_length rows : length (argsort rows) = length rows.
Proof.
  destruct (argsort_spec rows) as (H & _). cbn zeta in H.
  rewrite (Permutation_length H). apply seq_length.
Qed.

(* ================================================================ index_of *)
Lemma index_of_In x l :
  In x l -> exists k, index_of x l = Some k /\ k < length l /\ nth k l 0 = x.
Proof.
  induction l as [|y t IH]; intros H; [destruct H|]. cbn [index_of].
  destruct (x =? y) eqn:E.
  - apply Nat.eqb_eq in E. subst. exists 0. cbn. repeat split. lia.
  - apply Nat.eqb_neq in E. destruct H as [H|H]; [congruence|].
    destruct (IH H) as (k & E1 & E2 & E3). rewrite E1. exists (S k). cbn. repeat split; [lia | exact E3].
Qed.

Lemma index_of_nth l k :
  NoDup l -> k < length l -> index_of (nth k l 0) l = Some k.
Proof.
  revert k. induction l as [|y t IH]; intros k ND Hk; [cbn in Hk; lia|].
  inversion ND as [|? ? Hn ND']; subst. destruct k as [|k]; cbn [nth index_of].
  - rewrite Nat.eqb_refl. reflexivity.
  - cbn in Hk. destruct (nth k t 0 =? y) eqn:E.
    + apply Nat.eqb_eq in E. exfalso. apply Hn. rewrite <- E. apply nth_In. lia.
    + rewrite IH by (assumption || lia). reflexivity.
Qed.

Lemma index_of_Some x l k : index_of x l = Some k -> k < length l /\ nth k l 0 = x.
Proof.
  revert k. induction l as [|y t IH]; intros k H; [discriminate|]. cbn [index_of] in H.
  destruct (x =? y) eqn:E.
  - apply Nat.eqb_eq in E. inversion H; subst. cbn. split; [lia | reflexivity].
  - destruct (index_of x t) as [j|]; [|discriminate]. inversion H; subst.
    destruct (IH j eq_refl) as [I1 I2]. cbn. split; [lia | exact I2].
Qed.

(* ================================================================ merge_index_list *)
(* the row numbers a list of ranges stands for *)
Definition expand (rgs : list (nat * nat)) : list nat :=
  concat (map (fun rg => seq (fst rg) (snd rg - fst rg)) rgs).

Lemma seq_snoc a n : seq a (S n) = seq a n ++ [a + n].
Proof. rewrite <- Nat.add_1_r. rewrite seq_app. reflexivity. Qed.

Lemma merge_ranges_expand rest : forall lo prev,
  lo <= prev -> Sorted lt (prev :: rest) ->
  expand (merge_ranges_from lo prev rest) = seq lo (S prev - lo) ++ rest.
Proof.
  induction rest as [|x t IH]; intros lo prev Hlo HS.
  - unfold expand. cbn. rewrite !app_nil_r. reflexivity.
  - inversion HS as [|? ? Ht Hhd]; subst. inversion Hhd as [|? ? Hpx]; subst.
    cbn [merge_ranges_from]. destruct (1 <? x - prev) eqn:E.
    + unfold expand. cbn [map concat fst snd]. fold (expand (merge_ranges_from x x t)).
      rewrite IH by (lia || assumption). replace (S x - x) with 1 by lia. reflexivity.
    + apply Nat.ltb_ge in E. assert (x = S prev) by lia. subst x.
      rewrite IH by (lia || assumption).
      replace (S (S prev) - lo) with (S (S prev - lo)) by lia.
      rewrite seq_snoc. rewrite <- app_assoc. cbn [app]. do 3 f_equal. lia.
Qed.

Lemma merge_ranges_bounds n rest : forall lo prev,
  lo <= prev -> Sorted lt (prev :: rest) -> Forall (fun r => r < n) (prev :: rest) ->
  Forall (fun rg => fst rg < snd rg /\ snd rg <= n) (merge_ranges_from lo prev rest).
Proof.
  induction rest as [|x t IH]; intros lo prev Hlo HS HF.
  - cbn. constructor; [|constructor]. inversion HF; subst. cbn. lia.
  - inversion HS as [|? ? Ht Hhd]; subst. inversion Hhd as [|? ? Hpx]; subst.
    inversion HF as [|? ? Hp HF']; subst.
    cbn [merge_ranges_from]. destruct (1 <? x - prev).
    + constructor; [cbn; lia|]. apply IH; [lia | assumption | assumption].
    + apply IH; [lia | assumption | assumption].
Qed.

(* merge_index_list of a non-empty strictly increasing list of rows below n: ranges
   inside [0, n] that stand for exactly those rows, in order *)
Lemma merge_index_list_sorted n l :
  l <> [] -> Sorted lt l -> Forall (fun r => r < n) l ->
  exists rgs, merge_index_list l = Ok rgs /\ expand rgs = l /\
              Forall (fun rg => fst rg < snd rg /\ snd rg <= n) rgs.
Proof.
  intros Hne HS HF. unfold merge_index_list. rewrite unique_sorted_lt by exact HS.
  destruct l as [|x t]; [congruence|].
  exists (merge_ranges_from x x t). split; [reflexivity|]. split.
  - rewrite merge_ranges_expand by (lia || assumption). replace (S x - x) with 1 by lia. reflexivity.
  - apply merge_ranges_bounds; [lia | assumption | assumption].
Qed.
