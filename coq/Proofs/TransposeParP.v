(* Lemmas about Model/Transpose.v, part 4: the parallel version
   (_transpose_sparse_matrix_on_disk_v2): slices of the row range transposed
   separately and joined with pointer offsets give the transposition of the whole. *)
From Coq Require Import List Arith ZArith Lia Bool.
From CTM Require Import Base.Sx Base.ListX Model.Sparse Model.Transpose
  Proofs.SparseP Proofs.TransposeP Proofs.TransposeFillP Proofs.TransposeSpecP.
Import ListNotations.

Lemma map_seq_shift {A} (G : nat -> A) a : forall k s,
  map (fun r => G (a + r)) (seq s k) = map G (seq (a + s) k).
Proof.
  induction k as [|k IH]; intros s; [reflexivity|]. cbn [seq map]. f_equal.
  rewrite IH. f_equal. f_equal. lia.
Qed.

Definition rows_of_range (es : list entry) (a b : nat) : list entry :=
  concat (map (out_row es) (seq a (b - a))).
Definition cnt_range (es : list entry) (a b : nat) : list nat :=
  map (fun r => length (out_row es r)) (seq a (b - a)).

(* the piece a worker writes for the slice [a, b) *)
Lemma piece_spec m ud imax a b :
  let es := all_entries m ud in
  let p := transpose_spec m ud imax (Some (a, b)) in
  ptr p = psums 0 (cnt_range es a b) /\
  idx p = map e_major (rows_of_range es a b) /\
  dat p = (if ud then map e_val (rows_of_range es a b) else []).
Proof.
  cbn zeta. unfold transpose_spec. cbn [ptr idx dat n_out_of fst snd].
  set (es := all_entries m ud). set (Es := apply_slice (Some (a, b)) es).
  assert (R : forall r, In r (seq 0 (b - a)) -> out_row Es r = map (shift_minor a) (out_row es (a + r))).
  { intros r Hr. apply in_seq in Hr. apply (out_row_entries es imax (Some (a, b)) r). cbn. lia. }
  assert (E1 : map (fun r => length (out_row Es r)) (seq 0 (b - a)) = cnt_range es a b).
  { unfold cnt_range. rewrite <- (Nat.add_0_r a) at 2.
    rewrite <- (map_seq_shift (fun r => length (out_row es r)) a (b - a) 0).
    apply map_ext_in. intros r Hr. rewrite (R r Hr), map_length. reflexivity. }
  assert (E2 : forall (A : Type) (f : entry -> A), (forall e, f (shift_minor a e) = f e) ->
               map f (spec_entries Es (b - a)) = map f (rows_of_range es a b)).
  { intros A f Hf. unfold spec_entries, rows_of_range. rewrite !concat_map, !map_map. f_equal.
    rewrite <- (Nat.add_0_r a) at 2.
    rewrite <- (map_seq_shift (fun r => map f (out_row es r)) a (b - a) 0).
    apply map_ext_in. intros r Hr. rewrite (R r Hr), map_map. apply map_ext. exact Hf. }
  split; [unfold psums; rewrite E1; reflexivity|]. split; [apply E2; reflexivity|].
  destruct ud; [apply E2; reflexivity | reflexivity].
Qed.

Lemma map_add_removelast_psums i0 : forall l k,
  map (fun x => x + i0) (removelast (psums k l)) = removelast (psums (k + i0) l).
Proof.
  unfold psums. induction l as [|x t IH]; intros k; [reflexivity|].
  cbn [cumsum_from].
  change (removelast (k :: (k + x) :: cumsum_from (k + x) t)) with (k :: removelast ((k + x) :: cumsum_from (k + x) t)).
  change (removelast ((k + i0) :: (k + i0 + x) :: cumsum_from (k + i0 + x) t))
    with ((k + i0) :: removelast ((k + i0 + x) :: cumsum_from (k + i0 + x) t)).
  cbn [map]. f_equal. rewrite IH. replace (k + x + i0) with (k + i0 + x) by lia. reflexivity.
Qed.

Lemma removelast_psums_app k l1 l2 :
  removelast (psums k (l1 ++ l2)) = removelast (psums k l1) ++ removelast (psums (k + sum_list l1) l2).
Proof. rewrite psums_app. apply removelast_app. unfold psums. discriminate. Qed.

Lemma rows_of_range_length es a b : a <= b -> length (rows_of_range es a b) = off es b - off es a.
Proof.
  intros H. pose proof (spec_entries_app es a b H) as SA. fold (rows_of_range es a b) in SA.
  apply (f_equal (@length _)) in SA. rewrite app_length, !spec_entries_off in SA. lia.
Qed.

Lemma cnt_range_sum es a b : a <= b -> sum_list (cnt_range es a b) = off es b - off es a.
Proof.
  intros H. rewrite <- rows_of_range_length by exact H. unfold rows_of_range, cnt_range.
  induction (seq a (b - a)) as [|r t IH]; [reflexivity|]. cbn [map concat]. rewrite app_length, <- IH.
  unfold sum_list. reflexivity.
Qed.

Lemma range_split a b n : a <= b -> b <= n -> seq a (n - a) = seq a (b - a) ++ seq b (n - b).
Proof.
  intros H1 H2. replace (n - a) with ((b - a) + (n - b)) by lia. rewrite seq_app. f_equal. f_equal. lia.
Qed.

(* joining the pieces of consecutive slices, pointers shifted by the entries before *)
Lemma merge_pieces m ud imax n : forall chs a,
  chained a chs n ->
  let es := all_entries m ud in
  merge_from (off es a) (map (fun s => transpose_spec m ud imax (Some s)) chs) =
  (removelast (psums (off es a) (cnt_range es a n)),
   (map e_major (rows_of_range es a n), if ud then map e_val (rows_of_range es a n) else [])).
Proof.
  induction chs as [|[a' b] t IH]; intros a CH; cbn zeta.
  - cbn in CH. subst a. unfold cnt_range, rows_of_range. rewrite Nat.sub_diag. cbn. destruct ud; reflexivity.
  - cbn [chained fst snd] in CH. destruct CH as (-> & Hab & CH).
    destruct (chained_bounds _ _ _ CH) as [Hbn _].
    cbn [map merge_from]. destruct (piece_spec m ud imax a b) as (Pp & Pi & Pd). cbn zeta in Pp, Pi, Pd.
    set (es := all_entries m ud) in *. rewrite Pp, Pi, Pd.
    rewrite map_length, rows_of_range_length by lia.
    replace (off es a + (off es b - off es a)) with (off es b) by (pose proof (off_mono es a b); lia).
    specialize (IH b CH). cbn zeta in IH. fold es in IH. rewrite IH. cbn [fst snd].
    rewrite map_add_removelast_psums. cbn [Nat.add].
    assert (RS : rows_of_range es a n = rows_of_range es a b ++ rows_of_range es b n).
    { unfold rows_of_range. rewrite (range_split a b n) by lia. rewrite map_app, concat_app. reflexivity. }
    assert (CS : cnt_range es a n = cnt_range es a b ++ cnt_range es b n).
    { unfold cnt_range. rewrite (range_split a b n) by lia. apply map_app. }
    rewrite RS, CS.
    rewrite removelast_psums_app, cnt_range_sum by lia.
    replace (off es a + (off es b - off es a)) with (off es b) by (pose proof (off_mono es a b); lia).
    destruct ud; rewrite ?map_app; reflexivity.
Qed.

Lemma res_map_ok {A B} (f : A -> res B) (g : A -> B) : forall l,
  (forall x, In x l -> f x = Ok (g x)) -> res_map f l = Ok (map g l).
Proof.
  induction l as [|x t IH]; intros H; [reflexivity|]. cbn [res_map map].
  rewrite (H x (or_introl eq_refl)). cbn [bind]. rewrite IH by (intros y Hy; apply H; right; exact Hy).
  reflexivity.
Qed.

(* whenever the function returns at all, it returns the specification *)
Lemma transpose_ok_spec m ud imax sl E L Lc t :
  1 <= L -> 1 <= Lc -> (ud = true -> length (dat m) = length (idx m)) ->
  (sl = None -> Forall (fun r => r < imax) (idx m)) ->
  transpose m ud imax sl E L Lc = Ok t -> t_out t = transpose_spec m ud imax sl.
Proof.
  intros HL HLc HD Hi EQ.
  destruct (transpose_exact m ud imax sl E L Lc HL HLc HD Hi) as (t' & EQ' & EO & _).
  rewrite EQ in EQ'. inversion EQ'; subst t'. exact EO.
Qed.

(* _transpose_sparse_matrix_on_disk_v2 returns, for every worker count >= 1 (more
   workers than rows, rows without entries, no stored value at all, no row at all
   included - the former findings F2w, F4, F4z, F4m), and what it returns is the
   transposition of the whole range *)
Theorem transpose_v2_exact m ud imax np E L Lc :
  1 <= np -> 1 <= L -> 1 <= Lc -> (ud = true -> length (dat m) = length (idx m)) ->
  Forall (fun r => r < imax) (idx m) ->
  transpose_v2 m ud imax np E L Lc = Ok (transpose_spec m ud imax None).
Proof.
  intros Hnp HL HLc HD HF. unfold transpose_v2.
  replace (np =? 0) with false by (symmetry; apply Nat.eqb_neq; lia).
  set (chunk := Nat.max 1 ((imax + np - 1) / np)).
  assert (Hc : 1 <= chunk) by apply Nat.le_max_l.
  rewrite (res_map_ok _ (fun s => transpose_spec m ud imax (Some s))).
  2:{ intros s _. destruct (transpose_exact m ud imax (Some s) E L Lc HL HLc HD) as (t & EQ & EO & _); [discriminate|].
      rewrite EQ, EO. reflexivity. }
  cbn [bind].
  assert (CH : chained 0 (range_chunks imax chunk) imax).
  { unfold range_chunks. apply (range_chunks_from_chained imax 0 imax chunk); lia. }
  pose proof (merge_pieces m ud imax imax _ 0 CH) as MP. cbn zeta in MP.
  change (off (all_entries m ud) 0) with 0 in MP.
  set (pieces := map (fun s => transpose_spec m ud imax (Some s)) (range_chunks imax chunk)) in *.
  set (es := all_entries m ud) in *.
  assert (LI : sum_list (map (fun p => length (idx p)) pieces) = length (fst (snd (merge_from 0 pieces)))).
  { clear. generalize 0. induction pieces as [|p t IH]; intros i0; [reflexivity|].
    cbn [map merge_from fst snd]. rewrite app_length, <- IH. unfold sum_list. reflexivity. }
  rewrite LI, MP. cbn [fst snd]. rewrite map_length, rows_of_range_length by lia.
  change (off es 0) with 0. rewrite Nat.sub_0_r.
  unfold transpose_spec. cbn [apply_slice n_out_of]. fold es. fold (cnts es imax).
  unfold rows_of_range, cnt_range. rewrite Nat.sub_0_r. fold (spec_entries es imax). fold (cnts es imax).
  f_equal. f_equal. change (off es imax) with (0 + sum_list (cnts es imax)).
  rewrite psums_removelast_last. reflexivity.
Qed.

(* no stored value at all: the parallel version, too, writes the empty matrix *)
Corollary transpose_v2_empty m ud imax np E L Lc :
  1 <= np -> 1 <= L -> 1 <= Lc -> idx m = [] -> (ud = true -> dat m = []) ->
  transpose_v2 m ud imax np E L Lc = Ok {| ptr := repeat 0 (S imax); idx := []; dat := [] |}.
Proof.
  intros Hnp HL HLc Hi Hd.
  rewrite (transpose_v2_exact m ud imax np E L Lc Hnp HL HLc).
  - f_equal. apply (transpose_spec_empty m ud imax None). cbn [apply_slice].
    unfold all_entries. rewrite map_length, seq_length, Hi. reflexivity.
  - intros U. rewrite Hi, (Hd U). reflexivity.
  - rewrite Hi. constructor.
Qed.
